import OnsagerModel.C27
import Generated.C27Facts
/-!
  Line protocol for C27 (one answer line per request line):

  ctx N size x chem,names,… inter(0/1,…) sitechem,… atomOrder               → ok   (guard flag: Generated.C27.guardsEmpty)
  G m0;m1;…                                                                  → ok <#perms>/<#ops>
  defects occ                                                                → key=i,j|key=… (insertion order) or -
  equiv occA chemorderA occB chemorderB                                      → some k mapping | none | err value
  imul k occ chemorder mapping                                               → <occ> <chemorder> after G[k] then reorder | err …
  super s00,…,s22 N b0x,b0y,b0z;b1x,…                                        → ok size inv9 t0;t1;… | err zero | err arithmetic
  cop r00,…,r22 t0,t1,t2 a',dx,dy,dz;…                                       → none | ops R9|tsuper|indexmap|geom # … | err …
  Empty names are written `~`.
-/
open Onsager Onsager.C27 Onsager.C28

structure St where
  sc : SiteCtx := { N := 1, size := 1, chemistry := [], inter := [], sitechem := [], atomOrder := [], guardEmpty := false }
  G : List (List Nat) := []
  S : M3 := []
  N : Nat := 0
  T : Option Trans := none
  pos : List (List Rat) := []

def parseNames (s : String) : List String :=
  if s = "-" then [] else (s.splitOn ",").map fun x => if x = "~" then "" else x

def parseRatListList? (s : String) : Option (List (List Rat)) :=
  if s = "-" then some [] else (s.splitOn ";").mapM parseRatList?

def rows3 (l : List Int) : M3 := [l.take 3, (l.drop 3).take 3, (l.drop 6).take 3]

def showM3 (m : M3) : String := showList m.flatten

def insertSorted (x : Nat) : List Nat → List Nat
  | [] => [x]
  | y :: ys => if x ≤ y then x :: y :: ys else y :: insertSorted x ys
def sortNat (l : List Nat) : List Nat := l.foldr insertSorted []

def showGErr : GErr → String
  | .zeroDivision => "err zero"
  | .arithmetic => "err arithmetic"
  | .key => "err key"

def handle (st : St) (line : String) : St × String :=
  match toks line with
  | ["ctx", n, size, _, chem, inter, sitechem, order] =>
    match parseNat? n, parseNat? size, parseNatList? inter, parseNatList? order with
    | some n, some size, some inter, some order =>
      ({ st with sc := { N := n, size := size, chemistry := parseNames chem, inter := inter.map (· != 0),
                         sitechem := parseNames sitechem, atomOrder := order,
                         guardEmpty := Generated.C27.guardsEmpty } }, "ok")
    | _, _, _, _ => (st, "bad-op")
  | ["G", g] =>
    match parseNatListList? g with
    | some G =>
      let n := st.sc.N * st.sc.size
      ({ st with G := G }, s!"ok {(G.filter (isPermB n)).length}/{G.length}")
    | none => (st, "bad-op")
  | ["defects", occ] =>
    match parseIntList? occ with
    | some occ =>
      let ks := defKeys st.sc occ
      (st, if ks.isEmpty then "-" else "|".intercalate (ks.map fun k =>
        s!"{if k = "" then "~" else k}={showList (sortNat (defSet st.sc occ k))}"))
    | none => (st, "bad-op")
  | ["equiv", oa, ca, ob, cb] =>
    match parseIntList? oa, parseNatListList? ca, parseIntList? ob, parseNatListList? cb with
    | some oa, some ca, some ob, some cb =>
      let a : Cell := { nchem := ca.length, occ := oa, chemorder := ca }
      let b : Cell := { nchem := cb.length, occ := ob, chemorder := cb }
      match equivalencemap st.sc st.G a b with
      | .error .value => (st, "err value")
      | .error .index => (st, "err index")
      | .ok none => (st, "none")
      | .ok (some (k, mp)) => (st, s!"some {k} {showListList mp}")
    | _, _, _, _ => (st, "bad-op")
  | ["imul", k, oa, ca, mp] =>
    match parseNat? k, parseIntList? oa, parseNatListList? ca, parseNatListList? mp with
    | some k, some oa, some ca, some mp =>
      let a : Cell := { nchem := ca.length, occ := oa, chemorder := ca }
      match st.G[k]? with
      | none => (st, "err index")
      | some m =>
        match reorder (imul a m) mp with
        | .ok c => (st, s!"{showList c.occ} {showListList c.chemorder}")
        | .error .value => (st, "err value")
        | .error .index => (st, "err index")
    | _, _, _, _ => (st, "bad-op")
  | ["super", s, n, basis] =>
    match parseIntList? s, parseNat? n, parseRatListList? basis with
    | some s, some n, some basis =>
      let S := rows3 s
      match maketrans S with
      | .error err => ({ st with T := none }, showGErr err)
      | .ok T =>
        ({ st with S := S, N := n, T := some T, pos := makesites T basis },
         s!"ok {T.size} {showM3 T.invsuper} {showListList T.translist}")
    | _, _, _ => (st, "bad-op")
  | ["cop", r, t, atoms] =>
    match parseIntList? r, parseRatList? t, parseIntListList? atoms, st.T with
    | some r, some t, some atoms, some T =>
      let g0 : CrysOp := { rot := rows3 r, trans := t,
                           atoms := atoms.map fun l => ((l.getD 0 0).toNat, l.drop 1) }
      match gengroupOp st.S st.N T g0 with
      | .error err => (st, showGErr err)
      | .ok none => (st, "none")
      | .ok (some ops) =>
        (st, "ops " ++ " # ".intercalate (ops.map fun g =>
          s!"{showM3 g.rot}|{showRatList g.trans}|{showList g.indexmap}|{if geomOK st.pos g then 1 else 0}"))
    | _, _, _, _ => (st, "bad-op")
  | _ => (st, "bad-op")

def main : IO Unit := do
  Onsager.stateLoop (← IO.getStdin) ({} : St) handle
