import OnsagerModel.C32
def main : IO Unit := do
  Onsager.stateLoop (← IO.getStdin) ({} : Onsager.C32.St) Onsager.C32.handle
