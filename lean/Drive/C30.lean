import OnsagerModel.C30
/-!
  Line protocol for C30
  dirs statename transitionname nstates ntrans      → name,name,…            (names joined by ',')
  fmt n                                             → zero-padded decimal
  flat mapping                                      → flat index list
  trans r00,…,r22 t0,t1,t2 flatmapping p0x,p0y,p0z;p1x,…   → q0x,q0y,q0z;…    (exact rationals)
-/
open Onsager Onsager.C30

def parseRatLL? (s : String) : Option (List (List Rat)) :=
  if s = "-" then some [] else (s.splitOn ";").mapM parseRatList?

def rows3 (l : List Int) : List (List Int) := [l.take 3, (l.drop 3).take 3, (l.drop 6).take 3]

def handle (line : String) : String :=
  match toks line with
  | ["dirs", a, b, n, m] =>
    match parseNat? n, parseNat? m with
    | some n, some m => ",".intercalate ((allDirs a.toList b.toList n m).map String.ofList)
    | _, _ => "bad-op"
  | ["fmt", n] =>
    match parseNat? n with
    | some n => String.ofList (fmt02Chars n)
    | none => "bad-op"
  | ["flat", mp] =>
    match parseNatListList? mp with
    | some mp => showList (flatMapping mp 0)
    | none => "bad-op"
  | ["trans", r, t, mp, pos] =>
    match parseIntList? r, parseRatList? t, parseNatList? mp, parseRatLL? pos with
    | some r, some t, some mp, some pos =>
      let out := transpl (rows3 r) t mp pos
      if out.isEmpty then "-" else ";".intercalate (out.map showRatList)
    | _, _, _, _ => "bad-op"
  | _ => "bad-op"

def main : IO Unit := do
  Onsager.lineLoop (← IO.getStdin) handle
