import OnsagerModel.Chain
def main : IO Unit := do
  Onsager.lineLoop (← IO.getStdin) Onsager.Chain.handle
