import OnsagerModel.C34
def main : IO Unit := do
  Onsager.stateLoop (← IO.getStdin) ([] : Onsager.C34.Store) Onsager.C34.handle
