import OnsagerModel.ChainMono
def main : IO Unit := do
  Onsager.lineLoop (← IO.getStdin) Onsager.Chain.handleMono
