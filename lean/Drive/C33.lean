import OnsagerModel.C33
def main : IO Unit := do
  Onsager.stateLoop (← IO.getStdin) ({} : Onsager.C33.Session) Onsager.C33.handle
