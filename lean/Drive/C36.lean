import OnsagerModel.C36
import Generated.C36Facts
/-!
  Line protocol for the C36 model.  Vectors `a,b,c`; a pair state is four tokens `i j R dx`; a cluster
  site is `c,i,r1,..`; site lists are separated by `;`; booleans `0`/`1`.

    ps.eq A B | ps.key A | ps.add A B | ps.sub A B | ps.xor A B | ps.neg A | ps.iszero A
    ne CLASS e                      (CLASS in GroupOp PairState ClusterSite Cluster vTK; e = value of ==)
    cs.eq S T | cs.key S | cs.neg S | cs.add S v | cs.sub S v
    cl.make t v ns SITES            -> ok SITES norder ENTRIES        (ENTRY = key:shiftpos)
    cl.eq t v ns SITES t v ns SITES -> 0 | 1 | error
    gop.eq rot trans cartrot imap rot trans cartrot imap   (flattened arrays; imap chems by `|`)
    vtk.eq pre be preT beT pre be preT beT | vtk.keyeq (same arguments)
    close x y
-/
open Onsager Onsager.C23 Onsager.C36

def ATOL : Rat := 1 / 100000000
def RTOL : Rat := 1 / 100000

def b01 (b : Bool) : String := if b then "1" else "0"

def ps? (i j R dx : String) : Option (Σ d, PairState d) := do
  let i ← parseInt? i; let j ← parseInt? j
  let R ← parseIntList? R; let dx ← parseRatList? dx
  if R.length ≠ dx.length then none
  else some ⟨R.length, { i := i, j := j, R := vecOfList _ R, dx := vecOfList _ dx }⟩

def showPs {d} (s : PairState d) : String := s!"{s.i} {s.j} {showIVec s.R} {showQVec s.dx}"

def showPsRes {d} (r : Except String (PairState d)) : String :=
  match r with
  | .ok s => showPs s
  | .error e => e

def site? (s : String) : Option (Σ d, ClusterSite d) := do
  let l ← parseIntList? s
  match l with
  | c :: i :: R => if c < 0 ∨ i < 0 then none else some ⟨R.length, { c := c.toNat, i := i.toNat, R := vecOfList _ R }⟩
  | _ => none

def showSite {d} (s : ClusterSite d) : String := showList ((s.c : Int) :: (s.i : Int) :: List.ofFn s.R)

def sites? (d : Nat) (s : String) : Option (List (ClusterSite d)) :=
  if s = "-" then some [] else
  (s.splitOn ";").mapM fun t => do
    let ⟨d', x⟩ ← site? t
    if h : d' = d then some (h ▸ x) else none

def dimOfSites (s : String) : Nat :=
  match (s.splitOn ";").head? with
  | some t => match parseIntList? t with
    | some l => l.length - 2
    | none => 0
  | none => 0

def showCluster {d} (c : Cluster d) : String :=
  let ss := ";".intercalate (c.sites.map showSite)
  let es := ";".intercalate (c.entries.map fun e => s!"{showList e.1}:{showList e.2}")
  s!"ok {ss} {c.norder} {es}"

def mk? (t v ns sites : String) : Option (Σ d, Except String (Cluster d)) := do
  let d := dimOfSites sites
  let l ← sites? d sites
  some ⟨d, Cluster.make Generated.C36.tsPairMarked l (t = "1") (v = "1") (ns = "1")⟩

def imap? (s : String) : Option (List (List Nat)) :=
  if s = "-" then some [] else (s.splitOn "|").mapM parseNatList?

def gop? (rot tr cr im : String) : Option GroupOpVal := do
  some { rot := ← parseIntList? rot, trans := ← parseRatList? tr, cartrot := ← parseRatList? cr, imap := ← imap? im }

def vtk? (a b c e : String) : Option VTK := do
  some { pre := ← parseRatList? a, betaene := ← parseRatList? b, preT := ← parseRatList? c, betaeneT := ← parseRatList? e }

def neCode (cls : String) : Option Nat :=
  match cls with
  | "GroupOp" => some Generated.C36.neGroupOp
  | "PairState" => some Generated.C36.nePairState
  | "ClusterSite" => some Generated.C36.neClusterSite
  | "Cluster" => some Generated.C36.neCluster
  | "vTK" => some Generated.C36.neVTK
  | _ => none

def binPs (f : {d : Nat} → PairState d → PairState d → String) (a b : Σ d, PairState d) : String :=
  if h : a.1 = b.1 then f a.2 (h ▸ b.2) else "dim-mismatch"

def handleQ (t : List String) : Option String :=
  match t with
  | ["ps.eq", i, j, R, dx, i2, j2, R2, dx2] => do
      let a ← ps? i j R dx; let b ← ps? i2 j2 R2 dx2
      some (binPs (fun a b => b01 (psEq a b)) a b)
  | ["ps.key", i, j, R, dx] => do
      let a ← ps? i j R dx
      some (showList (psKey a.2))
  | ["ps.iszero", i, j, R, dx] => do
      let a ← ps? i j R dx
      some (b01 (isZero a.2))
  | ["ps.add", i, j, R, dx, i2, j2, R2, dx2] => do
      let a ← ps? i j R dx; let b ← ps? i2 j2 R2 dx2
      some (binPs (fun a b => showPsRes (add a b)) a b)
  | ["ps.sub", i, j, R, dx, i2, j2, R2, dx2] => do
      let a ← ps? i j R dx; let b ← ps? i2 j2 R2 dx2
      some (binPs (fun a b => showPsRes (sub a b)) a b)
  | ["ps.xor", i, j, R, dx, i2, j2, R2, dx2] => do
      let a ← ps? i j R dx; let b ← ps? i2 j2 R2 dx2
      some (binPs (fun a b => showPsRes (xor a b)) a b)
  | ["ps.neg", i, j, R, dx] => do
      let a ← ps? i j R dx
      some (showPs (neg a.2))
  | ["ne", cls, e] => do
      let c ← neCode cls
      match neModel c (e = "1") with
      | .ok b => some (b01 b)
      | .error s => some s
  | ["cs.eq", s, u] => do
      let a ← site? s; let b ← site? u
      if h : a.1 = b.1 then some (b01 (csEq a.2 (h ▸ b.2))) else some "dim-mismatch"
  | ["cs.key", s] => do
      let a ← site? s
      some (showList (csKey a.2))
  | ["cs.neg", s] => do
      let a ← site? s
      some (showSite (csNeg a.2))
  | ["cs.add", s, v] => do
      let a ← site? s; let v ← parseIntList? v
      if v.length ≠ a.1 then some "arithmetic-error" else some (showSite (csAdd a.2 (vecOfList _ v)))
  | ["cs.sub", s, v] => do
      let a ← site? s; let v ← parseIntList? v
      if v.length ≠ a.1 then some "arithmetic-error" else some (showSite (csSub a.2 (vecOfList _ v)))
  | ["cl.make", t, v, ns, sites] => do
      let ⟨_, r⟩ ← mk? t v ns sites
      match r with
      | .ok c => some (showCluster c)
      | .error e => some e
  | ["cl.eq", t, v, ns, sites, t2, v2, ns2, sites2] => do
      let ⟨d, r⟩ ← mk? t v ns sites
      let ⟨d2, r2⟩ ← mk? t2 v2 ns2 sites2
      if h : d = d2 then
        match r, r2 with
        | .ok a, .ok b =>
          match Cluster.eq a (h ▸ b) with
          | .ok x => some (b01 x)
          | .error e => some e
        | _, _ => some "make-error"
      else some "dim-mismatch"
  | ["gop.eq", r, tr, cr, im, r2, tr2, cr2, im2] => do
      let a ← gop? r tr cr im; let b ← gop? r2 tr2 cr2 im2
      some (b01 (gopEq ATOL RTOL a b))
  | ["gop.keyeq", r, tr, cr, im, r2, tr2, cr2, im2] => do
      let a ← gop? r tr cr im; let b ← gop? r2 tr2 cr2 im2
      some (b01 (gopKey a == gopKey b))
  | ["vtk.eq", a, b, c, e, a2, b2, c2, e2] => do
      let x ← vtk? a b c e; let y ← vtk? a2 b2 c2 e2
      some (b01 (vtkEq ATOL RTOL x y))
  | ["vtk.keyeq", a, b, c, e, a2, b2, c2, e2] => do
      let x ← vtk? a b c e; let y ← vtk? a2 b2 c2 e2
      some (b01 (vtkKey x == vtkKey y))
  | ["close", x, y] => do
      let x ← parseRat? x; let y ← parseRat? y
      some (b01 (close1 ATOL RTOL x y))
  | _ => none

def handle (line : String) : String :=
  match handleQ (toks line) with
  | some r => r
  | none => "parse-error"

def main : IO Unit := do
  lineLoop (← IO.getStdin) handle
