import OnsagerModel.C11
def main : IO Unit := do
  Onsager.lineLoop (← IO.getStdin) Onsager.C11.handle
