import OnsagerModel.C28
def main : IO Unit := do
  Onsager.stateLoop (← IO.getStdin) ([] : Onsager.C28.Store) Onsager.C28.handle
