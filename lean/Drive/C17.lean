import OnsagerModel.C16Ten
import OnsagerModel.C17
import Generated.C16Facts
/-
  Driver for C17: `<dim> rotdir <Q>` | `<dim> rotate <Q> <coeffs>` | `<dim> inv <Nmax> <coeffs>`.
  `Q` = rows `a,b,c;d,e,f;…` of exact rationals.  Answers as in Drive/C16.lean; `rotdir` answers the non-zero
  entries `n,pold,pnew=value` of `npowtrans`.
-/
open Onsager Onsager.C16

def tabOf (d : String) : Option (Tab Rat) :=
  if d = "3" then some Generated.C16.tab3 else if d = "2" then some Generated.C16.tab2 else none

def parseQ? (T : Tab Rat) (s : String) : Option (List (List Rat)) := do
  let rows ← (s.splitOn ";").mapM parseRatList?
  if rows.length = T.dim ∧ rows.all (fun r => r.length == T.dim) then pure rows else none

def showRotdir (N : List (List (List Rat))) : String :=
  let ents := (N.zipIdx.flatMap fun (m, n) => m.zipIdx.flatMap fun (row, pold) =>
    row.zipIdx.filterMap fun (v, pnew) => if v == 0 then none else some s!"{n},{pold},{pnew}={showRat v}")
  if ents.isEmpty then "-" else ";".intercalate ents

def handle (line : String) : String :=
  match toks line with
  | d :: op :: args =>
    match tabOf d with
    | none => "ERR parse"
    | some T =>
      let r : Option String := match op, args with
        | "rotdir", [q] => do
            let Q ← parseQ? T q
            pure ("ok " ++ showRotdir (rotatedirections T Q))
        | "rotate", [q, a] => do
            let Q ← parseQ? T q
            let a ← parseCoeffs? a
            if !(wfC T a) then pure "ERR shape"
            else if !(rotOK T a) then pure "ERR rot"
            else
              let N := rotatedirections T Q
              let Nf : Nat → Nat → List Rat := fun n p => (N.getD n []).getD p []
              pure (showResult (rotatecoeff T Nf a))
        | "inv", [n, a] => do
            let n ← parseInt? n
            let a ← parseCoeffs? a
            if !(wfC T a) then pure "ERR shape"
            else match inversecoeff (M := Ten) T Ten.inv a n with
              | .error .empty => pure "ERR empty"
              | .error .leadL => pure "ERR leadL"
              | .error .second => pure "ERR second"
              | .ok c => pure (showResult c)
        | _, _ => none
      r.getD "ERR parse"
  | _ => "ERR parse"

def main : IO Unit := do
  Onsager.lineLoop (← IO.getStdin) handle
