import OnsagerModel.C31
def main : IO Unit := do
  Onsager.stateLoop (← IO.getStdin) Onsager.C31.St.none Onsager.C31.handle
