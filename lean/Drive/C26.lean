import OnsagerModel.C26
def main : IO Unit := do
  Onsager.stateLoop (← IO.getStdin) ({} : Onsager.C24.Session) Onsager.C26.handle
