import OnsagerModel.InterstitialDriver
def main : IO Unit := do
  Onsager.lineLoop (← IO.getStdin) Onsager.Interstitial.handle
