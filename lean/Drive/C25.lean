import OnsagerModel.C25
/-
  Driver for C25.  One request per line, sections separated by `|`, one answer per line.

  check n d N m tol | perm | rho | rhoInv | mul | v | reps
      perm : N rows `;`-separated of n state indices      (row g: s ↦ g·s)
      rho, rhoInv : N rows of d*d rationals (row major)
      mul  : N rows of N indices, mul[h][g] = h∘g
      v    : m rows of n*d rationals (the vector star as a field on the states), `-` if m = 0
      reps : representative state of every star
    → ok rep=b small=b orthoV=b equiv=b close=b orthoW=b count=b check=b charSum=q stabChar=q,.. stabRank=k,..

  expand n d m | v | classes | os | rep | len
      classes : `;`-separated classes of `:`-separated jumps `IS,FS,dx_1,..,dx_d`
      os      : n entries, origin state of the solute site of each state or -1
      rep,len : m entries each (first state and size of the star of each vector star)
    → ok rate=… esc=… bias=… biascode=… bare=… rate0=… esc0=… bias0=… outer=…   (flattened, class index last)

  gf n d m K | v | idx          idx: n*n entries (row s, column t): Green-function star of (s → t) or -1
    → ok <m*m*K rationals>        gfExpCode, star index last

  fold n d m | v | site | os      site: n entries (site of the solute or vacancy); os: indices of origin vector stars
    → ok <|os|*m rationals>
-/
open Onsager Onsager.C25

def sections (line : String) : List String := (line.splitOn "|").map (fun s => s.trimAscii.toString)

def parseRows? (s : String) (p : String → Option (List α)) : Option (Array (Array α)) :=
  if s = "-" ∨ s = "" then some #[] else ((s.splitOn ";").mapM fun r => (p r.trimAscii.toString).map List.toArray).map List.toArray

def at2 [Inhabited α] (a : Array (Array α)) (dflt : α) (i j : Nat) : α := (a.getD i #[]).getD j dflt

def finOr {n : Nat} (k : Nat) (dflt : Fin n) : Fin n := if h : k < n then ⟨k, h⟩ else dflt

def mkField (n d : Nat) (row : Array Rat) : Field n d := fun x a => row.getD (x.val * d + a.val) 0

def mkV (n d m : Nat) (vA : Array (Array Rat)) : Fin m → Field n d := fun i => mkField n d (vA.getD i.val #[])

def b2s (b : Bool) : String := if b then "1" else "0"

def handleCheck (hd : List String) (secs : List String) : Option String := do
  match hd, secs with
  | [n, d, N, m, tol], [perm, rho, rhoInv, mul, v, reps] =>
    let n ← parseNat? n; let d ← parseNat? d; let N ← parseNat? N; let m ← parseNat? m; let tol ← parseRat? tol
    let permA ← parseRows? perm parseNatList?
    let rhoA ← parseRows? rho parseRatList?
    let rhoInvA ← parseRows? rhoInv parseRatList?
    let mulA ← parseRows? mul parseNatList?
    let vA ← parseRows? v parseRatList?
    let reps ← parseNatList? reps
    if permA.size ≠ N ∨ rhoA.size ≠ N ∨ rhoInvA.size ≠ N ∨ mulA.size ≠ N ∨ vA.size ≠ m then pure "ERR shape"
    else if permA.any (fun r => r.size ≠ n ∨ r.any (· ≥ n)) ∨ mulA.any (fun r => r.size ≠ N ∨ r.any (· ≥ N))
        ∨ rhoA.any (·.size ≠ d * d) ∨ rhoInvA.any (·.size ≠ d * d) ∨ vA.any (·.size ≠ n * d)
        ∨ reps.any (· ≥ n) then pure "ERR shape"
    else
      let I : Inst := {
        n := n, d := d, N := N, m := m
        perm := fun g x => finOr (at2 permA 0 g.val x.val) x
        rho := fun g a b => at2 rhoA 0 g.val (a.val * d + b.val)
        rhoInv := fun g a b => at2 rhoInvA 0 g.val (a.val * d + b.val)
        mul := fun h g => finOr (at2 mulA 0 h.val g.val) g
        v := mkV n d m vA
        tol := tol }
      let repF : List (Fin n) := reps.filterMap fun r => if h : r < n then some ⟨r, h⟩ else none
      let r1 := I.repOK; let r2 := I.small; let r3 := I.nearOrtho I.v; let r4 := I.nearEquivariant
      let r5 := I.close; let r6 := I.nearOrtho I.w; let r7 := I.countOK
      pure s!"ok rep={b2s r1} small={b2s r2} orthoV={b2s r3} equiv={b2s r4} close={b2s r5} orthoW={b2s r6} count={b2s r7} check={b2s I.check} charSum={showRat I.charSum} stabChar={showRatList (repF.map I.stabChar)} stabRank={showList (repF.map I.stabRank)}"
  | _, _ => none

def parseJump? (n d : Nat) (s : String) : Option (Jump n d) := do
  let xs := toks s ','
  match xs with
  | a :: b :: rest =>
    let a ← parseNat? a; let b ← parseNat? b
    let dx ← rest.mapM parseRat?
    if h : a < n then
      if h' : b < n then
        if dx.length = d then
          let arr := dx.toArray
          some { is := ⟨a, h⟩, fs := ⟨b, h'⟩, dx := fun c => arr.getD c.val 0 }
        else none
      else none
    else none
  | _ => none

def parseClasses? (n d : Nat) (s : String) : Option (List (List (Jump n d))) :=
  if s = "-" ∨ s = "" then some [] else
    (s.splitOn ";").mapM fun c =>
      let c := c.trimAscii.toString
      if c = "_" ∨ c = "" then some [] else (c.splitOn ":").mapM (parseJump? n d)

def handleExpand (hd : List String) (secs : List String) : Option String := do
  match hd, secs with
  | [n, d, m], [v, classes, os, rep, len] =>
    let n ← parseNat? n; let d ← parseNat? d; let m ← parseNat? m
    let vA ← parseRows? v parseRatList?
    let cls ← parseClasses? n d classes
    let osL ← parseIntList? os
    let repL ← parseNatList? rep
    let lenL ← parseNatList? len
    if vA.size ≠ m ∨ vA.any (·.size ≠ n * d) ∨ osL.length ≠ n ∨ repL.length ≠ m ∨ lenL.length ≠ m then pure "ERR shape"
    else if hn : n = 0 then pure "ERR shape"
    else
      let vv : Fin m → Field n d := memo3 (mkV n d m vA)
      let osA := osL.toArray
      let osF : Fin n → Option (Fin n) := fun s =>
        let k := osA.getD s.val (-1)
        if k < 0 then none else if h : k.toNat < n then some ⟨k.toNat, h⟩ else none
      let repA := repL.toArray; let lenA := lenL.toArray
      let repF : Fin m → Fin n := fun i => finOr (repA.getD i.val 0) ⟨0, Nat.pos_of_ne_zero hn⟩
      let lenF : Fin m → Nat := fun i => lenA.getD i.val 0
      let fm := List.finRange m; let fd := List.finRange d
      let rate := fm.flatMap fun i => fm.flatMap fun j => cls.map fun jl => rateExp vv jl i j
      let esc := fm.flatMap fun i => cls.map fun jl => escExp vv jl i
      let bias := fm.flatMap fun i => cls.map fun jl => biasExp vv jl i
      let biasc := fm.flatMap fun i => cls.map fun jl => biasExpCode vv repF lenF jl i
      let bare := fd.flatMap fun a => fd.flatMap fun b => cls.map fun jl => bareExp jl a b
      let rate0 := fm.flatMap fun i => fm.flatMap fun j => cls.map fun jl => rate0Exp2 vv osF jl i j
      let esc0 := fm.flatMap fun i => cls.map fun jl => esc0Exp2 vv osF jl i
      let bias0 := fm.flatMap fun i => cls.map fun jl => bias0Exp2 vv osF jl i
      let outer := fd.flatMap fun a => fd.flatMap fun b => fm.flatMap fun i => fm.map fun j => outerExp vv i j a b
      pure s!"ok rate={showRatList rate} esc={showRatList esc} bias={showRatList bias} biascode={showRatList biasc} bare={showRatList bare} rate0={showRatList rate0} esc0={showRatList esc0} bias0={showRatList bias0} outer={showRatList outer}"
  | _, _ => none

def handleGF (hd : List String) (secs : List String) : Option String := do
  match hd, secs with
  | [n, d, m, K], [v, idx] =>
    let n ← parseNat? n; let d ← parseNat? d; let m ← parseNat? m; let K ← parseNat? K
    let vA ← parseRows? v parseRatList?
    let idxL ← parseIntList? idx
    if vA.size ≠ m ∨ vA.any (·.size ≠ n * d) ∨ idxL.length ≠ n * n then pure "ERR shape"
    else
      let vv : Fin m → Field n d := memo3 (mkV n d m vA)
      let idxA := idxL.toArray
      let idxF : Fin n → Fin n → Option Nat := fun s t =>
        let k := idxA.getD (s.val * n + t.val) (-1)
        if k < 0 then none else some k.toNat
      let fm := List.finRange m
      let out := fm.flatMap fun i => fm.flatMap fun j => (List.range K).map fun k => gfExpCode vv idxF k i j
      pure s!"ok {showRatList out}"
  | _, _ => none

def handleFold (hd : List String) (secs : List String) : Option String := do
  match hd, secs with
  | [n, d, m], [v, site, os] =>
    let n ← parseNat? n; let d ← parseNat? d; let m ← parseNat? m
    let vA ← parseRows? v parseRatList?
    let siteL ← parseNatList? site
    let osL ← parseNatList? os
    if vA.size ≠ m ∨ vA.any (·.size ≠ n * d) ∨ siteL.length ≠ n ∨ osL.any (· ≥ m) then pure "ERR shape"
    else
      let vv : Fin m → Field n d := memo3 (mkV n d m vA)
      let siteA := siteL.toArray
      let siteF : Fin n → Nat := fun s => siteA.getD s.val 0
      let osF : List (Fin m) := osL.filterMap fun r => if h : r < m then some ⟨r, h⟩ else none
      let out := osF.flatMap fun o => (List.finRange m).map fun j => foldExp vv siteF o j
      pure s!"ok {showRatList out}"
  | _, _ => none

def handle (line : String) : String :=
  match sections line with
  | first :: secs =>
    match toks first with
    | op :: hd =>
      let r : Option String :=
        if op = "check" then handleCheck hd secs
        else if op = "expand" then handleExpand hd secs
        else if op = "gf" then handleGF hd secs
        else if op = "fold" then handleFold hd secs
        else none
      r.getD "ERR parse"
    | _ => "ERR parse"
  | _ => "ERR parse"

def main : IO Unit := do
  Onsager.lineLoop (← IO.getStdin) handle
