import OnsagerModel.C19
def main : IO Unit := do
  Onsager.lineLoop (← IO.getStdin) Onsager.C19.handle
