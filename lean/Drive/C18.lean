import OnsagerModel.C18
def main : IO Unit := do
  Onsager.lineLoop (← IO.getStdin) Onsager.C18.handle
