import OnsagerModel.C14
def main : IO Unit := do
  Onsager.lineLoop (← IO.getStdin) Onsager.C14.handle
