import OnsagerModel.C13
def main : IO Unit := do
  Onsager.lineLoop (← IO.getStdin) Onsager.C13.handle
