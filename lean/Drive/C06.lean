import OnsagerModel.C06
def main : IO Unit := do
  Onsager.lineLoop (← IO.getStdin) Onsager.C06.handle
