import OnsagerModel.C35
def main : IO Unit := do
  Onsager.stateLoop (← IO.getStdin) ({} : Onsager.C35.Session) Onsager.C35.handle
