import OnsagerModel.C16Ten
import Generated.C16Facts
/-
  Driver for C16: one request per line  `<dim> <op> <args…>`, one answer per line.
  Coefficient lists: `n:l:shape:row|row|…;…` (`-` = empty), values exact complex rationals `a_b`.
  Answers: `ok <coeffs>` | `ERR shape` (a block does not have powlrange[l] rows / l > Lmax) |
  `ERR type` (incompatible tensor shapes) | `ERR parse`.
-/
open Onsager Onsager.C16

def tabOf (d : String) : Option (Tab Rat) :=
  if d = "3" then some Generated.C16.tab3 else if d = "2" then some Generated.C16.tab2 else none

def guardWF (T : Tab Rat) (as : List (Coeffs Ten)) (k : Unit → String) : String :=
  if as.all (wfC T) then k () else "ERR shape"

/-- numpy raises `TypeError` in `sumcoeff` when the trailing shapes of the first blocks differ -/
def sumShapesOK (a b : Coeffs Ten) : Bool :=
  match firstShape a, firstShape b with
  | some s, some s' => s == s'
  | _, _ => true

def showEvalD (l : List (Int × Nat × Ten)) : String :=
  if l.isEmpty then "-" else ";".intercalate (l.map fun e => s!"{e.1}:{e.2.1}:{showTen e.2.2}")

def parseBasis? (s : String) : Option (List (Ten × List Rat)) :=
  (s.splitOn ";").mapM fun t =>
    match t.splitOn "@" with
    | [m, v] => do let m ← parseTen? m; let v ← parseRatList? v; pure (m, v)
    | _ => none

def handle (line : String) : String :=
  match toks line with
  | d :: op :: args =>
    match tabOf d with
    | none => "ERR parse"
    | some T =>
      let r : Option String := match op, args with
        | "sum", [a, b, al, be] => do
            let a ← parseCoeffs? a; let b ← parseCoeffs? b; let al ← parseTen? al; let be ← parseTen? be
            pure (guardWF T [a, b] fun _ =>
              if !a.isEmpty && !b.isEmpty && !sumShapesOK a b then "ERR type" else showResult (sumcoeff a b al be))
        | "neg", [a] => do let a ← parseCoeffs? a; pure (guardWF T [a] fun _ => showResult (negC a))
        | "lmul", [c, a] => do
            let c ← parseTen? c; let a ← parseCoeffs? a
            pure (guardWF T [a] fun _ => showResult (lmulC c a))
        | "rmul", [c, a] => do
            let c ← parseTen? c; let a ← parseCoeffs? a
            pure (guardWF T [a] fun _ => showResult (rmulC c a))
        | "lmuld", [c, a] => do
            let c ← parseDict? c; let a ← parseCoeffs? a
            pure (guardWF T [a] fun _ => showResult (lmulD (dictFn c) a))
        | "rmuld", [c, a] => do
            let c ← parseDict? c; let a ← parseCoeffs? a
            pure (guardWF T [a] fun _ => showResult (rmulD (dictFn c) a))
        | "mul", [a, b] => do
            let a ← parseCoeffs? a; let b ← parseCoeffs? b
            pure (guardWF T [a, b] fun _ =>
              s!"{if mulGuard T a b then "g1" else "g0"} {showResult (coeffproduct T a b)}")
        | "getitem", [k, a] => do
            let k ← parseKey? k; let a ← parseCoeffs? a
            pure (guardWF T [a] fun _ => showResult (getitem (Ten.getitem k) a))
        | "trunc", [n, a] => do
            let n ← parseInt? n; let a ← parseCoeffs? a
            pure (guardWF T [a] fun _ => showResult (truncate n a))
        | "reduce", [a] => do let a ← parseCoeffs? a; pure (guardWF T [a] fun _ => showResult (reducecoeff T Ten.isz a))
        | "collect", [a] => do let a ← parseCoeffs? a; pure (guardWF T [a] fun _ => showResult (collectcoeff T Ten.isz a))
        | "redfull", [a] => do let a ← parseCoeffs? a; pure (guardWF T [a] fun _ => showResult (reduceFull T Ten.isz a))
        | "separate", [a] => do let a ← parseCoeffs? a; pure (guardWF T [a] fun _ => showResult (separatecoeff T Ten.isz a))
        | "construct", [n, pre, basis] => do
            let n ← parseNat? n
            let pre ← (pre.splitOn ";").mapM parseTen?
            let basis ← parseBasis? basis
            if n > T.lmax ∨ pre.length < n + 1 ∨ basis.any (fun b => b.2.length != T.dim) then pure "ERR shape"
            else
              let cs := construct T n (fun i => pre.getD i .err) basis
              if cs.any coeffsErr then pure "ERR type" else pure ("ok " ++ " ".intercalate (cs.map showCoeffs))
        | "evald", [u, a] => do
            let u ← parseRatList? u; let a ← parseCoeffs? a
            if u.length != T.dim then pure "ERR shape"
            else pure (guardWF T [a] fun _ => "ok " ++ showEvalD (evalD T u a))
        | _, _ => none
      r.getD "ERR parse"
  | _ => "ERR parse"

def main : IO Unit := do
  Onsager.lineLoop (← IO.getStdin) handle
