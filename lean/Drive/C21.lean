import OnsagerModel.C21
def main : IO Unit := do
  Onsager.stateLoop (← IO.getStdin) Onsager.C21.St.none Onsager.C21.handle
