import OnsagerModel.C22
def main : IO Unit := do
  Onsager.stateLoop (← IO.getStdin) Onsager.C22.St.none Onsager.C22.handle
