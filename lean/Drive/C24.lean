import OnsagerModel.C24
def main : IO Unit := do
  Onsager.stateLoop (← IO.getStdin) ({} : Onsager.C24.Session) Onsager.C24.handle
