import OnsagerModel.C23
/-!
  Line protocol for the C23 model (one answer line per request line; tokens separated by blanks,
  vectors `a,b,c`, matrices rows separated by `;`, chemistries by `|`, rationals `p/q`):

    crys d G Ginv basis eps atol rtol      -> ok
    op k rot trans crot imap               -> ok            (stores slot k)
    pos2cart R c i | cart2unit x | cart2pos x
    gpos k R c i | gvect k R u | gcart k x | gdirec k x | gtensor k T
    mul k1 k2 k3 | inv k1 k3               -> the new operation (stored in slot k3) or an error
    psg k chem i j R dx | csg k c i R
-/
open Onsager Onsager.C23

structure St where
  d : Nat
  cr : Crystal d
  ops : Array (GroupOp d)

def idOp (d : Nat) : GroupOp d :=
  { rot := fun i j => if i = j then 1 else 0, trans := qZero, crot := qOne, imap := [] }

def St.init : St :=
  { d := 0, cr := { metric := qOne, metricInv := qOne, basis := [], eps := 0, atol := 0, rtol := 0 }, ops := #[] }

def qvec? (d : Nat) (s : String) : Option (QVec d) := do
  let l ← parseRatList? s
  if l.length = d then some (vecOfList d l) else none

def ivec? (d : Nat) (s : String) : Option (IVec d) := do
  let l ← parseIntList? s
  if l.length = d then some (vecOfList d l) else none

def qmat? (d : Nat) (s : String) : Option (QMat d) := do
  let l ← parseRatMat? s
  if l.length = d ∧ l.all (·.length = d) then some (matOfList d l) else none

def imat? (d : Nat) (s : String) : Option (IMat d) := do
  let l ← parseIntMat? s
  if l.length = d ∧ l.all (·.length = d) then some (matOfList d l) else none

def basis? (d : Nat) (s : String) : Option (List (List (QVec d))) :=
  (s.splitOn "|").mapM fun chem => (chem.splitOn ";").mapM (qvec? d)

def imap? (s : String) : Option (List (List Nat)) :=
  (s.splitOn "|").mapM parseNatList?

def showImap (m : List (List Nat)) : String :=
  if m.isEmpty then "-" else "|".intercalate (m.map fun l => showList l)

def showOp {d} (g : GroupOp d) : String :=
  s!"{showIMat g.rot} {showQVec g.trans} {showQMat g.crot} {showImap g.imap}"

def setOp (st : St) (k : Nat) (g : GroupOp st.d) : St :=
  let ops := if k < st.ops.size then st.ops else st.ops ++ Array.replicate (k + 1 - st.ops.size) (idOp st.d)
  { st with ops := ops.set! k g }

def getOp (st : St) (k : Nat) : GroupOp st.d := st.ops.getD k (idOp st.d)

def showPosRes {d} (r : Except String (IVec d × Nat × Nat)) : String :=
  match r with
  | .ok (R, c, i) => s!"{showIVec R} {c} {i}"
  | .error e => e

def handleQ (st : St) (t : List String) : Option (St × String) :=
  let d := st.d
  match t with
  | ["crys", ds, G, Gi, b, e, a, r] => do
      let d ← parseNat? ds
      let G ← qmat? d G; let Gi ← qmat? d Gi; let b ← basis? d b
      let e ← parseRat? e; let a ← parseRat? a; let r ← parseRat? r
      some ({ d := d, cr := { metric := G, metricInv := Gi, basis := b, eps := e, atol := a, rtol := r }, ops := #[] }, "ok")
  | ["op", k, rot, tr, cr, im] => do
      let k ← parseNat? k
      let rot ← imat? d rot; let tr ← qvec? d tr; let cr ← qmat? d cr; let im ← imap? im
      some (setOp st k { rot := rot, trans := tr, crot := cr, imap := im }, "ok")
  | ["pos2cart", R, c, i] => do
      let R ← ivec? d R; let c ← parseNat? c; let i ← parseNat? i
      some (st, match pos2cart st.cr R c i with | .ok x => showQVec x | .error e => e)
  | ["cart2unit", x] => do
      let x ← qvec? d x
      let (R, u) := cart2unit st.cr.eps x
      some (st, s!"{showIVec R} {showQVec u}")
  | ["cart2pos", x] => do
      let x ← qvec? d x
      let (R, ci) := cart2pos st.cr x
      some (st, match ci with | some (c, i) => s!"{showIVec R} {c} {i}" | none => s!"{showIVec R} none")
  | ["gpos", k, R, c, i] => do
      let k ← parseNat? k; let R ← ivec? d R; let c ← parseNat? c; let i ← parseNat? i
      some (st, showPosRes (gPos st.cr (getOp st k) R c i))
  | ["gvect", k, R, u] => do
      let k ← parseNat? k; let R ← ivec? d R; let u ← qvec? d u
      let (R', u') := gVect st.cr.eps (getOp st k) R u
      some (st, s!"{showIVec R'} {showQVec u'}")
  | ["gcart", k, x] => do
      let k ← parseNat? k; let x ← qvec? d x
      some (st, showQVec (gCart (getOp st k) x))
  | ["gdirec", k, x] => do
      let k ← parseNat? k; let x ← qvec? d x
      some (st, showQVec (gDirec (getOp st k) x))
  | ["gtensor", k, T] => do
      let k ← parseNat? k; let T ← qmat? d T
      some (st, showQMat (gTensor (getOp st k) T))
  | ["mul", k1, k2, k3] => do
      let k1 ← parseNat? k1; let k2 ← parseNat? k2; let k3 ← parseNat? k3
      match (getOp st k1).mul (getOp st k2) with
      | .ok g => some (setOp st k3 g, showOp g)
      | .error e => some (st, e)
  | ["inv", k1, k3] => do
      let k1 ← parseNat? k1; let k3 ← parseNat? k3
      match (getOp st k1).inv st.cr with
      | .ok g => some (setOp st k3 g, showOp g)
      | .error e => some (st, e)
  | ["psg", k, chem, i, j, R, dx] => do
      let k ← parseNat? k; let chem ← parseNat? chem; let i ← parseInt? i; let j ← parseInt? j
      let R ← ivec? d R; let dx ← qvec? d dx
      match PairState.g st.cr chem (getOp st k) { i := i, j := j, R := R, dx := dx } with
      | .ok s => some (st, s!"{s.i} {s.j} {showIVec s.R} {showQVec s.dx}")
      | .error e => some (st, e)
  | ["csg", k, c, i, R] => do
      let k ← parseNat? k; let c ← parseNat? c; let i ← parseNat? i; let R ← ivec? d R
      match ClusterSite.g st.cr (getOp st k) { c := c, i := i, R := R } with
      | .ok s => some (st, s!"{s.c} {s.i} {showIVec s.R}")
      | .error e => some (st, e)
  | _ => none

def handle (st : St) (line : String) : St × String :=
  match handleQ st (toks line) with
  | some r => r
  | none => (st, "parse-error")

def main : IO Unit := do
  stateLoop (← IO.getStdin) St.init handle
