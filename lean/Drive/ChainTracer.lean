import OnsagerModel.ChainTracer
def main : IO Unit := do
  Onsager.lineLoop (← IO.getStdin) Onsager.Chain.handleTracer
