import OnsagerModel.C29
/-!
  Line protocol for C29 (stateful: `base` sets the base cell used by the following requests)

  base nsites nchem c:idx,idx|c:idx,…          → cell            (cell = `<occ> <chemorder> <sane>`)
  state ind:c,ind:c                            → cell
  vac pre(ind:c,… or -) ind0 ind1 chem         → cell | cell | diff
  exch inds indv schem                         → cell | cell | diff
  inter ind0 ind1 chem                         → cell | cell | diff
  apply occ chemorder indexmap mapping         → cell
  diff = `shape` or `c.k.site0.site1;…` or `same`;  errors: `err index` / `err value`
-/
open Onsager Onsager.C28 Onsager.C29

def parsePairs? (s : String) : Option (List (Nat × Int)) :=
  if s = "-" then some [] else (s.splitOn ",").mapM fun t =>
    match t.splitOn ":" with
    | [a, b] => do pure ((← parseNat? a), (← parseInt? b))
    | _ => none

def parseFills? (s : String) : Option (List (Int × List Nat)) :=
  if s = "-" then some [] else (s.splitOn "|").mapM fun t =>
    match t.splitOn ":" with
    | [a, b] => do pure ((← parseInt? a), (← parseNatList? b))
    | _ => none

def showErrE : Err → String
  | .index => "err index"
  | .value => "err value"

def showDiff (s0 s1 : Cell) : String :=
  match orderDiff s0 s1 with
  | none => "shape"
  | some [] => "same"
  | some l => ";".intercalate (l.map fun (c, k, a, b) => s!"{c}.{k}.{a}.{b}")

def showPair : Except Err (Cell × Cell) → String
  | .error e => showErrE e
  | .ok (s0, s1) => s!"{showCell s0} | {showCell s1} | {showDiff s0 s1}"

def handle (base : Cell) (line : String) : Cell × String :=
  match toks line with
  | ["base", n, k, fills] =>
    match parseNat? n, parseNat? k, parseFills? fills with
    | some n, some k, some fills =>
      match baseCell k n fills with
      | .ok b => (b, showCell b)
      | .error e => (base, showErrE e)
    | _, _, _ => (base, "bad-op")
  | ["state", ds] =>
    match parsePairs? ds with
    | some ds => (base, match stateCell base ds with | .ok c => showCell c | .error e => showErrE e)
    | none => (base, "bad-op")
  | ["vac", pre, i0, i1, chem] =>
    match parsePairs? pre, parseNat? i0, parseNat? i1, parseInt? chem with
    | some pre, some i0, some i1, some chem => (base, showPair (vacPair base pre i0 i1 chem))
    | _, _, _, _ => (base, "bad-op")
  | ["exch", is, iv, schem] =>
    match parseNat? is, parseNat? iv, parseInt? schem with
    | some is, some iv, some schem => (base, showPair (exchPair base is iv schem))
    | _, _, _ => (base, "bad-op")
  | ["inter", i0, i1, chem] =>
    match parseNat? i0, parseNat? i1, parseInt? chem with
    | some i0, some i1, some chem => (base, showPair (interPair base i0 i1 chem))
    | _, _, _ => (base, "bad-op")
  | ["apply", occ, co, m, mp] =>
    match parseIntList? occ, parseNatListList? co, parseNatList? m, parseNatListList? mp with
    | some occ, some co, some m, some mp =>
      (base, match applyMapping { nchem := co.length, occ := occ, chemorder := co } m mp with
             | .ok c => showCell c | .error e => showErrE e)
    | _, _, _, _ => (base, "bad-op")
  | _ => (base, "bad-op")

def main : IO Unit := do
  Onsager.stateLoop (← IO.getStdin) (Cell.empty 0 0) handle
