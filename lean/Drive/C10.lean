import OnsagerModel.C10
def main : IO Unit := do
  Onsager.lineLoop (← IO.getStdin) Onsager.C10.handle
