import OnsagerModel.C02
def main : IO Unit := do
  Onsager.lineLoop (← IO.getStdin) Onsager.C02.handle
