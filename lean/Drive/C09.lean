import OnsagerModel.C09
def main : IO Unit := do
  Onsager.lineLoop (← IO.getStdin) Onsager.C09.handle
