import OnsagerModel.C12
def main : IO Unit := do
  Onsager.lineLoop (← IO.getStdin) Onsager.C12.handle
