import OnsagerModel.C20
def main : IO Unit := do
  Onsager.lineLoop (← IO.getStdin) Onsager.C20.handle
