import OnsagerModel.C15
def main : IO Unit := do
  Onsager.lineLoop (← IO.getStdin) Onsager.C15.handle
