/-
  C10 — exact rational model of the *equation* the lattice Green function has to satisfy
  (onsager/GFcalc.py: GFCrystalcalc.SymmRates / SetRates (symmrate, escape, omega_qij) / __call__).

  What is modelled exactly
  * the rates: site prefactors are squares `pre_w = s_w²`, site energies `exp(-βE_w) = qh^(-2 n_w)`,
    transition states `exp(-βE_T) = qh^(-m_T)`, so the *symmetrised* rate of `SymmRates`
        preT · exp(½βE_i + ½βE_j − βE_T) / sqrt(pre_i pre_j)  =  preT · qh^(n_i + n_j − m_T) / (s_i s_j)
    and the escape rate `Σ preT · exp(βE_i − βE_T) / pre_i` are rationals;
  * `ω` as an element of the group ring: for every site pair the finitely supported map
    `dx ↦ coefficient` (jump vectors in lattice coordinates), whose evaluation at a k-point is the
    code's `omega_qij` (times `maxrate`);
  * the residual of the lattice equation on a finite patch of Green-function values supplied by the
    implementation (rationalised floats):
        r(i; j, z) = Σ_{jumps a : i → k, dx_a} symmrate_a · G(k, j, z − dx_a) + escape_i · G(i, j, z) − δ_ij δ_z0
    and the decision `residualOK` (every requested point is interior to the patch and `|r| ≤ tol`).

  Nothing here computes a Green function: the analytic inverse transforms and the Brillouin-zone
  quadrature are outside the model (see OnsagerProofs/C10.lean for what is proved about them).
-/
import OnsagerModel.Basic

namespace Onsager.C10

/-- `q^z` for integer `z` (q ≠ 0). -/
def qpow (q : Rat) (z : Int) : Rat := if 0 ≤ z then q ^ z.toNat else (q ^ (-z).toNat)⁻¹

structure Network where
  n : Nat                       -- number of sites
  dim : Nat
  qh : Rat                      -- exp(-βE_w) = qh^(-2 ene_w),  exp(-βE_T) = qh^(-eneT)
  invmap : List Nat             -- site → Wyckoff index
  spre : List Rat               -- per Wyckoff set: square root of the site prefactor
  ene : List Int
  preT : List Rat               -- per jump class
  eneT : List Int
  jumps : List (List (Nat × Nat × List Rat))   -- per class: (i, j, dx in lattice coordinates)

namespace Network

def wy (net : Network) (i : Nat) : Nat := net.invmap.getD i 0
def sp (net : Network) (i : Nat) : Rat := net.spre.getD (net.wy i) 0
def en (net : Network) (i : Nat) : Int := net.ene.getD (net.wy i) 0

/-- `SymmRates`: one value per class, from the Wyckoff pair of the *first* jump of the class
    (`jumppairs`, GFcalc.py lines 137–138, 291–292). -/
def symmrate (net : Network) (k : Nat) : Rat :=
  match (net.jumps.getD k []).head? with
  | none => 0
  | some (i, j, _) =>
    net.preT.getD k 0 * qpow net.qh (net.en i + net.en j - net.eneT.getD k 0) / (net.sp i * net.sp j)

/-- unsymmetrised rate out of site `i` through class `k`: `preT exp(βE_i − βE_T) / pre_i` -/
def rateOut (net : Network) (k i : Nat) : Rat :=
  net.preT.getD k 0 * qpow net.qh (2 * net.en i - net.eneT.getD k 0) / (net.sp i * net.sp i)

/-- classes tagged with their index -/
def classes (net : Network) : List (Nat × List (Nat × Nat × List Rat)) :=
  List.zip (List.range net.jumps.length) net.jumps

/-- `escape` (lines 309–311, before the division by `maxrate`): minus the total rate out of `i`
    (`SEjumps[i,J]` = number of jumps of class `J` leaving `i`). -/
def escape (net : Network) (i : Nat) : Rat :=
  -((net.classes.map fun (k, cls) => ((cls.filter fun a => a.1 == i).length : Rat) * net.rateOut k i).sum)

/-- all jumps leaving `i` with their symmetrised rate: (rate, destination, dx) -/
def stencil (net : Network) (i : Nat) : List (Rat × Nat × List Rat) :=
  net.classes.flatMap fun (k, cls) =>
    (cls.filter fun a => a.1 == i).map fun a => (net.symmrate k, a.2.1, a.2.2)

/-- `ω` in the group ring: the terms `dx ↦ coefficient` of entry `(i, k)`
    (`omega_qij[q,i,k] · maxrate = Σ coefficient · exp(i q·dx)`). -/
def omegaTerms (net : Network) (i k : Nat) : List (List Rat × Rat) :=
  ((net.stencil i).filter fun t => t.2.1 == k).map (fun t => (t.2.2, t.1))
    ++ (if i = k then [(List.replicate net.dim 0, net.escape i)] else [])

def maxrate (net : Network) : Rat :=
  ((List.range net.jumps.length).map net.symmrate).foldl max 0

/-- Input conditions under which the code's assembly means what it says: indices and lengths in
    range, positive prefactors, every class non-empty and closed under reversal (`(j,i,−dx)`),
    and a uniform unordered Wyckoff pair per class (so `symmrate` of the first jump is the
    symmetrised rate of every jump of the class). -/
def valid (net : Network) : Bool :=
  net.invmap.length == net.n && net.spre.length == net.ene.length &&
  net.preT.length == net.jumps.length && net.eneT.length == net.jumps.length &&
  decide (0 < net.qh) && decide (0 < net.n) &&
  net.invmap.all (fun w => decide (w < net.spre.length)) &&
  net.spre.all (fun s => decide (0 < s)) && net.preT.all (fun p => decide (0 < p)) &&
  net.jumps.all (fun cls => !cls.isEmpty &&
    cls.all (fun a => decide (a.1 < net.n) && decide (a.2.1 < net.n) && a.2.2.length == net.dim &&
      cls.any (fun b => b.1 == a.2.1 && b.2.1 == a.1 && b.2.2 == a.2.2.map (fun x => -x)) &&
      (match cls.head? with
       | none => false
       | some h => (net.wy a.1 == net.wy h.1 && net.wy a.2.1 == net.wy h.2.1) ||
                   (net.wy a.1 == net.wy h.2.1 && net.wy a.2.1 == net.wy h.1))))

end Network

/-! ### residual checker -/

def vsub (a b : List Rat) : List Rat := List.zipWith (· - ·) a b

def isZero (z : List Rat) : Bool := z.all (· == 0)

def delta (i j : Nat) (z : List Rat) : Rat := if (i == j && isZero z) = true then 1 else 0

/-- Residual of the lattice equation at `(i; j, z)` for a *partial* two-point function `G`
    (`none` = value not supplied: the point is not interior to the patch). -/
def residual (net : Network) (G : Nat → Nat → List Rat → Option Rat) (i j : Nat) (z : List Rat) : Option Rat := do
  let g0 ← G i j z
  let terms ← (net.stencil i).mapM fun t => (G t.2.1 j (vsub z t.2.2)).map (t.1 * ·)
  pure (terms.sum + net.escape i * g0 - delta i j z)

structure Pt where
  i : Nat
  j : Nat
  z : List Rat
  tol : Rat

def rabs (x : Rat) : Rat := if x < 0 then -x else x

def ptOK (net : Network) (G : Nat → Nat → List Rat → Option Rat) (p : Pt) : Bool :=
  match residual net G p.i p.j p.z with
  | some r => decide (rabs r ≤ p.tol)
  | none => false

/-- the decision the harness relies on -/
def residualOK (net : Network) (G : Nat → Nat → List Rat → Option Rat) (pts : List Pt) : Bool :=
  pts.all (ptOK net G)

/-- finite patch of values as an association list -/
abbrev Patch := List ((Nat × Nat × List Rat) × Rat)

def Patch.fn (p : Patch) : Nat → Nat → List Rat → Option Rat := fun i j z => p.lookup (i, j, z)

/-! ### protocol
  network:  `n dim qh | invmap | spre | ene | preT | eneT | class;class;…`   (class = `i,j,dx…` joined by `:`)
  requests: `omega # <network>`                       → `ok sym… | esc… | maxrate | i,k,dx…,coef;…`
            `resid # <network> # <patch> # <points>`  → `ok r… | 0/1`   (patch entries `i,j,dx…,val`; points `i,j,z…,tol`, `;`-separated)
  answers `invalid` when `valid` fails, `bad-request` on unparsable input.
-/

def parseClass (dim : Nat) (s : String) : Option (List (Nat × Nat × List Rat)) :=
  if s = "_" then some [] else
  (s.splitOn ":").mapM fun e =>
    match e.splitOn "," with
    | i :: j :: rest => do
        let i ← parseNat? i
        let j ← parseNat? j
        let dx ← rest.mapM parseRat?
        if dx.length = dim then some (i, j, dx) else none
    | _ => none

def parseNetwork (line : String) : Option Network := do
  match (line.splitOn "|").map (·.trimAscii.toString) with
  | [hd, invmap, spre, ene, preT, eneT, jumps] =>
    match toks hd with
    | [n, dim, q] =>
      let n ← parseNat? n
      let dim ← parseNat? dim
      let qh ← parseRat? q
      let invmap ← parseNatList? invmap
      let spre ← parseRatList? spre
      let ene ← parseIntList? ene
      let preT ← parseRatList? preT
      let eneT ← parseIntList? eneT
      let jumps ← (jumps.splitOn ";").mapM (parseClass dim)
      some { n, dim, qh, invmap, spre, ene, preT, eneT, jumps }
    | _ => none
  | _ => none

/-- `i,j,x…,v` → ((i,j,x…),v) with `dim` coordinates -/
def parseEntry (dim : Nat) (s : String) : Option ((Nat × Nat × List Rat) × Rat) :=
  match s.splitOn "," with
  | i :: j :: rest => do
      let i ← parseNat? i
      let j ← parseNat? j
      let xs ← rest.mapM parseRat?
      if xs.length = dim + 1 then some ((i, j, xs.take dim), xs.getD dim 0) else none
  | _ => none

def parseEntries (dim : Nat) (s : String) : Option (List ((Nat × Nat × List Rat) × Rat)) :=
  if s = "-" then some [] else (s.splitOn ";").mapM fun e => parseEntry dim e.trimAscii.toString

def showOmega (net : Network) : String :=
  let sites := List.range net.n
  let terms := sites.flatMap fun i => sites.flatMap fun k =>
    (net.omegaTerms i k).map fun (dx, c) => s!"{i},{k},{showRatList dx},{showRat c}"
  let cls := List.range net.jumps.length
  s!"ok {showRatList (cls.map net.symmrate)} | {showRatList (sites.map net.escape)} | {showRat net.maxrate} | {";".intercalate terms}"

def handle (line : String) : String :=
  match (line.splitOn "#").map (·.trimAscii.toString) with
  | ["omega", nets] =>
    match parseNetwork nets with
    | none => "bad-request"
    | some net => if net.valid then showOmega net else "invalid"
  | ["resid", nets, patch, pts] =>
    match parseNetwork nets with
    | none => "bad-request"
    | some net =>
      match parseEntries net.dim patch, parseEntries net.dim pts with
      | some patch, some pts =>
        if net.valid then
          let G := Patch.fn patch
          let pts : List Pt := pts.map fun ((i, j, z), tol) => { i, j, z, tol }
          let rs := pts.map fun p => match residual net G p.i p.j p.z with
            | some r => showRat r
            | none => "none"
          s!"ok {",".intercalate rs} | {if residualOK net G pts then 1 else 0}"
        else "invalid"
      | _, _ => "bad-request"
  | _ => "bad-request"

end Onsager.C10
