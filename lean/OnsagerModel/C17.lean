/-
  C17 — change of variables (`rotatedirections`, `rotatecoeff`) and inversion (`inversecoeff`) of
  Taylor expansions (onsager/PowerExpansion.py lines 273–330, 619–662, 919–987, 1313–1357).
  Same polymorphic setting as OnsagerModel/C16.lean.

  `rotatedirections` is modelled row by row: the value the loops assign to each row of `powtrans` /
  `npowtrans` is written as a function of the row's exponent tuple (the loops assign every row exactly once);
  the whole `(Lmax+1) × Npow × Npow` array is compared with the code's on every run.
-/
import OnsagerModel.C16

namespace Onsager.C16

/-! ### `rotatedirections` -/
section rotdir
variable {K : Type} [Zero K] [One K] [Add K] [Mul K] [Pow K Nat]

/-- `powercoeff[n] * powexp(t, normalize=False)` : the row of `(t·x)^n` (lines 292–295) -/
def linPowRow (T : Tab K) (t : List K) (n : Nat) : List K :=
  (List.range T.npow).map fun p => T.pc n p * T.mono t p

/-- outer loop of the pair / triplet products, over explicit index ranges -/
def scatG (T : Tab K) (len pb0 : Nat) (xb : List K) : Nat → List K → List K → List K
  | _, [], acc => acc
  | pa, x :: xs, acc => scatG T len pb0 xb (pa + 1) xs (scatRow T len pa x pb0 xb acc)

/-- entries `[powlrange[l-1], powlrange[l])` of a row -/
def shellSlice (T : Tab K) (r : List K) (l : Nat) : List K := (r.drop (T.plo l)).take (T.phi l - T.plo l)

/-- `for pi in shell(la): for pj in shell(lb): row[directmult[pi,pj]] += ra[pi] * rb[pj]` (lines 306–308, 315–318) -/
def shellMul (T : Tab K) (ra rb : List K) (la lb : Nat) : List K :=
  scatG T T.npow (T.plo lb) (shellSlice T rb lb) (T.plo la) (shellSlice T ra la) (List.replicate T.npow 0)

def unitRow (n : Nat) : List K := (List.range n).map fun p => if p = 0 then 1 else 0

/-- row `pow2ind[e]` of `powtrans`: single powers by the multinomial row, pairs and the triplet by
    products through `directmult`, lower axes first -/
def powtransRow (T : Tab K) (Q : List (List K)) (e : List Nat) : List K :=
  let r := (List.zip Q e).foldl (fun (acc : Option (List K × Nat)) (tn : List K × Nat) =>
      if tn.2 = 0 then acc else
      match acc with
      | none => some (linPowRow T tn.1 tn.2, tn.2)
      | some (row, d) => some (shellMul T row (linPowRow T tn.1 tn.2) d tn.2, d + tn.2)) none
  match r with
  | none => unitRow T.npow
  | some (row, _) => row

def addRows (a b : List K) : List K := List.zipWith (· + ·) a b

/-- row of `npowtrans[n]` for an exponent tuple `e` of degree `n - 2k` (lines 319–329):
    `k = 0`: `powtrans[e]` restricted to the columns of degree `n`;
    `k+1`: sum of the rows of `e + 2 e_i` -/
def npowRowK (T : Tab K) (Q : List (List K)) (n : Nat) : Nat → List Nat → List K
  | 0, e =>
    let row := powtransRow T Q e
    (List.range T.npow).map fun p => if T.deg p = n then row.getD p 0 else 0
  | k + 1, e =>
    (List.range T.dim).foldl (fun acc i =>
        addRows acc (npowRowK T Q n k (List.zipWith (· + ·) e (unitVec T.dim i 2))))
      (List.replicate T.npow 0)

/-- `npowtrans[n][p_old]` -/
def npowRow (T : Tab K) (Q : List (List K)) (n p : Nat) : List K :=
  let d := T.deg p
  if d ≤ n ∧ (n - d) % 2 = 0 then npowRowK T Q n ((n - d) / 2) (T.expo p) else List.replicate T.npow 0

/-- the whole array `npowtrans[n][p_old][p_new]`, `n = 0..Lmax` -/
def rotatedirections (T : Tab K) (Q : List (List K)) : List (List (List K)) :=
  (List.range (T.lmax + 1)).map fun n => (List.range T.npow).map fun p => npowRow T Q n p
end rotdir

/-! ### `rotatecoeff` -/
section rotate
variable {K M : Type} [Zero K] [Add M] [Zero M] [SMul K M]

/-- one rotated block: `tensordot(npowtrans[n,:r_n,:r_n], pad(c, r_n), axes=(0,0))` -/
def rotateBlock (T : Tab K) (Nn : Nat → List K) (n : Nat) (c : List M) : List M :=
  (List.range (T.phi n)).map fun pnew =>
    ((List.range (T.phi n)).map fun pold => (Nn pold).getD pnew 0 • c.getD pold 0).sum

/-- numpy needs `0 ≤ n ≤ Lmax` (index into `npowtrans`) and `l ≤ n` (non-negative padding) -/
def rotOK (T : Tab K) (a : Coeffs M) : Bool :=
  a.all fun e => decide (0 ≤ e.1) && decide (e.1.toNat ≤ T.lmax) && decide (e.2.1 ≤ e.1.toNat)

/-- `rotatecoeff(a, npowtrans)` (lines 619–643): every `(n,l)` block becomes an `(n,n)` block -/
def rotatecoeff (T : Tab K) (N : Nat → Nat → List K) (a : Coeffs M) : Coeffs M :=
  a.map fun e => (e.1, e.1.toNat, rotateBlock T (N e.1.toNat) e.1.toNat e.2.2)
end rotate

/-! ### `inversecoeff` -/
section inverse
variable {K M : Type} [Add M] [Mul M] [Zero M] [One M] [Neg M]

def shiftC (k : Int) (a : Coeffs M) : Coeffs M := a.map fun e => (e.1 + k, e.2.1, e.2.2)

/-- the loop `for npower in range(2, Nseries+1)` (lines 970–977); `s` = remaining iterations -/
def invLoop (T : Tab K) (leadinv : M) (k0 Nmax : Int) (tail : Coeffs M) : Nat → Coeffs M → Coeffs M → Coeffs M
  | 0, _, c => c
  | s + 1, tailn, c =>
    let tailn' := (coeffproduct T tailn tail).filter fun e => decide (e.1 + k0 ≤ Nmax)
    invLoop T leadinv k0 Nmax tail s tailn' (sumcoeff c (shiftC k0 (rmulC leadinv tailn')) 1 1)

inductive InvErr
  | empty      -- IndexError on an empty expansion
  | leadL      -- ValueError: leading term has l > 0
  | second     -- ValueError: second term has the same power as the leading term
deriving Repr, DecidableEq

/-- `inversecoeff(a, Nmax)` (lines 919–978); `minv` inverts the leading coefficient
    (`1/x` or `np.linalg.inv`) -/
def inversecoeff (T : Tab K) (minv : M → M) (a : Coeffs M) (Nmax : Int) : Except InvErr (Coeffs M) :=
  match sortC a with
  | [] => .error .empty
  | lead :: rest =>
    if lead.2.1 ≠ 0 then .error .leadL
    else
      let leadinv := minv (lead.2.2.getD 0 0)
      let k0 : Int := -lead.1
      let c0 : Coeffs M := [(k0, 0, [leadinv])]
      match rest with
      | [] => .ok c0
      | second :: _ =>
        if k0 + second.1 ≤ 0 then .error .second
        else
          let tail := negC (shiftC k0 (lmulC leadinv rest))
          let nseries : Int := (Nmax - k0) / (second.1 + k0)
          let c1 := sumcoeff c0 ((shiftC k0 (rmulC leadinv tail)).filter fun e => decide (e.1 ≤ Nmax)) 1 1
          .ok (invLoop T leadinv k0 Nmax tail (nseries.toNat - 1) tail c1)
end inverse

end Onsager.C16
