/-
  C12 — exact model of the internal-friction loss tensors
  (onsager/OnsagerCalc.py: Interstitial.losstensors, lines 540–609).

  Built on the exact rational site-space model of OnsagerModel/C02.lean.  The symmetrised rate matrix
  `ω_ij = W_ij / √(ρ_i ρ_j)` has irrational entries, so the model works with the equivalent ρ-weighted
  form: a mode is a site function `x = φ/√ρ` with `W x = −λ ρ x`, normalised by `Σ ρ x² = 1`;
  `F = Σ_i φ_i √ρ_i P_i = Σ_i ρ_i x_i P_i`, loss tensor `L = F ⊗ F`.
  `np.linalg.eigh` is a *certificate*: candidate modes come with the request and the model returns, exactly,
    – the fluctuation  Σ_i ρ_i P_i⊗P_i − P̄⊗P̄                       (right-hand side of the sum rule)
    – the trace Σ_{a: i≠j} w_a of −ω                                  (sum of all relaxation rates)
    – for every candidate mode: Rayleigh quotient `½Σ r (Δx)² / Σ ρ x²` (the rate), the squared residual
      `Σ_i (W x + R ρ x)_i² / ρ_i` of the eigen-equation, and the loss tensor `F⊗F / Σ ρ x²`.
  `mergeModes` mirrors the mode-merging loop (lines 600–607) for any closeness relation.
-/
import OnsagerModel.C02

namespace Onsager.C12
open Onsager Onsager.C02 Onsager.Var

/-- `Σ_i ρ_i p_i q_i − (Σ ρ p)(Σ ρ q)` -/
def fluct (ρ p q : List ℚ) : ℚ :=
  (List.zipWith (· * ·) ρ (List.zipWith (· * ·) p q)).sum
    - (List.zipWith (· * ·) ρ p).sum * (List.zipWith (· * ·) ρ q).sum

/-- scalar "dipole component" lists: `P[k]` is the list over sites of component `k` (`k < dim²`) -/
def fluctTensor (ρ : List ℚ) (P : List (List ℚ)) : List ℚ :=
  P.flatMap fun p => P.map fun q => fluct ρ p q

/-- Dirichlet form `½ Σ r (x_dst − x_src)²` (= `Var.E`) -/
def dirichlet {n : Nat} (l : List (Jump (Fin n) ℚ)) (x : Fin n → ℚ) : ℚ :=
  (l.map fun a => a.r * (x a.dst - x a.src) ^ 2).sum / 2

/-- `(W x)_i = Σ_{a : src = i} r_a (x_dst − x_src)` -/
def applyW {n : Nat} (l : List (Jump (Fin n) ℚ)) (x : Fin n → ℚ) (i : Fin n) : ℚ :=
  ((l.filter fun a => a.src = i).map fun a => a.r * (x a.dst - x a.src)).sum

def ofArray {n : Nat} (arr : Array ℚ) : Fin n → ℚ := fun i => arr.getD i.val 0

structure ModeReport where
  rate : ℚ          -- Rayleigh quotient
  resid2 : ℚ        -- Σ_i (W x + rate ρ x)_i² / ρ_i  /  Σ ρ x²
  loss : List ℚ     -- F_k F_k' / Σ ρ x²,  k,k' < dim²

/-- exact report on one candidate mode (none when `Σ ρ x² = 0` or some `ρ_i = 0`) -/
def modeReport {n : Nat} (l : List (Jump (Fin n) ℚ)) (ρ : List ℚ) (P : List (List ℚ)) (xs : List ℚ) : Option ModeReport :=
  let x : Fin n → ℚ := ofArray xs.toArray
  let nrm := (List.zipWith (fun r v => r * v * v) ρ xs).sum
  if nrm = 0 ∨ ρ.any (· = 0) ∨ xs.length ≠ n then none else
  let R := dirichlet l x / nrm
  let res := (List.finRange n).map fun i => (applyW l x i + R * ρ.getD i.val 0 * x i) ^ 2 / ρ.getD i.val 0
  let F := P.map fun p => (List.zipWith (· * ·) ρ (List.zipWith (· * ·) xs p)).sum
  some { rate := R, resid2 := res.sum / nrm, loss := F.flatMap fun f => F.map fun g => f * g / nrm }

/-- `−tr ω = Σ_{a : src ≠ dst} w_a` (a jump to a periodic image of the same site adds `symmrate − rate = 0`) -/
def traceRate (inp : Input) : ℚ :=
  ((flat inp).map fun (k, i, j, _) => if i = j then 0 else rate inp k i).sum

/-! ### mode merging, lines 600–607 -/

/-- add `L` to *every* stored mode whose rate is close (the code has no `break`); report whether any matched -/
def addToClose (close : ℚ → ℚ → Bool) (l : ℚ) (L : List ℚ) : List (ℚ × List ℚ) → List (ℚ × List ℚ) × Bool
  | [] => ([], false)
  | (l0, L0) :: t =>
    let (t', f) := addToClose close l L t
    if close l0 l then ((l0, List.zipWith (· + ·) L0 L) :: t', true) else ((l0, L0) :: t', f)

def mergeModes (close : ℚ → ℚ → Bool) : List (ℚ × List ℚ) → List (ℚ × List ℚ) → List (ℚ × List ℚ)
  | acc, [] => acc
  | acc, (l, L) :: t =>
    let (acc', f) := addToClose close l L acc
    mergeModes close (if f then acc' else acc' ++ [(l, L)]) t

/-- `np.isclose(a, b)` with the default `rtol = 1e-5`, `atol = 1e-8`: `|a − b| ≤ atol + rtol |b|` -/
def npIsclose (a b : ℚ) : Bool := decide (|a - b| ≤ 1 / 100000000 + 1 / 100000 * |b|)

/-! ### protocol
  request:  `<C02 input> # p_0 ; p_1 ; … (dim² lists over sites) # x ; x ; … (candidate modes, lists over sites)`
  answer:   `ok <fluct dim⁴> | <traceRate> | rate,resid2,loss… | rate,resid2,loss… …`   or `invalid`
-/

def parseLists (s : String) : Option (List (List ℚ)) :=
  if s = "-" ∨ s = "" then some [] else (s.splitOn ";").mapM fun t => parseRatList? t.trimAscii.toString

def handle (line : String) : String :=
  match (line.splitOn "#").map (·.trimAscii.toString) with
  | [inps, ps, xs] =>
    match parseInput inps, parseLists ps, parseLists xs with
    | some inp, some P, some X =>
      if P.any (·.length ≠ inp.n) then "invalid" else
      match network inp (unit inp.dim 0) (unit inp.dim 0) with
      | none => "invalid"
      | some l =>
        let ρ := (List.range inp.n).map (rho inp)
        match X.mapM (modeReport l ρ P) with
        | none => "invalid"
        | some reps =>
          s!"ok {showRatList (fluctTensor ρ P)} | {showRat (traceRate inp)}" ++
            String.join (reps.map fun r => s!" | {showRatList (r.rate :: r.resid2 :: r.loss)}")
    | _, _, _ => "bad-request"
  | _ => "bad-request"

end Onsager.C12
