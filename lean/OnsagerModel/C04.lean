/-
  C04 — input transformations on the exact interstitial model (OnsagerModel/C02.lean):
  common energy shift, joint prefactor scaling, uniform rate scaling, intra-cell displacement.
-/
import OnsagerModel.C02

namespace Onsager.C04
open Onsager.C02

/-- shift every site and transition-state energy by `c·ln q` -/
def shiftE (inp : Input) (c : Int) : Input :=
  { inp with ene := inp.ene.map (· + c), eneT := inp.eneT.map (· + c) }

/-- scale site and transition prefactors together -/
def scalePre (inp : Input) (s : ℚ) : Input :=
  { inp with pre := inp.pre.map (s * ·), preT := inp.preT.map (s * ·) }

/-- multiply every jump rate by `s` (transition prefactors only) -/
def scaleRates (inp : Input) (s : ℚ) : Input :=
  { inp with preT := inp.preT.map (s * ·) }

def vadd (x y : List ℚ) : List ℚ := List.zipWith (· + ·) x y
def vsub (x y : List ℚ) : List ℚ := List.zipWith (· - ·) x y

/-- displace site `i` by `s[i]` (lattice coordinates) keeping connectivity and rates -/
def displace (inp : Input) (s : List (List ℚ)) : Input :=
  { inp with jumps := inp.jumps.map fun cls => cls.map fun (i, j, dx) =>
      (i, j, vsub (vadd dx (s.getD j [])) (s.getD i [])) }

/-- well-formed data: every site has data, every class has data, non-zero prefactors and `q`,
    displacement vectors of full length -/
def wf (inp : Input) : Bool :=
  decide (inp.q ≠ 0) && !inp.ene.isEmpty && (inp.invmap.all fun w => w < inp.ene.length)
    && decide (inp.jumps.length ≤ inp.eneT.length)

end Onsager.C04
