/-
  C33 — reference Monte Carlo sampler (onsager/cluster.py: MonteCarloSampler.start / E /
  transitions / deltaE_trial / update, lines 572–703).

  The sampler is modelled over an ARBITRARY interaction table:
    rows[i]   = siteinteract[i][:Ninteract[i]]  (interactions site i takes part in; any order,
                repetitions allowed — they are counted with multiplicity exactly like the code),
    value[m]  = interactvalue[m]  (integer valued in the correspondence runs, so energies are exact),
    nenergy   = Nenergy  (interactions m < nenergy make up the energy, the rest belong to jumps),
    vacancy   = supercell.vacancy,
    jumps / irange = the jump list and `interactrange` (last entry = nenergy).

  State = (occ, clustercount, occupied_set, unoccupied_set).  Python sets of site indices are
  represented canonically as membership bit-vectors over the sites.  `self.x = …` mutation becomes
  a function returning the new state; exceptions become `Err`; an update that raises half-way
  returns the state reached so far together with the error, as the code leaves it.
-/
import OnsagerModel.Basic

namespace Onsager.C33

inductive Err
  | value     -- ValueError      (vacancy in an update/trial; transitions() without a jump network)
  | index     -- IndexError      (site out of range)
  | runtime   -- RuntimeError    (start: occupancy other than 0/1 away from the vacancy)
  | warning   -- RuntimeWarning  (start: supercell has a vacancy but occ[vacancy] != -1)
  | key       -- KeyError        (set.remove of an absent site; unreachable, see `update_no_keyerror`)
deriving Repr, DecidableEq

def Err.show : Err → String
  | .value => "value" | .index => "index" | .runtime => "runtime" | .warning => "warning" | .key => "key"

structure Table where
  rows : List (List Nat)
  value : Array Int
  nenergy : Nat
  vacancy : Option Nat
  jumps : Option (List (Nat × Nat))
  irange : Array Nat

structure State where
  occ : List Int
  cc : Array Int
  occd : List Bool
  unoccd : List Bool
deriving DecidableEq, Repr

/-- `for m in row: clustercount[m] += d` -/
def bump (c : Array Int) (row : List Nat) (d : Int) : Array Int :=
  row.foldl (fun c m => c.modify m (· + d)) c

/-- clustercount part of the loop `for i, occ_i, interact, Ninteract in zip(count(), occ, siteinteract, Ninteract)`
    of `start` (zip stops at the shorter list). -/
def startLoop (c : Array Int) : List Int → List (List Nat) → Array Int
  | o :: os, r :: rs => startLoop (if o = 0 then bump c r 1 else c) os rs
  | _, _ => c

/-- the `elif i != self.vacancy: raise RuntimeError` test of the same loop, for sites `k, k+1, …` -/
def validFrom (vac : Option Nat) : Nat → List Int → List (List Nat) → Bool
  | k, o :: os, _ :: rs => (o == 0 || o == 1 || vac == some k) && validFrom vac (k + 1) os rs
  | _, _, _ => true

/-- The state `start` builds from an occupation. -/
def fresh (T : Table) (occ : List Int) : State :=
  { occ := occ
    cc := startLoop (Array.replicate T.value.size 0) occ T.rows
    occd := (occ.take T.rows.length).map (· == 1)
    unoccd := (occ.take T.rows.length).map (· == 0) }

/-- the vacancy test at the top of `start` -/
def vacancyCheck (T : Table) (occ : List Int) : Option Err :=
  match T.vacancy with
  | none => none
  | some v =>
    match occ[v]? with
    | none => some .index
    | some o => if o = -1 then none else some .warning

def start (T : Table) (occ : List Int) : Except Err State :=
  match vacancyCheck T occ with
  | some e => .error e
  | none => if validFrom T.vacancy 0 occ T.rows then .ok (fresh T occ) else .error .runtime

/-- `E()` -/
def energy (T : Table) (s : State) : Int :=
  ((List.range T.nenergy).map fun m => if s.cc.getD m 1 = 0 then T.value.getD m 0 else 0).sum

/-- One iteration of either loop of `update`: `toOcc = true` is the body of `for i in occsites`,
    `false` the body of `for i in unoccsites`. -/
def moveOne (T : Table) (toOcc : Bool) (s : State) (i : Nat) : State × Option Err :=
  match s.occ[i]? with
  | none => (s, some .index)
  | some o =>
    if o = (if toOcc then 0 else 1) then
      let s1 : State := { s with occ := s.occ.set i (if toOcc then 1 else 0) }
      if toOcc then
        -- unoccupied_set.remove(i); occupied_set.add(i)
        if s.unoccd.getD i false = false then (s1, some .key)
        else ({ s1 with unoccd := s.unoccd.set i false, occd := s.occd.set i true,
                        cc := bump s.cc (T.rows.getD i []) (-1) }, none)
      else
        -- unoccupied_set.add(i); occupied_set.remove(i)
        if s.occd.getD i false = false then ({ s1 with unoccd := s.unoccd.set i true }, some .key)
        else ({ s1 with unoccd := s.unoccd.set i true, occd := s.occd.set i false,
                        cc := bump s.cc (T.rows.getD i []) 1 }, none)
    else (s, none)

/-- sequential loop that stops at the first exception, keeping the state reached -/
def moveMany (T : Table) (toOcc : Bool) (s : State) : List Nat → State × Option Err
  | [] => (s, none)
  | i :: is =>
    match moveOne T toOcc s i with
    | (s', none) => moveMany T toOcc s' is
    | r => r

def hasVacancy (T : Table) (sites : List Nat) : Bool :=
  match T.vacancy with
  | none => false
  | some v => sites.contains v

/-- `update(occsites, unoccsites)` -/
def update (T : Table) (s : State) (occs unoccs : List Nat) : State × Option Err :=
  if hasVacancy T occs then (s, some .value)
  else if hasVacancy T unoccs then (s, some .value)
  else
    match moveMany T true s occs with
    | (s', none) => moveMany T false s' unoccs
    | r => r

/-- the two loops of `deltaE_trial` building `dclustercount` (kept dense here) -/
def dAcc (T : Table) (occ : List Int) (want sgn : Int) (d : Array Int) : List Nat → Except Err (Array Int)
  | [] => .ok d
  | i :: is =>
    match occ[i]? with
    | none => .error .index
    | some o => dAcc T occ want sgn (if o = want then bump d (T.rows.getD i []) sgn else d) is

/-- the body of the final loop of `deltaE_trial` for one interaction -/
def dEterm (c d v : Int) : Int :=
  if d = 0 then 0 else if c = 0 then -v else if c = d then v else 0

def dEsum (T : Table) (cc d : Array Int) : Int :=
  ((List.range T.nenergy).map fun m => dEterm (cc.getD m 0) (d.getD m 0) (T.value.getD m 0)).sum

/-- `deltaE_trial(occsites, unoccsites)` -/
def deltaE (T : Table) (s : State) (occs unoccs : List Nat) : Except Err Int :=
  if hasVacancy T occs then .error .value
  else if hasVacancy T unoccs then .error .value
  else
    match dAcc T s.occ 0 1 (Array.replicate T.value.size 0) occs with
    | .error e => .error e
    | .ok d1 =>
      match dAcc T s.occ 1 (-1) d1 unoccs with
      | .error e => .error e
      | .ok d => .ok (dEsum T s.cc d)

/-- barrier sum over `interactvalue[lo:hi]` where `clustercount == 0` -/
def qsum (T : Table) (cc : Array Int) (lo hi : Nat) : Int :=
  ((List.range' lo (hi - lo)).map fun m => if cc.getD m 1 = 0 then T.value.getD m 0 else 0).sum

/-- `interactrange[n-1]` with Python's wrap-around for `n = 0` -/
def lower (T : Table) (n : Nat) : Nat :=
  if n = 0 then T.irange.back?.getD 0 else T.irange.getD (n - 1) 0

def jumpsFrom (T : Table) (s : State) : Nat → List (Nat × Nat) → List (Nat × Nat × Nat × Int)
  | _, [] => []
  | n, (i, j) :: js =>
    if T.vacancy.isNone && (s.occ.getD i 9 == 0 || s.occ.getD j 9 == 1) then jumpsFrom T s (n + 1) js
    else (n, i, j, qsum T s.cc (lower T n) (T.irange.getD n 0)) :: jumpsFrom T s (n + 1) js

/-- `transitions()`: (jump number, initial, final, barrier) of every listed transition -/
def transitions (T : Table) (s : State) : Except Err (List (Nat × Nat × Nat × Int)) :=
  match T.jumps with
  | none => .error .value
  | some js => .ok (jumpsFrom T s 0 js)

/-! ### histories -/

inductive Op
  | start (occ : List Int)
  | update (occs unoccs : List Nat)
deriving Repr

/-- `none` = not started (or a `start` raised: the object is then half-initialised and has to be
    started again before use). -/
def step (T : Table) (st : Option State) : Op → Option State
  | .start occ => match start T occ with | .ok s => some s | .error _ => none
  | .update occs unoccs => st.map fun s => (update T s occs unoccs).1

def run (T : Table) (ops : List Op) : Option State := ops.foldl (step T) none

/-! ### line protocol -/

def bitsToSet (b : List Bool) : List Nat :=
  (List.range b.length).filter fun i => b.getD i false

/-- checksum of a count vector: (Σ c, Σ (m+1)·c mod 1000003) -/
def checksum (c : Array Int) : Int × Int :=
  let r := c.foldl (fun (acc : Int × Int × Int) x => (acc.1 + x, (acc.2.1 + acc.2.2 * x) % 1000003, acc.2.2 + 1)) (0, 0, 1)
  (r.1, r.2.1)

def parsePairs? (s : String) : Option (List (Nat × Nat)) :=
  if s = "-" then some [] else
  (s.splitOn ";").mapM fun p =>
    match p.splitOn ":" with
    | [a, b] => do some ((← parseNat? a), (← parseNat? b))
    | _ => none

/-- `table <rows> <values> <nenergy> <vacancy|-1> <jumps i:j;…|none> <irange>` -/
def parseTable? (ws : List String) : Option Table :=
  match ws with
  | [rows, vals, ne, vac, jumps, ir] => do
    let rows ← parseNatListList? rows
    let vals ← parseIntList? vals
    let ne ← parseNat? ne
    let vac ← parseInt? vac
    let js ← if jumps = "none" then some none else (parsePairs? jumps).map some
    let ir ← parseNatList? ir
    some { rows := rows, value := vals.toArray, nenergy := ne,
           vacancy := if vac < 0 then none else some vac.toNat, jumps := js, irange := ir.toArray }
  | _ => none

def showStatus : Option Err → String
  | none => "ok"
  | some e => "err:" ++ e.show

def showObs (T : Table) (s : State) : String :=
  let ck := checksum s.cc
  s!"{energy T s} {showList (bitsToSet s.occd)} {showList (bitsToSet s.unoccd)} {ck.1} {ck.2}"

def showTrans (l : List (Nat × Nat × Nat × Int)) : String :=
  if l.isEmpty then "-" else ";".intercalate (l.map fun (n, i, j, q) => s!"{n}:{i}:{j}:{q}")

structure Session where
  T : Table := { rows := [], value := #[], nenergy := 0, vacancy := none, jumps := none, irange := #[] }
  st : Option State := none

def handle (σ : Session) (line : String) : Session × String :=
  match toks line with
  | "table" :: ws =>
    match parseTable? ws with
    | some T => ({ T := T, st := none }, "ok")
    | none => (σ, "parse-error")
  | ["start", occ] =>
    match parseIntList? occ with
    | none => (σ, "parse-error")
    | some occ =>
      match start σ.T occ with
      | .ok s => ({ σ with st := some s }, "ok")
      | .error e => ({ σ with st := none }, "err:" ++ e.show)
  | ["upd", a, b] =>
    match parseNatList? a, parseNatList? b, σ.st with
    | some a, some b, some s =>
      let r := update σ.T s a b
      ({ σ with st := some r.1 }, showStatus r.2)
    | _, _, _ => (σ, "parse-error-or-unstarted")
  | ["de", a, b] =>
    match parseNatList? a, parseNatList? b, σ.st with
    | some a, some b, some s =>
      (σ, match deltaE σ.T s a b with | .ok x => s!"ok {x}" | .error e => "err:" ++ e.show)
    | _, _, _ => (σ, "parse-error-or-unstarted")
  | ["obs"] =>
    match σ.st with
    | some s => (σ, showObs σ.T s)
    | none => (σ, "unstarted")
  | ["cc"] =>
    match σ.st with
    | some s => (σ, showList s.cc.toList)
    | none => (σ, "unstarted")
  | ["occ"] =>
    match σ.st with
    | some s => (σ, showList s.occ)
    | none => (σ, "unstarted")
  | ["trans"] =>
    match σ.st with
    | some s => (σ, match transitions σ.T s with | .ok l => "ok " ++ showTrans l | .error e => "err:" ++ e.show)
    | none => (σ, "unstarted")
  | _ => (σ, "parse-error")

end Onsager.C33
