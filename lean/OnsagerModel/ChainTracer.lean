/-
  Decidable hypotheses of the tracer theorems (OnsagerProofs/ChainTracer.lean) on a concrete pair of chains:
  `pair` = tagged atom + vacancy chain, `lone` = lone vacancy chain, `proj` = state of `pair` → state of `lone`
  (forget the tagged atom), `m` = number of tagged-atom positions per vacancy state.
-/
import OnsagerModel.Chain
import OnsagerProofs.Lemmas.Tracer

namespace Onsager.Chain
open Onsager Onsager.C02 Onsager.Var

def projFun (n' n : Nat) (hn : 0 < n) (proj : List Nat) : Fin n' → Fin n :=
  fun i => if h : proj.getD i.val 0 < n then ⟨proj.getD i.val 0, h⟩ else ⟨0, hn⟩

/-- every state of `lone` has exactly `m` preimages -/
def fibrecheck (n' n : Nat) (hn : 0 < n) (proj : List Nat) (m : Nat) : Bool :=
  (List.finRange n).all fun k => (List.finRange n').countP (fun i => projFun n' n hn proj i = k) == m

/-- `l'` covers `l` with unchanged weights -/
def covers {n' n : Nat} (π : Fin n' → Fin n) (l : List (Jump (Fin n) ℚ)) (l' : List (Jump (Fin n') ℚ)) : Bool :=
  (List.finRange n').all fun i =>
    ((l'.filter (fun a => a.src = i)).map (Jump.relabel π)).isPerm
      ((l.filter (fun a => a.src = π i)).map (Jump.scale 1))

/-- class sums of the tagged-atom displacement are minus those of the vacancy displacement -/
def classes {n' n : Nat} (π : Fin n' → Fin n) (l : List (Jump (Fin n) ℚ)) (l' : List (Jump (Fin n') ℚ)) : Bool :=
  ((l'.map (Jump.relabel π)).map jkey ++ l.map jkey).all fun k =>
    classSum (l'.map (Jump.relabel π)) k == -1 * classSum l k

/-- hypotheses of `tracer_vv` for components (α, β) -/
def checkVV (pair lone : Input) (proj : List Nat) (m α β : Nat) : Bool :=
  if hn : 0 < lone.n then
    fibrecheck pair.n lone.n hn proj m &&
    match network lone 1 1 α β, network pair 1 1 α β with
    | some l, some l' => covers (projFun pair.n lone.n hn proj) l l'
    | _, _ => false
  else false

/-- hypotheses of `tracer_sv` for components (α, β) -/
def checkSV (pair lone : Input) (proj : List Nat) (α β : Nat) : Bool :=
  if hn : 0 < lone.n then
    match network lone 1 1 α β, network pair 0 1 α β with
    | some l, some l' =>
      covers (projFun pair.n lone.n hn proj) (l.map Jump.diagE) (l'.map Jump.diagE) &&
      classes (projFun pair.n lone.n hn proj) l l'
    | _, _ => false
  else false

/-- protocol: `proj ; m # <pair chain> # <lone chain>` → `vv=<0/1> sv=<0/1>` (conjunction over all components) -/
def handleTracer (line : String) : String :=
  match line.splitOn "#" with
  | [hd, s1, s2] =>
    match parseInput s1.trimAscii.toString, parseInput s2.trimAscii.toString,
          (hd.splitOn ";").map (·.trimAscii.toString) with
    | some (pair, _), some (lone, _), [proj, m] =>
      match parseNatList? proj, m.toNat? with
      | some proj, some m =>
        let comps := (List.range pair.dim).flatMap fun α => (List.range pair.dim).map fun β => (α, β)
        let vv := comps.all fun (α, β) => checkVV pair lone proj m α β
        let sv := comps.all fun (α, β) => checkSV pair lone proj α β
        s!"vv={if vv then 1 else 0} sv={if sv then 1 else 0}"
      | _, _ => "bad-request"
    | _, _, _ => "bad-request"
  | _ => "bad-request"

end Onsager.Chain
