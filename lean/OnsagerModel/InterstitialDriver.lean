/-
  Line protocol shared by C02–C05: `<cmd> [args] # <input>` with `<input>` as in OnsagerModel/C02.lean.
    D                        tensor, site probabilities, bare tensor
    form u                   u·D·u for a direction in lattice components (comma separated rationals)
    inv u ; u' ; perm        `invcheck` (C03) and both forms
    lower k δ                tensor after lowering transition-state energy of class k by δ (C05)
    shift c | prescale s | rscale s | displace s0;s1;…     transformed input's tensor (C04)
-/
import OnsagerModel.C02
import OnsagerModel.C03
import OnsagerModel.C04
import OnsagerModel.C05

namespace Onsager.Interstitial
open Onsager Onsager.C02

def showTensor (inp : Input) : String :=
  match tensor inp with
  | none => "invalid"
  | some t => s!"ok {showRatList t.flatten}"

def showOpt : Option ℚ → String
  | none => "invalid"
  | some x => showRat x

def handle (line : String) : String :=
  match line.splitOn "#" with
  | [cmd, inps] =>
    match parseInput inps.trimAscii.toString with
    | none => "bad-request"
    | some inp =>
      match toks cmd with
      | ["D"] => C02.handle inps.trimAscii.toString
      | ["form", u] =>
        match parseRatList? u with
        | some u => showOpt (form inp u u)
        | none => "bad-request"
      | "inv" :: rest =>
        match (" ".intercalate rest).splitOn ";" |>.map (·.trimAscii.toString) with
        | [u, u', perm] =>
          match parseRatList? u, parseRatList? u', parseNatList? perm with
          | some u, some u', some perm =>
            s!"{if C03.invcheck inp u u' perm then 1 else 0} {showOpt (form inp u u)} {showOpt (form inp u' u')}"
          | _, _, _ => "bad-request"
        | _ => "bad-request"
      | ["lower", k, δ] =>
        match parseNat? k, parseNat? δ with
        | some k, some δ => showTensor (C05.lower inp k δ)
        | _, _ => "bad-request"
      | ["shift", c] =>
        match parseInt? c with
        | some c => s!"{if C04.wf inp then 1 else 0} {showTensor (C04.shiftE inp c)}"
        | none => "bad-request"
      | ["prescale", s] =>
        match parseRat? s with
        | some s => showTensor (C04.scalePre inp s)
        | none => "bad-request"
      | ["rscale", s] =>
        match parseRat? s with
        | some s => showTensor (C04.scaleRates inp s)
        | none => "bad-request"
      | ["displace", s] =>
        match (s.splitOn ";").mapM parseRatList? with
        | some s => showTensor (C04.displace inp s)
        | none => "bad-request"
      | _ => "bad-request"
  | _ => "bad-request"

end Onsager.Interstitial
