/-
  C14 — heap/cache state machine for `VacancyMediated.Lij` and its cache `Lvvvalues`
  (onsager/OnsagerCalc.py, `Lij`, "1. bare vacancy diffusivity and Green's function").

  Python object identity is modelled by references into a heap of symbolic array contents.
  `Lij` looks the vacancy key up in the cache; on a miss it computes the bare tensor (a new array
  object, which is also `GFcalc.D`), stores *that object* in the cache, and returns it as the first
  element of its result tuple together with three freshly computed arrays.

  Two variants of the store/return step:
    * `Mode.alias` – the returned first element IS the cached object,
    * `Mode.copy`  – the caller receives a copy; the cached object is never handed out.
  Which one the source implements is a generated fact (Generated/C14Facts.lean).
-/
import OnsagerModel.Basic

namespace Onsager.C14

inductive Mode | alias | copy
  deriving DecidableEq, Repr

/-- Symbolic content of one array object. -/
inductive Val
  | pure (id slot : Nat)   -- slot 0: bare vacancy tensor for vacancy key `id`; slot 1..3: Lss, Lsv, L1vv for input `id`
  | const (c : Int)        -- overwritten in place by the caller with the constant `c`
  deriving DecidableEq, Repr

-- array objects are identified by natural numbers (allocation order)

structure State where
  heap : Nat → Val                 -- content of every array object
  next : Nat                       -- allocation pointer: objects `< next` exist
  cache : List (Nat × Nat)         -- `Lvvvalues`: vacancy key ↦ array object (first match wins)
  returned : List (List Nat)       -- the tuple of array objects handed to the caller by each `Lij` call

def init : State := { heap := fun _ => .const 0, next := 0, cache := [], returned := [] }

/-- history operations (the quantifier of C14) -/
inductive Op
  | lij (k x : Nat)                -- `Lij` on input `x` whose vacancy part (bFV, bFT0) is key `k`
  | mutate (call slot : Nat) (c : Int)  -- caller does `result_of_call[slot][:] = c`
  | clear                          -- `clearcache()`
  | regen                          -- `generate(N'); generate(N); generatematrices(); generatetags()` (clears the cache)
  | saveload                       -- `addhdf5` then `loadhdf5`; the caller continues with the loaded object
  deriving DecidableEq, Repr

def lookup (c : List (Nat × Nat)) (k : Nat) : Option Nat :=
  match c with
  | [] => none
  | (k', r) :: t => if k' = k then some r else lookup t k

def setHeap (h : Nat → Val) (r : Nat) (v : Val) : Nat → Val := fun r' => if r' = r then v else h r'

/-- allocate a new array object with content `v` -/
def alloc (s : State) (v : Val) : State × Nat :=
  ({ s with heap := setHeap s.heap s.next v, next := s.next + 1 }, s.next)

/-- the history-free result of `Lij` on input `x` with vacancy key `k` -/
def pureOut (k x : Nat) : List Val := [.pure k 0, .pure x 1, .pure x 2, .pure x 3]

/-- cache lookup; on a miss compute the bare tensor (a new array object, `GFcalc.D`) and store THAT object -/
def fetch (s : State) (k : Nat) : State × Nat :=
  match lookup s.cache k with
  | some r => (s, r)
  | none =>
    let p := alloc s (.pure k 0)                        -- SetRates + Diffusivity()
    ({ p.1 with cache := (k, p.2) :: p.1.cache }, p.2)  -- Lvvvalues[vTK] = L0vv  (the same object)

/-- what is handed to the caller as first element of the result tuple -/
def hand (m : Mode) (s : State) (rc : Nat) : State × Nat :=
  match m with
  | .alias => (s, rc)
  | .copy => alloc s (s.heap rc)

/-- `Lij`: returns the new state and the *contents* of the four returned arrays at return time.
    Lss, Lsv, L1vv are computed afresh on every call. -/
def lij (m : Mode) (s : State) (k x : Nat) : State × List Val :=
  let p1 := fetch s k
  let p2 := hand m p1.1 p1.2
  let p3 := alloc p2.1 (.pure x 1)
  let p4 := alloc p3.1 (.pure x 2)
  let p5 := alloc p4.1 (.pure x 3)
  ({ p5.1 with returned := p5.1.returned ++ [[p2.2, p3.2, p4.2, p5.2]] },
   [p5.1.heap p2.2, p5.1.heap p3.2, p5.1.heap p4.2, p5.1.heap p5.2])

def mutate (s : State) (call slot : Nat) (c : Int) : State :=
  match s.returned[call]? with
  | none => s
  | some t => match t[slot]? with
    | none => s
    | some r => { s with heap := setHeap s.heap r (.const c) }

/-- save + load: every cached array is written out and read back into a new object; the caller's old
    arrays are no longer connected to the (new) calculator. -/
def saveload (s : State) : State :=
  let n := s.cache.length
  { heap := fun r => if s.next ≤ r ∧ r < s.next + n then
                       (match s.cache[r - s.next]? with | some (_, r') => s.heap r' | none => s.heap r)
                     else s.heap r,
    next := s.next + n,
    cache := (List.range n).zipWith (fun i (kr : Nat × Nat) => (kr.1, s.next + i)) s.cache,
    returned := s.returned }

def step (m : Mode) (s : State) : Op → State × Option (List Val)
  | .lij k x => let (s', out) := lij m s k x; (s', some out)
  | .mutate call slot c => (mutate s call slot c, none)
  | .clear => ({ s with cache := [] }, none)
  | .regen => ({ s with cache := [] }, none)
  | .saveload => (saveload s, none)

def runState (m : Mode) (s : State) : List Op → State
  | [] => s
  | op :: t => runState m (step m s op).1 t

/-- what `Lij` on input `(k, x)` returns after the history `h` on a new calculator -/
def lijAfter (m : Mode) (h : List Op) (k x : Nat) : List Val :=
  (lij m (runState m init h) k x).2

/-- all outputs along a history (for the driver) -/
def runOut (m : Mode) (s : State) : List Op → List (Option (List Val))
  | [] => []
  | op :: t => let (s', o) := step m s op; o :: runOut m s' t

/-! ### line protocol (Drive/C14.lean)
   request: `<mode> <op>;<op>;…`  with ops `L k x`, `M call slot c`, `C`, `R`, `S`
   answer: for every `L` op, in order, four tokens `p<id>.<slot>` or `c<int>` joined by ',' ; ops joined by ' ' -/

def showVal : Val → String
  | .pure i s => s!"p{i}.{s}"
  | .const c => s!"c{c}"

def parseOp (s : String) : Option Op :=
  match toks s with
  | ["L", k, x] => do some (.lij (← parseNat? k) (← parseNat? x))
  | ["M", a, b, c] => do some (.mutate (← parseNat? a) (← parseNat? b) (← parseInt? c))
  | ["C"] => some .clear
  | ["R"] => some .regen
  | ["S"] => some .saveload
  | _ => none

def handle (line : String) : String :=
  match line.splitOn " | " with
  | [m, opsS] =>
    let mode? : Option Mode := if m = "alias" then some .alias else if m = "copy" then some .copy else none
    match mode?, (opsS.splitOn ";").mapM parseOp with
    | some mode, some ops =>
      let outs := (runOut mode init ops).filterMap id
      if outs.isEmpty then "-" else " ".intercalate (outs.map fun o => ",".intercalate (o.map showVal))
    | _, _ => "parse-error"
  | _ => "parse-error"

end Onsager.C14
