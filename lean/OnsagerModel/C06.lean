/-
  C06 — the tracer data generator (OnsagerCalc.py: VacancyMediated.maketracerpreene):
  solute identical to host: unit solute prefactors, zero solute and binding energies, and every
  swing / exchange transition state copies the data of its bare vacancy jump type.
-/
import OnsagerModel.Basic

namespace Onsager.C06

structure TracerData where
  preS : List Rat
  eneS : List Rat
  preSV : List Rat
  eneSV : List Rat
  preT1 : List Rat
  eneT1 : List Rat
  preT2 : List Rat
  eneT2 : List Rat

/-- `jt1`, `jt2`: omega0 jump type of each omega1 / omega2 class (om1_jt, om2_jt).
    An out-of-range jump type raises IndexError in the source. -/
def maketracer (nW nTh : Nat) (jt1 jt2 : List Nat) (preT0 eneT0 : List Rat) : Option TracerData :=
  if (jt1.all fun j => j < preT0.length ∧ j < eneT0.length) ∧
     (jt2.all fun j => j < preT0.length ∧ j < eneT0.length) then
    some { preS := List.replicate nW 1, eneS := List.replicate nW 0,
           preSV := List.replicate nTh 1, eneSV := List.replicate nTh 0,
           preT1 := jt1.map fun j => preT0.getD j 1, eneT1 := jt1.map fun j => eneT0.getD j 0,
           preT2 := jt2.map fun j => preT0.getD j 1, eneT2 := jt2.map fun j => eneT0.getD j 0 }
  else none

/-- protocol: `nW nTh | jt1 | jt2 | preT0 | eneT0`  →  the eight lists -/
def handle (line : String) : String :=
  match (line.splitOn "|").map (·.trimAscii.toString) with
  | [hd, jt1, jt2, p0, e0] =>
    match toks hd, parseNatList? jt1, parseNatList? jt2, parseRatList? p0, parseRatList? e0 with
    | [a, b], some jt1, some jt2, some p0, some e0 =>
      match parseNat? a, parseNat? b with
      | some nW, some nTh =>
        match maketracer nW nTh jt1 jt2 p0 e0 with
        | none => "index-error"
        | some d => " | ".intercalate ([d.preS, d.eneS, d.preSV, d.eneSV, d.preT1, d.eneT1, d.preT2, d.eneT2].map showRatList)
      | _, _ => "bad-request"
    | _, _, _, _, _ => "bad-request"
  | _ => "bad-request"

end Onsager.C06
