/-
  C05 — Rayleigh monotonicity: the input transformation "lower the free energy of one
  transition state" on the exact interstitial model of OnsagerModel/C02.lean.
-/
import OnsagerModel.C02

namespace Onsager.C05
open Onsager.C02

/-- lower the transition-state energy of jump class `k` by `δ·ln q ≥ 0` -/
def lower (inp : Input) (k δ : Nat) : Input :=
  { inp with eneT := inp.eneT.modify k (fun e => e - (δ : Int)) }

end Onsager.C05
