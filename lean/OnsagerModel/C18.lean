/-
  C18 — GroupOp algebra, crystals in lattice coordinates, the verified checkers
  `isSpaceGroupOp` / `isGroupModTranslations`, and exact re-implementations of
  `maptranslation` and `Crystal.gengroup` (onsager/crystal.py:51-125, 128-241, 999-1055).

  Everything is exact: a crystal is (metric g = LᵀL over ℚ, atoms in unit-cell coordinates
  over ℚ, integer (scalar) spins); a group operation is (integer rot, rational trans, indexmap).
  Vectors / matrices are functions on `Fin d` so that the proofs can read them as Mathlib
  matrices; `d` is generic (the determinant/adjugate are implemented for d = 2, 3 only, like
  `quickabsdet` in the source).
-/
import OnsagerModel.Basic
import OnsagerModel.C21   -- Onsager.Geom.floorSqrt / boxLists (integer square root, box enumeration)

namespace Onsager.C18

abbrev Vec (d : Nat) (α : Type) := Fin d → α
abbrev Mat (d : Nat) (α : Type) := Fin d → Fin d → α

section LA
variable {d : Nat}

def dotI (u v : Vec d Int) : Int := (List.ofFn fun k => u k * v k).sum
def dotR (u v : Vec d Rat) : Rat := (List.ofFn fun k => u k * v k).sum

def mulVecI (A : Mat d Int) (v : Vec d Int) : Vec d Int := fun i => dotI (A i) v
def mulVecR (A : Mat d Rat) (v : Vec d Rat) : Vec d Rat := fun i => dotR (A i) v
def mmulI (A B : Mat d Int) : Mat d Int := fun i j => dotI (A i) (fun k => B k j)
def mmulR (A B : Mat d Rat) : Mat d Rat := fun i j => dotR (A i) (fun k => B k j)
def transp {α : Type} (A : Mat d α) : Mat d α := fun i j => A j i

def oneI : Mat d Int := fun i j => if i = j then 1 else 0
def castV (v : Vec d Int) : Vec d Rat := fun i => (v i : Rat)
def castM (A : Mat d Int) : Mat d Rat := fun i j => (A i j : Rat)

def zeroV : Vec d Rat := fun _ => 0
def addV (u v : Vec d Rat) : Vec d Rat := fun i => u i + v i
def subV (u v : Vec d Rat) : Vec d Rat := fun i => u i - v i

/-- Tabulated vector / matrix: plain data, built strictly by the `noinline` constructors below. -/
structure TVec (d : Nat) (α : Type) where
  tbl : Vector α d
structure TMat (d : Nat) (α : Type) where
  tbl : Vector (Vector α d) d

@[noinline] def TVec.ofFn {α : Type} (v : Vec d α) : TVec d α := ⟨Vector.ofFn v⟩
@[noinline] def TMat.ofFn {α : Type} (A : Mat d α) : TMat d α := ⟨Vector.ofFn fun i => Vector.ofFn (A i)⟩
def TVec.get {α : Type} (t : TVec d α) : Vec d α := fun i => t.tbl[i]
def TMat.get {α : Type} (t : TMat d α) : Mat d α := fun i j => t.tbl[i][j]

/-- Memoise a vector / matrix (semantically the identity).  `macro_inline`, so that the table is
    built where the value is created: a *definition* of function type would be eta-expanded by the
    compiler and rebuild the table on every access. -/
@[macro_inline] def tabV {α : Type} (v : Vec d α) : Vec d α := TVec.get (TVec.ofFn v)
@[macro_inline] def tabM {α : Type} (A : Mat d α) : Mat d α := TMat.get (TMat.ofFn A)

/-- Memoise every element of a list, in two passes (tables first, then readers): robust even when
    the elements come out of a lambda that the compiler lifts and eta-expands. -/
def tabVs {α : Type} (l : List (Vec d α)) : List (Vec d α) := (l.map TVec.ofFn).map TVec.get
def tabMs {α : Type} (l : List (Mat d α)) : List (Mat d α) := (l.map TMat.ofFn).map TMat.get

def vecEqI (u v : Vec d Int) : Bool := (List.finRange d).all fun i => u i == v i
def vecEqR (u v : Vec d Rat) : Bool := (List.finRange d).all fun i => u i == v i
def matEqI (A B : Mat d Int) : Bool := (List.finRange d).all fun i => vecEqI (A i) (B i)
def matEqR (A B : Mat d Rat) : Bool := (List.finRange d).all fun i => vecEqR (A i) (B i)

/-- every component is an integer -/
def isIntVec (v : Vec d Rat) : Bool := (List.finRange d).all fun i => (v i).den == 1

/-- `|x|² = xᵀ g x` -/
def nsq (g : Mat d Rat) (x : Vec d Rat) : Rat := dotR x (mulVecR g x)

/-- `inhalf`: component-wise `x - floor(x + 1/2)`  (into [-1/2, 1/2)). -/
def inhalf (v : Vec d Rat) : Vec d Rat := fun i => v i - ((v i + 1/2).floor : Rat)
/-- exact `incell`: component-wise `x - floor x` (into [0,1)). -/
def incell (v : Vec d Rat) : Vec d Rat := fun i => v i - ((v i).floor : Rat)

end LA

/-- determinant for d = 2, 3 (0 otherwise: the source only handles 2 and 3, `quickabsdet`). -/
def det : {d : Nat} → Mat d Int → Int
  | 2, A => A 0 0 * A 1 1 - A 0 1 * A 1 0
  | 3, A => A 0 0 * (A 1 1 * A 2 2 - A 1 2 * A 2 1)
          - A 0 1 * (A 1 0 * A 2 2 - A 1 2 * A 2 0)
          + A 0 2 * (A 1 0 * A 2 1 - A 1 1 * A 2 0)
  | _, _ => 0

/-- adjugate for d = 2, 3. -/
def adj : {d : Nat} → Mat d Int → Mat d Int
  | 2, A => fun i j =>
      if i = 0 ∧ j = 0 then A 1 1 else if i = 0 ∧ j = 1 then - A 0 1
      else if i = 1 ∧ j = 0 then - A 1 0 else A 0 0
  | 3, A => fun i j => A (j+1) (i+1) * A (j+2) (i+2) - A (j+1) (i+2) * A (j+2) (i+1)
  | _, A => A

/-- Integer inverse of a unimodular matrix: `det·adj`, *checked* (`B·A = 1 = A·B`), so that
    soundness does not depend on the cofactor formulas.  `np.round(np.linalg.inv(rot))` of the
    source agrees with it exactly when `|det| = 1`. -/
def invRot? {d : Nat} (A : Mat d Int) : Option (Mat d Int) :=
  let dt := det A
  let B : Mat d Int := tabM fun i j => dt * adj A i j
  if matEqI (mmulI B A) oneI && matEqI (mmulI A B) oneI then some B else none

/-- determinant over ℚ for d = 2, 3 -/
def detQ : {d : Nat} → Mat d Rat → Rat
  | 2, A => A 0 0 * A 1 1 - A 0 1 * A 1 0
  | 3, A => A 0 0 * (A 1 1 * A 2 2 - A 1 2 * A 2 1)
          - A 0 1 * (A 1 0 * A 2 2 - A 1 2 * A 2 0)
          + A 0 2 * (A 1 0 * A 2 1 - A 1 1 * A 2 0)
  | _, _ => 0

def adjQ : {d : Nat} → Mat d Rat → Mat d Rat
  | 2, A => fun i j =>
      if i = 0 ∧ j = 0 then A 1 1 else if i = 0 ∧ j = 1 then - A 0 1
      else if i = 1 ∧ j = 0 then - A 1 0 else A 0 0
  | 3, A => fun i j => A (j+1) (i+1) * A (j+2) (i+2) - A (j+1) (i+2) * A (j+2) (i+1)
  | _, A => A

def oneR {d : Nat} : Mat d Rat := fun i j => if i = j then 1 else 0

/-- inverse of a rational matrix (`np.linalg.inv(self.metric)`), cofactor formula, CHECKED -/
def invQ? {d : Nat} (A : Mat d Rat) : Option (Mat d Rat) :=
  let dt := detQ A
  if dt = 0 then none else
  let B : Mat d Rat := tabM fun i j => adjQ A i j / dt
  if matEqR (mmulR A B) oneR then some B else none

/-! ### GroupOp (crystal.py:128-241) -/

structure GroupOp (d : Nat) where
  rot : Mat d Int
  trans : Vec d Rat
  indexmap : List (List Nat)

namespace GroupOp
variable {d : Nat}

/-- `GroupOp.ident(basis)`; `shape` = number of atoms of each species. -/
def ident (shape : List Nat) : GroupOp d :=
  { rot := oneI, trans := zeroV, indexmap := shape.map List.range }

/-- `atomlist0[i] for i in atomlist1` raises IndexError when an index is out of range. -/
def compat (g h : GroupOp d) : Bool :=
  (List.zip g.indexmap h.indexmap).all fun (a0, a1) => a1.all fun i => i < a0.length

/-- `__mul__` (total; meaningful when `compat g h`). -/
def mul (g h : GroupOp d) : GroupOp d :=
  { rot := mmulI g.rot h.rot
    trans := addV (mulVecR (castM g.rot) h.trans) g.trans
    indexmap := List.zipWith (fun a0 a1 => a1.map fun i => a0.getD i 0) g.indexmap h.indexmap }

/-- `__add__` of an integer (lattice) vector. -/
def addT (g : GroupOp d) (n : Vec d Int) : GroupOp d :=
  { g with trans := addV g.trans (castV n) }

/-- insertion sort (structural recursion, so that the kernel can evaluate it) -/
def insertBy {α : Type} (le : α → α → Bool) (a : α) : List α → List α
  | [] => [a]
  | b :: l => if le a b then a :: b :: l else b :: insertBy le a l
def isort {α : Type} (le : α → α → Bool) : List α → List α
  | [] => []
  | a :: l => insertBy le a (isort le l)

def lexLe (a b : Nat × Nat) : Bool := a.1 < b.1 || (a.1 == b.1 && a.2 ≤ b.2)

/-- `x for i, x in sorted([(y, j) for j, y in enumerate(atomlist)])`: stable argsort. -/
def invIndex (l : List Nat) : List Nat :=
  (isort lexLe (List.zip l (List.range l.length))).map (·.2)

/-- `inv()`; `none` when rot is not unimodular (outside the documented domain of GroupOp). -/
def inv? (g : GroupOp d) : Option (GroupOp d) :=
  match invRot? g.rot with
  | none => none
  | some B => some
      { rot := B
        trans := fun i => - mulVecR (castM B) g.trans i
        indexmap := g.indexmap.map invIndex }

/-- affine action on a position in unit-cell coordinates -/
def act (g : GroupOp d) (x : Vec d Rat) : Vec d Rat := addV (mulVecR (castM g.rot) x) g.trans

/-- same operation up to a lattice translation: equal rot, equal indexmap, trans differing by an
    integer vector -/
def equivT (g h : GroupOp d) : Bool :=
  matEqI g.rot h.rot && (g.indexmap == h.indexmap) && isIntVec (subV g.trans h.trans)

def tab (g : GroupOp d) : GroupOp d := { g with rot := tabM g.rot, trans := tabV g.trans }

end GroupOp

/-! ### Crystal in lattice coordinates -/

structure Crystal (d : Nat) where
  metric : Mat d Rat
  basis : List (List (Vec d Rat))
  /-- scalar integer spins, same layout as `basis` (all 0 when the crystal has no spins) -/
  spins : List (List Int)

namespace Crystal
variable {d : Nat}
def nspecies (c : Crystal d) : Nat := c.basis.length
def natoms (c : Crystal d) (s : Nat) : Nat := (c.basis.getD s []).length
def pos (c : Crystal d) (s i : Nat) : Vec d Rat := (c.basis.getD s []).getD i zeroV
def spin (c : Crystal d) (s i : Nat) : Int := (c.spins.getD s []).getD i 0
def shape (c : Crystal d) : List Nat := c.basis.map List.length
end Crystal

def GroupOp.imap {d : Nat} (g : GroupOp d) (s i : Nat) : Nat := (g.indexmap.getD s []).getD i 0

/-! ### Verified checkers -/

/-- rotᵀ g rot = g -/
def preservesMetric {d : Nat} (g : Mat d Rat) (R : Mat d Int) : Bool :=
  let Rq := castM R
  matEqR (mmulR (transp Rq) (mmulR g Rq)) g

/-- The spin clause for a given sign `φ`. -/
def spinOK {d : Nat} (c : Crystal d) (g : GroupOp d) (φ : Int) : Bool :=
  (List.range c.nspecies).all fun s => (List.range (c.natoms s)).all fun i =>
    c.spin s (g.imap s i) == φ * c.spin s i

/-- `g` is a symmetry operation of the crystal: metric-preserving unimodular `rot`; `indexmap` has
    the crystal's shape and is a permutation within each species; every atom is mapped onto the
    atom named by `indexmap` up to a lattice vector; spins are preserved up to one global sign. -/
def isSpaceGroupOp {d : Nat} (c : Crystal d) (g : GroupOp d) : Bool :=
  preservesMetric c.metric g.rot
  && (invRot? g.rot).isSome
  && (g.indexmap.length == c.nspecies)
  && ((List.range c.nspecies).all fun s =>
        let im := g.indexmap.getD s []
        (im.length == c.natoms s) && (im.all fun j => j < c.natoms s) && decide im.Nodup
        && ((List.range (c.natoms s)).all fun i =>
              isIntVec (subV (g.act (c.pos s i)) (c.pos s (g.imap s i)))))
  && (spinOK c g 1 || spinOK c g (-1))

/-- `G` is a group modulo lattice translations: contains the identity, closed under product and
    inverse, each up to `equivT`. -/
def isGroupModTranslations {d : Nat} (shape : List Nat) (G : List (GroupOp d)) : Bool :=
  (G.any fun k => k.equivT (GroupOp.ident shape))
  && (G.all fun g => G.all fun h => g.compat h &&
        let gh := (g.mul h).tab
        G.any fun k => k.equivT gh)
  && (G.all fun g => match g.inv? with
        | none => false
        | some gi => let gi := gi.tab; G.any fun k => k.equivT gi)

/-- no two listed operations are the same modulo lattice translations -/
def distinctModT {d : Nat} (G : List (GroupOp d)) : Bool :=
  G.Pairwise (fun g h => g.equivT h = false)

/-! ### Exact `maptranslation` and `gengroup` -/

/-- first `j` with equal spin and `u_j - rua - trans ∈ ℤ^d` -/
def findAtom {d : Nat} (atoms0 : List (Vec d Rat)) (spins0 : List Int) (rua : Vec d Rat) (sp1 : Int)
    (trans : Vec d Rat) : Option Nat :=
  (List.range atoms0.length).find? fun j =>
    (spins0.getD j 0 == sp1) && isIntVec (subV (subV (atoms0.getD j zeroV) rua) trans)

/-- the `maplist` of one species -/
def mapSpecies {d : Nat} (atoms0 : List (Vec d Rat)) (spins0 : List Int) (atoms1 : List (Vec d Rat))
    (spins1 : List Int) (trans : Vec d Rat) : List Nat :=
  (List.zip atoms1 spins1).filterMap fun (rua, sp1) => findAtom atoms0 spins0 rua sp1 trans

/-- all species for one trial translation: `none` as soon as one species cannot be mapped -/
def mapAll {d : Nat} (oldpos : List (List (Vec d Rat))) (oldspins : List (List Int))
    (newpos : List (List (Vec d Rat))) (newspins : List (List Int)) (trans : Vec d Rat) :
    Option (List (List Nat)) :=
  (List.zip (List.zip oldpos oldspins) (List.zip newpos newspins)).mapM fun ((a0, s0), (a1, s1)) =>
    let ml := mapSpecies a0 s0 a1 s1 trans
    if ml.length = a0.length then some ml else none

/-- index of the first shortest list -/
def argminLen {α : Type} (ll : List (List α)) : Nat :=
  let lens := ll.map List.length
  let m := lens.foldl min (lens.headD 0)
  lens.idxOf m

/-- `maptranslation(oldpos, newpos, oldspins, newspins)` -/
def maptranslation {d : Nat} (oldpos : List (List (Vec d Rat))) (oldspins : List (List Int))
    (newpos : List (List (Vec d Rat))) (newspins : List (List Int)) :
    Option (Vec d Rat × List (List Nat)) :=
  let ai := argminLen oldpos
  match (newpos.getD ai [])[0]? with
  | none => none     -- IndexError in the source (empty species list): not generated
  | some ru0 =>
    (oldpos.getD ai []).findSome? fun ub =>
      let trans := tabV (inhalf (subV ub ru0))
      (mapAll oldpos oldspins newpos newspins trans).map fun im => (trans, im)

def vecOfList {d : Nat} (l : List Int) : Vec d Int := fun i => l.getD i.val 0

/-- `nmax[i] = max(1, floor(sqrt(gmax * ginv[i,i]) + 1e-8))` (crystal.py, commit 5853619): an integer
    vector `u` with `uᵀ g u = g_dd` obeys `|u_i| ≤ sqrt(g_dd (g⁻¹)_ii)` (Cauchy–Schwarz; theorem
    `box_complete`).  The `1e-8` only ever enlarges the box, which cannot change the result because
    candidates are filtered by exact length afterwards. -/
def boxBounds {d : Nat} (g : Mat d Rat) : Option (Vec d Nat) :=
  match invQ? g with
  | none => none
  | some h =>
    let gmax := (List.ofFn fun i => g i i).foldl max 0
    some (tabV fun i => max 1 (Onsager.Geom.floorSqrt (gmax * h i i)))

/-- candidate images of lattice vectors: all non-zero integer vectors of the box, in
    `itertools.product` order -/
def supercellvect {d : Nat} (g : Mat d Rat) : List (Vec d Int) :=
  match boxBounds g with
  | none => []       -- LinAlgError in the source (singular metric): not generated
  | some nb =>
    tabVs (((Onsager.Geom.boxLists (List.ofFn nb)).filter fun l => l.any (· ≠ 0)).map fun l => vecOfList l)

/-- `itertools.product(*lists)` -/
def cart {β : Type} : List (List β) → List (List β)
  | [] => [[]]
  | l :: ls => l.flatMap fun a => (cart ls).map (a :: ·)

/-- candidate rotations: columns from `matchvect`, `|det| = 1`, metric preserved -/
def candidateRots {d : Nat} (g : Mat d Rat) : List (Mat d Int) :=
  let sv := supercellvect g
  let matchvect : List (List (Vec d Int)) :=
    (List.finRange d).map fun dd => sv.filter fun u => nsq g (castV u) == g dd dd
  (tabMs ((cart matchvect).map fun tup => ((fun i j => (tup.getD j.val (fun _ => 0)) i) : Mat d Int))).filter
    fun S => ((det S).natAbs == 1) && preservesMetric g S

def opKeyEq {d : Nat} (g h : GroupOp d) : Bool :=
  matEqI g.rot h.rot && vecEqR g.trans h.trans && (g.indexmap == h.indexmap)

def dedupOps {d : Nat} (l : List (GroupOp d)) : List (GroupOp d) :=
  l.foldl (fun acc g => if acc.any (opKeyEq g) then acc else acc ++ [g]) []

/-- `Crystal.gengroup` for integer scalar spins (the phases that can match are ±1). -/
def gengroup {d : Nat} (c : Crystal d) : List (GroupOp d) :=
  dedupOps <| (candidateRots c.metric).flatMap fun S =>
    let Sq := castM S
    let newpos := c.basis.map fun atoms => tabVs (atoms.map fun u => mulVecR Sq u)
    let detrot : Int := if det S > 0 then 1 else -1
    ([1, -1] : List Int).filterMap fun phase =>
      let newspins := c.spins.map fun sl => sl.map fun s => phase * (detrot * s)
      (maptranslation c.basis c.spins newpos newspins).map fun (t, im) =>
        ({ rot := S, trans := t, indexmap := im } : GroupOp d)

/-! ### Text protocol -/

def parseVecR? {d : Nat} (s : String) : Option (Vec d Rat) := do
  let l ← parseRatList? s
  if l.length = d then some (tabV fun i => l.getD i.val 0) else none

def parseMatR? {d : Nat} (s : String) : Option (Mat d Rat) := do
  let l ← parseRatList? s
  if l.length = d * d then some (tabM fun i j => l.getD (i.val * d + j.val) 0) else none

def parseMatI? {d : Nat} (s : String) : Option (Mat d Int) := do
  let l ← parseIntList? s
  if l.length = d * d then some (tabM fun i j => l.getD (i.val * d + j.val) 0) else none

/-- basis: species separated by '/', atoms by ';', coordinates by ',' -/
def parseBasis? {d : Nat} (s : String) : Option (List (List (Vec d Rat))) :=
  (s.splitOn ":").mapM fun sp => ((sp.splitOn ";").filter (· ≠ "")).mapM fun a => parseVecR? a

def parseSpins? (s : String) : Option (List (List Int)) :=
  (s.splitOn ":").mapM fun sp => parseIntList? sp

/-- indexmap: species separated by '/', entries by ',' -/
def parseIndexmap? (s : String) : Option (List (List Nat)) :=
  (s.splitOn ":").mapM fun sp => parseNatList? sp

/-- `rot ; trans ; indexmap` -/
def parseOp? {d : Nat} (s : String) : Option (GroupOp d) :=
  match (s.splitOn "@").map (fun x => x.trimAscii.toString) with
  | [r, t, im] => do
      pure { rot := ← parseMatI? r, trans := ← parseVecR? t, indexmap := ← parseIndexmap? im }
  | _ => none

def parseCrystal? {d : Nat} (m b sp : String) : Option (Crystal d) := do
  let metric ← parseMatR? m
  let basis ← parseBasis? b
  let spins ← parseSpins? sp
  pure { metric := metric, basis := basis, spins := spins }

def showIndexmap (im : List (List Nat)) : String :=
  ":".intercalate (im.map fun l => if l.isEmpty then "_" else ",".intercalate (l.map toString))

def showOp {d : Nat} (g : GroupOp d) : String :=
  let r := ",".intercalate ((List.finRange d).flatMap fun i => (List.finRange d).map fun j => toString (g.rot i j))
  let t := ",".intercalate ((List.finRange d).map fun i => showRat (g.trans i))
  s!"{r} @ {t} @ {showIndexmap g.indexmap}"

/-- canonical form modulo lattice translations: trans reduced into [0,1) -/
def canonOp {d : Nat} (g : GroupOp d) : GroupOp d := { g with trans := incell g.trans }

def handleD (d : Nat) (parts : List String) : String :=
  match parts with
  | ["mul", a, b] =>
    match parseOp? (d := d) a, parseOp? (d := d) b with
    | some g, some h => if g.compat h then showOp (g.mul h) else "index-error"
    | _, _ => "bad-op"
  | ["inv", a] =>
    match parseOp? (d := d) a with
    | some g => match g.inv? with
      | some gi => showOp gi
      | none => "not-unimodular"
    | none => "bad-op"
  | ["ident", sh] =>
    match parseNatList? sh with
    | some shape => showOp (GroupOp.ident (d := d) shape)
    | none => "bad-op"
  | ["act", a, x] =>
    match parseOp? (d := d) a, parseVecR? (d := d) x with
    | some g, some v => ",".intercalate ((List.finRange d).map fun i => showRat (g.act v i))
    | _, _ => "bad-op"
  | "check" :: m :: b :: sp :: ops =>
    match parseCrystal? (d := d) m b sp, ops.mapM (parseOp? (d := d)) with
    | some c, some G =>
      let bad := (List.zip (List.range G.length) G).filter fun (_, g) => !isSpaceGroupOp c g
      let grp := isGroupModTranslations c.shape G
      let dis := distinctModT G
      s!"ops={G.length} notsym={showList (bad.map (·.1))} group={if grp then 1 else 0} distinct={if dis then 1 else 0}"
    | _, _ => "bad-op"
  | ["gen", m, b, sp] =>
    match parseCrystal? (d := d) m b sp with
    | some c =>
      let G := gengroup c
      let ok := G.all (isSpaceGroupOp c) && isGroupModTranslations c.shape G
      s!"n={G.length} self={if ok then 1 else 0} # " ++ " # ".intercalate (G.map fun g => showOp (canonOp g))
    | none => "bad-op"
  | _ => "bad-op"

/-- request: `<d> | <cmd> | args…` -/
def handle (line : String) : String :=
  match (line.splitOn "|").map (fun x => x.trimAscii.toString) with
  | ds :: rest =>
    match parseNat? ds with
    | some 2 => handleD 2 rest
    | some 3 => handleD 3 rest
    | _ => "bad-dim"
  | _ => "bad-op"

end Onsager.C18
