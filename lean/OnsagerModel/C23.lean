/-
  C23 — executable model of the coordinate conversions and symmetry actions of
  onsager/crystal.py (Crystal.pos2cart/unit2cart/cart2unit/cart2pos, g_pos/g_vect/g_cart/g_direc/
  g_tensor, GroupOp.__mul__/inv), crystalStars.PairState.g and cluster.ClusterSite.g.

  Everything is carried in *lattice coordinates* over ℚ/ℤ: a Cartesian vector `x` is represented by
  `n` with `x = L n` (L = Crystal.lattice), so `np.dot(lattice, ·)` is the identity here and
  `np.dot(invlatt, ·)` too.  A Cartesian rotation `cartrot` is represented by `crot = L⁻¹·cartrot·L`
  (for an operation of the crystal this is the integer matrix `rot`; the model keeps it as a separate
  field because the code does).  `cartrot.T` becomes `G⁻¹·crotᵀ·G` with the metric `G = LᵀL`.
  The `1e-8` fuzz of `incell`, the `threshold` and numpy's default `rtol` are explicit parameters.
  Dimension `d` is arbitrary (2 and 3 occur in the code).  Core Lean only.
-/
import OnsagerModel.Basic

namespace Onsager.C23

abbrev IVec (d : Nat) := Fin d → Int
abbrev QVec (d : Nat) := Fin d → Rat
abbrev IMat (d : Nat) := Fin d → Fin d → Int
abbrev QMat (d : Nat) := Fin d → Fin d → Rat

/-- Sum of `f` over `Fin d` (core-only; the proofs identify it with `∑ i, f i`). -/
def sumFin {α} [Add α] [Zero α] {d : Nat} (f : Fin d → α) : α := ((List.finRange d).map f).sum

def toQ {d} (v : IVec d) : QVec d := fun i => (v i : Rat)
def toQM {d} (A : IMat d) : QMat d := fun i j => (A i j : Rat)
def qMulVec {d} (A : QMat d) (x : QVec d) : QVec d := fun i => sumFin fun k => A i k * x k
def iMulVec {d} (A : IMat d) (x : IVec d) : IVec d := fun i => sumFin fun k => A i k * x k
def qMul {d} (A B : QMat d) : QMat d := fun i j => sumFin fun k => A i k * B k j
def iMul {d} (A B : IMat d) : IMat d := fun i j => sumFin fun k => A i k * B k j
def qTr {d} (A : QMat d) : QMat d := fun i j => A j i
def qOne {d} : QMat d := fun i j => if i = j then 1 else 0
def vAdd {d} (a b : QVec d) : QVec d := fun k => a k + b k
def vSub {d} (a b : QVec d) : QVec d := fun k => a k - b k
def iAdd {d} (a b : IVec d) : IVec d := fun k => a k + b k
def iSub {d} (a b : IVec d) : IVec d := fun k => a k - b k
def iNeg {d} (a : IVec d) : IVec d := fun k => - a k
def iZero {d} : IVec d := fun _ => 0
def qZero {d} : QVec d := fun _ => 0

/-- decidable equality of vectors, spelled out (no instance, to stay clear of Mathlib's). -/
def veq {α} [BEq α] {d} (a b : Fin d → α) : Bool := (List.finRange d).all fun k => a k == b k
def meq {α} [BEq α] {d} (a b : Fin d → Fin d → α) : Bool :=
  (List.finRange d).all fun i => (List.finRange d).all fun j => a i j == b i j

/-- `np.round` : round half to even. -/
def roundHE (q : Rat) : Int :=
  let f := q.floor
  let r := q - (f : Rat)
  if r < 1/2 then f else if 1/2 < r then f + 1 else if f % 2 = 0 then f else f + 1

/-- `.astype(int)` : truncation toward zero. -/
def truncZ (q : Rat) : Int := if 0 ≤ q then q.floor else - ((-q).floor)

def qabs (q : Rat) : Rat := if 0 ≤ q then q else -q

/-- `incell(vec) = vec - floor(vec + 1e-8)` with the fuzz as parameter. -/
def incell {d} (eps : Rat) (u : QVec d) : QVec d := fun k => u k - ((u k + eps).floor : Rat)

/-- `np.allclose(a, b, rtol, atol)` on exact numbers: all `|a-b| ≤ atol + rtol·|b|`. -/
def allclose {d} (atol rtol : Rat) (a b : QVec d) : Bool :=
  (List.finRange d).all fun k => decide (qabs (a k - b k) ≤ atol + rtol * qabs (b k))

structure Crystal (d : Nat) where
  metric : QMat d
  metricInv : QMat d
  basis : List (List (QVec d))
  eps : Rat
  atol : Rat
  rtol : Rat

structure GroupOp (d : Nat) where
  rot : IMat d
  trans : QVec d
  crot : QMat d
  imap : List (List Nat)

variable {d : Nat}

def Crystal.pos? (cr : Crystal d) (c i : Nat) : Option (QVec d) :=
  match cr.basis[c]? with
  | some l => l[i]?
  | none => none

def GroupOp.imap? (g : GroupOp d) (c i : Nat) : Option Nat :=
  match g.imap[c]? with
  | some l => l[i]?
  | none => none

/-- `[(c, i) for c, l in enumerate(basis, c0) for i in range(len(l))]` -/
def atomIdxFrom {α} (c0 : Nat) : List (List α) → List (Nat × Nat)
  | [] => []
  | l :: r => (List.range l.length).map (fun i => (c0, i)) ++ atomIdxFrom (c0 + 1) r

/-- `Crystal.atomindices`. -/
def Crystal.atomindices (cr : Crystal d) : List (Nat × Nat) := atomIdxFrom 0 cr.basis

/-! ### conversions -/

def unit2cart (R : IVec d) (u : QVec d) : QVec d := vAdd (toQ R) u

def pos2cart (cr : Crystal d) (R : IVec d) (c i : Nat) : Except String (QVec d) :=
  match cr.pos? c i with
  | some u => .ok (unit2cart R u)
  | none => .error "index-error"

/-- `cart2unit`: `u = invlatt·v` is the input here; returns `((u - incell u).astype(int), incell u)`. -/
def cart2unit (eps : Rat) (x : QVec d) : IVec d × QVec d :=
  let uc := incell eps x
  (fun k => truncZ (x k - uc k), uc)

/-- `self.__isclose__(u, self.basis[ind[0]][ind[1]])` -/
def Crystal.closeTo (cr : Crystal d) (u : QVec d) (ci : Nat × Nat) : Bool :=
  match cr.pos? ci.1 ci.2 with
  | some b => allclose cr.atol cr.rtol u b
  | none => false

/-- `cart2pos`: the matching basis atom if exactly one is `__isclose__`. -/
def cart2pos (cr : Crystal d) (x : QVec d) : IVec d × Option (Nat × Nat) :=
  let (R, u) := cart2unit cr.eps x
  let l := cr.atomindices.filter (cr.closeTo u)
  match l with
  | [ci] => (R, some ci)
  | _ => (R, none)

/-! ### symmetry actions -/

def gDirec (g : GroupOp d) (x : QVec d) : QVec d := qMulVec g.crot x

def gTensor (g : GroupOp d) (T : QMat d) : QMat d := qMul g.crot (qMul T (qTr g.crot))

def gCart (g : GroupOp d) (x : QVec d) : QVec d := vAdd (qMulVec g.crot x) g.trans

/-- the integer shift `delu` of `g_pos` -/
def delu (g : GroupOp d) (u u' : QVec d) : IVec d :=
  fun k => roundHE ((qMulVec (toQM g.rot) u) k + g.trans k - u' k)

def gPosCore (g : GroupOp d) (R : IVec d) (u u' : QVec d) : IVec d :=
  iAdd (iMulVec g.rot R) (delu g u u')

def gPos (cr : Crystal d) (g : GroupOp d) (R : IVec d) (c i : Nat) :
    Except String (IVec d × Nat × Nat) :=
  match g.imap? c i, cr.pos? c i with
  | some i', some u =>
    match cr.pos? c i' with
    | some u' => .ok (gPosCore g R u u', c, i')
    | none => .error "index-error"
  | _, _ => .error "index-error"

def gVect (eps : Rat) (g : GroupOp d) (R : IVec d) (u : QVec d) : IVec d × QVec d :=
  let rotu := vAdd (qMulVec (toQM g.rot) u) g.trans
  let inc := incell eps rotu
  (iAdd (iMulVec g.rot R) (fun k => roundHE (rotu k - inc k)), inc)

/-! ### group structure -/

def composeMap (l0 l1 : List Nat) : Except String (List Nat) :=
  l1.mapM fun i => match l0[i]? with
    | some x => .ok x
    | none => .error "index-error"

def composeMaps : List (List Nat) → List (List Nat) → Except String (List (List Nat))
  | l0 :: r0, l1 :: r1 => do
      let x ← composeMap l0 l1
      let r ← composeMaps r0 r1
      pure (x :: r)
  | _, _ => .ok []

/-- `GroupOp.__mul__` -/
def GroupOp.mul (g h : GroupOp d) : Except String (GroupOp d) :=
  match composeMaps g.imap h.imap with
  | .ok m => .ok { rot := iMul g.rot h.rot
                   trans := vAdd (qMulVec (toQM g.rot) h.trans) g.trans
                   crot := qMul g.crot h.crot
                   imap := m }
  | .error e => .error e

/-- lexicographic order on pairs, as Python sorts tuples -/
def pairLe (a b : Nat × Nat) : Bool := a.1 < b.1 || (a.1 == b.1 && a.2 ≤ b.2)

/-- `tuple(x for i, x in sorted([(y, j) for j, y in enumerate(atomlist)]))` -/
def invertMap (l : List Nat) : List Nat :=
  (l.zipIdx.mergeSort pairLe).map (·.2)

def det2 (A : QMat 2) : Rat := A 0 0 * A 1 1 - A 0 1 * A 1 0
def adj2 (A : QMat 2) : QMat 2 := fun i j =>
  match i, j with
  | 0, 0 => A 1 1 | 0, 1 => - A 0 1
  | 1, 0 => - A 1 0 | 1, 1 => A 0 0

def det3 (A : QMat 3) : Rat :=
  A 0 0 * (A 1 1 * A 2 2 - A 1 2 * A 2 1) - A 0 1 * (A 1 0 * A 2 2 - A 1 2 * A 2 0)
    + A 0 2 * (A 1 0 * A 2 1 - A 1 1 * A 2 0)
def adj3 (A : QMat 3) : QMat 3 := fun i j =>
  match i, j with
  | 0, 0 => A 1 1 * A 2 2 - A 1 2 * A 2 1
  | 0, 1 => A 0 2 * A 2 1 - A 0 1 * A 2 2
  | 0, 2 => A 0 1 * A 1 2 - A 0 2 * A 1 1
  | 1, 0 => A 1 2 * A 2 0 - A 1 0 * A 2 2
  | 1, 1 => A 0 0 * A 2 2 - A 0 2 * A 2 0
  | 1, 2 => A 0 2 * A 1 0 - A 0 0 * A 1 2
  | 2, 0 => A 1 0 * A 2 1 - A 1 1 * A 2 0
  | 2, 1 => A 0 1 * A 2 0 - A 0 0 * A 2 1
  | 2, 2 => A 0 0 * A 1 1 - A 0 1 * A 1 0

/-- exact inverse of a rational matrix for d = 2, 3 (`np.linalg.inv`); `none` if singular or other d -/
def qInv : {d : Nat} → QMat d → Option (QMat d)
  | 2, A => if det2 A = 0 then none else some fun i j => adj2 A i j / det2 A
  | 3, A => if det3 A = 0 then none else some fun i j => adj3 A i j / det3 A
  | _, _ => none

/-- `GroupOp.inv` (needs the metric for `cartrot.T`) -/
def GroupOp.inv (cr : Crystal d) (g : GroupOp d) : Except String (GroupOp d) :=
  match qInv (toQM g.rot) with
  | none => .error "linalg-error"
  | some Ai =>
    let inverse : IMat d := fun i j => roundHE (Ai i j)
    .ok { rot := inverse
          trans := fun k => - (qMulVec (toQM inverse) g.trans) k
          crot := qMul cr.metricInv (qMul (qTr g.crot) cr.metric)
          imap := g.imap.map invertMap }

/-! ### pair states and cluster sites -/

structure PairState (d : Nat) where
  i : Int
  j : Int
  R : IVec d
  dx : QVec d

/-- `PairState.g(crys, chem, g)`; negative indices (Python wrap-around) are not modelled. -/
def PairState.g (cr : Crystal d) (chem : Nat) (g : GroupOp d) (s : PairState d) :
    Except String (PairState d) :=
  if s.i < 0 ∨ s.j < 0 then .error "negative-index" else
  match gPos cr g iZero chem s.i.toNat, gPos cr g s.R chem s.j.toNat with
  | .ok (gRi, _, gi), .ok (gRj, _, gj) =>
      .ok { i := gi, j := gj, R := iSub gRj gRi, dx := gDirec g s.dx }
  | _, _ => .error "index-error"

structure ClusterSite (d : Nat) where
  c : Nat
  i : Nat
  R : IVec d

/-- `ClusterSite.g(crys, g)` -/
def ClusterSite.g (cr : Crystal d) (g : GroupOp d) (s : ClusterSite d) : Except String (ClusterSite d) :=
  match gPos cr g s.R s.c s.i with
  | .ok (gR, c, i) => .ok { c := c, i := i, R := gR }
  | .error e => .error e

/-- the validity of an operation for a crystal at one site: `rot·u + trans − u'` is a lattice vector -/
def validAt (g : GroupOp d) (u u' : QVec d) : Prop :=
  ∀ k, ∃ n : Int, (qMulVec (toQM g.rot) u) k + g.trans k - u' k = (n : Rat)

/-! ### text protocol helpers -/

def vecOfList {α} [Inhabited α] (d : Nat) (l : List α) : Fin d → α := fun k => l.getD k.val default
def matOfList {α} [Inhabited α] (d : Nat) (l : List (List α)) : Fin d → Fin d → α :=
  fun i j => (l.getD i.val []).getD j.val default

def showIVec (v : IVec d) : String := showList (List.ofFn v)
def showQVec (v : QVec d) : String := showRatList (List.ofFn v)
def showQMat (A : QMat d) : String := ";".intercalate ((List.ofFn A).map fun r => showRatList (List.ofFn r))
def showIMat (A : IMat d) : String := ";".intercalate ((List.ofFn A).map fun r => showList (List.ofFn r))

def parseRatMat? (s : String) : Option (List (List Rat)) := (s.splitOn ";").mapM parseRatList?
def parseIntMat? (s : String) : Option (List (List Int)) := (s.splitOn ";").mapM parseIntList?

end Onsager.C23
