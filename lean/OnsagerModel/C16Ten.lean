/-
  C16 — the concrete coefficient objects used by the driver: numpy-like tensors of exact complex
  rationals (`Ten`), with numpy's `+`, `*` (broadcast by a 0-d operand), `tensordot(·,·,axes=1)`.
  Shape errors do not raise but produce the absorbing value `Ten.err`, reported as an error by the
  driver.  `Ten.zero` is the shape-less additive identity (what `np.zeros(...)` provides in the code).
  Also: the line protocol (parsing / printing) shared by Drive/C16.lean and Drive/C17.lean.
-/
import OnsagerModel.C16

namespace Onsager.C16

structure CR where
  re : Rat
  im : Rat
deriving DecidableEq, Inhabited

namespace CR
instance : Zero CR := ⟨⟨0, 0⟩⟩
instance : One CR := ⟨⟨1, 0⟩⟩
instance : Add CR := ⟨fun a b => ⟨a.re + b.re, a.im + b.im⟩⟩
instance : Neg CR := ⟨fun a => ⟨-a.re, -a.im⟩⟩
instance : Sub CR := ⟨fun a b => ⟨a.re - b.re, a.im - b.im⟩⟩
instance : Mul CR := ⟨fun a b => ⟨a.re * b.re - a.im * b.im, a.re * b.im + a.im * b.re⟩⟩
def isZero (a : CR) : Bool := a.re == 0 && a.im == 0
def inv (a : CR) : CR :=
  let d := a.re * a.re + a.im * a.im
  ⟨a.re / d, -a.im / d⟩
def ofRat (r : Rat) : CR := ⟨r, 0⟩
end CR

inductive Ten where
  | zero : Ten
  | arr (shape : List Nat) (data : List CR) : Ten
  | err : Ten
deriving DecidableEq, Inhabited

namespace Ten

def prod (s : List Nat) : Nat := s.foldl (· * ·) 1

def scalar (c : CR) : Ten := .arr [] [c]

def scale (c : CR) : Ten → Ten
  | .zero => .zero
  | .err => .err
  | .arr s d => .arr s (d.map (c * ·))

def add : Ten → Ten → Ten
  | .err, _ => .err
  | _, .err => .err
  | .zero, b => b
  | a, .zero => a
  | .arr s d, .arr s' d' => if s = s' then .arr s (List.zipWith (· + ·) d d') else .err

def neg : Ten → Ten
  | .zero => .zero
  | .err => .err
  | .arr s d => .arr s (d.map (- ·))

/-- `np.tensordot(a, b, axes=1)` for `a : A × k`, `b : k × B` (row-major flattened) -/
def dotData (A k B : Nat) (da db : List CR) : List CR :=
  (List.range A).flatMap fun i => (List.range B).map fun j =>
    (List.range k).foldl (fun acc t => acc + da.getD (i * k + t) 0 * db.getD (t * B + j) 0) 0

/-- numpy `*` when one operand is 0-d, `tensordot(axes=1)` otherwise -/
def mul : Ten → Ten → Ten
  | .err, _ => .err
  | _, .err => .err
  | .zero, _ => .zero
  | _, .zero => .zero
  | .arr [] [c], b => scale c b
  | .arr s d, .arr [] [c] => .arr s (d.map (· * c))
  | .arr s d, .arr s' d' =>
    match s.getLast?, s' with
    | some k, k' :: rest =>
      if k = k' then .arr (s.dropLast ++ rest) (dotData (prod s.dropLast) k (prod rest) d d') else .err
    | _, _ => .err

instance : Zero Ten := ⟨.zero⟩
/-- the python scalar `1` (a 0-d operand: `*` broadcasts) -/
instance : One Ten := ⟨.arr [] [1]⟩
instance : Add Ten := ⟨add⟩
instance : Neg Ten := ⟨neg⟩
instance : Mul Ten := ⟨mul⟩
instance : SMul Rat Ten := ⟨fun r t => scale (CR.ofRat r) t⟩

/-- exact stand-in for `np.allclose(·, 0, atol)` -/
def isz : Ten → Bool
  | .zero => true
  | .err => false
  | .arr _ d => d.all CR.isZero

def isErr : Ten → Bool
  | .err => true
  | _ => false

def ndim : Ten → Option Nat
  | .arr s _ => some s.length
  | _ => none

/-- matrix inverse / reciprocal of the leading coefficient: `1/x` for 0-d, Gauss–Jordan for `n×n`;
    `err` when singular or not square -/
def gaussJordan (n : Nat) (rows : List (List CR)) : Option (List (List CR)) :=
  -- rows are augmented [A | I]
  (List.range n).foldlM (fun (m : List (List CR)) col =>
    -- find pivot
    match (List.range n).find? (fun r => decide (col ≤ r) && !((m.getD r []).getD col 0).isZero) with
    | none => none
    | some pr =>
      let m1 := (m.set col (m.getD pr [])).set pr (m.getD col [])
      let m1 := if pr = col then m else m1
      let prow := m1.getD col []
      let pinv := CR.inv (prow.getD col 0)
      let prow := prow.map (pinv * ·)
      some ((List.range n).map fun r =>
        if r = col then prow
        else
          let row := m1.getD r []
          let f := row.getD col 0
          List.zipWith (fun x y => x - f * y) row prow)) rows

def inv : Ten → Ten
  | .arr [] [c] => if c.isZero then .err else .arr [] [CR.inv c]
  | .arr [n, n'] d =>
    if n ≠ n' then .err else
    let rows := (List.range n).map fun i =>
      (List.range n).map (fun j => d.getD (i * n + j) 0) ++ (List.range n).map (fun j => if i = j then (1 : CR) else 0)
    match gaussJordan n rows with
    | none => .err
    | some m => .arr [n, n] (m.flatMap fun row => row.drop n)
  | _ => .err

/-- `x[key]` : `some i` = integer index (axis dropped), `none` = full slice -/
def index : List Nat → List CR → List (Option Nat) → Option (List Nat × List CR)
  | s, d, [] => some (s, d)
  | [], _, _ :: _ => none
  | n :: rest, d, some i :: ks =>
    if i < n then index rest ((d.drop (i * prod rest)).take (prod rest)) ks else none
  | n :: rest, d, none :: ks =>
    let subs := (List.range n).map fun i => index rest ((d.drop (i * prod rest)).take (prod rest)) ks
    if subs.all Option.isSome then
      match subs with
      | some (s', _) :: _ => some (n :: s', subs.flatMap fun o => match o with | some (_, dd) => dd | none => [])
      | _ => some (n :: rest, [])
    else none

def getitem (key : List (Option Nat)) : Ten → Ten
  | .zero => .zero
  | .err => .err
  | .arr s d => match index s d key with
    | some (s', d') => .arr s' d'
    | none => .err

end Ten

/-! ### line protocol -/

def showCR (c : CR) : String :=
  if c.im == 0 then showRat c.re else s!"{showRat c.re}_{showRat c.im}"

def parseCR? (s : String) : Option CR :=
  match s.splitOn "_" with
  | [a] => (parseRat? a).map fun r => ⟨r, 0⟩
  | [a, b] => do let x ← parseRat? a; let y ← parseRat? b; pure ⟨x, y⟩
  | _ => none

def showShape (s : List Nat) : String :=
  if s.isEmpty then "s" else "x".intercalate (s.map toString)

def parseShape? (s : String) : Option (List Nat) :=
  if s = "s" then some [] else (s.splitOn "x").mapM parseNat?

def showData (d : List CR) : String := ",".intercalate (d.map showCR)

def parseData? (s : String) : Option (List CR) :=
  if s = "" then some [] else (s.splitOn ",").mapM parseCR?

def showTen : Ten → String
  | .zero => "Z"
  | .err => "E"
  | .arr s d => s!"{showShape s}:{showData d}"

/-- `shape:v,v,…` -/
def parseTen? (s : String) : Option Ten :=
  match s.splitOn ":" with
  | [sh, d] => do
    let sh ← parseShape? sh
    let d ← parseData? d
    if d.length = Ten.prod sh then pure (.arr sh d) else none
  | _ => none

def showRow (shape : List Nat) : Ten → String
  | .zero => showData (List.replicate (Ten.prod shape) 0)
  | .err => "E"
  | .arr _ d => showData d

def entryShape (c : List Ten) : Option (List Nat) :=
  c.findSome? fun t => match t with | .arr s _ => some s | _ => none

/-- one entry `n:l:shape:row|row|…` (shape `?` when every row is the shape-less zero) -/
def showEntry (e : Entry Ten) : String :=
  match entryShape e.2.2 with
  | some sh => s!"{e.1}:{e.2.1}:{showShape sh}:{"|".intercalate (e.2.2.map (showRow sh))}"
  | none => s!"{e.1}:{e.2.1}:?:{e.2.2.length}"

def showCoeffs (a : Coeffs Ten) : String :=
  if a.isEmpty then "-" else ";".intercalate (a.map showEntry)

def parseEntry? (s : String) : Option (Entry Ten) :=
  match s.splitOn ":" with
  | [n, l, sh, rows] => do
    let n ← parseInt? n
    let l ← parseNat? l
    let sh ← parseShape? sh
    let rs ← (if rows = "" then some [] else (rows.splitOn "|").mapM parseData?)
    if rs.all (fun d => d.length == Ten.prod sh) then pure (n, l, rs.map (Ten.arr sh)) else none
  | _ => none

def parseCoeffs? (s : String) : Option (Coeffs Ten) :=
  if s = "-" then some [] else (s.splitOn ";").mapM parseEntry?

def coeffsErr (a : Coeffs Ten) : Bool := a.any fun e => e.2.2.any Ten.isErr

/-- numpy checks that the two expansions have compatible *block* shapes before looping
    (`TypeError` in `sumcoeff` / `coeffproductcoeff`) -/
def firstShape (a : Coeffs Ten) : Option (List Nat) := a.head?.bind fun e => entryShape e.2.2

def showResult (a : Coeffs Ten) : String :=
  if coeffsErr a then "ERR type" else "ok " ++ showCoeffs a

def parseRatVec? (s : String) : Option (List Rat) := parseRatList? s

def parseKey? (s : String) : Option (List (Option Nat)) :=
  (s.splitOn ",").mapM fun t => if t = "_" then some none else (parseNat? t).map some

/-- dictionary `(n,l) ↦ tensor` : `n:l:tensor;…` (tensor = `shape:data`, so 4 `:`-fields) -/
def parseDict? (s : String) : Option (List ((Int × Nat) × Ten)) :=
  (s.splitOn ";").mapM fun t =>
    match t.splitOn ":" with
    | [n, l, sh, d] => do
      let n ← parseInt? n
      let l ← parseNat? l
      let x ← parseTen? (sh ++ ":" ++ d)
      pure ((n, l), x)
    | _ => none

def dictFn (d : List ((Int × Nat) × Ten)) (n : Int) (l : Nat) : Ten :=
  match d.find? (fun kv => kv.1.1 == n && kv.1.2 == l) with
  | some kv => kv.2
  | none => .err     -- KeyError

end Onsager.C16
