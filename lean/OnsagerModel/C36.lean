/-
  C36 — value types: equality, hashing and arithmetic of
    crystalStars.PairState   (i, j, R, dx; `==`/hash ignore dx; `+`, unary `-`, `-`, `^`, `g`)
    cluster.ClusterSite      (ci, R)
    cluster.Cluster          (sorted, re-centred site tuple; equality through `__equalitymap__`)
    crystal.GroupOp          (rot, indexmap exact; trans, cartrot through `np.allclose`)
    OnsagerCalc.vacancyThermoKinetics (four arrays through `np.allclose`; hash of the bytes)
  The geometric part (`PairState.g`, `ClusterSite.g`, vectors) is shared with OnsagerModel/C23.lean.
  A hash is modelled by its *key* (the tuple / bytes that the code feeds to `hash`): the hash is a
  function of the key, so "equal ⇒ equal hash" is "equal ⇒ equal key".  Core Lean only.
-/
import OnsagerModel.C23

namespace Onsager.C36
open Onsager.C23

variable {d : Nat}

/-! ### PairState -/

/-- `PairState.iszero()` -/
def isZero (s : PairState d) : Bool := s.i == s.j && veq s.R iZero

/-- the "universal zero" tested by `__add__`: `iszero() and j == -1` (equivalently `i == -1`) -/
def isUZ (s : PairState d) : Bool := isZero s && s.j == -1

/-- `PairState.zero(n, dim)` -/
def zero (n : Int) : PairState d := { i := n, j := n, R := iZero, dx := qZero }

/-- `PairState.__eq__` (dx is not compared) -/
def psEq (a b : PairState d) : Bool := a.i == b.i && a.j == b.j && veq a.R b.R

/-- what `PairState.__hash__` hashes: `(i, j) + tuple(R)` -/
def psKey (a : PairState d) : List Int := a.i :: a.j :: List.ofFn a.R

/-- `PairState.__add__` -/
def add (a b : PairState d) : Except String (PairState d) :=
  if isZero a && a.j == -1 then .ok b
  else if isZero b && b.i == -1 then .ok a
  else if a.j != b.i then .error "arithmetic-error"
  else .ok { i := a.i, j := b.j, R := iAdd a.R b.R, dx := vAdd a.dx b.dx }

/-- `PairState.__neg__` -/
def neg (a : PairState d) : PairState d :=
  { i := a.j, j := a.i, R := iNeg a.R, dx := fun k => - a.dx k }

/-- `PairState.__sub__` -/
def sub (a b : PairState d) : Except String (PairState d) := add a (neg b)

/-- `PairState.__xor__` -/
def xor (a b : PairState d) : Except String (PairState d) :=
  if a.i != b.i then .error "arithmetic-error"
  else .ok { i := b.j, j := a.j, R := iSub a.R b.R, dx := vSub a.dx b.dx }

/-! ### `!=` as found in the source (Generated/C36Facts.lean gives the code per class):
    0 = `return not self.__eq__(other)`, 1 = `return not __eq__(other)` (unbound global name),
    3 = no `__ne__` in the class (Python derives it from `__eq__`), 2 = anything else. -/
def neModel (code : Nat) (eqv : Bool) : Except String Bool :=
  if code = 0 ∨ code = 3 then .ok (!eqv) else if code = 1 then .error "NameError" else .error "unknown"

/-! ### ClusterSite -/

def csEq (a b : ClusterSite d) : Bool := a.c == b.c && a.i == b.i && veq a.R b.R
/-- `hash(self.ci + tuple(self.R))` -/
def csKey (a : ClusterSite d) : List Int := (a.c : Int) :: (a.i : Int) :: List.ofFn a.R
def csNeg (a : ClusterSite d) : ClusterSite d := { a with R := iNeg a.R }
def csAdd (a : ClusterSite d) (v : IVec d) : ClusterSite d := { a with R := iAdd a.R v }
def csSub (a : ClusterSite d) (v : IVec d) : ClusterSite d := csAdd a (iNeg v)

/-! ### Cluster -/

/-- one entry of `__equalitymap__`: the key `r` (ci, extended for the vacancy/transition sites) and
    the shifted position `tuple(R*Nsites - center)` -/
abbrev Entry := List Int × List Int

structure Cluster (d : Nat) where
  sites : List (ClusterSite d)
  transition : Bool
  vacancy : Bool
  norder : Int
  entries : List Entry

def sortKeyLe (a b : ClusterSite d) : Bool := a.c * 2^32 + a.i ≤ b.c * 2^32 + b.i

def sumR (l : List (ClusterSite d)) : IVec d := l.foldl (fun acc s => iAdd acc s.R) iZero

def shiftPos (n : Nat) (center : IVec d) (s : ClusterSite d) : List Int :=
  List.ofFn fun k => s.R k * (n : Int) - center k

/-- key and shifted position of site `idx`.  `mark` = the source marks the transition pair of a non-vacancy
    transition-state cluster with `(-2,)` (Generated/C36Facts.lean: `tsPairMarked`). -/
def entryOf (mark transition vacancy : Bool) (n : Nat) (center : IVec d) (nvac : Nat) (idx : Nat)
    (s : ClusterSite d) : Entry :=
  let r : List Int := [(s.c : Int), (s.i : Int)]
  let r := if idx < nvac then (if idx = 0 then r ++ [-1] else r ++ [(s.c : Int)])
    else if mark && transition && !vacancy && decide (idx < 2) then r ++ [-2] else r
  (r, shiftPos n center s)

/-- `Cluster.__init__` -/
def Cluster.make (mark : Bool) (lis : List (ClusterSite d)) (transition vacancy nosort : Bool) : Except String (Cluster d) :=
  let lis := if nosort then lis
    else if transition then lis.take 2 ++ (lis.drop 2).mergeSort sortKeyLe
    else if vacancy then lis.take 1 ++ (lis.drop 1).mergeSort sortKeyLe
    else lis.mergeSort sortKeyLe
  match lis with
  | [] => .error "index-error"
  | s0 :: _ =>
    let sites := lis.map fun s => csSub s s0.R
    let n := sites.length
    let center := sumR sites
    let nvac := if vacancy then (if transition then 2 else 1) else 0
    .ok { sites := sites, transition := transition, vacancy := vacancy
          norder := (n : Int) - (if transition then 2 else if vacancy then 1 else 0)
          entries := sites.zipIdx.map fun (s, idx) => entryOf mark transition vacancy n center nvac idx s }

/-- `Cluster.istransition(site0, site1)` for a transition cluster -/
def Cluster.isTransition (a : Cluster d) (s0 s1 : ClusterSite d) : Except String Bool :=
  match a.sites with
  | a0 :: a1 :: _ =>
    if csEq a0 (csSub s0 s0.R) && csEq a1 (csSub s1 s0.R) then .ok true
    else if a.vacancy then .ok false
    else .ok (csEq a0 (csSub s1 s1.R) && csEq a1 (csSub s0 s1.R))
  | _ => .error "index-error"

/-- dict-of-sets equality of two `__equalitymap__`s = equality of the sets of (key, position) pairs -/
def entriesEq (x y : List Entry) : Bool := x.all (y.contains ·) && y.all (x.contains ·)

/-- `Cluster.__eq__` -/
def Cluster.eq (a b : Cluster d) : Except String Bool :=
  if a.transition != b.transition then .ok false
  else if a.vacancy != b.vacancy then .ok false
  else if a.norder != b.norder then .ok false
  else if !entriesEq a.entries b.entries then .ok false
  else if a.transition then
    match b.sites with
    | b0 :: b1 :: _ => a.isTransition b0 b1
    | _ => .error "index-error"
  else .ok true

/-- `Cluster.__hash__`: XOR of the hashes of `r + shiftpos` over the sites, for a hash function `h` -/
def Cluster.hash (h : List Int → Nat) (a : Cluster d) : Nat :=
  a.entries.foldl (fun acc e => acc ^^^ h (e.1 ++ e.2)) 0

/-! ### tolerance-compared types -/

def qabs' (q : Rat) : Rat := if 0 ≤ q then q else -q

/-- `np.isclose(x, y)` on exact numbers -/
def close1 (atol rtol x y : Rat) : Bool := decide (qabs' (x - y) ≤ atol + rtol * qabs' y)

/-- `np.allclose(a, b)` for arrays of the same shape (flattened) -/
def closeList (atol rtol : Rat) : List Rat → List Rat → Bool
  | [], [] => true
  | x :: a, y :: b => close1 atol rtol x y && closeList atol rtol a b
  | _, _ => false

structure GroupOpVal where
  rot : List Int
  trans : List Rat
  cartrot : List Rat
  imap : List (List Nat)

/-- `GroupOp.__eq__` -/
def gopEq (atol rtol : Rat) (a b : GroupOpVal) : Bool :=
  a.rot == b.rot && closeList atol rtol a.trans b.trans && closeList atol rtol a.cartrot b.cartrot &&
    a.imap == b.imap

/-- what `GroupOp.__hash__` hashes: `rot.data.tobytes()` and `indexmap` -/
def gopKey (a : GroupOpVal) : List Int × List (List Nat) := (a.rot, a.imap)

structure VTK where
  pre : List Rat
  betaene : List Rat
  preT : List Rat
  betaeneT : List Rat

/-- `vacancyThermoKinetics.__eq__` -/
def vtkEq (atol rtol : Rat) (a b : VTK) : Bool :=
  closeList atol rtol a.pre b.pre && closeList atol rtol a.betaene b.betaene &&
    closeList atol rtol a.preT b.preT && closeList atol rtol a.betaeneT b.betaeneT

/-- what `vacancyThermoKinetics.__hash__` hashes: the concatenated bytes, i.e. the exact values -/
def vtkKey (a : VTK) : List Rat := a.pre ++ a.betaene ++ a.preT ++ a.betaeneT

end Onsager.C36
