/-
  C29 — calculation-setup supercells (onsager/OnsagerCalc.py: Interstitial.makesupercells,
  VacancyMediated.makesupercells) over the occupancy model of C28.

  The constructions are sequences of `super[pos] = c` (→ `Supercell.setocc` after the position lookup
  `Supercell.index`, which is exercised by the harness, not modelled): the base cell (periodic fills),
  one cell per state tag, and per transition a pair of cells built so that both endpoints list the same
  atoms in the same order (the "remove two atoms, put one back" trick), then the recorded mapping
  `(state tag, g, mapping)` is applied with `__imul__` + `reorder`.
-/
import OnsagerModel.C28

namespace Onsager.C29
open Onsager.C28

/-- `for (c,i) in atomindices: basesupercell.fillperiodic((c,i), Wyckoff=False)`. -/
def baseCell (nchem nsites : Nat) : List (Int × List Nat) → Except Err Cell
  | fills => fills.foldlM (fun s (ci : Int × List Nat) => fill s ci.1 ci.2) (Cell.empty nchem nsites)

/-- A state cell: the base cell with the named defects put in, in order. -/
def stateCell (base : Cell) (defects : List (Nat × Int)) : Except Err Cell := setoccMany base defects

/-- omega0 / omega1 endpoints: after the common edits `pre` (the solute for omega1), remove the atoms at
    `ind0` and `ind1` from both cells, then put the atom back at `ind1` in the first and at `ind0` in the
    second: vacancy at `ind0` → vacancy at `ind1`. -/
def vacPair (base : Cell) (pre : List (Nat × Int)) (ind0 ind1 : Nat) (chem : Int) : Except Err (Cell × Cell) := do
  let b ← setoccMany base pre
  let s0 ← setoccMany b [(ind0, -1), (ind1, -1), (ind1, chem)]
  let s1 ← setoccMany b [(ind0, -1), (ind1, -1), (ind0, chem)]
  pure (s0, s1)

/-- omega2 endpoints: solute at `inds`, vacancy at `indv`, and exchanged. -/
def exchPair (base : Cell) (inds indv : Nat) (schem : Int) : Except Err (Cell × Cell) := do
  let s0 ← setoccMany base [(inds, schem), (indv, -1)]
  let s1 ← setoccMany base [(indv, schem), (inds, -1)]
  pure (s0, s1)

/-- Interstitial endpoints: the interstitial at `ind0`, and at `ind1`. -/
def interPair (base : Cell) (ind0 ind1 : Nat) (chem : Int) : Except Err (Cell × Cell) := do
  let s0 ← setocc base ind0 chem
  let s1 ← setocc base ind1 chem
  pure (s0, s1)

/-- Positions (species, place in list) at which the two orderings differ, with the two sites found there;
    `none` when the shapes differ (different number of species or of atoms of a species). -/
def orderDiff (s0 s1 : Cell) : Option (List (Nat × Nat × Nat × Nat)) :=
  if s0.chemorder.length ≠ s1.chemorder.length then none
  else if (s0.chemorder.zip s1.chemorder).any (fun (p : List Nat × List Nat) => p.1.length != p.2.length) then none
  else some ((List.zip (List.range s0.chemorder.length) (s0.chemorder.zip s1.chemorder)).flatMap
    fun (cp : Nat × (List Nat × List Nat)) =>
      (List.zip (List.range cp.2.1.length) (cp.2.1.zip cp.2.2)).filterMap fun (kq : Nat × (Nat × Nat)) =>
        if kq.2.1 ≠ kq.2.2 then some (cp.1, kq.1, kq.2.1, kq.2.2) else none)

/-- Apply a recorded mapping: `g * state` (index map `m`) then `reorder(mapping)`. -/
def applyMapping (state : Cell) (m : List Nat) (mapping : List (List Nat)) : Except Err Cell :=
  reorder (imul state m) mapping

end Onsager.C29
