/-
  C27 — Supercell symmetry and equivalence mapping (onsager/supercell.py:
  maketrans, makesites, gengroup, defectindices, __imul__, reorder, equivalencemap).

  Two layers, both executable and exact (Int / Rat only):

  * geometry: `maketrans` / `makesites` / `gengroup` in integer arithmetic.  A crystal
    operation enters as its integer rotation `W`, its (rational) translation `τ` and, per
    basis atom `a`, the image atom `a'` and the integer shift `d_a = W·b_a + τ − b_{a'}`
    (what `Crystal.g_pos` returns for the zero lattice vector).
  * occupation: a supercell operation is the list `indexmap` (site `i` goes to
    `indexmap[i]`); `permOcc` is the loop `gocc[indexmap[i]] = occ[i]`; `equivalencemap`
    is the exact search of the source over a given op list, including the defect
    pre-filter, the shortest-defect-set choice, the re-used `gocc` buffer and the
    `list.index` construction of the mapping.

  Python exceptions become `Except`: `min()` of an empty dict and `list.index` of a missing
  element are `Err.value`.  The flag `guardEmpty` says whether the source handles the
  no-defect case before calling `min` (read from the source on every run,
  Generated/C27Facts.lean).
-/
import OnsagerModel.C28

namespace Onsager.C27
open Onsager.C28 (Cell Err)

/-! ### occupation layer -/

/-- `for ind, gind in enumerate(indexmap): gocc[gind] = occ[ind]`, starting from the buffer `init`. -/
def permOcc (init : List Int) (indexmap : List Nat) (occ : List Int) : List Int :=
  (List.range occ.length).foldl
    (fun (acc : List Int) i => acc.set (indexmap.getD i 0) (occ.getD i (-1))) init

/-- What `defectindices` needs to know about the sites. Site `ind` is atom `ind % N` of cell `ind / N`. -/
structure SiteCtx where
  N : Nat                      -- atoms per unit cell
  size : Nat                   -- unit cells per supercell
  chemistry : List String      -- `self.chemistry` (length Nchem+1, last entry 'v')
  inter : List Bool            -- per atom: its chemistry is declared interstitial
  sitechem : List String       -- per atom: name of its native chemistry
  atomOrder : List Nat         -- iteration order `for wset in Wyckofflist: for i in wset`
  guardEmpty : Bool            -- the source handles "no defects" before `min`
deriving Repr

/-- `self.chemistry[c]` with Python's negative indexing for the vacancy (`c = -1` is the last entry). -/
def chemName (sc : SiteCtx) (c : Int) : String :=
  if c < 0 then sc.chemistry.getLastD "" else sc.chemistry.getD c.toNat ""

/-- The defect name of site `ind` under occupation `occ`, `none` when the site is not a defect. -/
def keyAt (sc : SiteCtx) (occ : List Int) (ind : Nat) : Option String :=
  let a := ind % sc.N
  let c := occ.getD ind (-1)
  if sc.inter.getD a false then
    if c ≠ -1 then some (chemName sc c ++ "_i") else none
  else
    let s := sc.sitechem.getD a ""
    if chemName sc c ≠ s then
      some (if c = -1 then "v_" ++ s else chemName sc c ++ "_" ++ s)
    else none

/-- Sites in the order `defectindices` visits them. -/
def visitList (sc : SiteCtx) : List Nat :=
  sc.atomOrder.flatMap fun i => (List.range sc.size).map fun n => n * sc.N + i

/-- Keys of the `defects` dict in insertion order. -/
def defKeys (sc : SiteCtx) (occ : List Int) : List String :=
  ((visitList sc).filterMap (keyAt sc occ)).eraseDups

/-- `defects[k]` (a set in the source; only membership and size are used). -/
def defSet (sc : SiteCtx) (occ : List Int) (k : String) : List Nat :=
  (visitList sc).filter fun i => keyAt sc occ i == some k

/-- Step 1 of `equivalencemap`: same defect names with the same multiplicities, both ways. -/
def defectsMatch (sc : SiteCtx) (occA occB : List Int) : Bool :=
  let ka := defKeys sc occA
  let kb := defKeys sc occB
  (ka.all fun k => kb.contains k && (defSet sc occA k).length == (defSet sc occB k).length) &&
  (kb.all fun k => ka.contains k && (defSet sc occB k).length == (defSet sc occA k).length)

/-- `min(defcount, key=defcount.get)`: first key (insertion order) with the smallest count. -/
def minKey (cnt : String → Nat) : List String → Option String
  | [] => none
  | k :: ks =>
    match minKey cnt ks with
    | none => some k
    | some b => if cnt b < cnt k then some b else some k

/-- Steps 3–4: first op (with its position in the list) that passes the pre-filter and maps
    `occA` onto `occB`.  `gocc` is the buffer the source re-uses between iterations. -/
def searchOps (shortset matchset : List Nat) (occA occB : List Int) :
    List (List Nat) → Nat → List Int → Option (Nat × List Nat)
  | [], _, _ => none
  | m :: rest, idx, gocc =>
    if shortset.any (fun i => !(matchset.contains (m.getD i 0))) then
      searchOps shortset matchset occA occB rest (idx + 1) gocc
    else
      let gocc' := permOcc gocc m occA
      if gocc' ≠ occB then searchOps shortset matchset occA occB rest (idx + 1) gocc'
      else some (idx, m)

/-- `[gclist.index(j) for j in otherlist]`; `list.index` raises ValueError for a missing element. -/
def indexAll (gcl : List Nat) : List Nat → Except Err (List Nat)
  | [] => .ok []
  | j :: js =>
    if j ∈ gcl then
      match indexAll gcl js with
      | .ok r => .ok (gcl.idxOf j :: r)
      | .error e => .error e
    else .error .value

/-- Step 5: `mapping[c][i] = gorder[c].index(other.chemorder[c][i])`, zip-truncated like the source. -/
def mkMapping : List (List Nat) → List (List Nat) → Except Err (List (List Nat))
  | g :: gs, o :: os =>
    match indexAll g o with
    | .error e => .error e
    | .ok r =>
      match mkMapping gs os with
      | .ok rs => .ok (r :: rs)
      | .error e => .error e
  | _, _ => .ok []

/-- Step 2: the shortest common defect set (`min` of an empty dict raises ValueError unless guarded). -/
def chooseSets (sc : SiteCtx) (occA occB : List Int) : Except Err (List Nat × List Nat) :=
  match minKey (fun k => (defSet sc occA k).length) (defKeys sc occA) with
  | some k => .ok (defSet sc occA k, defSet sc occB k)
  | none => if sc.guardEmpty then .ok ([], []) else .error .value

/-- Step 5 on the op found by the loop. -/
def finish (a b : Cell) : Option (Nat × List Nat) → Except Err (Option (Nat × List (List Nat)))
  | none => .ok none
  | some (k, m) =>
    match mkMapping (a.chemorder.map (·.map fun i => m.getD i 0)) b.chemorder with
    | .error e => .error e
    | .ok mp => .ok (some (k, mp))

/-- `Supercell.equivalencemap`: `ok none` for `(None, None)`, `ok (some (k, mapping))` when the
    `k`-th op of `G` (iteration order of the source) is returned. -/
def equivalencemap (sc : SiteCtx) (G : List (List Nat)) (a b : Cell) :
    Except Err (Option (Nat × List (List Nat))) :=
  if defectsMatch sc a.occ b.occ = false then .ok none
  else
    match chooseSets sc a.occ b.occ with
    | .error e => .error e
    | .ok sets => finish a b (searchOps sets.1 sets.2 a.occ b.occ G 0 a.occ)

/-! ### geometry layer (integers) -/

abbrev V3 := List Int
abbrev M3 := List (List Int)

def dot (a b : List Int) : Int := (List.zipWith (· * ·) a b).foldl (· + ·) 0
def mulVec (m : M3) (v : V3) : V3 := m.map (dot · v)
def col (m : M3) (j : Nat) : V3 := m.map (·.getD j 0)
def matMul (a b : M3) : M3 := a.map fun row => (List.range 3).map fun j => dot row (col b j)
def vadd (a b : V3) : V3 := List.zipWith (· + ·) a b
def e (m : M3) (i j : Nat) : Int := (m.getD i []).getD j 0

def det3 (m : M3) : Int :=
  e m 0 0 * (e m 1 1 * e m 2 2 - e m 1 2 * e m 2 1)
  - e m 0 1 * (e m 1 0 * e m 2 2 - e m 1 2 * e m 2 0)
  + e m 0 2 * (e m 1 0 * e m 2 1 - e m 1 1 * e m 2 0)

/-- Adjugate: `adj m * m = det m • 1`. -/
def adj3 (m : M3) : M3 :=
  [[e m 1 1 * e m 2 2 - e m 1 2 * e m 2 1, e m 0 2 * e m 2 1 - e m 0 1 * e m 2 2, e m 0 1 * e m 1 2 - e m 0 2 * e m 1 1],
   [e m 1 2 * e m 2 0 - e m 1 0 * e m 2 2, e m 0 0 * e m 2 2 - e m 0 2 * e m 2 0, e m 0 2 * e m 1 0 - e m 0 0 * e m 1 2],
   [e m 1 0 * e m 2 1 - e m 1 1 * e m 2 0, e m 0 1 * e m 2 0 - e m 0 0 * e m 2 1, e m 0 0 * e m 1 1 - e m 0 1 * e m 1 0]]

inductive GErr
  | zeroDivision   -- singular supercell
  | arithmetic     -- wrong number of translations / not a permutation
  | key            -- transdict lookup failed
deriving Repr, DecidableEq

structure Trans where
  size : Nat
  invsuper : M3            -- size · superlatt⁻¹
  translist : List V3
deriving Repr

/-- Insert when new (first occurrences kept, in order): the `transdict`/`translist` pair. -/
def distinct {α} [BEq α] : List α → List α
  | [] => []
  | x :: xs => let r := distinct xs; if r.contains x then r else x :: r

/-- `size · superlatt⁻¹` as an integer matrix (`np.round(np.linalg.inv(superlatt) * size)`). -/
def invsuperOf (S : M3) : M3 :=
  let d := det3 S
  (adj3 S).map (·.map fun x => if d < 0 then -x else x)

/-- The scan of `maketrans`: `invsuper·n mod size` for `n ∈ [-maxN, maxN]³`, first occurrences in scan order. -/
def scanTrans (S : M3) : List V3 :=
  let size := (det3 S).natAbs
  let invsuper := invsuperOf S
  let maxN : Int := (S.flatten.map fun x => (x.natAbs : Int)).foldl max 0
  let rng : List Int := (List.range (2 * maxN.toNat + 1)).map fun (k : Nat) => (k : Int) - maxN
  let cand : List V3 := rng.flatMap fun n0 => rng.flatMap fun n1 => rng.map fun n2 =>
    (mulVec invsuper [n0, n1, n2]).map (· % (size : Int))
  (distinct cand.reverse).reverse

/-- `Supercell.maketrans`. -/
def maketrans (S : M3) : Except GErr Trans :=
  if (det3 S).natAbs = 0 then .error .zeroDivision
  else if (scanTrans S).length ≠ (det3 S).natAbs then .error .arithmetic
  else .ok { size := (det3 S).natAbs, invsuper := invsuperOf S, translist := scanTrans S }

/-- A crystal operation as `gengroup` uses it. -/
structure CrysOp where
  rot : M3
  trans : List Rat                  -- τ
  atoms : List (Nat × V3)           -- a ↦ (a', d_a)
deriving Repr

structure SuperOp where
  rot : M3                          -- Rsuper
  trans : List Rat                  -- tsuper ∈ [0,1)
  indexmap : List Nat
deriving Repr

def ratFloor (x : Rat) : Int := x.floor
def fract (x : Rat) : Rat := x - (x.floor : Int)

def ratDot (row : List Int) (x : List Rat) : Rat :=
  (List.zipWith (fun (r : Int) (t : Rat) => (r : Rat) * t) row x).foldl (· + ·) 0

/-- `(np.dot(invsuper, g.trans) % size) * invsize`, exactly. -/
def tsuperOf (T : Trans) (tq : List Rat) : List Rat :=
  T.invsuper.map fun row =>
    let x : Rat := ratDot row tq
    (x - (T.size : Rat) * (((x / (T.size : Rat)).floor : Int) : Rat)) / (T.size : Rat)

/-- `[f(x) for x in l]` where `f` may raise: the first exception wins. -/
def mapE {α β ε} (f : α → Except ε β) : List α → Except ε (List β)
  | [] => .ok []
  | x :: xs =>
    match f x with
    | .error e => .error e
    | .ok y =>
      match mapE f xs with
      | .error e => .error e
      | .ok ys => .ok (y :: ys)

/-- Image index of site (cell `R`, atom with image `a'` and shift `d`) under `g0 + u`. -/
def siteImage (N : Nat) (T : Trans) (rot : M3) (u : V3) (R : V3) (ad : Nat × V3) : Except GErr Nat :=
  let Rp := vadd (vadd (mulVec rot R) ad.2) u
  let key := (mulVec T.invsuper Rp).map (· % (T.size : Int))
  if T.translist.contains key then .ok (T.translist.idxOf key * N + ad.1) else .error .key

/-- The index map of `g0 + u`, with the source's permutation test. -/
def indexmapOf (N : Nat) (T : Trans) (unittrans : List V3) (g0 : CrysOp) (u : V3) : Except GErr (List Nat) :=
  match mapE (fun (p : V3 × (Nat × V3)) => siteImage N T g0.rot u p.1 p.2)
      (unittrans.flatMap fun R => g0.atoms.map fun ad => (R, ad)) with
  | .error err => .error err
  | .ok indexmap =>
    if (distinct indexmap).length ≠ N * T.size then .error .arithmetic else .ok indexmap

def unitTrans (S : M3) (T : Trans) : List V3 :=
  T.translist.map fun t => (mulVec S t).map (· / (T.size : Int))

/-- `Supercell.gengroup` for one crystal op: `none` when `Rsuper` is not integer (the warning path),
    otherwise one supercell op per unit-cell translation. -/
def gengroupOp (S : M3) (N : Nat) (T : Trans) (g0 : CrysOp) : Except GErr (Option (List SuperOp)) :=
  let size : Int := T.size
  let unittrans := unitTrans S T
  let R0 := matMul T.invsuper (matMul g0.rot S)
  if ¬ R0.all (·.all fun x => x % size == 0) then .ok none
  else
    let Rsuper := R0.map (·.map (· / size))
    match mapE (fun u =>
        match indexmapOf N T unittrans g0 u with
        | .error err => (Except.error err : Except GErr SuperOp)
        | .ok im =>
          let tq : List Rat := List.zipWith (fun (t : Rat) (ui : Int) => t + (ui : Rat)) g0.trans u
          .ok { rot := Rsuper, trans := tsuperOf T tq, indexmap := im }) unittrans with
    | .error err => .error err
    | .ok l => .ok (some l)

/-- `Supercell.makesites` in exact arithmetic: `pos[n*N + a] = incell((t_n + invsuper·b_a)/size)`. -/
def makesites (T : Trans) (basis : List (List Rat)) : List (List Rat) :=
  T.translist.flatMap fun t => basis.map fun b =>
    let ub : List Rat := T.invsuper.map fun row => ratDot row b
    (List.zipWith (fun (ti : Int) (x : Rat) => fract (((ti : Rat) + x) / (T.size : Rat))) t ub)

/-- Exact geometric consistency of one supercell op:
    `pos[indexmap[i]] ≡ Rsuper·pos[i] + tsuper (mod 1)` for every site. -/
def geomOK (pos : List (List Rat)) (g : SuperOp) : Bool :=
  (List.range pos.length).all fun i =>
    let p := pos.getD i []
    let q := pos.getD (g.indexmap.getD i 0) []
    let img : List Rat := List.zipWith (fun (row : List Int) (t : Rat) =>
      fract (ratDot row p + t)) g.rot g.trans
    img == q.map fract

/-- The code's permutation test as a Boolean on any index list. -/
def isPermB (n : Nat) (m : List Nat) : Bool :=
  m.length == n && (distinct m).length == n && m.all (· < n)

end Onsager.C27
