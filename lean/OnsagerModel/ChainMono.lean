/-
  Decidable hypothesis of the chain monotonicity theorem (C05): two chains with the same states,
  the same transitions and displacements, and weights that are not smaller in the second one.
-/
import OnsagerModel.Chain

namespace Onsager.Chain
open Onsager Onsager.C02 Onsager.Var

def transLE (t t' : Trans) : Bool :=
  t.x == t'.x && t.y == t'.y && t.ds == t'.ds && t.dv == t'.dv && decide (t.r ≤ t'.r)

def raisedcheck (inp inp' : Input) : Bool :=
  decide (inp.n = inp'.n) && decide (inp.trans.length = inp'.trans.length) &&
  (List.zip inp.trans inp'.trans).all fun p => transLE p.1 p.2

/-- protocol: `<chain 1> # <chain 2>` → `raised=<0/1>` -/
def handleMono (line : String) : String :=
  match line.splitOn "#" with
  | [s1, s2] =>
    match parseInput s1.trimAscii.toString, parseInput s2.trimAscii.toString with
    | some (a, _), some (b, _) => s!"raised={if raisedcheck a b then 1 else 0}"
    | _, _ => "bad-request"
  | _ => "bad-request"

end Onsager.Chain
