/-
  C19 — cell reduction: exact models of one `Crystal.reduce` step (translation detection, new
  cell `[t, a_i, a_j]`, basis remap) and one `Crystal.minlattice` step (sort / handedness, one
  Gauss shear), iterated with fuel.  onsager/crystal.py:793-960.

  A cell is described in lattice coordinates: metric `g = LᵀL` (rational), the handedness
  `sgn = sign det L`, atoms in unit-cell coordinates, integer spins (`OnsagerModel.C18.Crystal`).
-/
import OnsagerModel.C18

namespace Onsager.C19
open Onsager.C18

variable {d : Nat}

structure Cell (d : Nat) where
  crys : Crystal d
  /-- sign of det(lattice): +1 right-handed, -1 left-handed -/
  sgn : Int

/-! ### generic helpers -/

def gcdList (l : List Nat) : Nat := l.foldl Nat.gcd 0

def argminBy {α : Type} (key : α → Nat) (l : List α) : Option α :=
  l.foldl (fun best x => match best with
    | none => some x
    | some b => if key x < key b then some x else some b) none

/-- change of cell: new lattice `A' = A S` (columns of `S` = new lattice vectors in old
    coordinates): metric `Sᵀ g S`. -/
def changeMetric (g S : Mat d Rat) : Mat d Rat := mmulR (transp S) (mmulR g S)

/-! ### one `reduce` step (crystal.py:815-904) -/

/-- `t` is a translation symmetry: every atom `u` (spin `s`) has a partner `v` of the same species
    and spin with `u + t - v ∈ ℤ^d` (lines 836-843). -/
def isTranslation (c : Crystal d) (t : Vec d Rat) : Bool :=
  (List.zip c.basis c.spins).all fun (atoms, spins) =>
    (List.zip atoms spins).all fun (u, s) =>
      (List.zip atoms spins).any fun (v, vs) => (s == vs) && isIntVec (subV (addV u t) v)

/-- index `m` of the smallest non-zero `|T|` (first one on ties) (line 850) -/
def pivotIndex (T : Vec d Int) : Option (Fin d) :=
  argminBy (fun i => (T i).natAbs) ((List.finRange d).filter fun i => T i ≠ 0)

/-- the other indices `(i, j)` ordered so that `(T, e_i, e_j)` is right-handed (lines 852-866);
    in 2-D only `i`. Returned as the list of remaining indices in the order used. -/
def otherIndices (T : Vec d Int) (m : Fin d) : List (Fin d) :=
  if h : d = 3 then
    let m' : Fin 3 := h ▸ m
    let a : Fin 3 := m' + 1
    let b : Fin 3 := m' + 2
    let r : List (Fin 3) := if T m > 0 then [a, b] else [b, a]
    r.map fun x => h ▸ x
  else if h : d = 2 then
    let m' : Fin 2 := h ▸ m
    [(h ▸ (m' + 1 : Fin 2))]
  else []

/-- the matrix `S = [t, e_i, e_j]` (columns) of the new lattice in old coordinates -/
def newCellMatrix (t : Vec d Rat) (others : List (Fin d)) : Mat d Rat :=
  fun r c =>
    if c.val = 0 then t r
    else match others[c.val - 1]? with
      | some k => if r = k then 1 else 0
      | none => 0

/-- new coordinates of an atom: `(u_m M/T_m, u_i - u_m T_i/T_m, u_j - u_m T_j/T_m)` (lines 879-883) -/
def remapAtom (M : Nat) (T : Vec d Int) (m : Fin d) (others : List (Fin d)) (u : Vec d Rat) : Vec d Rat :=
  fun c =>
    if c.val = 0 then u m * ((M : Rat) / (T m : Rat))
    else match others[c.val - 1]? with
      | some k => u k - u m * ((T k : Rat) / (T m : Rat))
      | none => 0

inductive Err
  | arith      -- ArithmeticError('Reduction did not produce correct reduced basis')
  | fuel
deriving Repr, DecidableEq

/-- merge atoms that coincide modulo the new lattice (first occurrence kept; spins accumulated) -/
def mergeAtoms (atoms : List (Vec d Rat × Int)) : List (Vec d Rat × Int) :=
  atoms.foldl (fun acc (v, s) =>
    match acc.findIdx? (fun (w, _) => isIntVec (subV v w)) with
    | some k => acc.modify k (fun (w, sw) => (w, sw + s))
    | none => acc ++ [(v, s)]) []

/-- does the candidate translation generate a cell of the lattice?  (the repaired source, commit
    940d221, skips candidates for which this fails; `divGuard = false` models the source before) -/
def divisible (M : Nat) (T : Vec d Int) (m : Fin d) : Bool :=
  ((M : Int) % (T m) == 0) && (List.finRange d).all fun i => T i % T m == 0

/-- One `reduce` step: `none` = nothing to reduce (recursion ends). -/
def reduceStep (divGuard : Bool) (cell : Cell d) : Except Err (Option (Cell d)) :=
  let c := cell.crys
  let counts := c.basis.map List.length
  let M := gcdList counts
  if M ≤ 1 then .ok none else
  let ai := argminLen c.basis
  let atoms := c.basis.getD ai []
  let spins := c.spins.getD ai []
  match atoms[0]? with
  | none => .ok none
  | some initpos =>
    let initsp := spins.getD 0 0
    let cand := (List.zip atoms spins).findSome? fun (newpos, newsp) =>
      let t := tabV (subV newpos initpos)
      if vecEqR t zeroV then none
      else if initsp != newsp then none
      else
        let Tq : Vec d Rat := fun i => (M : Rat) * t i
        if !isIntVec Tq then none
        else
          let T : Vec d Int := tabV fun i => (Tq i).num
          match pivotIndex T with
          | none => none
          | some m =>
            if divGuard && !divisible M T m then none
            else if isTranslation c t then some (t, T, m) else none
    match cand with
    | none => .ok none
    | some (t, T, m) =>
      let others := otherIndices T m
      let S := tabM (newCellMatrix t others)
      let k := M / (T m).natAbs          -- `M // abs(T[m])`
      let newb := (List.zip c.basis c.spins).map fun (atoms, spins) =>
        mergeAtoms (List.zip (tabVs (atoms.map fun u => incell (remapAtom M T m others u))) spins)
      if (List.zip newb c.basis).any fun (nb, ob) => nb.length * k ≠ ob.length then .error .arith
      else
        let sgnS : Int := if detQ S > 0 then 1 else if detQ S < 0 then -1 else 0
        .ok (some
          { crys :=
              { metric := tabM (changeMetric c.metric S)
                basis := newb.map fun l => l.map (·.1)
                -- `reduction * Σ s` with `reduction = |T_m|/M`: exact for equal spins
                spins := newb.map fun l => l.map fun (_, s) => (s * (T m).natAbs) / (M : Int) }
            sgn := cell.sgn * sgnS })

def reduceAll (divGuard : Bool) : Nat → Cell d → Except Err (Cell d)
  | 0, _ => .error .fuel
  | n+1, c =>
    match reduceStep divGuard c with
    | .error e => .error e
    | .ok none => .ok c
    | .ok (some c') => reduceAll divGuard n c'

/-! ### one `minlattice` step (crystal.py:918-960) -/

/-- `np.around`: round half to even -/
def roundHalfEven (r : Rat) : Int :=
  let f := r.floor
  let frac := r - (f : Rat)
  if frac < 1/2 then f else if frac > 1/2 then f + 1 else if f % 2 = 0 then f else f + 1

/-- apply an integer change of cell `super` (unimodular): metric `superᵀ g super`, positions
    `incell(super⁻¹ u)` -/
def applySuper (cell : Cell d) (sup0 : Mat d Int) : Option (Cell d) :=
  let sup := tabM sup0
  match invRot? sup with
  | none => none
  | some inv =>
    let invq := castM inv
    some
      { crys :=
          { metric := tabM (changeMetric cell.crys.metric (castM sup))
            basis := cell.crys.basis.map fun atoms => tabVs (atoms.map fun u => incell (mulVecR invq u))
            spins := cell.crys.spins }
        sgn := cell.sgn * det sup }

/-- sorting / handedness matrix: column `i` is the unit vector of the `i`-th shortest lattice
    vector (stable), last column negated if the result would be left-handed -/
def sortMatrix (cell : Cell d) : Mat d Int :=
  let g := cell.crys.metric
  let idx := GroupOp.isort (fun (a b : Rat × Nat) => a.1 < b.1 || (a.1 == b.1 && a.2 ≤ b.2))
    ((List.finRange d).map fun i => (g i i, i.val))
  let P : Mat d Int := fun r c => if (idx.getD c.val (0, 0)).2 = r.val then 1 else 0
  if cell.sgn * det P < 0 then fun r c => if c.val + 1 = d then - P r c else P r c else P

/-- the Gauss shear chosen by the source: first of (0,1), (0,2), (1,2) with a non-zero rounded
    projection; `none` if the cell is pair-reduced -/
def shearMatrix (g : Mat d Rat) : Option (Mat d Int) :=
  let pairs : List (Nat × Nat) := if d = 2 then [(0, 1)] else [(0, 1), (0, 2), (1, 2)]
  pairs.findSome? fun (a, b) =>
    if h : a < d ∧ b < d then
      let ia : Fin d := ⟨a, h.1⟩
      let ib : Fin d := ⟨b, h.2⟩
      let u := roundHalfEven (g ia ib / g ia ia)
      if u ≠ 0 then some (tabM fun r c => if r = c then 1 else if r = ia ∧ c = ib then -u else 0) else none
    else none

/-- `minlattice` with fuel: returns the final cell -/
def minlatticeAll : Nat → Cell d → Option (Cell d)
  | 0, _ => none
  | n+1, cell =>
    match applySuper cell (sortMatrix cell) with
    | none => none
    | some c1 =>
      match shearMatrix c1.crys.metric with
      | none => some c1
      | some sh =>
        match applySuper c1 sh with
        | none => none
        | some c2 => minlatticeAll n c2

/-- termination measure: `Σ |a_i|²` -/
def traceMetric (g : Mat d Rat) : Rat := (List.ofFn fun i => g i i).sum

/-! ### unimodular equivalence of two metrics (verified-checker style: a witness is searched in
    a small box and CHECKED exactly) -/

def smallVectors (d : Nat) (b : Int) : List (Vec d Int) :=
  let rec go : Nat → List (List Int)
    | 0 => [[]]
    | n+1 => (List.range (2 * b.toNat + 1)).flatMap fun (a : Nat) => (go n).map (((a : Int) - b) :: ·)
  tabVs ((go d).map fun l => vecOfList l)

def isEquivWitness (g1 g2 : Mat d Rat) (U : Mat d Int) : Bool :=
  ((det U).natAbs == 1) && matEqR (mmulR (transp (castM U)) (mmulR g1 (castM U))) g2

/-- some unimodular `U` with `Uᵀ g1 U = g2`, columns searched among vectors with entries in [-b,b] -/
def findEquiv (g1 g2 : Mat d Rat) (b : Int) : Option (Mat d Int) :=
  let sv := smallVectors d b
  let cols : List (List (Vec d Int)) :=
    (List.finRange d).map fun k => sv.filter fun n => nsq g1 (castV n) == g2 k k
  (tabMs ((cart cols).map fun tup => ((fun i j => (tup.getD j.val (fun _ => 0)) i) : Mat d Int))).find?
    fun U => isEquivWitness g1 g2 U

/-! ### protocol -/

def showCell (cell : Cell d) : String :=
  let c := cell.crys
  let m := ",".intercalate ((List.finRange d).flatMap fun i => (List.finRange d).map fun j => showRat (c.metric i j))
  let b := ":".intercalate (c.basis.map fun atoms =>
    ";".intercalate (atoms.map fun u => ",".intercalate ((List.finRange d).map fun i => showRat (u i))))
  let sp := ":".intercalate (c.spins.map fun l => ",".intercalate (l.map toString))
  s!"sgn={cell.sgn} det={showRat (detQ c.metric)} counts={showList (c.basis.map List.length)} | {m} | {b} | {sp}"

def handleD (d : Nat) (parts : List String) : String :=
  match parts with
  | ["construct", guard, sgn, m, b, sp] =>
    -- Crystal.__init__: reduce() then minlattice(); then the symmetry group of the result
    match parseCrystal? (d := d) m b sp, parseInt? sgn with
    | some c, some sg =>
      match reduceAll (guard == "1") 12 { crys := c, sgn := sg } with
      | .error .arith => "arith-error"
      | .error .fuel => "fuel"
      | .ok c1 =>
        match minlatticeAll 60 c1 with
        | none => "minlattice-failed"
        | some c2 =>
          let G := gengroup c2.crys
          s!"ok nG={G.length} {showCell c2}"
    | _, _ => "bad-op"
  | ["equiv", m1, m2] =>
    match parseMatR? (d := d) m1, parseMatR? (d := d) m2 with
    | some g1, some g2 =>
      match findEquiv g1 g2 2 with
      | some _ => "equiv=1"
      | none => "equiv=0"
    | _, _ => "bad-op"
  | ["round", r] =>
    match parseRat? r with
    | some x => toString (roundHalfEven x)
    | none => "bad-op"
  | _ => "bad-op"

def handle (line : String) : String :=
  match (line.splitOn "|").map (fun x => x.trimAscii.toString) with
  | ds :: rest =>
    match parseNat? ds with
    | some 2 => handleD 2 rest
    | some 3 => handleD 3 rest
    | _ => "bad-dim"
  | _ => "bad-op"

end Onsager.C19
