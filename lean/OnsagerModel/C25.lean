/-
  C25 — vector-star bases: exact executable model.

  * a finite matrix group acting on pair states (`perm`) and on vectors (`rho`, with the inverse matrices
    `rhoInv`) given by tables over `Fin`; all arithmetic over `Rat` (floats of the implementation are
    rationalised exactly by the harness);
  * the averaging operator on vector fields `avg`, the character count of the dimension of the space of
    equivariant fields (`charSum`), the decidable checker `isVectorStarBasis` (`check`);
  * the expansions (rate, escape, bias, bare diffusivity, Green function, origin-state bookkeeping) as exact
    functions of a given basis `v` and the jump lists.

  Core Lean only.
-/
import OnsagerModel.Basic

namespace Onsager.C25

/-! ### finite sums and tests over `Fin n` -/

def sumFin (n : Nat) (f : Fin n → Rat) : Rat := ((List.finRange n).map f).sum

def allFin (n : Nat) (p : Fin n → Bool) : Bool := (List.finRange n).all p

/-- tabulate once, look up afterwards (the identity function, see `memo_eq`) -/
def memo {n : Nat} {α : Type} (f : Fin n → α) : Fin n → α :=
  let a := Array.ofFn f
  fun i => a[i.val]'(by simp [a])

theorem memo_eq {n : Nat} {α : Type} (f : Fin n → α) : memo f = f := by
  funext i; simp [memo]

def memo2 {n k : Nat} {α : Type} (f : Fin n → Fin k → α) : Fin n → Fin k → α :=
  memo (fun i => memo (f i))

def memo3 {n k l : Nat} {α : Type} (f : Fin n → Fin k → Fin l → α) : Fin n → Fin k → Fin l → α :=
  memo (fun i => memo2 (f i))

theorem memo2_eq {n k : Nat} {α : Type} (f : Fin n → Fin k → α) : memo2 f = f := by
  funext i; simp [memo2, memo_eq]

theorem memo3_eq {n k l : Nat} {α : Type} (f : Fin n → Fin k → Fin l → α) : memo3 f = f := by
  funext i; simp [memo3, memo_eq, memo2_eq]

def absR (x : Rat) : Rat := if x < 0 then -x else x

def delta {k : Nat} (a b : Fin k) : Rat := if a = b then 1 else 0

/-! ### instance: group action on states and vectors, candidate basis -/

structure Inst where
  n : Nat        -- number of pair states
  d : Nat        -- dimension
  N : Nat        -- number of group operations
  m : Nat        -- number of vector stars
  perm : Fin N → Fin n → Fin n             -- state s ↦ g·s
  rho : Fin N → Fin d → Fin d → Rat        -- R_g
  rhoInv : Fin N → Fin d → Fin d → Rat     -- R_g⁻¹
  mul : Fin N → Fin N → Fin N              -- mul h g = h ∘ g
  v : Fin m → Fin n → Fin d → Rat          -- vector star i as a vector field on the states (0 off its star)
  tol : Rat

abbrev Field (n d : Nat) := Fin n → Fin d → Rat

def matMul {d : Nat} (A B : Fin d → Fin d → Rat) : Fin d → Fin d → Rat :=
  fun a b => sumFin d (fun c => A a c * B c b)

def matVec {d : Nat} (A : Fin d → Fin d → Rat) (u : Fin d → Rat) : Fin d → Rat :=
  fun a => sumFin d (fun b => A a b * u b)

def dotv {d : Nat} (u w : Fin d → Rat) : Rat := sumFin d (fun a => u a * w a)

def inner {n d : Nat} (f h : Field n d) : Rat := sumFin n (fun x => dotv (f x) (h x))

namespace Inst
variable (I : Inst)

/-- `A_g f (x) = R_g⁻¹ f(g·x)`; `f` is equivariant iff `A_g f = f` for all `g`. -/
def act (g : Fin I.N) (f : Field I.n I.d) : Field I.n I.d :=
  fun x => matVec (I.rhoInv g) (f (I.perm g x))

/-- the group average `P f = |G|⁻¹ Σ_g A_g f` -/
def avg (f : Field I.n I.d) : Field I.n I.d :=
  fun x a => (1 / (I.N : Rat)) * sumFin I.N (fun g => I.act g f x a)

/-- the hypotheses on the tables: inverse matrices, (anti-)homomorphism, injective right multiplication -/
def repOK : Bool :=
  decide (0 < I.N) &&
  allFin I.N (fun g => allFin I.d fun a => allFin I.d fun b =>
    decide (matMul (I.rhoInv g) (I.rho g) a b = delta a b) && decide (matMul (I.rho g) (I.rhoInv g) a b = delta a b)) &&
  allFin I.N (fun g => allFin I.N fun h => allFin I.d fun a => allFin I.d fun b =>
    decide (matMul (I.rhoInv g) (I.rhoInv h) a b = I.rhoInv (I.mul h g) a b)) &&
  allFin I.N (fun g => allFin I.N fun h => allFin I.n fun x =>
    decide (I.perm h (I.perm g x) = I.perm (I.mul h g) x)) &&
  allFin I.N (fun g => allFin I.N fun h => allFin I.N fun h' =>
    decide (I.mul h g = I.mul h' g → h = h'))

/-- trace of the action of `g` on fields: Σ over fixed states of tr R_g⁻¹ -/
def fieldTrace (g : Fin I.N) : Rat :=
  sumFin I.n (fun x => if I.perm g x = x then sumFin I.d (fun a => I.rhoInv g a a) else 0)

/-- `|G|` × (dimension of the space of equivariant fields), by the character formula -/
def charSum : Rat := sumFin I.N (fun g => I.fieldTrace g)

/-- the projected family `w_i = P v_i` (tabulated) -/
def w : Fin I.m → Field I.n I.d := memo3 (fun i => I.avg (I.v i))

def nearOrtho (u : Fin I.m → Field I.n I.d) : Bool :=
  allFin I.m fun i => allFin I.m fun j => decide (absR (inner (u i) (u j) - delta i j) ≤ I.tol)

def nearEquivariant : Bool :=
  allFin I.N fun g => allFin I.m fun i => allFin I.n fun x => allFin I.d fun a =>
    decide (absR (I.v i (I.perm g x) a - matVec (I.rho g) (I.v i x) a) ≤ I.tol)

def close : Bool :=
  let w := I.w     -- tabulated once
  allFin I.m fun i => allFin I.n fun x => allFin I.d fun a => decide (absR (I.v i x a - w i x a) ≤ I.tol)

def small : Bool := decide (0 ≤ I.tol) && decide ((I.m : Rat) * I.tol < 1)

def countOK : Bool := decide ((I.m : Rat) * (I.N : Rat) = I.charSum)

/-- the verified checker -/
def check : Bool :=
  I.repOK && I.small && I.nearOrtho I.v && I.nearEquivariant && I.close && I.nearOrtho I.w && I.countOK

end Inst

/-! ### cross-checks of the count (run, not used by the soundness theorem) -/

/-- rank of a list of rows by exact Gaussian elimination -/
partial def rankRows (rows : List (List Rat)) : Nat :=
  match rows.filter (fun r => r.any (· ≠ 0)) with
  | [] => 0
  | rs =>
    -- pivot column = first column index with a non-zero entry in some row
    let width := (rs.map List.length).foldl max 0
    let rec findCol (c : Nat) (fuel : Nat) : Option Nat :=
      match fuel with
      | 0 => none
      | fuel + 1 => if rs.any (fun r => r.getD c 0 ≠ 0) then some c else findCol (c + 1) fuel
    match findCol 0 width with
    | none => 0
    | some c =>
      match rs.find? (fun r => r.getD c 0 ≠ 0) with
      | none => 0
      | some p =>
        let pc := p.getD c 0
        let rest := (rs.filter (· != p)).map fun r =>
          let f := r.getD c 0 / pc
          (List.range width).map fun k => r.getD k 0 - f * p.getD k 0
        1 + rankRows rest

namespace Inst
variable (I : Inst)

/-- stabiliser of a state -/
def stab (x : Fin I.n) : List (Fin I.N) := (List.finRange I.N).filter (fun g => I.perm g x = x)

/-- dimension of the invariant space of the stabiliser of `x`, by the character formula (a rational) -/
def stabChar (x : Fin I.n) : Rat :=
  ((I.stab x).map fun g => sumFin I.d (fun a => I.rho g a a)).sum / ((I.stab x).length : Rat)

/-- the same dimension by exact rank of the summed stabiliser matrices -/
def stabRank (x : Fin I.n) : Nat :=
  rankRows ((List.finRange I.d).map fun a => (List.finRange I.d).map fun b =>
    ((I.stab x).map fun g => I.rho g a b).sum)

end Inst

/-! ### the expansions as functions of the basis -/

def optVal {α : Type} (o : Option α) (f : α → Rat) : Rat :=
  match o with
  | some x => f x
  | none => 0

structure Jump (n d : Nat) where
  is : Fin n
  fs : Fin n
  dx : Fin d → Rat

section Expansions
variable {n d m : Nat} (v : Fin m → Field n d)

/-- `rate1expansion[i,j,k]` for the jump list of class `k` -/
def rateExp (jl : List (Jump n d)) (i j : Fin m) : Rat :=
  (jl.map fun J => dotv (v i J.is) (v j J.fs)).sum

/-- `rate1escape[i,k]` -/
def escExp (jl : List (Jump n d)) (i : Fin m) : Rat :=
  - (jl.map fun J => dotv (v i J.is) (v i J.is)).sum

/-- projection of the geometric bias of the class onto vector star `i` -/
def biasExp (jl : List (Jump n d)) (i : Fin m) : Rat :=
  (jl.map fun J => dotv (v i J.is) J.dx).sum

/-- `bias1expansion[i,k]` as the code computes it: representative state only, times the size of the star -/
def biasExpCode (rep : Fin m → Fin n) (len : Fin m → Nat) (jl : List (Jump n d)) (i : Fin m) : Rat :=
  ((jl.filter fun J => J.is = rep i).map fun J => dotv (v i (rep i)) J.dx * (len i : Rat)).sum

/-- `D1expansion[a,b,k]` -/
def bareExp (jl : List (Jump n d)) (a b : Fin d) : Rat :=
  (jl.map fun J => (1 / 2 : Rat) * (J.dx a * J.dx b)).sum

/-- Green-function expansion: `idx s t` = index of the Green-function star of the pair (s → t), if defined -/
def gfExp (idx : Fin n → Fin n → Option Nat) (k : Nat) (i j : Fin m) : Rat :=
  sumFin n fun s => sumFin n fun t => if idx s t = some k then dotv (v i s) (v j t) else 0

/-- as the code fills it: upper triangle computed, lower triangle copied -/
def gfExpCode (idx : Fin n → Fin n → Option Nat) (k : Nat) (i j : Fin m) : Rat :=
  if i.val ≤ j.val then gfExp v idx k i j else gfExp v idx k j i

/-- omega2: reference (omega0) rate expansion, jumps landing on / leaving the origin state `os (IS)` -/
def rate0Exp2 (os : Fin n → Option (Fin n)) (jl : List (Jump n d)) (i j : Fin m) : Rat :=
  (jl.map fun J => optVal (os J.is) fun o => dotv (v i J.is) (v j o) + dotv (v i o) (v j J.is)).sum

def esc0Exp2 (os : Fin n → Option (Fin n)) (jl : List (Jump n d)) (i : Fin m) : Rat :=
  - (jl.map fun J => dotv (v i J.is) (v i J.is) + optVal (os J.is) fun o => dotv (v i o) (v i o)).sum

def bias0Exp2 (os : Fin n → Option (Fin n)) (jl : List (Jump n d)) (i : Fin m) : Rat :=
  (jl.map fun J => dotv (v i J.is) J.dx - optVal (os J.is) fun o => dotv (v i o) J.dx).sum

/-- `outer[a,b,i,j]` -/
def outerExp (i j : Fin m) (a b : Fin d) : Rat := sumFin n fun s => v i s a * v j s b

/-- origin-state fold-down: `site s` = solute (or vacancy) site of state `s`; `o` an origin vector star -/
def foldExp (site : Fin n → Nat) (o j : Fin m) : Rat :=
  sumFin n fun s => sumFin n fun t => if site s = site t then dotv (v o s) (v j t) else 0

end Expansions

end Onsager.C25
