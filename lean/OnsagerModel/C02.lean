/-
  C02 (also used by C03, C04, C05) — exact model of the interstitial diffusivity
  (onsager/OnsagerCalc.py: Interstitial.siteprob / ratelist / diffusivity).

  Everything is rational: energies are integer multiples of `ln q` (so `exp(-βE) = q^{-n}`),
  jump vectors are in lattice coordinates.  The model works in the *unsymmetrised, unprojected*
  site space: it assembles the ρ-weighted rate equation `W ξ = −B` per direction, solves it by
  exact Gauss–Jordan elimination, **checks** the solution (`Var.Stationary`, decidable) and returns
  `D_αβ = D0_αβ − Σ_i ξ^α_i B^β_i`.  The theorems in OnsagerProofs/C02.lean are about this function;
  the Python algorithm (symmetrised rates, vector-basis projection, solve/pinv) is tied to it by
  the correspondence check.

  This numeric model uses the list/`Fin n` definitions of OnsagerProofs/Lemmas/Variational.lean
  directly, so no bridging lemma stands between the executable code and the theorems.
-/
import OnsagerModel.Basic
import OnsagerProofs.Lemmas.Variational

namespace Onsager.C02

open Onsager.Var

/-- `q^z` for integer `z` (q ≠ 0). -/
def qpow (q : ℚ) (z : Int) : ℚ := if 0 ≤ z then q ^ z.toNat else (q ^ (-z).toNat)⁻¹

structure Input where
  n : Nat                       -- number of sites
  dim : Nat
  q : ℚ                         -- exp(-βE) = q^(-E) for integer E
  invmap : List Nat             -- site → Wyckoff index
  pre : List ℚ                  -- per Wyckoff set
  ene : List Int
  preT : List ℚ                 -- per jump class
  eneT : List Int
  jumps : List (List (Nat × Nat × List ℚ))   -- per class: (i, j, dx in lattice coordinates)

/-- unnormalised site weight `pre_w q^{-(E_w - Emin)}` (the code's `rho` before normalisation) -/
def weight (inp : Input) (emin : Int) (i : Nat) : ℚ :=
  let w := inp.invmap.getD i 0
  inp.pre.getD w 0 * qpow inp.q (emin - inp.ene.getD w 0)

def emin (inp : Input) : Int := inp.ene.foldl min (inp.ene.headD 0)

def Z (inp : Input) : ℚ := ((List.range inp.n).map (weight inp (emin inp))).sum

/-- site probability, as `Interstitial.siteprob` -/
def rho (inp : Input) (i : Nat) : ℚ := weight inp (emin inp) i / Z inp

/-- jump rate `preT q^{-(ET − E_i)} / pre_i`, as `Interstitial.ratelist` -/
def rate (inp : Input) (k i : Nat) : ℚ :=
  let w := inp.invmap.getD i 0
  inp.preT.getD k 0 * qpow inp.q (inp.ene.getD w 0 - inp.eneT.getD k 0) / inp.pre.getD w 0

def dot (u x : List ℚ) : ℚ := ((List.zip u x).map fun p => p.1 * p.2).sum

/-- all jumps of the network, tagged with their class index -/
def flat (inp : Input) : List (Nat × Nat × Nat × List ℚ) :=
  (List.zip (List.range inp.jumps.length) inp.jumps).flatMap fun (k, cls) =>
      cls.map fun (i, j, dx) => (k, i, j, dx)

def mkJump (inp : Input) (u v : List ℚ) : Nat × Nat × Nat × List ℚ → Option (Jump (Fin inp.n) ℚ)
  | (k, i, j, dx) =>
    if hi : i < inp.n then
      if hj : j < inp.n then
        some { src := ⟨i, hi⟩, dst := ⟨j, hj⟩, d := dot u dx, e := dot v dx,
               r := rho inp i * rate inp k i }
      else none
    else none

/-- The network projected on directions `u` (field `d`) and `v` (field `e`) given in lattice
    (covariant) components, with `r = ρ_src · rate`. Out-of-range site indices make the input invalid. -/
def network (inp : Input) (u v : List ℚ) : Option (List (Jump (Fin inp.n) ℚ)) :=
  (flat inp).mapM (mkJump inp u v)

def unit (dim α : Nat) : List ℚ := (List.range dim).map fun i => if i = α then 1 else 0

/-! ### exact Gauss–Jordan -/

abbrev Mat := Array (Array ℚ)

def mget (m : Mat) (i j : Nat) : ℚ := (m.getD i #[]).getD j 0

/-- Gauss–Jordan on an augmented `n × (n+k)` matrix; free variables are set to 0.
    Returns for each right-hand side column the solution vector. -/
def gaussJordan (n k : Nat) (m0 : Mat) : Array (Array ℚ) := Id.run do
  let mut m := m0
  let mut pivcol : Array (Option Nat) := Array.replicate n none   -- row → pivot column
  let mut row := 0
  for col in [0:n] do
    if row < n then
      -- find pivot
      let mut p : Option Nat := none
      for r in [row:n] do
        if p.isNone && mget m r col ≠ 0 then p := some r
      match p with
      | none => pure ()
      | some pr =>
        let tmp := m.getD pr #[]
        m := (m.set! pr (m.getD row #[])).set! row tmp
        let pv := mget m row col
        m := m.set! row ((m.getD row #[]).map (· / pv))
        for r in [0:n] do
          if r ≠ row then
            let f := mget m r col
            if f ≠ 0 then
              let rowv := m.getD row #[]
              m := m.set! r ((m.getD r #[]).zipWith (fun x y => x - f * y) rowv)
        pivcol := pivcol.set! row (some col)
        row := row + 1
  let mut sols : Array (Array ℚ) := Array.replicate k (Array.replicate n 0)
  for r in [0:n] do
    match pivcol.getD r none with
    | none => pure ()
    | some c =>
      for t in [0:k] do
        sols := sols.set! t ((sols.getD t #[]).set! c (mget m r (n + t)))
  return sols

/-- `W` and `B` of the ρ-weighted rate equation for one projected network. -/
def assemble (n : Nat) (l : List (Jump (Fin n) ℚ)) : Mat × Array ℚ := Id.run do
  let mut W : Mat := Array.replicate n (Array.replicate n 0)
  let mut Bv : Array ℚ := Array.replicate n 0
  for a in l do
    let i := a.src.val
    let j := a.dst.val
    let rowi := W.getD i #[]
    let rowi := rowi.set! j (rowi.getD j 0 + a.r)
    let rowi := rowi.set! i (rowi.getD i 0 - a.r)
    W := W.set! i rowi
    Bv := Bv.set! i (Bv.getD i 0 + a.r * a.d)
  return (W, Bv)

/-- Candidate solution of `W ξ = −B` (no claim attached: it is checked by the caller). -/
def candidate (n : Nat) (l : List (Jump (Fin n) ℚ)) : Fin n → ℚ :=
  let (W, Bv) := assemble n l
  let aug : Mat := (Array.range n).map fun i => (W.getD i #[]).push (-(Bv.getD i 0))
  let sol := (gaussJordan n 1 aug).getD 0 #[]
  fun i => sol.getD i.val 0

instance (l : List (Jump (Fin n) ℚ)) (ξ : Fin n → ℚ) : Decidable (Stationary l ξ) := by
  unfold Stationary; exact inferInstance

/-- cheap sufficient test for reversibility: the list is made of adjacent (jump, reverse) pairs -/
def pairedRev {ι : Type} [DecidableEq ι] : List (Jump ι ℚ) → Bool
  | [] => true
  | [_] => false
  | a :: b :: t => decide (b = a.rev) && pairedRev t

/-- Certification of a candidate solution `ξ` of the rate equation, whatever its origin (the
    model's own Gauss–Jordan, or a certificate computed outside and shipped with the request):
    returned only when the network lists every jump with its reverse, has non-negative weights,
    and `ξ` passes the exact stationarity check. -/
def certify (n : Nat) (l : List (Jump (Fin n) ℚ)) (ξ : Fin n → ℚ) : Option (Fin n → ℚ) :=
  if (pairedRev l ∨ (l.map Jump.rev).isPerm l) ∧ (l.all fun a => decide (0 ≤ a.r)) ∧ Stationary l ξ
  then some ξ else none

/-- A *certified* stationary point from the model's own elimination. -/
def solve (n : Nat) (l : List (Jump (Fin n) ℚ)) : Option (Fin n → ℚ) :=
  certify n l (candidate n l)

/-- The bilinear transport form `u·D·v = D0(u,v) − Σ_i ξ^u_i B^v_i` for directions `u`, `v`. -/
def form (inp : Input) (u v : List ℚ) : Option ℚ := do
  let l ← network inp u v
  let ξ ← solve inp.n l
  let d0 := (l.map fun a => a.r * a.d * a.e).sum / 2
  pure (d0 - ∑ i, ξ i * B (l.map Jump.swap) i)

/-- One tensor component in lattice coordinates. -/
def component (inp : Input) (α β : Nat) : Option ℚ := form inp (unit inp.dim α) (unit inp.dim β)

/-- bare (uncorrelated) part `D0_αβ`, for reporting -/
def component0 (inp : Input) (α β : Nat) : Option ℚ := do
  let l ← network inp (unit inp.dim α) (unit inp.dim β)
  pure ((l.map fun a => a.r * a.d * a.e).sum / 2)

def tensor (inp : Input) : Option (List (List ℚ)) :=
  (List.range inp.dim).mapM fun α => (List.range inp.dim).mapM fun β => component inp α β

/-! ### protocol
  request: `n dim q | invmap | pre | ene | preT | eneT | class;class;…`
  where a class is `i,j,dx0,dx1[,dx2]` entries separated by `:`
  answer:  `ok D00,D01,…,D(dim-1)(dim-1) | rho_0,…`  or  `invalid`
-/

def parseClass (dim : Nat) (s : String) : Option (List (Nat × Nat × List ℚ)) :=
  if s = "_" then some [] else
  (s.splitOn ":").mapM fun e =>
    match e.splitOn "," with
    | i :: j :: rest => do
        let i ← parseNat? i
        let j ← parseNat? j
        let dx ← rest.mapM parseRat?
        if dx.length = dim then some (i, j, dx) else none
    | _ => none

def parseInput (line : String) : Option Input := do
  match (line.splitOn "|").map (·.trimAscii.toString) with
  | [hd, invmap, pre, ene, preT, eneT, jumps] =>
    match toks hd with
    | [n, dim, q] =>
      let n ← parseNat? n
      let dim ← parseNat? dim
      let q ← parseRat? q
      let invmap ← parseNatList? invmap
      let pre ← parseRatList? pre
      let ene ← parseIntList? ene
      let preT ← parseRatList? preT
      let eneT ← parseIntList? eneT
      let jumps ← (jumps.splitOn ";").mapM (parseClass dim)
      some { n, dim, q, invmap, pre, ene, preT, eneT, jumps }
    | _ => none
  | _ => none

def handle (line : String) : String :=
  match parseInput line with
  | none => "bad-request"
  | some inp =>
    match tensor inp with
    | none => "invalid"
    | some t =>
      let d0 := ((List.range inp.dim).flatMap fun α => (List.range inp.dim).map fun β =>
        (component0 inp α β).getD 0)
      s!"ok {showRatList t.flatten} | {showRatList ((List.range inp.n).map (rho inp))} | {showRatList d0}"

end Onsager.C02
