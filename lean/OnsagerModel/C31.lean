/-
  C31 — exact model of onsager/cluster.py: ClusterSite, Cluster (construction, equality map,
  XOR hash, istransition, group action), makeclusters, makeTSclusters, makeVacancyClusters.
  Geometry (sites, group operations, metric, search boxes) comes from OnsagerModel/C21.lean.
  Core Lean only.
-/
import OnsagerModel.C21

namespace Onsager.C31
open Onsager.Geom

variable {d : Nat}

/-- `Cluster`: the stored site tuple (already sorted and shifted) and the two flags -/
structure Cluster (d : Nat) where
  sites : List (Site d)
  transition : Bool
  vacancy : Bool
deriving DecidableEq

/-- number of leading special sites kept in place by the constructor -/
def nfixed (transition vacancy : Bool) : Nat := if transition then 2 else if vacancy then 1 else 0

/-- `Norder` -/
def Cluster.norder (cl : Cluster d) : Nat := cl.sites.length - nfixed cl.transition cl.vacancy

/-- number of leading sites that get a vacancy marker in the equality map (`Nvac`) -/
def Cluster.nvac (cl : Cluster d) : Nat := if cl.vacancy then (if cl.transition then 2 else 1) else 0

/-- sort key `ci[0]*2^32 + ci[1]` compared as the pair (for indices below 2^32) -/
def keyLe (a b : Site d) : Bool := a.c < b.c || (a.c == b.c && a.i ≤ b.i)

/-- stable insertion sort (Python's sort is stable) -/
def insertSite (s : Site d) : List (Site d) → List (Site d)
  | [] => [s]
  | t :: ts => if keyLe t s then t :: insertSite s ts else s :: t :: ts

def sortSites (l : List (Site d)) : List (Site d) := l.foldl (fun acc s => insertSite s acc) []

def subR (s : Site d) (t : ZV d) : Site d := { s with R := vof fun k => s.R.get k - t.get k }
def addR (s : Site d) (t : ZV d) : Site d := { s with R := vof fun k => s.R.get k + t.get k }

/-- `Cluster.__init__` -/
def Cluster.mk' (lis : List (Site d)) (transition vacancy : Bool) : Cluster d :=
  let k := nfixed transition vacancy
  let l := lis.take k ++ sortSites (lis.drop k)
  let R0 : ZV d := match l with
    | [] => zeroZ
    | s :: _ => s.R
  { sites := l.map fun s => subR s R0, transition := transition, vacancy := vacancy }

/-- `__center__` = sum of the lattice vectors -/
def Cluster.center (cl : Cluster d) : ZV d :=
  vof fun k => (cl.sites.map fun s => s.R.get k).sum

/-- `__shift_pos__` : `R*Nsites − center` (translation invariant) -/
def Cluster.shiftPos (cl : Cluster d) (s : Site d) : ZV d :=
  let c := cl.center
  let n : Int := cl.sites.length
  vof fun k => s.R.get k * n - c.get k

/-- key of the equality map: `ci` plus the vacancy marker of the leading sites -/
structure Key where
  c : Nat
  i : Nat
  mark : Option Int
deriving DecidableEq

/-- the entries `(r, shiftpos)` of `__equalitymap__` in site order (with repetitions).
    `mt`: the source marks the transition pair of non-vacancy TS clusters (read from the live class) -/
def Cluster.markOf (mt : Bool) (cl : Cluster d) (idx : Nat) (s : Site d) : Option Int :=
  if idx < cl.nvac then (if idx = 0 then some (-1) else some (s.c : Int))
  else if mt && cl.transition && !cl.vacancy && idx < 2 then some (-2)   -- marked transition pair
  else none

def Cluster.entry (cl : Cluster d) (mark : Option Int) (s : Site d) : Key × ZV d :=
  ({ c := s.c, i := s.i, mark := mark }, cl.shiftPos s)

def Cluster.keyed (mt : Bool) (cl : Cluster d) : List (Key × ZV d) :=
  let k := nfixed cl.transition cl.vacancy
  -- the leading special sites (marks depend on the position) followed by the ordinary sites (no mark)
  ((cl.sites.take k).zipIdx.map fun (s, idx) => cl.entry (cl.markOf mt idx s) s) ++
  ((cl.sites.drop k).map fun s => cl.entry none s)

def subsetL {α : Type} [DecidableEq α] (a b : List α) : Bool := a.all fun x => decide (x ∈ b)

/-- `istransition(site0, site1)` -/
def Cluster.istransition (cl : Cluster d) (s0 s1 : Site d) : Bool :=
  match cl.sites with
  | a :: b :: _ =>
    if decide (a = subR s0 s0.R) && decide (b = subR s1 s0.R) then true
    else if cl.vacancy then false
    else decide (a = subR s1 s1.R) && decide (b = subR s0 s1.R)
  | _ => false

/-- `Cluster.__eq__` -/
def Cluster.eqv (mt : Bool) (a b : Cluster d) : Bool :=
  a.transition == b.transition && a.vacancy == b.vacancy && a.norder == b.norder &&
  subsetL (a.keyed mt) (b.keyed mt) && subsetL (b.keyed mt) (a.keyed mt) &&
  (!a.transition ||
    match b.sites with
    | s0 :: s1 :: _ => a.istransition s0 s1
    | _ => false)

/-- `__hash__`: XOR of the hashes of the map entries, for an arbitrary entry hash `hk` -/
def Cluster.hashWith (mt : Bool) (hk : Key × ZV d → Nat) (cl : Cluster d) : Nat :=
  ((cl.keyed mt).map hk).foldl Nat.xor 0

/-! ### geometric identity (specification) -/

/-- translation-invariant text of a site of a cluster: `c.i.(N·R − center)` -/
def siteStr (cl : Cluster d) (s : Site d) : String := s!"{s.c}.{s.i}.{showZV (cl.shiftPos s)}"

/-- canonical form for one direction: special sites in order, the rest sorted -/
def canonDir (cl : Cluster d) : String :=
  let k := nfixed cl.transition cl.vacancy
  let sp := (cl.sites.take k).map (siteStr cl)
  let rest := sortStr ((cl.sites.drop k).map (siteStr cl))
  (if cl.transition then "T" else "") ++ (if cl.vacancy then "V" else "") ++ "[" ++ ",".intercalate sp ++ "|" ++
    ",".intercalate rest ++ "]"

/-- the reversed transition-state cluster -/
def Cluster.reversed (cl : Cluster d) : Cluster d :=
  match cl.sites with
  | a :: b :: rest => { cl with sites := b :: a :: rest }
  | _ => cl

/-- geometric canonical form: site multiset up to lattice translation and permutation of the
    non-special sites; the transition pair of a non-vacancy cluster up to reversal -/
def canon (cl : Cluster d) : String :=
  if cl.transition && !cl.vacancy then
    let a := canonDir cl
    let b := canonDir cl.reversed
    if a < b then a else b
  else canonDir cl

def geoEq (a b : Cluster d) : Bool := canon a == canon b

/-! ### group action -/

def Cluster.g (cr : Crystal d) (op : Op d) (cl : Cluster d) : Cluster d :=
  Cluster.mk' (cl.sites.map (cr.gSite op)) cl.transition cl.vacancy

/-- `cl in clusters` for a set of clusters, with the equality under test -/
def memBy (eq : Cluster d → Cluster d → Bool) (cl : Cluster d) (l : List (Cluster d)) : Bool := l.any (eq cl)

def insertBy (eq : Cluster d → Cluster d → Bool) (l : List (Cluster d)) (cl : Cluster d) : List (Cluster d) :=
  if memBy eq cl l then l else l ++ [cl]

/-- `set([cl.g(crys, g) for g in crys.G])` -/
def orbitBy (eq : Cluster d → Cluster d → Bool) (cr : Crystal d) (cl : Cluster d) : List (Cluster d) :=
  cr.ops.foldl (fun acc op => insertBy eq acc (cl.g cr op)) []

/-! ### makeclusters -/

def site0 (c i : Nat) : Site d := { c := c, i := i, R := zeroZ }

def sitelist (cr : Crystal d) (exclude : List Nat) : List (Nat × Nat) :=
  (List.range cr.basis.length).flatMap fun c =>
    if c ∈ exclude then [] else (List.range (cr.nat c)).map fun i => (c, i)

/-- neighbours of atom `(c0,i0)` at the origin: sites `(c1,i1,R)`, `R` in the box, `0 < |dx|² < r2` -/
def neighbours (cr : Crystal d) (r2 : Rat) (box : Box d) (sl : List (Nat × Nat)) (c0 i0 : Nat) : List (Site d) :=
  let u0 := cr.u c0 i0
  let ns := boxVecs box
  sl.flatMap fun (c1, i1) =>
    let u1 := cr.u c1 i1
    ns.filterMap fun n =>
      let v : QV d := vof fun k => (n.get k : Rat) + u1.get k - u0.get k
      let l := norm2 cr.g v
      if 0 < l ∧ l < r2 then some { c := c1, i := i1, R := n } else none

/-- `elem in cluster` (`__contains__`, for plain clusters) -/
def Cluster.contains (cl : Cluster d) (s : Site d) : Bool :=
  (cl.keyed false).any fun (k, p) => k.mark.isNone && k.c == s.c && k.i == s.i && decide (p = cl.shiftPos s)

/-- one growth step over all previous clusters -/
def growStep (eq : Cluster d → Cluster d → Bool) (cr : Crystal d)
    (nn : Nat → Nat → List (Site d)) (prev : List (Cluster d)) :
    List (List (Cluster d)) × List (Cluster d) :=
  prev.foldl (fun (acc : List (List (Cluster d)) × List (Cluster d)) clprev =>
    match clprev.sites with
    | [] => acc
    | first :: _ =>
      (nn first.c first.i).foldl (fun acc neigh =>
        if clprev.contains neigh then acc
        else
          let nl := nn neigh.c neigh.i
          if clprev.sites.all fun s => decide (subR s neigh.R ∈ nl) then
            let clnew := Cluster.mk' (clprev.sites ++ [neigh]) false false
            if memBy eq clnew acc.2 then acc
            else
              let orb := orbitBy eq cr clnew
              (acc.1 ++ [orb], orb.foldl (insertBy eq) acc.2)
          else acc) acc) ([], [])

/-- `makeclusters(crys, cutoff, maxorder, exclude)` with an explicit search box -/
def makeclusters (cr : Crystal d) (r2 : Rat) (box : Box d) (maxorder : Nat) (exclude : List Nat) :
    List (List (Cluster d)) :=
  let eq : Cluster d → Cluster d → Bool := Cluster.eqv false
  let sl := sitelist cr exclude
  -- single sites
  let first := sl.foldl (fun (acc : List (List (Cluster d)) × List (Cluster d)) (ci : Nat × Nat) =>
    let cl := Cluster.mk' [site0 ci.1 ci.2] false false
    if memBy eq cl acc.2 then acc
    else
      let orb := orbitBy eq cr cl
      (acc.1 ++ [orb], orb.foldl (insertBy eq) acc.2)) ([], [])
  if maxorder < 2 then first.1
  else
    let nnTab : List ((Nat × Nat) × List (Site d)) := sl.map fun ci => (ci, neighbours cr r2 box sl ci.1 ci.2)
    let nn : Nat → Nat → List (Site d) := fun c i =>
      match nnTab.find? (fun e => e.1 == (c, i)) with
      | some e => e.2
      | none => []
    let rec loop : Nat → List (List (Cluster d)) → List (Cluster d) → List (List (Cluster d))
      | 0, exp, _ => exp
      | k + 1, exp, prev =>
        let (newexp, cur) := growStep eq cr nn prev
        loop k (exp ++ newexp) cur
    loop (maxorder - 1) first.1 first.2

/-! ### transition-state and vacancy clusters -/

/-- `clust - site`: the other sites shifted so that `site` is at the origin -/
def minusSite (cl : Cluster d) (s : Site d) : List (Site d) :=
  (cl.sites.filter fun t => decide (t ≠ s)).map fun t => subR t s.R

/-- remove the first occurrence -/
def removeFirst (s : Site d) : List (Site d) → List (Site d)
  | [] => []
  | t :: ts => if t = s then ts else t :: removeFirst s ts

/-- `makeTSclusters` for plain (non-vacancy) cluster expansions; `jumps` are pairs
    (site i at the origin, site j at R) -/
def makeTSclusters (eq : Cluster d → Cluster d → Bool) (cr : Crystal d) (chem : Nat)
    (jumps : List (Site d × Site d)) (clusterexp : List (List (Cluster d))) : List (List (Cluster d)) :=
  let res := clusterexp.foldl (fun (acc : List (List (Cluster d)) × List (Cluster d)) clustlist =>
    match clustlist with
    | [] => acc
    | c0 :: _ =>
      if c0.vacancy then acc      -- vacancy expansions are handled by makeTSclustersVac
      else
      let nmobile := (c0.sites.filter fun s => s.c == chem).length
      if nmobile < 2 then acc
      else
        clustlist.foldl (fun acc clust =>
          jumps.foldl (fun acc (csi, csj) =>
            clust.sites.foldl (fun acc site =>
              if site.c == csi.c && site.i == csi.i then
                let cll := minusSite clust site
                if csj ∈ cll then
                  let ts := Cluster.mk' ([csi, csj] ++ removeFirst csj cll) true false
                  if memBy eq ts acc.2 then acc
                  else
                    let orb := orbitBy eq cr ts
                    (acc.1 ++ [orb], orb.foldl (insertBy eq) acc.2)
                else acc
              else acc) acc) acc) acc) ([], [])
  res.1

/-- `makeVacancyClusters` -/
def makeVacancyClusters (eq : Cluster d → Cluster d → Bool) (cr : Crystal d) (chem : Nat)
    (clusterexp : List (List (Cluster d))) : List (List (Cluster d)) :=
  let res := clusterexp.foldl (fun (acc : List (List (Cluster d)) × List (Cluster d)) clustlist =>
    match clustlist with
    | [] => acc
    | c0 :: _ =>
      if (c0.sites.filter fun s => s.c == chem).length < 1 then acc
      else
        clustlist.foldl (fun acc clust =>
          clust.sites.foldl (fun acc site =>
            if site.c == chem then
              let vc := Cluster.mk' ([site0 site.c site.i] ++ minusSite clust site) false true
              if memBy eq vc acc.2 then acc
              else
                let orb := orbitBy eq cr vc
                (acc.1 ++ [orb], orb.foldl (insertBy eq) acc.2)
            else acc) acc) acc) ([], [])
  res.1

/-- `makeTSclusters` on a vacancy cluster expansion (four TS clusters per vacancy cluster / jump) -/
def makeTSclustersVac (eq : Cluster d → Cluster d → Bool) (cr : Crystal d) (chem : Nat)
    (jumps : List (Site d × Site d)) (clusterexp : List (List (Cluster d))) : List (List (Cluster d)) :=
  let res := clusterexp.foldl (fun (acc : List (List (Cluster d)) × List (Cluster d)) clustlist =>
    match clustlist with
    | [] => acc
    | c0 :: _ =>
      if !c0.vacancy then acc
      else
      let nmobile := ((c0.sites.drop 1).filter fun s => s.c == chem).length + 1
      if nmobile < 2 then acc
      else
        clustlist.foldl (fun acc clust =>
          jumps.foldl (fun acc (csi, csj) =>
            match clust.sites with
            | [] => acc
            | vac :: others =>
              if vac ≠ csi then acc
              else if !(others.any fun s => decide (s = csj)) then acc
              else
                let cll := others.filter fun s => decide (s ≠ csj)
                [([csi, csj], [csj, csi]), ([csi, csj, csj], [csj, csi, csi])].foldl (fun acc (pair, rpair) =>
                  let ts := Cluster.mk' (pair ++ cll) true true
                  if memBy eq ts acc.2 then acc
                  else
                    let orb := orbitBy eq cr ts
                    let tsr := Cluster.mk' (rpair ++ cll) true true
                    let orb2 := cr.ops.foldl (fun o op => insertBy eq o (tsr.g cr op)) orb
                    (acc.1 ++ [orb2], orb2.foldl (insertBy eq) acc.2)) acc) acc) acc) ([], [])
  res.1

/-! ### driver -/

def showExp (exp : List (List (Cluster d))) : String :=
  if exp.isEmpty then "-" else ";".intercalate (sortStr (exp.map fun cls => "+".intercalate (sortStr (cls.map canon))))

def parseSite (d : Nat) (s : String) : Option (Site d) :=
  match s.splitOn "." with
  | c :: i :: rs => do
      let c ← parseNat? c
      let i ← parseNat? i
      let r ← rs.mapM parseInt?
      if r.length = d then some { c := c, i := i, R := ofListZ r } else none
  | _ => none

def parseSites (d : Nat) (s : String) : Option (List (Site d)) :=
  if s = "-" then some [] else (s.splitOn ",").mapM (parseSite d)

def parseFlags (s : String) : Bool × Bool := (s.contains 'T', s.contains 'V')

/-- jumps of the C21 network in site-pair form -/
def jumpPairs (cr : Crystal d) (chem : Nat) (r2 : Rat) (box : Box d) : List (Site d × Site d) :=
  -- `crys.jumpnetwork(chem, cutoff)` with its default `closestdistance=0`: atoms of other species
  -- exactly on the path obstruct
  let cds : List (Nat × Rat) := ((List.range cr.basis.length).filter (· != chem)).map fun c => (c, (0 : Rat))
  (C21.network cr chem r2 box cds).flatten.map fun J =>
    ({ c := chem, i := J.i, R := zeroZ }, { c := chem, i := J.j, R := J.n })

def b2s (b : Bool) : String := if b then "1" else "0"

def answer (cr : Crystal d) (cmd : String) (args : List String) : String :=
  match cmd, args with
  -- eq <flags> <sitesA> <sitesB> : code equality, geometric equality, hashes equal (toy hash)
  | "eq", [mtS, fl, sa, sb] =>
    match parseSites d sa, parseSites d sb with
    | some la, some lb =>
      if la.isEmpty ∨ lb.isEmpty then "bad-args" else
      let (t, v) := parseFlags fl
      let a := Cluster.mk' la t v
      let b := Cluster.mk' lb t v
      s!"{b2s (a.eqv (mtS = "1") b)} {b2s (geoEq a b)} {canon a} {canon b}"
    | _, _ => "bad-args"
  -- mk <r2> <box|dual> <maxorder> <exclude>
  | "mk", [r2S, boxS, moS, exS] =>
    match parseRat? r2S, parseNat? moS, parseNatList? exS with
    | some r2, some mo, some ex =>
      let box? : Option (Box d) := if boxS = "dual" then some (C21.boxDual cr.h r2) else parseBox boxS
      match box? with
      | some box => s!"ok {b2s (boxOK cr.h r2 cr.dumax box)} | {showExp (makeclusters cr r2 box mo ex)}"
      | none => "bad-box"
    | _, _, _ => "bad-args"
  -- ts <geo|code> <chem> <r2 clusters> <maxorder> <r2 jumps> : TS clusters of the model's own expansion/network (dual boxes)
  | "ts", [eqS, chemS, r2S, moS, r2jS] =>
    match parseNat? chemS, parseRat? r2S, parseNat? moS, parseRat? r2jS with
    | some chem, some r2, some mo, some r2j =>
      let eq : Cluster d → Cluster d → Bool := if eqS = "geo" then geoEq else Cluster.eqv (eqS = "code1")
      let exp := makeclusters cr r2 (C21.boxDual cr.h r2) mo []
      let jumps := jumpPairs cr chem r2j (C21.boxDual cr.h r2j)
      s!"ok | {showExp (makeTSclusters eq cr chem jumps exp)}"
    | _, _, _, _ => "bad-args"
  -- vac <geo|code> <chem> <r2> <maxorder>
  | "vac", [eqS, chemS, r2S, moS] =>
    match parseNat? chemS, parseRat? r2S, parseNat? moS with
    | some chem, some r2, some mo =>
      let eq : Cluster d → Cluster d → Bool := if eqS = "geo" then geoEq else Cluster.eqv (eqS = "code1")
      let exp := makeclusters cr r2 (C21.boxDual cr.h r2) mo []
      s!"ok | {showExp (makeVacancyClusters eq cr chem exp)}"
    | _, _, _ => "bad-args"
  -- tsvac <geo|code> <chem> <r2> <maxorder> <r2 jumps>
  | "tsvac", [eqS, chemS, r2S, moS, r2jS] =>
    match parseNat? chemS, parseRat? r2S, parseNat? moS, parseRat? r2jS with
    | some chem, some r2, some mo, some r2j =>
      let eq : Cluster d → Cluster d → Bool := if eqS = "geo" then geoEq else Cluster.eqv (eqS = "code1")
      let exp := makeclusters cr r2 (C21.boxDual cr.h r2) mo []
      let vexp := makeVacancyClusters eq cr chem exp
      let jumps := jumpPairs cr chem r2j (C21.boxDual cr.h r2j)
      s!"ok | {showExp (makeTSclustersVac eq cr chem jumps vexp)}"
    | _, _, _, _ => "bad-args"
  | _, _ => "bad-request"

inductive St where
  | none
  | c2 (cr : Crystal 2)
  | c3 (cr : Crystal 3)

def handle (st : St) (line : String) : St × String :=
  let fs := C21.fieldsOf line
  match fs with
  | [] => (st, "bad-request")
  | hd :: rest =>
    match toks hd with
    | ["crys", "2"] =>
      match C21.parseCrystal 2 rest with
      | some cr => (.c2 cr, s!"ok valid={b2s cr.valid}")
      | none => (.none, "bad-crystal")
    | ["crys", "3"] =>
      match C21.parseCrystal 3 rest with
      | some cr => (.c3 cr, s!"ok valid={b2s cr.valid}")
      | none => (.none, "bad-crystal")
    | cmd :: args =>
      match st with
      | .none => (st, "no-crystal")
      | .c2 cr => (st, answer cr cmd args)
      | .c3 cr => (st, answer cr cmd args)
    | [] => (st, "bad-request")

end Onsager.C31
