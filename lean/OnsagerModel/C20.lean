/-
  C20 — site symmetry: point groups of sites (`genpoint`), Wyckoff sets (`genWyckoffsets`),
  equivalent positions (`Wyckoffpos`), adding a basis (`addbasis`), and the dimension of the
  vectors / symmetric tensors left invariant by a site's point group (character formula, and an
  exact nullspace for comparison).  onsager/crystal.py:1070-1115, 1260-1302, 1304-1389.

  Uses the exact crystal / GroupOp model of OnsagerModel/C18.lean (lattice coordinates over ℚ).
-/
import OnsagerModel.C18

namespace Onsager.C20
open Onsager.C18

variable {d : Nat}

/-- `np.round` of an exact vector (only applied to integer vectors by correct inputs) -/
def roundV (v : Vec d Rat) : Vec d Int := fun i => (v i + 1/2).floor

/-- `g - g_pos(g, 0, (s,i))[0]`: the representative of `g` that maps atom `(s,i)` onto the atom
    `(s, indexmap[s][i])` *in the same cell* (crystal.py:1196-1213, 1270). -/
def pointOp (c : Crystal d) (g : GroupOp d) (s i : Nat) : GroupOp d :=
  let delu := roundV (subV (g.act (c.pos s i)) (c.pos s (g.imap s i)))
  g.addT (fun k => - delu k)

/-- `genpoint` for one site: operations with `indexmap[s][i] == i`, shifted to fix the site.
    (For a one-atom crystal the source returns `G` itself; the atom is then at the origin and
    the reported translations are zero, so the two coincide.) -/
def pointGroup (c : Crystal d) (G : List (GroupOp d)) (s i : Nat) : List (GroupOp d) :=
  (G.filter fun g => g.imap s i == i).map fun g => (pointOp c g s i).tab

/-- orbit of atom `(s,i)` under the index maps: `{indexmap[s][i] for g in G}`, sorted, no duplicates -/
def insertSorted (a : Nat) : List Nat → List Nat
  | [] => [a]
  | b :: l => if a < b then a :: b :: l else if a = b then b :: l else b :: insertSorted a l

def orbitOf (G : List (GroupOp d)) (s i : Nat) : List Nat :=
  G.foldl (fun acc g => insertSorted (g.imap s i) acc) []

/-- `genWyckoffsets`: the set of orbits, as (species, sorted orbit), duplicates removed -/
def wyckoffSets (c : Crystal d) (G : List (GroupOp d)) : List (Nat × List Nat) :=
  let all := (List.range c.nspecies).flatMap fun s =>
    (List.range (c.natoms s)).map fun i => (s, orbitOf G s i)
  all.foldl (fun acc x => if acc.contains x then acc else acc ++ [x]) []

/-- `Wyckoffpos(uvec)`: images of `u` under all operations, reduced into the cell, first
    occurrence kept -/
def wyckoffPos (G : List (GroupOp d)) (u : Vec d Rat) : List (Vec d Rat) :=
  (tabVs (G.map fun g => incell (g.act u))).foldl (fun lis x =>
      if lis.any (fun y => vecEqR x y) then lis else lis ++ [x]) []

/-- `addbasis` with one new species (spin 0 on the new sites, as in the source when spins exist) -/
def addbasis (c : Crystal d) (sites : List (Vec d Rat)) : Crystal d :=
  { metric := c.metric
    basis := c.basis ++ [sites]
    spins := c.spins ++ [sites.map fun _ => 0] }

/-! ### Invariant vectors and symmetric tensors of a finite matrix group -/

abbrev QMat (m : Nat) := Mat m Rat

def oneQ {m : Nat} : QMat m := fun i j => if i = j then 1 else 0

def traceQ {m : Nat} (A : QMat m) : Rat := (List.ofFn fun i => A i i).sum

/-- Boolean group test for a list of rational matrices: contains 1, closed under product,
    every element has a left inverse in the list, no repetitions. -/
def isMatGroup {m : Nat} (Ms : List (QMat m)) : Bool :=
  (Ms.any fun A => matEqR A oneQ)
  && (Ms.all fun A => Ms.all fun B => let AB := tabM (mmulR A B); Ms.any fun C => matEqR C AB)
  && (Ms.all fun A => Ms.any fun B => matEqR (mmulR B A) oneQ)
  && Ms.Pairwise (fun A B => matEqR A B = false)

/-- character average `(1/|P|) Σ tr M` = dimension of the fixed space (theorem `fixedDim_eq_avgTrace`) -/
def avgTrace {m : Nat} (Ms : List (QMat m)) : Rat := (Ms.map traceQ).sum / (Ms.length : Rat)

/-- flattened index `(i,j) ↦ i*d + j` -/
def pairIdx (i j : Fin d) : Fin (d * d) :=
  ⟨i.val * d + j.val, by
    have hi := i.isLt; have hj := j.isLt
    calc i.val * d + j.val < i.val * d + d := by omega
      _ = (i.val + 1) * d := by rw [Nat.add_mul, Nat.one_mul]
      _ ≤ d * d := Nat.mul_le_mul_right d hi⟩

def unpairL (k : Fin (d * d)) : Fin d := ⟨k.val / d, by
  have hk := k.isLt
  have hd : 0 < d := by
    rcases Nat.eq_zero_or_pos d with h | h
    · subst h; simp at hk
    · exact h
  exact (Nat.div_lt_iff_lt_mul hd).2 hk⟩

def unpairR (k : Fin (d * d)) : Fin d := ⟨k.val % d, by
  have hk := k.isLt
  have hd : 0 < d := by
    rcases Nat.eq_zero_or_pos d with h | h
    · subst h; simp at hk
    · exact h
  exact Nat.mod_lt _ hd⟩

/-- the action `T ↦ R T Rᵀ` on (flattened, contravariant, lattice-coordinate) rank-2 tensors -/
def tensorRep (R : Mat d Int) : QMat (d * d) :=
  fun a b => ((R (unpairL a) (unpairL b) * R (unpairR a) (unpairR b) : Int) : Rat)

/-- the same followed by transposition of the tensor -/
def tensorRepSwap (R : Mat d Int) : QMat (d * d) :=
  fun a b => ((R (unpairR a) (unpairL b) * R (unpairL a) (unpairR b) : Int) : Rat)

/-- vector representation and symmetric-tensor representation (the group extended by the
    transposition, whose fixed tensors are exactly the symmetric invariant ones) -/
def dedupM {m : Nat} (Ms : List (QMat m)) : List (QMat m) :=
  Ms.foldl (fun acc A => if acc.any (fun B => matEqR A B) then acc else acc ++ [A]) []

def vecRep (P : List (Mat d Int)) : List (QMat d) :=
  let ts : List (TMat d Rat) := P.map fun R => TMat.ofFn (castM R)
  dedupM (ts.map TMat.get)
/-- (the tensor representation is not faithful: `R` and `-R` act alike, hence the `dedupM`) -/
def symRep (P : List (Mat d Int)) : List (QMat (d * d)) :=
  -- tabulated as data first: a definition of function type is eta-expanded by the compiler and
  -- would rebuild its table on every access
  let ts : List (TMat (d * d) Rat) :=
    (P.map fun R => TMat.ofFn (tensorRep R)) ++ (P.map fun R => TMat.ofFn (tensorRepSwap R))
  dedupM (ts.map TMat.get)

/-- closed forms of the two characters, for comparison with the generic `avgTrace` -/
def charVec (P : List (Mat d Int)) : Rat :=
  ((P.map fun R => ((List.ofFn fun i => R i i).sum : Int)).sum : Int) / (P.length : Rat)
def charSym (P : List (Mat d Int)) : Rat :=
  ((P.map fun R =>
      let t : Int := (List.ofFn fun i => R i i).sum
      let t2 : Int := (List.ofFn fun i => (mmulI R R) i i).sum
      t * t + t2).sum : Int) / (2 * (P.length : Rat))

/-! exact nullspace by Gauss–Jordan elimination on lists (untrusted helper: the harness verifies
    the returned basis exactly and the dimension against the character formula) -/

def rowSub (r p : List Rat) (f : Rat) : List Rat := List.zipWith (fun x y => x - f * y) r p

/-- reduced row echelon form; returns (rows, pivot columns) -/
def rref (ncols : Nat) (rows : List (List Rat)) : List (List Rat) × List Nat :=
  let step := fun (st : List (List Rat) × List (List Rat) × List Nat) (col : Nat) =>
    let (done, rest, piv) := st
    match rest.find? (fun r => r.getD col 0 != 0) with
    | none => (done, rest, piv)
    | some p =>
      let pv := p.getD col 0
      let pn := p.map (· / pv)
      let rest' := (rest.filter (fun r => r != p)).map fun r => rowSub r pn (r.getD col 0)
      let done' := done.map fun r => rowSub r pn (r.getD col 0)
      (done' ++ [pn], rest', piv ++ [col])
  let (done, _, piv) := (List.range ncols).foldl step ([], rows, [])
  (done, piv)

/-- basis of `{v | rows · v = 0}` -/
def nullspace (ncols : Nat) (rows : List (List Rat)) : List (List Rat) :=
  let (R, piv) := rref ncols rows
  let free := (List.range ncols).filter fun c => !piv.contains c
  free.map fun f =>
    (List.range ncols).map fun c =>
      if c = f then 1
      else match piv.idxOf? c with
        | some k => - ((R.getD k []).getD f 0)
        | none => 0

def matRows {m : Nat} (A : QMat m) : List (List Rat) :=
  (List.finRange m).map fun i => (List.finRange m).map fun j => A i j - (if i = j then 1 else 0)

/-- exact basis of the common fixed space of a list of matrices -/
def fixedBasis {m : Nat} (Ms : List (QMat m)) : List (List Rat) :=
  nullspace m (Ms.flatMap matRows)

/-! ### Text protocol -/

def showVecs (vs : List (List Rat)) : String :=
  if vs.isEmpty then "-" else ";".intercalate (vs.map showRatList)

def showVecR (v : Vec d Rat) : String := ",".intercalate ((List.finRange d).map fun i => showRat (v i))

def showOrbit (x : Nat × List Nat) : String := s!"{x.1}.{showList x.2}"

def handleD (d : Nat) (parts : List String) : String :=
  match parts with
  | "site" :: m :: b :: sp :: ops =>
    -- per-site point group (canonical op text), Wyckoff sets, invariant dimensions
    match parseCrystal? (d := d) m b sp, ops.mapM (parseOp? (d := d)) with
    | some c, some G =>
      let sites := (List.range c.nspecies).flatMap fun s => (List.range (c.natoms s)).map fun i => (s, i)
      let per := sites.map fun (s, i) =>
        let P := pointGroup c G s i
        let fixes := P.all fun g => vecEqR (g.act (c.pos s i)) (c.pos s i)
        let rots := P.map (·.rot)
        let vg := isMatGroup (vecRep rots)
        let sg := isMatGroup (symRep rots)
        let dv := avgTrace (vecRep rots)
        let ds := avgTrace (symRep rots)
        let same := (dv == charVec rots) && (ds == charSym rots)
        s!"{s}.{i} n={P.length} fix={if fixes then 1 else 0} grp={if vg && sg then 1 else 0} vec={showRat dv} sym={showRat ds} cf={if same then 1 else 0} ops=" ++
          " & ".intercalate (P.map showOp)
      let wy := wyckoffSets c G
      "W=" ++ " ".intercalate (wy.map showOrbit) ++ " # " ++ " # ".intercalate per
    | _, _ => "bad-op"
  | "wyck" :: u :: ops =>
    match parseVecR? (d := d) u, ops.mapM (parseOp? (d := d)) with
    | some u, some G => ";".intercalate ((wyckoffPos G u).map showVecR)
    | _, _ => "bad-op"
  | "dims" :: rots =>
    -- a bare point group given by its lattice rotation matrices
    match rots.mapM (parseMatI? (d := d)) with
    | some P =>
      let vg := isMatGroup (vecRep P)
      let sg := isMatGroup (symRep P)
      let dv := avgTrace (vecRep P)
      let ds := avgTrace (symRep P)
      let same := (dv == charVec P) && (ds == charSym P)
      s!"grp={if vg && sg then 1 else 0} vec={showRat dv} sym={showRat ds} cf={if same then 1 else 0} V={showVecs (fixedBasis (vecRep P))} T={showVecs (fixedBasis (symRep P))}"
    | none => "bad-op"
  | _ => "bad-op"

def handle (line : String) : String :=
  match (line.splitOn "|").map (fun x => x.trimAscii.toString) with
  | ds :: rest =>
    match parseNat? ds with
    | some 2 => handleD 2 rest
    | some 3 => handleD 3 rest
    | _ => "bad-dim"
  | _ => "bad-op"

end Onsager.C20
