/-
  C32 — cluster-expansion evaluators (onsager/supercell.py: ClusterSupercell.maketrans / incell /
  index / ciR / evalcluster / expandcluster_matrices / clusterevaluator;
  onsager/cluster.py: MonteCarloSampler.__init__ / start / E).

  Part 1: periodic site indexing of a 3-d supercell (the code's `maketrans` is 3-d only).
  Part 2: interaction tables: `Term`s (one placed cluster = mobile site indices, spectator site
          indices, value), the brute-force sum, the interaction-list builder (`interdict` merging,
          spectator-only constants, vacancy skip) and the sampler's read-out (`clustercount`, `E`).
  Part 3: configuration → terms (the loops over classes, clusters and lattice translations),
          `evalcluster`, `expandcluster_matrices`, `clusterevaluator`.
  Part 4: line protocol.

  Exact arithmetic: Int / Nat / Rat only.  Python exceptions → `Except String`.
-/
import OnsagerModel.Basic

namespace Onsager.C32

/-! ## Part 1 — periodic indexing -/

structure V3 where
  x : Int
  y : Int
  z : Int
deriving DecidableEq, Repr, BEq

def V3.add (a b : V3) : V3 := ⟨a.x + b.x, a.y + b.y, a.z + b.z⟩
def V3.dot (a b : V3) : Int := a.x * b.x + a.y * b.y + a.z * b.z
/-- componentwise Python `%` by a positive modulus (Euclidean remainder). -/
def V3.mod (a : V3) (n : Int) : V3 := ⟨a.x % n, a.y % n, a.z % n⟩
/-- componentwise Python `//` by a positive divisor. -/
def V3.div (a : V3) (n : Int) : V3 := ⟨a.x / n, a.y / n, a.z / n⟩

/-- 3×3 integer matrix, by rows. -/
structure M3 where
  r0 : V3
  r1 : V3
  r2 : V3
deriving DecidableEq, Repr

def M3.mulVec (m : M3) (v : V3) : V3 := ⟨m.r0.dot v, m.r1.dot v, m.r2.dot v⟩

def M3.det (m : M3) : Int :=
  m.r0.x * (m.r1.y * m.r2.z - m.r1.z * m.r2.y)
  - m.r0.y * (m.r1.x * m.r2.z - m.r1.z * m.r2.x)
  + m.r0.z * (m.r1.x * m.r2.y - m.r1.y * m.r2.x)

/-- adjugate: `adj m * m = det m • 1`. -/
def M3.adj (m : M3) : M3 :=
  ⟨⟨m.r1.y * m.r2.z - m.r1.z * m.r2.y, m.r0.z * m.r2.y - m.r0.y * m.r2.z, m.r0.y * m.r1.z - m.r0.z * m.r1.y⟩,
   ⟨m.r1.z * m.r2.x - m.r1.x * m.r2.z, m.r0.x * m.r2.z - m.r0.z * m.r2.x, m.r0.z * m.r1.x - m.r0.x * m.r1.z⟩,
   ⟨m.r1.x * m.r2.y - m.r1.y * m.r2.x, m.r0.y * m.r2.x - m.r0.x * m.r2.y, m.r0.x * m.r1.y - m.r0.y * m.r1.x⟩⟩

def M3.scale (c : Int) (m : M3) : M3 :=
  ⟨⟨c * m.r0.x, c * m.r0.y, c * m.r0.z⟩, ⟨c * m.r1.x, c * m.r1.y, c * m.r1.z⟩,
   ⟨c * m.r2.x, c * m.r2.y, c * m.r2.z⟩⟩

def M3.maxAbs (m : M3) : Nat :=
  [m.r0.x, m.r0.y, m.r0.z, m.r1.x, m.r1.y, m.r1.z, m.r2.x, m.r2.y, m.r2.z].foldl
    (fun a v => max a v.natAbs) 0

/-- What `maketrans` returns and `ClusterSupercell.__init__` stores. -/
structure Super where
  superlatt : M3
  size : Nat
  invsuper : M3
  translist : List V3
deriving Repr

/-- `incell`: `tuple(np.dot(invsuper, R) % size)`. -/
def Super.incell (sp : Super) (R : V3) : V3 := (sp.invsuper.mulVec R).mod sp.size

/-- `transdict[incell(R)]`; `none` is Python's KeyError. -/
def Super.transIdx (sp : Super) (R : V3) : Option Nat := sp.translist.idxOf? (sp.incell R)

/-- `Rveclist[k] = np.dot(superlatt, t) // size`. -/
def Super.rvec (sp : Super) (t : V3) : V3 := (sp.superlatt.mulVec t).div sp.size
def Super.rveclist (sp : Super) : List V3 := sp.translist.map sp.rvec

/-- integer range `-n … n` in Python's order. -/
def symRange (n : Nat) : List Int := (List.range (2 * n + 1)).map fun (k : Nat) => (k : Int) - (n : Int)

/-- first-seen-order de-duplication (`if ttup not in transdict`). -/
def pushNew (acc : List V3) (v : V3) : List V3 := if acc.contains v then acc else acc ++ [v]

/-- `Supercell.maketrans` (3-d).  `invsuper = round(inv(S)·size)` is `sign(det)·adj(S)` exactly. -/
def maketrans (S : M3) : Except String Super :=
  let d := S.det
  let size := d.natAbs
  if size = 0 then .error "ZeroDivisionError"
  else
    let invsuper := M3.scale (if d < 0 then -1 else 1) S.adj
    let r := symRange S.maxAbs
    let nvects := r.flatMap fun n0 => r.flatMap fun n1 => r.map fun n2 => (⟨n0, n1, n2⟩ : V3)
    let translist := nvects.foldl (fun acc nv => pushNew acc ((invsuper.mulVec nv).mod size)) []
    if translist.length ≠ size then .error "ArithmeticError"
    else .ok { superlatt := S, size := size, invsuper := invsuper, translist := translist }

/-- `invsuper · superlatt = size · 1` and `superlatt · invsuper = size · 1` (checked on data by the
    driver; hypothesis of the periodicity theorems). -/
def M3.mul (a b : M3) : M3 :=
  let c0 : V3 := ⟨b.r0.x, b.r1.x, b.r2.x⟩
  let c1 : V3 := ⟨b.r0.y, b.r1.y, b.r2.y⟩
  let c2 : V3 := ⟨b.r0.z, b.r1.z, b.r2.z⟩
  ⟨⟨a.r0.dot c0, a.r0.dot c1, a.r0.dot c2⟩, ⟨a.r1.dot c0, a.r1.dot c1, a.r1.dot c2⟩,
   ⟨a.r2.dot c0, a.r2.dot c1, a.r2.dot c2⟩⟩

def M3.scalar (c : Int) : M3 := ⟨⟨c, 0, 0⟩, ⟨0, c, 0⟩, ⟨0, 0, c⟩⟩

def Super.inverseOK (sp : Super) : Bool :=
  decide (sp.invsuper.mul sp.superlatt = M3.scalar sp.size) &&
  decide (sp.superlatt.mul sp.invsuper = M3.scalar sp.size)

/-! ## Part 2 — interaction tables -/

abbrev Tuple := List Nat

/-- One placed cluster: indices of its mobile sites (in site order, repeats possible when the
    cluster wraps onto itself), indices of its spectator sites, value of its class. -/
structure Term where
  mob : List Nat
  spec : List Nat
  val : Rat
deriving Repr

/-- `socc[n] == 1` -/
def specOn (socc : List Int) (t : Term) : Bool := t.spec.all fun n => socc.getD n 0 == 1
/-- `mocc[n] == 1` for every mobile site -/
def mobOn (occ : List Int) (l : List Nat) : Bool := l.all fun n => occ.getD n 0 == 1

/-- Brute force: every placed cluster whose sites are all occupied contributes its value. -/
def bruteSum (socc occ : List Int) (ts : List Term) : Rat :=
  (ts.map fun t => if specOn socc t && mobOn occ t.mob then t.val else 0).sum

/-- `tuple(sorted(...))` — duplicates are kept. -/
def sortTuple (l : List Nat) : Tuple := l.mergeSort fun a b => decide (a ≤ b)

/-- State of the loop in `clusterevaluator`. -/
structure Tbl where
  siteinteract : List (List Nat)
  interact : List Rat
  interdict : List (Tuple × Nat)
  ninteract : Nat
  E0 : Rat
deriving Repr

def Tbl.init (nsites : Nat) (E0 : Rat) : Tbl :=
  { siteinteract := List.replicate nsites [], interact := [], interdict := [], ninteract := 0, E0 := E0 }

/-- `self.vacancy in intertuple` (`None in tuple` is False). -/
def vacIn (vac : Option Nat) (t : Tuple) : Bool :=
  match vac with
  | none => false
  | some v => t.contains v

/-- `for n in intertuple: siteinteract[n].append(Ninteract)` -/
def appendSites (si : List (List Nat)) (t : Tuple) (k : Nat) : List (List Nat) :=
  t.foldl (fun s n => s.modify n (· ++ [k])) si

/-- Body of the innermost loop of `clusterevaluator` (supercell.py 952–969). -/
def addTerm (vac : Option Nat) (socc : List Int) (T : Tbl) (t : Term) : Tbl :=
  if specOn socc t then
    if t.mob.isEmpty then { T with E0 := T.E0 + t.val }
    else
      let tup := sortTuple t.mob
      if vacIn vac tup then T
      else match T.interdict.lookup tup with
        | some m => { T with interact := T.interact.modify m (· + t.val) }
        | none =>
          { T with interact := T.interact ++ [t.val]
                   interdict := T.interdict ++ [(tup, T.ninteract)]
                   siteinteract := appendSites T.siteinteract tup T.ninteract
                   ninteract := T.ninteract + 1 }
  else T

def buildTable (vac : Option Nat) (socc : List Int) (T : Tbl) (ts : List Term) : Tbl :=
  ts.foldl (addTerm vac socc) T

/-- `interact.append(E0); return siteinteract, interact` -/
def Tbl.finish (T : Tbl) : List (List Nat) × List Rat := (T.siteinteract, T.interact ++ [T.E0])

/-- `clustercount[m]` after `start(occ)`: number of (site, slot) pairs of interaction `m` whose
    site is unoccupied (`occ == 0`).  For `occ.length = si.length` this is the loop of
    `MonteCarloSampler.start` (zip over sites, `clustercount[m] += 1`). -/
def clustercount (si : List (List Nat)) (occ : List Int) (m : Nat) : Nat :=
  ((List.range si.length).map fun n => if occ.getD n 0 = 0 then (si.getD n []).count m else 0).sum

/-- `MonteCarloSampler.E` (and the jump barrier sums): values of the interactions `lo ≤ m < hi`
    whose count is zero. -/
def samplerSum (si : List (List Nat)) (iv : List Rat) (occ : List Int) (lo hi : Nat) : Rat :=
  (((List.range (hi - lo)).map (· + lo)).map fun m =>
    if clustercount si occ m = 0 then iv.getD m 0 else 0).sum

def samplerE (si : List (List Nat)) (iv : List Rat) (nenergy : Nat) (occ : List Int) : Rat :=
  samplerSum si iv occ 0 nenergy

/-- `start`'s checks: the vacancy site holds -1, every other site 0 or 1. -/
def occOK (vac : Option Nat) (nsites : Nat) (occ : List Int) : Bool :=
  occ.length == nsites &&
  (List.range nsites).all fun n =>
    if vac = some n then occ.getD n 0 == -1 else (occ.getD n 0 == 0 || occ.getD n 0 == 1)

/-! ## Part 3 — configuration → terms -/

/-- A cluster site: sublattice kind, index of its `(c,i)` within `mobileindices` /
    `spectatorindices`, lattice vector. -/
structure Site where
  mob : Bool
  k : Nat
  R : V3
deriving Repr

/-- `vac = some (mobile?, k)` for a vacancy cluster (`clust.vacancy().ci`); `sites` are what
    iterating the cluster yields (the vacancy site itself is not iterated). -/
structure Cluster where
  sites : List Site
  vac : Option (Bool × Nat)
deriving Repr

structure Cfg where
  sp : Super
  nmob : Nat
  nspec : Nat
  vac : Option Nat
  socc : List Int
  values : List Rat
  classes : List (List Cluster)
deriving Repr

/-- `index(R, ci)[0]` -/
def Cfg.index (c : Cfg) (R : V3) (s : Site) : Except String Nat :=
  match c.sp.transIdx (R.add s.R) with
  | none => .error "KeyError"
  | some t => .ok (t * (if s.mob then c.nmob else c.nspec) + s.k)

/-- The translations a cluster is placed at: all of `Rveclist`, or `[R_vac]` for a vacancy
    cluster matching the supercell's vacancy (none otherwise). -/
def Cfg.rlist (c : Cfg) (cl : Cluster) : List V3 :=
  match cl.vac with
  | none => c.sp.rveclist
  | some civ =>
    match c.vac with
    | none => []
    | some v =>
      if c.nmob = 0 then []
      else if civ ≠ (true, v % c.nmob) then []
      else [(c.sp.rveclist).getD (v / c.nmob) ⟨0, 0, 0⟩]

structure Placed where
  mob : List Nat
  spec : List Nat
deriving Repr

def Cfg.place (c : Cfg) (cl : Cluster) (R : V3) : Except String Placed := do
  let mob ← (cl.sites.filter (·.mob)).mapM (c.index R)
  let spec ← (cl.sites.filter (! ·.mob)).mapM (c.index R)
  pure { mob := mob, spec := spec }

def Cfg.placedOf (c : Cfg) (cl : Cluster) : Except String (List Placed) :=
  (c.rlist cl).mapM (c.place cl)

def Cfg.classPlaced (c : Cfg) (cls : List Cluster) : Except String (List Placed) := do
  let l ← cls.mapM c.placedOf
  pure l.flatten

def placedOn (socc occ : List Int) (p : Placed) : Bool :=
  (p.spec.all fun n => socc.getD n 0 == 1) && mobOn occ p.mob

/-- counts per class from the placements, then the number of cells (`clustercount[-1] = size`). -/
def Cfg.counts (c : Cfg) (pl : List (List Placed)) (occ : List Int) : List Int :=
  pl.map (fun l => ((l.countP (placedOn c.socc occ) : Nat) : Int)) ++ [(c.sp.size : Int)]

def Cfg.allPlaced (c : Cfg) : Except String (List (List Placed)) := c.classes.mapM c.classPlaced

/-- `evalcluster`: the sanity check on the vacancy site, then the counts. -/
def Cfg.evalclusterP (c : Cfg) (pl : List (List Placed)) (occ : List Int) : Except String (List Int) :=
  match c.vac with
  | some v => if occ.getD v 0 == 1 then .error "RuntimeWarning" else .ok (c.counts pl occ)
  | none => .ok (c.counts pl occ)

def Cfg.evalcluster (c : Cfg) (occ : List Int) : Except String (List Int) := do
  let pl ← c.allPlaced
  c.evalclusterP pl occ

def dotRat (vs : List Rat) (cs : List Int) : Rat :=
  ((vs.zip cs).map fun (v, n) => v * (n : Rat)).sum

/-- `expandcluster_matrices`: per class, per (non-skipped) cluster, the rows of mobile indices of
    the placements whose spectator sites are all occupied. -/
def Cfg.matrices (c : Cfg) : Except String (List (List (List (List Nat)))) :=
  c.classes.mapM fun cls => do
    let kept := cls.filter fun cl =>
      match cl.vac with
      | none => true
      | some civ => match c.vac with
        | none => false
        | some v => c.nmob ≠ 0 && civ = (true, v % c.nmob)
    kept.mapM fun cl => do
      let pl ← c.placedOf cl
      pure ((pl.filter fun p => p.spec.all fun n => c.socc.getD n 0 == 1).map (·.mob))

/-- The reading of the matrices used by the tests: a row counts when all its entries are occupied. -/
def matricesCount (mats : List (List (List (List Nat)))) (occ : List Int) : List Int :=
  mats.map fun cls => (((cls.map fun rows => rows.countP (mobOn occ)).sum : Nat) : Int)

/-- The flattened loop nest of `clusterevaluator`: `zip(clusters, values)` → clusters → translations. -/
def termsOf (pl : List (List Placed)) (values : List Rat) : List Term :=
  (pl.zip values).flatMap fun (l, v) => l.map fun p => ({ mob := p.mob, spec := p.spec, val := v } : Term)

def Cfg.terms (c : Cfg) : Except String (List Term) := do
  let pl ← c.allPlaced
  pure (termsOf pl c.values)

def Cfg.nsites (c : Cfg) : Nat := c.nmob * c.sp.size

/-- `E0 = size * values[-1]` when there are more values than classes. -/
def Cfg.E0 (c : Cfg) : Rat :=
  if c.values.length > c.classes.length then (c.sp.size : Rat) * c.values.getLastD 0 else 0

def Cfg.clusterevaluator (c : Cfg) : Except String (List (List Nat) × List Rat) := do
  let ts ← c.terms
  pure (buildTable c.vac c.socc (Tbl.init c.nsites c.E0) ts).finish

/-! ## Part 4 — protocol

  `cfg <S: 9 ints> <nmob> <nspec> <vac|-1> <socc|-> <values> <class> <class> …`
     class   = cluster|cluster|…        (`~` for an empty class)
     cluster = <n | m<k> | s<k>>:site;site;…   (nothing after `:` when no sites are iterated)
     site    = <m|s>,k,x,y,z
  answer: `ok <size> <inverseOK> T=<translist> R=<rveclist> SI=<siteinteract> IA=<interact>`
  `idx <m|s>,k,x,y,z`  → index or `KeyError`
  `E <occ>` → `<dot(values, evalcluster)> <samplerE of the table> <dot(values, matrices count)> | counts`
-/

def parseV3? (l : List Int) : Option V3 :=
  match l with
  | [a, b, c] => some ⟨a, b, c⟩
  | _ => none

def parseSite? (s : String) : Option Site :=
  match s.splitOn "," with
  | [kind, k, x, y, z] => do
      let k ← parseNat? k
      let x ← parseInt? x
      let y ← parseInt? y
      let z ← parseInt? z
      if kind = "m" then some ⟨true, k, ⟨x, y, z⟩⟩
      else if kind = "s" then some ⟨false, k, ⟨x, y, z⟩⟩ else none
  | _ => none

def parseCluster? (s : String) : Option Cluster :=
  match s.splitOn ":" with
  | [flag, sites] => do
      let vac ← (if flag = "n" then some none
                 else if flag.startsWith "m" then (parseNat? (flag.drop 1).toString).map fun k => some (true, k)
                 else if flag.startsWith "s" then (parseNat? (flag.drop 1).toString).map fun k => some (false, k)
                 else none)
      let sl ← (if sites = "" then some [] else (sites.splitOn ";").mapM parseSite?)
      some { sites := sl, vac := vac }
  | _ => none

def parseClass? (s : String) : Option (List Cluster) :=
  if s = "~" then some [] else (s.splitOn "|").mapM parseCluster?

def showV3s (l : List V3) : String :=
  if l.isEmpty then "-" else ";".intercalate (l.map fun v => s!"{v.x},{v.y},{v.z}")

structure St where
  cfg : Option Cfg := none
  tbl : List (List Nat) × List Rat := ([], [])
  mats : List (List (List (List Nat))) := []
  placed : List (List Placed) := []

def parseCfg (ws : List String) : Except String Cfg :=
  match ws with
  | s :: nmob :: nspec :: vac :: socc :: values :: classes => do
      let s9 ← (parseIntList? s).elim (.error "bad S") .ok
      let S ← match s9 with
        | [a, b, c, d, e, f, g, h, i] => pure (⟨⟨a, b, c⟩, ⟨d, e, f⟩, ⟨g, h, i⟩⟩ : M3)
        | _ => .error "bad S"
      let nmob ← (parseNat? nmob).elim (.error "bad nmob") .ok
      let nspec ← (parseNat? nspec).elim (.error "bad nspec") .ok
      let vac ← (parseInt? vac).elim (.error "bad vac") .ok
      let socc ← (parseIntList? socc).elim (.error "bad socc") .ok
      let values ← (parseRatList? values).elim (.error "bad values") .ok
      let classes ← (classes.mapM parseClass?).elim (.error "bad classes") .ok
      let sp ← maketrans S
      pure { sp := sp, nmob := nmob, nspec := nspec, vac := if vac < 0 then none else some vac.toNat,
             socc := socc, values := values, classes := classes }
  | _ => .error "bad cfg"

def handle (st : St) (line : String) : St × String :=
  match toks line with
  | "cfg" :: ws =>
    match parseCfg ws with
    | .error e => ({}, s!"error {e}")
    | .ok c =>
      match c.clusterevaluator, c.matrices, c.allPlaced with
      | .ok tbl, .ok mats, .ok pl =>
        ({ cfg := some c, tbl := tbl, mats := mats, placed := pl },
         s!"ok {c.sp.size} {if c.sp.inverseOK then 1 else 0} T={showV3s c.sp.translist} R={showV3s c.sp.rveclist} SI={showListList tbl.1} IA={showRatList tbl.2} M={"/".intercalate (mats.map fun cls => "+".intercalate (cls.map fun rows => if rows.isEmpty then "0" else showListList rows))}")
      | .error e, _, _ => ({}, s!"error {e}")
      | _, .error e, _ => ({}, s!"error {e}")
      | _, _, .error e => ({}, s!"error {e}")
  | ["idx", s] =>
    match st.cfg, parseSite? s with
    | some c, some site =>
      match c.index ⟨0, 0, 0⟩ site with
      | .ok n => (st, toString n)
      | .error e => (st, e)
    | _, _ => (st, "bad-request")
  | ["E", occ] =>
    match st.cfg, parseIntList? occ with
    | some c, some occ =>
      if occ.length ≠ c.nsites then (st, "error occ-length")
      else match c.evalclusterP st.placed occ with
        | .error e => (st, s!"error {e}")
        | .ok counts =>
          let brute := dotRat c.values counts
          let stOK := occOK c.vac c.nsites occ
          let tblE := if stOK then showRat (samplerE st.tbl.1 st.tbl.2 st.tbl.2.length occ) else "start-error"
          let mc := matricesCount st.mats occ ++ [(c.sp.size : Int)]
          (st, s!"{showRat brute} {tblE} {showRat (dotRat c.values mc)} | {showList counts}")
    | _, _ => (st, "bad-request")
  | _ => (st, "bad-request")

end Onsager.C32
