/-
  C35 — the compiled sampler (onsager/cluster.py: MonteCarloSampler_param, MonteCarloSampler_jit,
  lines 732–983) as an array-based state machine over the same tables as the reference model
  (OnsagerModel/C33.lean).

  State = (occ, clustercount, Nocc, Nunocc, occupied_set, unoccupied_set, index); the scratch arrays
  `dcluster` and `jump_Q` are re-initialised by every call that uses them and are local here.
  `occupied_set[:Nocc]` / `unoccupied_set[:Nunocc]` are the site sets, `index[i]` the position of
  site `i` in its set (-1 for the vacancy).  The compiled code performs no bounds or occupancy
  checks: the model is only meaningful for in-range sites and choice indices (all the harness sends).
-/
import OnsagerModel.C33

namespace Onsager.C35
open Onsager.C33 (Table State bump dEterm qsum lower)

structure JState where
  occ : List Int
  cc : Array Int
  nocc : Nat
  nunocc : Nat
  occset : List Nat
  unoccset : List Nat
  index : List Int
deriving DecidableEq, Repr

/-- the bookkeeping part of the scanning loops of `MonteCarloSampler_param` (initialised branch)
    and `MonteCarloSampler_jit.start`: sites `i, i+1, …` with occupations `os` -/
def scanLoop : Nat → List Int → JState → JState
  | _, [], j => j
  | i, o :: os, j =>
    if o = 1 then
      scanLoop (i + 1) os { j with occset := j.occset.set j.nocc i, index := j.index.set i (j.nocc : Int),
                                   nocc := j.nocc + 1 }
    else if o = 0 then
      scanLoop (i + 1) os { j with unoccset := j.unoccset.set j.nunocc i, index := j.index.set i (j.nunocc : Int),
                                   nunocc := j.nunocc + 1 }
    else
      scanLoop (i + 1) os { j with index := j.index.set i (-1) }

/-- `MonteCarloSampler_jit.start(occ)`: counts are rebuilt from zero exactly like the reference loop
    (`C33.startLoop`), the set arrays keep their stale tails -/
def jstart (T : Table) (j : JState) (occ : List Int) : JState :=
  scanLoop 0 occ { j with occ := occ, cc := C33.startLoop (Array.replicate j.cc.size 0) occ T.rows,
                          nocc := 0, nunocc := 0 }

/-- `MonteCarloSampler_param(MCsampler)` followed by the constructor -/
def param (T : Table) : Option State → JState
  | some s =>
    let n := T.rows.length
    scanLoop 0 s.occ { occ := s.occ, cc := s.cc, nocc := 0, nunocc := 0,
                       occset := List.replicate n 0, unoccset := List.replicate n 0,
                       index := List.replicate s.occ.length 0 }
  | none =>
    let n := T.rows.length
    match T.vacancy with
    | none =>
      { occ := List.replicate n 1, cc := Array.replicate T.value.size 0, nocc := n, nunocc := 0,
        occset := List.range n, unoccset := List.replicate n 0, index := (List.range n).map (fun (i : Nat) => (i : Int)) }
    | some v =>
      -- occupied_set[v:-1] = occupied_set[v+1:]; index[v+1:] = index[v:-1]; index[v] = -1
      { occ := (List.replicate n (1 : Int)).set v (-1), cc := Array.replicate T.value.size 0,
        nocc := n - 1, nunocc := 0,
        occset := (List.range n).map (fun k => if k < v then k else if k + 1 < n then k + 1 else k),
        unoccset := List.replicate n 0,
        index := (List.range n).map (fun (i : Nat) => if i < v then (i : Int) else if i = v then -1 else (i : Int) - 1) }

/-- `E()` : `for n in range(Nenergy): if clustercount[n] == 0: E += interactvalue[n]` -/
def jE (T : Table) (j : JState) : Int :=
  (List.range T.nenergy).foldl (fun E n => if j.cc.getD n 1 = 0 then E + T.value.getD n 0 else E) 0

/-- `for m in range(Ninteract[site]): n = siteinteract[site, m]; if n >= Nenergy: break; dcluster[n] += sgn` -/
def bumpBreak (ne : Nat) (d : Array Int) (sgn : Int) : List Nat → Array Int
  | [] => d
  | n :: rest => if n ≥ ne then d else bumpBreak ne (d.modify n (· + sgn)) sgn rest

/-- `deltaE_trial(occsite, unoccsite)` -/
def jdeltaE (T : Table) (j : JState) (a b : Nat) : Int :=
  let d1 := bumpBreak T.nenergy (Array.replicate T.nenergy 0) 1 (T.rows.getD a [])
  let d2 := bumpBreak T.nenergy d1 (-1) (T.rows.getD b [])
  (List.range T.nenergy).foldl
    (fun dE n => dE + dEterm (j.cc.getD n 0) (d2.getD n 0) (T.value.getD n 0)) 0

/-- `update(occsite, unoccsite)` -/
def jupdate (T : Table) (j : JState) (a b : Nat) : JState :=
  let i := j.index.getD a 0      -- position of occsite in unoccupied_set
  let k := j.index.getD b 0      -- position of unoccsite in occupied_set
  { j with occ := (j.occ.set a 1).set b 0
           cc := bump (bump j.cc (T.rows.getD a []) (-1)) (T.rows.getD b []) 1
           occset := j.occset.set k.toNat a
           unoccset := j.unoccset.set i.toNat b
           index := (j.index.set a k).set b i }

/-- one iteration of the loop of `MCmoves` -/
def mcStep (T : Table) (j : JState) (oc uc : Nat) (kt : Rat) : JState :=
  let a := j.unoccset.getD oc 0
  let b := j.occset.getD uc 0
  if ((jdeltaE T j a b : Int) : Rat) < kt then jupdate T j a b else j

/-- `MCmoves(occchoices, unoccchoices, kTlogu)`: `for i in range(len(occchoices))` indexing the
    other two arrays with `i` -/
def jMCmoves (T : Table) (uc : List Nat) (kt : List Rat) : Nat → List Nat → JState → JState
  | _, [], j => j
  | i, o :: os, j => jMCmoves T uc kt (i + 1) os (mcStep T j o (uc.getD i 0) (kt.getD i 0))

/-- `transitions()`: per jump `(n, i, j, some Q)` or `(n, i, j, none)` for a forbidden jump (`Inf`) -/
def jtransFrom (T : Table) (j : JState) : Nat → List (Nat × Nat) → List (Nat × Nat × Nat × Option Int)
  | _, [] => []
  | n, (i, f) :: js =>
    (n, i, f,
      if j.occ.getD i 9 == -1 || (j.occ.getD i 9 == 1 && j.occ.getD f 9 == 0)
      then some (qsum T j.cc (lower T n) (T.irange.getD n 0)) else none) :: jtransFrom T j (n + 1) js

def jtransitions (T : Table) (j : JState) : List (Nat × Nat × Nat × Option Int) :=
  jtransFrom T j 0 (T.jumps.getD [])

/-- abstraction to the reference state: the two prefixes as site sets -/
def abs (T : Table) (j : JState) : State :=
  { occ := j.occ, cc := j.cc
    occd := (List.range T.rows.length).map fun i => (j.occset.take j.nocc).contains i
    unoccd := (List.range T.rows.length).map fun i => (j.unoccset.take j.nunocc).contains i }

/-! ### line protocol (three-way driver: reference model lines are handled by `C33.handle`) -/

structure Session where
  ref : C33.Session := {}
  jit : JState := { occ := [], cc := #[], nocc := 0, nunocc := 0, occset := [], unoccset := [], index := [] }

def showJ (T : Table) (j : JState) : String :=
  let ck := C33.checksum j.cc
  s!"{jE T j} {j.nocc} {j.nunocc} {showList (j.occset.take j.nocc)} {showList (j.unoccset.take j.nunocc)} {showList j.index} {ck.1} {ck.2}"

def showJTrans (l : List (Nat × Nat × Nat × Option Int)) : String :=
  if l.isEmpty then "-" else ";".intercalate (l.map fun (_, i, f, q) =>
    s!"{i}:{f}:" ++ (match q with | some x => toString x | none => "inf"))

def handle (σ : Session) (line : String) : Session × String :=
  let T := σ.ref.T
  match toks line with
  | ["jparam"] => let j := param T σ.ref.st; ({ σ with jit := j }, showJ T j)
  | ["jstart", occ] =>
    match parseIntList? occ with
    | some occ => let j := jstart T σ.jit occ; ({ σ with jit := j }, showJ T j)
    | none => (σ, "parse-error")
  | ["jobs"] => (σ, showJ T σ.jit)
  | ["jocc"] => (σ, showList σ.jit.occ)
  | ["jcc"] => (σ, showList σ.jit.cc.toList)
  | ["jde", a, b] =>
    match parseNat? a, parseNat? b with
    | some a, some b => (σ, toString (jdeltaE T σ.jit a b))
    | _, _ => (σ, "parse-error")
  | ["jupd", a, b] =>
    match parseNat? a, parseNat? b with
    | some a, some b => let j := jupdate T σ.jit a b; ({ σ with jit := j }, showJ T j)
    | _, _ => (σ, "parse-error")
  | ["jtrans"] => (σ, showJTrans (jtransitions T σ.jit))
  | ["jmc", oc, uc, kt] =>
    match parseNatList? oc, parseNatList? uc, parseRatList? kt with
    | some oc, some uc, some kt =>
      let j := jMCmoves T uc kt 0 oc σ.jit; ({ σ with jit := j }, showJ T j)
    | _, _, _ => (σ, "parse-error")
  | _ =>
    let (r, out) := C33.handle σ.ref line
    ({ σ with ref := r }, out)

end Onsager.C35
