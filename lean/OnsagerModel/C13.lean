/-
  C13 — the codecs used by the HDF5 save / load paths, and an abstract object for the
  "read-set ⊆ write-set" argument.

    onsager/crystalStars.py:187-246   PSlist2array / array2PSlist, doublelist2flatlistindex / flatlistindex2doublelist
    onsager/OnsagerCalc.py:651-686    vTKdict2arrays / arrays2vTKdict
    onsager/OnsagerCalc.py:1066-1091, 1126-1147   jump-network packing  (ij, dx, index)
    onsager/PowerExpansion.py:397-429 Taylor coefficient groups keyed "coeff.{n}.{l}" (h5py iterates names sorted)

  Payloads are polymorphic: the codecs only move them around (float bit patterns are preserved by h5py).
-/
import OnsagerModel.Basic

namespace Onsager.C13

/-! ### list of lists ⇄ flat list + index array -/

/-- `doublelist2flatlistindex` with the running index `i` of `enumerate` -/
def flattenFrom {α} (i : Nat) : List (List α) → List α × List Nat
  | [] => ([], [])
  | l :: r => (l ++ (flattenFrom (i + 1) r).1, List.replicate l.length i ++ (flattenFrom (i + 1) r).2)

def flatten {α} (ll : List (List α)) : List α × List Nat := flattenFrom 0 ll

def listMax? : List Nat → Option Nat
  | [] => none
  | a :: r => match listMax? r with
    | none => some a
    | some m => some (max a m)

/-- `listlist[ind].append(entry)` -/
def appendAt {α} (ll : List (List α)) (p : α × Nat) : List (List α) := ll.modify p.2 (· ++ [p.1])

/-- `flatlistindex2doublelist`: `Nlist = max(indexarray) + 1` (ValueError on an empty index array), then
    `for entry, ind in zip(flatlist, indexarray): listlist[ind].append(entry)` -/
def unflatten {α} (flat : List α) (index : List Nat) : Except String (List (List α)) :=
  match listMax? index with
  | none => .error "max() arg is an empty sequence"
  | some m => .ok ((flat.zip index).foldl appendAt (List.replicate (m + 1) []))

def roundtrip {α} (ll : List (List α)) : Except String (List (List α)) :=
  unflatten (flatten ll).1 (flatten ll).2

/-- the exact precondition of the round trip: there is a last sub-list and it is not empty -/
def FlattenPre {α} (ll : List (List α)) : Prop := ∃ l, ll.getLast? = some l ∧ l ≠ []

def flattenPreB {α} (ll : List (List α)) : Bool :=
  match ll.getLast? with
  | some l => !l.isEmpty
  | none => false

/-! ### pair states -/

structure PS (α : Type) where
  i : Int
  j : Int
  R : List Int
  dx : List α
  deriving DecidableEq, Repr

/-- `PSlist2array`: `dim = len(PSlist[0].R)` (IndexError on an empty list); row assignment needs matching lengths -/
def psList2array {α} (l : List (PS α)) : Except String (List (List Int) × List (List Int) × List (List α)) :=
  match l with
  | [] => .error "list index out of range"
  | p0 :: _ =>
    let dim := p0.R.length
    if l.all (fun p => p.R.length == dim && p.dx.length == dim) then
      .ok (l.map (fun p => [p.i, p.j]), l.map (·.R), l.map (·.dx))
    else .error "could not broadcast"

/-- `array2PSlist` -/
def array2psList {α} (ij : List (List Int)) (R : List (List Int)) (dx : List (List α)) : List (PS α) :=
  (ij.zip (R.zip dx)).map fun (a, r, d) => { i := a.getD 0 0, j := a.getD 1 0, R := r, dx := d }

/-! ### dictionaries keyed by vacancyThermoKinetics -/

structure VTK (α : Type) where
  pre : List α
  betaene : List α
  preT : List α
  betaeneT : List α
  deriving DecidableEq, Repr

def VTK.hstack {α} (k : VTK α) : List α := k.pre ++ k.betaene ++ k.preT ++ k.betaeneT

/-- `np.cumsum([len(v) for v in vTKexample])[:-1]` -/
def VTK.splits {α} (k : VTK α) : List Nat :=
  [k.pre.length, k.pre.length + k.betaene.length, k.pre.length + k.betaene.length + k.preT.length]

/-- `np.hsplit(row, splits)` -/
def hsplitFrom {α} (row : List α) (start : Nat) : List Nat → List (List α)
  | [] => [row.drop start]
  | s :: r => (row.drop start).take (s - start) :: hsplitFrom row s r

def hsplit {α} (row : List α) (splits : List Nat) : List (List α) := hsplitFrom row 0 splits

/-- `vTKdict2arrays`: `None, None, None` for an empty dictionary; rows must have equal lengths (`np.array`) -/
def vtkDict2arrays {α β} (d : List (VTK α × β)) : Option (List (List α) × List β × List Nat) :=
  match d with
  | [] => none
  | (k0, _) :: _ => some (d.map (·.1.hstack), d.map (·.2), k0.splits)

/-- `vacancyThermoKinetics(*np.hsplit(vTKa, vTKsplits))` -/
def rowToVTK {α} (row : List α) (splits : List Nat) : Option (VTK α) :=
  match hsplit row splits with
  | [a, b, c, d] => some { pre := a, betaene := b, preT := c, betaeneT := d }
  | _ => none

/-- `arrays2vTKdict` -/
def arrays2vtkDict {α β} : Option (List (List α) × List β × List Nat) → Option (List (VTK α × β))
  | none => some []
  | some (rows, vals, splits) => (rows.zip vals).mapM fun (r, v) => (rowToVTK r splits).map (·, v)

def VTK.sameShape {α} (a b : VTK α) : Prop :=
  a.pre.length = b.pre.length ∧ a.betaene.length = b.betaene.length ∧ a.preT.length = b.preT.length

/-! ### jump networks -/

abbrev Jump (α : Type) := (Int × Int) × α

def packJN {α} (jn : List (List (Jump α))) : List (Int × Int) × List α × List Nat :=
  let (fl, ix) := flatten jn
  (fl.map (·.1), fl.map (·.2), ix)

def unpackJN {α} (p : List (Int × Int) × List α × List Nat) : Except String (List (List (Jump α))) :=
  unflatten (p.1.zip p.2.1) p.2.2

/-! ### Taylor coefficient groups -/

def coeffKey (n : Int) (l : Nat) : String := s!"coeff.{n}.{l}"

/-- insertion sort by key string = the order in which `HDF5group.items()` yields the datasets -/
def insertByKey {γ} (x : Int × Nat × γ) : List (Int × Nat × γ) → List (Int × Nat × γ)
  | [] => [x]
  | y :: r => if coeffKey x.1 x.2.1 < coeffKey y.1 y.2.1 then x :: y :: r else y :: insertByKey x r

def taylorLoad {γ} : List (Int × Nat × γ) → List (Int × Nat × γ)
  | [] => []
  | x :: r => insertByKey x (taylorLoad r)

/-- what `loadhdf5` returns.  Older source: the datasets in name order.  Source with the `order` attribute
    (`attrs['order'] = position in coefflist`, restored by sorting on it): the saved order; sorting the name-ordered
    entries by their saved position is modelled as the identity on the saved list (checked against h5py by the harness). -/
def taylorLoadSrc {γ} (orderRestored : Bool) (cl : List (Int × Nat × γ)) : List (Int × Nat × γ) :=
  if orderRestored then cl else taylorLoad cl

/-- `addhdf5` can only create each dataset name once -/
def taylorSaveOk {γ} (cl : List (Int × Nat × γ)) : Bool :=
  let keys := cl.map fun x => coeffKey x.1 x.2.1
  keys.eraseDups.length == keys.length

/-! ### abstract objects: attribute ids ↦ values -/

abbrev Obj (V : Type) := Nat → V

/-- save then load: attributes in the write-set `W` go through their codec; every other attribute of the new
    object is whatever the blank constructor left there (`junk`) -/
def saveLoad {V S} (W : List Nat) (enc : Nat → V → S) (dec : Nat → S → V) (junk : Obj V) (o : Obj V) : Obj V :=
  fun a => if a ∈ W then dec a (enc a (o a)) else junk a

/-- run a sequence of calls of a (possibly state-updating, e.g. cache-filling) result method -/
def outputs {V I O} (step : Obj V → I → Obj V × O) : Obj V → List I → List O
  | _, [] => []
  | o, x :: xs => (step o x).2 :: outputs step (step o x).1 xs

/-! ### line protocol (Drive/C13.lean)
  `flat | <listlist>`            → `<flat> | <index>`
  `unflat | <flat> | <index>`    → `ok <listlist>` | `err`
  `rt | <listlist>`              → `<0/1 precondition> <ok listlist | err>`
  `splits | a | b | c | d`       → splits
  `hsplit | <row> | <splits>`    → listlist
  `vtk | k1 ; k2 ; …`  (each key `a/b/c/d`, lists comma separated) → `none` | `rows=<listlist> splits=<list> back=<0/1>`
  `ps | i,j,R..,/dx.. ; …`       → handled as int payloads: `ok ij=<ll> R=<ll> dx=<ll> back=<0/1>` | `err`
  `taylor | <0/1 order attribute> | n:l n:l …`  → `<0/1 save ok> <keys in load order>` -/

def showLL (l : List (List Int)) : String := showListList l

def parseVTK (s : String) : Option (VTK Int) :=
  match (s.splitOn "/").mapM (fun t => parseIntList? t.trimAscii.toString) with
  | some [a, b, c, d] => some { pre := a, betaene := b, preT := c, betaeneT := d }
  | _ => none

def parsePS (s : String) : Option (PS Int) :=
  match s.splitOn "/" with
  | [h, r, d] => do
      let ij ← parseIntList? h.trimAscii.toString
      let R ← parseIntList? r.trimAscii.toString
      let dx ← parseIntList? d.trimAscii.toString
      match ij with
      | [i, j] => some { i := i, j := j, R := R, dx := dx }
      | _ => none
  | _ => none

def handle (line : String) : String :=
  match (line.splitOn " | ").map (·.trimAscii.toString) with
  | ["flat", ll] =>
    match parseIntListList? ll with
    | some l => let (f, ix) := flatten l; s!"{showList f} | {showList ix}"
    | none => "parse-error"
  | ["unflat", f, ix] =>
    match parseIntList? f, parseNatList? ix with
    | some f, some ix =>
      match unflatten f ix with
      | .ok l => s!"ok {showLL l}"
      | .error _ => "err"
    | _, _ => "parse-error"
  | ["rt", ll] =>
    match parseIntListList? ll with
    | some l =>
      let pre := if flattenPreB l then "1" else "0"
      match roundtrip l with
      | .ok r => s!"{pre} ok {showLL r}"
      | .error _ => s!"{pre} err"
    | none => "parse-error"
  | ["hsplit", row, sp] =>
    match parseIntList? row, parseNatList? sp with
    | some r, some s => showLL (hsplit r s)
    | _, _ => "parse-error"
  | ["vtk", ks] =>
    if ks = "-" then
      (match arrays2vtkDict (vtkDict2arrays ([] : List (VTK Int × Nat))) with
       | some [] => "none back=1" | _ => "none back=0")
    else
    match (ks.splitOn ";").mapM (fun k => parseVTK k.trimAscii.toString) with
    | some keys =>
      let d := keys.zipIdx
      match vtkDict2arrays d with
      | none => "none"
      | some (rows, vals, sp) =>
        let back := match arrays2vtkDict (some (rows, vals, sp)) with
          | some d' => if d' = d then "1" else "0"
          | none => "0"
        s!"rows={showLL rows} splits={showList sp} back={back}"
    | none => "parse-error"
  | ["ps", ps] =>
    if ps = "-" then (match psList2array ([] : List (PS Int)) with | .ok _ => "ok" | .error _ => "err") else
    match (ps.splitOn ";").mapM (fun k => parsePS k.trimAscii.toString) with
    | some l =>
      match psList2array l with
      | .error _ => "err"
      | .ok (ij, R, dx) =>
        let back := if array2psList ij R dx = l then "1" else "0"
        s!"ok ij={showLL ij} R={showLL R} dx={showLL dx} back={back}"
    | none => "parse-error"
  | ["taylor", md, ks] =>
    let parsed := (toks ks).mapM fun t =>
      match t.splitOn ":" with
      | [n, l] => do some ((← parseInt? n), (← parseNat? l), ())
      | _ => none
    match parsed with
    | some cl =>
      let ok := if taylorSaveOk cl then "1" else "0"
      s!"{ok} " ++ " ".intercalate ((taylorLoadSrc (md = "1") cl).map fun x => s!"{x.1}:{x.2.1}")
    | none => "parse-error"
  | _ => "parse-error"

end Onsager.C13
