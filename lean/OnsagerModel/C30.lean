/-
  C30 — automation tarballs (onsager/automator.py: supercelltar, map2string; onsager/trans.pl).

  * directory naming: `statename + '{:02d}'.format(n)` / `transitionname + '{:02d}'.format(n)` over the
    enumerated sorted tags (`dirNames`); characters are kept as `List Char`;
  * `map2string`: the chemistry-by-chemistry mapping flattened with cumulative index shifts (`flatMapping`);
  * `trans.pl`: every output position is `wrap(R·u + t)` of the input position picked by the flat mapping,
    with Perl's two one-sided wraps, in exact rational arithmetic (`transpl`).
-/
import OnsagerModel.Basic

namespace Onsager.C30

/-! ### `'{:02d}'.format(n)` -/

/-- Decimal digits of `n`, most significant first (`str(n)`). -/
def decDigits (n : Nat) : List Nat :=
  if h : n < 10 then [n] else decDigits (n / 10) ++ [n % 10]
decreasing_by omega

/-- `'{:02d}'.format(n)` as digits: zero-padded to width 2. -/
def fmt02 (n : Nat) : List Nat := if n < 10 then [0, n] else decDigits n

def digitChar (d : Nat) : Char := Char.ofNat (48 + d)

def fmt02Chars (n : Nat) : List Char := (fmt02 n).map digitChar

/-- Reading a digit string back (`int(s)`). -/
def fromDigits (l : List Nat) : Nat := l.foldl (fun acc d => 10 * acc + d) 0

def dirName (pref : List Char) (n : Nat) : List Char := pref ++ fmt02Chars n

/-- `{k: name + IDformat.format(n) for n, k in enumerate(sorted_keys)}`: the directory names, in order. -/
def dirNames (pref : List Char) (count : Nat) : List (List Char) := (List.range count).map (dirName pref)

/-- All directories of the archive: states first, then transitions. -/
def allDirs (statename transitionname : List Char) (nstates ntrans : Nat) : List (List Char) :=
  dirNames statename nstates ++ dirNames transitionname ntrans

/-! ### `map2string` -/

/-- `[m + shift for remap, shift in zip(mapping, indexshift) for m in remap]` with
    `indexshift = [0] + accumulate(len(remap))`. -/
def flatMapping : List (List Nat) → Nat → List Nat
  | [], _ => []
  | r :: rs, shift => r.map (· + shift) ++ flatMapping rs (shift + r.length)

/-! ### `trans.pl` -/

/-- Perl: `if ($u >= 1.0) { $u -= 1.0; } if ($u < 0.0) { $u += 1.0; }`. -/
def wrap1 (x : Rat) : Rat :=
  let y := if 1 ≤ x then x - 1 else x
  if y < 0 then y + 1 else y

def ratDot (row : List Int) (x : List Rat) : Rat :=
  (List.zipWith (fun (r : Int) (t : Rat) => (r : Rat) * t) row x).foldl (· + ·) 0

/-- `grot`: one transformed, wrapped position. -/
def grot (R : List (List Int)) (t : List Rat) (p : List Rat) : List Rat :=
  List.zipWith (fun row ti => wrap1 (ratDot row p + ti)) R t

/-- The position block written by `trans.pl`: `for $i (@mapping) { grot(@{$pos[$i]}) }`. -/
def transpl (R : List (List Int)) (t : List Rat) (mapping : List Nat) (pos : List (List Rat)) : List (List Rat) :=
  mapping.map fun i => grot R t (pos.getD i [])

end Onsager.C30
