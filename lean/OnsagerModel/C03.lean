/-
  C03 — decidable hypothesis of crystal invariance for the exact interstitial model:
  a site permutation `perm` carries the network projected on `u` onto the network projected on `u'`.
-/
import OnsagerModel.C02

namespace Onsager.C03
open Onsager.C02 Onsager.Var

def permFun (n : Nat) (perm : List Nat) : Fin n → Fin n :=
  fun i => if h : perm.getD i.val 0 < n then ⟨perm.getD i.val 0, h⟩ else i

def invcheck (inp : Input) (u u' : List ℚ) (perm : List Nat) : Bool :=
  match network inp u u, network inp u' u' with
  | some l, some l' =>
    perm.isPerm (List.range inp.n) && (l.map (Jump.relabel (permFun inp.n perm))).isPerm l'
  | _, _ => false

end Onsager.C03
