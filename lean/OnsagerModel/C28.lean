/-
  C28 — Supercell occupancy bookkeeping (onsager/supercell.py: setocc, __setitem__,
  fillperiodic, __imul__/__mul__, reorder, copy, POSCAR / POSCAR_occ, __sane__).

  State of one supercell = (occ, chemorder).  `occ[i] ∈ {-1 (vacant), 0 … nchem-1}`;
  `chemorder[c]` is the presentation order of the sites holding species `c`.
  Mutation through `self` becomes a function returning the new cell; Python exceptions
  become `Except Err`.
-/
import OnsagerModel.Basic

namespace Onsager.C28

inductive Err
  | index   -- IndexError
  | value   -- ValueError
deriving Repr, DecidableEq

structure Cell where
  nchem : Nat
  occ : List Int
  chemorder : List (List Nat)
deriving Repr, DecidableEq

def Cell.empty (nchem nsites : Nat) : Cell :=
  { nchem := nchem, occ := List.replicate nsites (-1), chemorder := List.replicate nchem [] }

/-- `setocc` with the admissible species range `[lo, hi]` as a parameter
    (the source's guard is `c < lo' or c > hi'`; see Generated/C28Facts.lean). -/
def setoccG (lo hi : Int) (s : Cell) (ind : Nat) (c : Int) : Except Err Cell :=
  if c < lo ∨ c > hi then .error .index
  else match s.occ[ind]? with
    | none => .error .index
    | some corig =>
      if corig = c then .ok s
      else
        -- `co.pop(co.index(ind))`: ValueError when absent
        if 0 ≤ corig ∧ ¬ (ind ∈ s.chemorder.getD corig.toNat []) then .error .value
        else
          let co1 := if 0 ≤ corig then s.chemorder.modify corig.toNat (·.erase ind) else s.chemorder
          let co2 := if 0 ≤ c then co1.modify c.toNat (· ++ [ind]) else co1
          .ok { s with occ := s.occ.set ind c, chemorder := co2 }

/-- The specification's `setocc`: every declared species from vacancy (-1) to the last solute
    (`nchem-1`) can be placed, anything else is rejected. -/
def setocc (s : Cell) (ind : Nat) (c : Int) : Except Err Cell :=
  setoccG (-1) ((s.nchem : Int) - 1) s ind c

/-- Sequential `setocc` over a list of sites (fillperiodic; the body of POSCAR_occ). -/
def setoccMany (s : Cell) : List (Nat × Int) → Except Err Cell
  | [] => .ok s
  | (i, c) :: rest => do
      let s' ← setocc s i c
      setoccMany s' rest

def fill (s : Cell) (c : Int) (idxs : List Nat) : Except Err Cell :=
  setoccMany s (idxs.map fun i => (i, c))

/-- `__imul__`: `gocc[indexmap[i]] = occ[i]`, chemorder mapped through `indexmap`. -/
def imul (s : Cell) (indexmap : List Nat) : Cell :=
  let n := s.occ.length
  let gocc := (List.range n).foldl
      (fun (acc : List Int) i => acc.set (indexmap.getD i 0) (s.occ.getD i (-1))) s.occ
  { s with occ := gocc, chemorder := s.chemorder.map (·.map fun i => indexmap.getD i 0) }

/-- `__sane__` exactly as written in the source. -/
def saneB (s : Cell) : Bool :=
  let inLists := (List.range s.chemorder.length).all fun c =>
    (s.chemorder.getD c []).all fun ind => s.occ[ind]? == some (c : Int)
  let occset := s.chemorder.flatten
  let rest := (List.range s.occ.length).all fun ind =>
    occset.contains ind || s.occ[ind]? == some (-1)
  inLists && rest

/-- `reorder` as it was before the guard on `len(mapping)` (repo 69f613b, finding F41):
    `new[c][i] = old[c][mapping[c][i]]`, zip-truncated like the old source, rolled back with
    ValueError when the result is not sane; IndexError for an out-of-range entry.  Kept to state
    why the guard is needed (OnsagerProofs/C28More.lean: `reorderZip_truncates`). -/
def reorderZip (s : Cell) (mapping : List (List Nat)) : Except Err Cell :=
  let pairs := s.chemorder.zip mapping
  let ok := pairs.all fun (clist, cmap) =>
    (List.range clist.length).all fun i =>
      match cmap[i]? with
      | none => false
      | some j => j < clist.length
  if ¬ ok then .error .index
  else
    let neworder := pairs.map fun (clist, cmap) =>
      (List.range clist.length).map fun i => clist.getD (cmap.getD i 0) 0
    let s' := { s with chemorder := neworder }
    if saneB s' then .ok s' else .error .value

/-- `reorder`: ValueError unless there is exactly one map per chemistry (the guard runs first),
    then as `reorderZip`. -/
def reorder (s : Cell) (mapping : List (List Nat)) : Except Err Cell :=
  if mapping.length ≠ s.chemorder.length then .error .value
  else reorderZip s mapping

/-- Abstract POSCAR content: for each species the list of occupied sites, in order. -/
def poscar (s : Cell) : List (List Nat) := s.chemorder

/-- `POSCAR_occ` with EMPTY_SUPER: empty every site, then occupy species by species. -/
def poscarOcc (s : Cell) (p : List (List Nat)) : Except Err Cell := do
  let s0 ← setoccMany s ((List.range s.occ.length).map fun i => (i, (-1 : Int)))
  let entries := (List.zip (List.range p.length) p).flatMap fun (c, l) => l.map fun i => (i, (c : Int))
  setoccMany s0 entries

/-! ### Operation language (line protocol) -/

inductive Op
  | setocc (slot ind : Nat) (c : Int)
  | fill (slot : Nat) (c : Int) (idxs : List Nat)
  | imul (slot : Nat) (indexmap : List Nat)
  | mul (src dst : Nat) (indexmap : List Nat)
  | reorder (slot : Nat) (mapping : List (List Nat))
  | copy (src dst : Nat)
  | poscar (src dst : Nat)
deriving Repr

abbrev Store := List Cell

def applyOp (st : Store) : Op → Except Err Store
  | .setocc k i c => do
      let s ← (st[k]?).elim (.error .index) .ok
      let s' ← setocc s i c
      pure (st.set k s')
  | .fill k c idxs => do
      let s ← (st[k]?).elim (.error .index) .ok
      -- fillperiodic is not atomic: sites before the failing one stay set
      let s' ← fill s c idxs
      pure (st.set k s')
  | .imul k m => do
      let s ← (st[k]?).elim (.error .index) .ok
      pure (st.set k (imul s m))
  | .mul a b m => do
      let s ← (st[a]?).elim (.error .index) .ok
      pure (st.set b (imul s m))
  | .reorder k mp => do
      let s ← (st[k]?).elim (.error .index) .ok
      let s' ← reorder s mp
      pure (st.set k s')
  | .copy a b => do
      let s ← (st[a]?).elim (.error .index) .ok
      pure (st.set b s)
  | .poscar a b => do
      let s ← (st[a]?).elim (.error .index) .ok
      let t ← (st[b]?).elim (.error .index) .ok
      let t' ← poscarOcc t (poscar s)
      pure (st.set b t')

/-- A failing op leaves the store unchanged (all modelled ops with a valid species are atomic
    in the source: the guards run before any mutation). -/
def step (st : Store) (op : Op) : Store × Option Err :=
  match applyOp st op with
  | .ok st' => (st', none)
  | .error e => (st, some e)

def run (st : Store) (ops : List Op) : Store := ops.foldl (fun s o => (step s o).1) st

/-! ### Protocol -/

def parseOp (ws : List String) : Option Op :=
  match ws with
  | ["setocc", k, i, c] => do pure (.setocc (← parseNat? k) (← parseNat? i) (← parseInt? c))
  | ["fill", k, c, idxs] => do pure (.fill (← parseNat? k) (← parseInt? c) (← parseNatList? idxs))
  | ["imul", k, m] => do pure (.imul (← parseNat? k) (← parseNatList? m))
  | ["mul", a, b, m] => do pure (.mul (← parseNat? a) (← parseNat? b) (← parseNatList? m))
  | ["reorder", k, mp] => do pure (.reorder (← parseNat? k) (← parseNatListList? mp))
  | ["copy", a, b] => do pure (.copy (← parseNat? a) (← parseNat? b))
  | ["poscar", a, b] => do pure (.poscar (← parseNat? a) (← parseNat? b))
  | _ => none

def showCell (s : Cell) : String :=
  s!"{showList s.occ} {showListList s.chemorder} {if saneB s then 1 else 0}"

def showStore (st : Store) : String := " | ".intercalate (st.map showCell)

def showErr : Option Err → String
  | none => "ok"
  | some .index => "index-error"
  | some .value => "value-error"

/-- `init nsites nchem nslots` starts a session; every other line is an op.
    Answer: `<status> | cell0 | cell1 …`. -/
def handle (st : Store) (line : String) : Store × String :=
  match toks line with
  | ["init", n, k, m] =>
    match parseNat? n, parseNat? k, parseNat? m with
    | some n, some k, some m =>
      let st' := List.replicate m (Cell.empty k n)
      (st', s!"ok | {showStore st'}")
    | _, _, _ => (st, "bad-op")
  | ws =>
    match parseOp ws with
    | none => (st, "bad-op")
    | some op =>
      let (st', e) := step st op
      (st', s!"{showErr e} | {showStore st'}")

end Onsager.C28
