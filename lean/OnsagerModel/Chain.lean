/-
  Generic finite reversible chain with two displacement fields per transition
  (solute displacement `ds`, vacancy displacement `dv`), exact over ℚ.
  Used by C01/C06: the periodic one-solute / one-vacancy chain on an n×n(×n) supercell is shipped
  by the harness transition by transition (rational weights r = p_x w_xy) and its transport
  coefficients are evaluated exactly:

      L^{ab}_{αβ} = ½ Σ_t r_t d^a_{t,α} d^b_{t,β} − Σ_x ξ^{a,α}_x B^{b,β}_x ,   W ξ^{a,α} = −B^{a,α}

  `solve` (OnsagerModel/C02.lean) certifies each stationary point by an exact check.
-/
import OnsagerModel.C02

namespace Onsager.Chain
open Onsager Onsager.C02 Onsager.Var

structure Trans where
  x : Nat
  y : Nat
  r : ℚ
  ds : List ℚ
  dv : List ℚ

structure Input where
  n : Nat
  dim : Nat
  trans : List Trans

/-- project: field `d` = component `α` of displacement kind `a`, field `e` = component `β` of kind `b`
    (kind 0 = solute, 1 = vacancy) -/
def mk (inp : Input) (a b α β : Nat) (t : Trans) : Option (Jump (Fin inp.n) ℚ) :=
  if hx : t.x < inp.n then
    if hy : t.y < inp.n then
      some { src := ⟨t.x, hx⟩, dst := ⟨t.y, hy⟩, r := t.r,
             d := (if a = 0 then t.ds else t.dv).getD α 0,
             e := (if b = 0 then t.ds else t.dv).getD β 0 }
    else none
  else none

def network (inp : Input) (a b α β : Nat) : Option (List (Jump (Fin inp.n) ℚ)) :=
  inp.trans.mapM (mk inp a b α β)

/-- bilinear transport form of a projected network at a certified stationary point; `cand` is a
    candidate solution (an external certificate or the model's own elimination) -/
def formOfC {n : Nat} (l : List (Jump (Fin n) ℚ)) (cand : Fin n → ℚ) : Option ℚ := do
  let ξ ← certify n l cand
  pure ((l.map fun a => a.r * a.d * a.e).sum / 2 - ∑ i, ξ i * B (l.map Jump.swap) i)

def formOf {n : Nat} (l : List (Jump (Fin n) ℚ)) : Option ℚ := formOfC l (candidate n l)

/-- certificates: for displacement kind `a` and component `α`, entry `a * dim + α` -/
def certFun (n : Nat) (cert : List (List ℚ)) (k : Nat) : Fin n → ℚ :=
  fun i => (cert.getD k []).getD i.val 0

def coeff (inp : Input) (cert : Option (List (List ℚ))) (a b α β : Nat) : Option ℚ := do
  let l ← network inp a b α β
  match cert with
  | some c => formOfC l (certFun inp.n c (a * inp.dim + α))
  | none => formOf l

def tensor (inp : Input) (cert : Option (List (List ℚ))) (a b : Nat) : Option (List ℚ) :=
  ((List.range inp.dim).flatMap fun α => (List.range inp.dim).map fun β => (α, β)).mapM
    fun (α, β) => coeff inp cert a b α β

/-! protocol:  `n dim | x,y,r,ds0,..,dv0,..:… [| cert;cert;…]`   →   `ok Lss… | Lsv… | Lvv…`
    (`cert` k = a*dim+α: comma separated candidate solution for kind a, component α) -/

def parseTrans (dim : Nat) (s : String) : Option Trans :=
  match s.splitOn "," with
  | x :: y :: r :: rest => do
      let x ← parseNat? x
      let y ← parseNat? y
      let r ← parseRat? r
      let v ← rest.mapM parseRat?
      if v.length = 2 * dim then some { x, y, r, ds := v.take dim, dv := v.drop dim } else none
  | _ => none

def parseInput (line : String) : Option (Input × Option (List (List ℚ))) :=
  match (line.splitOn "|").map (·.trimAscii.toString) with
  | hd :: body :: rest =>
    match toks hd with
    | [n, dim] => do
      let n ← parseNat? n
      let dim ← parseNat? dim
      let trans ← (body.splitOn ":").mapM (parseTrans dim)
      match rest with
      | [] => some ({ n, dim, trans }, none)
      | [c] => do
        let cert ← (c.splitOn ";").mapM parseRatList?
        some ({ n, dim, trans }, some cert)
      | _ => none
    | _ => none
  | _ => none

def handle (line : String) : String :=
  match parseInput line with
  | none => "bad-request"
  | some (inp, cert) =>
    match tensor inp cert 0 0, tensor inp cert 0 1, tensor inp cert 1 1 with
    | some ss, some sv, some vv => s!"ok {showRatList ss} | {showRatList sv} | {showRatList vv}"
    | _, _, _ => "invalid"

end Onsager.Chain
