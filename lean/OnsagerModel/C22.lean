/-
  C22 — k-point meshes in reciprocal-lattice coordinates.  A k-point is `k = B·q` with `q ∈ ℚ^d`
  (B the reciprocal basis), a reciprocal lattice vector is `G = B·n`, `n ∈ ℤ^d`; all scalar
  products are `(2π)²·xᵀ h y` with the rational reciprocal metric `h = g⁻¹`, so Brillouin-zone
  membership and symmetry reduction are exact.  A space-group operation with integer rotation `rot`
  acts on `q` by the integer matrix `rot⁻ᵀ`.

  * `inBZ`        verified checker: `q` is at least as close to 0 as to every reciprocal lattice
                  point, by complete enumeration in the dual box for the radius `2|q|`
  * `reduceMesh`  the reduction loop of `Crystal.reducekptmesh` (matching against the images of the
                  stored representatives, weights as counts)

  Core Lean only; geometry from OnsagerModel/C21.lean.
-/
import OnsagerModel.C21

namespace Onsager.C22
open Onsager.Geom

variable {d : Nat}

structure KCrystal (d : Nat) where
  g : QM d                 -- direct metric = inverse of the reciprocal metric
  h : QM d                 -- reciprocal metric (up to (2π)²)
  ldlM : QM d              -- PSD certificate of `h`
  ldlD : QV d
  ops : List (ZM d)        -- `rot⁻ᵀ` of every space-group operation

/-- `2 q·G ≤ G·G` : `q` is not closer to the lattice point `n` than to the origin -/
def closerTo0 (h : QM d) (q : QV d) (n : ZV d) : Bool :=
  decide (2 * qform h q (zq n) ≤ norm2 h (zq n))

/-- complete candidate box for lattice points that could be closer to `q` than the origin:
    `|G|² < 5|q|²` (anything beyond `4|q|²` is decided by Cauchy–Schwarz), dual box of the reciprocal lattice (whose inverse metric is `g`) -/
def bzBox (g h : QM d) (q : QV d) : Box d := boxB 2 g (5 * norm2 h q)

/-- Brillouin-zone membership (closed zone) -/
def inBZ (g h : QM d) (q : QV d) : Bool := (boxVecs (bzBox g h q)).all (closerTo0 h q)

/-- how far outside: max over lattice points of `2 q·G / G·G` (1 = on the boundary) -/
def bzExcess (g h : QM d) (q : QV d) : Rat :=
  (boxVecs (bzBox g h q)).foldl (fun m n =>
    let nn := norm2 h (zq n)
    if nn = 0 then m else
      let x := 2 * qform h q (zq n) / nn
      if m < x then x else m) 0

def actQ (R : ZM d) (q : QV d) : QV d := zqmulVec R q

/-- `k` is an image of the representative `r` -/
def isImage (ops : List (ZM d)) (r k : QV d) : Bool := ops.any fun R => decide (actQ R r = k)

/-- one pass of the loop body of `reducekptmesh` (generic in the matching relation) -/
def reduceStep {α : Type} (m : α → α → Bool) (acc : List (α × Nat)) (k : α) : List (α × Nat) :=
  if acc.any (fun e => m e.1 k) then acc.map fun e => if m e.1 k then (e.1, e.2 + 1) else e
  else acc ++ [(k, 1)]

def reduceGen {α : Type} (m : α → α → Bool) (pts : List α) : List (α × Nat) := pts.foldl (reduceStep m) []

def reduceMesh (ops : List (ZM d)) (pts : List (QV d)) : List (QV d × Nat) := reduceGen (isImage ops) pts

/-- the matrices form a group: closed under products, identity, inverses -/
def matGroupCheck (ops : List (ZM d)) : Bool :=
  (ops.all fun A => ops.all fun B => ops.any fun C => decide (C = zmul A B)) &&
  (ops.any fun E => decide (E = C21.oneZ)) &&
  (ops.all fun A => ops.any fun B => decide (zmul B A = C21.oneZ))

def KCrystal.valid (cr : KCrystal d) : Bool :=
  isSymm cr.h && isInverse cr.h cr.g && psdCert cr.h cr.ldlM cr.ldlD &&
  cr.ops.all fun R => decide (congr cr.h R = cr.h)

/-! ### driver -/

def parsePts (d : Nat) (s : String) : Option (List (QV d)) :=
  (s.splitOn ";").mapM fun t => do
    let l ← parseRatList? t
    if l.length = d then some (ofListQ l) else none

def parseKCrystal (d : Nat) (fields : List String) : Option (KCrystal d) :=
  match fields with
  | [gs, hs, ms, ds, os] => do
      let g ← C21.parseQM d gs
      let h ← C21.parseQM d hs
      let m ← C21.parseQM d ms
      let dl ← parseRatList? ds
      let ops ← (os.splitOn "#").mapM fun t => do
        let ll ← parseIntListList? t
        if ll.length = d ∧ ll.all (·.length = d) then some (ofListZM (d := d) ll) else none
      if dl.length = d then some { g := g, h := h, ldlM := m, ldlD := ofListQ dl, ops := ops } else none
  | _ => none

def b2s (b : Bool) : String := if b then "1" else "0"

def showQV (v : QV d) : String := ",".intercalate (v.toList.map showRat)

def answer (cr : KCrystal d) (cmd : String) (args : List String) : String :=
  match cmd, args with
  | "bz", [ps] =>
    match parsePts d ps with
    | some pts => "ok " ++ String.join (pts.map fun q => b2s (inBZ cr.g cr.h q))
    | none => "bad-args"
  | "bzx", [ps] =>   -- excess of every point, as integer parts per million
    match parsePts d ps with
    | some pts => "ok " ++ ",".intercalate (pts.map fun q => toString ((bzExcess cr.g cr.h q * 1000000).floor))
    | none => "bad-args"
  | "red", [ps] =>
    match parsePts d ps with
    | some pts =>
      "ok " ++ ";".intercalate ((reduceMesh cr.ops pts).map fun e => s!"{showQV e.1}:{e.2}")
    | none => "bad-args"
  | _, _ => "bad-request"

inductive St where
  | none
  | c2 (cr : KCrystal 2)
  | c3 (cr : KCrystal 3)

def handle (st : St) (line : String) : St × String :=
  let fs := C21.fieldsOf line
  match fs with
  | [] => (st, "bad-request")
  | hd :: rest =>
    match toks hd with
    | ["kcrys", "2"] =>
      match parseKCrystal 2 rest with
      | some cr => (.c2 cr, s!"ok valid={b2s cr.valid} group={b2s (matGroupCheck cr.ops)}")
      | none => (.none, "bad-crystal")
    | ["kcrys", "3"] =>
      match parseKCrystal 3 rest with
      | some cr => (.c3 cr, s!"ok valid={b2s cr.valid} group={b2s (matGroupCheck cr.ops)}")
      | none => (.none, "bad-crystal")
    | cmd :: args =>
      match st with
      | .none => (st, "no-crystal")
      | .c2 cr => (st, answer cr cmd (args ++ rest))
      | .c3 cr => (st, answer cr cmd (args ++ rest))
    | [] => (st, "bad-request")

end Onsager.C22
