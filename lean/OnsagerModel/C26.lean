/-
  C26 — solute–vacancy jump networks (onsager/crystalStars.py: StarSet.jumpnetwork_omega1,
  jumpnetwork_omega2, symmequivjumplist; onsager/OnsagerCalc.py: the pruning in
  VacancyMediated.generate).

  Built on the exact pair-state model of C24.  The implementation works with *indices* into
  `states`; since the states are distinct an index is identified with the state itself, and
  `stateindex(...)` returning `None` becomes `none : Option PS` (Python compares `None == None`
  as equal, and so does `Option` equality).  A jump entry `((i, f), dx)` becomes `(a, b, dx)` with
  `dx` a rational vector in lattice coordinates (`g_direc` is `rot·dx` there).
-/
import OnsagerModel.C24

namespace Onsager.C26
open Onsager.C24

structure JEntry where
  a : Option PS
  b : Option PS
  dx : QVec
deriving DecidableEq, Repr

/-- `self.stateindex(PS)` -/
def lookup (S : List PS) (s : PS) : Option PS := if S.contains s then some s else none

/-- `any(gi == i0 and gf == f0 for (i0, f0), dx in symmjumplist)` -/
def hasPair (l : List JEntry) (a b : Option PS) : Bool := l.any fun e => e.a == a && e.b == b

/-- one group op of `symmequivjumplist` -/
def symmStep (S : List PS) (PSi PSf : PS) (dx : QVec) (acc : List JEntry) (g : Op) : List JEntry :=
  let gi := lookup S (act g PSi)
  let gf := lookup S (act g PSf)
  let gdx := g.rot.mulQ dx
  if hasPair acc gi gf then acc
  else if gi ≠ gf then acc ++ [⟨gi, gf, gdx⟩, ⟨gf, gi, -gdx⟩]
  else acc ++ [⟨gi, gf, gdx⟩]

/-- `symmequivjumplist(i, f, dx)` -/
def symmEquiv (G : List Op) (S : List PS) (PSi PSf : PS) (dx : QVec) : List JEntry :=
  let init : List JEntry :=
    if PSi ≠ PSf then [⟨some PSi, some PSf, dx⟩, ⟨some PSf, some PSi, -dx⟩] else [⟨some PSi, some PSf, dx⟩]
  G.foldl (symmStep S PSi PSf dx) init

/-- one symmetry-unique class: original jump type, the generating pair (its stars are the
    `starpair`), and the list of equivalent jumps -/
structure JClass where
  jt : Nat
  i : PS
  f : PS
  entries : List JEntry
deriving Repr

/-- `any(any(i == i0 and f == f0 …) for jlist in jumpnetwork)` -/
def netHas (net : List JClass) (a b : Option PS) : Bool := net.any fun c => hasPair c.entries a b

/-- body of the innermost loop of `jumpnetwork_omega1` for one `(jt, jump, PSi)` -/
def om1Step (C : Crys) (G : List Op) (S : List PS) (jt : Nat) (jump : PS) (net : List JClass) (PSi : PS) :
    List JClass :=
  if PSi.isZero then net
  else match PSi.add jump with
    | none => net
    | some PSf =>
      if PSf.isZero then net
      else match lookup S PSf with
        | none => net
        | some _ =>
          if netHas net (some PSi) (some PSf) then net
          else net ++ [⟨jt, PSi, PSf, symmEquiv G S PSi PSf (dxOf C PSf - dxOf C PSi)⟩]

/-- enumerate(jumpnetwork_index) × jumps × states, in the source's loop order -/
def loopNet (stepf : Nat → PS → List JClass → PS → List JClass) (Jcls : List (List PS)) (S : List PS) :
    List JClass :=
  (Jcls.zipIdx).foldl (fun net (cj : List PS × Nat) =>
    cj.1.foldl (fun net jump => S.foldl (stepf cj.2 jump) net) net) []

/-- `jumpnetwork_omega1()` for a star set with `Nshells ≥ 1` and state list `S` -/
def omega1 (C : Crys) (G : List Op) (Jcls : List (List PS)) (S : List PS) : List JClass :=
  loopNet (om1Step C G S) Jcls S

/-- body of the innermost loop of `jumpnetwork_omega2`.  `PSi + jump` is zero iff
    `jump = −PSi`; the jump list is part of the state set whenever `Nshells ≥ 1`, so
    `stateindex(−PSi)` is never `None` there and the exchange partner is `−PSi` itself. -/
def om2Step (C : Crys) (G : List Op) (S : List PS) (jt : Nat) (jump : PS) (net : List JClass) (PSi : PS) :
    List JClass :=
  if PSi.isZero then net
  else match PSi.add jump with
    | none => net
    | some PSf =>
      if !PSf.isZero then net
      else
        if netHas net (some PSi) (lookup S PSi.neg) then net
        else net ++ [⟨jt, PSi, PSi.neg, symmEquiv G S PSi PSi.neg (-(dxOf C PSi))⟩]

def omega2 (C : Crys) (G : List Op) (Jcls : List (List PS)) (S : List PS) : List JClass :=
  loopNet (om2Step C G S) Jcls S

/-- first state of the star holding `s` is missing from the thermodynamic set
    (`SP[k] in self.outerkin`) -/
def isOuter (thermo : List PS) (kinStars : List (List PS)) (s : PS) : Bool :=
  match kinStars.find? (·.contains s) with
  | some (r :: _) => !thermo.contains r
  | _ => false

/-- the pruning loop of `VacancyMediated.generate`: drop the classes whose star pair lies
    entirely in `outerkin` -/
def prune (thermo : List PS) (kinStars : List (List PS)) (net : List JClass) : List JClass :=
  net.filter fun c => !(isOuter thermo kinStars c.i && isOuter thermo kinStars c.f)

structure VMNets where
  thermo : StarSet
  kinetic : StarSet
  om1 : List JClass
  om2 : List JClass

/-- the star sets and networks built by `VacancyMediated.generate(Nthermo)` -/
def vmGenerate (C : Crys) (G : List Op) (thr : Rat) (Jcls : List (List PS)) (Nthermo : Nat) : VMNets :=
  let J := Jcls.flatten
  let thermo := generate C G thr J Nthermo false
  let kinetic := generate C G thr J (Nthermo + 1) true
  { thermo := thermo, kinetic := kinetic
    om1 := prune thermo.states kinetic.stars (omega1 C G Jcls kinetic.states)
    om2 := omega2 C G Jcls kinetic.states }

/-! ### protocol -/

def showOPS : Option PS → String
  | some s => showPS s
  | none => "N"

def showEntry (e : JEntry) : String := s!"{showOPS e.a}>{showOPS e.b}@{showQVec e.dx}"

/-- `jt:i>f:entry;entry;…` -/
def showClass (c : JClass) : String :=
  s!"{c.jt}:{showPS c.i}>{showPS c.f}:{";".intercalate (c.entries.map showEntry)}"

def showNet (n : List JClass) : String := if n.isEmpty then "-" else "|".intercalate (n.map showClass)

/-- Requests (after `crys …` and `net …` as in C24)
    * `om <N> <origin01>` → `ok <om1 net> <om2 net>` for `StarSet(N, originstates)` (unpruned)
    * `vm <Nthermo>` → `ok <thermo states> <kinetic states> <om1 pruned> <om2>` -/
def handle (σ : Session) (line : String) : Session × String :=
  match toks line with
  | ["om", n, o] =>
    match parseNat? n, parseNat? o with
    | some n, some o =>
      if n < 1 then (σ, "ok - -")
      else
        let S := generate σ.C σ.G σ.thr σ.J n (o != 0)
        (σ, s!"ok {showNet (omega1 σ.C σ.G σ.Jcls S.states)} {showNet (omega2 σ.C σ.G σ.Jcls S.states)}")
    | _, _ => (σ, "bad-request")
  | ["vm", n] =>
    match parseNat? n with
    | some n =>
      let V := vmGenerate σ.C σ.G σ.thr σ.Jcls n
      (σ, s!"ok {showStates V.thermo.states} {showStates V.kinetic.states} {showNet V.om1} {showNet V.om2}")
    | none => (σ, "bad-request")
  | _ => Onsager.C24.handle σ line

end Onsager.C26
