/-
  C15 — tags: generation of the tag dictionary (`generatetags`, the loop "make the tagdict for quick
  indexing"), `VacancyMediated.tags2preene` (two-phase fill around `makeLIMBpreene`, verbose report) and the
  numeric format `{:+06.3f}` of a coordinate, on exact rationals.   onsager/OnsagerCalc.py:117-148, 821-871,
  1268-1322.

  Values supplied by the user are opaque tokens (the harness sends the hex form of the floats): the code
  copies them verbatim.  The output of `makeLIMBpreene` is an input of the model (opaque as well).
-/
import OnsagerModel.Basic

namespace Onsager.C15

abbrev Tag := String
abbrev Val := String

/-- `self.tags`: tag type ↦ list of symmetry classes, each a list of member tags (dict insertion order). -/
abbrev Tags := List (String × List (List Tag))

/-! ### tagdict -/

/-- the triple loop of `generatetags` visits these (tag, (class index, type)) in this order -/
def classEntries (ty : String) (classes : List (List Tag)) : List (Tag × (Nat × String)) :=
  (classes.zipIdx.map fun (cls, i) => cls.map fun t => (t, (i, ty))).flatten

def entries (tags : Tags) : List (Tag × (Nat × String)) :=
  (tags.map fun (ty, classes) => classEntries ty classes).flatten

def lookup {β} (d : List (Tag × β)) (t : Tag) : Option β :=
  match d with
  | [] => none
  | (t', v) :: r => if t' = t then some v else lookup r t

/-- insert one by one; `raise ValueError('Generated repeated tags? …')` on a tag that is already there -/
def mkDict {β} (acc : List (Tag × β)) : List (Tag × β) → Except String (List (Tag × β))
  | [] => .ok acc
  | (t, v) :: r => if (lookup acc t).isSome then .error t else mkDict (acc ++ [(t, v)]) r

def mkTagDict (tags : Tags) : Except String (List (Tag × (Nat × String))) := mkDict [] (entries tags)

/-- `loadhdf5` rebuilds tagdict WITHOUT the duplicate test (later entries overwrite) -/
def tagsOf (tags : Tags) (ty : String) : List (List Tag) :=
  match tags with
  | [] => []
  | (ty', c) :: r => if ty' = ty then c else tagsOf r ty

/-! ### tags2preene -/

abbrev User := List (Tag × List Val)     -- `usertagdict` in insertion order; values are what the user put there

/-- `for t in tags: if t in usertagdict: … ; break` — the first member *in class order* that the user supplied -/
def firstHit (user : User) : List Tag → Option (List Val)
  | [] => none
  | t :: r => match lookup user t with
    | some v => some v
    | none => firstHit user r

/-- `thermodict[pre][i], thermodict[ene][i] = usertagdict[t]` : unpacking needs exactly two values -/
def fillClass (user : User) (dflt : Val × Val) (cls : List Tag) : Except String (Val × Val) :=
  match firstHit user cls with
  | none => .ok dflt
  | some [p, e] => .ok (p, e)
  | some _ => .error "unpack"

def fillType (user : User) : List (List Tag) → List (Val × Val) → Except String (List (Val × Val))
  | [], _ => .ok []
  | _ :: _, [] => .error "index"            -- cannot happen: the arrays have one slot per class
  | cls :: cr, d :: dr => do
      let x ← fillClass user d cls
      let xs ← fillType user cr dr
      .ok (x :: xs)

structure Thermo where
  v : List (Val × Val)    -- (preV, eneV) per vacancy class
  s : List (Val × Val)
  sv : List (Val × Val)
  t0 : List (Val × Val)
  t1 : List (Val × Val)
  t2 : List (Val × Val)

def one : Val := "0x1.0000000000000p+0"
def zero : Val := "0x0.0p+0"

/-- phase 1 (before LIMB): the four directly specified types -/
def phase1 (tags : Tags) (user : User) : Except String (List (Val × Val) × List (Val × Val) × List (Val × Val) × List (Val × Val)) := do
  let dflt (ty : String) := (tagsOf tags ty).map fun _ => (one, zero)
  let v ← fillType user (tagsOf tags "vacancy") (dflt "vacancy")
  let s ← fillType user (tagsOf tags "solute") (dflt "solute")
  let sv ← fillType user (tagsOf tags "solute-vacancy") (dflt "solute-vacancy")
  let t0 ← fillType user (tagsOf tags "omega0") (dflt "omega0")
  .ok (v, s, sv, t0)

/-- the whole of `tags2preene(usertagdict)`; `limb p1` is `makeLIMBpreene(**thermodict)` -/
def tags2preene (tags : Tags) (user : User)
    (limb : (List (Val × Val) × List (Val × Val) × List (Val × Val) × List (Val × Val)) → List (Val × Val) × List (Val × Val)) :
    Except String Thermo := do
  let p1 ← phase1 tags user
  let (l1, l2) := limb p1
  let t1 ← fillType user (tagsOf tags "omega1") l1
  let t2 ← fillType user (tagsOf tags "omega2") l2
  .ok { v := p1.1, s := p1.2.1, sv := p1.2.2.1, t0 := p1.2.2.2, t1 := t1, t2 := t2 }

/-! ### verbose report -/

/-- user tags filed under key (type, n) of `tupledict`, in user order -/
def usersOf (dict : List (Tag × (Nat × String))) (user : User) (ty : String) (n : Nat) : List Tag :=
  (user.map (·.1)).filter fun u => lookup dict u == some (n, ty)

def badTags (dict : List (Tag × (Nat × String))) (user : User) : List Tag :=
  (user.map (·.1)).filter fun u => (lookup dict u).isNone

/-- keys of `tupledict` in construction order, with the class they stand for -/
def tupleKeys (tags : Tags) : List (String × Nat × List Tag) :=
  (tags.map fun (ty, classes) => classes.zipIdx.map fun (cls, i) => (ty, i, cls)).flatten

/-- `missingdict`: type ↦ classes without any user tag (types in order of first missing class) -/
def addMissing (m : List (String × List (List Tag))) (ty : String) (cls : List Tag) : List (String × List (List Tag)) :=
  match m with
  | [] => [(ty, [cls])]
  | (ty', l) :: r => if ty' = ty then (ty', l ++ [cls]) :: r else (ty', l) :: addMissing r ty cls

def missingOf (dict : List (Tag × (Nat × String))) (user : User) (keys : List (String × Nat × List Tag)) :
    List (String × List (List Tag)) :=
  keys.foldl (fun m (ty, n, cls) => if (usersOf dict user ty n).isEmpty then addMissing m ty cls else m) []

def duplicatesOf (dict : List (Tag × (Nat × String))) (user : User) (keys : List (String × Nat × List Tag)) :
    List (List Tag) :=
  (keys.map fun (ty, n, _) => usersOf dict user ty n).filter fun v => v.length > 1

/-! ### the coordinate format `{:+06.3f}` on an exact rational -/

/-- round-half-even of `1000·q` (what correctly rounded `%.3f` prints for the exactly represented double) -/
def milli (q : Rat) : Int :=
  let m := q.num * 1000
  let d : Int := q.den
  let fl := m / d
  let r := m % d
  if 2 * r < d then fl else if d < 2 * r then fl + 1 else if fl % 2 = 0 then fl else fl + 1

def digits3 (n : Nat) : List Char := [Nat.digitChar (n / 100 % 10), Nat.digitChar (n / 10 % 10), Nat.digitChar (n % 10)]

/-- sign, integer digits, '.', three decimals.  Width 6 with 3 decimals never needs zero padding.
    `neg` is the sign bit of the float (so -0.0 and negative values rounding to zero print '-'). -/
def fmtMilli (neg : Bool) (k : Nat) : List Char :=
  (if neg then '-' else '+') :: (Nat.toDigits 10 (k / 1000) ++ '.' :: digits3 (k % 1000))

def fmtCoord (negzero : Bool) (q : Rat) : List Char :=
  fmtMilli (decide (q < 0) || negzero) (milli q).natAbs

/-- `SINGLE_DEFECT_TAG_{2,3}D.format(type=ty, u=u)` -/
def singleTag (ty : String) (us : List (Bool × Rat)) : String :=
  ty ++ ":" ++ ",".intercalate (us.map fun (nz, q) => String.ofList (fmtCoord nz q))

/-! ### line protocol (Drive/C15.lean)
  sections separated by " | ".
  `dict | <tags>`                              → `ok <n>` | `dup <tag>`
  `t2p | <tags> | <user> | <limb1> | <limb2>`  → `ok v=p e;p e~s=… | missing ty=c;c~… | dup a b;c d | bad x y`  | `err`
      the model's LIMB is the constant function returning <limb1>,<limb2> (they were computed by the real
      makeLIMBpreene from the real phase-1 dictionary, which is compared separately: `p1 | <tags> | <user>`)
  `p1 | <tags> | <user>`                       → `ok v=…~s=…~sv=…~t0=…` | `err`
  `fmt | <0/1> <p/q> …`                        → formatted coordinates joined by ' '
  `single | <ty> | <0/1> <p/q> …`              → the tag
  <tags>: types joined by '~', each `name=class;class;…`, a class = member tags joined by ' ' ("_" empty class, "-" no class)
  <user>: entries joined by ';', each `tag v1 v2 …` ; "-" for the empty dictionary
  <limb>: pairs `p e` joined by ';' ; "-" empty -/

def parseClasses (s : String) : List (List Tag) :=
  if s = "-" then [] else (s.splitOn ";").map fun c => if c.trimAscii.toString = "_" then [] else toks c

def parseTags (s : String) : Tags :=
  (s.splitOn "~").filterMap fun e =>
    match e.splitOn "=" with
    | [n, c] => some (n.trimAscii.toString, parseClasses c)
    | _ => none

def parseUser (s : String) : User :=
  if s.trimAscii.toString = "-" then [] else (s.splitOn ";").filterMap fun e =>
    match toks e with
    | [] => none
    | t :: vs => some (t, vs)

def parsePairs (s : String) : List (Val × Val) :=
  if s.trimAscii.toString = "-" then [] else (s.splitOn ";").filterMap fun e =>
    match toks e with
    | [p, q] => some (p, q)
    | _ => none

def showPairs (l : List (Val × Val)) : String :=
  if l.isEmpty then "-" else ";".intercalate (l.map fun (p, e) => p ++ " " ++ e)

def showClass (c : List Tag) : String := if c.isEmpty then "_" else " ".intercalate c

def showClasses (l : List (List Tag)) : String := if l.isEmpty then "-" else ";".intercalate (l.map showClass)

def parseCoords (ts : List String) : Option (List (Bool × Rat)) :=
  match ts with
  | [] => some []
  | nz :: q :: r => do
      let q' ← parseRat? q
      let r' ← parseCoords r
      some ((nz = "1", q') :: r')
  | _ => none

def handle (line : String) : String :=
  match line.splitOn " | " with
  | ["dict", t] =>
    match mkTagDict (parseTags t) with
    | .ok d => s!"ok {d.length}"
    | .error tag => s!"dup {tag}"
  | ["p1", t, u] =>
    match phase1 (parseTags t) (parseUser u) with
    | .ok (v, s, sv, t0) => s!"ok v={showPairs v}~s={showPairs s}~sv={showPairs sv}~t0={showPairs t0}"
    | .error _ => "err"
  | ["t2p", t, u, l1, l2] =>
    let tags := parseTags t
    let user := parseUser u
    match tags2preene tags user (fun _ => (parsePairs l1, parsePairs l2)) with
    | .error _ => "err"
    | .ok th =>
      -- the verbose report uses self.tagdict; with duplicate generated tags the calculator cannot exist
      let dict := entries tags
      let keys := tupleKeys tags
      let miss := missingOf dict user keys
      let dup := duplicatesOf dict user keys
      let bad := badTags dict user
      let missS := if miss.isEmpty then "-" else "~".intercalate (miss.map fun (ty, cl) => ty ++ "=" ++ showClasses cl)
      s!"ok v={showPairs th.v}~s={showPairs th.s}~sv={showPairs th.sv}~t0={showPairs th.t0}~t1={showPairs th.t1}~t2={showPairs th.t2} | missing {missS} | dup {showClasses dup} | bad {showClass bad}"
  | ["fmt", c] =>
    match parseCoords (toks c) with
    | some cs => " ".intercalate (cs.map fun (nz, q) => String.ofList (fmtCoord nz q))
    | none => "parse-error"
  | ["single", ty, c] =>
    match parseCoords (toks c) with
    | some cs => singleTag ty.trimAscii.toString cs
    | none => "parse-error"
  | _ => "parse-error"

end Onsager.C15
