/-
  C24 — star sets (onsager/crystalStars.py: PairState, StarSet.generate / __add__ / __iadd__ /
  diffgenerate / stateindex / starindex).

  Exact model in LATTICE coordinates.  A pair state is `(i, j, R)` with `R ∈ ℤ³` (2-D crystals are
  embedded with a trivial third axis by the harness); its Cartesian separation `dx` is *derived*:
  `R + u_j − u_i` with rational basis positions `u`, and `|dx|²` comes from a rational metric.
  A space-group operation is `(rot, imap, shift)`: integer rotation in lattice coordinates, the
  site permutation of the chosen chemistry, and the integer cell shift
  `shift[i] = rot·u_i + trans − u_{imap i}` (what `crys.g_pos(g, 0, (chem,i))` returns), so that
  `g·(i,j,R) = (imap i, imap j, rot·R + shift[j] − shift[i])` exactly as `PairState.g`.

  Python sets become duplicate-free lists; every comparison with the implementation is on
  canonical (sorted) sets, because the implementation's order within equal `|dx|²` is hash order.
-/
import OnsagerModel.Basic

namespace Onsager.C24

/-! ### integer and rational 3-vectors, integer matrices -/

structure Vec where
  x : Int
  y : Int
  z : Int
deriving DecidableEq, Repr

namespace Vec
def zero : Vec := ⟨0, 0, 0⟩
instance : Add Vec := ⟨fun a b => ⟨a.x + b.x, a.y + b.y, a.z + b.z⟩⟩
instance : Sub Vec := ⟨fun a b => ⟨a.x - b.x, a.y - b.y, a.z - b.z⟩⟩
instance : Neg Vec := ⟨fun a => ⟨-a.x, -a.y, -a.z⟩⟩
def dot (a b : Vec) : Int := a.x * b.x + a.y * b.y + a.z * b.z
def smul (c : Int) (a : Vec) : Vec := ⟨c * a.x, c * a.y, c * a.z⟩
end Vec

/-- Integer 3×3 matrix by rows. -/
structure Mat where
  r1 : Vec
  r2 : Vec
  r3 : Vec
deriving DecidableEq, Repr

namespace Mat
def one : Mat := ⟨⟨1, 0, 0⟩, ⟨0, 1, 0⟩, ⟨0, 0, 1⟩⟩
def mulVec (M : Mat) (v : Vec) : Vec := ⟨M.r1.dot v, M.r2.dot v, M.r3.dot v⟩
/-- row i of `A·B` is the combination of the rows of `B` with the coefficients of row i of `A` -/
def rowMul (a : Vec) (B : Mat) : Vec := Vec.smul a.x B.r1 + Vec.smul a.y B.r2 + Vec.smul a.z B.r3
def mul (A B : Mat) : Mat := ⟨rowMul A.r1 B, rowMul A.r2 B, rowMul A.r3 B⟩
end Mat

structure QVec where
  x : Rat
  y : Rat
  z : Rat
deriving DecidableEq, Repr

namespace QVec
def zero : QVec := ⟨0, 0, 0⟩
instance : Add QVec := ⟨fun a b => ⟨a.x + b.x, a.y + b.y, a.z + b.z⟩⟩
instance : Sub QVec := ⟨fun a b => ⟨a.x - b.x, a.y - b.y, a.z - b.z⟩⟩
instance : Neg QVec := ⟨fun a => ⟨-a.x, -a.y, -a.z⟩⟩
def dot (a b : QVec) : Rat := a.x * b.x + a.y * b.y + a.z * b.z
def ofVec (v : Vec) : QVec := ⟨(v.x : Rat), (v.y : Rat), (v.z : Rat)⟩
end QVec

/-- integer matrix applied to a rational vector (`g_direc` in lattice coordinates) -/
def Mat.mulQ (M : Mat) (v : QVec) : QVec :=
  ⟨QVec.dot (QVec.ofVec M.r1) v, QVec.dot (QVec.ofVec M.r2) v, QVec.dot (QVec.ofVec M.r3) v⟩

/-! ### pair states -/

structure PS where
  i : Nat
  j : Nat
  R : Vec
deriving DecidableEq, Repr

namespace PS
/-- `PairState.zero(n)` -/
def zero (n : Nat) : PS := ⟨n, n, Vec.zero⟩
/-- `iszero` -/
def isZero (s : PS) : Bool := decide (s.i = s.j ∧ s.R = Vec.zero)
/-- `__add__`: defined iff the endpoints match (ArithmeticError otherwise → `none`) -/
def add (a b : PS) : Option PS := if a.j = b.i then some ⟨a.i, b.j, a.R + b.R⟩ else none
/-- `__neg__` -/
def neg (a : PS) : PS := ⟨a.j, a.i, -a.R⟩
/-- `a ^ b`: endpoint subtraction, defined iff the initial sites match -/
def xor (a b : PS) : Option PS := if a.i = b.i then some ⟨b.j, a.j, a.R - b.R⟩ else none
end PS

/-- the sum of two states when it is defined *and non-zero* (the body of the shell loops) -/
def addNZ (a b : PS) : Option PS :=
  match a.add b with
  | some s => if s.isZero then none else some s
  | none => none

/-! ### crystal data and group operations -/

structure Crys where
  /-- basis positions of the chosen chemistry, lattice coordinates -/
  u : List QVec
  /-- metric tensor rows (`latticeᵀ·lattice`) -/
  m1 : QVec
  m2 : QVec
  m3 : QVec
deriving Repr

def Crys.nsites (C : Crys) : Nat := C.u.length
def Crys.pos (C : Crys) (i : Nat) : QVec := C.u.getD i QVec.zero

/-- `dx` in lattice coordinates -/
def dxOf (C : Crys) (s : PS) : QVec := QVec.ofVec s.R + C.pos s.j - C.pos s.i

def Crys.norm2 (C : Crys) (d : QVec) : Rat :=
  d.x * QVec.dot C.m1 d + d.y * QVec.dot C.m2 d + d.z * QVec.dot C.m3 d

/-- `np.dot(dx, dx)` (the sort key), exact -/
def x2 (C : Crys) (s : PS) : Rat := C.norm2 (dxOf C s)

structure Op where
  rot : Mat
  imap : List Nat
  shift : List Vec
deriving DecidableEq, Repr

/-- site permutation; indices beyond the table are left fixed (never happens for a well-formed op) -/
def Op.site (g : Op) (i : Nat) : Nat := if h : i < g.imap.length then g.imap[i] else i
def Op.sh (g : Op) (i : Nat) : Vec := g.shift.getD i Vec.zero

/-- `PairState.g` -/
def act (g : Op) (s : PS) : PS :=
  ⟨g.site s.i, g.site s.j, g.rot.mulVec s.R + g.sh s.j - g.sh s.i⟩

/-- an op's tables have `n` entries and map sites into range -/
def Op.wfB (n : Nat) (g : Op) : Bool :=
  g.imap.length == n && g.shift.length == n && g.imap.all (· < n)

/-- composition `g ∘ h` as op data -/
def Op.comp (g h : Op) : Op :=
  { rot := g.rot.mul h.rot
    imap := (List.range h.imap.length).map fun i => g.site (h.site i)
    shift := (List.range h.imap.length).map fun i => g.rot.mulVec (h.sh i) + g.sh (h.site i) }

def Op.ident (n : Nat) : Op :=
  { rot := Mat.one, imap := List.range n, shift := List.replicate n Vec.zero }

/-- Only differences of shifts enter `act`, so ops are compared after subtracting the shift of
    site 0 (the stored translations of a non-symmorphic group compose only up to a lattice vector). -/
def Op.norm (g : Op) : Op := { g with shift := g.shift.map fun v => v - g.sh 0 }

/-- Decidable group test on the op data: all well-formed, closed under composition, every op has
    a left inverse in the list, list non-empty. -/
def groupClosedB (n : Nat) (G : List Op) : Bool :=
  let Gn := G.map Op.norm
  !G.isEmpty && G.all (Op.wfB n) &&
  G.all (fun g => G.all fun h => Gn.contains (g.comp h).norm) &&
  G.all (fun g => G.any fun k => (k.comp g).norm == Op.ident n)

/-- the metric as a bilinear form -/
def Crys.ip (C : Crys) (a b : QVec) : Rat :=
  a.x * QVec.dot C.m1 b + a.y * QVec.dot C.m2 b + a.z * QVec.dot C.m3 b

def Mat.col1 (M : Mat) : QVec := ⟨(M.r1.x : Rat), (M.r2.x : Rat), (M.r3.x : Rat)⟩
def Mat.col2 (M : Mat) : QVec := ⟨(M.r1.y : Rat), (M.r2.y : Rat), (M.r3.y : Rat)⟩
def Mat.col3 (M : Mat) : QVec := ⟨(M.r1.z : Rat), (M.r2.z : Rat), (M.r3.z : Rat)⟩

/-- `rotᵀ·M·rot = M` -/
def metricOKB (C : Crys) (g : Op) : Bool :=
  let c1 := g.rot.col1
  let c2 := g.rot.col2
  let c3 := g.rot.col3
  C.ip c1 c1 == C.m1.x && C.ip c1 c2 == C.m1.y && C.ip c1 c3 == C.m1.z &&
  C.ip c2 c1 == C.m2.x && C.ip c2 c2 == C.m2.y && C.ip c2 c3 == C.m2.z &&
  C.ip c3 c1 == C.m3.x && C.ip c3 c2 == C.m3.y && C.ip c3 c3 == C.m3.z

/-- the shifts are those of an affine map permuting the basis:
    `shift j − shift i = rot(u_j − u_i) − (u_gj − u_gi)` -/
def shiftOKB (C : Crys) (g : Op) : Bool :=
  (List.range C.nsites).all fun i => (List.range C.nsites).all fun j =>
    QVec.ofVec (g.sh j - g.sh i) ==
      g.rot.mulQ (C.pos j - C.pos i) - (C.pos (g.site j) - C.pos (g.site i))

/-- the op is a symmetry of the crystal data -/
def crysOpB (C : Crys) (g : Op) : Bool := metricOKB C g && shiftOKB C g

/-- Decidable form of all hypotheses of the theorems for a given crystal, op list, threshold and
    jump list: group test, crystal-symmetry test, `thr ≥ 0`, no zero jump, jumps between sites of
    the crystal, jump list closed under the ops. -/
def settingB (C : Crys) (G : List Op) (thr : Rat) (J : List PS) : Bool :=
  groupClosedB C.nsites G && G.all (crysOpB C) && decide (0 ≤ thr) &&
  J.all (fun j => !j.isZero) && J.all (fun j => decide (j.i < C.nsites) && decide (j.j < C.nsites)) &&
  G.all fun g => J.all fun j => J.contains (act g j)

/-- the jump list contains the reverse of each of its jumps -/
def negClosedB (J : List PS) : Bool := J.all fun j => J.contains j.neg

/-! ### duplicate-free lists as sets -/

def dedup {α} [DecidableEq α] : List α → List α
  | [] => []
  | a :: l => let r := dedup l; if a ∈ r then r else a :: r

/-! ### StarSet.generate: the state set -/

/-- one pass of the shell loop: all defined non-zero `s1 + s2` -/
def step (J last : List PS) : List PS :=
  dedup (last.flatMap fun s1 => J.filterMap fun s2 => addNZ s1 s2)

/-- `shell J k` is `lastshell` after `k` passes (`shell J 0 = set(jumplist)`) -/
def shell (J : List PS) : Nat → List PS
  | 0 => dedup J
  | k + 1 => step J (shell J k)

/-- states collected in passes `1 … n` -/
def laterShells (J : List PS) (n : Nat) : List PS :=
  (List.range n).flatMap fun k => shell J (k + 1)

/-- `stateset` at the end of `generate(Nshells, originstates)` -/
def genStates (J : List PS) (nsites N : Nat) (origin : Bool) : List PS :=
  let first := if N > 0 then dedup J else []
  let zeros := if origin then (List.range nsites).map PS.zero else []
  dedup (first ++ zeros ++ (if N > 0 then laterShells J (N - 1) else []))

/-! ### sorting by |dx|², shell splitting, orbit grouping -/

def sortByKey {α} (key : α → Rat) (l : List α) : List α := l.mergeSort fun a b => decide (key a ≤ key b)

def consHead {α} (a : α) : List (List α) → List (List α)
  | [] => [[a]]
  | h :: t => (a :: h) :: t

/-- the `x2_indices` loop: a new shell starts at the first element whose key exceeds
    `x2old + threshold`; `x2old` is only updated there -/
def splitFrom {α} (thr : Rat) (key : α → Rat) (x2old : Rat) : List α → List (List α)
  | [] => [[]]
  | a :: l =>
    if key a > x2old + thr then [] :: consHead a (splitFrom thr key (key a) l)
    else consHead a (splitFrom thr key x2old l)

def splitShells {α} (thr : Rat) (key : α → Rat) : List α → List (List α)
  | [] => []
  | a :: l => splitFrom thr key (key a) (a :: l)

/-- `x in symmstate_list[i]` for the star whose first member is the representative -/
def starMatches (G : List Op) (star : List PS) (x : PS) : Bool :=
  match star with
  | [] => false
  | r :: _ => (G.map fun g => act g r).contains x

/-- one state of the inner loop: appended to *every* matching star (the source `continue`s
    instead of `break`ing), or opening a new star -/
def groupStep (G : List Op) (T : List (List PS)) (x : PS) : List (List PS) :=
  if T.any (starMatches G · x) then T.map fun S => if starMatches G S x then S ++ [x] else S
  else T ++ [[x]]

def groupShell (G : List Op) (sh : List PS) : List (List PS) := sh.foldl (groupStep G) []

/-- the stars of an ordered state list, as lists of states -/
def starsOf (C : Crys) (G : List Op) (thr : Rat) (sorted : List PS) : List (List PS) :=
  (splitShells thr (x2 C) sorted).flatMap (groupShell G)

structure StarSet where
  nshells : Nat
  states : List PS
  stars : List (List PS)
deriving Repr

/-- `self.stars = [[]]` when there are no states -/
def mkStars (C : Crys) (G : List Op) (thr : Rat) (sorted : List PS) : List (List PS) :=
  if sorted.isEmpty then [[]] else starsOf C G thr sorted

def generate (C : Crys) (G : List Op) (thr : Rat) (J : List PS) (N : Nat) (origin : Bool) : StarSet :=
  let st := sortByKey (x2 C) (genStates J C.nsites N origin)
  { nshells := N, states := st, stars := mkStars C G thr st }

/-! ### index lookups -/

def findStar (stars : List (List PS)) (s : PS) : Option Nat := stars.findIdx? (·.contains s)

/-- `indexdict[PS] = (xi, si)`; `none` is the KeyError that `stateindex`/`starindex` turn into None -/
def indexdict (S : StarSet) (s : PS) : Option (Nat × Nat) :=
  match S.states.idxOf? s, findStar S.stars s with
  | some xi, some si => some (xi, si)
  | _, _ => none

def stateindex (S : StarSet) (s : PS) : Option Nat := (indexdict S s).map (·.1)
def starindex (S : StarSet) (s : PS) : Option Nat := (indexdict S s).map (·.2)

/-! ### __iadd__ / __add__ -/

/-- the new states of `self += other` -/
def iaddNew (S1 S2 : List PS) : List PS :=
  dedup ((S1.flatMap fun s1 => S2.filterMap fun s2 => addNZ s1 s2).filter fun s => !S1.contains s)

inductive Err
  | index   -- IndexError
  | value   -- ValueError
deriving Repr, DecidableEq

def iadd (C : Crys) (G : List Op) (thr : Rat) (A B : StarSet) : Except Err StarSet :=
  if B.nshells < 1 then .ok A
  else if A.nshells < 1 then .ok { A with nshells := B.nshells, states := B.states, stars := B.stars }
  else
    let new := sortByKey (x2 C) (iaddNew A.states B.states)
    -- `if Nnew == Nold: return self` (only `Nshells` has changed)
    if new.isEmpty then .ok { A with nshells := A.nshells + B.nshells }
    else .ok { nshells := A.nshells + B.nshells, states := A.states ++ new,
               stars := A.stars ++ starsOf C G thr new }

/-- `__add__`: copy the one with more shells, `+=` the other -/
def addSS (C : Crys) (G : List Op) (thr : Rat) (A B : StarSet) : Except Err StarSet :=
  if A.nshells ≥ B.nshells then iadd C G thr A B else iadd C G thr B A

/-! ### diffgenerate -/

def diffStates (S1 S2 : List PS) : List PS :=
  dedup (S1.flatMap fun s1 => S2.filterMap fun s2 => s2.xor s1)

def diffgenerate (C : Crys) (G : List Op) (thr : Rat) (A B : StarSet) : Except Err StarSet :=
  if A.nshells < 1 ∨ B.nshells < 1 then .error .value
  else
    let st := sortByKey (x2 C) (diffStates A.states B.states)
    .ok { nshells := A.nshells + B.nshells, states := st, stars := mkStars C G thr st }

/-! ### verified checker for an externally produced star decomposition -/

/-- Decidable test that `stars` is an orbit partition of `states` under `G`:
    same elements with no repetition, every member is a `G`-image of its star's first member,
    and every `G`-image of a first member that is a state lies in that star. -/
def checkStars (G : List Op) (states : List PS) (stars : List (List PS)) : Bool :=
  let flat := stars.flatten
  decide (flat.length = states.length) && decide (dedup flat = flat) && decide (dedup states = states) &&
  flat.all (states.contains ·) &&
  stars.all fun S =>
    match S with
    | [] => false
    | r :: _ =>
      let imgs := G.map fun g => act g r
      S.all (imgs.contains ·) && imgs.all fun y => !states.contains y || S.contains y

/-- index arrays as produced by the implementation: `index[xi] = si` and `stars[si]` lists `xi` -/
def checkIndex (nstates : Nat) (starsIdx : List (List Nat)) (index : List Nat) : Bool :=
  index.length == nstates &&
  (List.range nstates).all (fun xi =>
    match index[xi]? with
    | none => false
    | some si => (starsIdx.getD si []).contains xi) &&
  (List.range starsIdx.length).all (fun si => (starsIdx.getD si []).all fun xi => index[xi]? == some si)

/-! ### protocol -/

def showVec (v : Vec) : String := s!"{v.x},{v.y},{v.z}"
def showPS (s : PS) : String := s!"{s.i},{s.j},{showVec s.R}"
def showQVec (v : QVec) : String := s!"{showRat v.x},{showRat v.y},{showRat v.z}"
def showStates (l : List PS) : String := if l.isEmpty then "-" else ";".intercalate (l.map showPS)
def showStar (l : List PS) : String := if l.isEmpty then "_" else ";".intercalate (l.map showPS)
def showStars (l : List (List PS)) : String :=
  if l.isEmpty then "-" else "/".intercalate (l.map showStar)

def parseVec? (s : String) : Option Vec :=
  match parseIntList? s with
  | some [x, y, z] => some ⟨x, y, z⟩
  | _ => none

def parseQVec? (s : String) : Option QVec :=
  match parseRatList? s with
  | some [x, y, z] => some ⟨x, y, z⟩
  | _ => none

def parsePS? (s : String) : Option PS :=
  match parseIntList? s with
  | some [i, j, x, y, z] => if i < 0 ∨ j < 0 then none else some ⟨i.toNat, j.toNat, ⟨x, y, z⟩⟩
  | _ => none

def parseList? {α} (p : String → Option α) (sep : Char) (s : String) : Option (List α) :=
  if s = "-" then some [] else (s.splitOn (String.singleton sep)).mapM p

def parseStates? : String → Option (List PS) := parseList? parsePS? ';'
def parseStar? (s : String) : Option (List PS) := if s = "_" then some [] else parseStates? s
def parseStars? : String → Option (List (List PS)) := parseList? parseStar? '/'

def chunk3 : List Int → Option (List Vec)
  | [] => some []
  | x :: y :: z :: r => (chunk3 r).map (⟨x, y, z⟩ :: ·)
  | _ => none

/-- `r0,…,r8:imap:sx,sy,sz,…` -/
def parseOp? (s : String) : Option Op :=
  match s.splitOn ":" with
  | [r, m, sh] => do
    let r ← parseIntList? r
    let m ← parseNatList? m
    let sh ← (parseIntList? sh).bind chunk3
    match r with
    | [a, b, c, d, e, f, g, h, k] => some ⟨⟨⟨a, b, c⟩, ⟨d, e, f⟩, ⟨g, h, k⟩⟩, m, sh⟩
    | _ => none
  | _ => none

structure Session where
  C : Crys := ⟨[], QVec.zero, QVec.zero, QVec.zero⟩
  thr : Rat := 0
  G : List Op := []
  /-- jump classes (the `jumpnetwork_index` structure) -/
  Jcls : List (List PS) := []

def Session.J (σ : Session) : List PS := σ.Jcls.flatten

def showSS (r : Except Err StarSet) : String :=
  match r with
  | .ok S => s!"ok {S.nshells} {showStates S.states} {showStars S.stars}"
  | .error .index => "index-error"
  | .error .value => "value-error"

def bool01 (b : Bool) : String := if b then "1" else "0"

/-- Requests
    * `crys <u;u;…> <m1> <m2> <m3> <thr> <op;op;…>` → `ok <groupClosed> <crysOps>`
    * `net <class/class/…>` (class = `i,j,x,y,z;…`) → `ok <njumps> <settingB> <negClosedB>`
    * `gen <N> <origin01>` → `ok N states stars`
    * `add <N1> <o1> <N2> <o2>`, `diff <N1> <o1> <N2> <o2>` → same shape or an error word
    * `index <N> <origin01> <state>` → `xi si` within the model's own order, or `none`
    * `check <states> <stars>` → `1`/`0` (verified checker on the implementation's output)
    * `checkidx <nstates> <starsIdx as i,i;i,i;…> <index list>` → `1`/`0` -/
def handle (σ : Session) (line : String) : Session × String :=
  match toks line with
  | ["crys", u, m1, m2, m3, thr, ops] =>
    match parseList? parseQVec? ';' u, parseQVec? m1, parseQVec? m2, parseQVec? m3, parseRat? thr,
          parseList? parseOp? ';' ops with
    | some u, some m1, some m2, some m3, some thr, some G =>
      let C : Crys := ⟨u, m1, m2, m3⟩
      ({ σ with C := C, thr := thr, G := G },
       s!"ok {bool01 (groupClosedB C.nsites G)} {bool01 (G.all (crysOpB C))}")
    | _, _, _, _, _, _ => (σ, "bad-request")
  | ["net", j] =>
    match parseStars? j with
    | some J => ({ σ with Jcls := J },
        s!"ok {J.flatten.length} {bool01 (settingB σ.C σ.G σ.thr J.flatten)} {bool01 (negClosedB J.flatten)}")
    | none => (σ, "bad-request")
  | ["gen", n, o] =>
    match parseNat? n, parseNat? o with
    | some n, some o => (σ, showSS (.ok (generate σ.C σ.G σ.thr σ.J n (o != 0))))
    | _, _ => (σ, "bad-request")
  | ["add", n1, o1, n2, o2] =>
    match parseNat? n1, parseNat? o1, parseNat? n2, parseNat? o2 with
    | some n1, some o1, some n2, some o2 =>
      let A := generate σ.C σ.G σ.thr σ.J n1 (o1 != 0)
      let B := generate σ.C σ.G σ.thr σ.J n2 (o2 != 0)
      (σ, showSS (addSS σ.C σ.G σ.thr A B))
    | _, _, _, _ => (σ, "bad-request")
  | ["diff", n1, o1, n2, o2] =>
    match parseNat? n1, parseNat? o1, parseNat? n2, parseNat? o2 with
    | some n1, some o1, some n2, some o2 =>
      let A := generate σ.C σ.G σ.thr σ.J n1 (o1 != 0)
      let B := generate σ.C σ.G σ.thr σ.J n2 (o2 != 0)
      (σ, showSS (diffgenerate σ.C σ.G σ.thr A B))
    | _, _, _, _ => (σ, "bad-request")
  | ["index", n, o, s] =>
    match parseNat? n, parseNat? o, parsePS? s with
    | some n, some o, some s =>
      let S := generate σ.C σ.G σ.thr σ.J n (o != 0)
      (σ, match indexdict S s with
          | some (xi, si) => s!"{xi} {si}"
          | none => "none")
    | _, _, _ => (σ, "bad-request")
  | ["check", st, sr] =>
    match parseStates? st, parseStars? sr with
    | some st, some sr => (σ, bool01 (checkStars σ.G st sr))
    | _, _ => (σ, "bad-request")
  | ["checkidx", n, sr, ix] =>
    match parseNat? n, parseNatListList? sr, parseNatList? ix with
    | some n, some sr, some ix => (σ, bool01 (checkIndex n sr ix))
    | _, _, _ => (σ, "bad-request")
  | _ => (σ, "bad-request")

end Onsager.C24
