/-
  C16 — Taylor-expansion arithmetic (onsager/PowerExpansion.py: Taylor3D / Taylor2D).

  A Taylor expansion is a *coefficient list* `[(n, l, c)]`: `n : Int` labels the radial factor
  f_n(|q|), `l : Nat` is the maximal angular power, `c : List M` holds one coefficient (scalar,
  vector, matrix … — an element of `M`) per power index `p < powlrange[l]`; index `p` stands for
  the monomial `x^a y^b z^c` with `(a,b,c) = ind2pow[p]`.

  Everything is polymorphic: `K` = scalars of directions / radial factors / table entries,
  `M` = coefficient objects (`M = K`, matrices over `K`, numpy-like tensors in the driver).
  Only core classes are used here, so the same functions are (a) executed by Drive/C16.lean on
  exact complex-rational tensors against the real classes and (b) reasoned about in
  OnsagerProofs/C16.lean with `[CommRing K] [Ring M] [Algebra K M]`.

  The index tables are *data* (`Tab K`), dumped from the live classes into
  Generated/C16Facts.lean; `Tab.check*` are the executable table obligations.
-/
import OnsagerModel.Basic

namespace Onsager.C16

/-- Index tables of `Taylor3D` / `Taylor2D` (class attributes after `__initTaylor?Dindexing__`),
    as lookup functions. -/
structure Tab (K : Type) where
  dim : Nat
  lmax : Nat
  npow : Nat
  /-- `powlrange[0..Lmax]` (the extra slot `powlrange[-1] = 0` is `plo 0`) -/
  powl : List Nat
  /-- `ind2pow[p]` : exponent tuple of power index `p` -/
  expo : Nat → List Nat
  /-- `pow2ind` flattened row-major over `[0..Lmax]^dim`, `-1` = unused -/
  pow2ind : Nat → Int
  /-- `directmult[p][p']` -/
  dm : Nat → Nat → Int
  /-- `powercoeff[n][p]` -/
  pc : Nat → Nat → K
  /-- `Lproj[l][p'][p]` for `l = 0..Lmax`; `l = Lmax+1` is the python `Lproj[-1]` -/
  proj : Nat → Nat → Nat → K

/-- The tables as dumped by the extractor.  Every numpy array is packed row-major into ONE natural number
    with fixed-width fields (cheap to elaborate, O(1) kernel look-ups): integers are stored `+1`,
    rationals as `numerator + off` over a common denominator. -/
structure RawTab where
  dim : Nat
  lmax : Nat
  npow : Nat
  powl : List Nat
  /-- 8-bit fields, index `p*dim + j` -/
  ind2pow : Nat
  /-- 16-bit fields (value+1), index = row-major position in the `(Lmax+1)^dim` array -/
  pow2ind : Nat
  /-- 16-bit fields (value+1), index `pa*npow + pb` -/
  dmult : Nat
  pcden : Nat
  /-- 32-bit numerators, index `n*npow + p` -/
  pcoef : Nat
  lpden : Nat
  lpoff : Nat
  /-- 32-bit fields (numerator+lpoff), index `(l*npow + p')*npow + p` -/
  lproj : Nat
  cden : Nat
  coff : Nat
  /-- sphere certificates, 32-bit fields (numerator+coff), index `(l*npow + p)*npow + i` -/
  cert : Nat

/-- field `i` of width `w` bits -/
def fld (w code i : Nat) : Nat := (code >>> (w * i)) % 2 ^ w

def RawTab.toTab (R : RawTab) : Tab Rat where
  dim := R.dim
  lmax := R.lmax
  npow := R.npow
  powl := R.powl
  expo := fun p => if p < R.npow then (List.range R.dim).map fun j => fld 8 R.ind2pow (p * R.dim + j) else []
  pow2ind := fun i => if i < (R.lmax + 1) ^ R.dim then (fld 16 R.pow2ind i : Int) - 1 else -1
  dm := fun pa pb => if pa < R.npow ∧ pb < R.npow then (fld 16 R.dmult (pa * R.npow + pb) : Int) - 1 else -1
  pc := fun n p => if n ≤ R.lmax ∧ p < R.npow then mkRat (fld 32 R.pcoef (n * R.npow + p) : Int) R.pcden else 0
  proj := fun l p' p =>
    if l ≤ R.lmax + 1 ∧ p' < R.npow ∧ p < R.npow then
      mkRat ((fld 32 R.lproj ((l * R.npow + p') * R.npow + p) : Int) - (R.lpoff : Int)) R.lpden
    else 0

/-- certificate `cert[l][p]` : quotient polynomial of order `l-2` -/
def RawTab.certOf (R : RawTab) (l p : Nat) : List Rat :=
  (List.range (if 2 ≤ l then R.powl.getD (l - 2) 0 else 0)).map fun i =>
    mkRat ((fld 32 R.cert ((l * R.npow + p) * R.npow + i) : Int) - (R.coff : Int)) R.cden

abbrev Entry (M : Type) := Int × Nat × List M
abbrev Coeffs (M : Type) := List (Entry M)

section tables
variable {K : Type}

/-- `powlrange[l]` -/
def Tab.phi (T : Tab K) (l : Nat) : Nat := T.powl.getD l 0
/-- `powlrange[l-1]` with the convention `powlrange[-1] = 0` -/
def Tab.plo (T : Tab K) (l : Nat) : Nat := match l with | 0 => 0 | l + 1 => T.powl.getD l 0
def Tab.deg (T : Tab K) (p : Nat) : Nat := (T.expo p).sum
/-- row-major flattening of an exponent tuple -/
def flatIdx (base : Nat) : List Nat → Nat
  | [] => 0
  | e :: es => e * base ^ es.length + flatIdx base es
/-- `pow2ind[tuple]` -/
def Tab.p2i (T : Tab K) (e : List Nat) : Int := T.pow2ind (flatIdx (T.lmax + 1) e)
end tables

/-! ### evaluation -/
section eval
variable {K M : Type} [Mul K] [One K] [Pow K Nat]

/-- `u^e = Π u_i ^ e_i` -/
def monoOf : List K → List Nat → K
  | u :: us, e :: es => u ^ e * monoOf us es
  | _, _ => 1

/-- the monomial of power index `p` at the point `u` (`powexp(u)[p]`) -/
def Tab.mono (T : Tab K) (u : List K) (p : Nat) : K := monoOf u (T.expo p)

variable [Add M] [Zero M] [SMul K M]

/-- `Σ_{i} u^{k+i} • c_i` : `np.tensordot(upow[k:], c, axes=1)` -/
def dotFrom (T : Tab K) (u : List K) : Nat → List M → M
  | _, [] => 0
  | k, x :: xs => T.mono u k • x + dotFrom T u (k + 1) xs

/-- one `(n,l)` term of `Taylor.__call__` with the radial factor `pw n` -/
def evalE (T : Tab K) (u : List K) (pw : Int → K) (e : Entry M) : M :=
  pw e.1 • dotFrom T u 0 e.2.2

/-- `Taylor.__call__(u, fnu)` with `fnu[(n,l)] = pw n`, at a direction `u` -/
def eval (T : Tab K) (u : List K) (pw : Int → K) (a : Coeffs M) : M :=
  (a.map (evalE T u pw)).sum

/-- the dictionary form of `__call__`: one value per entry -/
def evalD (T : Tab K) (u : List K) (a : Coeffs M) : List (Int × Nat × M) :=
  a.map fun e => (e.1, e.2.1, dotFrom T u 0 e.2.2)
end eval

/-! ### shape discipline -/
section wf
variable {K M : Type}
/-- every coefficient block has `powlrange[l]` rows and `l ≤ Lmax` (what numpy needs in order not to raise) -/
def wfE (T : Tab K) (e : Entry M) : Bool := e.2.2.length == T.phi e.2.1 && decide (e.2.1 ≤ T.lmax)
def wfC (T : Tab K) (a : Coeffs M) : Bool := a.all (wfE T)
end wf

/-! ### linear operations -/
section linear
variable {K M : Type}

/-- sort key `n + l/(Lmax+1)`, i.e. lexicographic in `(n,l)` for `l ≤ Lmax` -/
def keyLE (a b : Entry M) : Bool := decide (a.1 < b.1) || (a.1 == b.1 && decide (a.2.1 ≤ b.2.1))
/-- `list.sort(key=__sortkey)` (stable) -/
def sortC (a : Coeffs M) : Coeffs M := a.mergeSort keyLE

variable [Add M]
/-- `big[:len small] += small` -/
def addPad : List M → List M → List M
  | x :: xs, y :: ys => (x + y) :: addPad xs ys
  | xs, [] => xs
  | [], ys => ys

/-- add a term into a coefficient list: look for the first entry with the same `n`;
    none → append; else merge into the longer block (lines 701–721 and 871–888) -/
def mergeIn : Coeffs M → Entry M → Coeffs M
  | [], e => [e]
  | m :: rest, e =>
    if m.1 = e.1 then
      (if m.2.1 < e.2.1 then (e.1, e.2.1, addPad e.2.2 m.2.2) else (m.1, m.2.1, addPad m.2.2 e.2.2)) :: rest
    else m :: mergeIn rest e

variable [Mul M]
/-- `c * apow` for every block (scalar, or dictionary value, times block) -/
def lmulC (c : M) (a : Coeffs M) : Coeffs M := a.map fun e => (e.1, e.2.1, e.2.2.map (c * ·))
def rmulC (c : M) (a : Coeffs M) : Coeffs M := a.map fun e => (e.1, e.2.1, e.2.2.map (· * c))
/-- `scalarproductcoeff` / `tensorproductcoeff` with a dictionary `(n,l) ↦ c` -/
def lmulD (c : Int → Nat → M) (a : Coeffs M) : Coeffs M :=
  a.map fun e => (e.1, e.2.1, e.2.2.map (c e.1 e.2.1 * ·))
def rmulD (c : Int → Nat → M) (a : Coeffs M) : Coeffs M :=
  a.map fun e => (e.1, e.2.1, e.2.2.map (· * c e.1 e.2.1))

variable [Neg M]
def negC (a : Coeffs M) : Coeffs M := a.map fun e => (e.1, e.2.1, e.2.2.map (- ·))

/-- `sumcoeff(a, b, alpha, beta)` (lines 665–723) -/
def sumcoeff (a b : Coeffs M) (α β : M) : Coeffs M :=
  if b.isEmpty then lmulC α a
  else if a.isEmpty then lmulC β b
  else sortC ((lmulC β b).foldl mergeIn (lmulC α a))

/-- `__getitem__`: the same (linear) index map applied to every coefficient -/
def getitem {M' : Type} (g : M → M') (a : Coeffs M) : Coeffs M' :=
  a.map fun e => (e.1, e.2.1, e.2.2.map g)

/-- `truncatecoeff(a, Nmax)` -/
def truncate (N : Int) (a : Coeffs M) : Coeffs M := a.filter fun e => decide (e.1 ≤ N)
end linear

/-! ### product of expansions -/
section product
variable {K M : Type} [Add M] [Mul M] [Zero M]

/-- `x[i] += y` -/
def addAt : List M → Nat → M → List M
  | [], _, _ => []
  | x :: xs, 0, y => (x + y) :: xs
  | x :: xs, i + 1, y => x :: addAt xs i y

/-- numpy index: a negative index counts from the end -/
def npIndex (len : Nat) (i : Int) : Nat := if i < 0 then ((len : Int) + i).toNat else i.toNat

/-- inner loop `for pb: cpow[directmult[pa,pb]] += apow[pa] * bpow[pb]` -/
def scatRow (T : Tab K) (len pa : Nat) (x : M) : Nat → List M → List M → List M
  | _, [], acc => acc
  | pb, y :: ys, acc => scatRow T len pa x (pb + 1) ys (addAt acc (npIndex len (T.dm pa pb)) (x * y))

/-- outer loop `for pa` -/
def scat (T : Tab K) (len : Nat) (xb : List M) : Nat → List M → List M → List M
  | _, [], acc => acc
  | pa, x :: xs, acc => scat T len xb (pa + 1) xs (scatRow T len pa x 0 xb acc)

/-- product of two coefficient blocks through `directmult` into a block of `len` rows
    (lines 863–869).  When `directmult = -1` the write goes to the LAST row, as numpy does. -/
def scatterMul (T : Tab K) (len : Nat) (xa xb : List M) : List M :=
  scat T len xb 0 xa (List.replicate len 0)

def prodEntry (T : Tab K) (ea eb : Entry M) : Entry M :=
  let cl := min (ea.2.1 + eb.2.1) T.lmax
  (ea.1 + eb.1, cl, scatterMul T (T.phi cl) ea.2.2 eb.2.2)

/-- `coeffproductcoeff(a, b)` (lines 823–890) -/
def coeffproduct (T : Tab K) (a b : Coeffs M) : Coeffs M :=
  if a.isEmpty then a else if b.isEmpty then b
  else sortC ((a.flatMap fun ea => b.map fun eb => prodEntry T ea eb).foldl mergeIn [])

/-- the hypothesis of the product rule: no pair of blocks exceeds `Lmax` -/
def mulGuard (T : Tab K) (a b : Coeffs M) : Bool :=
  a.all fun ea => b.all fun eb => decide (ea.2.1 + eb.2.1 ≤ T.lmax)
end product

/-! ### projections: reduce / collect / separate -/
section proj
variable {K M : Type} [Zero K] [Add M] [Zero M] [SMul K M]

/-- `np.tensordot(P[:r,:r], c, axes=1)` -/
def matVec (P : Nat → Nat → K) (r : Nat) (c : List M) : List M :=
  (List.range r).map fun p' => ((List.range r).map fun p => P p' p • c.getD p 0).sum

/-- is the power block `[powlrange[l-1], powlrange[l])` of `c` (numerically) zero? -/
def blockZero (T : Tab K) (isz : M → Bool) (c : List M) (l : Nat) : Bool :=
  ((c.drop (T.plo l)).take (T.phi l - T.plo l)).all isz

/-- `for lmin in range(l,-1,-1): if not allclose(block lmin, 0): break` -/
def trimL (T : Tab K) (isz : M → Bool) (c : List M) : Nat → Nat
  | 0 => 0
  | l + 1 => if blockZero T isz c (l + 1) then trimL T isz c l else l + 1

def reduceE (T : Tab K) (isz : M → Bool) (e : Entry M) : Option (Entry M) :=
  let c := matVec (T.proj (T.lmax + 1)) (T.phi e.2.1) e.2.2
  if c.all isz then none
  else
    let lm := trimL T isz c e.2.1
    some (e.1, lm, c.take (T.phi lm))

/-- `reducecoeff` (lines 990–1026); `isz` plays `np.allclose(·, 0, atol)` -/
def reducecoeff (T : Tab K) (isz : M → Bool) (a : Coeffs M) : Coeffs M := a.filterMap (reduceE T isz)

/-- the loop of `collectcoeff` over the sorted list; `e` is the current entry -/
def collectGo (T : Tab K) (isz : M → Bool) (e : Entry M) : Coeffs M → Coeffs M
  | [] =>
    let c := matVec (T.proj (T.lmax + 1)) (T.phi e.2.1) e.2.2
    if c.all isz then [] else [e]          -- the last entry is kept UNprojected (line 1055)
  | e' :: rest =>
    let c := matVec (T.proj (T.lmax + 1)) (T.phi e.2.1) e.2.2
    if c.all isz then collectGo T isz e' rest
    else if e'.1 = e.1 then collectGo T isz (e'.1, e'.2.1, addPad e'.2.2 c) rest
    else (e.1, e.2.1, c) :: collectGo T isz e' rest

/-- `collectcoeff` (lines 1029–1066) -/
def collectcoeff (T : Tab K) (isz : M → Bool) (a : Coeffs M) : Coeffs M :=
  match sortC a with
  | [] => []
  | e :: rest => collectGo T isz e rest

/-- `Taylor.reduce()` -/
def reduceFull (T : Tab K) (isz : M → Bool) (a : Coeffs M) : Coeffs M :=
  collectcoeff T isz (reducecoeff T isz a)

/-- the pieces `l0 < l` appended by `separatecoeff` for one entry -/
def sepExtras (T : Tab K) (isz : M → Bool) (e : Entry M) : Coeffs M :=
  (List.range e.2.1).filterMap fun l0 =>
    let c := (matVec (T.proj l0) (T.phi e.2.1) e.2.2).take (T.phi l0)
    if c.all isz then none else some (e.1, l0, c)

def sepMain (T : Tab K) (isz : M → Bool) (e : Entry M) : Option (Entry M) :=
  let c := matVec (T.proj e.2.1) (T.phi e.2.1) e.2.2
  if c.all isz then none else some (e.1, e.2.1, c)

/-- `separatecoeff` (lines 1078–1113) -/
def separatecoeff (T : Tab K) (isz : M → Bool) (a : Coeffs M) : Coeffs M :=
  sortC (a.filterMap (sepMain T isz) ++ a.flatMap (sepExtras T isz))
end proj

/-! ### construction from direction/matrix pairs -/
section construct
variable {K M : Type} [Zero K] [Mul K] [One K] [Pow K Nat] [Add M] [Zero M] [Mul M] [SMul K M]

/-- contribution of one `(coeff, vect)` pair to the block of order `n`:
    `pre[n] * (powercoeff[n] * powexp(vect))[:powlrange[n]][p] * coeff` -/
def constructBlock (T : Tab K) (pre : M) (n : Nat) (coeff : M) (v : List K) : List M :=
  (List.range (T.phi n)).map fun p => pre * ((T.pc n p * T.mono v p) • coeff)

/-- `constructexpansion(basis, N, pre)` (lines 245–270): one single-entry coefficient list per order -/
def construct (T : Tab K) (N : Nat) (pre : Nat → M) (basis : List (M × List K)) : List (Coeffs M) :=
  (List.range (N + 1)).map fun (n : Nat) =>
    [(Int.ofNat n, n, basis.foldl (fun acc b => addPad acc (constructBlock T (pre n) n b.1 b.2))
        (List.replicate (T.phi n) 0))]
end construct

/-! ### table obligations (executable; discharged for the generated tables by `decide +kernel`) -/
section check
def allLt (n : Nat) (f : Nat → Bool) : Bool := (List.range n).all f

def fact : Nat → Nat
  | 0 => 1
  | n + 1 => (n + 1) * fact n

/-- all exponent tuples in `[0..L]^d`, row-major -/
def tuples (L : Nat) : Nat → List (List Nat)
  | 0 => [[]]
  | d + 1 => (List.range (L + 1)).flatMap fun e => (tuples L d).map fun es => e :: es

def unitVec (d j k : Nat) : List Nat := (List.range d).map fun i => if i = j then k else 0

variable (T : Tab Rat)

/-- `powlrange` has `Lmax+1` entries, starts at 1, increases strictly, ends at `Npower`;
    every exponent tuple has `dim` entries -/
def Tab.checkSizes : Bool :=
  T.powl.length == T.lmax + 1
  && (allLt T.npow fun p => (T.expo p).length == T.dim)
  && T.phi 0 == 1 && T.phi T.lmax == T.npow
  && allLt T.lmax (fun l => decide (T.phi l < T.phi (l + 1)))

/-- `powlrange` grades `ind2pow`: `p < powlrange[l] ↔ |ind2pow[p]| ≤ l` -/
def Tab.checkGraded : Bool :=
  allLt T.npow fun p => allLt (T.lmax + 1) fun l => decide (p < T.phi l) == decide (T.deg p ≤ l)

/-- `pow2ind` and `ind2pow` are mutually inverse; `pow2ind = -1` exactly on the tuples of degree `> Lmax` -/
def Tab.checkInverse : Bool :=
  (allLt T.npow fun p => T.p2i (T.expo p) == (p : Int))
  && (tuples T.lmax T.dim).all fun e =>
      if e.sum ≤ T.lmax then
        decide (0 ≤ T.p2i e) && decide ((T.p2i e).toNat < T.npow) && T.expo (T.p2i e).toNat == e
      else T.p2i e == -1

/-- `directmult[p][p'] = pow2ind[ind2pow[p] + ind2pow[p']]`, or `-1` exactly when the degree exceeds `Lmax` -/
def Tab.checkDmult : Bool :=
  allLt T.npow fun p => allLt T.npow fun p' =>
    if T.deg p + T.deg p' ≤ T.lmax then
      decide (0 ≤ T.dm p p') && decide ((T.dm p p').toNat < T.npow)
      && T.expo (T.dm p p').toNat == List.zipWith (· + ·) (T.expo p) (T.expo p')
      && T.dm p p' == T.p2i (List.zipWith (· + ·) (T.expo p) (T.expo p'))
    else T.dm p p' == -1

/-- `powercoeff[n][p] = n!/Π k_i!` on the shell `|k| = n`, `0` elsewhere -/
def Tab.checkPcoefFormula : Bool :=
  allLt (T.lmax + 1) fun n => allLt T.npow fun p =>
    if T.deg p = n then T.pc n p * (((T.expo p).map fact).foldl (· * ·) 1 : Nat) == (fact n : Nat)
    else T.pc n p == 0

/-- the same, as a statement about polynomials: row `n` is `(x+y+z)^n`, i.e.
    row 0 = 1, row 1 = the linear form, row `n` = row `n-1` × row 1 through `directmult` -/
def Tab.checkPcoefPowers : Bool :=
  decide (1 ≤ T.lmax)
  && (List.range (T.phi 0)).map (T.pc 0) == [1]
  && (List.range (T.phi 1)).map (T.pc 1) == (0 : Rat) :: List.replicate T.dim 1
  && T.phi 1 == T.dim + 1
  && T.expo 0 == List.replicate T.dim 0
  && (allLt T.dim fun j => T.expo (j + 1) == unitVec T.dim (T.dim - 1 - j) 1)
  && allLt T.lmax fun n =>
      (List.range (T.phi (n + 1))).map (T.pc (n + 1))
        == scatterMul T (T.phi (n + 1)) ((List.range (T.phi n)).map (T.pc n)) ((List.range (T.phi 1)).map (T.pc 1))

/-- the polynomial `x²+y²(+z²)` as a coefficient block of order 2: a `1` at `pow2ind[2 e_j]` for each axis `j` -/
def Tab.r2 : List Rat :=
  (List.range T.dim).foldl (fun acc j => addAt acc (T.p2i (unitVec T.dim j 2)).toNat 1)
    (List.replicate (T.phi 2) 0)

/-- positions of `x², y², z²` -/
def Tab.checkR2 : Bool :=
  decide (2 ≤ T.lmax) &&
  allLt T.dim fun j => decide (0 ≤ T.p2i (unitVec T.dim j 2)) && decide ((T.p2i (unitVec T.dim j 2)).toNat < T.phi 2)
    && T.expo (T.p2i (unitVec T.dim j 2)).toNat == unitVec T.dim j 2

/-- column `p` of `P[:r,:r]` -/
def colOf (P : Nat → Nat → Rat) (r p : Nat) : List Rat := (List.range r).map fun p' => P p' p

def unitCol (r p : Nat) : List Rat := (List.range r).map fun p' => if p' = p then 1 else 0

/-- `v ≡ x^p` modulo `x²+y²+z² = 1`, witnessed by `q`: `v + q = x^p + q·(x²+y²+z²)` -/
def Tab.sphereCert (l p : Nat) (v q : List Rat) : Bool :=
  decide (q.length = if 2 ≤ l then T.phi (l - 2) else 0) &&
  addPad v q == addPad (unitCol (T.phi l) p) (if 2 ≤ l then scatterMul T (T.phi l) q T.r2 else [])

/-- the simplification projector `Lproj[-1][:r_l,:r_l]` is the identity modulo `x²+y²+z² = 1`;
    `cert[l][p]` is the quotient polynomial for column `p` -/
def Tab.checkProjAll (cert : Nat → Nat → List Rat) : Bool :=
  allLt (T.lmax + 1) fun l => allLt (T.phi l) fun p =>
    T.sphereCert l p (colOf (T.proj (T.lmax + 1)) (T.phi l) p) (cert l p)

/-- column `p` of what `separatecoeff` keeps for a block of order `l`:
    `Σ_{l0 ≤ l} Lproj[l0][:r_l0, p]` -/
def Tab.sepCol (l p : Nat) : List Rat :=
  (List.range (T.phi l)).map fun p' =>
    ((List.range (l + 1)).map fun l0 => if p' < T.phi l0 then T.proj l0 p' p else 0).sum

/-- the pieces kept by `separate` add up to the identity modulo `x²+y²+z² = 1` -/
def Tab.checkProjSep (cert : Nat → Nat → List Rat) : Bool :=
  allLt (T.lmax + 1) fun l => allLt (T.phi l) fun p =>
    T.sphereCert l p (T.sepCol l p) (cert l p)

/-- `Lproj[l]` maps degree `d ≥ l`, `d ≡ l (2)` into degrees `≤ l` of the same parity, and `Σ_l Lproj[l] = Lproj[-1]` -/
def Tab.checkProjGraded : Bool :=
  (allLt (T.lmax + 1) fun l => allLt T.npow fun p' => allLt T.npow fun p =>
      (decide (T.deg p' ≤ l) && decide ((l - T.deg p') % 2 = 0) && decide (l ≤ T.deg p) && decide ((T.deg p - l) % 2 = 0))
      || T.proj l p' p == 0)
  && allLt T.npow fun p' => allLt T.npow fun p =>
      ((List.range (T.lmax + 1)).map fun l => T.proj l p' p).sum == T.proj (T.lmax + 1) p' p

/-- homogenise a polynomial of degree `≤ l` and parity `l` to degree `l` with powers of `x²+y²+z²`:
    `hom 0 = shell l`, `hom (j+1) = shell (l-2j-2) + r²·…` (Horner) -/
def Tab.homog (l : Nat) (v : List Rat) : List Rat :=
  let shell (d : Nat) : List Rat := (List.range (T.phi d)).map fun p => if T.deg p = d then v.getD p 0 else 0
  -- Horner from the lowest degree upwards
  let lo := l % 2
  (List.range ((l - lo) / 2)).foldl
    (fun acc j => addPad (scatterMul T (T.phi (lo + 2 * j + 2)) acc T.r2) (shell (lo + 2 * j + 2)))
    (shell lo)

/-- every column of `Lproj[l]`, homogenised to degree `l`, is a harmonic polynomial (its Laplacian vanishes):
    `separate` produces pure angular-momentum-`l` terms -/
def Tab.checkHarmonic : Bool :=
  allLt (T.lmax + 1) fun l => allLt T.npow fun p =>
    let h := T.homog l (colOf (T.proj l) T.npow p)
    allLt T.npow fun q =>
      (decide (T.deg q + 2 ≠ l)) ||
      ((List.range T.dim).map fun j =>
          let e := List.zipWith (· + ·) (T.expo q) (unitVec T.dim j 2)
          let k := (T.expo q).getD j 0
          (((k + 2) * (k + 1) : Nat) : Rat) * h.getD (T.p2i e).toNat 0).sum == 0
end check

end Onsager.C16
