/-
  C34 — kinetic barriers and detailed balance, at the level of the tables a `MonteCarloSampler`
  holds after `jumpnetworkevaluator` / `jumpnetworkevaluator_vacancy` built them
  (onsager/supercell.py 974–1332, onsager/cluster.py 521–632).

  A sampler is `siteinteract` (per site: the interactions it belongs to), `interactvalue`,
  `Nenergy`, `interactrange`, `jumps`.  Energy `E` = Σ of the interactions `m < Nenergy` none of
  whose sites is unoccupied; barrier of jump `n` = the same sum over
  `interactrange[n-1] ≤ m < interactrange[n]` (`C32.samplerSum`).

  Interactions are read as polynomials in the occupation: a list of `(sites, value)`; two lists
  are compared after substitution of the known sites (moving atom / vacancy) by merging equal site
  sets (`merge`) — `isZero` is a verified sufficient test for "vanishes on every occupation"
  (OnsagerProofs/C34.lean), and a failing test yields a minimal site set as a candidate witness.
-/
import OnsagerModel.C32

namespace Onsager.C34
open Onsager.C32

abbrev Inter := List Nat × Rat

def onB (o : Nat → Bool) (t : List Nat) : Bool := t.all o

/-- Σ of the values of the interactions all of whose sites are "on". -/
def energy (L : List Inter) (o : Nat → Bool) : Rat := (L.map fun p => if onB o p.1 then p.2 else 0).sum

/-- The sampler's notion of "on": not unoccupied (`occ ≠ 0`; the vacancy site, -1, never counts). -/
def occB (occ : List Int) : Nat → Bool := fun n => occ.getD n 0 != 0

/-! ### decoding `siteinteract` into site tuples -/

/-- Re-encoding: interaction `m` with sites `t` is appended to `siteinteract[n]` once per
    occurrence of `n` in `t`, in increasing `m` (the order in which the evaluators create them). -/
def encode (nsites : Nat) (tuples : List Tuple) : List (List Nat) :=
  (tuples.zipIdx).foldl (fun si p => appendSites si p.1 p.2) (List.replicate nsites [])

/-- Fast decoding (unverified; accepted only if `encode` reproduces `siteinteract`). -/
def decodeFast (si : List (List Nat)) (ninter : Nat) : List Tuple :=
  let arr : Array (List Nat) := Array.replicate ninter []
  let arr := (si.zipIdx).foldl (fun a p =>
    p.1.foldl (fun a m => if m < a.size then a.modify m (p.2 :: ·) else a) a) arr
  arr.toList.map List.reverse

structure Sampler where
  nsites : Nat
  si : List (List Nat)
  iv : List Rat
  nenergy : Nat
  irange : List Nat
  jumps : List (Nat × Nat)
  tuples : List Tuple        -- decoded
  decodeOK : Bool            -- `encode nsites tuples = si` and all sites in range
deriving Repr

def mkSampler (nsites : Nat) (si : List (List Nat)) (iv : List Rat) (nenergy : Nat) (irange : List Nat)
    (jumps : List (Nat × Nat)) : Sampler :=
  let tuples := decodeFast si iv.length
  { nsites := nsites, si := si, iv := iv, nenergy := nenergy, irange := irange, jumps := jumps,
    tuples := tuples,
    decodeOK := si.length == nsites && tuples.length == iv.length &&
                tuples.all (fun t => t.all (· < nsites)) && encode nsites tuples == si }

/-- `slice(interactrange[n-1], interactrange[n])` with Python's `interactrange[-1]` for `n = 0`. -/
def Sampler.lo (T : Sampler) (k : Nat) : Nat :=
  if k = 0 then T.irange.getLastD 0 else T.irange.getD (k - 1) 0
def Sampler.hi (T : Sampler) (k : Nat) : Nat := T.irange.getD k 0

/-- `MonteCarloSampler.E()` -/
def Sampler.E (T : Sampler) (occ : List Int) : Rat := samplerSum T.si T.iv occ 0 T.nenergy
/-- barrier of jump `k` as `transitions()` computes it -/
def Sampler.Q (T : Sampler) (k : Nat) (occ : List Int) : Rat := samplerSum T.si T.iv occ (T.lo k) (T.hi k)

/-- interactions `lo ≤ m < hi` as a polynomial -/
def Sampler.inter (T : Sampler) (lo hi : Nat) : List Inter :=
  ((List.range (hi - lo)).map (· + lo)).map fun m => (T.tuples.getD m [], T.iv.getD m 0)

def Sampler.interE (T : Sampler) : List Inter := T.inter 0 T.nenergy
def Sampler.interQ (T : Sampler) (k : Nat) : List Inter := T.inter (T.lo k) (T.hi k)

/-- read-outs through the decoded tuples (equal to `E` / `Q` when `decodeOK`; OnsagerProofs/C34.lean) -/
def Sampler.Epoly (T : Sampler) (occ : List Int) : Rat := energy T.interE (occB occ)
def Sampler.Qpoly (T : Sampler) (k : Nat) (occ : List Int) : Rat := energy (T.interQ k) (occB occ)

/-! ### polynomial normal form -/

def insertSet (a : Nat) : List Nat → List Nat
  | [] => [a]
  | b :: l => if a < b then a :: b :: l else if a = b then b :: l else b :: insertSet a l

/-- sorted, duplicate-free site set of a tuple -/
def canon (t : List Nat) : List Nat := t.foldr insertSet []

def addCoeff (k : List Nat) (v : Rat) : List Inter → List Inter
  | [] => [(k, v)]
  | p :: l => if k = p.1 then (p.1, p.2 + v) :: l else p :: addCoeff k v l

def merge (L : List Inter) : List Inter := L.foldl (fun acc p => addCoeff (canon p.1) p.2 acc) []

def isZero (L : List Inter) : Bool := (merge L).all fun p => p.2 == 0

/-- a smallest site set with a non-zero merged coefficient: occupying exactly these sites makes the
    polynomial non-zero (all proper subsets have coefficient 0) -/
def witness (L : List Inter) : Option (List Nat) :=
  ((merge L).filter fun p => p.2 != 0).foldl
    (fun best p => match best with
      | none => some p.1
      | some b => if p.1.length < b.length then some p.1 else some b) none

def neg (L : List Inter) : List Inter := L.map fun p => (p.1, -p.2)
def scale (c : Rat) (L : List Inter) : List Inter := L.map fun p => (p.1, c * p.2)
/-- site `i` is known to be on: remove it from every tuple -/
def dropSite (i : Nat) (L : List Inter) : List Inter := L.map fun p => (p.1.filter (· != i), p.2)
/-- site `j` is known to be off: remove every interaction containing it -/
def killSite (j : Nat) (L : List Inter) : List Inter := L.filter fun p => !p.1.contains j
/-- interactions touching `i` or `j` -/
def touch (i j : Nat) (L : List Inter) : List Inter := L.filter fun p => p.1.contains i || p.1.contains j
def swapIdx (i j n : Nat) : Nat := if n = i then j else if n = j then i else n
def swapSites (i j : Nat) (L : List Inter) : List Inter := L.map fun p => (p.1.map (swapIdx i j), p.2)

/-! ### detailed-balance tests on tables -/

/-- substitution "`i` on, `j` off" -/
def sub (i j : Nat) (L : List Inter) : List Inter := dropSite i (killSite j L)

/-- Non-vacancy, exact: `E(occ) + Q_k(occ) = E(occ') + Q_k'(occ')` as polynomials in the other sites,
    for `occ` with `i` on, `j` off and `occ'` with `i` off, `j` on. -/
def dbPoly (T : Sampler) (k k' : Nat) : List Inter :=
  let (i, j) := T.jumps.getD k (0, 0)
  sub i j (touch i j T.interE ++ T.interQ k) ++ neg (sub j i (touch i j T.interE ++ T.interQ k'))

def dbCheck (T : Sampler) (k k' : Nat) : Bool :=
  let (i, j) := T.jumps.getD k (0, 0)
  T.decodeOK && k < T.jumps.length && decide (i ≠ j) && T.jumps.getD k' (0, 0) == (j, i) && isZero (dbPoly T k k')

/-- Structure of the construction, checked on three samplers of one geometry:
    `F` full, `C` clusters only (KRA = 0, TS values = 0), `S` KRA + TS only (cluster values = 0):
    (lin) `Q_F = Q_C + Q_S` as polynomials, and `E_F = E_C` (`linE`, independent of the jump);
    (sym) KRA + TS part symmetric under reversal: `Q_S,k(occ) = Q_S,k'(occ')`;
    (half) cluster part is half the energy difference through the moving atom:
           `2 Q_C,k(occ) = E(occ') − E(occ)` and `2 Q_C,k'(occ') = E(occ) − E(occ')`. -/
def structPolys (F C S : Sampler) (k k' : Nat) : List (String × List Inter) :=
  let (i, j) := F.jumps.getD k (0, 0)
  let Ei := touch i j C.interE
  [("lin-fwd", F.interQ k ++ neg (C.interQ k) ++ neg (S.interQ k)),
   ("lin-rev", F.interQ k' ++ neg (C.interQ k') ++ neg (S.interQ k')),
   ("sym", sub i j (S.interQ k) ++ neg (sub j i (S.interQ k'))),
   ("half-fwd", scale 2 (sub i j (C.interQ k)) ++ sub i j Ei ++ neg (sub j i Ei)),
   ("half-rev", scale 2 (sub j i (C.interQ k')) ++ sub j i Ei ++ neg (sub i j Ei))]

def linE (F C : Sampler) : Bool := isZero (F.interE ++ neg C.interE)

def structCheck (F C S : Sampler) (k k' : Nat) : Bool :=
  let (i, j) := F.jumps.getD k (0, 0)
  F.decodeOK && C.decodeOK && S.decodeOK && k < F.jumps.length && decide (i ≠ j) &&
  F.jumps.getD k' (0, 0) == (j, i) && (structPolys F C S k k').all fun p => isZero p.2

/-- Vacancy variant, exact.  `T1` has its vacancy on `i`, `T2` on `j`; `occ2` is `occ` with the
    contents of `i` and `j` exchanged, so "on" for `T2` at `occ2` is "on" at `occ` after swapping
    the two indices; the vacancy site is always on (never unoccupied).
    `E1(occ) + Q1_k(occ) = E2(occ2) + Q2_k'(occ2)`. -/
def dbPolyVac (T1 T2 : Sampler) (k k' : Nat) : List Inter :=
  let (i, j) := T1.jumps.getD k (0, 0)
  dropSite i (T1.interE ++ T1.interQ k) ++ neg (dropSite i (swapSites i j (T2.interE ++ T2.interQ k')))

def dbCheckVac (T1 T2 : Sampler) (k k' : Nat) : Bool :=
  let (i, j) := T1.jumps.getD k (0, 0)
  T1.decodeOK && T2.decodeOK && k < T1.jumps.length && decide (i ≠ j) &&
  T2.jumps.getD k' (0, 0) == (j, i) && isZero (dbPolyVac T1 T2 k k')

def structPolysVac (F1 C1 S1 F2 C2 S2 : Sampler) (k k' : Nat) : List (String × List Inter) :=
  let (i, j) := F1.jumps.getD k (0, 0)
  let sw := fun L => dropSite i (swapSites i j L)
  let d := fun L => dropSite i L
  [("lin-fwd", F1.interQ k ++ neg (C1.interQ k) ++ neg (S1.interQ k)),
   ("lin-rev", F2.interQ k' ++ neg (C2.interQ k') ++ neg (S2.interQ k')),
   ("lin-E1", F1.interE ++ neg C1.interE),
   ("lin-E2", F2.interE ++ neg C2.interE),
   ("sym", d (S1.interQ k) ++ neg (sw (S2.interQ k'))),
   ("half-fwd", scale 2 (d (C1.interQ k)) ++ d C1.interE ++ neg (sw C2.interE)),
   ("half-rev", scale 2 (sw (C2.interQ k')) ++ sw C2.interE ++ neg (d C1.interE))]

def structCheckVac (F1 C1 S1 F2 C2 S2 : Sampler) (k k' : Nat) : Bool :=
  let (i, j) := F1.jumps.getD k (0, 0)
  F1.decodeOK && C1.decodeOK && S1.decodeOK && F2.decodeOK && C2.decodeOK && S2.decodeOK &&
  k < F1.jumps.length && decide (i ≠ j) && F2.jumps.getD k' (0, 0) == (j, i) &&
  (structPolysVac F1 C1 S1 F2 C2 S2 k k').all fun p => isZero p.2

/-- `transitions()`: which jumps are listed (`vac = none`: `occ[i] ≠ 0` and `occ[j] ≠ 1`) with their barriers. -/
def Sampler.transitions (T : Sampler) (vacancy : Bool) (occ : List Int) : List (Nat × Rat) :=
  (T.jumps.zipIdx).filterMap fun p =>
    let (i, j) := p.1
    if !vacancy && (occ.getD i 0 == 0 || occ.getD j 0 == 1) then none
    else some (p.2, T.Qpoly p.2 occ)

/-! ### protocol

  `tab <name> <nsites> <SI> <IV> <NE> <IR> <jumps i:j;i:j…>`    → `ok <njumps> <decodeOK>`
  `eval <name> <vac 0|1> <occ>`                                 → `<E> | k:Q;k:Q…`
  `db <name> <k:k';…>`                                           → `ok` | `fail k=<k> w=<sites>; …`
  `dbs <F> <C> <S> <k:k';…>`                                     → `ok` | `fail k=<k> <which>; …`
  `dbv <T1> <T2> <k:k';…>` , `dbvs <F1> <C1> <S1> <F2> <C2> <S2> <k:k';…>`  likewise
-/

abbrev Store := List (String × Sampler)

def parsePairs? (s : String) : Option (List (Nat × Nat)) :=
  if s = "-" then some [] else (s.splitOn ";").mapM fun p =>
    match p.splitOn ":" with
    | [a, b] => do pure ((← parseNat? a), (← parseNat? b))
    | _ => none

def find (st : Store) (n : String) : Option Sampler := (st.find? (·.1 == n)).map (·.2)

def showFail (l : List String) : String := if l.isEmpty then "ok" else "fail " ++ "; ".intercalate l

def handle (st : Store) (line : String) : Store × String :=
  match toks line with
  | ["tab", name, nsites, si, iv, ne, ir, js] =>
    match parseNat? nsites, parseNatListList? si, parseRatList? iv, parseNat? ne, parseNatList? ir, parsePairs? js with
    | some nsites, some si, some iv, some ne, some ir, some js =>
      let si := if si.isEmpty then List.replicate nsites [] else si
      let T := mkSampler nsites si iv ne ir js
      ((name, T) :: st.filter (·.1 != name), s!"ok {js.length} {if T.decodeOK then 1 else 0}")
    | _, _, _, _, _, _ => (st, "bad-request")
  | ["drop", name] => (st.filter (·.1 != name), "ok")
  | ["eval", name, vac, occ] =>
    match find st name, parseIntList? occ with
    | some T, some occ =>
      let tr := T.transitions (vac == "1") occ
      (st, s!"{showRat (T.Epoly occ)} | {if tr.isEmpty then "-" else ";".intercalate (tr.map fun p => s!"{p.1}:{showRat p.2}")}")
    | _, _ => (st, "bad-request")
  | ["db", name, pairs] =>
    match find st name, parsePairs? pairs with
    | some T, some pairs =>
      (st, showFail (pairs.filterMap fun (k, k') =>
        if dbCheck T k k' then none
        else some s!"k={k} w={showList ((witness (dbPoly T k k')).getD [])}"))
    | _, _ => (st, "bad-request")
  | ["dbs", f, c, s, pairs] =>
    match find st f, find st c, find st s, parsePairs? pairs with
    | some F, some C, some S, some pairs =>
      (st, showFail ((if linE F C then [] else ["lin-E"]) ++ pairs.filterMap fun (k, k') =>
        if structCheck F C S k k' then none
        else some s!"k={k} {",".intercalate (((structPolys F C S k k').filter fun p => !isZero p.2).map (·.1))}"))
    | _, _, _, _ => (st, "bad-request")
  | ["dbv", t1, t2, pairs] =>
    match find st t1, find st t2, parsePairs? pairs with
    | some T1, some T2, some pairs =>
      (st, showFail (pairs.filterMap fun (k, k') =>
        if dbCheckVac T1 T2 k k' then none
        else some s!"k={k} w={showList ((witness (dbPolyVac T1 T2 k k')).getD [])}"))
    | _, _, _ => (st, "bad-request")
  | ["dbvs", f1, c1, s1, f2, c2, s2, pairs] =>
    match find st f1, find st c1, find st s1, find st f2, find st c2, find st s2, parsePairs? pairs with
    | some F1, some C1, some S1, some F2, some C2, some S2, some pairs =>
      (st, showFail (pairs.filterMap fun (k, k') =>
        if structCheckVac F1 C1 S1 F2 C2 S2 k k' then none
        else some s!"k={k} {",".intercalate (((structPolysVac F1 C1 S1 F2 C2 S2 k k').filter fun p => !isZero p.2).map (·.1))}"))
    | _, _, _, _, _, _, _ => (st, "bad-request")
  | _ => (st, "bad-request")

end Onsager.C34
