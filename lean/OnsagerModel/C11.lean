/-
  C11 — exact model of the derivative outputs of the interstitial calculator
  (onsager/OnsagerCalc.py: Interstitial.diffusivity(CalcDeriv=True) lines 366–438,
   Interstitial.elastodiffusion lines 440–538).

  Built on the exact rational site-space model of OnsagerModel/C02.lean.  First-order data:
    σ_i  per site      (βE_i for the β-derivative; P_i:e for a strain component e)
    t_a  per jump      (βE_T;                       P_T:e)
  `dvalue` returns the rate part of the derivative of `u·D·v`,
      ½ Σ_a r_a (t_a − c)(d_a + Δξ_a)(e_a + Δζ_a),    c = Σ_i ρ_i σ_i,
  at *certified* stationary points ξ (direction u) and ζ (direction v), after checking that the jump
  values are reversal invariant.  OnsagerProofs/C11.lean proves that this number is
    – what the code's `Db`/`Dp` formula evaluates to (`code_layout_eq`), and
    – the ε-part of the transport functional over the dual numbers (`envelope_dual`).
  The geometric part of the elastodiffusion tensor (`dx ↦ (1+εe)dx`) is `D(eᵀu,v) + D(u,eᵀv)`:
  two values of C02's `form`, obtained from the `D` tensor the same driver reports.
-/
import OnsagerModel.C02

namespace Onsager.C11
open Onsager Onsager.C02 Onsager.Var

/-- a jump with first-order data: `t` multiplies the rate change, `g`/`h` are the first-order
    changes of the projections `d`/`e` -/
structure PJump (ι K : Type) where
  j : Jump ι K
  t : K
  g : K
  h : K
deriving DecidableEq

def PJump.rev {ι K : Type} [Field K] (a : PJump ι K) : PJump ι K := ⟨a.j.rev, a.t, -a.g, -a.h⟩

/-- the underlying network -/
def base {ι K : Type} (L : List (PJump ι K)) : List (Jump ι K) := L.map PJump.j

/-- the envelope value `½ Σ r (t − c)(d+Δξ)(e+Δζ)` -/
def envValue {ι K : Type} [Field K] (L : List (PJump ι K)) (c : K) (ξ ζ : ι → K) : K :=
  (L.map fun a => a.j.r * (a.t - c) * (a.j.d + ξ a.j.dst - ξ a.j.src)
                    * (a.j.e + ζ a.j.dst - ζ a.j.src)).sum / 2

/-- certified value: only when jump values are reversal invariant and both points are stationary -/
def dvalue {n : Nat} (L : List (PJump (Fin n) ℚ)) (c : ℚ) (ξ ζ : Fin n → ℚ) : Option ℚ :=
  if (L.map PJump.rev).isPerm L ∧ Stationary (base L) ξ ∧ Stationary ((base L).map Jump.swap) ζ
  then some (envValue L c ξ ζ) else none

/-- attach per-jump values (flat order of `C02.flat`) -/
def attach {n : Nat} (l : List (Jump (Fin n) ℚ)) (ts : List ℚ) : Option (List (PJump (Fin n) ℚ)) :=
  if l.length = ts.length then some (List.zipWith (fun a t => ⟨a, t, 0, 0⟩) l ts) else none

/-- thermal average `Σ_i ρ_i σ_i` -/
def average (inp : Input) (σ : List ℚ) : ℚ :=
  ((List.range inp.n).map fun i => rho inp i * σ.getD i 0).sum

/-- a solution stored as data (so that it is computed once) -/
def ofArray {n : Nat} (arr : Array ℚ) : Fin n → ℚ := fun i => arr.getD i.val 0

/-- candidate stationary points for the `dim` lattice directions, as arrays
    (no claim attached: `dvalue` checks them on the network it is used with) -/
def solutions (inp : Input) : Option (List (Array ℚ)) :=
  (List.range inp.dim).mapM fun α => do
    let l ← network inp (unit inp.dim α) (unit inp.dim α)
    pure (Array.ofFn (candidate inp.n l))

/-- rate part of the derivative tensor for one data set `(σ, t)`, lattice coordinates -/
def dtensor (inp : Input) (sols : List (Array ℚ)) (σ ts : List ℚ) : Option (List ℚ) :=
  if σ.length ≠ inp.n then none else
  let c := average inp σ
  ((List.range inp.dim).flatMap fun α => (List.range inp.dim).map fun β => (α, β)).mapM fun (α, β) => do
    let l ← network inp (unit inp.dim α) (unit inp.dim β)
    let L ← attach l ts
    let ξ ← sols[α]?
    let ζ ← sols[β]?
    dvalue L c (ofArray ξ) (ofArray ζ)

/-! ### protocol
  request:  `<C02 input> # σ_0,…,σ_{n-1} ; t_0,…,t_{J-1} # σ… ; t… # …`   (one or more data sets)
  answer:   `ok <D tensor> | <set 1 tensor> | <set 2 tensor> …`  or `invalid`
-/

def parseSet (s : String) : Option (List ℚ × List ℚ) :=
  match s.splitOn ";" |>.map (·.trimAscii.toString) with
  | [a, b] => do
    let σ ← parseRatList? a
    let t ← parseRatList? b
    some (σ, t)
  | _ => none

def handle (line : String) : String :=
  match (line.splitOn "#").map (·.trimAscii.toString) with
  | inps :: sets =>
    match parseInput inps, sets.mapM parseSet with
    | some inp, some sets =>
      match solutions inp with
      | some sols =>
        -- the diffusivity itself is the data set `σ = 0, t = 1`: `½ Σ r (d+Δξ)(e+Δζ)`
        let zeros := List.replicate inp.n (0 : ℚ)
        let ones := List.replicate (flat inp).length (1 : ℚ)
        match dtensor inp sols zeros ones, sets.mapM fun (σ, t) => dtensor inp sols σ t with
        | some D, some ts => s!"ok {showRatList D}" ++ String.join (ts.map fun t => s!" | {showRatList t}")
        | _, _ => "invalid"
      | none => "invalid"
    | _, _ => "bad-request"
  | _ => "bad-request"

end Onsager.C11
