/-
  C09 — two descriptions of the same crystal with the same number of sites per cell
  (different primitive basis / unimodular change of lattice vectors, different atom order):
  decidable check that a site bijection carries the network of description 1 projected on `u`
  onto the network of description 2 projected on `u'` (u' = U^{-T} u for lattice change U).
-/
import OnsagerModel.C02
import OnsagerModel.C03

namespace Onsager.C09
open Onsager.C02 Onsager.Var

/-- description 2 viewed over the site set of description 1 (same number of sites) -/
def withData (inp d : Input) : Input := { d with n := inp.n, dim := inp.dim }

def equivcheck (inp d : Input) (u u' : List ℚ) (perm : List Nat) : Bool :=
  decide (d.n = inp.n) &&
  match network inp u u, network (withData inp d) u' u' with
  | some l, some l' =>
    perm.isPerm (List.range inp.n) && (l.map (Jump.relabel (C03.permFun inp.n perm))).isPerm l'
  | _, _ => false

/-- covering map site-of-description-2 → site-of-description-1 (supercell / conventional cell) -/
def projFun (n' n : Nat) (hn : 0 < n) (proj : List Nat) : Fin n' → Fin n :=
  fun i => if h : proj.getD i.val 0 < n then ⟨proj.getD i.val 0, h⟩ else ⟨0, hn⟩

/-- Decidable covering check: description 2 (`d`, m times as many sites per cell) covers description 1 (`inp`):
    every site of 1 has exactly m preimages, and the jumps leaving a site `i` of 2 are, relabelled, the jumps
    leaving its image with weights divided by m. -/
def covercheck (inp d : Input) (u u' : List ℚ) (proj : List Nat) (m : Nat) : Bool :=
  if hn : 0 < inp.n then
    decide (0 < m) &&
    ((List.finRange inp.n).all fun k =>
      (List.finRange d.n).countP (fun i => projFun d.n inp.n hn proj i = k) == m) &&
    match network inp u u, network d u' u' with
    | some l, some l' =>
      (List.finRange d.n).all fun i =>
        ((l'.filter (fun a => a.src = i)).map (Jump.relabel (projFun d.n inp.n hn proj))).isPerm
          ((l.filter (fun a => a.src = projFun d.n inp.n hn proj i)).map (Jump.scale (1 / (m : ℚ))))
    | _, _ => false
  else false

/-- protocol: `u ; u' ; perm # input1 # input2` → `<check> <form1> <form2>`;
    `u ; u' ; proj ; m # input1 # input2` → `<covercheck> <form1> <form2>` -/
def handle (line : String) : String :=
  match line.splitOn "#" with
  | [hd, s1, s2] =>
    match parseInput s1.trimAscii.toString, parseInput s2.trimAscii.toString,
          (hd.splitOn ";").map (·.trimAscii.toString) with
    | some i1, some i2, [u, u', proj, m] =>
      match parseRatList? u, parseRatList? u', parseNatList? proj, m.toNat? with
      | some u, some u', some proj, some m =>
        let show' : Option ℚ → String := fun o => match o with | none => "invalid" | some x => showRat x
        s!"{if covercheck i1 i2 u u' proj m then 1 else 0} {show' (form i1 u u)} {show' (form i2 u' u')}"
      | _, _, _, _ => "bad-request"
    | some i1, some i2, [u, u', perm] =>
      match parseRatList? u, parseRatList? u', parseNatList? perm with
      | some u, some u', some perm =>
        let show' : Option ℚ → String := fun o => match o with | none => "invalid" | some x => showRat x
        s!"{if equivcheck i1 i2 u u' perm then 1 else 0} {show' (form i1 u u)} {show' (form (withData i1 i2) u' u')}"
      | _, _, _ => "bad-request"
    | _, _, _ => "bad-request"
  | _ => "bad-request"

end Onsager.C09
