/-
  C21 — exact model of `Crystal.jumpnetwork` / `jumpnetwork2lattice` (onsager/crystal.py) in
  LATTICE coordinates over ℚ with a rational metric tensor `g`.

  Part 1 (`Onsager.Geom`): vectors/matrices indexed by `Fin d` (any dimension), quadratic form,
  search boxes, space-group operations acting on sites.  Shared with C22 and C31.
  Part 2 (`Onsager.C21`): jump enumeration inside a box, symmetry/reversal expansion (mirrors the
  source's loop), obstruction test, the two box formulas (`boxA`: the |a_i| form found in the
  source, `boxB`: the dual-basis form), driver protocol.

  Core Lean only.
-/
import OnsagerModel.Basic

namespace Onsager.Geom

abbrev ZV (d : Nat) := Vector Int d
abbrev QV (d : Nat) := Vector Rat d
abbrev ZM (d : Nat) := Vector (Vector Int d) d
abbrev QM (d : Nat) := Vector (Vector Rat d) d

/-- `Vector.ofFn` through `List.ofFn` (reduces in the kernel, so `decide +kernel` can evaluate models) -/
def vof {α : Type} {d : Nat} (f : Fin d → α) : Vector α d := ⟨(List.ofFn f).toArray, by simp⟩

def sumZ {d : Nat} (f : Fin d → Int) : Int := (List.ofFn f).sum
def sumQ {d : Nat} (f : Fin d → Rat) : Rat := (List.ofFn f).sum

/-- matrix entry -/
def ent {α : Type} {d : Nat} (m : Vector (Vector α d) d) (i j : Fin d) : α := (m.get i).get j

def ofListZ {d : Nat} (l : List Int) : ZV d := vof fun i => l.getD i.val 0
def ofListQ {d : Nat} (l : List Rat) : QV d := vof fun i => l.getD i.val 0
def ofListZM {d : Nat} (l : List (List Int)) : ZM d :=
  vof fun i => vof fun j => (l.getD i.val []).getD j.val 0
def ofListQM {d : Nat} (l : List (List Rat)) : QM d :=
  vof fun i => vof fun j => (l.getD i.val []).getD j.val 0

def zmulVec {d : Nat} (A : ZM d) (v : ZV d) : ZV d :=
  vof fun i => sumZ fun j => ent A i j * v.get j
def zqmulVec {d : Nat} (A : ZM d) (v : QV d) : QV d :=
  vof fun i => sumQ fun j => ((ent A i j : Int) : Rat) * v.get j
def qmulVec {d : Nat} (g : QM d) (v : QV d) : QV d :=
  vof fun i => sumQ fun j => ent g i j * v.get j
def zmul {d : Nat} (A B : ZM d) : ZM d :=
  vof fun i => vof fun j => sumZ fun k => ent A i k * ent B k j
def zq {d : Nat} (v : ZV d) : QV d := vof fun i => (v.get i : Rat)
def zeroZ {d : Nat} : ZV d := vof fun _ => 0
def zeroQ {d : Nat} : QV d := vof fun _ => 0

/-- plain dot product -/
def dot {d : Nat} (x y : QV d) : Rat := sumQ fun i => x.get i * y.get i

/-- bilinear form `xᵀ g y` -/
def qform {d : Nat} (g : QM d) (x y : QV d) : Rat := sumQ fun i => sumQ fun j => x.get i * ent g i j * y.get j
def norm2 {d : Nat} (g : QM d) (x : QV d) : Rat := qform g x x

/-- `Aᵀ g A` -/
def congr {d : Nat} (g : QM d) (A : ZM d) : QM d :=
  vof fun i => vof fun j => sumQ fun k => sumQ fun l => ((ent A k i : Int) : Rat) * ent g k l * ((ent A l j : Int) : Rat)

/-- `g * h = 1` -/
def isInverse {d : Nat} (g h : QM d) : Bool :=
  decide (∀ i j : Fin d, (sumQ fun k => ent g i k * ent h k j) = if i = j then 1 else 0)

def isSymm {d : Nat} (g : QM d) : Bool := decide (∀ i j : Fin d, ent g i j = ent g j i)

/-- positive-semidefiniteness certificate: `g = Mᵀ·diag(D)·M` with `D ≥ 0` (rational LDLᵀ) -/
def psdCert {d : Nat} (g M : QM d) (D : QV d) : Bool :=
  decide (∀ k : Fin d, 0 ≤ D.get k) &&
  decide (∀ i j : Fin d, ent g i j = sumQ fun k => D.get k * ent M k i * ent M k j)

/-! ### integer square roots, rounding -/

/-- least `m ≥ from` (searching `fuel` steps) with `n < (m+1)^2`; with `fuel ≥ n` this is `⌊√n⌋`. -/
def isqrtGo (n : Nat) : Nat → Nat → Nat
  | 0, m => m
  | fuel + 1, m => if n < (m + 1) * (m + 1) then m else isqrtGo n fuel (m + 1)

/-- `⌊√n⌋` -/
def isqrt (n : Nat) : Nat := isqrtGo n n 0

/-- `⌊√q⌋` for a rational `q ≥ 0` (0 for negative `q`) -/
def floorSqrt (q : Rat) : Nat := isqrt q.floor.toNat

/-- `⌈√q⌉` for a rational `q ≥ 0` -/
def ceilSqrt (q : Rat) : Nat :=
  let f := floorSqrt q
  if ((f * f : Nat) : Rat) = q then f else f + 1

/-- numpy's `round(√q)` (round-half-to-even on the exact value) -/
def roundSqrt (q : Rat) : Nat :=
  let s := floorSqrt (4 * q)          -- ⌊2√q⌋
  if ((s * s : Nat) : Rat) = 4 * q ∧ s % 2 = 1 then
    -- √q is exactly a half-integer m + 1/2, s = 2m+1 : round to the even neighbour
    let m := s / 2
    if m % 2 = 0 then m else m + 1
  else (s + 1) / 2

/-! ### boxes -/

/-- all integers `-b … b` in ascending order -/
def symRange (b : Nat) : List Int := (List.range (2 * b + 1)).map fun (k : Nat) => (k : Int) - (b : Int)

/-- all integer lists `l` of the length of `box` with `|l_k| ≤ box_k`, in `itertools.product` order -/
def boxLists : List Nat → List (List Int)
  | [] => [[]]
  | b :: bs => (symRange b).flatMap fun k => (boxLists bs).map fun t => k :: t

abbrev Box (d : Nat) := Vector Nat d

def boxVecs {d : Nat} (box : Box d) : List (ZV d) :=
  (boxLists box.toList).map fun l => ofListZ l

def inBox {d : Nat} (box : Box d) (n : ZV d) : Bool := decide (∀ k : Fin d, (n.get k).natAbs ≤ box.get k)

/-- The verified completeness criterion for a search box.  `h` is the inverse metric, `R2` the
    squared search radius, `dumax k` a bound on `|du_k|` of the offsets used.  If it holds then
    every integer `n` with `|n + du|² < R2` has `|n_k| ≤ box_k` (theorem `boxOK_complete`). -/
def boxOK {d : Nat} (h : QM d) (R2 : Rat) (dumax : QV d) (box : Box d) : Bool :=
  decide (∀ k : Fin d, dumax.get k ≤ (box.get k : Rat) + 1 ∧
    R2 * ent h k k ≤ ((box.get k : Rat) + 1 - dumax.get k) * ((box.get k : Rat) + 1 - dumax.get k))

/-- the source's formula: `int(round(sqrt(r2/metric[i,i]))) + 1` (computed from |a_i|) -/
def boxA {d : Nat} (g : QM d) (r2 : Rat) : Box d := vof fun k => roundSqrt (r2 / ent g k k) + 1

/-- dual-basis form: `rounding(sqrt(r2*invmetric[i,i])) + 1` with rounding mode
    0 = floor (`int`), 1 = round, 2 = ceil -/
def boxB {d : Nat} (mode : Nat) (h : QM d) (r2 : Rat) : Box d := vof fun k =>
  (match mode with
   | 0 => floorSqrt (r2 * ent h k k)
   | 1 => roundSqrt (r2 * ent h k k)
   | _ => ceilSqrt (r2 * ent h k k)) + 1

/-! ### crystals and group operations -/

structure Op (d : Nat) where
  rot : ZM d
  trans : QV d
  imap : List (List Nat)

structure Crystal (d : Nat) where
  g : QM d
  h : QM d                      -- inverse metric (certificate, checked by `Crystal.valid`)
  ldlM : QM d                   -- `g = ldlMᵀ diag(ldlD) ldlM`, `ldlD ≥ 0` (certificate of positive
  ldlD : QV d                   --  semidefiniteness, checked by `Crystal.valid`)
  basis : List (List (QV d))    -- basis[chem][index], unit-cell coordinates
  ops : List (Op d)

def Crystal.u {d : Nat} (cr : Crystal d) (c i : Nat) : QV d := (cr.basis.getD c []).getD i zeroQ
def Crystal.nat {d : Nat} (cr : Crystal d) (c : Nat) : Nat := (cr.basis.getD c []).length
def Op.im {d : Nat} (op : Op d) (c i : Nat) : Nat := (op.imap.getD c []).getD i 0

/-- nearest integer (exact halves round up; only used on values that must be integers) -/
def rnd (x : Rat) : Int := (x + 1/2).floor

/-- `rot·u_{c,i} + trans − u_{c,imap i}` before rounding -/
def Crystal.deluQ {d : Nat} (cr : Crystal d) (op : Op d) (c i : Nat) : QV d :=
  let ru := zqmulVec op.rot (cr.u c i)
  let u2 := cr.u c (op.im c i)
  vof fun k => ru.get k + op.trans.get k - u2.get k

/-- the integer lattice shift of `g_pos` -/
def Crystal.delu {d : Nat} (cr : Crystal d) (op : Op d) (c i : Nat) : ZV d :=
  let x := cr.deluQ op c i
  vof fun k => rnd (x.get k)

/-- An operation is an exact symmetry of the crystal: it preserves the metric, maps every atom
    onto the atom named by its index map up to an integer lattice vector, and the index map is a
    permutation within each species. -/
def Crystal.opValid {d : Nat} (cr : Crystal d) (op : Op d) : Bool :=
  decide (congr cr.g op.rot = cr.g) &&
  (List.range cr.basis.length).all fun c =>
    (List.range (cr.nat c)).all (fun i =>
      decide (op.im c i < cr.nat c) && decide (zq (cr.delu op c i) = cr.deluQ op c i)) &&
    decide ((List.range (cr.nat c)).map (op.im c)).Nodup

def Crystal.valid {d : Nat} (cr : Crystal d) : Bool :=
  isSymm cr.g && isInverse cr.g cr.h && psdCert cr.g cr.ldlM cr.ldlD && cr.ops.all cr.opValid

/-- a site: species, index, lattice vector -/
structure Site (d : Nat) where
  c : Nat
  i : Nat
  R : ZV d
deriving DecidableEq

/-- `Crystal.g_pos` -/
def Crystal.gSite {d : Nat} (cr : Crystal d) (op : Op d) (s : Site d) : Site d :=
  let rR := zmulVec op.rot s.R
  let dl := cr.delu op s.c s.i
  { c := s.c, i := op.im s.c s.i, R := vof fun k => rR.get k + dl.get k }

/-- unit-cell coordinates of a site -/
def Crystal.pos {d : Nat} (cr : Crystal d) (s : Site d) : QV d :=
  let u := cr.u s.c s.i
  vof fun k => (s.R.get k : Rat) + u.get k

def absQ (x : Rat) : Rat := if x < 0 then -x else x

/-- bound on `|u_a − u_b|` per axis over all atom pairs -/
def Crystal.dumax {d : Nat} (cr : Crystal d) : QV d :=
  let us : List (QV d) := cr.basis.flatten
  vof fun k =>
    us.foldl (fun m a => us.foldl (fun m b => let ax := absQ (a.get k - b.get k)
                                              if m < ax then ax else m) m) 0

/-! ### printing / parsing -/

def showZV {d : Nat} (v : ZV d) : String := ".".intercalate (v.toList.map toString)

def parseRatLL? (s : String) : Option (List (List Rat)) := (s.splitOn ";").mapM parseRatList?

def parseBox {d : Nat} (s : String) : Option (Box d) := do
  let l ← parseNatList? s
  if l.length = d then some (vof fun i => l.getD i.val 0) else none

/-- sort strings (canonical output) -/
def sortStr (l : List String) : List String := (l.toArray.qsort (· < ·)).toList

end Onsager.Geom

namespace Onsager.C21
open Onsager.Geom

/-- a jump `i → j` of the mobile species, `j` in the cell displaced by the lattice vector `n` -/
structure Jump (d : Nat) where
  i : Nat
  j : Nat
  n : ZV d
deriving DecidableEq

variable {d : Nat}

/-- displacement in unit-cell coordinates: `n + u_j − u_i` -/
def dx (cr : Crystal d) (chem : Nat) (J : Jump d) : QV d :=
  let uj := cr.u chem J.j
  let ui := cr.u chem J.i
  vof fun k => (J.n.get k : Rat) + uj.get k - ui.get k

def len2 (cr : Crystal d) (chem : Nat) (J : Jump d) : Rat := norm2 cr.g (dx cr chem J)

def rev (J : Jump d) : Jump d := { i := J.j, j := J.i, n := vof fun k => - J.n.get k }

/-- image of a jump under a space-group operation (as in the source: images of both end sites) -/
def act (cr : Crystal d) (chem : Nat) (op : Op d) (J : Jump d) : Jump d :=
  let rn := zmulVec op.rot J.n
  let dj := cr.delu op chem J.j
  let di := cr.delu op chem J.i
  { i := op.im chem J.i, j := op.im chem J.j,
    n := vof fun k => rn.get k + dj.get k - di.get k }

def valid (cr : Crystal d) (chem : Nat) (r2 : Rat) (J : Jump d) : Bool :=
  let l := len2 cr chem J
  decide (0 < l) && decide (l < r2)

/-- all `(i,j,n)`, `n` in the box, in the source's loop order -/
def boxJumps (cr : Crystal d) (chem : Nat) (box : Box d) : List (Jump d) :=
  let ns := boxVecs box
  (List.range (cr.nat chem)).flatMap fun i =>
    (List.range (cr.nat chem)).flatMap fun j =>
      ns.map fun n => { i := i, j := j, n := n }

def candidates (cr : Crystal d) (chem : Nat) (r2 : Rat) (box : Box d) : List (Jump d) :=
  (boxJumps cr chem box).filter (valid cr chem r2)

/-- the source's inner loop: for every group operation append the image and its reverse unless the
    image is already present -/
def expandStep {α : Type} [DecidableEq α] (rv : α → α) (x : α) (tr : List α) (f : α → α) : List α :=
  let y := f x
  if y ∈ tr then tr else tr ++ [y, rv y]

def expand {α : Type} [DecidableEq α] (fs : List (α → α)) (rv : α → α) (x : α) : List α :=
  fs.foldl (expandStep rv x) []

/-- the source's outer loop: a candidate not yet in any class starts a new class -/
def classesStep {α : Type} [DecidableEq α] (fs : List (α → α)) (rv : α → α)
    (lis : List (List α)) (x : α) : List (List α) :=
  if lis.any (fun tr => decide (x ∈ tr)) then lis else lis ++ [expand fs rv x]

def classes {α : Type} [DecidableEq α] (fs : List (α → α)) (rv : α → α) (cands : List α) : List (List α) :=
  cands.foldl (classesStep fs rv) []

def jumpClasses (cr : Crystal d) (chem : Nat) (r2 : Rat) (box : Box d) : List (List (Jump d)) :=
  classes (cr.ops.map (act cr chem)) rev (candidates cr chem r2 box)

/-! ### the op list acts as a group on jumps (checkable) -/

/-- the translation part of `act`: `δ_j − δ_i` -/
def actD (cr : Crystal d) (chem : Nat) (op : Op d) (i j : Nat) : ZV d :=
  let dj := cr.delu op chem j
  let di := cr.delu op chem i
  vof fun k => dj.get k - di.get k

def oneZ : ZM d := vof fun i => vof fun j => if i = j then 1 else 0

/-- does `k` act on all jumps with indices `< N` as `(i,j,n) ↦ (im i, im j, rot·n + D i j)`? -/
def sameAct (cr : Crystal d) (chem : Nat) (k : Op d) (rot : ZM d) (im : Nat → Nat) (D : Nat → Nat → ZV d) : Bool :=
  decide (k.rot = rot) &&
  (List.range (cr.nat chem)).all fun i => decide (k.im chem i = im i) &&
    (List.range (cr.nat chem)).all fun j => decide (actD cr chem k i j = D i j)

/-- the action data of the composition `f ∘ g` -/
def compD (cr : Crystal d) (chem : Nat) (f g : Op d) (i j : Nat) : ZV d :=
  let a := zmulVec f.rot (actD cr chem g i j)
  let b := actD cr chem f (g.im chem i) (g.im chem j)
  vof fun k => a.get k + b.get k

/-- the list of operations is closed under composition, contains an identity and inverses —
    as maps on the jumps of species `chem` -/
def opsGroupCheck (cr : Crystal d) (chem : Nat) : Bool :=
  (cr.ops.all fun f => cr.ops.all fun g => cr.ops.any fun k =>
      sameAct cr chem k (zmul f.rot g.rot) (fun i => f.im chem (g.im chem i)) (compD cr chem f g)) &&
  (cr.ops.any fun e => sameAct cr chem e oneZ (fun i => i) (fun _ _ => zeroZ)) &&
  (cr.ops.all fun f => cr.ops.any fun k =>
      decide (zmul k.rot f.rot = oneZ) &&
      (List.range (cr.nat chem)).all fun i => decide (k.im chem (f.im chem i) = i) &&
        (List.range (cr.nat chem)).all fun j => decide (compD cr chem k f i j = zeroZ))

/-- every operation maps indices of species `chem` into range (part of `opValid`) -/
def opsInRange (cr : Crystal d) (chem : Nat) : Bool :=
  cr.ops.all fun op => (List.range (cr.nat chem)).all fun i => decide (op.im chem i < cr.nat chem)

/-! ### obstruction -/

/-- position of atom `(c,a)` in cell `n` relative to the start of the jump (unit coordinates) -/
def xRa (cr : Crystal d) (chem : Nat) (J : Jump d) (c a : Nat) (n : ZV d) : QV d :=
  let ua := cr.u c a
  let ui := cr.u chem J.i
  vof fun k => (n.get k : Rat) + ua.get k - ui.get k

/-- projection `x·dx` and `d²·dx² = x²dx² − (x·dx)²` of an atom at `x` for the jump vector `v` -/
def pdd (g : QM d) (v : QV d) (v2 : Rat) (x : QV d) : Rat × Rat :=
  let p := qform g x v
  (p, norm2 g x * v2 - p * p)

/-- The source's test for one atom: projection on the jump inside `[0, dx²]` and squared
    perpendicular distance `≤ mindist²` (written without division: `d²·dx² ≤ m2·dx²`). -/
def blocksNum (m2 v2 : Rat) (pd : Rat × Rat) : Bool :=
  decide (0 ≤ pd.1) && decide (pd.1 ≤ v2) && decide (pd.2 ≤ m2 * v2)

/-- same with margins: 1 = robustly blocked (cannot depend on rounding; `d² = m2` exactly counts,
    the source uses `np.isclose`), 0 = robustly not blocking, 2 = on a boundary -/
def robustNum (m2 eps v2 : Rat) (pd : Rat × Rat) : Nat :=
  let p := pd.1
  let dd := pd.2
  let tol := eps * v2
  if tol < p ∧ p < v2 - tol ∧ (dd = m2 * v2 ∨ dd ≤ (m2 - eps * (m2 + 1)) * v2) then 1
  else if p < -tol ∨ v2 + tol < p ∨ (m2 + eps * (m2 + 1)) * v2 < dd then 0
  else 2

def blocks (cr : Crystal d) (chem : Nat) (m2 : Rat) (J : Jump d) (c a : Nat) (n : ZV d) : Bool :=
  let v := dx cr chem J
  let v2 := norm2 cr.g v
  blocksNum m2 v2 (pdd cr.g v v2 (xRa cr chem J c a n))

/-- scan of all atoms of the listed species in all cells of the box: for each the pair
    (source's verdict, robust verdict) -/
def obstScan (cr : Crystal d) (chem : Nat) (box : Box d) (eps : Rat) (cds : List (Nat × Rat)) (J : Jump d) :
    List (Bool × Nat) :=
  let v := dx cr chem J
  let v2 := norm2 cr.g v
  let ns := boxVecs box
  cds.flatMap fun cm => (List.range (cr.nat cm.1)).flatMap fun a =>
    ns.map fun n =>
      let pd := pdd cr.g v v2 (xRa cr chem J cm.1 a n)
      (blocksNum cm.2 v2 pd, robustNum cm.2 eps v2 pd)

/-- is the jump obstructed (some atom of a listed species in some cell of the box blocks it)? -/
def obstructed (cr : Crystal d) (chem : Nat) (box : Box d) (cds : List (Nat × Rat)) (J : Jump d) : Bool :=
  (obstScan cr chem box 0 cds J).any (·.1)

def robustOf (sc : List (Bool × Nat)) : Nat :=
  if sc.any (·.2 == 1) then 1 else if sc.any (·.2 == 2) then 2 else 0

/-- the network: classes whose representative (first member) is not obstructed -/
def network (cr : Crystal d) (chem : Nat) (r2 : Rat) (box : Box d) (cds : List (Nat × Rat)) :
    List (List (Jump d)) :=
  (jumpClasses cr chem r2 box).filter fun tr =>
    match tr with
    | [] => false
    | J :: _ => !(obstructed cr chem box cds J)

/-- `jumpnetwork2lattice`: recover the lattice vector from the displacement
    (`round(dx + u_i − u_j)`) -/
def toLattice (cr : Crystal d) (chem i j : Nat) (v : QV d) : ZV d :=
  let ui := cr.u chem i
  let uj := cr.u chem j
  vof fun k => rnd (v.get k + ui.get k - uj.get k)

/-! ### driver -/

def showJump (J : Jump d) : String := s!"{J.i}:{J.j}:{showZV J.n}"

def showClass (tr : List (Jump d)) : String := ",".intercalate (sortStr (tr.map showJump))

/-- minimum relative distance of a candidate length² to the cutoff (conditioning of the case) -/
def cutoffMargin (cr : Crystal d) (chem : Nat) (r2 : Rat) (box : Box d) : Rat :=
  (boxJumps cr chem box).foldl (fun m J =>
    let ax := absQ ((len2 cr chem J - r2) / r2)
    if ax < m then ax else m) 1

/-- op text: `rot@trans@imap`, rot rows `;`/`,`, imap species `;`/`,` -/
def parseOp (d : Nat) (s : String) : Option (Op d) :=
  match s.splitOn "@" with
  | [r, t, m] => do
      let rl ← parseIntListList? r
      let tl ← parseRatList? t
      let ml ← parseNatListList? m
      if rl.length = d ∧ rl.all (·.length = d) ∧ tl.length = d then
        some { rot := ofListZM rl, trans := ofListQ tl, imap := ml }
      else none
  | _ => none

def parseQM (d : Nat) (s : String) : Option (QM d) := do
  let ll ← parseRatLL? s
  if ll.length = d ∧ ll.all (·.length = d) then
    some (ofListQM ll)
  else none

def parseBasis (d : Nat) (s : String) : Option (List (List (QV d))) :=
  (s.splitOn "#").mapM fun cs => do
    let ll ← parseRatLL? cs
    if ll.all (·.length = d) then some (ll.map fun l => ofListQ l) else none

/-- `crys <d> | g | h | ldlM | ldlD | basis | ops` -/
def parseCrystal (d : Nat) (fields : List String) : Option (Crystal d) :=
  match fields with
  | [gs, hs, ms, ds, bs, os] => do
      let g ← parseQM d gs
      let h ← parseQM d hs
      let m ← parseQM d ms
      let dl ← parseRatList? ds
      let b ← parseBasis d bs
      let ops ← (os.splitOn "#").mapM (parseOp d)
      if dl.length = d then some { g := g, h := h, ldlM := m, ldlD := ofListQ dl, basis := b, ops := ops } else none
  | _ => none

/-- `c:m2;c:m2` or `-` -/
def parseCds (s : String) : Option (List (Nat × Rat)) :=
  if s = "-" then some [] else
  (s.splitOn ";").mapM fun t =>
    match t.splitOn ":" with
    | [c, m] => do let c ← parseNat? c; let m ← parseRat? m; some (c, m)
    | _ => none

def maxM2 (cds : List (Nat × Rat)) : Rat := cds.foldl (fun m cm => if m < cm.2 then cm.2 else m) 0

/-- dual box `⌈√(R2·h_kk)⌉ + 1` (always passes `boxOK` when `dumax ≤ 1`) -/
def boxDual (h : QM d) (R2 : Rat) : Box d := boxB 2 h R2

def b2s (b : Bool) : String := if b then "1" else "0"

/-- answer to `jn <chem> <r2> <box|dual|A|B0|B1|B2> <cds> <eps>`:
    `ok <box> <boxOK for jumps> <boxOK for obstacles> <cutoff margin> | class;class;…`
    each class printed as `<exact verdict><robust verdict>=jump,jump,…` -/
def answerJn (cr : Crystal d) (args : List String) : String :=
  match args with
  | [chemS, r2S, boxS, cdsS, epsS] =>
    match parseNat? chemS, parseRat? r2S, parseCds cdsS, parseRat? epsS with
    | some chem, some r2, some cds, some eps =>
      let R2o := r2 + maxM2 cds
      let box? : Option (Box d) :=
        if boxS = "dual" then some (boxDual cr.h R2o)
        else if boxS = "A" then some (boxA cr.g r2)
        else if boxS = "B0" then some (boxB 0 cr.h r2)
        else if boxS = "B1" then some (boxB 1 cr.h r2)
        else if boxS = "B2" then some (boxB 2 cr.h r2)
        else parseBox boxS
      match box? with
      | none => "bad-box"
      | some box =>
        if chem ≥ cr.basis.length then "bad-chem" else
        let dum := cr.dumax
        let okJ := boxOK cr.h r2 dum box
        let okO := boxOK cr.h R2o dum box
        let cls := jumpClasses cr chem r2 box
        let out := cls.filterMap fun tr =>
          match tr with
          | [] => none
          | J :: _ =>
            let sc := obstScan cr chem box eps cds J
            some s!"{b2s (sc.any (·.1))}{robustOf sc}={showClass tr}"
        let body := if out.isEmpty then "-" else ";".intercalate (sortStr out)
        s!"ok {showList box.toList} {b2s okJ} {b2s okO} {(cutoffMargin cr chem r2 box * 1000000000).floor} | {body}"
    | _, _, _, _ => "bad-args"
  | _ => "bad-args"

/-- `box <r2> <A|B0|B1|B2|dual>` → the box of the named formula -/
def answerBox (cr : Crystal d) (args : List String) : String :=
  match args with
  | [r2S, f] =>
    match parseRat? r2S with
    | some r2 =>
      if f = "A" then showList (boxA cr.g r2).toList
      else if f = "B0" then showList (boxB 0 cr.h r2).toList
      else if f = "B1" then showList (boxB 1 cr.h r2).toList
      else if f = "B2" then showList (boxB 2 cr.h r2).toList
      else if f = "dual" then showList (boxDual cr.h r2).toList
      else "bad-args"
    | none => "bad-args"
  | _ => "bad-args"

/-- `l2 <chem> <i> <j> <n>` → length² of a jump;  `tolat <chem> <i> <j> <v>` → lattice vector -/
def answerL2 (cr : Crystal d) (args : List String) : String :=
  match args with
  | [chemS, iS, jS, nS] =>
    match parseNat? chemS, parseNat? iS, parseNat? jS, parseIntList? nS with
    | some chem, some i, some j, some n =>
      if n.length = d then showRat (len2 cr chem { i := i, j := j, n := ofListZ n }) else "bad-args"
    | _, _, _, _ => "bad-args"
  | _ => "bad-args"

def answerToLat (cr : Crystal d) (args : List String) : String :=
  match args with
  | [chemS, iS, jS, vS] =>
    match parseNat? chemS, parseNat? iS, parseNat? jS, parseRatList? vS with
    | some chem, some i, some j, some v =>
      if v.length = d then showZV (toLattice cr chem i j (ofListQ v)) else "bad-args"
    | _, _, _, _ => "bad-args"
  | _ => "bad-args"

/-- driver state: the current crystal (dimension 2 or 3) -/
inductive St where
  | none
  | c2 (cr : Crystal 2)
  | c3 (cr : Crystal 3)

def fieldsOf (line : String) : List String := (line.splitOn "|").map fun s => s.trimAscii.toString

def handle (st : St) (line : String) : St × String :=
  let fs := fieldsOf line
  match fs with
  | [] => (st, "bad-request")
  | hd :: rest =>
    match toks hd with
    | ["crys", "2"] =>
      match parseCrystal 2 rest with
      | some cr => (.c2 cr, s!"ok valid={b2s cr.valid} group={b2s ((List.range cr.basis.length).all (opsGroupCheck cr))}")
      | none => (.none, "bad-crystal")
    | ["crys", "3"] =>
      match parseCrystal 3 rest with
      | some cr => (.c3 cr, s!"ok valid={b2s cr.valid} group={b2s ((List.range cr.basis.length).all (opsGroupCheck cr))}")
      | none => (.none, "bad-crystal")
    | cmd :: args =>
      let run {d : Nat} (cr : Crystal d) : String :=
        if cmd = "jn" then answerJn cr args
        else if cmd = "box" then answerBox cr args
        else if cmd = "l2" then answerL2 cr args
        else if cmd = "tolat" then answerToLat cr args
        else "bad-request"
      match st with
      | .none => (st, "no-crystal")
      | .c2 cr => (st, run cr)
      | .c3 cr => (st, run cr)
    | [] => (st, "bad-request")

end Onsager.C21
