/-
  Shared helpers for the executable models: token parsing for the line protocol,
  canonical printing.  Core Lean only.
-/
namespace Onsager

/-- Split on a separator character and drop empty tokens. -/
def toks (s : String) (sep : Char := ' ') : List String :=
  (s.splitOn (String.singleton sep)).filter (· ≠ "")

def parseInt? (s : String) : Option Int := s.toInt?

def parseNat? (s : String) : Option Nat := s.toNat?

/-- "1,2,3" → [1,2,3]; "-" or "" → []. -/
def parseNatList? (s : String) : Option (List Nat) :=
  if s = "-" ∨ s = "" ∨ s = "_" then some [] else (toks s ',').mapM parseNat?

def parseIntList? (s : String) : Option (List Int) :=
  if s = "-" ∨ s = "" ∨ s = "_" then some [] else (toks s ',').mapM parseInt?

/-- "1,2;3;_;4" → [[1,2],[3],[],[4]] (sub-lists separated by ';', "_" an empty sub-list,
    "-" the empty outer list). -/
def parseNatListList? (s : String) : Option (List (List Nat)) :=
  if s = "-" then some [] else (s.splitOn ";").mapM parseNatList?

def parseIntListList? (s : String) : Option (List (List Int)) :=
  if s = "-" then some [] else (s.splitOn ";").mapM parseIntList?

def showList {α} [ToString α] (l : List α) : String :=
  if l.isEmpty then "-" else ",".intercalate (l.map toString)

def showListList {α} [ToString α] (l : List (List α)) : String :=
  if l.isEmpty then "-" else ";".intercalate (l.map fun x =>
    if x.isEmpty then "_" else ",".intercalate (x.map toString))

/-- Rational "p/q" or "p". -/
def parseRat? (s : String) : Option Rat :=
  match s.splitOn "/" with
  | [p] => (parseInt? p).map fun n => (n : Rat)
  | [p, q] => do
      let n ← parseInt? p
      let d ← parseNat? q
      if d = 0 then none else some ((n : Rat) / (d : Rat))
  | _ => none

def showRat (r : Rat) : String :=
  if r.den = 1 then toString r.num else s!"{r.num}/{r.den}"

def parseRatList? (s : String) : Option (List Rat) :=
  if s = "-" ∨ s = "" then some [] else (toks s ',').mapM parseRat?

def showRatList (l : List Rat) : String :=
  if l.isEmpty then "-" else ",".intercalate (l.map showRat)

/-- Generic stdin loop: one request per line, one answer per line. -/
partial def lineLoop (h : IO.FS.Stream) (f : String → String) : IO Unit := do
  let line ← h.getLine
  if line.isEmpty then return ()
  let l := line.trimAscii.toString
  if l ≠ "" then IO.println (f l)
  lineLoop h f

/-- Stateful stdin loop. -/
partial def stateLoop {σ} (h : IO.FS.Stream) (st : σ) (f : σ → String → σ × String) : IO Unit := do
  let line ← h.getLine
  if line.isEmpty then return ()
  let l := line.trimAscii.toString
  if l = "" then stateLoop h st f
  else
    let (st', out) := f st l
    IO.println out
    stateLoop h st' f

end Onsager
