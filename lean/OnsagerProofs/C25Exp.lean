/-
  C25 — `expansions_are_projections`: the expansion formulas of VectorStarSet (as modelled in
  OnsagerModel/C25.lean) contracted with arbitrary class rates are the projections, onto the vector-star basis,
  of the directly assembled pair-state-space quantities.  Pure linearity / reindexing, for every basis `v`
  (orthonormal or not), every jump list and all rates.
-/
import OnsagerModel.C25
import OnsagerProofs.C25Sound
import Mathlib.Data.Matrix.Mul

namespace Onsager.C25

variable {n d m : ℕ} (v : Fin m → Field n d)

theorem dotv_eq (u w : Fin d → ℚ) : dotv u w = ∑ a, u a * w a := by
  unfold dotv; rw [sumFin_eq]

theorem dotv_comm (u w : Fin d → ℚ) : dotv u w = dotv w u := by
  rw [dotv_eq, dotv_eq]; apply Finset.sum_congr rfl; intro a _; ring

/-- picking one pair out of a double sum -/
theorem sum_sum_pair (F : Fin n → Fin n → ℚ) (s0 t0 : Fin n) :
    ∑ s, ∑ t, (if s0 = s ∧ t0 = t then (1 : ℚ) else 0) * F s t = F s0 t0 := by
  rw [Finset.sum_eq_single s0]
  · rw [Finset.sum_eq_single t0]
    · simp
    · intro t _ ht
      have : ¬ t0 = t := fun h => ht h.symm
      simp [this]
    · simp
  · intro s _ hs
    have : ¬ s0 = s := fun h => hs h.symm
    simp [this]
  · simp

theorem sum_single (F : Fin n → ℚ) (s0 : Fin n) :
    ∑ s, (if s0 = s then (1 : ℚ) else 0) * F s = F s0 := by
  simp [Finset.sum_ite_eq]

/-! ### directly assembled state-space quantities of a jump list -/

/-- adjacency: number of jumps `s → t` in the list -/
def jumpCount (jl : List (Jump n d)) (s t : Fin n) : ℚ :=
  (jl.map fun J => if J.is = s ∧ J.fs = t then (1 : ℚ) else 0).sum

/-- number of jumps leaving `s` -/
def outDeg (jl : List (Jump n d)) (s : Fin n) : ℚ :=
  (jl.map fun J => if J.is = s then (1 : ℚ) else 0).sum

/-- geometric bias (velocity for unit rates) at state `s` -/
def biasAt (jl : List (Jump n d)) (s : Fin n) (a : Fin d) : ℚ :=
  (jl.map fun J => (if J.is = s then (1 : ℚ) else 0) * J.dx a).sum

/-! ### per class: expansion entry = projection of the adjacency / degree / bias of the class -/

theorem rateExp_eq_proj (jl : List (Jump n d)) (i j : Fin m) :
    rateExp v jl i j = ∑ s, ∑ t, jumpCount jl s t * dotv (v i s) (v j t) := by
  induction jl with
  | nil => simp [rateExp, jumpCount]
  | cons J jl ih =>
    have hl : rateExp v (J :: jl) i j = dotv (v i J.is) (v j J.fs) + rateExp v jl i j := by
      simp [rateExp]
    have hr : ∀ s t, jumpCount (J :: jl) s t
        = (if J.is = s ∧ J.fs = t then (1 : ℚ) else 0) + jumpCount jl s t := by
      intro s t; simp [jumpCount]
    rw [hl, ih]
    simp only [hr, add_mul, Finset.sum_add_distrib]
    rw [sum_sum_pair (fun s t => dotv (v i s) (v j t))]

theorem escExp_eq_proj (jl : List (Jump n d)) (i : Fin m) :
    escExp v jl i = ∑ s, (- outDeg jl s) * dotv (v i s) (v i s) := by
  induction jl with
  | nil => simp [escExp, outDeg]
  | cons J jl ih =>
    have hl : escExp v (J :: jl) i = - dotv (v i J.is) (v i J.is) + escExp v jl i := by
      simp [escExp]; ring
    have hr : ∀ s, outDeg (J :: jl) s = (if J.is = s then (1 : ℚ) else 0) + outDeg jl s := by
      intro s; simp [outDeg]
    rw [hl, ih]
    have : ∀ s, -outDeg (J :: jl) s * dotv (v i s) (v i s)
        = -((if J.is = s then (1 : ℚ) else 0) * dotv (v i s) (v i s)) + -outDeg jl s * dotv (v i s) (v i s) := by
      intro s; rw [hr]; ring
    simp only [this, Finset.sum_add_distrib, Finset.sum_neg_distrib]
    rw [sum_single (fun s => dotv (v i s) (v i s))]

theorem biasExp_eq_proj (jl : List (Jump n d)) (i : Fin m) :
    biasExp v jl i = ∑ s, dotv (v i s) (biasAt jl s) := by
  induction jl with
  | nil => simp [biasExp, biasAt, dotv_eq]
  | cons J jl ih =>
    have hl : biasExp v (J :: jl) i = dotv (v i J.is) J.dx + biasExp v jl i := by
      simp [biasExp]
    have hr : ∀ s a, biasAt (J :: jl) s a = (if J.is = s then (1 : ℚ) else 0) * J.dx a + biasAt jl s a := by
      intro s a; simp [biasAt]
    rw [hl, ih]
    simp only [dotv_eq, hr, mul_add, Finset.sum_add_distrib]
    congr 1
    have : ∀ s, ∑ a, v i s a * ((if J.is = s then (1 : ℚ) else 0) * J.dx a)
        = (if J.is = s then (1 : ℚ) else 0) * ∑ a, v i s a * J.dx a := by
      intro s; rw [Finset.mul_sum]; apply Finset.sum_congr rfl; intro a _; ring
    simp only [this]
    rw [sum_single (fun s => ∑ a, v i s a * J.dx a)]

/-! ### `expansions_are_projections`: contraction with arbitrary class rates -/

variable {K : ℕ}

/-- **rate matrix.**  `Σ_k rate1expansion[i,j,k] ω_k = Σ_{s,t} W[s,t] v_i(s)·v_j(t)` with the directly assembled
    `W[s,t] = Σ_k ω_k #{jumps s → t in class k}`. -/
theorem rate_expansion_is_projection (cls : Fin K → List (Jump n d)) (ω : Fin K → ℚ) (i j : Fin m) :
    ∑ k, rateExp v (cls k) i j * ω k
      = ∑ s, ∑ t, (∑ k, ω k * jumpCount (cls k) s t) * dotv (v i s) (v j t) := by
  simp only [rateExp_eq_proj, Finset.sum_mul]
  rw [Finset.sum_comm]
  apply Finset.sum_congr rfl; intro s _
  rw [Finset.sum_comm]
  apply Finset.sum_congr rfl; intro t _
  apply Finset.sum_congr rfl; intro k _
  ring

/-- **escape (diagonal) terms**, with an escape rate that may depend on the class and on the vector star
    (i.e. on the star of the initial state): `Σ_k rate1escape[i,k] e_{k,i} = Σ_s D_i[s] |v_i(s)|²`,
    `D_i[s] = -Σ_k e_{k,i} #{jumps of class k leaving s}`. -/
theorem escape_expansion_is_projection (cls : Fin K → List (Jump n d)) (e : Fin K → Fin m → ℚ) (i : Fin m) :
    ∑ k, escExp v (cls k) i * e k i
      = ∑ s, (- ∑ k, e k i * outDeg (cls k) s) * dotv (v i s) (v i s) := by
  simp only [escExp_eq_proj, Finset.sum_mul]
  rw [Finset.sum_comm]
  apply Finset.sum_congr rfl; intro s _
  rw [neg_mul, Finset.sum_mul, ← Finset.sum_neg_distrib]
  apply Finset.sum_congr rfl; intro k _
  ring

/-- **bias vector.**  `Σ_k bias1expansion[i,k] e_{k,i} = Σ_s v_i(s)·b_i(s)`, `b_i(s) = Σ_k e_{k,i} Σ_{jumps from s} dx`. -/
theorem bias_expansion_is_projection (cls : Fin K → List (Jump n d)) (e : Fin K → Fin m → ℚ) (i : Fin m) :
    ∑ k, biasExp v (cls k) i * e k i
      = ∑ s, dotv (v i s) (fun a => ∑ k, e k i * biasAt (cls k) s a) := by
  simp only [biasExp_eq_proj, Finset.sum_mul, dotv_eq, Finset.mul_sum]
  rw [Finset.sum_comm]
  apply Finset.sum_congr rfl; intro s _
  rw [Finset.sum_comm]
  apply Finset.sum_congr rfl; intro a _
  apply Finset.sum_congr rfl; intro k _
  ring

/-- **bare diffusivity** is linear in the class rates (the expansion is the per-class sum of ½ dx⊗dx). -/
theorem bare_expansion_linear (cls : Fin K → List (Jump n d)) (ω : Fin K → ℚ) (a b : Fin d) :
    ∑ k, bareExp (cls k) a b * ω k
      = ∑ k, ((cls k).map fun J => (1 / 2 : ℚ) * ω k * (J.dx a * J.dx b)).sum := by
  apply Finset.sum_congr rfl; intro k _
  unfold bareExp
  induction cls k with
  | nil => simp
  | cons J jl ih => simp only [List.map_cons, List.sum_cons, add_mul, ih]; ring

/-! ### matrix form -/

/-- the basis as a matrix: columns = vector stars, rows = (state, component) -/
def basisMat : Matrix (Fin n × Fin d) (Fin m) ℚ := fun p i => v i p.1 p.2

/-- a state-space matrix acting as the identity on vector components -/
def liftMat (W : Fin n → Fin n → ℚ) : Matrix (Fin n × Fin d) (Fin n × Fin d) ℚ :=
  fun p q => if p.2 = q.2 then W p.1 q.1 else 0

theorem proj_apply (W : Fin n → Fin n → ℚ) (i j : Fin m) :
    (Matrix.transpose (basisMat v) * liftMat W * basisMat v : Matrix (Fin m) (Fin m) ℚ) i j
      = ∑ s, ∑ t, W s t * dotv (v i s) (v j t) := by
  simp only [Matrix.mul_apply, Matrix.transpose_apply, basisMat, liftMat, Fintype.sum_prod_type, dotv_eq]
  simp only [Finset.sum_mul, Finset.mul_sum]
  have h : ∀ t s, ∑ b, ∑ a, (v i s a * if a = b then W s t else 0) * v j t b
      = ∑ a, W s t * (v i s a * v j t a) := by
    intro t s
    rw [Finset.sum_comm]
    apply Finset.sum_congr rfl; intro a _
    rw [Finset.sum_eq_single a]
    · simp only [if_true]; ring
    · intro b _ hb
      have : ¬ a = b := fun h => hb h.symm
      simp [this]
    · simp
  calc ∑ t, ∑ b, ∑ s, ∑ a, (v i s a * if a = b then W s t else 0) * v j t b
      = ∑ t, ∑ s, ∑ b, ∑ a, (v i s a * if a = b then W s t else 0) * v j t b := by
        apply Finset.sum_congr rfl; intro t _; exact Finset.sum_comm
    _ = ∑ s, ∑ t, ∑ b, ∑ a, (v i s a * if a = b then W s t else 0) * v j t b := Finset.sum_comm
    _ = _ := by
        apply Finset.sum_congr rfl; intro s _
        apply Finset.sum_congr rfl; intro t _
        exact h t s


/-- **expansions_are_projections** (matrix form): for any basis `U` (columns = vector stars) and any class rates,
    `Σ_k rate1expansion[i,j,k] ω_k = (Uᵀ W U)[i,j]`, `W = Σ_k ω_k W_k` the directly assembled state-space matrix
    (`W_k` = adjacency of class `k`, acting as the identity on vector components). -/
theorem expansions_are_projections (cls : Fin K → List (Jump n d)) (ω : Fin K → ℚ) (i j : Fin m) :
    ∑ k, rateExp v (cls k) i j * ω k
      = (Matrix.transpose (basisMat v) * liftMat (fun s t => ∑ k, ω k * jumpCount (cls k) s t) * basisMat v :
          Matrix (Fin m) (Fin m) ℚ) i j := by
  rw [proj_apply, rate_expansion_is_projection]

/-- projection onto a basis is linear in the class rates (generic statement, any matrices) -/
theorem projection_linear {ι κ : Type*} [Fintype ι] [Fintype κ] [DecidableEq ι] [DecidableEq κ]
    (U : Matrix ι κ ℚ) (Wk : Fin K → Matrix ι ι ℚ) (ω : Fin K → ℚ) :
    Matrix.transpose U * (∑ k, ω k • Wk k) * U = ∑ k, ω k • (Matrix.transpose U * Wk k * U) := by
  rw [Matrix.mul_sum, Matrix.sum_mul]
  apply Finset.sum_congr rfl; intro k _
  rw [Matrix.mul_smul, Matrix.smul_mul]

/-! ### the representative-state shortcut of `biasexpansions` -/

/-- what the code computes: the representative's projection times the size of the star -/
theorem biasExpCode_eq_rep (jl : List (Jump n d)) (i : Fin m) (rep : Fin m → Fin n) (len : Fin m → ℕ) :
    biasExpCode v rep len jl i = dotv (v i (rep i)) (biasAt jl (rep i)) * (len i : ℚ) := by
  unfold biasExpCode
  induction jl with
  | nil => simp [biasAt, dotv_eq]
  | cons J jl ih =>
    have hbA : ∀ a, biasAt (J :: jl) (rep i) a
        = (if J.is = rep i then (1 : ℚ) else 0) * J.dx a + biasAt jl (rep i) a := by
      intro a; simp [biasAt]
    rw [List.filter_cons]
    by_cases hJ : J.is = rep i
    · rw [if_pos (by simpa using hJ), List.map_cons, List.sum_cons, ih]
      simp only [dotv_eq, hbA, hJ, if_true, one_mul, mul_add, Finset.sum_add_distrib]
      ring
    · rw [if_neg (by simpa using hJ), ih]
      simp only [dotv_eq, hbA, hJ, if_false, zero_mul, zero_add]

/-- The code evaluates the bias projection on the first state of the star only and multiplies by the size of the
    star.  For an equivariant vector star, an equivariant bias field (jump class closed under the group) and
    orthogonal rotations this equals the full projection. -/
theorem biasExpCode_eq_biasExp {N : ℕ} (perm : Fin N → Fin n → Fin n) (rho : Fin N → Fin d → Fin d → ℚ)
    (jl : List (Jump n d)) (i : Fin m) (rep : Fin m → Fin n) (len : Fin m → ℕ) (S : Finset (Fin n))
    (hlen : len i = S.card)
    (hsupp : ∀ s, s ∉ S → ∀ a, v i s a = 0)
    (htrans : ∀ s ∈ S, ∃ g, perm g (rep i) = s)
    (horth : ∀ g (u w : Fin d → ℚ), dotv (fun a => ∑ b, rho g a b * u b) (fun a => ∑ b, rho g a b * w b) = dotv u w)
    (hv : ∀ g x a, v i (perm g x) a = ∑ b, rho g a b * v i x b)
    (hb : ∀ g x a, biasAt jl (perm g x) a = ∑ b, rho g a b * biasAt jl x b) :
    biasExpCode v rep len jl i = biasExp v jl i := by
  have hcode := biasExpCode_eq_rep v jl i rep len
  rw [hcode, biasExp_eq_proj]
  have hsum : ∑ s, dotv (v i s) (biasAt jl s) = ∑ s ∈ S, dotv (v i s) (biasAt jl s) := by
    symm
    apply Finset.sum_subset (Finset.subset_univ S)
    intro s _ hs
    rw [dotv_eq]
    simp [hsupp s hs]
  rw [hsum]
  have hconst : ∀ s ∈ S, dotv (v i s) (biasAt jl s) = dotv (v i (rep i)) (biasAt jl (rep i)) := by
    intro s hs
    obtain ⟨g, rfl⟩ := htrans s hs
    have h1 : v i (perm g (rep i)) = fun a => ∑ b, rho g a b * v i (rep i) b := funext (hv g (rep i))
    have h2 : biasAt jl (perm g (rep i)) = fun a => ∑ b, rho g a b * biasAt jl (rep i) b := funext (hb g (rep i))
    rw [h1, h2, horth]
  rw [Finset.sum_congr rfl hconst, Finset.sum_const, hlen, nsmul_eq_mul]
  ring

/-! ### Green function -/

/-- directly assembled Green-function matrix on pair states from the class values -/
def gfMat (idx : Fin n → Fin n → Option ℕ) (val : ℕ → ℚ) (s t : Fin n) : ℚ :=
  match idx s t with
  | some k => val k
  | none => 0

theorem gfExp_contract (idx : Fin n → Fin n → Option ℕ) (hK : ∀ s t k, idx s t = some k → k < K)
    (val : ℕ → ℚ) (i j : Fin m) :
    ∑ k : Fin K, gfExp v idx k.val i j * val k.val = ∑ s, ∑ t, gfMat idx val s t * dotv (v i s) (v j t) := by
  unfold gfExp
  simp only [sumFin_eq, Finset.sum_mul]
  rw [Finset.sum_comm]
  apply Finset.sum_congr rfl; intro s _
  rw [Finset.sum_comm]
  apply Finset.sum_congr rfl; intro t _
  unfold gfMat
  cases hst : idx s t with
  | none => simp
  | some k0 =>
    have hk0 := hK s t k0 hst
    rw [Finset.sum_eq_single (⟨k0, hk0⟩ : Fin K)]
    · simp; ring
    · intro k _ hk
      have : ¬ k0 = k.val := fun h => hk (Fin.ext h.symm)
      simp [this]
    · simp

/-- **Green function.**  The code computes the upper triangle and copies it to the lower one; contracted with
    class values that are symmetric under exchange of the end points (`G[s,t] = G[t,s]`, true for the Green
    function of a detailed-balance symmetrised generator), the result is the projection of the directly assembled
    state-space matrix. -/
theorem gf_expansion_is_projection (idx : Fin n → Fin n → Option ℕ) (hK : ∀ s t k, idx s t = some k → k < K)
    (val : ℕ → ℚ) (hsym : ∀ s t, gfMat idx val s t = gfMat idx val t s) (i j : Fin m) :
    ∑ k : Fin K, gfExpCode v idx k.val i j * val k.val = ∑ s, ∑ t, gfMat idx val s t * dotv (v i s) (v j t) := by
  unfold gfExpCode
  by_cases hij : i.val ≤ j.val
  · simp only [hij, if_true]
    exact gfExp_contract v idx hK val i j
  · simp only [hij, if_false]
    rw [gfExp_contract v idx hK val j i, Finset.sum_comm]
    apply Finset.sum_congr rfl; intro s _
    apply Finset.sum_congr rfl; intro t _
    rw [hsym t s, dotv_comm]

/-! ### omega2: reference rates through the origin states -/

/-- adjacency of the reference (omega0) jumps that land on / leave the origin state of the solute site -/
def originCount (os : Fin n → Option (Fin n)) (jl : List (Jump n d)) (s t : Fin n) : ℚ :=
  (jl.map fun J => optVal (os J.is) fun o =>
    (if J.is = s ∧ o = t then (1 : ℚ) else 0) + (if o = s ∧ J.is = t then (1 : ℚ) else 0)).sum

/-- number of reference jumps leaving `s`: the exchange jump itself, and for an origin state the reverse jumps -/
def originDeg (os : Fin n → Option (Fin n)) (jl : List (Jump n d)) (s : Fin n) : ℚ :=
  (jl.map fun J => (if J.is = s then (1 : ℚ) else 0) + optVal (os J.is) fun o => if o = s then (1 : ℚ) else 0).sum

theorem rate0Exp2_eq_proj (os : Fin n → Option (Fin n)) (jl : List (Jump n d)) (i j : Fin m) :
    rate0Exp2 v os jl i j = ∑ s, ∑ t, originCount os jl s t * dotv (v i s) (v j t) := by
  induction jl with
  | nil => simp [rate0Exp2, originCount]
  | cons J jl ih =>
    unfold rate0Exp2 originCount at ih ⊢
    simp only [List.map_cons, List.sum_cons, add_mul, Finset.sum_add_distrib]
    rw [ih]
    congr 1
    cases os J.is with
    | none => simp [optVal]
    | some o =>
      simp only [optVal, add_mul, Finset.sum_add_distrib]
      rw [sum_sum_pair (fun s t => dotv (v i s) (v j t)), sum_sum_pair (fun s t => dotv (v i s) (v j t))]

/-- the escape expansion that the projection of the directly assembled reference matrix requires:
    each exchange jump counts once for its initial state and once for the origin state it lands on -/
theorem esc0Exp2_eq_proj (os : Fin n → Option (Fin n)) (jl : List (Jump n d)) (i : Fin m) :
    esc0Exp2 v os jl i = ∑ s, (- originDeg os jl s) * dotv (v i s) (v i s) := by
  induction jl with
  | nil => simp [esc0Exp2, originDeg]
  | cons J jl ih =>
    have hl : esc0Exp2 v os (J :: jl) i = - (dotv (v i J.is) (v i J.is)
        + optVal (os J.is) fun o => dotv (v i o) (v i o)) + esc0Exp2 v os jl i := by
      simp only [esc0Exp2, List.map_cons, List.sum_cons]; ring
    have hr : ∀ s, originDeg os (J :: jl) s = ((if J.is = s then (1 : ℚ) else 0)
        + optVal (os J.is) fun o => if o = s then (1 : ℚ) else 0) + originDeg os jl s := by
      intro s; simp only [originDeg, List.map_cons, List.sum_cons]
    rw [hl, ih]
    have : ∀ s, -originDeg os (J :: jl) s * dotv (v i s) (v i s)
        = -((if J.is = s then (1 : ℚ) else 0) * dotv (v i s) (v i s))
          + -((optVal (os J.is) fun o => if o = s then (1 : ℚ) else 0) * dotv (v i s) (v i s))
          + -originDeg os jl s * dotv (v i s) (v i s) := by
      intro s; rw [hr]; ring
    simp only [this, Finset.sum_add_distrib, Finset.sum_neg_distrib]
    rw [sum_single (fun s => dotv (v i s) (v i s))]
    cases os J.is with
    | none => simp [optVal]
    | some o =>
      simp only [optVal]
      rw [sum_single (fun s => dotv (v i s) (v i s))]
      ring

end Onsager.C25
