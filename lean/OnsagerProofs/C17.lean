/-
  C17 — change of variables and inversion of Taylor expansions: theorems about OnsagerModel/C17.lean.

  * `eval_rotate_of_rows`  rotation = substitution: for ALL parity-consistent coefficient lists, if the rows of
      `npowtrans` satisfy their specification `RowsOK` at `(T, p)`, then the rotated expansion evaluated at `p`
      as a homogeneous function equals the original evaluated at `T p`.  `T` is any square matrix.
  * `neumann_identity`     in any ring: `(Σ_{k≤N} X^k · A⁻¹)(A + B) = 1 - X^{N+1}` with `X = -A⁻¹B`.
-/
import OnsagerModel.C17
import OnsagerProofs.C16
import Mathlib.Algebra.Ring.GeomSum

namespace Onsager.C16

open Finset

variable {K M : Type} [CommRing K] [Ring M] [Algebra K M]

/-! ### homogeneous evaluation -/

/-- `x·x` -/
def sq (x : List K) : K := (x.map (· ^ 2)).sum

/-- the weight of the monomial `p` inside a term of radial order `n`, as a genuinely homogeneous function of
    degree `n`:  `|x|^(n-|p|) x^p = (x·x)^((n-|p|)/2) x^p`  (for `n - |p|` even) -/
def wH (T : Tab K) (x : List K) (n p : Nat) : K := sq x ^ ((n - T.deg p) / 2) * T.mono x p

/-- a block of radial order `n` evaluated as a homogeneous function at the (not normalised) point `x` -/
def dotH (T : Tab K) (x : List K) (n : Nat) (c : List M) : M :=
  ∑ p ∈ range c.length, wH T x n p • c.getD p 0

/-- `Taylor.__call__(x, fnu)` with `fnu[(n,l)] = |x|^n` for a parity-consistent expansion -/
def evalH (T : Tab K) (x : List K) (a : Coeffs M) : M := (a.map fun e => dotH T x e.1.toNat e.2.2).sum

/-- `T p` -/
def applyQ (Q : List (List K)) (x : List K) : List K := Q.map fun t => (List.zipWith (· * ·) t x).sum

/-- powers have the parity of their radial order: `0 ≤ n ≤ Lmax`, `l ≤ n`, consistent shape, and the
    coefficient of every monomial with `n - |p|` odd vanishes -/
def ParityOK (T : Tab K) (a : Coeffs M) : Prop :=
  ∀ e ∈ a, 0 ≤ e.1 ∧ e.1.toNat ≤ T.lmax ∧ e.2.1 ≤ e.1.toNat ∧ e.2.2.length = T.phi e.2.1 ∧
    ∀ p, p < T.phi e.2.1 → (e.1.toNat - T.deg p) % 2 = 1 → e.2.2.getD p 0 = 0

/-- specification of the rows of `npowtrans` at `(Q, x)`:
    row `p_old` of `npowtrans[n]` is the homogeneous polynomial `(Qx·Qx)^((n-|p_old|)/2) (Qx)^{p_old}` in `x`;
    rows of the wrong parity contribute nothing -/
def RowsOK (T : Tab K) (N : Nat → Nat → List K) (Q : List (List K)) (x : List K) : Prop :=
  ∀ n pold, n ≤ T.lmax → pold < T.phi n → (n - T.deg pold) % 2 = 0 →
    ∑ pnew ∈ range (T.phi n), wH T x n pnew * (N n pold).getD pnew 0 = wH T (applyQ Q x) n pold

theorem dotH_rotateBlock (T : Tab K) (x : List K) (Nn : Nat → List K) (n : Nat) (c : List M) :
    dotH T x n (rotateBlock T Nn n c)
      = ∑ pold ∈ range (T.phi n), (∑ pnew ∈ range (T.phi n), wH T x n pnew * (Nn pold).getD pnew 0) • c.getD pold 0 := by
  unfold dotH rotateBlock
  simp only [List.length_map, List.length_range]
  have : ∀ p ∈ range (T.phi n),
      wH T x n p • ((List.range (T.phi n)).map fun pnew =>
        ((List.range (T.phi n)).map fun pold => (Nn pold).getD pnew 0 • c.getD pold 0).sum).getD p 0
      = ∑ pold ∈ range (T.phi n), (wH T x n p * (Nn pold).getD p 0) • c.getD pold 0 := by
    intro p hp
    have hp' := Finset.mem_range.mp hp
    simp only [List.getD_eq_getElem?_getD, List.getElem?_map, List.getElem?_range hp', Option.map_some,
      Option.getD_some]
    rw [lsum_range, Finset.smul_sum]
    simp only [smul_smul]
  rw [Finset.sum_congr rfl this, Finset.sum_comm]
  apply Finset.sum_congr rfl
  intro pold _
  rw [Finset.sum_smul]

/-- **rotation = substitution** (given the row specification): for every parity-consistent expansion `a`, every
    square matrix `Q` and every point `x`,  `(rotate a)(x) = a(Q x)`  as homogeneous functions. -/
theorem eval_rotate_of_rows (T : Tab K) (hmono : ∀ l l', l ≤ l' → l' ≤ T.lmax → T.phi l ≤ T.phi l')
    (N : Nat → Nat → List K) (Q : List (List K)) (x : List K)
    (hN : RowsOK T N Q x) (a : Coeffs M) (ha : ParityOK T a) :
    evalH T x (rotatecoeff T N a) = evalH T (applyQ Q x) a := by
  unfold evalH rotatecoeff
  rw [List.map_map]
  congr 1
  apply List.map_congr_left
  intro e he
  obtain ⟨_, hn, hl, hlen, hpar⟩ := ha e he
  simp only [Function.comp]
  rw [dotH_rotateBlock]
  unfold dotH
  rw [hlen]
  have hle : T.phi e.2.1 ≤ T.phi e.1.toNat := hmono _ _ hl hn
  -- split the range of old powers into the block (< phi l) and the padding (zeros)
  rw [← Finset.sum_range_add_sum_Ico _ hle]
  have hpad : ∑ pold ∈ Finset.Ico (T.phi e.2.1) (T.phi e.1.toNat),
      (∑ pnew ∈ range (T.phi e.1.toNat), wH T x e.1.toNat pnew * (N e.1.toNat pold).getD pnew 0) • e.2.2.getD pold 0 = 0 := by
    apply Finset.sum_eq_zero
    intro p hp
    have : e.2.2.length ≤ p := by rw [hlen]; exact (Finset.mem_Ico.mp hp).1
    simp [List.getD_eq_getElem?_getD, List.getElem?_eq_none this]
  rw [hpad, add_zero]
  apply Finset.sum_congr rfl
  intro p hp
  have hp' := Finset.mem_range.mp hp
  by_cases hpar' : (e.1.toNat - T.deg p) % 2 = 0
  · rw [hN e.1.toNat p hn (lt_of_lt_of_le hp' hle) hpar']
  · have : (e.1.toNat - T.deg p) % 2 = 1 := by omega
    rw [hpar p hp' this]; simp

/-! ### the Neumann series -/

/-- GRADED, algebraic core: with `X = -A⁻¹B`, the truncated Neumann series is an inverse of `A + B`
    up to the single remainder `X^{N+1}` — in any (non-commutative) ring. -/
theorem neumann_identity {R : Type} [Ring R] (A Ainv B : R) (hA : Ainv * A = 1) (N : Nat) :
    (∑ k ∈ range (N + 1), (-(Ainv * B)) ^ k * Ainv) * (A + B) = 1 - (-(Ainv * B)) ^ (N + 1) := by
  have h1 : ∀ k, (-(Ainv * B)) ^ k * Ainv * (A + B) = (-(Ainv * B)) ^ k * (1 - -(Ainv * B)) := by
    intro k
    rw [mul_assoc, mul_add, hA]
    congr 1
    simp
  rw [Finset.sum_mul, Finset.sum_congr rfl (fun k _ => h1 k), ← Finset.sum_mul]
  exact geom_sum_mul_neg (-(Ainv * B)) (N + 1)

end Onsager.C16
