/-
  C04 — Results are invariant under reference choices and scale with rates (interstitial model).

  For the exact model of OnsagerModel/C02.lean, for all well-formed inputs and directions:
  * `shift_invariant`         common shift of all site and transition-state energies: same result
  * `prescale_invariant`      site and transition prefactors scaled together: same result
  * `rate_homogeneous`        every rate multiplied by s ≥ 0: every coefficient multiplied by s
  * `displacement_invariant`  sites displaced inside the cell (same connectivity and rates): same result
  Energies and temperature scaled together leave `βE` — the model's (and `Interstitial.diffusivity`'s)
  only input — unchanged; for the vacancy-mediated calculator that clause is tied by correspondence.
-/
import OnsagerModel.C04
import OnsagerProofs.C02
import OnsagerProofs.C05

namespace Onsager.C04
open Onsager.C02 Onsager.Var

/-! ### list helpers -/

theorem mapM_congr_mem {α β : Type} (f g : α → Option β) :
    ∀ (l : List α), (∀ x ∈ l, f x = g x) → l.mapM f = l.mapM g
  | [], _ => by simp
  | a :: t, h => by
    rw [List.mapM_cons, List.mapM_cons, h a List.mem_cons_self,
      mapM_congr_mem f g t (fun x hx => h x (List.mem_cons_of_mem _ hx))]

theorem foldl_min_shift (l : List Int) (a c : Int) :
    (l.map (· + c)).foldl min (a + c) = l.foldl min a + c := by
  induction l generalizing a with
  | nil => simp
  | cons x t ih =>
    simp only [List.map_cons, List.foldl_cons]
    rw [← ih]
    congr 1
    omega

theorem getD_map_add (l : List Int) (i : Nat) (c : Int) (h : i < l.length) :
    (l.map (· + c)).getD i 0 = l.getD i 0 + c := by
  simp [List.getD_eq_getElem?_getD, List.getElem?_map, List.getElem?_eq_getElem h]

theorem getD_map_mul (l : List ℚ) (i : Nat) (s : ℚ) :
    (l.map (s * ·)).getD i 0 = s * l.getD i 0 := by
  simp only [List.getD_eq_getElem?_getD, List.getElem?_map]
  cases l[i]? <;> simp

theorem flat_k_lt (inp : Input) (x : Nat × Nat × Nat × List ℚ) (hx : x ∈ flat inp) :
    x.1 < inp.jumps.length := by
  unfold flat at hx
  rw [List.mem_flatMap] at hx
  obtain ⟨⟨k, cls⟩, hk, hx⟩ := hx
  have := (List.of_mem_zip hk).1
  rw [List.mem_range] at this
  simp only [List.mem_map] at hx
  obtain ⟨y, _, rfl⟩ := hx
  exact this

/-! ### energy shift -/

theorem wf_iff (inp : Input) (h : wf inp = true) :
    inp.q ≠ 0 ∧ inp.ene ≠ [] ∧ (∀ w ∈ inp.invmap, w < inp.ene.length) ∧ inp.jumps.length ≤ inp.eneT.length := by
  unfold wf at h
  simp only [Bool.and_eq_true, decide_eq_true_eq, Bool.not_eq_true', List.all_eq_true] at h
  obtain ⟨⟨⟨h1, h2⟩, h3⟩, h4⟩ := h
  refine ⟨h1, ?_, ?_, h4⟩
  · intro he; simp [he] at h2
  · intro w hw; simpa using h3 w hw

theorem invmap_lt (inp : Input) (h : wf inp = true) (i : Nat) : inp.invmap.getD i 0 < inp.ene.length := by
  obtain ⟨_, hne, hw, _⟩ := wf_iff inp h
  rw [List.getD_eq_getElem?_getD]
  cases hi : inp.invmap[i]? with
  | none => simpa using List.length_pos_of_ne_nil hne
  | some w => exact hw w (List.mem_of_getElem? hi)

theorem emin_shift (inp : Input) (h : wf inp = true) (c : Int) :
    emin (shiftE inp c) = emin inp + c := by
  obtain ⟨_, hne, _, _⟩ := wf_iff inp h
  unfold emin shiftE
  simp only
  cases he : inp.ene with
  | nil => exact absurd he hne
  | cons a t =>
    simp only [List.map_cons, List.headD_cons, List.foldl_cons]
    have := foldl_min_shift t (min a a) c
    rw [← this]
    congr 1
    omega

theorem rho_shift (inp : Input) (h : wf inp = true) (c : Int) (i : Nat) :
    rho (shiftE inp c) i = rho inp i := by
  have hw : ∀ i, weight (shiftE inp c) (emin (shiftE inp c)) i = weight inp (emin inp) i := by
    intro i
    rw [emin_shift inp h c]
    unfold weight
    have hlt := invmap_lt inp h i
    simp only [shiftE] at *
    rw [getD_map_add _ _ _ hlt]
    congr 2
    ring
  unfold rho Z
  rw [hw i]
  congr 2
  apply List.map_congr_left
  intro j _
  exact hw j

theorem rate_shift (inp : Input) (h : wf inp = true) (c : Int) (k i : Nat) (hk : k < inp.eneT.length) :
    rate (shiftE inp c) k i = rate inp k i := by
  unfold rate
  have hlt := invmap_lt inp h i
  simp only [shiftE] at *
  rw [getD_map_add _ _ _ hlt, getD_map_add _ _ _ hk]
  congr 3
  ring

theorem network_shift (inp : Input) (h : wf inp = true) (c : Int) (u v : List ℚ) :
    network (shiftE inp c) u v = network inp u v := by
  obtain ⟨_, _, _, hjl⟩ := wf_iff inp h
  unfold network
  have hf : flat (shiftE inp c) = flat inp := rfl
  rw [hf]
  apply mapM_congr_mem
  intro x hx
  obtain ⟨k, i, j, dx⟩ := x
  have hk : k < inp.eneT.length := lt_of_lt_of_le (flat_k_lt inp _ hx) hjl
  simp only [mkJump]
  have hn : (shiftE inp c).n = inp.n := rfl
  simp only [hn, rho_shift inp h c, rate_shift inp h c k i hk]
  rfl

/-- **Reference-energy invariance.** Shifting every site and transition-state energy of the
    diffusing species by the same constant changes nothing. -/
theorem shift_invariant (inp : Input) (h : wf inp = true) (c : Int) (u v : List ℚ) :
    form (shiftE inp c) u v = form inp u v := by
  unfold form
  rw [network_shift inp h c u v]
  rfl

/-! ### joint prefactor scaling -/

theorem rho_prescale (inp : Input) (s : ℚ) (hs : s ≠ 0) (i : Nat) :
    rho (scalePre inp s) i = rho inp i := by
  have hemin : emin (scalePre inp s) = emin inp := rfl
  have hw : ∀ i, weight (scalePre inp s) (emin inp) i = s * weight inp (emin inp) i := by
    intro i
    unfold weight
    simp only [scalePre, getD_map_mul]
    ring
  unfold rho Z
  rw [hemin, hw i]
  have : (List.map (weight (scalePre inp s) (emin inp)) (List.range (scalePre inp s).n))
      = (List.map (fun j => s * weight inp (emin inp) j) (List.range inp.n)) := by
    apply List.map_congr_left
    intro j _
    exact hw j
  rw [this, List.sum_map_mul_left]
  exact mul_div_mul_left _ _ hs

theorem rate_prescale (inp : Input) (s : ℚ) (hs : s ≠ 0) (k i : Nat) :
    rate (scalePre inp s) k i = rate inp k i := by
  unfold rate
  simp only [scalePre, getD_map_mul]
  rw [mul_assoc, mul_div_mul_left _ _ hs]

/-- **Prefactor-scale invariance.** -/
theorem prescale_invariant (inp : Input) (s : ℚ) (hs : s ≠ 0) (u v : List ℚ) :
    form (scalePre inp s) u v = form inp u v := by
  have hnet : network (scalePre inp s) u v = network inp u v := by
    unfold network
    have hf : flat (scalePre inp s) = flat inp := rfl
    rw [hf]
    apply mapM_congr_mem
    intro x _
    obtain ⟨k, i, j, dx⟩ := x
    simp only [mkJump]
    have hn : (scalePre inp s).n = inp.n := rfl
    simp only [hn, rho_prescale inp s hs, rate_prescale inp s hs]
    rfl
  unfold form
  rw [hnet]
  rfl

/-! ### homogeneity in the rates -/

theorem forall₂_eq_map {α β : Type} (f : α → β) (l : List α) (l' : List β)
    (h : List.Forall₂ (fun a b => b = f a) l l') : l' = l.map f := by
  induction h with
  | nil => rfl
  | cons hab _ ih => simp [hab, ih]

theorem network_scaleRates (inp : Input) (s : ℚ) (u v : List ℚ) (l l' : List (Jump (Fin inp.n) ℚ))
    (hl : network inp u v = some l) (hl' : network (scaleRates inp s) u v = some l') :
    l' = l.map (Jump.scale s) := by
  apply forall₂_eq_map
  refine C05.mapM_forall₂ (mkJump inp u v) (mkJump (scaleRates inp s) u v) _ ?_ (flat inp) l l' hl hl'
  intro x y z hy hz
  obtain ⟨k, i, j, dx⟩ := x
  simp only [mkJump] at hy hz
  split at hy
  · rename_i hi
    split at hy
    · rename_i hj
      have hi' : i < (scaleRates inp s).n := hi
      have hj' : j < (scaleRates inp s).n := hj
      simp only [hi', hj', dif_pos] at hz
      cases hy; cases hz
      have hrho : rho (scaleRates inp s) i = rho inp i := rfl
      have hrate : rate (scaleRates inp s) k i = s * rate inp k i := by
        unfold rate
        simp only [scaleRates, getD_map_mul]
        ring
      simp only [Jump.scale, hrho, hrate]
      congr 1
      ring
    · cases hy
  · cases hy

/-- **Homogeneity.** Multiplying every jump rate by `s` (the model requires the
    resulting weights to stay non-negative) multiplies the transport form by `s`. -/
theorem rate_homogeneous (inp : Input) (s : ℚ) (u : List ℚ) (D D' : ℚ)
    (h : form inp u u = some D) (h' : form (scaleRates inp s) u u = some D') : D' = s * D := by
  obtain ⟨l, ξ, hl, hst, hp, hr, hD, _⟩ := form_eq_Qmin inp u D h
  obtain ⟨l', ξ', hl', hst', hp', hr', hD', _⟩ := form_eq_Qmin (scaleRates inp s) u D' h'
  have e := network_scaleRates inp s u u l l' hl hl'
  subst e
  rw [hD, hD', ← Q_scale]
  exact Q_stationary_unique _ hp' hr' ξ' ξ hst' (Stationary_scale l s ξ hst)

/-! ### displacement of sites inside the cell -/

/-- projected displacement field of the sites -/
def sfield (inp : Input) (s : List (List ℚ)) (u : List ℚ) : Fin inp.n → ℚ :=
  fun i => dot u (s.getD i.val [])

/-- `dot` is additive on vectors of the full length -/
theorem dot_vsub_vadd (u dx a b : List ℚ) (h1 : dx.length = u.length) (h2 : a.length = u.length)
    (h3 : b.length = u.length) :
    dot u (vsub (vadd dx a) b) = dot u dx + dot u a - dot u b := by
  induction u generalizing dx a b with
  | nil => simp [dot]
  | cons x t ih =>
    match dx, a, b, h1, h2, h3 with
    | d :: dt, a0 :: at', b0 :: bt, h1, h2, h3 =>
      simp only [List.length_cons, Nat.add_right_cancel_iff] at h1 h2 h3
      have := ih dt at' bt h1 h2 h3
      simp only [dot, vsub, vadd, List.zipWith_cons_cons, List.zip_cons_cons, List.map_cons,
        List.sum_cons] at this ⊢
      rw [this]
      ring


def dispEntry (s : List (List ℚ)) : Nat × Nat × Nat × List ℚ → Nat × Nat × Nat × List ℚ
  | (k, i, j, dx) => (k, i, j, vsub (vadd dx (s.getD j [])) (s.getD i []))

theorem zip_range_map {α β : Type} (f : α → β) (l : List α) (n : Nat) :
    List.zip (List.range' n l.length) (l.map f) = (List.zip (List.range' n l.length) l).map (fun p => (p.1, f p.2)) := by
  induction l generalizing n with
  | nil => simp
  | cons a t ih =>
    simp only [List.length_cons, List.range'_succ, List.map_cons, List.zip_cons_cons]
    rw [ih]

theorem flat_displace (inp : Input) (s : List (List ℚ)) :
    flat (displace inp s) = (flat inp).map (dispEntry s) := by
  unfold flat displace
  simp only [List.length_map, List.range_eq_range']
  rw [zip_range_map, List.flatMap_map, List.map_flatMap]
  congr 1
  funext p
  obtain ⟨k, cls⟩ := p
  simp only [List.map_map]
  apply List.map_congr_left
  intro x _
  obtain ⟨i, j, dx⟩ := x
  rfl

theorem mapM_map {α β γ : Type} (f : β → Option γ) (g : α → β) (l : List α) :
    (l.map g).mapM f = l.mapM (f ∘ g) := by
  induction l with
  | nil => simp
  | cons a t ih => simp [List.mapM_cons, ih]

theorem mapM_some_map {α β : Type} (f : α → Option β) (g : β → β) (l : List α) (l' : List β)
    (h : l.mapM f = some l') : l.mapM (fun x => (f x).map g) = some (l'.map g) := by
  induction l generalizing l' with
  | nil => simp at h; subst h; simp
  | cons a t ih =>
    rw [List.mapM_cons] at h
    cases hfa : f a with
    | none => simp [hfa] at h
    | some b =>
      cases ht : t.mapM f with
      | none => simp [hfa, ht] at h
      | some bs =>
        simp [hfa, ht] at h
        subst h
        rw [List.mapM_cons, ih bs ht]
        simp [hfa]

theorem mkJump_displace (inp : Input) (s : List (List ℚ)) (u : List ℚ) (k i j : Nat) (dx : List ℚ)
    (hlen : dx.length = u.length) (hs : ∀ i, i < inp.n → (s.getD i []).length = u.length) :
    mkJump (displace inp s) u u (k, i, j, vsub (vadd dx (s.getD j [])) (s.getD i []))
      = (mkJump inp u u (k, i, j, dx)).map (Jump.shift (sfield inp s u) (sfield inp s u)) := by
  have hrho : ∀ i, rho (displace inp s) i = rho inp i := fun _ => rfl
  have hrate : ∀ k i, rate (displace inp s) k i = rate inp k i := fun _ _ => rfl
  simp only [mkJump]
  by_cases hi : i < inp.n
  · have hi' : i < (displace inp s).n := hi
    by_cases hj : j < inp.n
    · have hj' : j < (displace inp s).n := hj
      simp only [dif_pos hi, dif_pos hj, dif_pos hi', dif_pos hj', Option.map_some, hrho, hrate]
      rw [dot_vsub_vadd u dx _ _ hlen (hs j hj) (hs i hi)]
      rfl
    · have hj' : ¬ j < (displace inp s).n := hj
      simp only [dif_pos hi, dif_neg hj, dif_pos hi', dif_neg hj', Option.map_none]
      rfl
  · have hi' : ¬ i < (displace inp s).n := hi
    simp only [dif_neg hi, dif_neg hi', Option.map_none]
    rfl

theorem network_displace (inp : Input) (s : List (List ℚ)) (u : List ℚ)
    (hdx : ∀ x ∈ flat inp, x.2.2.2.length = u.length)
    (hs : ∀ i, i < inp.n → (s.getD i []).length = u.length)
    (l : List (Jump (Fin inp.n) ℚ)) (hl : network inp u u = some l) :
    network (displace inp s) u u = some (l.map (Jump.shift (sfield inp s u) (sfield inp s u))) := by
  unfold network at hl ⊢
  rw [flat_displace, mapM_map]
  have := mapM_some_map (mkJump inp u u) (Jump.shift (sfield inp s u) (sfield inp s u)) (flat inp) l hl
  rw [← this]
  apply mapM_congr_mem
  intro x hx
  obtain ⟨k, i, j, dx⟩ := x
  have hlen := hdx _ hx
  exact mkJump_displace inp s u k i j dx hlen hs

/-- **Displacement invariance.** Moving sites inside the cell without changing connectivity or
    rates leaves the transport form unchanged (for every direction). -/
theorem displacement_invariant (inp : Input) (s : List (List ℚ)) (u : List ℚ)
    (hdx : ∀ x ∈ flat inp, x.2.2.2.length = u.length)
    (hs : ∀ i, i < inp.n → (s.getD i []).length = u.length) (D D' : ℚ)
    (h : form inp u u = some D) (h' : form (displace inp s) u u = some D') : D' = D := by
  obtain ⟨l, ξ, hl, hst, hp, hr, hD, _⟩ := form_eq_Qmin inp u D h
  obtain ⟨l', ξ', hl', hst', _, _, hD', _⟩ := form_eq_Qmin (displace inp s) u D' h'
  have e := network_displace inp s u hdx hs l hl
  rw [e] at hl'
  cases hl'
  rw [hD, hD']
  exact Qmin_gauge l hp hr (sfield inp s u) (sfield inp s u) ξ ξ' hst hst'

end Onsager.C04
