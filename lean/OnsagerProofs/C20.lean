/-
  C20 — theorems for site symmetry (model: OnsagerModel/C20.lean; source onsager/crystal.py
  genpoint / genWyckoffsets / Wyckoffpos / VectorBasis / SymmTensorBasis / addbasis).

  * `finrank_fixedSpace` (CHAR): for a finite matrix group over a field of characteristic 0 the
    dimension of the fixed vectors is the average trace; `fixedDim_eq_avgTrace`: the same for a list
    accepted by the Boolean test `isMatGroup`, with the model's `avgTrace`;
  * `isInvariantOrthonormalBasis_sound`: orthonormal + each vector fixed + count = that dimension
    ⇒ the vectors span EXACTLY the invariant space;
  * `pointOp_fixes`, `pointOp_isSymmetry`: the shifted operation of `genpoint` is a symmetry that
    fixes the site exactly (not only modulo the lattice);
  * `related_refl/symm/trans`, `mem_orbitOf`, `orbit_eq_of_mem`: the Wyckoff sets are the orbits of
    the index-map action and partition the atoms;
  * `mem_wyckoffPos`, `nodup_wyckoffPos`, `wyckoffPos_distinct_mod_lattice`: `Wyckoffpos` returns the
    complete orbit, each point once, also modulo lattice vectors;
  * `addbasis_keeps_symmetry`: adding a full orbit as a new species, every symmetry of the old
    crystal extends to a symmetry of the new one.
-/
import OnsagerModel.C20
import OnsagerProofs.C18
import Mathlib.LinearAlgebra.Trace
import Mathlib.LinearAlgebra.Matrix.NonsingularInverse
import Mathlib.LinearAlgebra.Matrix.ToLin
import Mathlib.LinearAlgebra.Projection
import Mathlib.LinearAlgebra.FiniteDimensional.Lemmas
import Mathlib.Data.Rat.Floor

namespace Onsager.C20
open Matrix Onsager.C18

section Char
variable {n : Type} [Fintype n] [DecidableEq n] {K : Type} [Field K] [CharZero K]

/-- the vectors fixed by every matrix of `S` -/
def fixedSpace (S : Finset (Matrix n n K)) : Submodule K (n → K) where
  carrier := {v | ∀ A ∈ S, A.mulVec v = v}
  add_mem' := by
    intro a b ha hb A hA
    rw [Matrix.mulVec_add, ha A hA, hb A hA]
  zero_mem' := by intro A _; simp
  smul_mem' := by
    intro c v hv A hA
    rw [Matrix.mulVec_smul, hv A hA]

theorem mem_fixedSpace (S : Finset (Matrix n n K)) (v : n → K) :
    v ∈ fixedSpace S ↔ ∀ A ∈ S, A.mulVec v = v := Iff.rfl

/-- A finite set of matrices containing 1, closed under products, with left inverses. -/
structure IsFinMatGroup (S : Finset (Matrix n n K)) : Prop where
  one_mem : 1 ∈ S
  mul_mem : ∀ a ∈ S, ∀ b ∈ S, a * b ∈ S
  inv_mem : ∀ a ∈ S, ∃ b ∈ S, b * a = 1

theorem IsFinMatGroup.mul_sum {S : Finset (Matrix n n K)} (h : IsFinMatGroup S) {a : Matrix n n K}
    (ha : a ∈ S) : a * ∑ x ∈ S, x = ∑ x ∈ S, x := by
  obtain ⟨b, hb, hba⟩ := h.inv_mem a ha
  have hab : a * b = 1 := _root_.mul_eq_one_comm.1 hba
  rw [Finset.mul_sum]
  refine Finset.sum_nbij' (fun x => a * x) (fun x => b * x) ?_ ?_ ?_ ?_ ?_
  · intro x hx; exact h.mul_mem a ha x hx
  · intro x hx; exact h.mul_mem b hb x hx
  · intro x _; show b * (a * x) = x; rw [← Matrix.mul_assoc, hba, Matrix.one_mul]
  · intro x _; show a * (b * x) = x; rw [← Matrix.mul_assoc, hab, Matrix.one_mul]
  · intro x _; rfl

/-- **Character formula**: the dimension of the space of vectors fixed by a finite matrix group is
    the average of the traces. -/
theorem finrank_fixedSpace {S : Finset (Matrix n n K)} (h : IsFinMatGroup S) :
    (Module.finrank K (fixedSpace S) : K) = (S.card : K)⁻¹ * ∑ A ∈ S, A.trace := by
  have hcard : (S.card : K) ≠ 0 := by
    have : S.card ≠ 0 := Finset.card_ne_zero.2 ⟨1, h.one_mem⟩
    exact_mod_cast this
  set avg : Matrix n n K := (S.card : K)⁻¹ • ∑ x ∈ S, x with havg
  have hproj : LinearMap.IsProj (fixedSpace S) (Matrix.toLin' avg) := by
    constructor
    · intro v A hA
      rw [Matrix.toLin'_apply, Matrix.mulVec_mulVec, havg, Matrix.mul_smul, h.mul_sum hA]
    · intro v hv
      rw [Matrix.toLin'_apply, havg, Matrix.smul_mulVec, Matrix.sum_mulVec]
      have : ∑ x ∈ S, x.mulVec v = (S.card : K) • v := by
        rw [Finset.sum_congr rfl (fun x hx => hv x hx), Finset.sum_const, Nat.cast_smul_eq_nsmul]
      rw [this, smul_smul, inv_mul_cancel₀ hcard, one_smul]
  have htr := hproj.trace
  rw [Matrix.trace_toLin'_eq] at htr
  rw [← htr, havg, Matrix.trace_smul, Matrix.trace_sum, smul_eq_mul]

end Char

/-! ### The Boolean group test of the model implies the hypotheses of the character formula -/

section Model
variable {m : Nat}

theorem oneQ_eq : (oneQ : QMat m) = (1 : Matrix (Fin m) (Fin m) ℚ) := by
  funext i j; simp [oneQ, Matrix.one_apply]

theorem traceQ_eq (A : QMat m) : traceQ A = Matrix.trace (toM A) := by
  simp [traceQ, Matrix.trace, List.sum_ofFn]

/-- the matrices of the list, as a finite set of Mathlib matrices -/
noncomputable def matSet (Ms : List (QMat m)) : Finset (Matrix (Fin m) (Fin m) ℚ) :=
  by classical exact (Ms.map (fun A => toM A)).toFinset

theorem mem_matSet (Ms : List (QMat m)) (A : Matrix (Fin m) (Fin m) ℚ) : A ∈ matSet Ms ↔ A ∈ Ms := by
  classical
  simp only [matSet, List.mem_toFinset, List.mem_map]
  constructor
  · rintro ⟨a, ha, rfl⟩; exact ha
  · intro h; exact ⟨A, h, rfl⟩

theorem isMatGroup_sound (Ms : List (QMat m)) (h : isMatGroup Ms = true) :
    IsFinMatGroup (matSet Ms) ∧ Ms.Nodup := by
  simp only [isMatGroup, Bool.and_eq_true, List.any_eq_true, List.all_eq_true, matEqR_iff,
    decide_eq_true_eq, tabM_eq] at h
  obtain ⟨⟨⟨h1, h2⟩, h3⟩, h4⟩ := h
  refine ⟨⟨?_, ?_, ?_⟩, ?_⟩
  · obtain ⟨A, hA, rfl⟩ := h1
    rw [mem_matSet, ← oneQ_eq]; exact hA
  · intro a ha b hb
    rw [mem_matSet] at *
    obtain ⟨C, hC, hCe⟩ := h2 a ha b hb
    have e : mmulR a b = a * b := mmulR_eq a b
    rw [hCe, e] at hC
    exact hC
  · intro a ha
    rw [mem_matSet] at ha
    obtain ⟨B, hB, hBe⟩ := h3 a ha
    refine ⟨B, (mem_matSet Ms B).2 hB, ?_⟩
    have e : mmulR B a = toM B * a := mmulR_eq B a
    rw [e, oneQ_eq] at hBe
    exact hBe
  · refine h4.imp ?_
    intro A B hAB hEq
    rw [hEq] at hAB
    have : matEqR B B = true := (matEqR_iff B B).2 rfl
    rw [this] at hAB
    exact Bool.noConfusion hAB

/-- **CHAR for the model**: for a list of rational matrices accepted by `isMatGroup`, the
    dimension of the space of vectors fixed by all of them equals the model's `avgTrace`
    (= `(1/|P|) Σ tr`). -/
theorem fixedDim_eq_avgTrace (Ms : List (QMat m)) (h : isMatGroup Ms = true) :
    (Module.finrank ℚ (fixedSpace (matSet Ms)) : ℚ) = avgTrace Ms := by
  classical
  obtain ⟨hg, hnd⟩ := isMatGroup_sound Ms h
  rw [finrank_fixedSpace hg]
  have hmap : Ms.map (fun A => toM A) = Ms := List.map_id Ms
  have hnd' : (Ms.map (fun A => toM A)).Nodup := by rw [hmap]; exact hnd
  have hcard : (matSet Ms).card = Ms.length := by
    simp only [matSet]
    rw [List.toFinset_card_of_nodup hnd', List.length_map]
  have hsum : ∑ A ∈ matSet Ms, A.trace = (Ms.map traceQ).sum := by
    simp only [matSet]
    rw [List.sum_toFinset _ hnd']
    simp only [List.map_map]
    congr 1
    apply List.map_congr_left
    intro A _
    simp [traceQ_eq]
  rw [hcard, hsum, avgTrace, div_eq_inv_mul]

end Model

/-! ### Soundness of the basis check -/

section Basis
variable {n : Type} [Fintype n] [DecidableEq n] {K : Type} [Field K] [CharZero K]

theorem linearIndependent_of_orthonormal {ι : Type} [Fintype ι] [DecidableEq ι] (b : ι → n → K)
    (horth : ∀ i j, b i ⬝ᵥ b j = if i = j then 1 else 0) : LinearIndependent K b := by
  rw [Fintype.linearIndependent_iff]
  intro c hc j
  have := congrArg (fun v => b j ⬝ᵥ v) hc
  simp only [dotProduct_sum, dotProduct_smul, horth, dotProduct_zero, smul_eq_mul] at this
  simpa using this

/-- **Soundness of the invariant-basis check**: a family of vectors that is orthonormal, consists of
    vectors fixed by every matrix of the group, and has as many members as the dimension given by the
    character formula, spans EXACTLY the space of invariant vectors. -/
theorem isInvariantOrthonormalBasis_sound {ι : Type} [Fintype ι] [DecidableEq ι]
    (S : Finset (Matrix n n K)) (b : ι → n → K)
    (horth : ∀ i j, b i ⬝ᵥ b j = if i = j then 1 else 0)
    (hfix : ∀ i, ∀ A ∈ S, A.mulVec (b i) = b i)
    (hcount : Fintype.card ι = Module.finrank K (fixedSpace S)) :
    Submodule.span K (Set.range b) = fixedSpace S := by
  have hli := linearIndependent_of_orthonormal b horth
  have hle : Submodule.span K (Set.range b) ≤ fixedSpace S := by
    rw [Submodule.span_le]
    rintro _ ⟨i, rfl⟩
    exact hfix i
  apply Submodule.eq_of_le_of_finrank_eq hle
  rw [finrank_span_eq_card hli, hcount]

/-- with the character formula plugged in: the count is compared with the average trace -/
theorem isInvariantOrthonormalBasis_sound' {ι : Type} [Fintype ι] [DecidableEq ι]
    {S : Finset (Matrix n n K)} (hS : IsFinMatGroup S) (b : ι → n → K)
    (horth : ∀ i j, b i ⬝ᵥ b j = if i = j then 1 else 0)
    (hfix : ∀ i, ∀ A ∈ S, A.mulVec (b i) = b i)
    (hcount : (Fintype.card ι : K) = (S.card : K)⁻¹ * ∑ A ∈ S, A.trace) :
    Submodule.span K (Set.range b) = fixedSpace S := by
  apply isInvariantOrthonormalBasis_sound S b horth hfix
  have := finrank_fixedSpace hS
  rw [← hcount] at this
  exact_mod_cast this.symm

end Basis

/-! ### Point group of a site (`genpoint`) -/

section Crystal
variable {d : Nat}

theorem rat_floor_eq (q : ℚ) : q.floor = ⌊q⌋ := rfl

theorem roundV_castV (n : Vec d Int) : roundV (castV n) = n := by
  funext i
  simp only [roundV, castV, rat_floor_eq]
  rw [Int.floor_eq_iff]
  constructor <;> norm_num

/-- translating a symmetry operation by a lattice vector gives a symmetry operation -/
theorem _root_.Onsager.C18.IsSymmetry.addT {c : Crystal d} {g : GroupOp d} (h : IsSymmetry c g) (n : Vec d Int) :
    IsSymmetry c (g.addT n) := by
  refine ⟨h.metric, h.unimod, h.perm, ?_, h.spin⟩
  intro s hs i hi
  obtain ⟨m, hm⟩ := h.maps s hs i hi
  refine ⟨m + n, ?_⟩
  rw [GroupOp.act_addT, hm, addV_assoc, castV_add]
  rfl

/-- the operation that `genpoint` stores for site `(s,i)` is again a symmetry operation … -/
theorem pointOp_isSymmetry {c : Crystal d} {g : GroupOp d} (h : IsSymmetry c g) (s i : Nat) :
    IsSymmetry c (pointOp c g s i) := h.addT _

/-- … and it fixes the site EXACTLY (not only up to a lattice vector): `R u + t' = u`. -/
theorem pointOp_fixes {c : Crystal d} {g : GroupOp d} (h : IsSymmetry c g) {s i : Nat}
    (hs : s < c.nspecies) (hi : i < c.natoms s) (hfix : g.imap s i = i) :
    (pointOp c g s i).act (c.pos s i) = c.pos s i := by
  obtain ⟨n, hn⟩ := h.maps s hs i hi
  rw [hfix] at hn
  have hdel : roundV (subV (g.act (c.pos s i)) (c.pos s (g.imap s i))) = n := by
    rw [hfix, hn]
    have : subV (addV (c.pos s i) (castV n)) (c.pos s i) = castV n := by
      funext k; simp [subV, addV]
    rw [this, roundV_castV]
  simp only [pointOp, hdel]
  rw [GroupOp.act_addT, hn]
  funext k; simp [addV, castV]

/-- every member of the model's `pointGroup` is a symmetry operation fixing the site -/
theorem pointGroup_fixes {c : Crystal d} {G : List (GroupOp d)} (hG : ∀ g ∈ G, IsSymmetry c g)
    {s i : Nat} (hs : s < c.nspecies) (hi : i < c.natoms s) :
    ∀ p ∈ pointGroup c G s i, IsSymmetry c p ∧ p.act (c.pos s i) = c.pos s i := by
  intro p hp
  simp only [pointGroup, List.mem_map, List.mem_filter, beq_iff_eq, GroupOp.tab_eq] at hp
  obtain ⟨g, ⟨hg, hfix⟩, rfl⟩ := hp
  exact ⟨pointOp_isSymmetry (hG g hg) s i, pointOp_fixes (hG g hg) hs hi hfix⟩

/-! ### Wyckoff sets are the orbits of the index-map action (ORB) -/

/-- atoms `i`, `j` of species `s` are related when some reported operation maps `i` to `j` -/
def Related (G : List (GroupOp d)) (s i j : Nat) : Prop := ∃ g ∈ G, g.imap s i = j

theorem imap_addT (g : GroupOp d) (n : Vec d Int) (s i : Nat) : (g.addT n).imap s i = g.imap s i := rfl

variable {c : Crystal d} {G : List (GroupOp d)}

theorem related_refl (hgrp : IsGroupModT c.shape G) {s i : Nat} (hs : s < c.nspecies)
    (hi : i < c.natoms s) : Related G s i i := by
  obtain ⟨k, hk, n, rfl⟩ := hgrp.ident
  refine ⟨_, hk, ?_⟩
  rw [imap_addT]
  have hs' : s < c.shape.length := by rwa [Crystal.shape_length]
  have hsh : c.shape[s] = c.natoms s := by
    have := c.shape_getD s
    simpa [List.getD_eq_getElem?_getD, List.getElem?_eq_getElem hs'] using this
  simp [GroupOp.imap, GroupOp.ident, List.getD_eq_getElem?_getD, List.getElem?_map,
    List.getElem?_eq_getElem hs', hsh, List.getElem?_range hi]

theorem related_trans (hsym : ∀ g ∈ G, IsSymmetry c g) (hgrp : IsGroupModT c.shape G) {s i j k : Nat}
    (hs : s < c.nspecies) (hi : i < c.natoms s) (hij : Related G s i j) (hjk : Related G s j k) :
    Related G s i k := by
  obtain ⟨g, hg, rfl⟩ := hij
  obtain ⟨h, hh, rfl⟩ := hjk
  obtain ⟨_, p, hp, n, rfl⟩ := hgrp.mul h hh g hg
  refine ⟨_, hp, ?_⟩
  rw [imap_addT]
  exact GroupOp.imap_mul (hsym h hh).perm (hsym g hg).perm (by rwa [Crystal.shape_length])
    (by rwa [Crystal.shape_getD])

theorem related_symm (hsym : ∀ g ∈ G, IsSymmetry c g) (hgrp : IsGroupModT c.shape G) {s i j : Nat}
    (hs : s < c.nspecies) (hi : i < c.natoms s) (hij : Related G s i j) : Related G s j i := by
  obtain ⟨g, hg, rfl⟩ := hij
  obtain ⟨gi, hgi, k, hk, n, rfl⟩ := hgrp.inv g hg
  refine ⟨_, hk, ?_⟩
  rw [imap_addT]
  have hS := hsym g hg
  obtain ⟨B, hB, hr, ht, hidx⟩ := GroupOp.inv?_some hgi
  have hj : g.imap s i < c.natoms s := hS.imap_lt hs hi
  have := GroupOp.imap_inv hS.perm hidx (s := s) (j := g.imap s i) (by rwa [Crystal.shape_length])
    (by rwa [Crystal.shape_getD])
  rw [Crystal.shape_getD] at this
  exact hS.imap_inj hs this.1 hi this.2

/-- membership in the sorted duplicate-free orbit list -/
theorem mem_insertSorted (a b : Nat) : ∀ l : List Nat, b ∈ insertSorted a l ↔ b = a ∨ b ∈ l
  | [] => by simp [insertSorted]
  | x :: l => by
    unfold insertSorted
    split
    · simp
    · split
      · rename_i h1 h2; subst h2; simp
      · simp [mem_insertSorted a b l]; tauto

theorem mem_foldl_insertSorted (f : GroupOp d → Nat) (b : Nat) :
    ∀ (G : List (GroupOp d)) (acc : List Nat),
      b ∈ G.foldl (fun acc g => insertSorted (f g) acc) acc ↔ b ∈ acc ∨ ∃ g ∈ G, f g = b
  | [], acc => by simp
  | g :: G, acc => by
    simp only [List.foldl_cons, mem_foldl_insertSorted f b G, mem_insertSorted, List.mem_cons,
      exists_eq_or_imp]
    constructor
    · rintro ((h | h) | h)
      · exact Or.inr (Or.inl h.symm)
      · exact Or.inl h
      · exact Or.inr (Or.inr h)
    · rintro (h | h | h)
      · exact Or.inl (Or.inr h)
      · exact Or.inl (Or.inl h.symm)
      · exact Or.inr h

/-- the model's Wyckoff set of atom `(s,i)` is exactly its orbit -/
theorem mem_orbitOf (G : List (GroupOp d)) (s i j : Nat) : j ∈ orbitOf G s i ↔ Related G s i j := by
  simp [orbitOf, mem_foldl_insertSorted, Related]

/-- **Wyckoff sets partition the atoms into orbits**: an atom lies in its own set, and the sets
    of two atoms are equal (same members) as soon as one atom lies in the set of the other. -/
theorem orbit_eq_of_mem (hsym : ∀ g ∈ G, IsSymmetry c g) (hgrp : IsGroupModT c.shape G) {s i j : Nat}
    (hs : s < c.nspecies) (hi : i < c.natoms s) (hj : j ∈ orbitOf G s i) :
    ∀ k, k ∈ orbitOf G s j ↔ k ∈ orbitOf G s i := by
  intro k
  rw [mem_orbitOf, mem_orbitOf]
  rw [mem_orbitOf] at hj
  have hjlt : j < c.natoms s := by
    obtain ⟨g, hg, rfl⟩ := hj
    exact (hsym g hg).imap_lt hs hi
  constructor
  · intro hjk; exact related_trans hsym hgrp hs hi hj hjk
  · intro hik
    exact related_trans hsym hgrp hs hjlt (related_symm hsym hgrp hs hi hj) hik

theorem self_mem_orbitOf (hgrp : IsGroupModT c.shape G) {s i : Nat} (hs : s < c.nspecies)
    (hi : i < c.natoms s) : i ∈ orbitOf G s i :=
  (mem_orbitOf G s i i).2 (related_refl hgrp hs hi)

theorem orbitOf_lt (hsym : ∀ g ∈ G, IsSymmetry c g) {s i j : Nat} (hs : s < c.nspecies)
    (hi : i < c.natoms s) (hj : j ∈ orbitOf G s i) : j < c.natoms s := by
  obtain ⟨g, hg, rfl⟩ := (mem_orbitOf G s i j).1 hj
  exact (hsym g hg).imap_lt hs hi

end Crystal

/-! ### `Wyckoffpos`: the complete orbit, each point once -/

section Wyckoff
variable {d : Nat}

theorem any_vecEqR_iff (x : Vec d Rat) (lis : List (Vec d Rat)) :
    lis.any (fun y => vecEqR x y) = true ↔ x ∈ lis := by
  simp only [List.any_eq_true, vecEqR_iff]
  constructor
  · rintro ⟨y, hy, rfl⟩; exact hy
  · intro h; exact ⟨x, h, rfl⟩

/-- the fold used by `wyckoffPos`, for an arbitrary key -/
def dedupFold (key : GroupOp d → Vec d Rat) (G : List (GroupOp d)) (acc : List (Vec d Rat)) :
    List (Vec d Rat) :=
  G.foldl (fun lis g => if lis.any (fun y => vecEqR (key g) y) then lis else lis ++ [key g]) acc

theorem mem_dedupFold (key : GroupOp d → Vec d Rat) (y : Vec d Rat) :
    ∀ (G : List (GroupOp d)) (acc : List (Vec d Rat)),
      y ∈ dedupFold key G acc ↔ y ∈ acc ∨ ∃ g ∈ G, y = key g
  | [], acc => by simp [dedupFold]
  | g :: G, acc => by
    unfold dedupFold
    rw [List.foldl_cons]
    have ih := mem_dedupFold key y G
    unfold dedupFold at ih
    rw [ih]
    by_cases hmem : key g ∈ acc
    · rw [if_pos ((any_vecEqR_iff _ _).2 hmem)]
      constructor
      · rintro (h | ⟨g', hg', rfl⟩)
        · exact Or.inl h
        · exact Or.inr ⟨g', List.mem_cons_of_mem _ hg', rfl⟩
      · rintro (h | ⟨g', hg', rfl⟩)
        · exact Or.inl h
        · rcases List.mem_cons.1 hg' with rfl | hg'
          · exact Or.inl hmem
          · exact Or.inr ⟨g', hg', rfl⟩
    · rw [if_neg (fun h => hmem ((any_vecEqR_iff _ _).1 h))]
      constructor
      · rintro (h | ⟨g', hg', rfl⟩)
        · rcases List.mem_append.1 h with h | h
          · exact Or.inl h
          · exact Or.inr ⟨g, List.mem_cons_self, by simpa using h⟩
        · exact Or.inr ⟨g', List.mem_cons_of_mem _ hg', rfl⟩
      · rintro (h | ⟨g', hg', rfl⟩)
        · exact Or.inl (List.mem_append_left _ h)
        · rcases List.mem_cons.1 hg' with rfl | hg'
          · exact Or.inl (List.mem_append_right _ (by simp))
          · exact Or.inr ⟨g', hg', rfl⟩

theorem nodup_dedupFold (key : GroupOp d → Vec d Rat) :
    ∀ (G : List (GroupOp d)) (acc : List (Vec d Rat)), acc.Nodup → (dedupFold key G acc).Nodup
  | [], acc, h => by simpa [dedupFold] using h
  | g :: G, acc, h => by
    unfold dedupFold
    rw [List.foldl_cons]
    have ih := nodup_dedupFold key G
    unfold dedupFold at ih
    apply ih
    by_cases hmem : key g ∈ acc
    · rw [if_pos ((any_vecEqR_iff _ _).2 hmem)]; exact h
    · rw [if_neg (fun h => hmem ((any_vecEqR_iff _ _).1 h))]
      exact List.Nodup.append h (by simp) (by simpa using hmem)

theorem wyckoffPos_eq (G : List (GroupOp d)) (u : Vec d Rat) :
    wyckoffPos G u = dedupFold (fun g => incell (g.act u)) G [] := by
  simp only [wyckoffPos, dedupFold, tabVs_eq, List.foldl_map]

/-- **completeness and soundness of `Wyckoffpos`**: the returned list consists exactly of the
    images `g·u` (reduced into the cell) of `u` under the reported operations -/
theorem mem_wyckoffPos (G : List (GroupOp d)) (u y : Vec d Rat) :
    y ∈ wyckoffPos G u ↔ ∃ g ∈ G, y = incell (g.act u) := by
  rw [wyckoffPos_eq, mem_dedupFold]; simp

/-- … **without duplicates** … -/
theorem nodup_wyckoffPos (G : List (GroupOp d)) (u : Vec d Rat) : (wyckoffPos G u).Nodup := by
  rw [wyckoffPos_eq]; exact nodup_dedupFold _ G [] List.nodup_nil

theorem incell_range (v : Vec d Rat) (i : Fin d) : 0 ≤ incell v i ∧ incell v i < 1 := by
  simp only [incell, rat_floor_eq]
  constructor
  · have := Int.floor_le (v i); linarith
  · have := Int.lt_floor_add_one (v i); linarith

/-- … also modulo lattice vectors: two returned points that differ by an integer vector coincide -/
theorem wyckoffPos_distinct_mod_lattice (G : List (GroupOp d)) (u x y : Vec d Rat)
    (hx : x ∈ wyckoffPos G u) (hy : y ∈ wyckoffPos G u) (n : Vec d Int)
    (hxy : subV x y = castV n) : x = y := by
  obtain ⟨g, _, rfl⟩ := (mem_wyckoffPos G u x).1 hx
  obtain ⟨h, _, rfl⟩ := (mem_wyckoffPos G u y).1 hy
  funext i
  have h1 := incell_range (g.act u) i
  have h2 := incell_range (h.act u) i
  have h3 : incell (g.act u) i - incell (h.act u) i = (n i : ℚ) := by
    have := congrFun hxy i; simpa [subV, castV] using this
  have hn : n i = 0 := by
    have hlt : ((n i : ℤ) : ℚ) < 1 := by rw [← h3]; linarith
    have hgt : (-1 : ℚ) < ((n i : ℤ) : ℚ) := by rw [← h3]; linarith
    have hlt' : n i < 1 := by exact_mod_cast hlt
    have hgt' : -1 < n i := by exact_mod_cast hgt
    omega
  rw [hn] at h3
  have : incell (g.act u) i = incell (h.act u) i := by
    have : ((0 : ℤ) : ℚ) = 0 := by norm_num
    linarith
  exact this

/-- every image of `u` is equivalent, modulo the lattice, to a returned point -/
theorem wyckoffPos_complete (G : List (GroupOp d)) (u : Vec d Rat) {g : GroupOp d} (hg : g ∈ G) :
    ∃ y ∈ wyckoffPos G u, ∃ n : Vec d Int, g.act u = addV y (castV n) := by
  refine ⟨incell (g.act u), (mem_wyckoffPos G u _).2 ⟨g, hg, rfl⟩, fun i => ⌊g.act u i⌋, ?_⟩
  funext i
  simp [addV, castV, incell, rat_floor_eq]

end Wyckoff

/-! ### `addbasis` of a full orbit keeps the symmetry -/

section Addbasis
variable {d : Nat}

theorem addbasis_nspecies (c : Crystal d) (sites : List (Vec d Rat)) :
    (addbasis c sites).nspecies = c.nspecies + 1 := by simp [addbasis, Crystal.nspecies]

theorem addbasis_shape (c : Crystal d) (sites : List (Vec d Rat)) :
    (addbasis c sites).shape = c.shape ++ [sites.length] := by simp [addbasis, Crystal.shape]

theorem getD_append_lt {α : Type} (l r : List α) (dflt : α) {s : Nat} (h : s < l.length) :
    (l ++ r).getD s dflt = l.getD s dflt := by
  simp [List.getD_eq_getElem?_getD, List.getElem?_append_left h]

theorem getD_append_eq {α : Type} (l : List α) (x dflt : α) : (l ++ [x]).getD l.length dflt = x := by
  simp [List.getD_eq_getElem?_getD]

theorem addbasis_old (c : Crystal d) (sites : List (Vec d Rat)) {s : Nat} (hs : s < c.nspecies) :
    (addbasis c sites).natoms s = c.natoms s ∧ (∀ i, (addbasis c sites).pos s i = c.pos s i) := by
  have h : (c.basis ++ [sites]).getD s [] = c.basis.getD s [] := getD_append_lt _ _ _ hs
  refine ⟨?_, fun i => ?_⟩
  · simp only [addbasis, Crystal.natoms]; rw [h]
  · simp only [addbasis, Crystal.pos]; rw [h]

theorem addbasis_new (c : Crystal d) (sites : List (Vec d Rat)) :
    (addbasis c sites).natoms c.nspecies = sites.length ∧
    (∀ i, (addbasis c sites).pos c.nspecies i = sites.getD i zeroV) := by
  have h : (c.basis ++ [sites]).getD c.nspecies [] = sites := getD_append_eq _ _ _
  refine ⟨?_, fun i => ?_⟩
  · simp only [addbasis, Crystal.natoms]; rw [h]
  · simp only [addbasis, Crystal.pos]; rw [h]

/-- Adding, as a new species, a set of sites that is closed under a symmetry operation `g` of the
    crystal (as a full orbit from `Wyckoffpos` is, for every reported operation) and whose points are
    distinct modulo the lattice: `g` extends — same rotation, same translation, one more index list —
    to a symmetry operation of the new crystal.  Hence the symmetry of the original crystal is intact. -/
theorem addbasis_keeps_symmetry (c : Crystal d) (g : GroupOp d) (h : IsSymmetry c g)
    (sites : List (Vec d Rat)) (hspins : c.spins.length = c.basis.length)
    (hdist : ∀ a < sites.length, ∀ b < sites.length,
      (∃ n : Vec d Int, subV (sites.getD a zeroV) (sites.getD b zeroV) = castV n) → a = b)
    (hclosed : ∀ a < sites.length, ∃ b < sites.length, ∃ n : Vec d Int,
      g.act (sites.getD a zeroV) = addV (sites.getD b zeroV) (castV n)) :
    ∃ im : List Nat,
      IsSymmetry (addbasis c sites) { rot := g.rot, trans := g.trans, indexmap := g.indexmap ++ [im] } := by
  classical
  -- the index map of the new species
  let β : Nat → Nat := fun a => if ha : a < sites.length then Classical.choose (hclosed a ha) else 0
  have hβ : ∀ a (ha : a < sites.length), β a < sites.length ∧ ∃ n : Vec d Int,
      g.act (sites.getD a zeroV) = addV (sites.getD (β a) zeroV) (castV n) := by
    intro a ha
    have := Classical.choose_spec (hclosed a ha)
    simp only [β, dif_pos ha]
    exact this
  let im : List Nat := (List.range sites.length).map β
  have himlen : im.length = sites.length := by simp [im]
  have himget : ∀ a, a < sites.length → im.getD a 0 = β a := by
    intro a ha
    simp [im, List.getD_eq_getElem?_getD, List.getElem?_map, List.getElem?_range ha]
  -- β is injective: g is injective modulo the lattice
  obtain ⟨B, hBA, hAB⟩ := h.unimod
  have hinj : ∀ a < sites.length, ∀ b < sites.length, β a = β b → a = b := by
    intro a ha b hb hab
    obtain ⟨_, na, hna⟩ := hβ a ha
    obtain ⟨_, nb, hnb⟩ := hβ b hb
    apply hdist a ha b hb
    -- R (x_a - x_b) = na - nb  ⇒  x_a - x_b = B (na - nb)
    have hR : mulVecR (castM g.rot) (subV (sites.getD a zeroV) (sites.getD b zeroV)) = castV (na - nb) := by
      rw [← GroupOp.act_sub, hna, hnb, hab]
      funext k; simp [subV, addV, castV]
    refine ⟨mulVecI B (na - nb), ?_⟩
    have := congrArg (mulVecR (castM B)) hR
    rw [← mulVecR_mmul, hBA, mulVecR_one, mulVecR_castV] at this
    exact this
  have himperm : im.Perm (List.range sites.length) := by
    apply GroupOp.perm_range_of_nodup himlen
    · intro j hj
      simp only [im, List.mem_map, List.mem_range] at hj
      obtain ⟨a, ha, rfl⟩ := hj
      exact (hβ a ha).1
    · simp only [im]
      refine (List.nodup_map_iff_inj_on List.nodup_range).2 ?_
      intro a ha b hb hab
      exact hinj a (List.mem_range.1 ha) b (List.mem_range.1 hb) hab
  have hlenG : g.indexmap.length = c.nspecies := by
    have := ((GroupOp.permWF_iff _ _).1 h.perm).1
    rwa [Crystal.shape_length] at this
  refine ⟨im, h.metric, ⟨B, hBA, hAB⟩, ?_, ?_, ?_⟩
  · -- permutation shape
    show List.Forall₂ _ _ _
    rw [addbasis_shape]
    exact List.rel_append h.perm (List.Forall₂.cons himperm List.Forall₂.nil)
  · intro s hs i hi
    rw [addbasis_nspecies] at hs
    by_cases hs' : s < c.nspecies
    · obtain ⟨hnat, hpos⟩ := addbasis_old c sites hs'
      rw [hnat] at hi
      obtain ⟨n, hn⟩ := h.maps s hs' i hi
      refine ⟨n, ?_⟩
      have himap : GroupOp.imap (d := d) { rot := g.rot, trans := g.trans, indexmap := g.indexmap ++ [im] } s i
          = g.imap s i := by
        simp only [GroupOp.imap]
        rw [getD_append_lt _ _ _ (hlenG ▸ hs')]
      rw [hpos, hpos, himap]
      exact hn
    · have hse : s = c.nspecies := by omega
      subst hse
      obtain ⟨hnat, hpos⟩ := addbasis_new c sites
      rw [hnat] at hi
      obtain ⟨_, n, hn⟩ := hβ i hi
      refine ⟨n, ?_⟩
      have himap : GroupOp.imap (d := d) { rot := g.rot, trans := g.trans, indexmap := g.indexmap ++ [im] }
          c.nspecies i = β i := by
        simp only [GroupOp.imap]
        rw [← hlenG, getD_append_eq, himget i hi]
      rw [hpos, hpos, himap]
      exact hn
  · obtain ⟨φ, hφ, hsp⟩ := h.spin
    refine ⟨φ, hφ, ?_⟩
    intro s hs i hi
    rw [addbasis_nspecies] at hs
    by_cases hs' : s < c.nspecies
    · obtain ⟨hnat, _⟩ := addbasis_old c sites hs'
      rw [hnat] at hi
      have hspin : ∀ j, (addbasis c sites).spin s j = c.spin s j := by
        intro j
        simp only [addbasis, Crystal.spin]
        rw [getD_append_lt _ _ _ (by rw [hspins]; exact hs')]
      have himap : GroupOp.imap (d := d) { rot := g.rot, trans := g.trans, indexmap := g.indexmap ++ [im] } s i
          = g.imap s i := by
        simp only [GroupOp.imap]
        rw [getD_append_lt _ _ _ (hlenG ▸ hs')]
      rw [hspin, hspin, himap]
      exact hsp s hs' i hi
    · have hse : s = c.nspecies := by omega
      subst hse
      have hspin : ∀ j, (addbasis c sites).spin c.nspecies j = 0 := by
        intro j
        simp only [addbasis, Crystal.spin]
        have : c.nspecies = c.spins.length := by rw [hspins]; rfl
        rw [this, getD_append_eq, List.getD_eq_getElem?_getD, List.getElem?_map]
        cases sites[j]? <;> rfl
      rw [hspin, hspin]; simp

end Addbasis

/-! ### Non-vacuity -/

section Examples

/-- the 4-fold rotation group of the square lattice -/
def exC4 : List (Mat 2 Int) :=
  [ fun i j => if i = j then 1 else 0,
    fun i j => if i = 0 ∧ j = 1 then -1 else if i = 1 ∧ j = 0 then 1 else 0,
    fun i j => if i = j then -1 else 0,
    fun i j => if i = 0 ∧ j = 1 then 1 else if i = 1 ∧ j = 0 then -1 else 0 ]

example : isMatGroup (vecRep exC4) = true := by decide +kernel
example : isMatGroup (symRep exC4) = true := by decide +kernel
/-- no invariant vector, one invariant symmetric tensor (the isotropic one) -/
example : avgTrace (vecRep exC4) = 0 ∧ avgTrace (symRep exC4) = 1 := by decide +kernel
example : (Module.finrank ℚ (fixedSpace (matSet (symRep exC4))) : ℚ) = 1 := by
  rw [fixedDim_eq_avgTrace _ (by decide +kernel)]; decide +kernel

/-- site (1,0) of `Onsager.C18.exCrystal` under its full group: the point group has 4 elements,
    and they fix the site exactly -/
example : (pointGroup exCrystal (gengroup exCrystal) 1 0).length = 4 := by decide +kernel
example : wyckoffSets exCrystal (gengroup exCrystal) = [(0, [0]), (1, [0, 1])] := by decide +kernel
example : (wyckoffPos (gengroup exCrystal) (fun i => if i = 0 then 1/4 else 0)).length = 4 := by
  decide +kernel

end Examples

end Onsager.C20
