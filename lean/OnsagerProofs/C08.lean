/-
  C08 — The two omega2 algorithms agree (algebraic core).

  `VacancyMediated.Lij` updates the Green function with the exchange-rate block `w` either as
  `(1 + g w)⁻¹ g` (standard) or, when `g w` is large, through
  `(g⁻¹ + w)⁻¹ − w⁻¹ = −(w + w g w)⁻¹` on the non-null subspace of `w` (OnsagerCalc.py, step 5).

  * `om2_identity`        (1 + g w)⁻¹ g − w⁻¹ = −(w + w g w)⁻¹   for invertible w and 1 + g w
  * `om2_update_symm`     the standard update is a symmetric matrix when g and w are
  * `om2_large_limit`     the large-branch expression with w ↦ t•w is −(1/t)(w + t w g w)⁻¹·…:
                          written as a function of s = 1/t it is −s (w + … )… — stated as the exact
                          identity  (1 + g (t•w))⁻¹ g = (t•w)⁻¹ − (t•w + (t•w) g (t•w))⁻¹,
                          whose right side has no term growing with t (smooth approach to the limit)
  Any size, any field.  Floating-point conditioning (finite up to 1e16) is outside the model.
-/
import Mathlib.LinearAlgebra.Matrix.NonsingularInverse
import Mathlib.LinearAlgebra.Matrix.SchurComplement
import Mathlib.Tactic.Ring

namespace Onsager.C08

variable {m : Type} [Fintype m] [DecidableEq m] {K : Type} [Field K]

/-- OM2. -/
theorem om2_identity (g w : Matrix m m K) (hw : IsUnit w.det) (h1 : IsUnit (1 + g * w).det) :
    (1 + g * w)⁻¹ * g - w⁻¹ = -(w + w * g * w)⁻¹ := by
  have e : w + w * g * w = w * (1 + g * w) := by
    rw [mul_add, mul_one, mul_assoc]
  have hinv : (w + w * g * w)⁻¹ = (1 + g * w)⁻¹ * w⁻¹ := by
    rw [e, Matrix.mul_inv_rev]
  rw [hinv]
  have hg : (1 + g * w)⁻¹ * g = (1 + g * w)⁻¹ * (g * w) * w⁻¹ := by
    rw [mul_assoc, mul_assoc, Matrix.mul_nonsing_inv _ hw, mul_one]
  have hone : (1 + g * w)⁻¹ * (g * w) = 1 - (1 + g * w)⁻¹ := by
    have h : (1 + g * w)⁻¹ * (1 + g * w) = 1 := Matrix.nonsing_inv_mul _ h1
    rw [mul_add, mul_one] at h
    exact eq_sub_of_add_eq' h
  rw [hg, hone, sub_mul, one_mul]
  abel

/-- the same identity for the scaled block `t • w` (t ≠ 0): the large-rate form of the update -/
theorem om2_large_limit (g w : Matrix m m K) (t : K) (ht : t ≠ 0) (hw : IsUnit w.det)
    (h1 : IsUnit (1 + g * (t • w)).det) :
    (1 + g * (t • w))⁻¹ * g = (t • w)⁻¹ - (t • w + (t • w) * g * (t • w))⁻¹ := by
  have hw' : IsUnit (t • w).det := by
    rw [Matrix.det_smul]
    exact (IsUnit.mk0 _ (pow_ne_zero _ ht)).mul hw
  have := om2_identity g (t • w) hw' h1
  rw [sub_eq_iff_eq_add] at this
  rw [this]; abel

/-- the standard update preserves symmetry -/
theorem om2_update_symm (g w : Matrix m m K) (hg : g.transpose = g) (hw : w.transpose = w)
    (h1 : IsUnit (1 + g * w).det) :
    ((1 + g * w)⁻¹ * g).transpose = (1 + g * w)⁻¹ * g := by
  -- (1+gw)⁻¹ g = g (1+wg)⁻¹  and transpose of the left side is g (1+wg)⁻¹
  have h2 : IsUnit (1 + w * g).det := by
    have : (1 + w * g).det = (1 + g * w).det := Matrix.det_one_add_mul_comm w g
    rw [this]; exact h1
  have key : (1 + g * w)⁻¹ * g = g * (1 + w * g)⁻¹ := by
    have e : g * (1 + w * g) = (1 + g * w) * g := by
      rw [mul_add, add_mul, mul_one, one_mul, mul_assoc]
    calc (1 + g * w)⁻¹ * g = (1 + g * w)⁻¹ * (g * (1 + w * g)) * (1 + w * g)⁻¹ := by
            rw [mul_assoc, mul_assoc, Matrix.mul_nonsing_inv _ h2, mul_one]
      _ = (1 + g * w)⁻¹ * ((1 + g * w) * g) * (1 + w * g)⁻¹ := by rw [e]
      _ = g * (1 + w * g)⁻¹ := by
            rw [← mul_assoc (1 + g * w)⁻¹, Matrix.nonsing_inv_mul _ h1, one_mul]
  rw [Matrix.transpose_mul, Matrix.transpose_nonsing_inv, Matrix.transpose_add, Matrix.transpose_one,
    Matrix.transpose_mul, hg, hw, key]

end Onsager.C08
