/-
  C18 — theorems about the GroupOp algebra and the verified symmetry checkers
  (model: OnsagerModel/C18.lean; source: onsager/crystal.py GroupOp, Crystal.gengroup).

  For every dimension `d`, every crystal (rational metric, rational unit-cell positions, integer
  spins) and every operation triple (integer rot, rational trans, indexmap):

  * group laws of the triple algebra: `mul_assoc`, `ident_mul`, `mul_ident`, `inv_mul_cancel`,
    `mul_inv_cancel`; affine action: `act_mul`, `act_ident`, `act_inv`, `act_addT`;
  * `isSpaceGroupOp_sound`: the Boolean checker implies the mathematical statement `IsSymmetry`
    (isometry of the metric, unimodular, permutation index map matching the geometry, spins
    preserved up to one global sign), with consequences `IsSymmetry.dist_preserved`,
    `IsSymmetry.maps_occupied`, `IsSymmetry.onto_occupied`, `IsSymmetry.lattice_onto`;
  * `IsSymmetry.mul`, `IsSymmetry.inv`, `IsSymmetry.ident`: the set of ALL symmetry operations
    of a crystal is closed under product and inverse (`all_ops_form_group`);
  * `isGroupModTranslations_sound`: the Boolean checker implies `IsGroupModT`;
    `IsGroupModT.translate_closed`: the translates `{g + n}` are closed under product;
  * `nosym_is_group`: the identity alone passes both checkers.

  * `box_complete`, `candidateRots_complete`: the candidate box taken from the inverse metric
    (source commit 5853619) is complete (Cauchy–Schwarz, via OnsagerProofs/C21Geom): every unimodular
    integer matrix preserving a positive metric is among the rotations that `gengroup` tries.

  NOT proved (named `C18_full` below): that `maptranslation` finds a translation whenever one exists,
  i.e. that the reported set contains every symmetry; closure of the reported set is therefore
  checked per crystal by the verified checker (`C18_partial`).
-/
import OnsagerModel.C18
import OnsagerProofs.C21Geom
import Mathlib.Data.Matrix.Mul
import Mathlib.Data.Matrix.Basic
import Mathlib.Algebra.BigOperators.Fin
import Mathlib.Data.List.Sort
import Mathlib.Data.List.Perm.Subperm
import Mathlib.Data.List.Range
import Mathlib.Data.Rat.Defs
import Mathlib.Tactic.Ring
import Mathlib.Tactic.Abel
import Mathlib.Tactic.Linarith
import Mathlib.Tactic.FinCases

namespace Onsager.C18
open Matrix

variable {d : Nat}

/-! ### Bridge: model linear algebra = Mathlib matrices -/

theorem tabV_eq {α : Type} (v : Vec d α) : tabV v = v := by
  funext i; simp [tabV, TVec.get, TVec.ofFn]

theorem tabM_eq {α : Type} (A : Mat d α) : tabM A = A := by
  funext i j; simp [tabM, TMat.get, TMat.ofFn]

theorem tabVs_eq {α : Type} (l : List (Vec d α)) : tabVs l = l := by
  simp only [tabVs, List.map_map]
  conv_rhs => rw [← List.map_id l]
  apply List.map_congr_left
  intro v _
  exact tabV_eq v

theorem tabMs_eq {α : Type} (l : List (Mat d α)) : tabMs l = l := by
  simp only [tabMs, List.map_map]
  conv_rhs => rw [← List.map_id l]
  apply List.map_congr_left
  intro A _
  exact tabM_eq A

theorem dotI_eq (u v : Vec d Int) : dotI u v = ∑ k, u k * v k := by
  simp [dotI, List.sum_ofFn]

theorem dotR_eq (u v : Vec d Rat) : dotR u v = ∑ k, u k * v k := by
  simp [dotR, List.sum_ofFn]

/-- read a model matrix as a Mathlib matrix -/
abbrev toM {α : Type} (A : Mat d α) : Matrix (Fin d) (Fin d) α := A

theorem mmulI_eq (A B : Mat d Int) : mmulI A B = toM A * toM B := by
  funext i j; simp [mmulI, dotI_eq, Matrix.mul_apply]

theorem mmulR_eq (A B : Mat d Rat) : mmulR A B = toM A * toM B := by
  funext i j; simp [mmulR, dotR_eq, Matrix.mul_apply]

theorem mulVecR_eq (A : Mat d Rat) (v : Vec d Rat) : mulVecR A v = (toM A).mulVec v := by
  funext i; simp [mulVecR, dotR_eq, Matrix.mulVec, dotProduct]

theorem oneI_eq : (oneI : Mat d Int) = (1 : Matrix (Fin d) (Fin d) Int) := by
  funext i j; simp [oneI, Matrix.one_apply]

theorem castM_eq (A : Mat d Int) : castM A = (toM A).map (Int.cast : Int → Rat) := rfl

theorem castM_mul (A B : Mat d Int) : castM (toM A * toM B) = toM (castM A) * toM (castM B) := by
  funext i j
  simp [castM, Matrix.mul_apply]

theorem castM_one : castM (1 : Matrix (Fin d) (Fin d) Int) = (1 : Matrix (Fin d) (Fin d) Rat) := by
  funext i j
  by_cases h : i = j <;> simp [castM, Matrix.one_apply, h]

theorem addV_eq (u v : Vec d Rat) : addV u v = u + v := rfl
theorem subV_eq (u v : Vec d Rat) : subV u v = u - v := rfl
theorem zeroV_eq : (zeroV : Vec d Rat) = 0 := rfl

theorem castV_add (m n : Vec d Int) : castV (m + n) = castV m + castV n := by
  funext i; simp [castV]

theorem castV_neg (n : Vec d Int) : castV (-n) = - castV n := by
  funext i; simp [castV]

theorem castM_mulVec (A : Mat d Int) (n : Vec d Int) :
    (toM (castM A)).mulVec (castV n) = castV ((toM A).mulVec n) := by
  funext i
  simp [castM, castV, Matrix.mulVec, dotProduct]


/-! model-level algebra (proved through the Mathlib matrix API) -/

theorem mmulI_assoc (A B C : Mat d Int) : mmulI (mmulI A B) C = mmulI A (mmulI B C) := by
  rw [mmulI_eq, mmulI_eq, mmulI_eq, mmulI_eq]; exact Matrix.mul_assoc (toM A) (toM B) (toM C)

theorem mmulI_one_left (A : Mat d Int) : mmulI oneI A = A := by
  rw [mmulI_eq, oneI_eq]; exact Matrix.one_mul (toM A)

theorem mmulI_one_right (A : Mat d Int) : mmulI A oneI = A := by
  rw [mmulI_eq, oneI_eq]; exact Matrix.mul_one (toM A)

theorem mulVecR_mmul (A B : Mat d Int) (v : Vec d Rat) :
    mulVecR (castM (mmulI A B)) v = mulVecR (castM A) (mulVecR (castM B) v) := by
  rw [mulVecR_eq, mulVecR_eq, mulVecR_eq, mmulI_eq, castM_mul]
  exact (Matrix.mulVec_mulVec v (toM (castM A)) (toM (castM B))).symm

theorem mulVecR_add (A : Mat d Rat) (u v : Vec d Rat) :
    mulVecR A (addV u v) = addV (mulVecR A u) (mulVecR A v) := by
  rw [mulVecR_eq, mulVecR_eq, mulVecR_eq, addV_eq, addV_eq]; exact Matrix.mulVec_add (toM A) u v

theorem mulVecR_sub (A : Mat d Rat) (u v : Vec d Rat) :
    mulVecR A (subV u v) = subV (mulVecR A u) (mulVecR A v) := by
  rw [mulVecR_eq, mulVecR_eq, mulVecR_eq, subV_eq, subV_eq]; exact Matrix.mulVec_sub (toM A) u v

theorem mulVecR_one (v : Vec d Rat) : mulVecR (castM oneI) v = v := by
  rw [mulVecR_eq, oneI_eq, castM_one]; exact Matrix.one_mulVec v

theorem mulVecR_zero (A : Mat d Rat) : mulVecR A zeroV = zeroV := by
  rw [mulVecR_eq, zeroV_eq]; exact Matrix.mulVec_zero (toM A)

theorem mulVecR_castV (A : Mat d Int) (n : Vec d Int) :
    mulVecR (castM A) (castV n) = castV (mulVecI A n) := by
  funext i
  simp [mulVecR, mulVecI, dotR_eq, dotI_eq, castM, castV]

theorem addV_assoc (u v w : Vec d Rat) : addV (addV u v) w = addV u (addV v w) := by
  funext i; simp [addV]; ring
theorem addV_comm (u v : Vec d Rat) : addV u v = addV v u := by
  funext i; simp [addV]; ring
theorem addV_zero (u : Vec d Rat) : addV u zeroV = u := by
  funext i; simp [addV, zeroV]
theorem zero_addV (u : Vec d Rat) : addV zeroV u = u := by
  funext i; simp [addV, zeroV]

/-! ### Boolean tests = propositions -/

theorem vecEqI_iff (u v : Vec d Int) : vecEqI u v = true ↔ u = v := by
  simp only [vecEqI, List.all_eq_true, List.mem_finRange, forall_const, beq_iff_eq]
  exact ⟨fun h => funext h, fun h i => h ▸ rfl⟩

theorem vecEqR_iff (u v : Vec d Rat) : vecEqR u v = true ↔ u = v := by
  simp only [vecEqR, List.all_eq_true, List.mem_finRange, forall_const, beq_iff_eq]
  exact ⟨fun h => funext h, fun h i => h ▸ rfl⟩

theorem matEqI_iff (A B : Mat d Int) : matEqI A B = true ↔ A = B := by
  simp only [matEqI, List.all_eq_true, List.mem_finRange, forall_const, vecEqI_iff]
  exact ⟨fun h => funext h, fun h i => h ▸ rfl⟩

theorem matEqR_iff (A B : Mat d Rat) : matEqR A B = true ↔ A = B := by
  simp only [matEqR, List.all_eq_true, List.mem_finRange, forall_const, vecEqR_iff]
  exact ⟨fun h => funext h, fun h i => h ▸ rfl⟩

theorem isIntVec_iff (v : Vec d Rat) : isIntVec v = true ↔ ∃ n : Vec d Int, v = castV n := by
  simp only [isIntVec, List.all_eq_true, List.mem_finRange, forall_const, beq_iff_eq]
  constructor
  · intro h
    refine ⟨fun i => (v i).num, ?_⟩
    funext i
    exact ((Rat.den_eq_one_iff (v i)).1 (h i)).symm
  · rintro ⟨n, rfl⟩ i
    simp [castV]

/-! ### GroupOp algebra (crystal.py:128-241) -/

namespace GroupOp

theorem ext' {g h : GroupOp d} (hr : g.rot = h.rot) (ht : g.trans = h.trans)
    (hi : g.indexmap = h.indexmap) : g = h := by
  cases g; cases h; simp_all

/-- index-map composition used by `__mul__` -/
def compose (a0 a1 : List Nat) : List Nat := a1.map fun i => a0.getD i 0

theorem mul_indexmap (g h : GroupOp d) :
    (g.mul h).indexmap = List.zipWith compose g.indexmap h.indexmap := rfl

theorem compose_assoc (a b c : List Nat) (hc : ∀ i ∈ c, i < b.length) :
    compose (compose a b) c = compose a (compose b c) := by
  simp only [compose, List.map_map]
  apply List.map_congr_left
  intro i hi
  simp [List.getD_eq_getElem?_getD, List.getElem?_map, List.getElem?_eq_getElem (hc i hi)]

theorem zipWith_compose_assoc :
    ∀ (A B C : List (List Nat)),
      (∀ p ∈ List.zip B C, ∀ i ∈ p.2, i < p.1.length) →
      List.zipWith compose (List.zipWith compose A B) C
        = List.zipWith compose A (List.zipWith compose B C)
  | [], _, _, _ => by simp
  | _ :: _, [], _, _ => by simp
  | _ :: _, _ :: _, [], _ => by simp
  | a :: A, b :: B, c :: C, h => by
    simp only [List.zipWith_cons_cons]
    rw [compose_assoc a b c (fun i hi => h (b, c) (by simp) i hi),
        zipWith_compose_assoc A B C (fun p hp => h p (by simp [hp]))]

theorem compat_iff (g h : GroupOp d) :
    g.compat h = true ↔ ∀ p ∈ List.zip g.indexmap h.indexmap, ∀ i ∈ p.2, i < p.1.length := by
  simp [compat]

/-- associativity of `__mul__` (the index maps of `h` and `k` must be composable, which is exactly
    when Python does not raise IndexError in `h * k`). -/
theorem mul_assoc (g h k : GroupOp d) (hc : h.compat k = true) :
    (g.mul h).mul k = g.mul (h.mul k) := by
  apply ext'
  · exact mmulI_assoc _ _ _
  · simp only [mul]
    rw [mulVecR_mmul, mulVecR_add, addV_assoc]
  · rw [mul_indexmap, mul_indexmap, mul_indexmap, mul_indexmap]
    exact zipWith_compose_assoc _ _ _ ((compat_iff h k).1 hc)

/-- the index map has the shape of the crystal: one list per species, entries in range -/
def WF (shape : List Nat) (g : GroupOp d) : Prop :=
  List.Forall₂ (fun n l => l.length = n ∧ ∀ j ∈ l, j < n) shape g.indexmap

theorem compose_range_left (n : Nat) (l : List Nat) (h : ∀ j ∈ l, j < n) :
    compose (List.range n) l = l := by
  simp only [compose]
  conv_rhs => rw [← List.map_id l]
  apply List.map_congr_left
  intro i hi
  simp [List.getD_eq_getElem?_getD, List.getElem?_range (h i hi)]

theorem compose_range_right (l : List Nat) : compose l (List.range l.length) = l := by
  apply List.ext_getElem
  · simp [compose]
  · intro i h1 h2
    simp [compose, List.getD_eq_getElem?_getD, List.getElem?_eq_getElem h2]

theorem zipWith_range_left : ∀ (shape : List Nat) (im : List (List Nat)),
    List.Forall₂ (fun n l => l.length = n ∧ ∀ j ∈ l, j < n) shape im →
    List.zipWith compose (shape.map List.range) im = im
  | _, _, .nil => by simp
  | _, _, .cons h t => by
    simp [compose_range_left _ _ h.2, zipWith_range_left _ _ t]

theorem zipWith_range_right : ∀ (shape : List Nat) (im : List (List Nat)),
    List.Forall₂ (fun n l => l.length = n ∧ ∀ j ∈ l, j < n) shape im →
    List.zipWith compose im (shape.map List.range) = im
  | _, _, .nil => by simp
  | _, _, .cons h t => by
    simp only [List.map_cons, List.zipWith_cons_cons, zipWith_range_right _ _ t]
    rw [← h.1, compose_range_right]

theorem ident_mul (shape : List Nat) (g : GroupOp d) (hw : WF shape g) :
    (ident shape).mul g = g := by
  apply ext'
  · exact mmulI_one_left _
  · simp only [mul, ident]; rw [mulVecR_one, addV_zero]
  · rw [mul_indexmap]; exact zipWith_range_left _ _ hw

theorem mul_ident (shape : List Nat) (g : GroupOp d) (hw : WF shape g) :
    g.mul (ident shape) = g := by
  apply ext'
  · exact mmulI_one_right _
  · simp only [mul, ident]; rw [mulVecR_zero, zero_addV]
  · rw [mul_indexmap]; exact zipWith_range_right _ _ hw

/-! affine action -/

/-- the action of a product is the composition of the actions -/
theorem act_mul (g h : GroupOp d) (x : Vec d Rat) : (g.mul h).act x = g.act (h.act x) := by
  simp only [act, mul]
  rw [mulVecR_mmul, mulVecR_add, addV_assoc]

theorem act_ident (shape : List Nat) (x : Vec d Rat) : (ident (d := d) shape).act x = x := by
  simp only [act, ident]; rw [mulVecR_one, addV_zero]

theorem act_addT (g : GroupOp d) (n : Vec d Int) (x : Vec d Rat) :
    (g.addT n).act x = addV (g.act x) (castV n) := by
  simp only [act, addT]; rw [addV_assoc]

/-! inverse -/

theorem insertBy_perm {α : Type} (le : α → α → Bool) (a : α) :
    ∀ l : List α, (insertBy le a l).Perm (a :: l)
  | [] => List.Perm.refl _
  | b :: l => by
    unfold insertBy
    split
    · exact List.Perm.refl _
    · exact ((insertBy_perm le a l).cons b).trans (List.Perm.swap a b l)

theorem isort_perm {α : Type} (le : α → α → Bool) : ∀ l : List α, (isort le l).Perm l
  | [] => List.Perm.refl _
  | a :: l => (insertBy_perm le a _).trans ((isort_perm le l).cons a)

theorem insertBy_pairwise {α : Type} {le : α → α → Bool}
    (htrans : ∀ a b c, le a b = true → le b c = true → le a c = true)
    (htotal : ∀ a b, (le a b || le b a) = true) (a : α) :
    ∀ l : List α, l.Pairwise (fun x y => le x y = true) →
      (insertBy le a l).Pairwise (fun x y => le x y = true)
  | [], _ => by simp [insertBy]
  | b :: l, h => by
    unfold insertBy
    rw [List.pairwise_cons] at h
    split
    · rename_i hab
      refine List.Pairwise.cons ?_ (List.Pairwise.cons h.1 h.2)
      intro x hx
      rcases List.mem_cons.1 hx with rfl | hx
      · exact hab
      · exact htrans _ _ _ hab (h.1 x hx)
    · rename_i hab
      have hba : le b a = true := by
        have := htotal a b
        simp only [Bool.or_eq_true] at this
        rcases this with h1 | h1
        · exact absurd h1 hab
        · exact h1
      refine List.Pairwise.cons ?_ (insertBy_pairwise htrans htotal a l h.2)
      intro x hx
      rcases List.mem_cons.1 ((insertBy_perm le a l).subset hx) with rfl | hx
      · exact hba
      · exact h.1 x hx

theorem isort_pairwise {α : Type} {le : α → α → Bool}
    (htrans : ∀ a b c, le a b = true → le b c = true → le a c = true)
    (htotal : ∀ a b, (le a b || le b a) = true) :
    ∀ l : List α, (isort le l).Pairwise (fun x y => le x y = true)
  | [] => List.Pairwise.nil
  | a :: l => insertBy_pairwise htrans htotal a _ (isort_pairwise htrans htotal l)

theorem invIndex_def (l : List Nat) :
    invIndex l = (isort lexLe (List.zip l (List.range l.length))).map (·.2) := rfl

theorem lexLe_trans (a b c : Nat × Nat) (h1 : lexLe a b = true) (h2 : lexLe b c = true) :
    lexLe a c = true := by
  simp only [lexLe, Bool.or_eq_true, decide_eq_true_eq, Bool.and_eq_true, beq_iff_eq] at *
  omega

theorem lexLe_total (a b : Nat × Nat) : (lexLe a b || lexLe b a) = true := by
  simp only [lexLe, Bool.or_eq_true, decide_eq_true_eq, Bool.and_eq_true, beq_iff_eq]
  omega

theorem lexLe_fst (a b : Nat × Nat) (h : lexLe a b = true) : a.1 ≤ b.1 := by
  simp only [lexLe, Bool.or_eq_true, decide_eq_true_eq, Bool.and_eq_true, beq_iff_eq] at h
  omega

theorem invIndex_spec (l : List Nat) (hp : l.Perm (List.range l.length)) :
    (invIndex l).length = l.length ∧
    ∀ i < l.length, (invIndex l).getD i 0 < l.length ∧ l.getD ((invIndex l).getD i 0) 0 = i := by
  set n := l.length with hn
  set P := List.zip l (List.range n) with hP
  set S := isort lexLe P with hS
  have hSP : S.Perm P := isort_perm lexLe P
  have hlenP : P.length = n := by simp [hP, hn]
  have hlenS : S.length = n := by rw [hSP.length_eq, hlenP]
  have hfstP : P.map (·.1) = l := by
    rw [hP]; exact List.map_fst_zip (by simp [hn])
  have hperm : (S.map (·.1)).Perm (List.range n) := ((hSP.map _).trans (hfstP ▸ List.Perm.refl _)).trans hp
  have hsorted : (S.map (·.1)).Pairwise (· ≤ ·) := by
    rw [List.pairwise_map]
    exact (isort_pairwise lexLe_trans lexLe_total P).imp (fun {a b} h => lexLe_fst a b h)
  have hfst : S.map (·.1) = List.range n :=
    List.Perm.eq_of_pairwise (fun a b _ _ h1 h2 => Nat.le_antisymm h1 h2) hsorted
      List.pairwise_le_range hperm
  have hdef : invIndex l = S.map (·.2) := rfl
  refine ⟨by rw [hdef, List.length_map, hlenS], ?_⟩
  intro i hi
  have hiS : i < S.length := by omega
  have h1 : (S[i]).1 = i := by
    have := congrArg (fun L => L[i]?) hfst
    simp [List.getElem?_map, List.getElem?_eq_getElem hiS, List.getElem?_range hi] at this
    exact this
  have hσ : (invIndex l).getD i 0 = (S[i]).2 := by
    rw [hdef]
    simp [List.getD_eq_getElem?_getD, List.getElem?_map, List.getElem?_eq_getElem hiS]
  have hmem : S[i] ∈ P := hSP.subset (List.getElem_mem hiS)
  rw [hP, List.mem_iff_getElem] at hmem
  obtain ⟨j, hj, hjeq⟩ := hmem
  have hj' : j < n := by simpa [hn] using hj
  rw [List.getElem_zip] at hjeq
  have e1 : l[j]'(by omega) = (S[i]).1 := by rw [← hjeq]
  have e2 : j = (S[i]).2 := by rw [← hjeq]; simp
  rw [hσ, ← e2]
  refine ⟨hj', ?_⟩
  simp [List.getD_eq_getElem?_getD, List.getElem?_eq_getElem (show j < l.length by omega), e1, h1]


theorem perm_range_of_nodup {l : List Nat} {n : Nat} (hl : l.length = n) (hlt : ∀ j ∈ l, j < n)
    (hnd : l.Nodup) : l.Perm (List.range n) := by
  have hsub : l ⊆ List.range n := fun j hj => List.mem_range.2 (hlt j hj)
  exact (List.subperm_of_subset hnd hsub).perm_of_length_le (by simp [hl])

theorem compose_invIndex_right (l : List Nat) (hp : l.Perm (List.range l.length)) :
    compose l (invIndex l) = List.range l.length := by
  obtain ⟨hlen, hsp⟩ := invIndex_spec l hp
  apply List.ext_getElem
  · simp [compose, hlen]
  · intro i h1 h2
    have hi : i < l.length := by simpa using h2
    have := (hsp i hi).2
    have hgd : (invIndex l).getD i 0 = (invIndex l)[i]'(by omega) := by
      simp [List.getD_eq_getElem?_getD, List.getElem?_eq_getElem (show i < (invIndex l).length by omega)]
    simp only [compose, List.getElem_map, List.getElem_range]
    rw [← hgd]; exact this

theorem compose_invIndex_left (l : List Nat) (hp : l.Perm (List.range l.length)) :
    compose (invIndex l) l = List.range l.length := by
  obtain ⟨hlen, hsp⟩ := invIndex_spec l hp
  have hnd : l.Nodup := hp.nodup_iff.2 List.nodup_range
  apply List.ext_getElem
  · simp [compose]
  · intro j h1 h2
    have hj : j < l.length := by simpa using h2
    have hlj : l[j] < l.length := by
      have := hp.subset (List.getElem_mem hj); simpa using this
    obtain ⟨hlt, heq⟩ := hsp (l[j]) hlj
    simp only [compose, List.getElem_map, List.getElem_range]
    have heq' : l[(invIndex l).getD l[j] 0]'hlt = l[j] := by
      rw [List.getD_eq_getElem?_getD, List.getElem?_eq_getElem hlt] at heq
      simpa using heq
    exact (List.Nodup.getElem_inj_iff hnd).1 heq'

/-- every per-species index map is a permutation of `0 … n-1` -/
def PermWF (shape : List Nat) (g : GroupOp d) : Prop :=
  List.Forall₂ (fun n l => l.Perm (List.range n)) shape g.indexmap

theorem PermWF.wf {shape : List Nat} {g : GroupOp d} (h : PermWF shape g) : WF shape g := by
  unfold PermWF at h; unfold WF
  refine h.imp ?_
  intro n l hp
  exact ⟨by simpa using hp.length_eq, fun j hj => by simpa using hp.subset hj⟩

theorem zipWith_invIndex_left : ∀ (shape : List Nat) (im : List (List Nat)),
    List.Forall₂ (fun n l => l.Perm (List.range n)) shape im →
    List.zipWith compose (im.map invIndex) im = shape.map List.range
  | _, _, .nil => by simp
  | _, _, .cons (a := n) (b := l) h t => by
    have hl : l.length = n := by simpa using h.length_eq
    simp only [List.map_cons, List.zipWith_cons_cons, zipWith_invIndex_left _ _ t]
    rw [compose_invIndex_left l (hl ▸ h), hl]

theorem zipWith_invIndex_right : ∀ (shape : List Nat) (im : List (List Nat)),
    List.Forall₂ (fun n l => l.Perm (List.range n)) shape im →
    List.zipWith compose im (im.map invIndex) = shape.map List.range
  | _, _, .nil => by simp
  | _, _, .cons (a := n) (b := l) h t => by
    have hl : l.length = n := by simpa using h.length_eq
    simp only [List.map_cons, List.zipWith_cons_cons, zipWith_invIndex_right _ _ t]
    rw [compose_invIndex_right l (hl ▸ h), hl]

theorem invRot?_some {A B : Mat d Int} (h : invRot? A = some B) :
    mmulI B A = oneI ∧ mmulI A B = oneI := by
  unfold invRot? at h
  simp only [tabM_eq] at h
  split at h
  · rename_i hc
    simp only [Bool.and_eq_true, matEqI_iff] at hc
    cases h
    exact hc
  · cases h

theorem inv?_some {g gi : GroupOp d} (h : g.inv? = some gi) :
    ∃ B, invRot? g.rot = some B ∧ gi.rot = B ∧
      gi.trans = (fun i => - mulVecR (castM B) g.trans i) ∧ gi.indexmap = g.indexmap.map invIndex := by
  unfold inv? at h
  split at h
  · cases h
  · rename_i B hB
    cases h
    exact ⟨B, hB, rfl, rfl, rfl⟩

/-- `g.inv() * g = ident` -/
theorem inv_mul_cancel (shape : List Nat) {g gi : GroupOp d} (h : g.inv? = some gi)
    (hw : PermWF shape g) : gi.mul g = ident shape := by
  obtain ⟨B, hB, hr, ht, hi⟩ := inv?_some h
  obtain ⟨h1, _⟩ := invRot?_some hB
  apply ext'
  · simp only [mul, ident, hr]; exact h1
  · simp only [mul, ident, hr, ht]
    funext i; simp [addV, zeroV]
  · rw [mul_indexmap, hi]; exact zipWith_invIndex_left _ _ hw

/-- `g * g.inv() = ident` -/
theorem mul_inv_cancel (shape : List Nat) {g gi : GroupOp d} (h : g.inv? = some gi)
    (hw : PermWF shape g) : g.mul gi = ident shape := by
  obtain ⟨B, hB, hr, ht, hi⟩ := inv?_some h
  obtain ⟨_, h2⟩ := invRot?_some hB
  apply ext'
  · simp only [mul, ident, hr]; exact h2
  · simp only [mul, ident, hr, ht]
    have : mulVecR (castM g.rot) (fun i => - mulVecR (castM B) g.trans i)
        = fun i => - g.trans i := by
      have hneg : (fun i => - mulVecR (castM B) g.trans i) = subV zeroV (mulVecR (castM B) g.trans) := by
        funext i; simp [subV, zeroV]
      rw [hneg, mulVecR_sub, mulVecR_zero, ← mulVecR_mmul, h2, mulVecR_one]
      funext i; simp [subV, zeroV]
    rw [this]; funext i; simp [addV, zeroV]
  · rw [mul_indexmap, hi]; exact zipWith_invIndex_right _ _ hw

/-- the inverse undoes the action -/
theorem act_inv (shape : List Nat) {g gi : GroupOp d} (h : g.inv? = some gi) (hw : PermWF shape g)
    (x : Vec d Rat) : gi.act (g.act x) = x := by
  rw [← act_mul, inv_mul_cancel shape h hw, act_ident]

end GroupOp

/-! ### Isometries of the metric -/

/-- `rotᵀ g rot = g` -/
def IsIsometry (G : Mat d Rat) (R : Mat d Int) : Prop :=
  mmulR (transp (castM R)) (mmulR G (castM R)) = G

theorem preservesMetric_iff (G : Mat d Rat) (R : Mat d Int) :
    preservesMetric G R = true ↔ IsIsometry G R := by
  simp only [preservesMetric, IsIsometry, matEqR_iff]

theorem isIsometry_iff (G : Mat d Rat) (R : Mat d Int) :
    IsIsometry G R ↔ (toM (castM R))ᵀ * (toM G * toM (castM R)) = toM G := by
  unfold IsIsometry
  rw [mmulR_eq, mmulR_eq]
  rfl

theorem iso_mul_aux (G R S : Matrix (Fin d) (Fin d) ℚ) (hR : Rᵀ * (G * R) = G)
    (hS : Sᵀ * (G * S) = G) : (R * S)ᵀ * (G * (R * S)) = G := by
  rw [Matrix.transpose_mul]
  calc Sᵀ * Rᵀ * (G * (R * S)) = Sᵀ * ((Rᵀ * (G * R)) * S) := by simp only [Matrix.mul_assoc]
    _ = G := by rw [hR, hS]

theorem isIsometry_mul {G : Mat d Rat} {R S : Mat d Int} (hR : IsIsometry G R)
    (hS : IsIsometry G S) : IsIsometry G (mmulI R S) := by
  rw [isIsometry_iff] at *
  rw [mmulI_eq, castM_mul]
  exact iso_mul_aux _ _ _ hR hS

theorem isIsometry_one (G : Mat d Rat) : IsIsometry G oneI := by
  rw [isIsometry_iff, oneI_eq, castM_one]
  simp

theorem isIsometry_inv {G : Mat d Rat} {A B : Mat d Int} (hA : IsIsometry G A)
    (hAB : mmulI A B = oneI) : IsIsometry G B := by
  rw [isIsometry_iff] at *
  have h1 : toM (castM A) * toM (castM B) = 1 := by
    rw [← castM_mul, ← mmulI_eq, hAB, oneI_eq, castM_one]
  have := iso_mul_aux (toM G) (toM (castM A)) (toM (castM B)) hA
  calc (toM (castM B))ᵀ * (toM G * toM (castM B))
      = (toM (castM B))ᵀ * (((toM (castM A))ᵀ * (toM G * toM (castM A))) * toM (castM B)) := by rw [hA]
    _ = (toM (castM A) * toM (castM B))ᵀ * (toM G * (toM (castM A) * toM (castM B))) := by
        rw [Matrix.transpose_mul]; simp only [Matrix.mul_assoc]
    _ = toM G := by rw [h1]; simp

theorem nsq_eq (G : Mat d Rat) (x : Vec d Rat) : nsq G x = x ⬝ᵥ (toM G).mulVec x := by
  simp [nsq, dotR_eq, mulVecR_eq, dotProduct]

/-- an isometry of the metric preserves `|v|² = vᵀ g v` -/
theorem nsq_isometry {G : Mat d Rat} {R : Mat d Int} (h : IsIsometry G R) (v : Vec d Rat) :
    nsq G (mulVecR (castM R) v) = nsq G v := by
  rw [isIsometry_iff] at h
  rw [nsq_eq, nsq_eq, mulVecR_eq]
  set M := toM (castM R)
  have e : ∀ w : Fin d → ℚ, (M.mulVec v) ⬝ᵥ w = v ⬝ᵥ Mᵀ.mulVec w := by
    intro w; rw [Matrix.dotProduct_mulVec, Matrix.vecMul_transpose]
  rw [e, Matrix.mulVec_mulVec, Matrix.mulVec_mulVec, Matrix.mul_assoc, h]

/-! ### The mathematical statement checked by `isSpaceGroupOp` -/

namespace Crystal
/-- position `x` (unit-cell coordinates) carries an atom of species `s` in the infinite crystal -/
def occupied (c : Crystal d) (s : Nat) (x : Vec d Rat) : Prop :=
  ∃ i < c.natoms s, ∃ n : Vec d Int, x = addV (c.pos s i) (castV n)

theorem shape_length (c : Crystal d) : c.shape.length = c.nspecies := by simp [shape, nspecies]
theorem shape_getD (c : Crystal d) (s : Nat) : c.shape.getD s 0 = c.natoms s := by
  simp only [shape, natoms, List.getD_eq_getElem?_getD, List.getElem?_map]
  cases c.basis[s]? <;> simp
end Crystal

/-- `g` is a symmetry operation of crystal `c`. -/
structure IsSymmetry (c : Crystal d) (g : GroupOp d) : Prop where
  /-- the rotation part is an isometry of the lattice metric … -/
  metric : IsIsometry c.metric g.rot
  /-- … which maps the lattice ONTO itself (integer inverse) -/
  unimod : ∃ B : Mat d Int, mmulI B g.rot = oneI ∧ mmulI g.rot B = oneI
  /-- the index map is a permutation of the atoms of each species -/
  perm : GroupOp.PermWF c.shape g
  /-- every atom is mapped onto the atom named by the index map (same species), up to a lattice vector -/
  maps : ∀ s < c.nspecies, ∀ i < c.natoms s, ∃ n : Vec d Int,
      g.act (c.pos s i) = addV (c.pos s (g.imap s i)) (castV n)
  /-- spins are preserved up to one global sign (the source's "phase") -/
  spin : ∃ φ : Int, (φ = 1 ∨ φ = -1) ∧ ∀ s < c.nspecies, ∀ i < c.natoms s,
      c.spin s (g.imap s i) = φ * c.spin s i

namespace GroupOp

theorem permWF_iff (shape : List Nat) (g : GroupOp d) :
    PermWF shape g ↔ g.indexmap.length = shape.length ∧
      ∀ s < shape.length, (g.indexmap.getD s []).Perm (List.range (shape.getD s 0)) := by
  unfold PermWF
  rw [List.forall₂_iff_get]
  constructor
  · rintro ⟨hl, h⟩
    refine ⟨hl.symm, fun s hs => ?_⟩
    have := h s hs (hl ▸ hs)
    simpa [List.getD_eq_getElem?_getD, List.getElem?_eq_getElem hs,
      List.getElem?_eq_getElem (hl ▸ hs : s < g.indexmap.length)] using this
  · rintro ⟨hl, h⟩
    refine ⟨hl.symm, fun s h1 h2 => ?_⟩
    have := h s h1
    simpa [List.getD_eq_getElem?_getD, List.getElem?_eq_getElem h1,
      List.getElem?_eq_getElem h2] using this

end GroupOp

theorem spinOK_iff (c : Crystal d) (g : GroupOp d) (φ : Int) :
    spinOK c g φ = true ↔ ∀ s < c.nspecies, ∀ i < c.natoms s, c.spin s (g.imap s i) = φ * c.spin s i := by
  simp [spinOK]

/-- **Soundness of the checker**: whenever `isSpaceGroupOp c g` evaluates to `true`, `g` is a
    symmetry operation of `c` (for every crystal and every operation, no sampling). -/
theorem isSpaceGroupOp_sound (c : Crystal d) (g : GroupOp d) (h : isSpaceGroupOp c g = true) :
    IsSymmetry c g := by
  simp only [isSpaceGroupOp, Bool.and_eq_true, Bool.or_eq_true, List.all_eq_true, List.mem_range,
    beq_iff_eq, decide_eq_true_eq, Option.isSome_iff_exists, preservesMetric_iff, spinOK_iff,
    isIntVec_iff] at h
  obtain ⟨⟨⟨⟨hmet, ⟨B, hB⟩⟩, hlen⟩, hsp⟩, hspin⟩ := h
  refine ⟨hmet, ⟨B, GroupOp.invRot?_some hB⟩, ?_, ?_, ?_⟩
  · rw [GroupOp.permWF_iff, Crystal.shape_length]
    refine ⟨hlen, fun s hs => ?_⟩
    obtain ⟨⟨⟨h1, h2⟩, h3⟩, _⟩ := hsp s hs
    rw [Crystal.shape_getD]
    exact GroupOp.perm_range_of_nodup h1 h2 h3
  · intro s hs i hi
    obtain ⟨n, hn⟩ := (hsp s hs).2 i hi
    refine ⟨n, ?_⟩
    rw [← hn]; funext k; simp [addV, subV]
  · rcases hspin with h1 | h1
    · exact ⟨1, Or.inl rfl, h1⟩
    · exact ⟨-1, Or.inr rfl, h1⟩


/-! ### Consequences of `IsSymmetry` -/

namespace GroupOp

theorem act_add_int (g : GroupOp d) (x : Vec d Rat) (n : Vec d Int) :
    g.act (addV x (castV n)) = addV (g.act x) (castV (mulVecI g.rot n)) := by
  simp only [act]
  rw [mulVecR_add, mulVecR_castV, addV_assoc, addV_assoc, addV_comm (castV _) g.trans]

theorem act_sub (g : GroupOp d) (x y : Vec d Rat) :
    subV (g.act x) (g.act y) = mulVecR (castM g.rot) (subV x y) := by
  simp only [act]
  rw [mulVecR_sub]; funext i; simp [addV, subV]

theorem perm_range_props {l : List Nat} {n : Nat} (hp : l.Perm (List.range n)) :
    (∀ i < n, l.getD i 0 < n) ∧ (∀ j < n, ∃ i < n, l.getD i 0 = j) ∧
    (∀ i < n, ∀ j < n, l.getD i 0 = l.getD j 0 → i = j) := by
  have hlen : l.length = n := by simpa using hp.length_eq
  have hget : ∀ i, (hi : i < n) → l.getD i 0 = l[i]'(by omega) := by
    intro i hi
    rw [List.getD_eq_getElem?_getD, List.getElem?_eq_getElem (show i < l.length by omega)]; rfl
  refine ⟨fun i hi => ?_, fun j hj => ?_, fun i hi j hj hij => ?_⟩
  · rw [hget i hi]
    have := hp.subset (List.getElem_mem (show i < l.length by omega))
    simpa using this
  · have : j ∈ l := hp.symm.subset (List.mem_range.2 hj)
    obtain ⟨i, hi, hij⟩ := List.mem_iff_getElem.1 this
    exact ⟨i, by omega, by rw [hget i (by omega)]; exact hij⟩
  · rw [hget i hi, hget j hj] at hij
    have hnd : l.Nodup := hp.nodup_iff.2 List.nodup_range
    exact (List.Nodup.getElem_inj_iff hnd).1 hij

theorem imap_of_perm {shape : List Nat} {g : GroupOp d} (h : PermWF shape g) {s : Nat}
    (hs : s < shape.length) :
    (∀ i < shape.getD s 0, g.imap s i < shape.getD s 0) ∧
    (∀ j < shape.getD s 0, ∃ i < shape.getD s 0, g.imap s i = j) ∧
    (∀ i < shape.getD s 0, ∀ j < shape.getD s 0, g.imap s i = g.imap s j → i = j) :=
  perm_range_props (((permWF_iff shape g).1 h).2 s hs)

end GroupOp

namespace IsSymmetry
variable {c : Crystal d} {g : GroupOp d}

theorem imap_lt (h : IsSymmetry c g) {s i : Nat} (hs : s < c.nspecies) (hi : i < c.natoms s) :
    g.imap s i < c.natoms s := by
  have := (GroupOp.imap_of_perm h.perm (s := s) (by rwa [Crystal.shape_length])).1
  rw [Crystal.shape_getD] at this
  exact this i hi

theorem imap_surj (h : IsSymmetry c g) {s j : Nat} (hs : s < c.nspecies) (hj : j < c.natoms s) :
    ∃ i < c.natoms s, g.imap s i = j := by
  have := (GroupOp.imap_of_perm h.perm (s := s) (by rwa [Crystal.shape_length])).2.1
  rw [Crystal.shape_getD] at this
  exact this j hj

theorem imap_inj (h : IsSymmetry c g) {s i j : Nat} (hs : s < c.nspecies) (hi : i < c.natoms s)
    (hj : j < c.natoms s) (hij : g.imap s i = g.imap s j) : i = j := by
  have := (GroupOp.imap_of_perm h.perm (s := s) (by rwa [Crystal.shape_length])).2.2
  rw [Crystal.shape_getD] at this
  exact this i hi j hj hij

/-- a symmetry operation preserves all distances: `|g·x − g·y|² = |x − y|²` in the lattice metric -/
theorem dist_preserved (h : IsSymmetry c g) (x y : Vec d Rat) :
    nsq c.metric (subV (g.act x) (g.act y)) = nsq c.metric (subV x y) := by
  rw [GroupOp.act_sub, nsq_isometry h.metric]

/-- the rotation part maps the lattice ONTO itself -/
theorem lattice_onto (h : IsSymmetry c g) (n : Vec d Int) : ∃ m : Vec d Int, mulVecI g.rot m = n := by
  obtain ⟨B, _, hAB⟩ := h.unimod
  refine ⟨mulVecI B n, ?_⟩
  have h1 : mulVecI g.rot (mulVecI B n) = mulVecI (mmulI g.rot B) n := by
    funext i
    simp only [mulVecI, mmulI, dotI_eq, Finset.mul_sum, Finset.sum_mul]
    rw [Finset.sum_comm]
    simp [mul_assoc]
  rw [h1, hAB]
  funext i; simp [mulVecI, dotI_eq, oneI]

/-- every occupied position of species `s` is mapped onto an occupied position of species `s` -/
theorem maps_occupied (h : IsSymmetry c g) {s : Nat} (hs : s < c.nspecies) {x : Vec d Rat}
    (hx : c.occupied s x) : c.occupied s (g.act x) := by
  obtain ⟨i, hi, n, rfl⟩ := hx
  obtain ⟨m, hm⟩ := h.maps s hs i hi
  refine ⟨g.imap s i, h.imap_lt hs hi, m + mulVecI g.rot n, ?_⟩
  rw [GroupOp.act_add_int, hm, addV_assoc, castV_add]; rfl

/-- … and every occupied position is the image of an occupied position (the operation maps the
    crystal ONTO itself) -/
theorem onto_occupied (h : IsSymmetry c g) {s : Nat} (hs : s < c.nspecies) {y : Vec d Rat}
    (hy : c.occupied s y) : ∃ x, c.occupied s x ∧ g.act x = y := by
  obtain ⟨j, hj, n, rfl⟩ := hy
  obtain ⟨i, hi, hij⟩ := h.imap_surj hs hj
  obtain ⟨m, hm⟩ := h.maps s hs i hi
  obtain ⟨k, hk⟩ := h.lattice_onto (n - m)
  refine ⟨addV (c.pos s i) (castV k), ⟨i, hi, k, rfl⟩, ?_⟩
  rw [GroupOp.act_add_int, hm, hk, hij, addV_assoc]
  congr 1
  funext a; simp [addV, castV]

end IsSymmetry

/-! ### Closure: the set of ALL symmetry operations of a crystal is a group -/

namespace GroupOp

theorem invIndex_nil : invIndex [] = [] := by simp [invIndex, isort]

theorem getD_zipWith_compose (A B : List (List Nat)) (s : Nat) (hA : s < A.length)
    (hB : s < B.length) :
    (List.zipWith compose A B).getD s [] = compose (A.getD s []) (B.getD s []) := by
  simp [List.getD_eq_getElem?_getD, List.getElem?_zipWith, List.getElem?_eq_getElem hA,
    List.getElem?_eq_getElem hB]

theorem getD_compose (a b : List Nat) {i : Nat} (hi : i < b.length) :
    (compose a b).getD i 0 = a.getD (b.getD i 0) 0 := by
  have h1 : (compose a b)[i]? = some (a.getD b[i] 0) := by
    simp [compose, List.getElem?_map, List.getElem?_eq_getElem hi]
  have h2 : b[i]? = some b[i] := List.getElem?_eq_getElem hi
  rw [List.getD_eq_getElem?_getD, h1, List.getD_eq_getElem?_getD (l := b), h2]; rfl

theorem compose_perm {a b : List Nat} {n : Nat} (ha : a.Perm (List.range n))
    (hb : b.Perm (List.range n)) : (compose a b).Perm (List.range n) := by
  have hlen : a.length = n := by simpa using ha.length_eq
  have h1 : (compose a b).Perm (compose a (List.range n)) := hb.map _
  have h2 : compose a (List.range n) = a := by rw [← hlen]; exact compose_range_right a
  rw [h2] at h1
  exact h1.trans ha

theorem PermWF.mul {shape : List Nat} {g h : GroupOp d} (hg : PermWF shape g) (hh : PermWF shape h) :
    PermWF shape (g.mul h) := by
  rw [permWF_iff] at *
  obtain ⟨lg, pg⟩ := hg
  obtain ⟨lh, ph⟩ := hh
  refine ⟨by simp [mul_indexmap, lg, lh], fun s hs => ?_⟩
  rw [mul_indexmap, getD_zipWith_compose _ _ s (by omega) (by omega)]
  exact compose_perm (pg s hs) (ph s hs)

theorem imap_mul {shape : List Nat} {g h : GroupOp d} (hg : PermWF shape g) (hh : PermWF shape h)
    {s i : Nat} (hs : s < shape.length) (hi : i < shape.getD s 0) :
    (g.mul h).imap s i = g.imap s (h.imap s i) := by
  obtain ⟨lg, _⟩ := (permWF_iff _ _).1 hg
  obtain ⟨lh, ph⟩ := (permWF_iff _ _).1 hh
  have hlen : (h.indexmap.getD s []).length = shape.getD s 0 := by simpa using (ph s hs).length_eq
  simp only [imap, mul_indexmap]
  rw [getD_zipWith_compose _ _ s (by omega) (by omega)]
  exact getD_compose _ _ (by omega)

theorem invIndex_perm {l : List Nat} {n : Nat} (hp : l.Perm (List.range n)) :
    (invIndex l).Perm (List.range n) := by
  have hlen : l.length = n := by simpa using hp.length_eq
  subst hlen
  obtain ⟨hl, hsp⟩ := invIndex_spec l hp
  apply perm_range_of_nodup hl
  · intro j hj
    obtain ⟨i, hi, rfl⟩ := List.mem_iff_getElem.1 hj
    have := (hsp i (by omega)).1
    simpa [List.getD_eq_getElem?_getD, List.getElem?_eq_getElem hi] using this
  · have := compose_invIndex_right l hp
    have hnd : (compose l (invIndex l)).Nodup := this ▸ List.nodup_range
    exact List.Nodup.of_map _ hnd

theorem PermWF.inv {shape : List Nat} {g gi : GroupOp d} (hg : PermWF shape g)
    (hi : gi.indexmap = g.indexmap.map invIndex) : PermWF shape gi := by
  rw [permWF_iff] at *
  obtain ⟨lg, pg⟩ := hg
  refine ⟨by simp [hi, lg], fun s hs => ?_⟩
  have : gi.indexmap.getD s [] = invIndex (g.indexmap.getD s []) := by
    rw [hi]
    simp [List.getD_eq_getElem?_getD, List.getElem?_map,
      List.getElem?_eq_getElem (show s < g.indexmap.length by omega)]
  rw [this]
  exact invIndex_perm (pg s hs)

theorem imap_inv {shape : List Nat} {g gi : GroupOp d} (hg : PermWF shape g)
    (hi : gi.indexmap = g.indexmap.map invIndex) {s j : Nat} (hs : s < shape.length)
    (hj : j < shape.getD s 0) :
    gi.imap s j < shape.getD s 0 ∧ g.imap s (gi.imap s j) = j := by
  obtain ⟨lg, pg⟩ := (permWF_iff _ _).1 hg
  have hp := pg s hs
  have hlen : (g.indexmap.getD s []).length = shape.getD s 0 := by simpa using hp.length_eq
  have : gi.indexmap.getD s [] = invIndex (g.indexmap.getD s []) := by
    rw [hi]
    simp [List.getD_eq_getElem?_getD, List.getElem?_map,
      List.getElem?_eq_getElem (show s < g.indexmap.length by omega)]
  have hsp := (invIndex_spec (g.indexmap.getD s []) (hlen ▸ hp)).2 j (by omega)
  simp only [imap, this]
  rw [hlen] at hsp
  exact hsp

end GroupOp

namespace IsSymmetry
variable {c : Crystal d}

/-- the identity is a symmetry operation of every crystal -/
theorem ident (c : Crystal d) : IsSymmetry c (GroupOp.ident c.shape) := by
  have hperm : GroupOp.PermWF c.shape (GroupOp.ident (d := d) c.shape) := by
    rw [GroupOp.permWF_iff]
    refine ⟨by simp [GroupOp.ident], fun s hs => ?_⟩
    simp [GroupOp.ident, List.getD_eq_getElem?_getD, List.getElem?_map, List.getElem?_eq_getElem hs]
  have himap : ∀ s < c.nspecies, ∀ i < c.natoms s, (GroupOp.ident (d := d) c.shape).imap s i = i := by
    intro s hs i hi
    have hs' : s < c.shape.length := by rwa [Crystal.shape_length]
    have : c.shape[s] = c.natoms s := by
      have := c.shape_getD s
      simpa [List.getD_eq_getElem?_getD, List.getElem?_eq_getElem hs'] using this
    simp [GroupOp.imap, GroupOp.ident, List.getD_eq_getElem?_getD, List.getElem?_map,
      List.getElem?_eq_getElem hs', this, List.getElem?_range hi]
  refine ⟨isIsometry_one _, ⟨oneI, mmulI_one_left _, mmulI_one_left _⟩, hperm, ?_, ?_⟩
  · intro s hs i hi
    refine ⟨0, ?_⟩
    rw [GroupOp.act_ident, himap s hs i hi]
    funext k; simp [addV, castV]
  · exact ⟨1, Or.inl rfl, fun s hs i hi => by rw [himap s hs i hi]; simp⟩

/-- the product of two symmetry operations is a symmetry operation -/
theorem mul {g h : GroupOp d} (hg : IsSymmetry c g) (hh : IsSymmetry c h) :
    IsSymmetry c (g.mul h) := by
  have himap : ∀ s < c.nspecies, ∀ i < c.natoms s, (g.mul h).imap s i = g.imap s (h.imap s i) := by
    intro s hs i hi
    exact GroupOp.imap_mul hg.perm hh.perm (by rwa [Crystal.shape_length]) (by rwa [Crystal.shape_getD])
  refine ⟨isIsometry_mul hg.metric hh.metric, ?_, hg.perm.mul hh.perm, ?_, ?_⟩
  · obtain ⟨Bg, g1, g2⟩ := hg.unimod
    obtain ⟨Bh, h1, h2⟩ := hh.unimod
    refine ⟨mmulI Bh Bg, ?_, ?_⟩
    · show mmulI (mmulI Bh Bg) (mmulI g.rot h.rot) = oneI
      rw [mmulI_assoc, ← mmulI_assoc Bg, g1, mmulI_one_left, h1]
    · show mmulI (mmulI g.rot h.rot) (mmulI Bh Bg) = oneI
      rw [mmulI_assoc, ← mmulI_assoc h.rot, h2, mmulI_one_left, g2]
  · intro s hs i hi
    obtain ⟨m, hm⟩ := hh.maps s hs i hi
    obtain ⟨n, hn⟩ := hg.maps s hs _ (hh.imap_lt hs hi)
    refine ⟨n + mulVecI g.rot m, ?_⟩
    rw [GroupOp.act_mul, hm, GroupOp.act_add_int, hn, himap s hs i hi, addV_assoc, castV_add]; rfl
  · obtain ⟨φg, hφg, sg⟩ := hg.spin
    obtain ⟨φh, hφh, sh⟩ := hh.spin
    refine ⟨φg * φh, ?_, fun s hs i hi => ?_⟩
    · rcases hφg with rfl | rfl <;> rcases hφh with rfl | rfl <;> simp
    · rw [himap s hs i hi, sg s hs _ (hh.imap_lt hs hi), sh s hs i hi]; ring

/-- the inverse of a symmetry operation is a symmetry operation -/
theorem inv {g gi : GroupOp d} (hg : IsSymmetry c g) (hinv : g.inv? = some gi) :
    IsSymmetry c gi := by
  obtain ⟨B, hB, hr, ht, hi⟩ := GroupOp.inv?_some hinv
  obtain ⟨h1, h2⟩ := GroupOp.invRot?_some hB
  have hperm : GroupOp.PermWF c.shape gi := hg.perm.inv hi
  have himap : ∀ s < c.nspecies, ∀ j < c.natoms s,
      gi.imap s j < c.natoms s ∧ g.imap s (gi.imap s j) = j := by
    intro s hs j hj
    have := GroupOp.imap_inv hg.perm hi (s := s) (j := j) (by rwa [Crystal.shape_length])
      (by rwa [Crystal.shape_getD])
    rwa [Crystal.shape_getD] at this
  refine ⟨?_, ⟨g.rot, hr ▸ h2, hr ▸ h1⟩, hperm, ?_, ?_⟩
  · rw [hr]; exact isIsometry_inv hg.metric h2
  · intro s hs j hj
    obtain ⟨hlt, hback⟩ := himap s hs j hj
    obtain ⟨m, hm⟩ := hg.maps s hs _ hlt
    rw [hback] at hm
    -- g.act u_{σ j} = u_j + m  ⇒  gi.act u_j = u_{σ j} - B m
    refine ⟨- mulVecI gi.rot m, ?_⟩
    have hinvact := GroupOp.act_inv c.shape hinv hg.perm (c.pos s (gi.imap s j))
    rw [hm, GroupOp.act_add_int] at hinvact
    rw [← hinvact, addV_assoc, castV_neg]
    funext k; simp [addV]
  · obtain ⟨φ, hφ, sg⟩ := hg.spin
    refine ⟨φ, hφ, fun s hs j hj => ?_⟩
    obtain ⟨hlt, hback⟩ := himap s hs j hj
    have := sg s hs _ hlt
    rw [hback] at this
    rw [this, ← _root_.mul_assoc]
    rcases hφ with rfl | rfl <;> simp

end IsSymmetry

/-- **All symmetry operations of a crystal form a group** under the GroupOp algebra: identity,
    products and inverses of symmetry operations are symmetry operations (for every crystal). -/
theorem all_ops_form_group (c : Crystal d) :
    IsSymmetry c (GroupOp.ident c.shape) ∧
    (∀ g h, IsSymmetry c g → IsSymmetry c h → IsSymmetry c (g.mul h)) ∧
    (∀ g gi, IsSymmetry c g → g.inv? = some gi → IsSymmetry c gi) :=
  ⟨IsSymmetry.ident c, fun _ _ => IsSymmetry.mul, fun _ _ => IsSymmetry.inv⟩


/-! ### Groups modulo lattice translations -/

namespace GroupOp

theorem tab_eq (g : GroupOp d) : g.tab = g := by
  apply ext' <;> simp [tab, tabM_eq, tabV_eq]

/-- `k` equals `g` followed by a lattice translation -/
def EquivT (k g : GroupOp d) : Prop := ∃ n : Vec d Int, k = g.addT n

theorem equivT_iff (k g : GroupOp d) : k.equivT g = true ↔ EquivT k g := by
  simp only [equivT, Bool.and_eq_true, matEqI_iff, beq_iff_eq, isIntVec_iff, EquivT]
  constructor
  · rintro ⟨⟨hr, hi⟩, n, hn⟩
    refine ⟨n, ext' hr ?_ hi⟩
    simp only [addT]
    rw [← hn]; funext i; simp [addV, subV]
  · rintro ⟨n, rfl⟩
    refine ⟨⟨rfl, rfl⟩, n, ?_⟩
    funext i; simp [addT, addV, subV]

theorem addT_mul (g h : GroupOp d) (n : Vec d Int) : (g.addT n).mul h = (g.mul h).addT n := by
  apply ext' <;> simp only [mul, addT]
  rw [addV_assoc]

theorem mul_addT (g h : GroupOp d) (m : Vec d Int) :
    g.mul (h.addT m) = (g.mul h).addT (mulVecI g.rot m) := by
  apply ext' <;> simp only [mul, addT]
  rw [mulVecR_add, mulVecR_castV, addV_assoc, addV_assoc, addV_comm g.trans]

theorem addT_addT (g : GroupOp d) (m n : Vec d Int) : (g.addT m).addT n = g.addT (m + n) := by
  apply ext' <;> simp only [addT]
  rw [addV_assoc, castV_add]; rfl

theorem addT_zero (g : GroupOp d) : g.addT 0 = g := by
  apply ext' <;> simp only [addT]
  funext i; simp [addV, castV]

end GroupOp

open GroupOp in
/-- `G` is a group modulo lattice translations (statement of the checker's claim). -/
structure IsGroupModT (shape : List Nat) (G : List (GroupOp d)) : Prop where
  ident : ∃ k ∈ G, EquivT k (GroupOp.ident shape)
  mul : ∀ g ∈ G, ∀ h ∈ G, g.compat h = true ∧ ∃ k ∈ G, EquivT k (g.mul h)
  inv : ∀ g ∈ G, ∃ gi, g.inv? = some gi ∧ ∃ k ∈ G, EquivT k gi

/-- **Soundness of the group checker** (all inputs). -/
theorem isGroupModTranslations_sound (shape : List Nat) (G : List (GroupOp d))
    (h : isGroupModTranslations shape G = true) : IsGroupModT shape G := by
  simp only [isGroupModTranslations, Bool.and_eq_true, List.any_eq_true, List.all_eq_true,
    GroupOp.equivT_iff, GroupOp.tab_eq] at h
  obtain ⟨⟨h1, h2⟩, h3⟩ := h
  refine ⟨h1, fun g hg h' hh => h2 g hg h' hh, fun g hg => ?_⟩
  have := h3 g hg
  cases hgi : g.inv? with
  | none => simp [hgi] at this
  | some gi =>
    simp only [hgi, List.any_eq_true, GroupOp.equivT_iff] at this
    exact ⟨gi, rfl, this⟩

namespace IsGroupModT
open GroupOp
variable {shape : List Nat} {G : List (GroupOp d)}

/-- the set of all translates `{g + n : g ∈ G, n ∈ ℤ^d}` is closed under the product -/
theorem translate_closed (hG : IsGroupModT shape G) {g h : GroupOp d} (hg : g ∈ G) (hh : h ∈ G)
    (n m : Vec d Int) : ∃ k ∈ G, ∃ p : Vec d Int, (g.addT n).mul (h.addT m) = k.addT p := by
  obtain ⟨_, k, hk, q, hq⟩ := hG.mul g hg h hh
  refine ⟨k, hk, mulVecI g.rot m + n - q, ?_⟩
  have hgh : g.mul h = k.addT (-q) := by
    rw [hq, addT_addT]; simp [addT_zero]
  rw [addT_mul, mul_addT, hgh, addT_addT, addT_addT]
  congr 1; abel

/-- every element has a left inverse in `G` modulo a lattice translation -/
theorem left_inverse (hG : IsGroupModT shape G) {g : GroupOp d} (hg : g ∈ G)
    (hw : PermWF shape g) : ∃ k ∈ G, ∃ n : Vec d Int, k.mul g = (GroupOp.ident shape).addT n := by
  obtain ⟨gi, hgi, k, hk, n, hn⟩ := hG.inv g hg
  exact ⟨k, hk, n, by rw [hn, addT_mul, inv_mul_cancel shape hgi hw]⟩

end IsGroupModT


/-! ### Completeness of the candidate search of `gengroup` (box from the inverse metric) -/

section Complete
open Finset

theorem nsq_eq_B (g : Mat d Rat) (x : Vec d Rat) : nsq g x = Onsager.Geom.B g x x := by
  simp only [nsq, dotR_eq, mulVecR, Onsager.Geom.B, Finset.mul_sum]
  refine Finset.sum_congr rfl fun i _ => Finset.sum_congr rfl fun j _ => by ring

theorem invQ?_some {g h : Mat d Rat} (hh : invQ? g = some h) : mmulR g h = oneR := by
  unfold invQ? at hh
  simp only [tabM_eq] at hh
  split at hh
  · cases hh
  · split at hh
    · rename_i hc
      cases hh
      exact (matEqR_iff _ _).1 hc
    · cases hh

theorem foldl_max_ge (l : List Rat) (a : Rat) : a ≤ l.foldl max a ∧ ∀ x ∈ l, x ≤ l.foldl max a := by
  induction l generalizing a with
  | nil => simp
  | cons y t ih =>
    simp only [List.foldl_cons, List.mem_cons, forall_eq_or_imp]
    obtain ⟨h1, h2⟩ := ih (max a y)
    exact ⟨le_trans (le_max_left a y) h1, le_trans (le_max_right a y) h1, h2⟩

/-- **Cauchy–Schwarz completeness of the candidate box**: for a symmetric positive-semidefinite
    metric with (checked) inverse, every integer vector `u` whose length equals that of some lattice
    vector `a_k` (`uᵀ g u = g_kk`) lies in the box `|u_i| ≤ nmax_i` that `gengroup` enumerates. -/
theorem box_complete (g : Mat d Rat) (nb : Vec d Nat) (hs : ∀ i j, g i j = g j i)
    (hp : ∀ x : Fin d → ℚ, 0 ≤ Onsager.Geom.B g x x) (hb : boxBounds g = some nb)
    (u : Vec d Int) (k : Fin d) (hu : nsq g (castV u) = g k k) (i : Fin d) :
    (u i).natAbs ≤ nb i := by
  unfold boxBounds at hb
  cases hinv : invQ? g with
  | none => rw [hinv] at hb; cases hb
  | some h =>
    rw [hinv] at hb
    simp only [Option.some.injEq, tabV_eq] at hb
    subst hb
    have hgh := invQ?_some hinv
    have hinv' : ∀ a b, (∑ c, g a c * h c b) = if a = b then 1 else 0 := by
      intro a b
      have := congrFun (congrFun hgh a) b
      simpa [mmulR, dotR_eq, oneR] using this
    have hcs := Onsager.Geom.coord_sq_le g h hs hp hinv' (castV u) i
    have hhpos := Onsager.Geom.inv_diag_pos g h hs hp hinv' i
    rw [← nsq_eq_B, hu] at hcs
    have hgmax : g k k ≤ (List.ofFn fun a => g a a).foldl max 0 :=
      (foldl_max_ge _ 0).2 _ (by simp [List.mem_ofFn])
    have hle : ((((u i).natAbs * (u i).natAbs : ℕ)) : ℚ) ≤ (List.ofFn fun a => g a a).foldl max 0 * h i i := by
      have h1 : (((u i).natAbs * (u i).natAbs : ℕ) : ℚ) = castV u i * castV u i := by
        have hz : ((u i).natAbs : ℤ) * ((u i).natAbs : ℤ) = u i * u i := Int.natAbs_mul_self' (u i)
        calc (((u i).natAbs * (u i).natAbs : ℕ) : ℚ)
            = ((((u i).natAbs : ℤ) * ((u i).natAbs : ℤ) : ℤ) : ℚ) := by
              rw [Nat.cast_mul, Int.cast_mul, Int.cast_natCast]
          _ = ((u i * u i : ℤ) : ℚ) := by rw [hz]
          _ = castV u i * castV u i := by simp [castV]
      rw [h1]
      exact le_trans hcs (mul_le_mul_of_nonneg_right hgmax hhpos.le)
    exact le_trans (Onsager.Geom.le_floorSqrt hle) (le_max_right _ _)

theorem vecOfList_ofFn (u : Vec d Int) : vecOfList (List.ofFn u) = u := by
  funext i
  simp [vecOfList, List.getD_eq_getElem?_getD]

/-- every non-zero integer vector of the box is enumerated -/
theorem mem_supercellvect (g : Mat d Rat) (nb : Vec d Nat) (hb : boxBounds g = some nb) (u : Vec d Int)
    (hne : ∃ i, u i ≠ 0) (hin : ∀ i, (u i).natAbs ≤ nb i) : u ∈ supercellvect g := by
  unfold supercellvect
  rw [hb]
  simp only [tabVs_eq, List.mem_map, List.mem_filter]
  refine ⟨List.ofFn u, ⟨?_, ?_⟩, vecOfList_ofFn u⟩
  · rw [Onsager.Geom.mem_boxLists]
    rw [List.forall₂_iff_get]
    refine ⟨by simp, fun j h1 h2 => ?_⟩
    simp only [List.get_eq_getElem, List.getElem_ofFn]
    exact hin _
  · obtain ⟨i, hi⟩ := hne
    simp only [List.any_eq_true, List.mem_ofFn, decide_eq_true_eq]
    exact ⟨u i, ⟨i, rfl⟩, hi⟩

theorem mem_cart {β : Type} : ∀ (ls : List (List β)) (l : List β),
    l ∈ cart ls ↔ List.Forall₂ (fun a as => a ∈ as) l ls
  | [], l => by simp [cart]
  | as :: ls, l => by
    simp only [cart, List.mem_flatMap, List.mem_map]
    constructor
    · rintro ⟨a, ha, t, ht, rfl⟩
      exact List.Forall₂.cons ha ((mem_cart ls t).1 ht)
    · intro h
      cases h with
      | cons ha ht => exact ⟨_, ha, _, (mem_cart ls _).2 ht, rfl⟩

/-- **Completeness of the rotation candidates**: for a symmetric positive-semidefinite metric with
    positive diagonal, every unimodular integer matrix that preserves the metric is among the
    candidates that the model's (and, after commit 5853619, the source's) `gengroup` tries. -/
theorem candidateRots_complete (g : Mat d Rat) (hs : ∀ i j, g i j = g j i)
    (hp : ∀ x : Fin d → ℚ, 0 ≤ Onsager.Geom.B g x x) (hdiag : ∀ k, 0 < g k k)
    (hbox : (boxBounds g).isSome = true)
    (R : Mat d Int) (hiso : IsIsometry g R) (hdet : (det R).natAbs = 1) :
    R ∈ candidateRots g := by
  obtain ⟨nb, hb⟩ := Option.isSome_iff_exists.1 hbox
  -- column k of R has the length of a_k
  have hcol : ∀ k, nsq g (castV fun i => R i k) = g k k := by
    intro k
    have := congrFun (congrFun hiso k) k
    rw [← this]
    simp only [nsq, mmulR, transp, dotR_eq, mulVecR, castM, castV]
  have hcolne : ∀ k, ∃ i, R i k ≠ 0 := by
    intro k
    by_contra hcon
    push Not at hcon
    have h0 : nsq g (castV fun i => R i k) = 0 := by
      simp [nsq, dotR_eq, castV, hcon]
    rw [hcol k] at h0
    exact absurd h0 (ne_of_gt (hdiag k))
  have hmem : ∀ k, (fun i => R i k) ∈ (supercellvect g).filter
      (fun u => nsq g (castV u) == g k k) := by
    intro k
    rw [List.mem_filter]
    refine ⟨mem_supercellvect g nb hb _ (hcolne k)
      (fun i => box_complete g nb hs hp hb _ k (hcol k) i), ?_⟩
    simp [hcol k]
  unfold candidateRots
  simp only [tabMs_eq, List.mem_filter, List.mem_map]
  refine ⟨⟨List.ofFn fun k => (fun i => R i k), ?_, ?_⟩, ?_⟩
  · rw [mem_cart, List.forall₂_iff_get]
    refine ⟨by simp, fun j h1 h2 => ?_⟩
    simp only [List.get_eq_getElem, List.getElem_ofFn, List.getElem_map, List.getElem_finRange]
    exact hmem _
  · funext i j
    simp [List.getD_eq_getElem?_getD]
  · simp only [Bool.and_eq_true, beq_iff_eq, preservesMetric_iff]
    exact ⟨hdet, hiso⟩

/-- in particular the rotation part of EVERY symmetry operation of a crystal is tried -/
theorem symmetry_rot_is_candidate (c : Crystal d) (hs : ∀ i j, c.metric i j = c.metric j i)
    (hp : ∀ x : Fin d → ℚ, 0 ≤ Onsager.Geom.B c.metric x x) (hdiag : ∀ k, 0 < c.metric k k)
    (hbox : (boxBounds c.metric).isSome = true) (g : GroupOp d) (hg : IsSymmetry c g)
    (hdet : (det g.rot).natAbs = 1) : g.rot ∈ candidateRots c.metric :=
  candidateRots_complete c.metric hs hp hdiag hbox g.rot hg.metric hdet

end Complete

/-! ### The property, and what is proved of it -/

/-- C18 for one crystal, for the model's `gengroup`: every reported operation is a symmetry
    operation and the reported set is a group modulo lattice translations. -/
def C18_full (c : Crystal d) : Prop :=
  (∀ g ∈ gengroup c, IsSymmetry c g) ∧ IsGroupModT c.shape (gengroup c)

/-- What is proved: the statement holds for every crystal on which the (verified) checkers
    succeed.  The rotation candidates are complete (`candidateRots_complete`); the missing
    universally quantified step is the completeness of the translation search (`maptranslation`),
    without which closure of the reported set cannot be derived from `all_ops_form_group`. -/
theorem C18_partial (c : Crystal d)
    (h : ((gengroup c).all (isSpaceGroupOp c) && isGroupModTranslations c.shape (gengroup c)) = true) :
    C18_full c := by
  simp only [Bool.and_eq_true, List.all_eq_true] at h
  exact ⟨fun g hg => isSpaceGroupOp_sound c g (h.1 g hg), isGroupModTranslations_sound _ _ h.2⟩

/-- the same for ANY reported list `G` (this is what runs on the implementation's `crys.G`) -/
theorem reported_group_ok (c : Crystal d) (G : List (GroupOp d))
    (h : (G.all (isSpaceGroupOp c) && isGroupModTranslations c.shape G) = true) :
    (∀ g ∈ G, IsSymmetry c g) ∧ IsGroupModT c.shape G := by
  simp only [Bool.and_eq_true, List.all_eq_true] at h
  exact ⟨fun g hg => isSpaceGroupOp_sound c g (h.1 g hg), isGroupModTranslations_sound _ _ h.2⟩


/-! ### NOSYM: the identity alone -/

namespace GroupOp

theorem invIndex_range (n : Nat) : invIndex (List.range n) = List.range n := by
  have hp : (List.range n).Perm (List.range (List.range n).length) := by simp
  have h1 := compose_invIndex_left (List.range n) hp
  have hl := (invIndex_spec (List.range n) hp).1
  simp only [List.length_range] at h1 hl
  have h2 := compose_range_right (invIndex (List.range n))
  rw [hl] at h2
  rw [← h2, h1]

theorem inv?_ident {gi : GroupOp d} (shape : List Nat)
    (h : (GroupOp.ident (d := d) shape).inv? = some gi) : gi = GroupOp.ident shape := by
  obtain ⟨B, hB, hr, ht, hi⟩ := inv?_some h
  obtain ⟨h1, _⟩ := invRot?_some hB
  have hB1 : B = oneI := by
    have : mmulI B oneI = oneI := h1
    rwa [mmulI_one_right] at this
  apply ext'
  · rw [hr, hB1]; rfl
  · rw [ht]; funext i; simp [ident, mulVecR_zero, zeroV]
  · rw [hi]; simp [ident, List.map_map, Function.comp_def, invIndex_range]

theorem ident_compat (shape : List Nat) :
    (GroupOp.ident (d := d) shape).compat (GroupOp.ident shape) = true := by
  simp only [compat, ident]
  induction shape with
  | nil => simp
  | cons n t ih => simp [ih]

theorem ident_wf (shape : List Nat) : WF shape (GroupOp.ident (d := d) shape) := by
  unfold WF ident
  simp only
  induction shape with
  | nil => simp
  | cons n t ih => exact List.Forall₂.cons ⟨by simp, fun j hj => by simpa using hj⟩ ih

end GroupOp

/-- With symmetry search off (`NOSYM=True`) the reported set is `{identity}`: it consists of a
    symmetry operation and is a group modulo lattice translations, as soon as the identity
    rotation is invertible in the model (true for d = 2, 3: `invRot?_one2`, `invRot?_one3`). -/
theorem nosym_is_group (c : Crystal d) (hinv : (invRot? (oneI : Mat d Int)).isSome = true) :
    IsSymmetry c (GroupOp.ident c.shape) ∧
      IsGroupModT c.shape [GroupOp.ident (d := d) c.shape] := by
  refine ⟨IsSymmetry.ident c, ⟨⟨_, List.mem_singleton.2 rfl, 0, (GroupOp.addT_zero _).symm⟩, ?_, ?_⟩⟩
  · intro g hg h hh
    rw [List.mem_singleton] at hg hh
    subst hg; subst hh
    refine ⟨GroupOp.ident_compat _, _, List.mem_singleton.2 rfl, 0, ?_⟩
    rw [GroupOp.addT_zero, GroupOp.ident_mul _ _ (GroupOp.ident_wf _)]
  · intro g hg
    rw [List.mem_singleton] at hg
    subst hg
    obtain ⟨B, hB⟩ := Option.isSome_iff_exists.1 hinv
    have hsome : ∃ gi, (GroupOp.ident (d := d) c.shape).inv? = some gi := by
      simp only [GroupOp.inv?, GroupOp.ident] at *
      rw [hB]; exact ⟨_, rfl⟩
    obtain ⟨gi, hgi⟩ := hsome
    refine ⟨gi, hgi, _, List.mem_singleton.2 rfl, 0, ?_⟩
    rw [GroupOp.addT_zero, GroupOp.inv?_ident _ hgi]

theorem invRot?_one2 : (invRot? (oneI : Mat 2 Int)).isSome = true := by decide +kernel
theorem invRot?_one3 : (invRot? (oneI : Mat 3 Int)).isSome = true := by decide +kernel

/-! ### Non-vacuity: concrete crystals on which the hypotheses hold -/

section Examples

/-- 2-D square lattice, species 0 at the origin, species 1 at (1/2,0) and (0,1/2) with spins ±1 -/
def exCrystal : Crystal 2 :=
  { metric := fun i j => if i = j then 1 else 0
    basis := [[fun _ => 0], [fun i => if i = 0 then 1/2 else 0, fun i => if i = 0 then 0 else 1/2]]
    spins := [[0], [1, -1]] }

/-- 4-fold rotation: swaps the two atoms of species 1 and flips the spins (phase −1) -/
def exRot4 : GroupOp 2 :=
  { rot := fun i j => if i = 0 ∧ j = 1 then -1 else if i = 1 ∧ j = 0 then 1 else 0
    trans := fun _ => 0
    indexmap := [[0], [1, 0]] }

example : isSpaceGroupOp exCrystal exRot4 = true := by decide +kernel
example : IsSymmetry exCrystal exRot4 := isSpaceGroupOp_sound _ _ (by decide +kernel)
/-- a wrong index map is rejected -/
example : isSpaceGroupOp exCrystal { exRot4 with indexmap := [[0], [0, 1]] } = false := by
  decide +kernel
/-- the model's `gengroup` finds 8 operations for this crystal and they pass both checkers -/
example : (gengroup exCrystal).length = 8 := by decide +kernel
example : C18_full exCrystal := C18_partial _ (by decide +kernel)

end Examples


end Onsager.C18
