/-
  C03 at the level of the finite solute–vacancy chain: the FULL tensors Lss and Lvv returned by the exact chain
  model are positive semidefinite — for every direction u, Σ_{α,β} u_α u_β L_{αβ} ≥ 0 — for every chain for
  which the model returns all components (`chain_psd`).  The axes-only statement is `coeff_diag_nonneg`.
-/
import OnsagerProofs.ChainTracer
import OnsagerProofs.Lemmas.Quadratic

namespace Onsager.Chain
open Onsager.C02 Onsager.Var

/-- skeleton of a transition: end points as `Fin`, if in range -/
def skelOf (inp : Input) (t : Trans) : Option (Fin inp.n × Fin inp.n × Trans) :=
  if hx : t.x < inp.n then
    if hy : t.y < inp.n then some (⟨t.x, hx⟩, ⟨t.y, hy⟩, t) else none
  else none

def disp (a : Nat) (t : Trans) (α : Nat) : ℚ := (if a = 0 then t.ds else t.dv).getD α 0

theorem mk_eq (inp : Input) (a b α β : Nat) (t : Trans) :
    mk inp a b α β t = (skelOf inp t).map
      (fun p => (⟨p.1, p.2.1, disp a p.2.2 α, p.2.2.r, disp b p.2.2 β⟩ : Jump (Fin inp.n) ℚ)) := by
  unfold mk skelOf disp
  split
  · split <;> rfl
  · rfl

theorem mapM_map_comm {α β γ : Type} (f : α → Option β) (g : β → γ) :
    ∀ l : List α, l.mapM (fun t => (f t).map g) = (l.mapM f).map (List.map g)
  | [] => by simp
  | a :: t => by
    rw [List.mapM_cons, List.mapM_cons, mapM_map_comm f g t]
    cases f a with
    | none => simp
    | some b =>
      cases t.mapM f with
      | none => simp
      | some bs => simp

/-- all component networks of one displacement kind are `Var.net` over the same skeleton list -/
theorem network_eq_net (inp : Input) (a α β : Nat) :
    network inp a a α β = (inp.trans.mapM (skelOf inp)).map
      (fun S => net S (fun p => p.1) (fun p => p.2.1) (fun p => p.2.2.r) (fun p γ => disp a p.2.2 γ) α β) := by
  unfold network
  have : (mk inp a a α β) = fun t => (skelOf inp t).map
      (fun p => (⟨p.1, p.2.1, disp a p.2.2 α, p.2.2.r, disp a p.2.2 β⟩ : Jump (Fin inp.n) ℚ)) := by
    funext t; exact mk_eq inp a a α β t
  rw [this, mapM_map_comm]
  rfl

/-- **Full positive semidefiniteness of Lss / Lvv of every finite chain.** -/
theorem chain_psd (inp : Input) (cert : Option (List (List ℚ))) (a : Nat) (L : ℕ → ℕ → ℚ) (u : ℕ → ℚ)
    (hall : ∀ α β, α < inp.dim → β < inp.dim → coeff inp cert a a α β = some (L α β)) :
    0 ≤ ∑ α ∈ Finset.range inp.dim, ∑ β ∈ Finset.range inp.dim, u α * u β * L α β := by
  by_cases hd : inp.dim = 0
  · rw [hd]; simp
  have h0 : 0 < inp.dim := Nat.pos_of_ne_zero hd
  -- the common skeleton
  obtain ⟨l00, _, hl00, _⟩ := coeff_unpack inp cert a a 0 0 (L 0 0) (hall 0 0 h0 h0)
  rw [network_eq_net] at hl00
  cases hS : inp.trans.mapM (skelOf inp) with
  | none => rw [hS] at hl00; simp at hl00
  | some S =>
    set s : (Fin inp.n × Fin inp.n × Trans) → Fin inp.n := fun p => p.1 with hs
    set d : (Fin inp.n × Fin inp.n × Trans) → Fin inp.n := fun p => p.2.1 with hdd
    set r : (Fin inp.n × Fin inp.n × Trans) → ℚ := fun p => p.2.2.r with hrr
    set v : (Fin inp.n × Fin inp.n × Trans) → ℕ → ℚ := fun p γ => disp a p.2.2 γ with hv
    have hnet : ∀ α β, network inp a a α β = some (net S s d r v α β) := by
      intro α β; rw [network_eq_net, hS]; rfl
    -- certified stationary points for every component, reversibility, non-negative weights
    have hdiag : ∀ α, α < inp.dim → ∃ ξ : Fin inp.n → ℚ, Stationary (net S s d r v α α) ξ ∧
        ((net S s d r v α α).map Jump.rev).Perm (net S s d r v α α) ∧ ∀ j ∈ net S s d r v α α, 0 ≤ j.r := by
      intro α hα
      obtain ⟨l, ξ, hl, hp, hr, hst, _⟩ := coeff_unpack inp cert a a α α (L α α) (hall α α hα hα)
      rw [hnet α α] at hl; cases hl
      exact ⟨ξ, hst, hp, hr⟩
    choose f hf using hdiag
    let ξ : ℕ → Fin inp.n → ℚ := fun α => if h : α < inp.dim then f α h else fun _ => 0
    have hξ : ∀ α (h : α < inp.dim), ξ α = f α h := by
      intro α h; simp only [ξ, h, dite_true]
    have hr : ∀ t ∈ S, 0 ≤ r t := by
      intro t ht
      have := (hf 0 h0).2.2 ⟨s t, d t, v t 0, r t, v t 0⟩ (by
        unfold net; exact List.mem_map.2 ⟨t, ht, rfl⟩)
      exact this
    -- every returned component equals the Gram form
    have hL : ∀ α β, α < inp.dim → β < inp.dim → L α β = gram S s d r v ξ α β := by
      intro α β hα hβ
      obtain ⟨l, ξ', hl, hp, _, hst, hD⟩ := coeff_unpack inp cert a a α β (L α β) (hall α β hα hβ)
      rw [hnet α β] at hl; cases hl
      have hsa : Stationary (net S s d r v α α) (ξ α) := by rw [hξ α hα]; exact (hf α hα).1
      have hsb : Stationary (net S s d r v β β) (ξ β) := by rw [hξ β hβ]; exact (hf β hβ).1
      have hsa' : Stationary (net S s d r v α β) (ξ α) := (Stationary_net_indep S s d r v α α β (ξ α)).1 hsa
      have hsb' : Stationary ((net S s d r v α β).map Jump.swap) (ξ β) := by
        rw [net_swap]; exact (Stationary_net_indep S s d r v β β α (ξ β)).1 hsb
      have hind := formOf_indep (net S s d r v α β) hp ξ' (ξ α) (ξ β) hst hsa' hsb'
      have hM := M_eq_gram S s d r v ξ α β hp (hf β hβ).2.1 hsa hsb
      rw [hD, hind]
      exact hM
    have : ∑ α ∈ Finset.range inp.dim, ∑ β ∈ Finset.range inp.dim, u α * u β * L α β
        = ∑ α ∈ Finset.range inp.dim, ∑ β ∈ Finset.range inp.dim, u α * u β * gram S s d r v ξ α β := by
      apply Finset.sum_congr rfl
      intro α hα
      apply Finset.sum_congr rfl
      intro β hβ
      rw [hL α β (Finset.mem_range.1 hα) (Finset.mem_range.1 hβ)]
    rw [this]
    exact gram_quad_nonneg S s d r v ξ inp.dim u hr

end Onsager.Chain
