/-
  C11 — the population rule of `Interstitial.siteDipoles` / `jumpDipoles`
  (OnsagerCalc.py lines 333–364; crystal.ProjectTensorBasis lines 488–498; Crystal.g_tensor 1182–1194).

    symmdipole = Σ_k ⟨P, b_k⟩ b_k          (`ProjectTensorBasis`, `⟨A,B⟩ = Σ_ij A_ij B_ij`)
    dipole[g·i₀] = R_g symmdipole R_gᵀ      (`g_tensor`)

  For a basis `b_k` of symmetric tensors, each invariant under the stabiliser of the representative
  (site group; for a jump: the operations mapping the jump to itself *or to its reverse*):
  * `proj_symm`, `proj_invariant`   the projected dipole is symmetric and stabiliser-invariant
  * `proj_fixes`, `proj_idem`       for an orthonormal basis it is a projection: tensors in the span are fixed
  * `carry_well_defined`            `R P Rᵀ` does not depend on which operation mapping the representative to
                                    the site/jump is used (two such differ by a stabiliser element)
  * `carry_equivariant`, `carry_symm`  transport composes and preserves symmetry
  That the code's basis spans *all* invariant symmetric tensors is checked on the implementation by the
  direct oracle (equality with the group average), not proved here.
-/
import Mathlib.Data.Matrix.Mul
import Mathlib.Data.Matrix.Basic
import Mathlib.LinearAlgebra.Matrix.Notation
import Mathlib.Tactic.FinCases
import Mathlib.Algebra.BigOperators.Ring.Finset
import Mathlib.Tactic.Ring

namespace Onsager.C11
open Matrix

variable {n : Type} [Fintype n] [DecidableEq n] {K : Type} [CommRing K] {m : Type} [Fintype m] [DecidableEq m]

/-- `np.sum(tensor * b)` -/
def tinner (A B : Matrix n n K) : K := ∑ i, ∑ j, A i j * B i j

/-- `crystal.ProjectTensorBasis` -/
def proj (b : m → Matrix n n K) (T : Matrix n n K) : Matrix n n K := ∑ k, tinner T (b k) • b k

/-- `Crystal.g_tensor` -/
def carry (R P : Matrix n n K) : Matrix n n K := R * (P * Rᵀ)

omit [DecidableEq n] [DecidableEq m] in
theorem proj_symm (b : m → Matrix n n K) (hb : ∀ k, (b k)ᵀ = b k) (T : Matrix n n K) :
    (proj b T)ᵀ = proj b T := by
  unfold proj
  rw [Matrix.transpose_sum]
  refine Finset.sum_congr rfl fun k _ => ?_
  rw [Matrix.transpose_smul, hb k]

omit [DecidableEq n] [DecidableEq m] in
theorem proj_invariant (b : m → Matrix n n K) (S : Matrix n n K) (hb : ∀ k, carry S (b k) = b k)
    (T : Matrix n n K) : carry S (proj b T) = proj b T := by
  unfold proj carry
  rw [Finset.sum_mul, Finset.mul_sum]
  refine Finset.sum_congr rfl fun k _ => ?_
  rw [Matrix.smul_mul, Matrix.mul_smul]
  congr 1
  exact hb k

omit [DecidableEq n] [Fintype m] in
theorem tinner_sum (s : Finset m) (f : m → Matrix n n K) (B : Matrix n n K) :
    tinner (∑ l ∈ s, f l) B = ∑ l ∈ s, tinner (f l) B := by
  induction s using Finset.induction_on with
  | empty => simp [tinner]
  | insert a s ha ih =>
    rw [Finset.sum_insert ha, Finset.sum_insert ha, ← ih]
    unfold tinner
    simp only [Matrix.add_apply, add_mul, Finset.sum_add_distrib]

omit [DecidableEq n] [Fintype m] [DecidableEq m] in
theorem tinner_smul (c : K) (A B : Matrix n n K) : tinner (c • A) B = c * tinner A B := by
  unfold tinner
  simp only [Matrix.smul_apply, smul_eq_mul, Finset.mul_sum, mul_assoc]

omit [DecidableEq n] in
/-- for an orthonormal basis, anything in the span is left alone -/
theorem proj_fixes (b : m → Matrix n n K) (hon : ∀ k l, tinner (b k) (b l) = if k = l then 1 else 0)
    (c : m → K) : proj b (∑ l, c l • b l) = ∑ l, c l • b l := by
  unfold proj
  refine Finset.sum_congr rfl fun k _ => ?_
  congr 1
  rw [tinner_sum]
  simp only [tinner_smul, hon]
  simp

omit [DecidableEq n] in
theorem proj_idem (b : m → Matrix n n K) (hon : ∀ k l, tinner (b k) (b l) = if k = l then 1 else 0)
    (T : Matrix n n K) : proj b (proj b T) = proj b T :=
  proj_fixes b hon (fun k => tinner T (b k))

omit [DecidableEq n] in
/-- two operations mapping the representative to the same site/jump differ by a stabiliser element
    `S`; an `S`-invariant tensor is carried to the same tensor by both -/
theorem carry_well_defined (R₁ R₂ S P : Matrix n n K) (h : R₂ = R₁ * S) (hP : carry S P = P) :
    carry R₂ P = carry R₁ P := by
  unfold carry at *
  rw [h, Matrix.transpose_mul]
  calc R₁ * S * (P * (Sᵀ * R₁ᵀ)) = R₁ * ((S * (P * Sᵀ)) * R₁ᵀ) := by
        simp only [Matrix.mul_assoc]
    _ = R₁ * (P * R₁ᵀ) := by rw [hP]

omit [DecidableEq n] in
theorem carry_equivariant (R R' P : Matrix n n K) : carry (R' * R) P = carry R' (carry R P) := by
  unfold carry
  rw [Matrix.transpose_mul]
  simp only [Matrix.mul_assoc]

omit [DecidableEq n] in
theorem carry_symm (R P : Matrix n n K) (hP : Pᵀ = P) : (carry R P)ᵀ = carry R P := by
  unfold carry
  rw [Matrix.transpose_mul, Matrix.transpose_mul, Matrix.transpose_transpose, hP, Matrix.mul_assoc]

/-- non-vacuity: the basis `{diag(1,0), diag(0,1)}` (mirror-symmetric site in 2-D) is orthonormal, symmetric,
    invariant under the mirror `diag(1,−1)`; the non-symmetric input `[[1,2],[3,4]]` projects to `diag(1,4)`. -/
example :
    let b : Fin 2 → Matrix (Fin 2) (Fin 2) ℚ := fun k => if k = 0 then !![1, 0; 0, 0] else !![0, 0; 0, 1]
    (∀ k l, tinner (b k) (b l) = if k = l then 1 else 0) ∧ (∀ k, (b k)ᵀ = b k)
      ∧ (∀ k, carry !![1, 0; 0, -1] (b k) = b k) ∧ proj b !![1, 2; 3, 4] = !![1, 0; 0, 4] := by
  intro b
  refine ⟨?_, ?_, ?_, ?_⟩
  · intro k l; fin_cases k <;> fin_cases l <;> simp [b, tinner, Fin.sum_univ_two]
  · intro k; fin_cases k <;> ext i j <;> fin_cases i <;> fin_cases j <;> simp [b]
  · intro k; fin_cases k <;> ext i j <;> fin_cases i <;> fin_cases j <;> simp [b, carry, Matrix.mul_apply, Fin.sum_univ_two, Matrix.vecMul, dotProduct, Matrix.transpose_apply]
  · ext i j; fin_cases i <;> fin_cases j <;> simp [b, proj, tinner, Fin.sum_univ_two]

end Onsager.C11
