/-
  C21 — translator tie.  `Generated/C21Facts.lean` holds the classification of the search-box
  statement `nmax = [...]` of `Crystal.jumpnetwork`, read from the current source with `ast`:
    srcForm = 1 : `int(np.round(np.sqrt(r2/self.metric[i,i]))) + 1`            (from |a_i|)   = model `boxA`
    srcForm = 2,3,4 : `int|round|ceil (sqrt(r2*inv(metric)[i,i])) + 1`        (dual basis)   = model `boxB mode`
  Obligations (hold for either form; an unrecognised formula, srcForm = 0, breaks `src_form_known`):
  * `src_form_known`   the formula is one of the forms the theorems talk about
  * `src_box_verdict`  what is proved about that form: the |a_i| form has a kernel-checked incompleteness
                       witness; the dual-basis forms are complete for every valid crystal.
  The harness additionally checks on every generated crystal that the box the source computes
  equals the model's box of the classified form.
-/
import OnsagerProofs.C21
import Generated.C21Facts

set_option linter.unusedTactic false
set_option linter.unreachableTactic false

namespace Onsager.C21
open Onsager.Geom

/-- the model's box for a classified source formula -/
def srcBox {d : Nat} (form : Nat) (cr : Crystal d) (r2 : Rat) : Box d :=
  if form = 1 then boxA cr.g r2 else boxB (form - 2) cr.h r2

theorem src_form_known : Generated.C21.srcForm ∈ [1, 2, 3, 4] := by decide

/-- every jump shorter than the cutoff lies in the source's box — for all valid crystals whose
    basis coordinates differ by at most 1 per axis -/
def SrcBoxComplete (form : Nat) : Prop :=
  ∀ (d : Nat) (cr : Crystal d), cr.valid = true → (∀ k, cr.dumax.get k ≤ 1) →
    ∀ (chem : Nat) (r2 : Rat), 0 ≤ r2 → ∀ J : Jump d, InRange cr chem J → len2 cr chem J < r2 →
      inBox (srcBox form cr r2) J.n = true

theorem dual_forms_complete (form : Nat) (h2 : 2 ≤ form) : SrcBoxComplete form := by
  intro d cr hv hdu chem r2 hr J hJ hlt
  obtain ⟨hs, hi⟩ := valid_symm_inv cr hv
  have hok := boxB_ok (form - 2) cr.g cr.h hs hi (valid_psd cr hv) r2 hr cr.dumax hdu
  have : srcBox form cr r2 = boxB (form - 2) cr.h r2 := by
    unfold srcBox; rw [if_neg (by omega)]
  rw [this]
  exact box_dual_complete cr hv chem r2 _ hok J hJ hlt

/-- the |a_i| form is not complete: the witness crystal is valid, has a single atom per cell, and
    the jump by (3,3,−3) is shorter than the cutoff 1.01 but outside the box -/
def witnessCr : Crystal 3 :=
  { g := witnessG, h := witnessH,
    ldlM := ofListQM [[1, -97/200, 97/200], [0, 1, 97/103], [0, 0, 1]],
    ldlD := ofListQ [1, 30591/40000, 891/10300],
    basis := [[ofListQ [0, 0, 0]]],
    ops := [{ rot := ofListZM [[1, 0, 0], [0, 1, 0], [0, 0, 1]], trans := ofListQ [0, 0, 0], imap := [[0]] }] }

theorem form1_incomplete : ¬ SrcBoxComplete 1 := by
  intro h
  have := h 3 witnessCr (by decide +kernel) (by decide +kernel) 0 (10201/10000) (by norm_num)
    { i := 0, j := 0, n := witnessN } ⟨by decide +kernel, by decide +kernel⟩ (by decide +kernel)
  revert this
  decide +kernel

/-- **the verdict on the source's formula** -/
theorem src_box_verdict :
    (Generated.C21.srcForm = 1 ∧ ¬ SrcBoxComplete 1) ∨
    (2 ≤ Generated.C21.srcForm ∧ SrcBoxComplete Generated.C21.srcForm) := by
  first
  | exact Or.inl ⟨by decide, form1_incomplete⟩
  | exact Or.inr ⟨by decide, dual_forms_complete _ (by decide)⟩

end Onsager.C21
