/-
  Tagged-atom (tracer) lemmas for finite reversible chains.

  `l'` is the chain of a tagged atom + vacancy (states ι), `l` the chain of the lone vacancy (states κ),
  `π : ι → κ` forgets the tagged atom.  Field `e` of every jump is the vacancy displacement (component β),
  field `d` is, in `l'`, the displacement of the tagged atom (component α) and, in `l`, the vacancy
  displacement (component α).

  * `Bil_cover`  : the mixed (d,e) transport form of a cover is `m c` times that of the base
                   (both fields relabelled)  ⇒ the vacancy–vacancy coefficient of the tagged chain is
                   `m c` × the lone-vacancy one in every component (L1vv = 0).
  * `tracer_cross` : if the vacancy fields cover and, jump class by jump class (classes = (π src, π dst, e)),
                   the weighted tagged-atom displacements sum to `t` times the weighted vacancy displacements
                   of the base, the mixed coefficient of `l'` is `t` × the vacancy coefficient of `l`
                   (Lsv = −L0vv with t = −1).
-/
import OnsagerProofs.Lemmas.Cover

namespace Onsager.Var

variable {ι κ K : Type} [Fintype ι] [DecidableEq ι] [Fintype κ] [DecidableEq κ]
variable [Field K] [LinearOrder K] [IsStrictOrderedRing K]

/-- mixed transport form evaluated with a potential `ζ` for the `e` field -/
def Bil (l : List (Jump ι K)) (ζ : ι → K) : K :=
  (l.map fun a => a.r * a.d * (a.e + ζ a.dst - ζ a.src)).sum / 2

omit [LinearOrder K] [IsStrictOrderedRing K] in
theorem two_sum_B (l : List (Jump ι K)) (hp : (l.map Jump.rev).Perm l) (η : ι → K) :
    2 * ∑ i, η i * B l i = - (l.map fun a => a.r * a.d * (η a.dst - η a.src)).sum := by
  have h1 : ∑ i, η i * B l i = (l.map fun a => a.r * a.d * η a.src).sum := by
    rw [sum_by_src l (fun a => a.r * a.d) η]; rfl
  have h2 : (l.map fun a => a.r * a.d * η a.src).sum = - (l.map fun a => a.r * a.d * η a.dst).sum := by
    rw [← sum_rev l hp (fun a => a.r * a.d * η a.src), ← sum_map_neg']
    apply congrArg
    apply List.map_congr_left
    intro a _
    simp only [Jump.rev]; ring
  have h3 : (l.map fun a => a.r * a.d * (η a.dst - η a.src)).sum
      = (l.map fun a => a.r * a.d * η a.dst).sum - (l.map fun a => a.r * a.d * η a.src).sum := by
    rw [← sum_map_sub']
    apply congrArg
    apply List.map_congr_left
    intro a _; ring
  rw [h3, h1]
  linear_combination h2

/-- `½ Σ r d e − Σ_i ζ_i B_i = Bil l ζ` -/
theorem form_eq_Bil (l : List (Jump ι K)) (hp : (l.map Jump.rev).Perm l) (ζ : ι → K) :
    (l.map fun a => a.r * a.d * a.e).sum / 2 - ∑ i, ζ i * B l i = Bil l ζ := by
  have h := two_sum_B l hp ζ
  have h3 : (l.map fun a => a.r * a.d * (a.e + ζ a.dst - ζ a.src)).sum
      = (l.map fun a => a.r * a.d * a.e).sum + (l.map fun a => a.r * a.d * (ζ a.dst - ζ a.src)).sum := by
    rw [← List.sum_map_add]
    apply congrArg
    apply List.map_congr_left
    intro a _; ring
  unfold Bil
  rw [h3]
  linarith [h]

/-- the mixed form of the model, `½Σ r d e − Σ_i ξ_i B^e_i` with ξ stationary for the `d` field,
    equals `Bil l ζ` for any ζ stationary for the `e` field -/
theorem mixed_eq_Bil (l : List (Jump ι K)) (hp : (l.map Jump.rev).Perm l) (ξ ζ : ι → K)
    (hs : Stationary l ξ) (hz : Stationary (l.map Jump.swap) ζ) :
    (l.map fun a => a.r * a.d * a.e).sum / 2 - ∑ i, ξ i * B (l.map Jump.swap) i = Bil l ζ := by
  rw [← D_symm l hp ξ ζ hs hz]
  exact form_eq_Bil l hp ζ

omit [LinearOrder K] [IsStrictOrderedRing K] in
theorem Bil_cover (π : ι → κ) (m : ℕ) (c : K)
    (hfib : ∀ k : κ, (Finset.univ.filter (fun i => π i = k)).card = m)
    (l : List (Jump κ K)) (l' : List (Jump ι K)) (hc : ∀ i, CoversAt π c l l' i) (ζ : κ → K) :
    Bil l' (fun i => ζ (π i)) = (m : K) * c * Bil l ζ := by
  unfold Bil
  have := sum_cover π m c hfib l l' hc (fun a => a.r * a.d * (a.e + ζ a.dst - ζ a.src))
    (by intro a; simp only [Jump.scale]; ring)
  simp only [Jump.relabel] at this
  rw [this]; ring

omit [Fintype ι] [LinearOrder K] [IsStrictOrderedRing K] [Fintype κ] in
theorem swap_cover (π : ι → κ) (c : K) (l : List (Jump κ K)) (l' : List (Jump ι K)) (i : ι)
    (hc : CoversAt π c l l' i) : CoversAt π c (l.map Jump.swap) (l'.map Jump.swap) i := by
  unfold CoversAt at *
  have e1 : ((l'.map Jump.swap).filter (fun a => a.src = i)).map (Jump.relabel π)
      = (((l'.filter (fun a => a.src = i)).map (Jump.relabel π)).map Jump.swap) := by
    rw [List.filter_map, List.map_map, List.map_map]; rfl
  have e2 : ((l.map Jump.swap).filter (fun a => a.src = π i)).map (Jump.scale c)
      = (((l.filter (fun a => a.src = π i)).map (Jump.scale c)).map Jump.swap) := by
    rw [List.filter_map, List.map_map, List.map_map]; rfl
  rw [e1, e2]
  exact hc.map _

/-- **Vacancy motion is unaffected by tagging an atom** (all tensor components): the mixed form of the
    cover is `m c` × that of the base. -/
theorem mixed_cover (π : ι → κ) (m : ℕ) (c : K)
    (hfib : ∀ k : κ, (Finset.univ.filter (fun i => π i = k)).card = m)
    (l : List (Jump κ K)) (l' : List (Jump ι K)) (hc : ∀ i, CoversAt π c l l' i)
    (hp : (l.map Jump.rev).Perm l) (hp' : (l'.map Jump.rev).Perm l')
    (ξ ζ : κ → K) (ξ' : ι → K) (hs : Stationary l ξ) (hz : Stationary (l.map Jump.swap) ζ)
    (hs' : Stationary l' ξ') :
    (l'.map fun a => a.r * a.d * a.e).sum / 2 - ∑ i, ξ' i * B (l'.map Jump.swap) i
      = (m : K) * c * ((l.map fun a => a.r * a.d * a.e).sum / 2 - ∑ i, ξ i * B (l.map Jump.swap) i) := by
  have hz' : Stationary (l'.map Jump.swap) (fun i => ζ (π i)) :=
    Stationary_cover π c _ _ (fun i => swap_cover π c l l' i (hc i)) ζ hz
  rw [mixed_eq_Bil l' hp' ξ' _ hs' hz', mixed_eq_Bil l hp ξ ζ hs hz]
  exact Bil_cover π m c hfib l l' hc ζ

/-! ### grouping by jump class -/

omit [LinearOrder K] [IsStrictOrderedRing K] in
/-- if the values of every key class sum to zero, every key-weighted sum vanishes -/
theorem sum_key_zero {γ : Type} [DecidableEq γ] (G : γ → K) :
    ∀ (n : ℕ) (L : List (γ × K)), L.length ≤ n →
      (∀ k, ((L.filter (fun p => p.1 = k)).map Prod.snd).sum = 0) →
      (L.map fun p => p.2 * G p.1).sum = 0 := by
  intro n
  induction n with
  | zero =>
    intro L hL _
    have : L = [] := List.eq_nil_of_length_eq_zero (Nat.le_zero.1 hL)
    simp [this]
  | succ n ih =>
    intro L hL h
    cases L with
    | nil => simp
    | cons p t =>
      -- split off the class of the head
      have hperm := (List.filter_append_perm (fun q : γ × K => decide (q.1 = p.1)) (p :: t))
      rw [← (hperm.map fun q => q.2 * G q.1).sum_eq, List.map_append, List.sum_append]
      have hA : (((p :: t).filter (fun q => decide (q.1 = p.1))).map fun q => q.2 * G q.1).sum = 0 := by
        have e : (((p :: t).filter (fun q => decide (q.1 = p.1))).map fun q => q.2 * G q.1)
            = (((p :: t).filter (fun q => decide (q.1 = p.1))).map Prod.snd).map (· * G p.1) := by
          rw [List.map_map]
          apply List.map_congr_left
          intro q hq
          have := (List.mem_filter.1 hq).2
          simp only [decide_eq_true_eq] at this
          simp [Function.comp, this]
        rw [e, List.sum_map_mul_right]
        have := h p.1
        simp only [List.map_id'] at this ⊢
        rw [this, zero_mul]
      rw [hA, zero_add]
      apply ih
      · have hlt : ((p :: t).filter (fun q => !decide (q.1 = p.1))).length ≤ t.length := by
          rw [List.filter_cons_of_neg (by simp)]
          exact List.length_filter_le _ _
        simp only [List.length_cons] at hL
        omega
      · intro k
        rw [List.filter_filter]
        by_cases hk : k = p.1
        · subst hk
          have : ((p :: t).filter fun a => (decide (a.1 = p.1) && !decide (a.1 = p.1))) = [] := by
            apply List.filter_eq_nil_iff.2
            intro a _
            simp
          rw [this]; simp
        · have : ((p :: t).filter fun a => (decide (a.1 = k) && !decide (a.1 = p.1)))
              = (p :: t).filter (fun q => q.1 = k) := by
            apply List.filter_congr
            intro a _
            by_cases ha : a.1 = k
            · have : a.1 ≠ p.1 := fun h' => hk (ha ▸ h')
              simp [ha, hk]
            · simp [ha]
          rw [this]
          exact h k

/-- the class of a jump for the tracer argument: (projected source, projected destination, `e`) -/
def jkey (a : Jump κ K) : κ × κ × K := (a.src, a.dst, a.e)

/-- class sums: Σ over the jumps of class `k` of `r·d` -/
def classSum [DecidableEq K] (l : List (Jump κ K)) (k : κ × κ × K) : K :=
  ((l.filter (fun a => jkey a = k)).map fun a => a.r * a.d).sum

omit [Fintype ι] [DecidableEq ι] [Fintype κ] [LinearOrder K] [IsStrictOrderedRing K] in
/-- If class by class the weighted `d` of `l'` (relabelled) is `t` times that of `l`, then for every
    potential ζ on the base, `Bil l' (ζ∘π) = t · Bil l ζ`. -/
theorem Bil_classes [DecidableEq K] (π : ι → κ) (t : K) (l : List (Jump κ K)) (l' : List (Jump ι K))
    (hk : ∀ k, classSum (l'.map (Jump.relabel π)) k = t * classSum l k) (ζ : κ → K) :
    Bil l' (fun i => ζ (π i)) = t * Bil l ζ := by
  set G : κ × κ × K → K := fun k => k.2.2 + ζ k.2.1 - ζ k.1 with hG
  set L : List ((κ × κ × K) × K) :=
    (l'.map fun a => (jkey (Jump.relabel π a), a.r * a.d)) ++ (l.map fun a => (jkey a, -(t * (a.r * a.d)))) with hL
  have hz := sum_key_zero G L.length L le_rfl (by
    intro k
    have h1 := hk k
    unfold classSum at h1
    rw [hL, List.filter_append, List.map_append, List.sum_append, List.filter_map, List.filter_map,
      List.map_map, List.map_map]
    have e1 : ((l'.filter ((fun p : (κ × κ × K) × K => decide (p.1 = k)) ∘ fun a => (jkey (Jump.relabel π a), a.r * a.d))).map
        (Prod.snd ∘ fun a => (jkey (Jump.relabel π a), a.r * a.d))).sum
        = (((l'.map (Jump.relabel π)).filter (fun a => jkey a = k)).map fun a => a.r * a.d).sum := by
      rw [List.filter_map, List.map_map]; rfl
    have e2 : ((l.filter ((fun p : (κ × κ × K) × K => decide (p.1 = k)) ∘ fun a => (jkey a, -(t * (a.r * a.d))))).map
        (Prod.snd ∘ fun a => (jkey a, -(t * (a.r * a.d))))).sum
        = -(t * ((l.filter (fun a => jkey a = k)).map fun a => a.r * a.d).sum) := by
      rw [← List.sum_map_mul_left, ← sum_map_neg']
      rfl
    rw [e1, e2, h1]; ring)
  rw [hL, List.map_append, List.sum_append, List.map_map, List.map_map] at hz
  unfold Bil
  have e3 : (l'.map ((fun p : (κ × κ × K) × K => p.2 * G p.1) ∘ fun a => (jkey (Jump.relabel π a), a.r * a.d))).sum
      = (l'.map fun a => a.r * a.d * (a.e + ζ (π a.dst) - ζ (π a.src))).sum := rfl
  have e4 : (l.map ((fun p : (κ × κ × K) × K => p.2 * G p.1) ∘ fun a => (jkey a, -(t * (a.r * a.d))))).sum
      = -(t * (l.map fun a => a.r * a.d * (a.e + ζ a.dst - ζ a.src)).sum) := by
    rw [← List.sum_map_mul_left, ← sum_map_neg']
    apply congrArg
    apply List.map_congr_left
    intro a _
    simp only [Function.comp, hG, jkey]; ring
  rw [e3, e4] at hz
  linear_combination (1 / 2 : K) * hz

/-- keep only the `e` field (as both fields) -/
def Jump.diagE (a : Jump ι K) : Jump ι K := ⟨a.src, a.dst, a.e, a.r, a.e⟩

omit [Fintype ι] [LinearOrder K] [IsStrictOrderedRing K] in
theorem Stationary_swap_iff_diagE (l : List (Jump ι K)) (ζ : ι → K) :
    Stationary (l.map Jump.swap) ζ ↔ Stationary (l.map Jump.diagE) ζ := by
  unfold Stationary
  have : ∀ i, (((l.map Jump.swap).filter (fun a => a.src = i)).map (flux ζ)).sum
      = (((l.map Jump.diagE).filter (fun a => a.src = i)).map (flux ζ)).sum := by
    intro i
    rw [List.filter_map, List.filter_map, List.map_map, List.map_map]
    rfl
  constructor
  · intro h i; rw [← this i]; exact h i
  · intro h i; rw [this i]; exact h i

/-- **Tracer cross coefficient.** `l'`: tagged-atom chain with d = atom displacement, e = vacancy displacement;
    `l`: lone-vacancy chain with d, e = vacancy displacement components.  If the `e` fields cover
    (`CoversAt` for the `diagE` lists) and the class sums satisfy `Σ' r d = t Σ r d`, the mixed coefficient of `l'`
    is `t` × the (α,β) vacancy coefficient of `l`. -/
theorem tracer_cross [DecidableEq K] (π : ι → κ) (c t : K) (l : List (Jump κ K)) (l' : List (Jump ι K))
    (hc : ∀ i, CoversAt π c (l.map Jump.diagE) (l'.map Jump.diagE) i)
    (hk : ∀ k, classSum (l'.map (Jump.relabel π)) k = t * classSum l k)
    (hp : (l.map Jump.rev).Perm l) (hp' : (l'.map Jump.rev).Perm l')
    (ξ ζ : κ → K) (ξ' : ι → K) (hs : Stationary l ξ) (hz : Stationary (l.map Jump.swap) ζ)
    (hs' : Stationary l' ξ') :
    (l'.map fun a => a.r * a.d * a.e).sum / 2 - ∑ i, ξ' i * B (l'.map Jump.swap) i
      = t * ((l.map fun a => a.r * a.d * a.e).sum / 2 - ∑ i, ξ i * B (l.map Jump.swap) i) := by
  have hz' : Stationary (l'.map Jump.swap) (fun i => ζ (π i)) :=
    (Stationary_swap_iff_diagE l' _).2
      (Stationary_cover π c _ _ hc ζ ((Stationary_swap_iff_diagE l ζ).1 hz))
  rw [mixed_eq_Bil l' hp' ξ' _ hs' hz', mixed_eq_Bil l hp ξ ζ hs hz]
  exact Bil_classes π t l l' hk ζ

end Onsager.Var
