/-
  Covering lemma for the variational functional (supercell / conventional-cell descriptions, C09).

  `l` is a network on site set κ (primitive description), `l'` a network on ι (a description with
  m times as many sites per cell), `π : ι → κ` the covering map.  Hypotheses: every fibre of π has
  exactly m elements, and locally the jumps leaving `i` are, after relabelling, the jumps leaving
  `π i` with weights divided by m (site probabilities are normalised per cell).  Then
    * a stationary point of `l` pulls back to a stationary point of `l'`,
    * `Q l' (η ∘ π) = Q l η` for every η,
    * hence the minima coincide: the two descriptions give the same transport coefficient.
-/
import OnsagerProofs.Lemmas.Variational
import Mathlib.Data.Fintype.Card

namespace Onsager.Var

variable {ι κ K : Type} [Fintype ι] [DecidableEq ι] [Fintype κ] [DecidableEq κ]
variable [Field K] [LinearOrder K] [IsStrictOrderedRing K]

/-- local covering condition at site `i` -/
def CoversAt (π : ι → κ) (c : K) (l : List (Jump κ K)) (l' : List (Jump ι K)) (i : ι) : Prop :=
  ((l'.filter (fun a => a.src = i)).map (Jump.relabel π)).Perm
    ((l.filter (fun a => a.src = π i)).map (Jump.scale c))

omit [Fintype ι] [LinearOrder K] [IsStrictOrderedRing K] [Fintype κ] [DecidableEq κ] in
theorem flux_relabel (π : ι → κ) (ξ : κ → K) (a : Jump ι K) :
    flux (fun i => ξ (π i)) a = flux ξ (Jump.relabel π a) := rfl

omit [LinearOrder K] [IsStrictOrderedRing K] in
/-- total = sum over source sites -/
theorem sum_partition_src (l : List (Jump ι K)) (f : Jump ι K → K) :
    (l.map f).sum = ∑ i, ((l.filter (fun a => a.src = i)).map f).sum := by
  have := sum_by_src l f (fun _ => (1 : K))
  simp only [mul_one, one_mul] at this
  exact this

omit [Fintype ι] [LinearOrder K] [IsStrictOrderedRing K] [Fintype κ] in
theorem Stationary_cover (π : ι → κ) (c : K) (l : List (Jump κ K)) (l' : List (Jump ι K))
    (hc : ∀ i, CoversAt π c l l' i) (ξ : κ → K) (hs : Stationary l ξ) :
    Stationary l' (fun i => ξ (π i)) := by
  intro i
  have h1 : ((l'.filter (fun a => a.src = i)).map (flux (fun j => ξ (π j)))).sum
      = (((l'.filter (fun a => a.src = i)).map (Jump.relabel π)).map (flux ξ)).sum := by
    rw [List.map_map]; rfl
  rw [h1, ((hc i).map (flux ξ)).sum_eq, List.map_map]
  have h2 : ((l.filter (fun a => a.src = π i)).map (flux ξ ∘ Jump.scale c)).sum
      = c * ((l.filter (fun a => a.src = π i)).map (flux ξ)).sum := by
    rw [← List.sum_map_mul_left]
    apply congrArg
    apply List.map_congr_left
    intro a _
    simp only [Function.comp, Jump.scale, flux]
    ring
  rw [h2, hs (π i), mul_zero]

omit [LinearOrder K] [IsStrictOrderedRing K] in
/-- regrouping a sum over ι by the fibres of π (all of size m) -/
theorem sum_fibres (π : ι → κ) (m : ℕ)
    (hfib : ∀ k : κ, (Finset.univ.filter (fun i => π i = k)).card = m) (F : κ → K) :
    ∑ i, F (π i) = ∑ k, (m : K) * F k := by
  rw [← Finset.sum_fiberwise (s := Finset.univ) (g := π) (f := fun i => F (π i))]
  apply Finset.sum_congr rfl
  intro k _
  have : ∀ i ∈ Finset.univ.filter (fun i => π i = k), F (π i) = F k := by
    intro i hi
    rw [(Finset.mem_filter.1 hi).2]
  rw [Finset.sum_congr rfl this, Finset.sum_const, hfib k, nsmul_eq_mul]

omit [LinearOrder K] [IsStrictOrderedRing K] in
/-- any per-jump quantity `g` that only depends on the relabelled jump sums over the cover to
    `m c` times its sum over the base (g must be linear in the weight: `g (scale c a) = c g a`) -/
theorem sum_cover (π : ι → κ) (m : ℕ) (c : K)
    (hfib : ∀ k : κ, (Finset.univ.filter (fun i => π i = k)).card = m)
    (l : List (Jump κ K)) (l' : List (Jump ι K)) (hc : ∀ i, CoversAt π c l l' i)
    (g : Jump κ K → K) (hg : ∀ a, g (Jump.scale c a) = c * g a) :
    (l'.map fun a => g (Jump.relabel π a)).sum = (m : K) * c * (l.map g).sum := by
  have hl' : (l'.map fun a => g (Jump.relabel π a)).sum
      = ∑ i, c * ((l.filter (fun a => a.src = π i)).map g).sum := by
    rw [sum_partition_src]
    apply Finset.sum_congr rfl
    intro i _
    have e1 : ((l'.filter (fun a => a.src = i)).map fun a => g (Jump.relabel π a))
        = (((l'.filter (fun a => a.src = i)).map (Jump.relabel π)).map g) := by
      rw [List.map_map]; rfl
    rw [e1, ((hc i).map g).sum_eq, List.map_map, ← List.sum_map_mul_left]
    apply congrArg
    apply List.map_congr_left
    intro a _
    exact hg a
  rw [hl', sum_partition_src l g,
    sum_fibres π m hfib (fun k => c * ((l.filter (fun a => a.src = k)).map g).sum), Finset.mul_sum]
  apply Finset.sum_congr rfl
  intro k _
  ring

omit [LinearOrder K] [IsStrictOrderedRing K] in
theorem Q_cover (π : ι → κ) (m : ℕ) (c : K)
    (hfib : ∀ k : κ, (Finset.univ.filter (fun i => π i = k)).card = m)
    (l : List (Jump κ K)) (l' : List (Jump ι K)) (hc : ∀ i, CoversAt π c l l' i) (η : κ → K) :
    Q l' (fun i => η (π i)) = (m : K) * c * Q l η := by
  unfold Q
  have := sum_cover π m c hfib l l' hc (fun a => a.r * (a.d + η a.dst - η a.src) ^ 2)
    (by intro a; simp only [Jump.scale]; ring)
  simp only [Jump.relabel] at this
  rw [this]; ring

/-- **Covering theorem.** The minimum of `Q` over the m-fold cover `l'` (weights scaled by `c`) is
    `m c` times the minimum over the base `l`. -/
theorem Qmin_cover (π : ι → κ) (m : ℕ) (c : K)
    (hfib : ∀ k : κ, (Finset.univ.filter (fun i => π i = k)).card = m)
    (l : List (Jump κ K)) (l' : List (Jump ι K)) (hc : ∀ i, CoversAt π c l l' i)
    (hp' : (l'.map Jump.rev).Perm l') (hr' : ∀ a ∈ l', 0 ≤ a.r)
    (ξ : κ → K) (ξ' : ι → K) (hs : Stationary l ξ) (hs' : Stationary l' ξ') :
    Q l' ξ' = (m : K) * c * Q l ξ := by
  rw [← Q_cover π m c hfib l l' hc ξ]
  exact (Q_stationary_unique l' hp' hr' _ ξ' (Stationary_cover π c l l' hc ξ hs) hs').symm

end Onsager.Var
