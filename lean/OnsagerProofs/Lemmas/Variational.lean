/-
  Variational (Green–Kubo / Thomson–Dirichlet) form of the long-time diffusivity of a finite
  reversible jump network, over any ordered field.

  A network is a list of directed jumps `a = (src, dst, d, r)`:
    `d` = displacement projected on a fixed direction, `r = ρ_src · rate(src→dst)`.
  Detailed balance + "every jump is listed with its reverse" is the hypothesis
  `(l.map Jump.rev).Perm l` (reverse has `d ↦ -d`, same `r`).

    Q l ξ = ½ Σ_a r_a (d_a + ξ_dst − ξ_src)²            (exact diffusivity = min over ξ)

  Results used by C02–C06, C09:
    cross_zero       for stationary ξ the linear term of any perturbation vanishes
    Q_split          Q (ξ+δ) = Q ξ + ½ Σ r (δ_dst − δ_src)²
    Q_min            stationary ξ minimises Q when r ≥ 0
    Q_stationary_eq  at a stationary point Q ξ = D0 − Σ_i ξ_i B_i   (the code's D0 + correction)
    Q_nonneg, Q_mono (Rayleigh), Q_scale (homogeneity), Q_gauge (site displacements)
-/
import Mathlib.Algebra.BigOperators.Group.Finset.Basic
import Mathlib.Algebra.BigOperators.Ring.Finset
import Mathlib.Algebra.BigOperators.Group.List.Basic
import Mathlib.Algebra.Order.BigOperators.Group.List
import Mathlib.Algebra.Order.Field.Basic
import Mathlib.Data.Fintype.BigOperators
import Mathlib.Tactic.Ring
import Mathlib.Tactic.Linarith
import Mathlib.Tactic.Positivity
import Mathlib.Tactic.FieldSimp
import Mathlib.Tactic.LinearCombination
import Mathlib.Logic.Equiv.Defs

namespace Onsager.Var

variable {ι K : Type} [Fintype ι] [DecidableEq ι]
variable [Field K] [LinearOrder K] [IsStrictOrderedRing K]

structure Jump (ι K : Type) where
  src : ι
  dst : ι
  d : K
  r : K
  /-- displacement projected on a second direction (only used for the off-diagonal tensor
      components, `swap`/`D_symm`) -/
  e : K
deriving DecidableEq

def Jump.rev (a : Jump ι K) : Jump ι K := ⟨a.dst, a.src, -a.d, a.r, -a.e⟩

/-- exchange the two projected displacements -/
def Jump.swap (a : Jump ι K) : Jump ι K := ⟨a.src, a.dst, a.e, a.r, a.d⟩

/-- probability flux-like term `r (d + ξ_dst − ξ_src)` -/
def flux (ξ : ι → K) (a : Jump ι K) : K := a.r * (a.d + ξ a.dst - ξ a.src)

def Q (l : List (Jump ι K)) (ξ : ι → K) : K :=
  (l.map fun a => a.r * (a.d + ξ a.dst - ξ a.src) ^ 2).sum / 2

/-- bare term `½ Σ r d²` -/
def D0 (l : List (Jump ι K)) : K := (l.map fun a => a.r * a.d ^ 2).sum / 2

/-- site bias `B_i = Σ_{a : src a = i} r_a d_a` -/
def B (l : List (Jump ι K)) (i : ι) : K := ((l.filter (fun a => a.src = i)).map fun a => a.r * a.d).sum

/-- `ξ` solves the (ρ-weighted) rate equation `W ξ = −B`, written site by site. -/
def Stationary (l : List (Jump ι K)) (ξ : ι → K) : Prop :=
  ∀ i, ((l.filter (fun a => a.src = i)).map (flux ξ)).sum = 0

/-- Dirichlet form of a perturbation. -/
def E (l : List (Jump ι K)) (δ : ι → K) : K :=
  (l.map fun a => a.r * (δ a.dst - δ a.src) ^ 2).sum / 2

omit [Fintype ι] [DecidableEq ι] [LinearOrder K] [IsStrictOrderedRing K] in
theorem sum_map_neg' {α : Type} (l : List α) (f : α → K) :
    (l.map fun a => - f a).sum = - (l.map f).sum := by
  induction l with
  | nil => simp
  | cons a t ih => simp [ih]; ring

omit [Fintype ι] [DecidableEq ι] [LinearOrder K] [IsStrictOrderedRing K] in
theorem sum_map_sub' {α : Type} (l : List α) (f g : α → K) :
    (l.map fun a => f a - g a).sum = (l.map f).sum - (l.map g).sum := by
  induction l with
  | nil => simp
  | cons a t ih => simp [ih]; ring

omit [Fintype ι] [DecidableEq ι] [LinearOrder K] [IsStrictOrderedRing K] in
theorem sum_filter_eq (l : List (Jump ι K)) (p : Jump ι K → Prop) [DecidablePred p] (f : Jump ι K → K) :
    ((l.filter p).map f).sum = (l.map fun a => if p a then f a else 0).sum := by
  induction l with
  | nil => simp
  | cons a t ih =>
    by_cases h : p a <;> simp [h, ih]

omit [DecidableEq ι] [LinearOrder K] [IsStrictOrderedRing K] in
theorem sum_map_finsum (l : List (Jump ι K)) (F : Jump ι K → ι → K) :
    (l.map fun a => ∑ i, F a i).sum = ∑ i, (l.map fun a => F a i).sum := by
  induction l with
  | nil => simp
  | cons a t ih => simp [ih, Finset.sum_add_distrib]

omit [LinearOrder K] [IsStrictOrderedRing K] in
/-- regrouping a sum over jumps by source site -/
theorem sum_by_src (l : List (Jump ι K)) (f : Jump ι K → K) (δ : ι → K) :
    (l.map fun a => f a * δ a.src).sum
      = ∑ i, δ i * ((l.filter (fun a => a.src = i)).map f).sum := by
  have h1 : ∀ a : Jump ι K, f a * δ a.src = ∑ i, (if a.src = i then f a * δ i else 0) := by
    intro a; simp
  simp only [h1]
  rw [sum_map_finsum]
  refine Finset.sum_congr rfl ?_
  intro i _
  rw [sum_filter_eq, ← List.sum_map_mul_left]
  congr 1
  apply List.map_congr_left
  intro a _
  by_cases h : a.src = i <;> simp [h, mul_comm]

omit [Fintype ι] [DecidableEq ι] [LinearOrder K] [IsStrictOrderedRing K] in
theorem sum_rev (l : List (Jump ι K)) (hp : (l.map Jump.rev).Perm l) (g : Jump ι K → K) :
    (l.map fun a => g a.rev).sum = (l.map g).sum := by
  have : (l.map fun a => g a.rev) = (l.map Jump.rev).map g := by simp [List.map_map, Function.comp_def]
  rw [this]
  exact (hp.map g).sum_eq

omit [LinearOrder K] [IsStrictOrderedRing K] in
/-- CROSS: at a stationary point the linear response to any perturbation vanishes. -/
theorem cross_zero (l : List (Jump ι K)) (hp : (l.map Jump.rev).Perm l) (ξ δ : ι → K)
    (hs : Stationary l ξ) :
    (l.map fun a => flux ξ a * (δ a.dst - δ a.src)).sum = 0 := by
  have hsrc : (l.map fun a => flux ξ a * δ a.src).sum = 0 := by
    rw [sum_by_src]
    apply Finset.sum_eq_zero
    intro i _
    rw [hs i, mul_zero]
  have hdst : (l.map fun a => flux ξ a * δ a.dst).sum = - (l.map fun a => flux ξ a * δ a.src).sum := by
    rw [← sum_rev l hp (fun a => flux ξ a * δ a.dst), ← sum_map_neg']
    congr 1
    apply List.map_congr_left
    intro a _
    simp only [flux, Jump.rev]
    ring
  have : (l.map fun a => flux ξ a * (δ a.dst - δ a.src)).sum
      = (l.map fun a => flux ξ a * δ a.dst).sum - (l.map fun a => flux ξ a * δ a.src).sum := by
    rw [← sum_map_sub']
    congr 1
    apply List.map_congr_left
    intro a _
    ring
  rw [this, hdst, hsrc]; simp

omit [LinearOrder K] [IsStrictOrderedRing K] in
/-- VAR-split. -/
theorem Q_split (l : List (Jump ι K)) (hp : (l.map Jump.rev).Perm l) (ξ δ : ι → K)
    (hs : Stationary l ξ) : Q l (fun i => ξ i + δ i) = Q l ξ + E l δ := by
  have hc := cross_zero l hp ξ δ hs
  unfold Q E
  have : (l.map fun a => a.r * (a.d + (ξ a.dst + δ a.dst) - (ξ a.src + δ a.src)) ^ 2).sum
      = (l.map fun a => a.r * (a.d + ξ a.dst - ξ a.src) ^ 2).sum
        + (l.map fun a => a.r * (δ a.dst - δ a.src) ^ 2).sum
        + 2 * (l.map fun a => flux ξ a * (δ a.dst - δ a.src)).sum := by
    rw [← List.sum_map_mul_left, ← List.sum_map_add, ← List.sum_map_add]
    congr 1
    apply List.map_congr_left
    intro a _
    simp only [flux]
    ring
  rw [this, hc]
  ring

omit [Fintype ι] [DecidableEq ι] in
theorem E_nonneg (l : List (Jump ι K)) (hr : ∀ a ∈ l, 0 ≤ a.r) (δ : ι → K) : 0 ≤ E l δ := by
  unfold E
  apply div_nonneg _ (by norm_num)
  apply List.sum_nonneg
  intro x hx
  obtain ⟨a, ha, rfl⟩ := List.mem_map.1 hx
  exact mul_nonneg (hr a ha) (sq_nonneg _)

omit [Fintype ι] [DecidableEq ι] in
/-- The quadratic form is non-negative (positive semidefiniteness of the diffusivity). -/
theorem Q_nonneg (l : List (Jump ι K)) (hr : ∀ a ∈ l, 0 ≤ a.r) (ξ : ι → K) : 0 ≤ Q l ξ := by
  unfold Q
  apply div_nonneg _ (by norm_num)
  apply List.sum_nonneg
  intro x hx
  obtain ⟨a, ha, rfl⟩ := List.mem_map.1 hx
  exact mul_nonneg (hr a ha) (sq_nonneg _)

/-- VAR-min: a stationary point is a global minimiser. -/
theorem Q_min (l : List (Jump ι K)) (hp : (l.map Jump.rev).Perm l) (hr : ∀ a ∈ l, 0 ≤ a.r)
    (ξ η : ι → K) (hs : Stationary l ξ) : Q l ξ ≤ Q l η := by
  have h := Q_split l hp ξ (fun i => η i - ξ i) hs
  have h2 : (fun i => ξ i + (η i - ξ i)) = η := by funext i; ring
  rw [h2] at h
  rw [h]
  linarith [E_nonneg l hr (fun i => η i - ξ i)]

/-- Value at a stationary point: `Q ξ = D0 − Σ_i ξ_i B_i` — the code's `D0 + correction`. -/
theorem Q_stationary_eq (l : List (Jump ι K)) (hp : (l.map Jump.rev).Perm l) (ξ : ι → K)
    (hs : Stationary l ξ) : Q l ξ = D0 l - ∑ i, ξ i * B l i := by
  -- Q ξ = ½ Σ flux·(d + Δξ) = ½ Σ flux·d  (cross_zero with δ = ξ);  ½ Σ flux·d = D0 + ½ Σ r d Δξ
  have hc := cross_zero l hp ξ ξ hs
  have hB : ∑ i, ξ i * B l i = (l.map fun a => (a.r * a.d) * ξ a.src).sum := by
    rw [sum_by_src]; rfl
  have hdst : (l.map fun a => (a.r * a.d) * ξ a.dst).sum = - (l.map fun a => (a.r * a.d) * ξ a.src).sum := by
    rw [← sum_rev l hp (fun a => (a.r * a.d) * ξ a.dst), ← sum_map_neg']
    congr 1
    apply List.map_congr_left
    intro a _
    simp only [Jump.rev]
    ring
  unfold Q D0
  rw [hB]
  have e1 : (l.map fun a => a.r * (a.d + ξ a.dst - ξ a.src) ^ 2).sum
      = (l.map fun a => a.r * a.d ^ 2).sum
        + ((l.map fun a => (a.r * a.d) * ξ a.dst).sum - (l.map fun a => (a.r * a.d) * ξ a.src).sum)
        + (l.map fun a => flux ξ a * (ξ a.dst - ξ a.src)).sum := by
    rw [← sum_map_sub', ← List.sum_map_add, ← List.sum_map_add]
    congr 1
    apply List.map_congr_left
    intro a _
    simp only [flux]
    ring
  rw [e1, hc, hdst]
  have h2 : (2 : K) ≠ 0 := two_ne_zero
  field_simp
  ring

/-- The exact diffusivity as a number: the value of `Q` at any stationary point (well defined). -/
theorem Q_stationary_unique (l : List (Jump ι K)) (hp : (l.map Jump.rev).Perm l) (hr : ∀ a ∈ l, 0 ≤ a.r)
    (ξ ξ' : ι → K) (hs : Stationary l ξ) (hs' : Stationary l ξ') : Q l ξ = Q l ξ' :=
  le_antisymm (Q_min l hp hr ξ ξ' hs) (Q_min l hp hr ξ' ξ hs')


/-! ### Rayleigh monotonicity, homogeneity, gauge (site displacement) invariance -/

/-- same skeleton and displacements, rates not smaller -/
def RateLE (a a' : Jump ι K) : Prop := a.src = a'.src ∧ a.dst = a'.dst ∧ a.d = a'.d ∧ a.r ≤ a'.r

omit [Fintype ι] [DecidableEq ι] in
theorem Q_le_of_rateLE (l l' : List (Jump ι K)) (h : List.Forall₂ RateLE l l') (η : ι → K) :
    Q l η ≤ Q l' η := by
  unfold Q
  apply div_le_div_of_nonneg_right _ (by norm_num : (0 : K) ≤ 2)
  induction h with
  | nil => simp
  | cons hab _ ih =>
    obtain ⟨h1, h2, h3, h4⟩ := hab
    simp only [List.map_cons, List.sum_cons]
    rw [h1, h2, h3]
    exact add_le_add (mul_le_mul_of_nonneg_right h4 (sq_nonneg _)) ih

/-- VAR-mono (Rayleigh): raising any rates never lowers the minimum of `Q`. -/
theorem Q_mono (l l' : List (Jump ι K)) (hp : (l.map Jump.rev).Perm l)
    (hr : ∀ a ∈ l, 0 ≤ a.r) (h : List.Forall₂ RateLE l l')
    (ξ ξ' : ι → K) (hs : Stationary l ξ) : Q l ξ ≤ Q l' ξ' :=
  le_trans (Q_min l hp hr ξ ξ' hs) (Q_le_of_rateLE l l' h ξ')

def Jump.scale (c : K) (a : Jump ι K) : Jump ι K := { a with r := c * a.r }

omit [Fintype ι] [DecidableEq ι] [LinearOrder K] [IsStrictOrderedRing K] in
/-- VAR-scale: multiplying every rate by `c` multiplies `Q` by `c` … -/
theorem Q_scale (l : List (Jump ι K)) (c : K) (η : ι → K) :
    Q (l.map (Jump.scale c)) η = c * Q l η := by
  unfold Q
  rw [List.map_map, mul_div_assoc', ← List.sum_map_mul_left]
  congr 2
  apply List.map_congr_left
  intro a _
  simp only [Function.comp, Jump.scale]
  ring

omit [Fintype ι] [LinearOrder K] [IsStrictOrderedRing K] in
/-- … and keeps stationary points stationary, so every transport coefficient scales by `c`. -/
theorem Stationary_scale (l : List (Jump ι K)) (c : K) (ξ : ι → K) (hs : Stationary l ξ) :
    Stationary (l.map (Jump.scale c)) ξ := by
  intro i
  have := hs i
  rw [sum_filter_eq] at this
  rw [sum_filter_eq, List.map_map]
  have e : (l.map ((fun a => if a.src = i then flux ξ a else 0) ∘ Jump.scale c))
      = l.map (fun a => c * (if a.src = i then flux ξ a else 0)) := by
    apply List.map_congr_left
    intro a _
    simp only [Function.comp, Jump.scale, flux]
    by_cases h : a.src = i
    · simp only [h, if_true]; ring
    · simp only [h, if_false, mul_zero]
  rw [e, List.sum_map_mul_left, this, mul_zero]

/-- displace site `i` by `s i` (projected): every jump vector changes by `s dst − s src` -/
def Jump.shift (s t : ι → K) (a : Jump ι K) : Jump ι K :=
  { a with d := a.d + s a.dst - s a.src, e := a.e + t a.dst - t a.src }

omit [Fintype ι] [DecidableEq ι] [LinearOrder K] [IsStrictOrderedRing K] in
/-- VAR-gauge. -/
theorem Q_gauge (l : List (Jump ι K)) (s t η : ι → K) :
    Q (l.map (Jump.shift s t)) (fun i => η i - s i) = Q l η := by
  unfold Q
  rw [List.map_map]
  congr 2
  apply List.map_congr_left
  intro a _
  simp only [Function.comp, Jump.shift]
  ring

omit [Fintype ι] [LinearOrder K] [IsStrictOrderedRing K] in
theorem Stationary_gauge (l : List (Jump ι K)) (s t ξ : ι → K) (hs : Stationary l ξ) :
    Stationary (l.map (Jump.shift s t)) (fun i => ξ i - s i) := by
  intro i
  have := hs i
  rw [sum_filter_eq] at this
  rw [sum_filter_eq, List.map_map]
  have e : (l.map ((fun a => if a.src = i then flux (fun i => ξ i - s i) a else 0) ∘ Jump.shift s t))
      = l.map (fun a => if a.src = i then flux ξ a else 0) := by
    apply List.map_congr_left
    intro a _
    simp only [Function.comp, Jump.shift, flux]
    by_cases h : a.src = i
    · simp only [h, if_true]; ring
    · simp only [h, if_false]
  rw [e, this]

omit [Fintype ι] [DecidableEq ι] [LinearOrder K] [IsStrictOrderedRing K] in
theorem rev_perm_shift (l : List (Jump ι K)) (s t : ι → K) (hp : (l.map Jump.rev).Perm l) :
    ((l.map (Jump.shift s t)).map Jump.rev).Perm (l.map (Jump.shift s t)) := by
  have : (l.map (Jump.shift s t)).map Jump.rev = (l.map Jump.rev).map (Jump.shift s t) := by
    rw [List.map_map, List.map_map]
    apply List.map_congr_left
    intro a _
    simp only [Function.comp, Jump.shift, Jump.rev]
    congr 1 <;> ring
  rw [this]
  exact hp.map _

/-- The minimum of `Q` (the transport coefficient) is unchanged by displacing sites inside the
    cell without changing connectivity or rates. -/
theorem Qmin_gauge (l : List (Jump ι K)) (hp : (l.map Jump.rev).Perm l) (hr : ∀ a ∈ l, 0 ≤ a.r)
    (s t ξ ξ' : ι → K) (hs : Stationary l ξ) (hs' : Stationary (l.map (Jump.shift s t)) ξ') :
    Q (l.map (Jump.shift s t)) ξ' = Q l ξ := by
  have h1 := Q_gauge l s t ξ
  have h2 := Stationary_gauge l s t ξ hs
  have hr' : ∀ a ∈ l.map (Jump.shift s t), 0 ≤ a.r := by
    intro a ha
    obtain ⟨b, hb, rfl⟩ := List.mem_map.1 ha
    exact hr b hb
  rw [← h1]
  exact Q_stationary_unique _ (rev_perm_shift l s t hp) hr' _ _ hs' h2

/-! ### Off-diagonal components: the correction tensor is symmetric -/

omit [Fintype ι] [DecidableEq ι] [LinearOrder K] [IsStrictOrderedRing K] in
theorem rev_perm_swap (l : List (Jump ι K)) (hp : (l.map Jump.rev).Perm l) :
    ((l.map Jump.swap).map Jump.rev).Perm (l.map Jump.swap) := by
  have : (l.map Jump.swap).map Jump.rev = (l.map Jump.rev).map Jump.swap := by
    rw [List.map_map, List.map_map]; rfl
  rw [this]
  exact hp.map _

/-- With `ξ` solving the rate equation for direction `u` (displacements `d`) and `ζ` for
    direction `v` (displacements `e`): `Σ_i ζ_i B^u_i = Σ_i ξ_i B^v_i`, i.e. the correlation
    correction `Σ_i b_i ⊗ γ_i` is a symmetric tensor. -/
theorem D_symm (l : List (Jump ι K)) (hp : (l.map Jump.rev).Perm l) (ξ ζ : ι → K)
    (hs : Stationary l ξ) (hz : Stationary (l.map Jump.swap) ζ) :
    ∑ i, ζ i * B l i = ∑ i, ξ i * B (l.map Jump.swap) i := by
  have c1 := cross_zero l hp ξ ζ hs
  have c2 := cross_zero (l.map Jump.swap) (rev_perm_swap l hp) ζ ξ hz
  rw [List.map_map] at c2
  -- Σ_i ζ_i B_i = −½ Σ_a r d Δζ, and likewise for the swapped list
  have key : ∀ (m : List (Jump ι K)) (hm : (m.map Jump.rev).Perm m) (η : ι → K),
      2 * ∑ i, η i * B m i = - (m.map fun a => a.r * a.d * (η a.dst - η a.src)).sum := by
    intro m hm η
    have hB : ∑ i, η i * B m i = (m.map fun a => (a.r * a.d) * η a.src).sum := by
      rw [sum_by_src]; rfl
    have hdst : (m.map fun a => (a.r * a.d) * η a.dst).sum
        = - (m.map fun a => (a.r * a.d) * η a.src).sum := by
      rw [← sum_rev m hm (fun a => (a.r * a.d) * η a.dst), ← sum_map_neg']
      congr 1
      apply List.map_congr_left
      intro a _
      simp only [Jump.rev]
      ring
    have : (m.map fun a => a.r * a.d * (η a.dst - η a.src)).sum
        = (m.map fun a => (a.r * a.d) * η a.dst).sum - (m.map fun a => (a.r * a.d) * η a.src).sum := by
      rw [← sum_map_sub']
      congr 1
      apply List.map_congr_left
      intro a _
      ring
    rw [this, hdst, hB]; ring
  have k1 := key l hp ζ
  have k2 := key (l.map Jump.swap) (rev_perm_swap l hp) ξ
  rw [List.map_map] at k2
  -- expand the two cross terms
  have e1 : (l.map fun a => flux ξ a * (ζ a.dst - ζ a.src)).sum
      = (l.map fun a => a.r * a.d * (ζ a.dst - ζ a.src)).sum
        + (l.map fun a => a.r * (ξ a.dst - ξ a.src) * (ζ a.dst - ζ a.src)).sum := by
    rw [← List.sum_map_add]
    congr 1
    apply List.map_congr_left
    intro a _
    simp only [flux]; ring
  have e2 : (l.map ((fun a => flux ζ a * (ξ a.dst - ξ a.src)) ∘ Jump.swap)).sum
      = (l.map ((fun a => a.r * a.d * (ξ a.dst - ξ a.src)) ∘ Jump.swap)).sum
        + (l.map fun a => a.r * (ξ a.dst - ξ a.src) * (ζ a.dst - ζ a.src)).sum := by
    rw [← List.sum_map_add]
    congr 1
    apply List.map_congr_left
    intro a _
    simp only [Function.comp, flux, Jump.swap]; ring
  have h2 : (2 : K) ≠ 0 := two_ne_zero
  have : 2 * ∑ i, ζ i * B l i = 2 * ∑ i, ξ i * B (l.map Jump.swap) i := by
    rw [k1, k2]
    linear_combination (-1 : K) * c1 + (1 : K) * c2 + (1 : K) * e1 - (1 : K) * e2
  exact mul_left_cancel₀ h2 this


/-! ### Relabelling sites (atom permutations, symmetry operations, equivalent descriptions) -/

def Jump.relabel {κ : Type} (π : ι → κ) (a : Jump ι K) : Jump κ K := ⟨π a.src, π a.dst, a.d, a.r, a.e⟩

omit [Fintype ι] [DecidableEq ι] [LinearOrder K] [IsStrictOrderedRing K] in
theorem Q_perm (l l' : List (Jump ι K)) (h : l.Perm l') (ξ : ι → K) : Q l ξ = Q l' ξ := by
  unfold Q
  rw [(h.map _).sum_eq]

omit [Fintype ι] [DecidableEq ι] [LinearOrder K] [IsStrictOrderedRing K] in
theorem Q_relabel {κ : Type} (π : ι → κ) (l : List (Jump ι K)) (η : κ → K) :
    Q (l.map (Jump.relabel π)) η = Q l (fun i => η (π i)) := by
  unfold Q
  rw [List.map_map]
  rfl

/-- VAR-relabel: if relabelling the sites by a bijection `π` carries network `l` onto network `l'`
    (as multisets of jumps — `l'` may carry rotated displacement projections), the two minima of
    `Q` coincide.  This is invariance of the transport form under symmetry operations
    (`u·D·u = (Ru)·D·(Ru)`) and under equivalent descriptions of the same crystal. -/
theorem Qmin_relabel {κ : Type} [Fintype κ] [DecidableEq κ] (π : ι ≃ κ)
    (l : List (Jump ι K)) (l' : List (Jump κ K))
    (hπ : (l.map (Jump.relabel π)).Perm l')
    (hp : (l.map Jump.rev).Perm l) (hr : ∀ a ∈ l, 0 ≤ a.r)
    (hp' : (l'.map Jump.rev).Perm l') (hr' : ∀ a ∈ l', 0 ≤ a.r)
    (ξ : ι → K) (ξ' : κ → K) (hs : Stationary l ξ) (hs' : Stationary l' ξ') :
    Q l ξ = Q l' ξ' := by
  have key : ∀ η : κ → K, Q l' η = Q l (fun i => η (π i)) := by
    intro η
    rw [← Q_perm _ _ hπ η, Q_relabel]
  apply le_antisymm
  · rw [key ξ']
    exact Q_min l hp hr ξ _ hs
  · have : Q l ξ = Q l' (fun k => ξ (π.symm k)) := by
      rw [key]
      congr 1
      funext i
      simp
    rw [this]
    exact Q_min l' hp' hr' ξ' _ hs'

end Onsager.Var
