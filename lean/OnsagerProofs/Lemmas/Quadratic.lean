/-
  Positive semidefiniteness of the full transport tensor (all directions), for a family of networks
  that share their skeleton (sources, destinations, weights) and differ only in which component of a
  vector displacement is used for the fields `d` and `e`.

  `net S s d r v α β` : the network with field d = component α, field e = component β.
  With ξ α stationary for component α,
      M α β := ½ Σ r v_α v_β − Σ_i ξ^α_i B^β_i                      (what the model returns)
  satisfies  M α β = ½ Σ_t r_t (v_α + Δξ^α)(v_β + Δξ^β)              (`M_eq_gram`, a Gram form)
  and therefore  Σ_{α,β} u_α u_β M α β = ½ Σ_t r_t (Σ_α u_α (v_α + Δξ^α))² ≥ 0   (`quad_nonneg`).
-/
import OnsagerProofs.Lemmas.Tracer

namespace Onsager.Var

variable {ι K σ : Type} [Fintype ι] [DecidableEq ι]
variable [Field K] [LinearOrder K] [IsStrictOrderedRing K]

/-- network with d-field = component α and e-field = component β of the displacement `v` -/
def net (S : List σ) (s d : σ → ι) (r : σ → K) (v : σ → ℕ → K) (α β : ℕ) : List (Jump ι K) :=
  S.map fun t => ⟨s t, d t, v t α, r t, v t β⟩

variable (S : List σ) (s d : σ → ι) (r : σ → K) (v : σ → ℕ → K)

omit [Fintype ι] [LinearOrder K] [IsStrictOrderedRing K] in
theorem net_swap (α β : ℕ) : (net S s d r v α β).map Jump.swap = net S s d r v β α := by
  unfold net; rw [List.map_map]; rfl

omit [Fintype ι] [LinearOrder K] [IsStrictOrderedRing K] in
/-- stationarity only sees the d-field -/
theorem Stationary_net_indep (α β γ : ℕ) (ξ : ι → K) :
    Stationary (net S s d r v α β) ξ ↔ Stationary (net S s d r v α γ) ξ := by
  unfold Stationary net
  have : ∀ i, (((S.map fun t => (⟨s t, d t, v t α, r t, v t β⟩ : Jump ι K)).filter (fun a => a.src = i)).map (flux ξ)).sum
      = (((S.map fun t => (⟨s t, d t, v t α, r t, v t γ⟩ : Jump ι K)).filter (fun a => a.src = i)).map (flux ξ)).sum := by
    intro i
    rw [List.filter_map, List.filter_map, List.map_map, List.map_map]
    rfl
  constructor
  · intro h i; rw [← this i]; exact h i
  · intro h i; rw [this i]; exact h i

/-- the Gram form -/
def gram (ξ : ℕ → ι → K) (α β : ℕ) : K :=
  (S.map fun t => r t * (v t α + ξ α (d t) - ξ α (s t)) * (v t β + ξ β (d t) - ξ β (s t))).sum / 2

/-- the model's bilinear value for components (α, β), with any potential for the α field -/
def Mval (ξa : ι → K) (α β : ℕ) : K :=
  ((net S s d r v α β).map fun a => a.r * a.d * a.e).sum / 2
    - ∑ i, ξa i * B ((net S s d r v α β).map Jump.swap) i

theorem M_eq_gram (ξ : ℕ → ι → K) (α β : ℕ)
    (hpab : ((net S s d r v α β).map Jump.rev).Perm (net S s d r v α β))
    (hpbb : ((net S s d r v β β).map Jump.rev).Perm (net S s d r v β β))
    (hsa : Stationary (net S s d r v α α) (ξ α)) (hsb : Stationary (net S s d r v β β) (ξ β)) :
    Mval S s d r v (ξ α) α β = gram S s d r v ξ α β := by
  have hsa' : Stationary (net S s d r v α β) (ξ α) := (Stationary_net_indep S s d r v α α β (ξ α)).1 hsa
  have hsb' : Stationary ((net S s d r v α β).map Jump.swap) (ξ β) := by
    rw [net_swap]; exact (Stationary_net_indep S s d r v β β α (ξ β)).1 hsb
  have h1 := mixed_eq_Bil (net S s d r v α β) hpab (ξ α) (ξ β) hsa' hsb'
  unfold Mval
  rw [h1]
  -- Bil = ½ Σ r v_α (v_β + Δξ^β);  gram − Bil = ½ Σ flux^β · Δξ^α = 0
  have hc := cross_zero (net S s d r v β β) hpbb (ξ β) (ξ α) hsb
  unfold Bil gram net at *
  rw [List.map_map] at hc ⊢
  have e : (S.map fun t => r t * (v t α + ξ α (d t) - ξ α (s t)) * (v t β + ξ β (d t) - ξ β (s t))).sum
      = (S.map ((fun a : Jump ι K => a.r * a.d * (a.e + ξ β a.dst - ξ β a.src)) ∘ fun t => ⟨s t, d t, v t α, r t, v t β⟩)).sum
        + (S.map ((fun a : Jump ι K => flux (ξ β) a * (ξ α a.dst - ξ α a.src)) ∘ fun t => ⟨s t, d t, v t β, r t, v t β⟩)).sum := by
    rw [← List.sum_map_add]
    apply congrArg
    apply List.map_congr_left
    intro t _
    simp only [Function.comp, flux]
    ring
  rw [e, hc, add_zero]

omit [Fintype ι] [DecidableEq ι] in
theorem gram_quad_nonneg (ξ : ℕ → ι → K) (dim : ℕ) (u : ℕ → K) (hr : ∀ t ∈ S, 0 ≤ r t) :
    0 ≤ ∑ α ∈ Finset.range dim, ∑ β ∈ Finset.range dim, u α * u β * gram S s d r v ξ α β := by
  have key : ∑ α ∈ Finset.range dim, ∑ β ∈ Finset.range dim, u α * u β * gram S s d r v ξ α β
      = (S.map fun t => r t * (∑ α ∈ Finset.range dim, u α * (v t α + ξ α (d t) - ξ α (s t))) ^ 2).sum / 2 := by
    unfold gram
    induction S with
    | nil => simp
    | cons t T ih =>
      have ih' := ih (fun x hx => hr x (List.mem_cons_of_mem _ hx))
      simp only [List.map_cons, List.sum_cons, add_div, mul_add, Finset.sum_add_distrib] at ih' ⊢
      rw [ih']
      congr 1
      rw [sq, Finset.sum_mul_sum, Finset.mul_sum, div_eq_mul_inv, Finset.sum_mul]
      apply Finset.sum_congr rfl
      intro α _
      rw [Finset.mul_sum, Finset.sum_mul]
      apply Finset.sum_congr rfl
      intro β _
      ring
  rw [key]
  apply div_nonneg _ (by norm_num)
  apply List.sum_nonneg
  intro x hx
  obtain ⟨t, ht, rfl⟩ := List.mem_map.1 hx
  exact mul_nonneg (hr t ht) (sq_nonneg _)

end Onsager.Var
