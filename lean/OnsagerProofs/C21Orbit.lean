/-
  Orbit lemmas for the class-building loops of `Crystal.jumpnetwork` (and of the cluster
  generators): `expand` / `classes` of OnsagerModel/C21.lean, for an arbitrary element type, an
  arbitrary list of maps `fs` (the group operations acting on the elements) and a reversal `rv`.

  `P` is the domain on which the maps behave like a group action (indices in range).

  * `mem_expand`        the class built from `x` is `{f x, rv (f x) | f ∈ fs}`
  * `expand_nodup`      no element is listed twice                      (each jump once, in a class)
  * `expand_closed`     the class is closed under every `f ∈ fs` and under `rv`
  * `classes_cover`     every candidate lies in some class
  * `classes_disjoint`  different classes share no element             (each jump once, globally)
  * `classes_flatten_nodup`
-/
import OnsagerModel.C21
import Mathlib.Data.List.Nodup
import Mathlib.Data.List.Pairwise

namespace Onsager.C21

variable {α : Type} [DecidableEq α]

/-- the maps `fs` with the reversal `rv` act like a group on the domain `P` -/
structure GroupLike (P : α → Prop) (fs : List (α → α)) (rv : α → α) : Prop where
  dom : ∀ f ∈ fs, ∀ x, P x → P (f x)
  domr : ∀ x, P x → P (rv x)
  comp : ∀ f ∈ fs, ∀ g ∈ fs, ∃ k ∈ fs, ∀ x, P x → k x = f (g x)
  one : ∃ e ∈ fs, ∀ x, P x → e x = x
  inv : ∀ f ∈ fs, ∃ k ∈ fs, ∀ x, P x → k (f x) = x
  comm : ∀ f ∈ fs, ∀ x, P x → f (rv x) = rv (f x)
  invol : ∀ x, rv (rv x) = x

/-- invariant of the inner loop -/
theorem expand_aux (rv : α → α) (hinv : ∀ x, rv (rv x) = x) (x : α) :
    ∀ (fs : List (α → α)) (tr : List α), (∀ y ∈ tr, rv y ∈ tr) →
      (∀ y, y ∈ fs.foldl (expandStep rv x) tr ↔ y ∈ tr ∨ ∃ f ∈ fs, y = f x ∨ y = rv (f x)) ∧
      (∀ y ∈ fs.foldl (expandStep rv x) tr, rv y ∈ fs.foldl (expandStep rv x) tr) := by
  intro fs
  induction fs with
  | nil => intro tr h; simpa using h
  | cons f fs ih =>
    intro tr hcl
    simp only [List.foldl_cons]
    have hcl' : ∀ y ∈ expandStep rv x tr f, rv y ∈ expandStep rv x tr f := by
      intro y hy
      unfold expandStep at hy ⊢
      simp only at hy ⊢
      split at hy
      · rename_i hm; simp only [hm, if_true]; exact hcl y hy
      · rename_i hm
        simp only [hm, if_false]
        simp only [List.mem_append, List.mem_cons, List.not_mem_nil, or_false] at hy ⊢
        rcases hy with h | h | h
        · exact Or.inl (hcl y h)
        · subst h; exact Or.inr (Or.inr rfl)
        · subst h; rw [hinv]; exact Or.inr (Or.inl rfl)
    obtain ⟨h1, h2⟩ := ih (expandStep rv x tr f) hcl'
    refine ⟨fun y => ?_, h2⟩
    rw [h1 y]
    have hstep : ∀ z, z ∈ expandStep rv x tr f ↔ z ∈ tr ∨ z = f x ∨ z = rv (f x) := by
      intro z
      unfold expandStep
      simp only
      split
      · rename_i hm
        constructor
        · exact Or.inl
        · rintro (h | h | h)
          · exact h
          · subst h; exact hm
          · subst h; exact hcl _ hm
      · simp [List.mem_append]
    rw [hstep y]
    simp only [List.mem_cons, exists_eq_or_imp, or_assoc]

theorem mem_expand (fs : List (α → α)) (rv : α → α) (hinv : ∀ x, rv (rv x) = x) (x y : α) :
    y ∈ expand fs rv x ↔ ∃ f ∈ fs, y = f x ∨ y = rv (f x) := by
  have := (expand_aux rv hinv x fs [] (by simp)).1 y
  simpa [expand] using this

theorem expand_rv_mem (fs : List (α → α)) (rv : α → α) (hinv : ∀ x, rv (rv x) = x) (x y : α)
    (h : y ∈ expand fs rv x) : rv y ∈ expand fs rv x :=
  (expand_aux rv hinv x fs [] (by simp)).2 y h

/-- no duplicates inside a class, provided no image of `x` is its own reverse -/
theorem expand_nodup (fs : List (α → α)) (rv : α → α) (hinv : ∀ x, rv (rv x) = x) (x : α)
    (hne : ∀ f ∈ fs, rv (f x) ≠ f x) : (expand fs rv x).Nodup := by
  suffices h : ∀ (fs : List (α → α)) (tr : List α), (∀ f ∈ fs, rv (f x) ≠ f x) → tr.Nodup →
      (∀ y ∈ tr, rv y ∈ tr) → (fs.foldl (expandStep rv x) tr).Nodup by
    exact h fs [] hne List.nodup_nil (by simp)
  intro fs
  induction fs with
  | nil => intro tr _ h _; simpa using h
  | cons f fs ih =>
    intro tr hne hnd hcl
    simp only [List.foldl_cons]
    have hne' : ∀ f ∈ fs, rv (f x) ≠ f x := fun g hg => hne g (List.mem_cons_of_mem _ hg)
    have hf := hne f (List.mem_cons_self ..)
    unfold expandStep
    simp only
    split
    · exact ih tr hne' hnd hcl
    · rename_i hm
      apply ih _ hne'
      · rw [List.nodup_append]
        refine ⟨hnd, ?_, ?_⟩
        · simp only [List.nodup_cons, List.mem_singleton, List.not_mem_nil, not_false_eq_true,
            List.nodup_nil, and_true]
          exact fun h => hf h.symm
        · intro a ha b hb
          simp only [List.mem_cons, List.not_mem_nil, or_false] at hb
          rcases hb with rfl | rfl
          · intro h; subst h; exact hm ha
          · intro h; subst h
            have := hcl _ ha
            rw [hinv] at this
            exact hm this
      · intro y hy
        simp only [List.mem_append, List.mem_cons, List.not_mem_nil, or_false] at hy ⊢
        rcases hy with h | h | h
        · exact Or.inl (hcl y h)
        · subst h; exact Or.inr (Or.inr rfl)
        · subst h; rw [hinv]; exact Or.inr (Or.inl rfl)

variable {P : α → Prop} {fs : List (α → α)} {rv : α → α}

theorem expand_dom (G : GroupLike P fs rv) {x y : α} (hx : P x) (h : y ∈ expand fs rv x) : P y := by
  rw [mem_expand fs rv G.invol] at h
  obtain ⟨f, hf, rfl | rfl⟩ := h
  · exact G.dom f hf x hx
  · exact G.domr _ (G.dom f hf x hx)

theorem expand_self (G : GroupLike P fs rv) {x : α} (hx : P x) : x ∈ expand fs rv x := by
  rw [mem_expand fs rv G.invol]
  obtain ⟨e, he, h⟩ := G.one
  exact ⟨e, he, Or.inl (h x hx).symm⟩

/-- a class is closed under every operation and under reversal -/
theorem expand_closed (G : GroupLike P fs rv) {x y : α} (hx : P x) (h : y ∈ expand fs rv x) :
    (∀ f ∈ fs, f y ∈ expand fs rv x) ∧ rv y ∈ expand fs rv x := by
  refine ⟨?_, expand_rv_mem fs rv G.invol x y h⟩
  intro f hf
  rw [mem_expand fs rv G.invol] at h ⊢
  obtain ⟨g, hg, rfl | rfl⟩ := h
  · obtain ⟨k, hk, hkx⟩ := G.comp f hf g hg
    exact ⟨k, hk, Or.inl (hkx x hx).symm⟩
  · obtain ⟨k, hk, hkx⟩ := G.comp f hf g hg
    refine ⟨k, hk, Or.inr ?_⟩
    rw [hkx x hx, G.comm f hf _ (G.dom g hg x hx)]

theorem expand_symm (G : GroupLike P fs rv) {x y : α} (hx : P x) (h : y ∈ expand fs rv x) :
    x ∈ expand fs rv y := by
  have hy := expand_dom G hx h
  rw [mem_expand fs rv G.invol] at h ⊢
  obtain ⟨f, hf, rfl | rfl⟩ := h
  · obtain ⟨k, hk, hkx⟩ := G.inv f hf
    exact ⟨k, hk, Or.inl (hkx x hx).symm⟩
  · obtain ⟨k, hk, hkx⟩ := G.inv f hf
    refine ⟨k, hk, Or.inr ?_⟩
    rw [G.comm k hk _ (G.dom f hf x hx), hkx x hx, G.invol]

theorem expand_trans (G : GroupLike P fs rv) {x y z : α} (hx : P x) (hxy : y ∈ expand fs rv x)
    (hyz : z ∈ expand fs rv y) : z ∈ expand fs rv x := by
  rw [mem_expand fs rv G.invol] at hyz
  obtain ⟨f, hf, rfl | rfl⟩ := hyz
  · exact (expand_closed G hx hxy).1 f hf
  · exact expand_rv_mem fs rv G.invol x _ ((expand_closed G hx hxy).1 f hf)

/-- two classes that share an element have the same elements -/
theorem expand_eq_of_mem (G : GroupLike P fs rv) {x y : α} (hx : P x) (hxy : y ∈ expand fs rv x) (z : α) :
    z ∈ expand fs rv y ↔ z ∈ expand fs rv x := by
  have hy := expand_dom G hx hxy
  exact ⟨fun h => expand_trans G hx hxy h, fun h => expand_trans G hy (expand_symm G hx hxy) h⟩

/-! ### the outer loop -/

/-- invariant of the outer loop: every class is the class of a processed candidate, every
    processed candidate is covered, classes are pairwise disjoint -/
structure ClsInv (P : α → Prop) (fs : List (α → α)) (rv : α → α) (seen : List α) (lis : List (List α)) : Prop where
  rep : ∀ tr ∈ lis, ∃ c ∈ seen, tr = expand fs rv c
  cover : ∀ c ∈ seen, ∃ tr ∈ lis, c ∈ tr
  disj : lis.Pairwise fun a b => ∀ z, z ∈ a → z ∉ b

theorem classes_inv (G : GroupLike P fs rv) : ∀ (cands seen : List α) (lis : List (List α)),
    (∀ c ∈ seen, P c) → (∀ c ∈ cands, P c) → ClsInv P fs rv seen lis →
    ClsInv P fs rv (seen ++ cands) (cands.foldl (classesStep fs rv) lis) := by
  intro cands
  induction cands with
  | nil => intro seen lis _ _ h; simpa using h
  | cons x cands ih =>
    intro seen lis hs hc hI
    simp only [List.foldl_cons]
    have hx : P x := hc x (List.mem_cons_self ..)
    have hc' : ∀ c ∈ cands, P c := fun c h => hc c (List.mem_cons_of_mem _ h)
    have hs' : ∀ c ∈ seen ++ [x], P c := by
      intro c h; rw [List.mem_append, List.mem_singleton] at h
      rcases h with h | rfl
      · exact hs c h
      · exact hx
    have key : ClsInv P fs rv (seen ++ [x]) (classesStep fs rv lis x) := by
      unfold classesStep
      split
      · rename_i hany
        simp only [List.any_eq_true, decide_eq_true_eq] at hany
        obtain ⟨tr, htr, hxtr⟩ := hany
        refine ⟨?_, ?_, hI.disj⟩
        · intro t ht
          obtain ⟨c, hc, rfl⟩ := hI.rep t ht
          exact ⟨c, List.mem_append_left _ hc, rfl⟩
        · intro c hc
          rw [List.mem_append, List.mem_singleton] at hc
          rcases hc with hc | rfl
          · exact hI.cover c hc
          · exact ⟨tr, htr, hxtr⟩
      · rename_i hany
        simp only [List.any_eq_true, decide_eq_true_eq, not_exists, not_and] at hany
        refine ⟨?_, ?_, ?_⟩
        · intro t ht
          rw [List.mem_append, List.mem_singleton] at ht
          rcases ht with ht | rfl
          · obtain ⟨c, hc, rfl⟩ := hI.rep t ht
            exact ⟨c, List.mem_append_left _ hc, rfl⟩
          · exact ⟨x, by simp, rfl⟩
        · intro c hc
          rw [List.mem_append, List.mem_singleton] at hc
          rcases hc with hc | rfl
          · obtain ⟨t, ht, hct⟩ := hI.cover c hc
            exact ⟨t, List.mem_append_left _ ht, hct⟩
          · exact ⟨_, by simp, expand_self G hx⟩
        · rw [List.pairwise_append]
          refine ⟨hI.disj, by simp, ?_⟩
          intro a ha b hb
          rw [List.mem_singleton] at hb
          subst hb
          intro z hza hzx
          obtain ⟨c, hc, rfl⟩ := hI.rep a ha
          -- z ∈ class c and z ∈ class x  ⇒  x ∈ class c, contradiction
          have hPc := hs c hc
          have hxz : x ∈ expand fs rv z := expand_symm G hx hzx
          have : x ∈ expand fs rv c := expand_trans G hPc hza hxz
          exact hany _ ha this
    have := ih (seen ++ [x]) _ hs' hc' key
    simpa [List.append_assoc] using this

theorem classes_clsInv (G : GroupLike P fs rv) (cands : List α) (hc : ∀ c ∈ cands, P c) :
    ClsInv P fs rv cands (classes fs rv cands) := by
  have := classes_inv G cands [] [] (by simp) hc ⟨by simp, by simp, by simp⟩
  simpa [classes] using this

/-- every candidate lies in some class -/
theorem classes_cover (G : GroupLike P fs rv) (cands : List α) (hc : ∀ c ∈ cands, P c) :
    ∀ c ∈ cands, ∃ tr ∈ classes fs rv cands, c ∈ tr := (classes_clsInv G cands hc).cover

/-- every class is the full class of one of the candidates -/
theorem classes_rep (G : GroupLike P fs rv) (cands : List α) (hc : ∀ c ∈ cands, P c) :
    ∀ tr ∈ classes fs rv cands, ∃ c ∈ cands, tr = expand fs rv c := (classes_clsInv G cands hc).rep

/-- different classes share no element -/
theorem classes_disjoint (G : GroupLike P fs rv) (cands : List α) (hc : ∀ c ∈ cands, P c) :
    (classes fs rv cands).Pairwise fun a b => ∀ z, z ∈ a → z ∉ b := (classes_clsInv G cands hc).disj

/-- **each element once**: the concatenation of all classes has no duplicates -/
theorem classes_flatten_nodup (G : GroupLike P fs rv) (cands : List α) (hc : ∀ c ∈ cands, P c)
    (hne : ∀ c ∈ cands, ∀ f ∈ fs, rv (f c) ≠ f c) : (classes fs rv cands).flatten.Nodup := by
  rw [List.nodup_flatten]
  refine ⟨?_, ?_⟩
  · intro tr htr
    obtain ⟨c, hcc, rfl⟩ := classes_rep G cands hc tr htr
    exact expand_nodup fs rv G.invol c (hne c hcc)
  · exact (classes_disjoint G cands hc).imp fun h => by
      intro z hz hz'; exact h z hz hz'

end Onsager.C21
