/-
  C28 — the bookkeeping invariant for the WHOLE op language (continues OnsagerProofs/C28.lean).

  * `imul_occ`, `imul_chemorder`, `imul_inv`   a site permutation places every value at its image and
                                               keeps the invariant
  * `inv_sane`, `sane_inv`, `inv_iff_sane`     the invariant is `__sane__` + one duplicate-free list
                                               per species
  * `reorder_perm`, `reorder_inv`, `reorder_rejects`, `reorder_rejects_length`
                                               a reorder accepted by the length guard and `__sane__` is a
                                               genuine permutation of every species list (pigeonhole),
                                               occupations unchanged; `reorderZip_truncates`: without the
                                               guard (old source, finding F41) consistency can be lost
  * `poscar_roundtrip`                         POSCAR then POSCAR_occ gives back the very same cell
  * `run_inv`, `reachable_sane`                any history of well-formed ops keeps every cell consistent
-/
import OnsagerProofs.C28

namespace Onsager.C28

theorem getD_of_lt {β} (l : List β) (i : Nat) (d : β) (h : i < l.length) : l.getD i d = l[i] := by
  simp [List.getD_eq_getElem?_getD, h]


/-! ### The `for i: acc[f i] = g i` loop -/

section foldset
variable {α : Type} (f : α → Nat) (g : α → Int)

def foldSet (L : List α) (acc : List Int) : List Int :=
  L.foldl (fun acc a => acc.set (f a) (g a)) acc

theorem foldSet_length (L : List α) (acc : List Int) :
    (foldSet f g L acc).length = acc.length := by
  induction L generalizing acc with
  | nil => rfl
  | cons a L ih => simp only [foldSet, List.foldl_cons] at ih ⊢; rw [ih]; simp

theorem foldSet_outside (L : List α) (acc : List Int) (j : Nat) (hj : ∀ a ∈ L, f a ≠ j) :
    (foldSet f g L acc)[j]? = acc[j]? := by
  induction L generalizing acc with
  | nil => rfl
  | cons a L ih =>
    simp only [foldSet, List.foldl_cons] at ih ⊢
    rw [ih _ (fun b hb => hj b (List.mem_cons_of_mem _ hb))]
    rw [List.getElem?_set_ne (hj a List.mem_cons_self)]

theorem foldSet_at (L : List α) (acc : List Int) (hnd : (L.map f).Nodup) (a : α) (ha : a ∈ L)
    (hlt : f a < acc.length) : (foldSet f g L acc)[f a]? = some (g a) := by
  induction L generalizing acc with
  | nil => cases ha
  | cons b L ih =>
    simp only [List.map_cons, List.nodup_cons] at hnd
    simp only [foldSet, List.foldl_cons] at ih ⊢
    rcases List.mem_cons.1 ha with rfl | hmem
    · have := foldSet_outside f g L (acc.set (f a) (g a)) (f a) (by
        intro b hb heq
        exact hnd.1 (List.mem_map.2 ⟨b, hb, heq⟩))
      simp only [foldSet] at this
      rw [this]
      simp [hlt]
    · exact ih _ hnd.2 hmem (by simpa using hlt)

end foldset

/-! ### `__imul__` -/


/-- `indexmap` is a permutation of the site indices `0 … n-1`. -/
def IsPerm (m : List Nat) (n : Nat) : Prop := m.Perm (List.range n)

instance (m : List Nat) (n : Nat) : Decidable (IsPerm m n) := by unfold IsPerm; infer_instance

theorem IsPerm.length {m n} (h : IsPerm m n) : m.length = n := by
  have := List.Perm.length_eq h; simpa using this

theorem IsPerm.nodup {m n} (h : IsPerm m n) : m.Nodup :=
  (List.Perm.nodup_iff h).2 List.nodup_range

theorem IsPerm.getD_lt {m n} (h : IsPerm m n) (i : Nat) (hi : i < n) : m.getD i 0 < n := by
  have hl := h.length
  have : m.getD i 0 ∈ m := by
    rw [getD_of_lt _ _ _ (by omega)]; exact List.getElem_mem _
  have := (List.Perm.mem_iff h).1 this
  simpa using this

theorem IsPerm.inj {m n} (h : IsPerm m n) (i j : Nat) (hi : i < n) (hj : j < n)
    (e : m.getD i 0 = m.getD j 0) : i = j := by
  have hl := h.length
  rw [getD_of_lt _ _ _ (by omega), getD_of_lt _ _ _ (by omega)] at e
  exact (List.Nodup.getElem_inj_iff h.nodup).1 e

theorem IsPerm.surj {m n} (h : IsPerm m n) (j : Nat) (hj : j < n) :
    ∃ i, i < n ∧ m.getD i 0 = j := by
  have hl := h.length
  have : j ∈ m := (List.Perm.mem_iff h).2 (by simpa using hj)
  obtain ⟨i, hi, e⟩ := List.getElem_of_mem this
  exact ⟨i, by omega, by rw [getD_of_lt _ _ _ hi]; exact e⟩

theorem imul_occ_eq (s : Cell) (m : List Nat) :
    (imul s m).occ = foldSet (fun i => m.getD i 0) (fun i => s.occ.getD i (-1))
      (List.range s.occ.length) s.occ := rfl

theorem imul_chemorder (s : Cell) (m : List Nat) :
    (imul s m).chemorder = s.chemorder.map (·.map fun i => m.getD i 0) := rfl

theorem imul_nchem (s : Cell) (m : List Nat) : (imul s m).nchem = s.nchem := rfl

theorem imul_occ_length (s : Cell) (m : List Nat) : (imul s m).occ.length = s.occ.length := by
  rw [imul_occ_eq, foldSet_length]

/-- The loop `gocc[indexmap[i]] = occ[i]` places every value at its image. -/
theorem imul_occ (s : Cell) (m : List Nat) (hp : IsPerm m s.occ.length) (i : Nat)
    (hi : i < s.occ.length) : (imul s m).occ[m.getD i 0]? = s.occ[i]? := by
  rw [imul_occ_eq]
  have hnd : ((List.range s.occ.length).map fun i => m.getD i 0).Nodup := by
    refine List.Nodup.map_on ?_ List.nodup_range
    intro a ha b hb e
    exact hp.inj a b (by simpa using ha) (by simpa using hb) e
  have := foldSet_at (fun i => m.getD i 0) (fun i => s.occ.getD i (-1)) (List.range s.occ.length)
    s.occ hnd i (by simpa using hi) (hp.getD_lt i hi)
  rw [this, getD_of_lt _ _ _ hi, List.getElem?_eq_getElem hi]

theorem getD_map_map (A : List (List Nat)) (f : Nat → Nat) (c : Nat) :
    (A.map (·.map f)).getD c [] = (A.getD c []).map f := by
  simp only [List.getD_eq_getElem?_getD, List.getElem?_map]
  cases A[c]? <;> simp

/-- A symmetry operation (a permutation of the sites) keeps the bookkeeping consistent. -/
theorem imul_inv (s : Cell) (m : List Nat) (hp : IsPerm m s.occ.length) (h : Inv s) :
    Inv (imul s m) := by
  have hlt : ∀ c ind, ind ∈ s.chemorder.getD c [] → ind < s.occ.length := by
    intro c ind hmem
    by_cases hc : c < s.nchem
    · have := (h.mem c ind hc).1 hmem
      by_contra hcon
      have hn : s.occ[ind]? = none := by simp; omega
      rw [hn] at this; cases this
    · have : s.chemorder[c]? = none := by simp; have := h.len; omega
      simp [List.getD_eq_getElem?_getD, this] at hmem
  refine ⟨?_, ?_, ?_, ?_⟩
  · rw [imul_chemorder, imul_nchem, List.length_map, h.len]
  · intro c ind hc
    rw [imul_nchem] at hc
    rw [imul_chemorder, getD_map_map, List.mem_map]
    constructor
    · rintro ⟨i, hi, rfl⟩
      rw [imul_occ s m hp i (hlt c i hi)]
      exact (h.mem c i hc).1 hi
    · intro hocc
      have hind : ind < s.occ.length := by
        by_contra hcon
        have hn : (imul s m).occ[ind]? = none := by simp [imul_occ_length]; omega
        rw [hn] at hocc; cases hocc
      obtain ⟨i, hi, rfl⟩ := hp.surj ind hind
      rw [imul_occ s m hp i hi] at hocc
      exact ⟨i, (h.mem c i hc).2 hocc, rfl⟩
  · intro c
    rw [imul_chemorder, getD_map_map]
    refine List.Nodup.map_on ?_ (h.nodup c)
    intro a ha b hb e
    exact hp.inj a b (hlt c a ha) (hlt c b hb) e
  · intro v hv
    rw [imul_nchem]
    obtain ⟨j, hj, rfl⟩ := List.getElem_of_mem hv
    rw [imul_occ_length] at hj
    obtain ⟨i, hi, e⟩ := hp.surj j hj
    have := imul_occ s m hp i hi
    rw [e, List.getElem?_eq_getElem (by rw [imul_occ_length]; exact hj),
      List.getElem?_eq_getElem hi] at this
    have e2 : (imul s m).occ[j] = s.occ[i] := by simpa using this
    rw [e2]
    exact h.range _ (List.getElem_mem hi)

/-- Non-vacuity: a 4-cycle of the sites acting on a cell with two species and a vacancy. -/
example : IsPerm [1, 2, 3, 0] 4 := by decide
example : imul ⟨2, [0, 1, -1, 0], [[3, 0], [1]]⟩ [1, 2, 3, 0]
    = ⟨2, [0, 0, 1, -1], [[0, 1], [2]]⟩ := by decide
/-- The permutation hypothesis is needed: a non-injective index map breaks the bookkeeping. -/
example : saneB (imul ⟨2, [0, 1, -1, 0], [[3, 0], [1]]⟩ [0, 0, 2, 3]) = false := by decide

/-! ### `__sane__` -/

theorem saneB_iff (s : Cell) : saneB s = true ↔
    (∀ c, c < s.chemorder.length → ∀ ind ∈ s.chemorder.getD c [], s.occ[ind]? = some (c : Int)) ∧
    (∀ ind, ind < s.occ.length → ind ∈ s.chemorder.flatten ∨ s.occ[ind]? = some (-1)) := by
  simp only [saneB, Bool.and_eq_true, List.all_eq_true, List.mem_range, Bool.or_eq_true,
    List.contains_iff_mem, beq_iff_eq]

theorem mem_flatten_iff_getD (A : List (List Nat)) (x : Nat) :
    x ∈ A.flatten ↔ ∃ c, c < A.length ∧ x ∈ A.getD c [] := by
  rw [List.mem_flatten]
  constructor
  · rintro ⟨l, hl, hx⟩
    obtain ⟨c, hc, rfl⟩ := List.getElem_of_mem hl
    exact ⟨c, hc, by rw [getD_of_lt _ _ _ hc]; exact hx⟩
  · rintro ⟨c, hc, hx⟩
    rw [getD_of_lt _ _ _ hc] at hx
    exact ⟨_, List.getElem_mem hc, hx⟩

/-- The invariant implies the source's `__sane__` test. -/
theorem inv_sane (s : Cell) (h : Inv s) : saneB s = true := by
  rw [saneB_iff]
  constructor
  · intro c hc ind hind
    exact (h.mem c ind (by rw [← h.len]; exact hc)).1 hind
  · intro ind hind
    have hr := h.range _ (List.getElem_mem hind)
    by_cases hv : s.occ[ind] = -1
    · right; rw [List.getElem?_eq_getElem hind, hv]
    · left
      rw [mem_flatten_iff_getD]
      have hlt : (s.occ[ind]).toNat < s.nchem := by omega
      refine ⟨(s.occ[ind]).toNat, by rw [h.len]; exact hlt, ?_⟩
      rw [h.mem _ ind hlt, List.getElem?_eq_getElem hind]
      congr 1
      omega

/-- Conversely: `__sane__` plus one list per species plus duplicate-free lists is the invariant
    (the species range of `occ` follows). -/
theorem sane_inv (s : Cell) (hs : saneB s = true) (hlen : s.chemorder.length = s.nchem)
    (hnd : ∀ c, (s.chemorder.getD c []).Nodup) : Inv s := by
  rw [saneB_iff] at hs
  obtain ⟨h1, h2⟩ := hs
  have key : ∀ ind (hind : ind < s.occ.length), s.occ[ind] ≠ -1 →
      ∃ c, c < s.nchem ∧ ind ∈ s.chemorder.getD c [] ∧ s.occ[ind] = (c : Int) := by
    intro ind hind hv
    rcases h2 ind hind with hf | hf
    · rw [mem_flatten_iff_getD] at hf
      obtain ⟨c, hc, hx⟩ := hf
      have := h1 c hc ind hx
      rw [List.getElem?_eq_getElem hind] at this
      exact ⟨c, by omega, hx, by simpa using this⟩
    · rw [List.getElem?_eq_getElem hind] at hf
      exact absurd (by simpa using hf) hv
  refine ⟨hlen, ?_, hnd, ?_⟩
  · intro c ind hc
    constructor
    · exact h1 c (by omega) ind
    · intro hocc
      have hind : ind < s.occ.length := by
        by_contra hcon
        have hn : s.occ[ind]? = none := by simp; omega
        rw [hn] at hocc; cases hocc
      rw [List.getElem?_eq_getElem hind] at hocc
      have e : s.occ[ind] = (c : Int) := by simpa using hocc
      obtain ⟨d, _, hx, e2⟩ := key ind hind (by omega)
      have : d = c := by omega
      subst this; exact hx
  · intro v hv
    obtain ⟨ind, hind, rfl⟩ := List.getElem_of_mem hv
    by_cases hv : s.occ[ind] = -1
    · omega
    · obtain ⟨d, hd, _, e2⟩ := key ind hind hv
      omega

theorem inv_iff_sane (s : Cell) : Inv s ↔
    (saneB s = true ∧ s.chemorder.length = s.nchem ∧ ∀ c, (s.chemorder.getD c []).Nodup) :=
  ⟨fun h => ⟨inv_sane s h, h.len, h.nodup⟩, fun ⟨a, b, c⟩ => sane_inv s a b c⟩

/-- Decidable form of `sane_inv` (all hypotheses can be discharged by `decide` on a concrete cell). -/
theorem sane_inv' (s : Cell) (hs : saneB s = true) (hlen : s.chemorder.length = s.nchem)
    (hnd : ∀ l ∈ s.chemorder, l.Nodup) : Inv s := by
  refine sane_inv s hs hlen ?_
  intro c
  by_cases hc : c < s.chemorder.length
  · rw [getD_of_lt _ _ _ hc]; exact hnd _ (List.getElem_mem hc)
  · have : s.chemorder[c]? = none := by simp; omega
    simp [List.getD_eq_getElem?_getD, this]

/-! ### `reorder` -/

/-- One species list reordered through its map (`new[i] = old[map[i]]`). -/
def reorderList (clist cmap : List Nat) : List Nat :=
  (List.range clist.length).map fun i => clist.getD (cmap.getD i 0) 0

def reorderOk (clist cmap : List Nat) : Bool :=
  (List.range clist.length).all fun i =>
    match cmap[i]? with
    | none => false
    | some j => j < clist.length

theorem reorderZip_eq (s : Cell) (mapping : List (List Nat)) :
    reorderZip s mapping =
      if ¬ ((s.chemorder.zip mapping).all fun p => reorderOk p.1 p.2) = true then .error .index
      else if saneB { s with chemorder := (s.chemorder.zip mapping).map fun p => reorderList p.1 p.2 }
        then .ok { s with chemorder := (s.chemorder.zip mapping).map fun p => reorderList p.1 p.2 }
        else .error .value := rfl

theorem reorderList_length (l m : List Nat) : (reorderList l m).length = l.length := by
  simp [reorderList]

theorem reorderList_subset (l m : List Nat) (h : reorderOk l m = true) : reorderList l m ⊆ l := by
  intro x hx
  simp only [reorderList, List.mem_map, List.mem_range] at hx
  obtain ⟨i, hi, rfl⟩ := hx
  simp only [reorderOk, List.all_eq_true, List.mem_range] at h
  have := h i hi
  split at this
  · cases this
  rename_i j hj
  have hjl : j < l.length := by simpa using this
  have : m.getD i 0 = j := by simp [List.getD_eq_getElem?_getD, hj]
  rw [this, getD_of_lt _ _ _ hjl]
  exact List.getElem_mem _

/-- What a successful (unguarded) `reorderZip` returns. -/
theorem reorderZip_ok_shape (s s' : Cell) (mapping : List (List Nat))
    (hs : reorderZip s mapping = .ok s') :
    s' = { s with chemorder := (s.chemorder.zip mapping).map fun p => reorderList p.1 p.2 } ∧
    (∀ p ∈ s.chemorder.zip mapping, reorderOk p.1 p.2 = true) ∧ saneB s' = true := by
  rw [reorderZip_eq] at hs
  split at hs
  · cases hs
  rename_i hok
  split at hs
  · rename_i hsane
    cases hs
    refine ⟨rfl, ?_, hsane⟩
    simpa [List.all_eq_true] using hok
  · cases hs

/-- The unguarded `reorderZip` does not change the occupations, and every new species list is a
    permutation of the old one PROVIDED there is at least one map per species — although the source
    only runs `__sane__`, which does not look for duplicates (pigeonhole: a same-length list drawn
    from a duplicate-free list that still covers it). -/
theorem reorderZip_perm (s s' : Cell) (mapping : List (List Nat)) (h : Inv s)
    (hlen : s.nchem ≤ mapping.length) (hs : reorderZip s mapping = .ok s') :
    s'.occ = s.occ ∧ s'.nchem = s.nchem ∧ s'.chemorder.length = s.chemorder.length ∧
    ∀ c, (s'.chemorder.getD c []).Perm (s.chemorder.getD c []) := by
  obtain ⟨hshape, hok, hsane⟩ := reorderZip_ok_shape s s' mapping hs
  have hl := h.len
  have hlen' : s'.chemorder.length = s.chemorder.length := by
    rw [hshape]; simp only [List.length_map, List.length_zip]; omega
  have hocc : s'.occ = s.occ := by rw [hshape]
  refine ⟨hocc, by rw [hshape], hlen', ?_⟩
  -- the c-th new list
  have hget : ∀ c, c < s.chemorder.length →
      s'.chemorder.getD c [] = reorderList (s.chemorder.getD c []) (mapping.getD c []) ∧
      reorderOk (s.chemorder.getD c []) (mapping.getD c []) = true := by
    intro c hc
    have hc2 : c < mapping.length := by omega
    have hcz : c < (s.chemorder.zip mapping).length := by simp only [List.length_zip]; omega
    constructor
    · rw [getD_of_lt _ _ _ (by rw [hlen']; exact hc)]
      simp only [hshape, List.getElem_map, List.getElem_zip, getD_of_lt _ _ _ hc,
        getD_of_lt _ _ _ hc2]
    · have := hok _ (List.getElem_mem hcz)
      simpa only [List.getElem_zip, getD_of_lt _ _ _ hc, getD_of_lt _ _ _ hc2] using this
  have hsub : ∀ c, c < s.chemorder.length → s'.chemorder.getD c [] ⊆ s.chemorder.getD c [] := by
    intro c hc
    rw [(hget c hc).1]
    exact reorderList_subset _ _ (hget c hc).2
  rw [saneB_iff] at hsane
  intro c
  by_cases hc : c < s.chemorder.length
  · have hsup : s.chemorder.getD c [] ⊆ s'.chemorder.getD c [] := by
      intro x hx
      have hx1 := (h.mem c x (by omega)).1 hx
      have hxn : x < s.occ.length := by
        by_contra hcon
        have hn : s.occ[x]? = none := by simp; omega
        rw [hn] at hx1; cases hx1
      rcases hsane.2 x (by rw [hocc]; exact hxn) with hf | hf
      · rw [mem_flatten_iff_getD] at hf
        obtain ⟨d, hd, hxd⟩ := hf
        rw [hlen'] at hd
        have := (h.mem d x (by omega)).1 (hsub d hd hxd)
        rw [hx1] at this
        have : c = d := by simpa using this
        subst this; exact hxd
      · rw [hocc, hx1] at hf
        simp at hf
    have hle : (s'.chemorder.getD c []).length ≤ (s.chemorder.getD c []).length := by
      rw [(hget c hc).1, reorderList_length]
    exact ((List.subperm_of_subset (h.nodup c) hsup).perm_of_length_le hle).symm
  · have e1 : s.chemorder.getD c [] = [] := by
      have : s.chemorder[c]? = none := by simp; omega
      simp [List.getD_eq_getElem?_getD, this]
    have e2 : s'.chemorder.getD c [] = [] := by
      have : s'.chemorder[c]? = none := by simp; omega
      simp [List.getD_eq_getElem?_getD, this]
    rw [e1, e2]

/-- The guard: a successful `reorder` had exactly one map per species and is `reorderZip`. -/
theorem reorder_ok (s s' : Cell) (mapping : List (List Nat)) (hs : reorder s mapping = .ok s') :
    mapping.length = s.chemorder.length ∧ reorderZip s mapping = .ok s' := by
  unfold reorder at hs
  split at hs
  · cases hs
  · rename_i hl
    exact ⟨by simpa using hl, hs⟩

/-- `reorder` rejects (ValueError) any mapping without exactly one map per species. -/
theorem reorder_rejects_length (s : Cell) (mapping : List (List Nat))
    (h : mapping.length ≠ s.chemorder.length) : reorder s mapping = .error .value := by
  simp [reorder, h]

/-- `reorder` does not change the occupations, and every new species list is a permutation of the
    old one: a mapping accepted by the length guard and `__sane__` is a proper permutation. -/
theorem reorder_perm (s s' : Cell) (mapping : List (List Nat)) (h : Inv s)
    (hs : reorder s mapping = .ok s') :
    s'.occ = s.occ ∧ s'.nchem = s.nchem ∧ s'.chemorder.length = s.chemorder.length ∧
    ∀ c, (s'.chemorder.getD c []).Perm (s.chemorder.getD c []) := by
  obtain ⟨hl, hz⟩ := reorder_ok s s' mapping hs
  exact reorderZip_perm s s' mapping h (by rw [hl, h.len]) hz

/-- `reorder` keeps a consistent cell consistent. -/
theorem reorder_inv (s s' : Cell) (mapping : List (List Nat)) (h : Inv s)
    (hs : reorder s mapping = .ok s') : Inv s' := by
  obtain ⟨hocc, hn, hl, hperm⟩ := reorder_perm s s' mapping h hs
  refine ⟨by rw [hl, hn, h.len], ?_, ?_, ?_⟩
  · intro c ind hc
    rw [(hperm c).mem_iff, hocc]
    exact h.mem c ind (by rw [← hn]; exact hc)
  · intro c
    exact (hperm c).nodup_iff.2 (h.nodup c)
  · intro v hv
    rw [hocc] at hv; rw [hn]
    exact h.range v hv

/-- A failing `reorder` leaves the store unchanged. -/
theorem reorder_rejects (st : Store) (k : Nat) (mp : List (List Nat)) (e : Err)
    (h : applyOp st (.reorder k mp) = .error e) : (step st (.reorder k mp)).1 = st := by
  simp [step, h]

/-- Why the guard is needed (finding F41): without it, the zip truncation silently drops empty
    trailing species lists and the result still passes `__sane__` — a consistent cell becomes
    inconsistent (one list per species is lost, that species can never be placed again). -/
theorem reorderZip_truncates : ∃ s s', Inv s ∧ reorderZip s [[1, 0]] = .ok s' ∧
    saneB s' = true ∧ ¬ Inv s' := by
  refine ⟨⟨2, [0, 0, -1], [[0, 1], []]⟩, ⟨2, [0, 0, -1], [[1, 0]]⟩,
    sane_inv' _ (by decide) (by decide) (by decide), by decide, by decide, ?_⟩
  intro h
  have := h.len
  simp at this

/-- … and the guarded `reorder` rejects that very call. -/
example : reorder ⟨2, [0, 0, -1], [[0, 1], []]⟩ [[1, 0]] = .error .value := by decide
/-- A mapping with too many maps is rejected as well. -/
example : reorder ⟨2, [0, 0, -1], [[0, 1], []]⟩ [[1, 0], [], []] = .error .value := by decide

/-- Non-vacuity: a genuine reorder is accepted, a map with a repeated entry is rejected by
    `__sane__` (value error), an out-of-range entry by the index guard. -/
example : reorder ⟨2, [0, 1, -1, 0], [[3, 0], [1]]⟩ [[1, 0], [0]]
    = .ok ⟨2, [0, 1, -1, 0], [[0, 3], [1]]⟩ := by decide
example : reorder ⟨2, [0, 1, -1, 0], [[3, 0], [1]]⟩ [[0, 0], [0]] = .error .value := by decide
example : reorder ⟨2, [0, 1, -1, 0], [[3, 0], [1]]⟩ [[0, 2], [0]] = .error .index := by decide

/-! ### POSCAR round trip -/

theorem setocc_occ (s s' : Cell) (ind : Nat) (c : Int) (hs : setocc s ind c = .ok s') :
    s'.occ = s.occ.set ind c := by
  unfold setocc setoccG at hs
  split at hs
  · cases hs
  split at hs
  · cases hs
  rename_i corig hocc
  split at hs
  · rename_i heq
    cases hs
    subst heq
    apply List.ext_getElem? 
    intro j
    rw [List.getElem?_set]
    split
    · rename_i hj; subst hj
      split
      · exact hocc
      · rename_i hlt
        simp at hlt
        simp [hlt]
    · rfl
  split at hs
  · cases hs
  cases hs
  rfl

theorem setoccMany_occ (l : List (Nat × Int)) (s s' : Cell) (hs : setoccMany s l = .ok s') :
    s'.occ = foldSet Prod.fst Prod.snd l s.occ := by
  induction l generalizing s with
  | nil => simp [setoccMany] at hs; cases hs; rfl
  | cons x xs ih =>
    obtain ⟨i, c⟩ := x
    simp only [setoccMany, bind, Except.bind] at hs
    split at hs
    · cases hs
    rename_i s1 h1
    rw [ih s1 hs, setocc_occ s s1 i c h1]
    rfl

theorem setoccMany_ok_of_declared (l : List (Nat × Int)) (s : Cell) (h : Inv s)
    (hl : ∀ e ∈ l, e.1 < s.occ.length ∧ -1 ≤ e.2 ∧ e.2 < s.nchem) :
    ∃ s', setoccMany s l = .ok s' := by
  induction l generalizing s with
  | nil => exact ⟨s, rfl⟩
  | cons x xs ih =>
    obtain ⟨i, c⟩ := x
    obtain ⟨h1, h2, h3⟩ := hl (i, c) List.mem_cons_self
    obtain ⟨s1, hs1⟩ := setocc_ok_of_declared s i c h h1 h2 h3
    have hn := setocc_nchem s s1 i c hs1
    obtain ⟨s', hs'⟩ := ih s1 (setocc_inv s i c h s1 hs1) (by
      intro e he
      rw [hn.1, hn.2]
      exact hl e (List.mem_cons_of_mem _ he))
    exact ⟨s', by simp only [setoccMany, bind, Except.bind, hs1]; exact hs'⟩

theorem ext_getD {A B : List (List Nat)} (hl : A.length = B.length)
    (h : ∀ c, c < A.length → A.getD c [] = B.getD c []) : A = B := by
  apply List.ext_getElem hl
  intro c h1 h2
  have := h c h1
  rwa [getD_of_lt _ _ _ h1, getD_of_lt _ _ _ h2] at this

/-- Emptying every site of a consistent cell gives the empty cell. -/
theorem empty_phase (t : Cell) (h : Inv t) :
    setoccMany t ((List.range t.occ.length).map fun i => (i, (-1 : Int)))
      = .ok (Cell.empty t.nchem t.occ.length) := by
  obtain ⟨t0, ht0⟩ := setoccMany_ok_of_declared
    ((List.range t.occ.length).map fun i => (i, (-1 : Int))) t h (by
      intro e he
      simp only [List.mem_map, List.mem_range] at he
      obtain ⟨i, hi, rfl⟩ := he
      have := h.len
      exact ⟨hi, le_refl _, by simp only; omega⟩)
  rw [ht0]
  obtain ⟨hinv, hn, hlen⟩ := setoccMany_inv _ t t0 h ht0
  have hocc : t0.occ = List.replicate t.occ.length (-1) := by
    rw [setoccMany_occ _ t t0 ht0]
    apply List.ext_getElem?
    intro j
    by_cases hj : j < t.occ.length
    · have := foldSet_at Prod.fst Prod.snd ((List.range t.occ.length).map fun i => (i, (-1 : Int)))
        t.occ (by simp [Function.comp_def, List.nodup_range]) (j, -1) (by simp [hj]) hj
      simp only at this
      rw [this]; simp [hj]
    · have h1 : (foldSet Prod.fst Prod.snd ((List.range t.occ.length).map fun i => (i, (-1 : Int)))
          t.occ)[j]? = none := by simp [foldSet_length]; omega
      rw [h1]; simp; omega
  have hco : t0.chemorder = List.replicate t.nchem [] := by
    apply ext_getD (by rw [hinv.len, hn]; simp)
    intro c hc
    rw [hinv.len] at hc
    rw [getD_replicate_nil]
    apply List.eq_nil_iff_forall_not_mem.2
    intro x hx
    have := (hinv.mem c x hc).1 hx
    rw [hocc, List.getElem?_replicate] at this
    split at this
    · simp at this
    · cases this
  congr 1
  cases t0
  simp only [Cell.empty] at *
  subst hn; subst hocc; subst hco
  rfl

/-- `setocc` on a vacant site: append to the species list. -/
theorem setocc_vacant (s : Cell) (ind : Nat) (c : Int) (hv : s.occ[ind]? = some (-1))
    (h0 : 0 ≤ c) (h1 : c < s.nchem) :
    setocc s ind c = .ok { s with occ := s.occ.set ind c,
                                  chemorder := s.chemorder.modify c.toNat (· ++ [ind]) } := by
  unfold setocc setoccG
  have hg : ¬ (c < -1 ∨ c > (s.nchem : Int) - 1) := by omega
  simp only [hg, if_false, hv]
  have : ¬ ((-1 : Int) = c) := by omega
  simp [this, h0]

/-- Occupying distinct vacant sites only appends: each species list grows by exactly the sites
    given to that species, in the order given. -/
theorem setoccMany_vacant (E : List (Nat × Int)) (u : Cell) (hnd : (E.map Prod.fst).Nodup)
    (hE : ∀ e ∈ E, u.occ[e.1]? = some (-1) ∧ 0 ≤ e.2 ∧ e.2 < u.nchem) :
    ∃ u', setoccMany u E = .ok u' ∧ u'.nchem = u.nchem ∧
      u'.chemorder.length = u.chemorder.length ∧
      ∀ c, c < u.chemorder.length → u'.chemorder.getD c [] =
        u.chemorder.getD c [] ++ (E.filter fun e => e.2 = (c : Int)).map Prod.fst := by
  induction E generalizing u with
  | nil => exact ⟨u, rfl, rfl, rfl, by simp⟩
  | cons x E ih =>
    obtain ⟨i, v⟩ := x
    simp only [List.map_cons, List.nodup_cons] at hnd
    obtain ⟨hv, h0, h1⟩ := hE (i, v) List.mem_cons_self
    have hs1 := setocc_vacant u i v hv h0 h1
    obtain ⟨u', hu', hn, hl, hco⟩ := ih
      ⟨u.nchem, u.occ.set i v, u.chemorder.modify v.toNat (· ++ [i])⟩ hnd.2 (by
      intro e he
      have hne : i ≠ e.1 := by
        intro heq; exact hnd.1 (List.mem_map.2 ⟨e, he, heq.symm⟩)
      obtain ⟨a, b, c⟩ := hE e (List.mem_cons_of_mem _ he)
      refine ⟨?_, b, c⟩
      show (u.occ.set i v)[e.1]? = some (-1)
      rw [List.getElem?_set_ne hne]
      exact a)
    refine ⟨u', ?_, hn, ?_, ?_⟩
    · simp only [setoccMany, bind, Except.bind, hs1]; exact hu'
    · rw [hl]; simp [List.length_modify]
    · intro c hc
      rw [hco c (by simpa [List.length_modify] using hc)]
      simp only [getD_modify, hc, and_true, List.filter_cons]
      by_cases hvc : v = (c : Int)
      · have : v.toNat = c := by omega
        simp [hvc]
      · have : ¬ v.toNat = c := by omega
        simp [hvc, this]

/-- The `(site, species)` stream of `POSCAR_occ`, species numbered from `a`. -/
def entriesFrom (a : Nat) (p : List (List Nat)) : List (Nat × Int) :=
  (List.zip (List.range' a p.length) p).flatMap fun (c, l) => l.map fun i => (i, (c : Int))

theorem entriesFrom_nil (a : Nat) : entriesFrom a [] = [] := rfl

theorem entriesFrom_cons (a : Nat) (l : List Nat) (p : List (List Nat)) :
    entriesFrom a (l :: p) = (l.map fun i => (i, (a : Int))) ++ entriesFrom (a + 1) p := by
  simp [entriesFrom, List.range'_succ]

theorem entriesFrom_fst (a : Nat) (p : List (List Nat)) :
    (entriesFrom a p).map Prod.fst = p.flatten := by
  induction p generalizing a with
  | nil => rfl
  | cons l p ih =>
    rw [entriesFrom_cons, List.map_append, ih, List.flatten_cons]
    simp [Function.comp_def]

theorem entriesFrom_snd (a : Nat) (p : List (List Nat)) :
    ∀ e ∈ entriesFrom a p, (a : Int) ≤ e.2 ∧ e.2 < (a + p.length : Nat) := by
  induction p generalizing a with
  | nil => intro e he; cases he
  | cons l p ih =>
    intro e he
    rw [entriesFrom_cons, List.mem_append] at he
    rcases he with he | he
    · simp only [List.mem_map] at he
      obtain ⟨i, _, rfl⟩ := he
      simp only [List.length_cons]; omega
    · have := ih (a + 1) e he
      simp only [List.length_cons]; omega

theorem entriesFrom_filter (a c : Nat) (p : List (List Nat)) :
    ((entriesFrom a p).filter fun e => e.2 = (c : Int)).map Prod.fst =
      if a ≤ c then p.getD (c - a) [] else [] := by
  induction p generalizing a with
  | nil => simp [entriesFrom_nil]
  | cons l p ih =>
    rw [entriesFrom_cons, List.filter_append, List.map_append, ih (a + 1), List.filter_map]
    by_cases hac : a = c
    · subst hac
      simp [Function.comp_def]
    · have h1 : ¬ ((a : Int) = (c : Int)) := by omega
      simp only [Function.comp_def, h1, decide_false, List.filter_false, List.map_nil,
        List.nil_append]
      by_cases hle : a ≤ c
      · have h2 : a + 1 ≤ c := by omega
        have h3 : c - a = (c - (a + 1)) + 1 := by omega
        simp only [h2, hle, if_true]
        rw [h3, List.getD_cons_succ]
      · have h2 : ¬ a + 1 ≤ c := by omega
        simp [h2, hle]

theorem poscarOcc_eq (t : Cell) (p : List (List Nat)) :
    poscarOcc t p = (setoccMany t ((List.range t.occ.length).map fun i => (i, (-1 : Int)))).bind
      fun s0 => setoccMany s0 (entriesFrom 0 p) := by
  simp only [poscarOcc, entriesFrom, List.range_eq_range']
  rfl

theorem inv_flatten_nodup (s : Cell) (h : Inv s) : s.chemorder.flatten.Nodup := by
  rw [List.nodup_flatten]
  constructor
  · intro l hl
    obtain ⟨c, hc, rfl⟩ := List.getElem_of_mem hl
    have := h.nodup c
    rwa [getD_of_lt _ _ _ hc] at this
  · rw [List.pairwise_iff_getElem]
    intro i j hi hj hij x hxi hxj
    have hl := h.len
    have h1 := (h.mem i x (by omega)).1 (by rw [getD_of_lt _ _ _ hi]; exact hxi)
    have h2 := (h.mem j x (by omega)).1 (by rw [getD_of_lt _ _ _ hj]; exact hxj)
    rw [h1] at h2
    have : (i : Int) = j := by simpa using h2
    omega

/-- POSCAR followed by POSCAR_occ (into any consistent cell of the same shape) reproduces the
    occupation AND the presentation order: the result is the original cell. -/
theorem poscar_roundtrip (s t : Cell) (hs : Inv s) (ht : Inv t) (hn : t.nchem = s.nchem)
    (hl : t.occ.length = s.occ.length) : poscarOcc t (poscar s) = .ok s := by
  rw [poscarOcc_eq, empty_phase t ht, hn, hl]
  simp only [Except.bind, poscar]
  have hfl := inv_flatten_nodup s hs
  have hlen := hs.len
  have hsite : ∀ x ∈ s.chemorder.flatten, x < s.occ.length := by
    intro x hx
    rw [mem_flatten_iff_getD] at hx
    obtain ⟨c, hc, hxc⟩ := hx
    have := (hs.mem c x (by omega)).1 hxc
    by_contra hcon
    have hnone : s.occ[x]? = none := by simp; omega
    rw [hnone] at this; cases this
  obtain ⟨u', hu', hun, hul, hco⟩ := setoccMany_vacant (entriesFrom 0 s.chemorder)
    (Cell.empty s.nchem s.occ.length) (by rw [entriesFrom_fst]; exact hfl) (by
      intro e he
      have h1 := entriesFrom_snd 0 s.chemorder e he
      have h2 : e.1 ∈ s.chemorder.flatten := by
        rw [← entriesFrom_fst 0]; exact List.mem_map.2 ⟨e, he, rfl⟩
      refine ⟨?_, by omega, ?_⟩
      · simp only [Cell.empty, List.getElem?_replicate, hsite _ h2, if_true]
      · simp only [Cell.empty]; omega)
  rw [hu']
  congr 1
  have hocc : u'.occ = s.occ := by
    rw [setoccMany_occ _ _ u' hu']
    simp only [Cell.empty]
    apply List.ext_getElem?
    intro j
    by_cases hj : j < s.occ.length
    · have hr := hs.range _ (List.getElem_mem hj)
      by_cases hv : s.occ[j] = -1
      · rw [foldSet_outside]
        · rw [List.getElem?_replicate, List.getElem?_eq_getElem hj, hv]; simp [hj]
        · intro e he heq
          have h2 : e.1 ∈ s.chemorder.flatten := by
            rw [← entriesFrom_fst 0]; exact List.mem_map.2 ⟨e, he, rfl⟩
          rw [mem_flatten_iff_getD] at h2
          obtain ⟨c, hc, hxc⟩ := h2
          have := (hs.mem c _ (by omega)).1 hxc
          rw [heq, List.getElem?_eq_getElem hj, hv] at this
          simp at this
      · -- j is listed under its species: the entry (j, occ[j]) is in the stream
        have hlt : (s.occ[j]).toNat < s.nchem := by omega
        have hmem : j ∈ s.chemorder.getD (s.occ[j]).toNat [] := by
          rw [hs.mem _ j hlt, List.getElem?_eq_getElem hj]; congr 1; omega
        have hin : (j, s.occ[j]) ∈ entriesFrom 0 s.chemorder := by
          have hf := entriesFrom_filter 0 (s.occ[j]).toNat s.chemorder
          simp only [Nat.zero_le, if_true, Nat.sub_zero] at hf
          rw [← hf] at hmem
          obtain ⟨e, he, rfl⟩ := List.mem_map.1 hmem
          rw [List.mem_filter] at he
          have h2 : e.2 = s.occ[e.1] := by
            have := he.2; simp only [decide_eq_true_eq] at this; omega
          have : e = (e.1, s.occ[e.1]) := by rw [← h2]
          rw [← this]; exact he.1
        have := foldSet_at Prod.fst Prod.snd (entriesFrom 0 s.chemorder)
          (List.replicate s.occ.length (-1)) (by rw [entriesFrom_fst]; exact hfl) _ hin
          (by simpa using hj)
        simp only at this
        rw [this, List.getElem?_eq_getElem hj]
    · have h1 : s.occ[j]? = none := by simp; omega
      rw [h1]; simp [foldSet_length]; omega
  have hch : u'.chemorder = s.chemorder := by
    apply ext_getD
    · rw [hul]; simp [Cell.empty, hlen]
    · intro c hc
      have hc' : c < (Cell.empty s.nchem s.occ.length).chemorder.length := by
        rw [← hul]; exact hc
      rw [hco c hc', entriesFrom_filter]
      simp only [Cell.empty, getD_replicate_nil, Nat.zero_le, if_true, Nat.sub_zero,
        List.nil_append]
  cases u'
  simp only at hun hocc hch
  simp only [Cell.empty] at hun
  subst hun; subst hocc; subst hch
  rfl

/-- Non-vacuity: reading the POSCAR of one cell into a differently occupied cell. -/
example : Inv ⟨2, [0, 1, -1, 0], [[3, 0], [1]]⟩ ∧ Inv ⟨2, [1, 1, 0, -1], [[2], [1, 0]]⟩ ∧
    poscarOcc ⟨2, [1, 1, 0, -1], [[2], [1, 0]]⟩ (poscar ⟨2, [0, 1, -1, 0], [[3, 0], [1]]⟩)
      = .ok ⟨2, [0, 1, -1, 0], [[3, 0], [1]]⟩ :=
  ⟨sane_inv' _ (by decide) (by decide) (by decide),
   sane_inv' _ (by decide) (by decide) (by decide), by decide⟩

/-! ### The whole op language -/

/-- Every cell of the store is consistent, with `k` species and `n` sites. -/
def StoreInv (k n : Nat) (st : Store) : Prop :=
  ∀ s ∈ st, Inv s ∧ s.nchem = k ∧ s.occ.length = n

/-- Well-formed op for cells with `n` sites: group operations carry a permutation of the sites.
    Everything else is unrestricted (bad slots, sites, species, reorder maps, POSCAR content are all
    rejected or harmless). -/
def Op.WF (n : Nat) : Op → Prop
  | .imul _ m => IsPerm m n
  | .mul _ _ m => IsPerm m n
  | _ => True

instance (n : Nat) (op : Op) : Decidable (op.WF n) := by
  cases op <;> simp only [Op.WF] <;> infer_instance

theorem lookup_ok (st : Store) (a : Nat) (s : Cell)
    (h : (st[a]?).elim (Except.error Err.index) Except.ok = .ok s) : s ∈ st := by
  cases hg : st[a]? with
  | none => rw [hg] at h; cases h
  | some x =>
    rw [hg] at h
    have : x = s := by simpa [Option.elim] using h
    subst this
    exact List.mem_of_getElem? hg

theorem storeInv_set {k n : Nat} {st : Store} (h : StoreInv k n st) (i : Nat) (s : Cell)
    (hs : Inv s ∧ s.nchem = k ∧ s.occ.length = n) : StoreInv k n (st.set i s) := by
  intro x hx
  rcases List.mem_or_eq_of_mem_set hx with h1 | h1
  · exact h x h1
  · subst h1; exact hs

theorem applyOp_inv (k n : Nat) (st st' : Store) (op : Op) (h : StoreInv k n st)
    (hw : op.WF n) (hs : applyOp st op = .ok st') : StoreInv k n st' := by
  cases op with
  | setocc a i c =>
    simp only [applyOp, bind, Except.bind, pure, Except.pure] at hs
    split at hs
    · cases hs
    rename_i s hl
    split at hs
    · cases hs
    rename_i s1 h1
    cases hs
    obtain ⟨hi, hn, hlen⟩ := h s (lookup_ok st a s hl)
    have := setocc_nchem s s1 i c h1
    exact storeInv_set h a s1 ⟨setocc_inv s i c hi s1 h1, by omega, by omega⟩
  | fill a c idxs =>
    simp only [applyOp, bind, Except.bind, pure, Except.pure] at hs
    split at hs
    · cases hs
    rename_i s hl
    split at hs
    · cases hs
    rename_i s1 h1
    cases hs
    obtain ⟨hi, hn, hlen⟩ := h s (lookup_ok st a s hl)
    have := setoccMany_inv _ s s1 hi h1
    exact storeInv_set h a s1 ⟨this.1, by omega, by omega⟩
  | imul a m =>
    simp only [applyOp, bind, Except.bind, pure, Except.pure] at hs
    split at hs
    · cases hs
    rename_i s hl
    cases hs
    obtain ⟨hi, hn, hlen⟩ := h s (lookup_ok st a s hl)
    have hw' : IsPerm m s.occ.length := by rw [hlen]; exact hw
    exact storeInv_set h a _ ⟨imul_inv s m hw' hi, by rw [imul_nchem]; exact hn,
      by rw [imul_occ_length]; exact hlen⟩
  | mul a b m =>
    simp only [applyOp, bind, Except.bind, pure, Except.pure] at hs
    split at hs
    · cases hs
    rename_i s hl
    cases hs
    obtain ⟨hi, hn, hlen⟩ := h s (lookup_ok st a s hl)
    have hw' : IsPerm m s.occ.length := by rw [hlen]; exact hw
    exact storeInv_set h b _ ⟨imul_inv s m hw' hi, by rw [imul_nchem]; exact hn,
      by rw [imul_occ_length]; exact hlen⟩
  | reorder a mp =>
    simp only [applyOp, bind, Except.bind, pure, Except.pure] at hs
    split at hs
    · cases hs
    rename_i s hl
    split at hs
    · cases hs
    rename_i s1 h1
    cases hs
    obtain ⟨hi, hn, hlen⟩ := h s (lookup_ok st a s hl)
    have hp := reorder_perm s s1 mp hi h1
    exact storeInv_set h a s1 ⟨reorder_inv s s1 mp hi h1, by rw [hp.2.1]; exact hn,
      by rw [hp.1]; exact hlen⟩
  | copy a b =>
    simp only [applyOp, bind, Except.bind, pure, Except.pure] at hs
    split at hs
    · cases hs
    rename_i s hl
    cases hs
    exact storeInv_set h b s (h s (lookup_ok st a s hl))
  | poscar a b =>
    simp only [applyOp, bind, Except.bind, pure, Except.pure] at hs
    split at hs
    · cases hs
    rename_i s hl
    split at hs
    · cases hs
    rename_i t hlt
    split at hs
    · cases hs
    rename_i t1 h1
    cases hs
    obtain ⟨hi, hn, hlen⟩ := h t (lookup_ok st b t hlt)
    simp only [poscarOcc, bind, Except.bind] at h1
    split at h1
    · cases h1
    rename_i t0 h0
    have r0 := setoccMany_inv _ t t0 hi h0
    have r1 := setoccMany_inv _ t0 t1 r0.1 h1
    exact storeInv_set h b t1 ⟨r1.1, by omega, by omega⟩

theorem step_inv (k n : Nat) (st : Store) (op : Op) (h : StoreInv k n st) (hw : op.WF n) :
    StoreInv k n (step st op).1 := by
  unfold step
  split
  · rename_i st' hs; exact applyOp_inv k n st st' op h hw hs
  · exact h

/-- Any history of well-formed ops from any consistent store stays consistent. -/
theorem run_inv (k n : Nat) (ops : List Op) (st : Store) (h : StoreInv k n st)
    (hw : ∀ op ∈ ops, op.WF n) : StoreInv k n (run st ops) := by
  induction ops generalizing st with
  | nil => exact h
  | cons op ops ih =>
    simp only [run, List.foldl_cons]
    exact ih _ (step_inv k n st op h (hw op List.mem_cons_self))
      (fun o ho => hw o (List.mem_cons_of_mem _ ho))

theorem init_storeInv (m k n : Nat) : StoreInv k n (List.replicate m (Cell.empty k n)) := by
  intro s hs
  obtain ⟨_, rfl⟩ := List.mem_replicate.1 hs
  exact ⟨empty_inv k n, rfl, by simp [Cell.empty]⟩

/-- Every cell of every store reachable from the initial store passes the source's `__sane__`. -/
theorem reachable_sane (m k n : Nat) (ops : List Op) (hw : ∀ op ∈ ops, op.WF n) :
    ∀ s ∈ run (List.replicate m (Cell.empty k n)) ops, saneB s = true := by
  intro s hs
  exact inv_sane s (run_inv k n ops _ (init_storeInv m k n) hw s hs).1

/-- Non-vacuity: a history using every op kind (including rejected ones) is well-formed, and
    really changes the store. -/
def exampleOps : List Op :=
  [.setocc 0 0 0, .setocc 0 3 0, .setocc 0 1 1, .setocc 0 2 5, .fill 1 1 [0, 1], .imul 0 [1, 2, 3, 0],
   .mul 0 1 [3, 2, 1, 0], .reorder 0 [[1, 0], [0]], .reorder 0 [[0, 0], [0]], .reorder 0 [[1, 0]], .copy 1 2, .poscar 0 2,
   .setocc 7 0 0]

example : ∀ op ∈ exampleOps, op.WF 4 := by decide
example : run (List.replicate 3 (Cell.empty 2 4)) exampleOps
    = [⟨2, [0, 0, 1, -1], [[0, 1], [2]]⟩, ⟨2, [-1, 1, 0, 0], [[2, 3], [1]]⟩,
       ⟨2, [0, 0, 1, -1], [[0, 1], [2]]⟩] := by decide

end Onsager.C28
