/-
  C23 — coordinate conversions and symmetry actions are mutually consistent.
  Theorems about the model in OnsagerModel/C23.lean, for every dimension `d`, every crystal,
  every operation and every position (no sampling).

  conversions   `unit2cart_cart2unit`, `cart2unit_unit2cart_general`, `cart2unit_unit2cart`,
                `cart2unit_roundtrip_iff` (the exact set of unit coordinates that round-trip),
                `fuzz_boundary`, `cart2pos_pos2cart`
  actions       `gPos_cart_general`, `gPos_cart`, `gVect_cart`, `gCart_sub`, `gDirec_add`,
                `gTensor_outer`, `pairState_g_sane`, `clusterSite_g_eq_gPos`
  group         `gCart_mul`, `gDirec_mul`, `gTensor_mul`, `gVect_mul`, `gPos_mul`,
                `qInv_mul`, `inv_rot`, `inv_crot`, `gCart_inv`, `gPos_inv`, `invertMap_spec`,
                `exists_int_inverse2/3` (det ±1 discharges the integer-inverse hypothesis)
-/
import OnsagerModel.C23
import Mathlib.Algebra.BigOperators.Fin
import Mathlib.Algebra.BigOperators.Ring.Finset
import Mathlib.Algebra.Order.Floor.Ring
import Mathlib.Data.Rat.Floor
import Mathlib.Tactic.Ring
import Mathlib.Tactic.Linarith
import Mathlib.Tactic.FieldSimp
import Mathlib.Tactic.FinCases
import Mathlib.Data.List.Nodup

namespace Onsager.C23
variable {d : Nat}

/-! ### bridge to Finset sums, matrix algebra -/

theorem sumFin_eq {α} [AddCommMonoid α] (f : Fin d → α) : sumFin f = ∑ i, f i := by
  unfold sumFin
  rw [Fin.sum_univ_def]

theorem qMulVec_apply (A : QMat d) (x : QVec d) (i : Fin d) : qMulVec A x i = ∑ k, A i k * x k := by
  simp [qMulVec, sumFin_eq]

theorem iMulVec_apply (A : IMat d) (x : IVec d) (i : Fin d) : iMulVec A x i = ∑ k, A i k * x k := by
  simp [iMulVec, sumFin_eq]

theorem qMul_apply (A B : QMat d) (i j : Fin d) : qMul A B i j = ∑ k, A i k * B k j := by
  simp [qMul, sumFin_eq]

theorem iMul_apply (A B : IMat d) (i j : Fin d) : iMul A B i j = ∑ k, A i k * B k j := by
  simp [iMul, sumFin_eq]

theorem toQ_iMulVec (A : IMat d) (x : IVec d) : toQ (iMulVec A x) = qMulVec (toQM A) (toQ x) := by
  funext i; simp [toQ, toQM, iMulVec_apply, qMulVec_apply]

theorem toQM_iMul (A B : IMat d) : toQM (iMul A B) = qMul (toQM A) (toQM B) := by
  funext i j; simp [toQM, iMul_apply, qMul_apply]

theorem qMulVec_qMulVec (A B : QMat d) (x : QVec d) :
    qMulVec A (qMulVec B x) = qMulVec (qMul A B) x := by
  funext i
  simp only [qMulVec_apply, qMul_apply, Finset.mul_sum, Finset.sum_mul]
  rw [Finset.sum_comm]
  refine Finset.sum_congr rfl fun l _ => Finset.sum_congr rfl fun k _ => ?_
  ring

theorem qMul_assoc (A B C : QMat d) : qMul (qMul A B) C = qMul A (qMul B C) := by
  funext i j
  simp only [qMul_apply, Finset.mul_sum, Finset.sum_mul]
  rw [Finset.sum_comm]
  refine Finset.sum_congr rfl fun l _ => Finset.sum_congr rfl fun k _ => ?_
  ring

theorem qMulVec_vAdd (A : QMat d) (x y : QVec d) :
    qMulVec A (vAdd x y) = vAdd (qMulVec A x) (qMulVec A y) := by
  funext i; simp [qMulVec_apply, vAdd, mul_add, Finset.sum_add_distrib]

theorem qMulVec_vSub (A : QMat d) (x y : QVec d) :
    qMulVec A (vSub x y) = vSub (qMulVec A x) (qMulVec A y) := by
  funext i; simp [qMulVec_apply, vSub, mul_sub, Finset.sum_sub_distrib]

theorem qMulVec_smul (A : QMat d) (a : ℚ) (x : QVec d) :
    qMulVec A (fun k => a * x k) = fun i => a * qMulVec A x i := by
  funext i; simp only [qMulVec_apply, Finset.mul_sum]
  exact Finset.sum_congr rfl fun k _ => by ring

theorem qMulVec_one (x : QVec d) : qMulVec qOne x = x := by
  funext i; simp [qMulVec_apply, qOne]

theorem qTr_qMul (A B : QMat d) : qTr (qMul A B) = qMul (qTr B) (qTr A) := by
  funext i j; simp only [qTr, qMul_apply]; exact Finset.sum_congr rfl fun k _ => by ring

/-! ### floor / round / trunc on exact numbers -/

theorem floor_le' (q : ℚ) : (q.floor : ℚ) ≤ q := Int.floor_le q
theorem lt_floor_add_one' (q : ℚ) : q < (q.floor : ℚ) + 1 := Int.lt_floor_add_one q
theorem floor_eq_iff' (q : ℚ) (z : ℤ) : q.floor = z ↔ (z : ℚ) ≤ q ∧ q < z + 1 :=
  show ⌊q⌋ = z ↔ _ from Int.floor_eq_iff

theorem floor_int_add (n : ℤ) (q : ℚ) : ((n : ℚ) + q).floor = n + q.floor := by
  rw [floor_eq_iff']
  have h1 := floor_le' q
  have h2 := lt_floor_add_one' q
  push_cast
  constructor <;> linarith

theorem floor_sub_int (q : ℚ) (n : ℤ) : (q - (n : ℚ)).floor = q.floor - n := by
  rw [floor_eq_iff']
  have h1 := floor_le' q
  have h2 := lt_floor_add_one' q
  push_cast
  constructor <;> linarith

theorem roundHE_int (n : ℤ) : roundHE (n : ℚ) = n := by
  simp [roundHE, Rat.floor_intCast]

/-- `np.round` returns a nearest integer. -/
theorem roundHE_spec (q : ℚ) : |q - (roundHE q : ℚ)| ≤ 1/2 := by
  have h1 := floor_le' q
  have h2 := lt_floor_add_one' q
  simp only [roundHE]
  rw [abs_le]
  split_ifs <;> (push_cast; constructor <;> linarith)

theorem truncZ_int (n : ℤ) : truncZ (n : ℚ) = n := by
  unfold truncZ
  split
  · exact Rat.floor_intCast n
  · have : (-(n:ℚ)) = ((-n : ℤ) : ℚ) := by push_cast; ring
    rw [this, Rat.floor_intCast]; ring

/-! ### conversions -/

theorem cart2unit_fst (eps : ℚ) (x : QVec d) (k : Fin d) :
    (cart2unit eps x).1 k = (x k + eps).floor := by
  simp only [cart2unit, incell]
  have : x k - (x k - ((x k + eps).floor : ℚ)) = (((x k + eps).floor : ℤ) : ℚ) := by ring
  rw [this, truncZ_int]

theorem cart2unit_snd (eps : ℚ) (x : QVec d) (k : Fin d) :
    (cart2unit eps x).2 k = x k - ((x k + eps).floor : ℚ) := rfl

/-- `unit2cart ∘ cart2unit` is the identity on every position (any fuzz). -/
theorem unit2cart_cart2unit (eps : ℚ) (x : QVec d) :
    unit2cart (cart2unit eps x).1 (cart2unit eps x).2 = x := by
  funext k
  simp only [unit2cart, vAdd, toQ, cart2unit_fst, cart2unit_snd]
  ring

/-- the unit-cell part of `cart2unit` lies in `[-eps, 1-eps)` -/
theorem cart2unit_range (eps : ℚ) (x : QVec d) (k : Fin d) :
    -eps ≤ (cart2unit eps x).2 k ∧ (cart2unit eps x).2 k < 1 - eps := by
  rw [cart2unit_snd]
  have h1 := floor_le' (x k + eps)
  have h2 := lt_floor_add_one' (x k + eps)
  constructor <;> linarith

/-- what `cart2unit ∘ unit2cart` does to ANY `(R, u)`. -/
theorem cart2unit_unit2cart_general (eps : ℚ) (R : IVec d) (u : QVec d) :
    cart2unit eps (unit2cart R u) =
      (fun k => R k + (u k + eps).floor, fun k => u k - ((u k + eps).floor : ℚ)) := by
  have hf : ∀ k, (unit2cart R u k + eps).floor = R k + (u k + eps).floor := by
    intro k
    have : unit2cart R u k + eps = ((R k : ℤ) : ℚ) + (u k + eps) := by
      simp only [unit2cart, vAdd, toQ]; ring
    rw [this, floor_int_add]
  refine Prod.ext ?_ ?_
  · funext k; rw [cart2unit_fst, hf]
  · funext k; rw [cart2unit_snd, hf]; simp only [unit2cart, vAdd, toQ]; push_cast; ring

/-- round trip at one coordinate holds exactly for `u k ∈ [-eps, 1-eps)`. -/
theorem cart2unit_roundtrip_iff (eps : ℚ) (R : IVec d) (u : QVec d) (k : Fin d) :
    ((cart2unit eps (unit2cart R u)).1 k = R k ∧ (cart2unit eps (unit2cart R u)).2 k = u k)
      ↔ (-eps ≤ u k ∧ u k < 1 - eps) := by
  rw [cart2unit_unit2cart_general]
  simp only
  constructor
  · rintro ⟨h, _⟩
    have h0 : (u k + eps).floor = 0 := by omega
    rw [floor_eq_iff'] at h0
    push_cast at h0
    constructor <;> linarith [h0.1, h0.2]
  · rintro ⟨h1, h2⟩
    have h0 : (u k + eps).floor = 0 := by
      rw [floor_eq_iff']; push_cast; constructor <;> linarith
    rw [h0]; simp

/-- `cart2unit (unit2cart R u) = (R, u)` for unit coordinates in `[-eps, 1-eps)^d`. -/
theorem cart2unit_unit2cart (eps : ℚ) (R : IVec d) (u : QVec d)
    (hu : ∀ k, -eps ≤ u k ∧ u k < 1 - eps) :
    cart2unit eps (unit2cart R u) = (R, u) := by
  refine Prod.ext ?_ ?_ <;> funext k
  · exact ((cart2unit_roundtrip_iff eps R u k).2 (hu k)).1
  · exact ((cart2unit_roundtrip_iff eps R u k).2 (hu k)).2

/-- the excluded strip: a unit coordinate in `[1-eps, 1)` is moved to the next cell. -/
theorem fuzz_boundary (eps : ℚ) (R : IVec d) (u : QVec d) (k : Fin d)
    (he : eps ≤ 1) (h1 : 1 - eps ≤ u k) (h2 : u k < 1) :
    (cart2unit eps (unit2cart R u)).1 k = R k + 1 ∧
    (cart2unit eps (unit2cart R u)).2 k = u k - 1 := by
  rw [cart2unit_unit2cart_general]
  have h0 : (u k + eps).floor = 1 := by
    rw [floor_eq_iff']; push_cast; constructor <;> linarith
  simp only [h0]; simp

/-! ### symmetry actions -/

theorem toQ_iAdd (a b : IVec d) : toQ (iAdd a b) = vAdd (toQ a) (toQ b) := by
  funext k; simp [toQ, iAdd, vAdd]

theorem gPos_ok {cr : Crystal d} {g : GroupOp d} {R : IVec d} {c i : Nat} {r : IVec d × Nat × Nat}
    (h : gPos cr g R c i = .ok r) :
    ∃ u u', cr.pos? c i = some u ∧ g.imap? c i = some r.2.2 ∧ cr.pos? c r.2.2 = some u' ∧
      r.2.1 = c ∧ r.1 = gPosCore g R u u' := by
  unfold gPos at h
  split at h
  · rename_i i' u hi hu
    split at h
    · rename_i u' hu'
      injection h with h
      subst h
      exact ⟨u, u', hu, hi, hu', rfl, rfl⟩
    · cases h
  · cases h

theorem gPos_eq_ok {cr : Crystal d} {g : GroupOp d} (R : IVec d) {c i i' : Nat} {u u' : QVec d}
    (hu : cr.pos? c i = some u) (hi : g.imap? c i = some i') (hu' : cr.pos? c i' = some u') :
    gPos cr g R c i = .ok (gPosCore g R u u', c, i') := by
  unfold gPos
  simp [hu, hi, hu']

/-- the rounding residual of `g_pos` at one site -/
def resid (g : GroupOp d) (u u' : QVec d) (k : Fin d) : ℚ :=
  ((qMulVec (toQM g.rot) u) k + g.trans k - u' k) - (delu g u u' k : ℚ)

/-- `g_pos` against the affine map, for ANY operation: they differ by the rounding residual. -/
theorem gPosCore_cart_general (g : GroupOp d) (R : IVec d) (u u' : QVec d) (k : Fin d) :
    unit2cart (gPosCore g R u u') u' k =
      vAdd (qMulVec (toQM g.rot) (unit2cart R u)) g.trans k - resid g u u' k := by
  simp only [unit2cart, gPosCore, toQ_iAdd, toQ_iMulVec, qMulVec_vAdd, vAdd, resid]
  simp only [toQ]
  ring

theorem resid_zero_of_valid (g : GroupOp d) (u u' : QVec d) (hv : validAt g u u') (k : Fin d) :
    resid g u u' k = 0 := by
  obtain ⟨n, hn⟩ := hv k
  simp only [resid, delu, hn, roundHE_int]; ring

theorem resid_small (g : GroupOp d) (u u' : QVec d) (k : Fin d) : |resid g u u' k| ≤ 1/2 := by
  simp only [resid, delu]; exact roundHE_spec _

/-- `pos2cart (g_pos g R ci) = g_cart g (pos2cart R ci)` whenever the operation maps site `ci`
    onto site `g.indexmap ci` up to a lattice vector (i.e. it is an operation of the crystal) and its
    Cartesian rotation is the lattice rotation. -/
theorem gPos_cart {cr : Crystal d} {g : GroupOp d} {R : IVec d} {c i : Nat} {r : IVec d × Nat × Nat}
    {u u' : QVec d}
    (h : gPos cr g R c i = .ok r) (hu : cr.pos? c i = some u) (hu' : cr.pos? c r.2.2 = some u')
    (hv : validAt g u u') (hc : g.crot = toQM g.rot) :
    pos2cart cr r.1 r.2.1 r.2.2 = .ok (gCart g (unit2cart R u)) := by
  obtain ⟨u1, u1', h1, _, h3, h4, h5⟩ := gPos_ok h
  rw [hu] at h1; rw [hu'] at h3
  injection h1 with h1; injection h3 with h3
  subst h1; subst h3
  simp only [pos2cart, h4, hu']
  congr 1
  funext k
  rw [h5, gPosCore_cart_general, resid_zero_of_valid g u u' hv, gCart, hc]
  simp

/-- `unit2cart (g_vect g R u) = g_cart g (unit2cart R u)` for EVERY operation whose Cartesian
    rotation is the lattice rotation (no condition on the translation). -/
theorem gVect_cart (eps : ℚ) (g : GroupOp d) (R : IVec d) (u : QVec d) (hc : g.crot = toQM g.rot) :
    unit2cart (gVect eps g R u).1 (gVect eps g R u).2 = gCart g (unit2cart R u) := by
  funext k
  simp only [gVect, incell, unit2cart, toQ_iAdd, toQ_iMulVec, gCart, hc, qMulVec_vAdd, vAdd]
  have : ∀ q : ℚ, q - (q - ((q + eps).floor : ℚ)) = (((q + eps).floor : ℤ) : ℚ) := by intro q; ring
  simp only [toQ, this, roundHE_int]
  ring

/-- the unit-cell part returned by `g_vect` is in `[-eps, 1-eps)` -/
theorem gVect_range (eps : ℚ) (g : GroupOp d) (R : IVec d) (u : QVec d) (k : Fin d) :
    -eps ≤ (gVect eps g R u).2 k ∧ (gVect eps g R u).2 k < 1 - eps := by
  simp only [gVect, incell]
  set q := vAdd (qMulVec (toQM g.rot) u) g.trans k
  have h1 := floor_le' (q + eps)
  have h2 := lt_floor_add_one' (q + eps)
  constructor <;> linarith

/-- `g_direc` is the linear part of `g_cart`. -/
theorem gCart_sub (g : GroupOp d) (x y : QVec d) :
    vSub (gCart g x) (gCart g y) = gDirec g (vSub x y) := by
  funext k; simp only [gCart, gDirec, qMulVec_vSub, vSub, vAdd]; ring

theorem gDirec_add (g : GroupOp d) (x y : QVec d) :
    gDirec g (vAdd x y) = vAdd (gDirec g x) (gDirec g y) := qMulVec_vAdd _ _ _

theorem gDirec_smul (g : GroupOp d) (a : ℚ) (x : QVec d) :
    gDirec g (fun k => a * x k) = fun k => a * gDirec g x k := qMulVec_smul _ _ _

/-- `g_tensor` is conjugation: on a dyad it rotates both factors. -/
theorem gTensor_outer (g : GroupOp d) (a b : QVec d) :
    gTensor g (fun i j => a i * b j) = fun i j => gDirec g a i * gDirec g b j := by
  funext i j
  simp only [gTensor, gDirec, qMul_apply, qMulVec_apply, qTr, Finset.mul_sum, Finset.sum_mul]
  rw [Finset.sum_comm]
  refine Finset.sum_congr rfl fun l _ => Finset.sum_congr rfl fun k _ => ?_
  ring

theorem gTensor_add (g : GroupOp d) (S T : QMat d) :
    gTensor g (fun i j => S i j + T i j) = fun i j => gTensor g S i j + gTensor g T i j := by
  funext i j
  simp only [gTensor, qMul_apply, mul_add, add_mul, Finset.sum_add_distrib]

/-- a symmetric tensor stays symmetric -/
theorem gTensor_symm (g : GroupOp d) (T : QMat d) (hT : qTr T = T) : qTr (gTensor g T) = gTensor g T := by
  unfold gTensor
  rw [qTr_qMul, qTr_qMul, qMul_assoc, hT]
  rfl

/-! ### composition -/

/-- the affine map of an operation in lattice coordinates, `x ↦ rot·x + trans` -/
def affine (g : GroupOp d) (x : QVec d) : QVec d := vAdd (qMulVec (toQM g.rot) x) g.trans

theorem gCart_eq_affine (g : GroupOp d) (hc : g.crot = toQM g.rot) (x : QVec d) :
    gCart g x = affine g x := by simp [gCart, affine, hc]

theorem iMulVec_iMulVec (A B : IMat d) (x : IVec d) :
    iMulVec A (iMulVec B x) = iMulVec (iMul A B) x := by
  funext i
  simp only [iMulVec_apply, iMul_apply, Finset.mul_sum, Finset.sum_mul]
  rw [Finset.sum_comm]
  refine Finset.sum_congr rfl fun l _ => Finset.sum_congr rfl fun k _ => ?_
  ring

theorem iMulVec_iAdd (A : IMat d) (x y : IVec d) :
    iMulVec A (iAdd x y) = iAdd (iMulVec A x) (iMulVec A y) := by
  funext i; simp [iMulVec_apply, iAdd, mul_add, Finset.sum_add_distrib]

theorem toQ_injective {a b : IVec d} (h : toQ a = toQ b) : a = b := by
  funext k
  have := congrFun h k
  simpa [toQ] using this

theorem mul_ok {g h gh : GroupOp d} (hm : g.mul h = .ok gh) :
    gh.rot = iMul g.rot h.rot ∧ gh.trans = vAdd (qMulVec (toQM g.rot) h.trans) g.trans ∧
    gh.crot = qMul g.crot h.crot ∧ composeMaps g.imap h.imap = .ok gh.imap := by
  unfold GroupOp.mul at hm
  split at hm
  · rename_i m hm'
    injection hm with hm; subst hm
    exact ⟨rfl, rfl, rfl, hm'⟩
  · cases hm

theorem affine_mul {g h gh : GroupOp d} (hm : g.mul h = .ok gh) (x : QVec d) :
    affine gh x = affine g (affine h x) := by
  obtain ⟨h1, h2, _, _⟩ := mul_ok hm
  funext k
  simp only [affine, h1, h2, toQM_iMul, qMulVec_vAdd, qMulVec_qMulVec, vAdd]
  ring

/-- `(g*h)` acts on Cartesian positions as `g ∘ h`. -/
theorem gCart_mul {g h gh : GroupOp d} (hm : g.mul h = .ok gh)
    (hg : g.crot = toQM g.rot) (x : QVec d) :
    gCart gh x = gCart g (gCart h x) := by
  obtain ⟨_, h2, h3, _⟩ := mul_ok hm
  funext k
  simp only [gCart, h2, h3, qMulVec_vAdd, qMulVec_qMulVec, vAdd, hg]
  ring

/-- a product of operations whose Cartesian and lattice rotations agree has the same property -/
theorem mul_crot {g h gh : GroupOp d} (hm : g.mul h = .ok gh)
    (hg : g.crot = toQM g.rot) (hh : h.crot = toQM h.rot) : gh.crot = toQM gh.rot := by
  obtain ⟨h1, _, h3, _⟩ := mul_ok hm
  rw [h1, h3, toQM_iMul, hg, hh]

theorem gDirec_mul {g h gh : GroupOp d} (hm : g.mul h = .ok gh) (x : QVec d) :
    gDirec gh x = gDirec g (gDirec h x) := by
  obtain ⟨_, _, h3, _⟩ := mul_ok hm
  simp only [gDirec, h3, qMulVec_qMulVec]

theorem gTensor_mul {g h gh : GroupOp d} (hm : g.mul h = .ok gh) (T : QMat d) :
    gTensor gh T = gTensor g (gTensor h T) := by
  obtain ⟨_, _, h3, _⟩ := mul_ok hm
  simp only [gTensor, h3, qTr_qMul, qMul_assoc]

theorem gVect_fst (eps : ℚ) (g : GroupOp d) (R : IVec d) (u : QVec d) (k : Fin d) :
    (gVect eps g R u).1 k = iMulVec g.rot R k + (affine g u k + eps).floor := by
  simp only [gVect, incell, iAdd, affine]
  have : ∀ q : ℚ, q - (q - ((q + eps).floor : ℚ)) = (((q + eps).floor : ℤ) : ℚ) := by intro q; ring
  rw [this, roundHE_int]

theorem gVect_snd (eps : ℚ) (g : GroupOp d) (R : IVec d) (u : QVec d) (k : Fin d) :
    (gVect eps g R u).2 k = affine g u k - ((affine g u k + eps).floor : ℚ) := rfl

/-- `g_vect (g*h) = g_vect g ∘ g_vect h` for ALL operations and positions (in exact arithmetic). -/
theorem gVect_mul (eps : ℚ) {g h gh : GroupOp d} (hm : g.mul h = .ok gh) (R : IVec d) (u : QVec d) :
    gVect eps gh R u = gVect eps g (gVect eps h R u).1 (gVect eps h R u).2 := by
  obtain ⟨h1, _, _, _⟩ := mul_ok hm
  -- m = integer part taken out by the inner call
  let m : IVec d := fun k => (affine h u k + eps).floor
  have hu1 : (gVect eps h R u).2 = vSub (affine h u) (toQ m) := by
    funext k; rw [gVect_snd]; rfl
  have hR1 : (gVect eps h R u).1 = iAdd (iMulVec h.rot R) m := by
    funext k; rw [gVect_fst]; rfl
  have haff : ∀ k, affine g (vSub (affine h u) (toQ m)) k
      = affine gh u k - ((iMulVec g.rot m k : ℤ) : ℚ) := by
    intro k
    rw [affine_mul hm]
    have := congrFun (toQ_iMulVec g.rot m) k
    simp only [toQ] at this
    simp only [affine, qMulVec_vSub, vAdd, vSub, this]
    ring
  have hfl : ∀ k, (affine g (vSub (affine h u) (toQ m)) k + eps).floor
      = (affine gh u k + eps).floor - iMulVec g.rot m k := by
    intro k
    rw [haff k]
    have : affine gh u k - ((iMulVec g.rot m k : ℤ) : ℚ) + eps
        = (affine gh u k + eps) - ((iMulVec g.rot m k : ℤ) : ℚ) := by ring
    rw [this, floor_sub_int]
  refine Prod.ext ?_ ?_
  · funext k
    rw [gVect_fst, gVect_fst, hu1, hR1, hfl k, iMulVec_iAdd, h1, ← iMulVec_iMulVec]
    simp only [iAdd]
    ring
  · funext k
    rw [gVect_snd, gVect_snd, hu1, hfl k, haff k]
    push_cast
    ring

theorem validAt_iff (g : GroupOp d) (u u' : QVec d) :
    validAt g u u' ↔ ∃ n : IVec d, vSub (affine g u) u' = toQ n := by
  constructor
  · intro hv
    choose n hn using hv
    exact ⟨n, by funext k; simpa [vSub, affine, vAdd, toQ] using hn k⟩
  · rintro ⟨n, hn⟩ k
    exact ⟨n k, by simpa [vSub, affine, vAdd, toQ] using congrFun hn k⟩

/-- validity composes -/
theorem validAt_mul {g h gh : GroupOp d} (hm : g.mul h = .ok gh) {u u1 u2 : QVec d}
    (hh : validAt h u u1) (hg : validAt g u1 u2) : validAt gh u u2 := by
  rw [validAt_iff] at *
  obtain ⟨n, hn⟩ := hh
  obtain ⟨p, hp⟩ := hg
  refine ⟨iAdd (iMulVec g.rot n) p, ?_⟩
  funext k
  have e1 : affine h u = vAdd u1 (toQ n) := by
    funext k; have := congrFun hn k; simp only [vSub, vAdd] at *; linarith
  have e2 := congrFun hp k
  have e3 := congrFun (toQ_iMulVec g.rot n) k
  rw [affine_mul hm, e1]
  simp only [affine, qMulVec_vAdd, vAdd, vSub, toQ_iAdd] at *
  simp only [toQ] at *
  rw [e3]
  linarith

theorem composeMap_spec {l0 l1 l : List Nat} (h : composeMap l0 l1 = .ok l) (i i2 : Nat) :
    l[i]? = some i2 ↔ ∃ i1, l1[i]? = some i1 ∧ l0[i1]? = some i2 := by
  induction l1 generalizing l i with
  | nil =>
    simp [composeMap] at h
    cases h
    simp
  | cons a t ih =>
    simp only [composeMap, List.mapM_cons] at h
    cases ha : l0[a]? with
    | none => simp [ha] at h; cases h
    | some x =>
      simp only [ha] at h
      cases ht : composeMap l0 t with
      | error e =>
        simp only [composeMap] at ht
        rw [ht] at h
        cases h
      | ok r =>
        have ht' := ht
        simp only [composeMap] at ht'
        rw [ht'] at h
        injection h with h
        subst h
        cases i with
        | zero => simp [ha]
        | succ i => simpa using ih ht i

/-- lookup in an index map -/
def lookup2 (m : List (List Nat)) (c i : Nat) : Option Nat :=
  match m[c]? with
  | some l => l[i]?
  | none => none

theorem imap?_eq (g : GroupOp d) (c i : Nat) : g.imap? c i = lookup2 g.imap c i := rfl

theorem composeMaps_spec {m0 m1 m : List (List Nat)} (h : composeMaps m0 m1 = .ok m) (c i i2 : Nat) :
    lookup2 m c i = some i2 ↔ ∃ i1, lookup2 m1 c i = some i1 ∧ lookup2 m0 c i1 = some i2 := by
  induction m0 generalizing m1 m c with
  | nil =>
    simp only [composeMaps] at h
    cases h
    simp [lookup2]
  | cons l0 r0 ih =>
    cases m1 with
    | nil =>
      simp only [composeMaps] at h
      cases h
      simp [lookup2]
    | cons l1 r1 =>
      simp only [composeMaps] at h
      cases hx : composeMap l0 l1 with
      | error e => rw [hx] at h; cases h
      | ok x =>
        rw [hx] at h
        cases hr : composeMaps r0 r1 with
        | error e => rw [hr] at h; cases h
        | ok r =>
          rw [hr] at h
          injection h with h
          subst h
          cases c with
          | zero => simpa [lookup2] using composeMap_spec hx i i2
          | succ c => simpa [lookup2] using ih hr c

/-- `g_pos (g*h) = g_pos g ∘ g_pos h` on every site where `h` and then `g` act as crystal
    operations. -/
theorem gPos_mul {cr : Crystal d} {g h gh : GroupOp d} (hm : g.mul h = .ok gh)
    {R R1 R2 : IVec d} {c i i1 i2 : Nat} {u u1 u2 : QVec d}
    (h1 : gPos cr h R c i = .ok (R1, c, i1)) (h2 : gPos cr g R1 c i1 = .ok (R2, c, i2))
    (hu : cr.pos? c i = some u) (hu1 : cr.pos? c i1 = some u1) (hu2 : cr.pos? c i2 = some u2)
    (hvh : validAt h u u1) (hvg : validAt g u1 u2) :
    gPos cr gh R c i = .ok (R2, c, i2) := by
  obtain ⟨a, a', e1, e2, e3, _, e5⟩ := gPos_ok h1
  simp only at e2 e3 e5
  obtain ⟨b, b', f1, f2, f3, _, f5⟩ := gPos_ok h2
  simp only at f2 f3 f5
  rw [hu] at e1; injection e1 with e1; subst e1
  rw [hu1] at e3 f1; injection e3 with e3; injection f1 with f1; subst e3; subst f1
  rw [hu2] at f3; injection f3 with f3; subst f3
  have hi : gh.imap? c i = some i2 := by
    rw [imap?_eq, composeMaps_spec (mul_ok hm).2.2.2]
    exact ⟨i1, e2, f2⟩
  rw [gPos_eq_ok R hu hi hu2]
  congr 2
  apply toQ_injective
  funext k
  have hv := validAt_mul hm hvh hvg
  have A := gPosCore_cart_general gh R u u2 k
  rw [resid_zero_of_valid gh u u2 hv] at A
  have B := gPosCore_cart_general g R1 u1 u2 k
  rw [resid_zero_of_valid g u1 u2 hvg] at B
  have C : unit2cart R1 u1 = affine h (unit2cart R u) := by
    funext k
    have C := gPosCore_cart_general h R u u1 k
    rw [resid_zero_of_valid h u u1 hvh, ← e5] at C
    simpa [affine] using C
  rw [C] at B
  have D := congrFun (affine_mul hm (unit2cart R u)) k
  rw [← f5] at B
  rw [sub_zero] at A B
  have E : unit2cart (gPosCore gh R u u2) u2 k = unit2cart R2 u2 k := by
    rw [A, B]; exact D
  simp only [unit2cart, vAdd] at E
  linarith

/-! ### inversion -/


theorem adj2_mul (A : QMat 2) : qMul A (adj2 A) = (fun i j => if i = j then det2 A else 0) ∧
    qMul (adj2 A) A = (fun i j => if i = j then det2 A else 0) := by
  constructor <;> funext i j <;> fin_cases i <;> fin_cases j <;>
    simp [qMul_apply, Fin.sum_univ_two, adj2, det2] <;> ring

theorem adj3_mul (A : QMat 3) : qMul A (adj3 A) = (fun i j => if i = j then det3 A else 0) ∧
    qMul (adj3 A) A = (fun i j => if i = j then det3 A else 0) := by
  constructor <;> funext i j <;> fin_cases i <;> fin_cases j <;>
    simp [qMul_apply, Fin.sum_univ_three, adj3, det3] <;> ring

theorem inv_of_adj {d : Nat} (A B : QMat d) (D : ℚ) (hD : D ≠ 0)
    (h : qMul A B = (fun i j => if i = j then D else 0) ∧ qMul B A = (fun i j => if i = j then D else 0)) :
    qMul A (fun i j => B i j / D) = qOne ∧ qMul (fun i j => B i j / D) A = qOne := by
  constructor <;> funext i j
  · have := congrFun (congrFun h.1 i) j
    rw [qMul_apply] at this ⊢
    simp only [div_eq_mul_inv, ← mul_assoc, ← Finset.sum_mul, this, qOne]
    split <;> simp [hD]
  · have := congrFun (congrFun h.2 i) j
    rw [qMul_apply] at this ⊢
    simp only [div_eq_mul_inv, mul_right_comm _ D⁻¹, ← Finset.sum_mul, this, qOne]
    split <;> simp [hD]

/-- the model's `np.linalg.inv` returns a two-sided inverse -/
theorem qInv_mul : ∀ {d : Nat} {A Ai : QMat d}, qInv A = some Ai → qMul A Ai = qOne ∧ qMul Ai A = qOne
  | 0, A, Ai, h => by simp [qInv] at h
  | 1, A, Ai, h => by simp [qInv] at h
  | 2, A, Ai, h => by
    simp only [qInv] at h
    split at h
    · cases h
    · rename_i hd
      injection h with h; subst h
      exact inv_of_adj A (adj2 A) (det2 A) hd (adj2_mul A)
  | 3, A, Ai, h => by
    simp only [qInv] at h
    split at h
    · cases h
    · rename_i hd
      injection h with h; subst h
      exact inv_of_adj A (adj3 A) (det3 A) hd (adj3_mul A)
  | n+4, A, Ai, h => by simp [qInv] at h


theorem pairLe_trans (a b c : Nat × Nat) : pairLe a b = true → pairLe b c = true → pairLe a c = true := by
  simp only [pairLe, Bool.or_eq_true, Bool.and_eq_true, decide_eq_true_eq, beq_iff_eq]
  omega

theorem pairLe_total (a b : Nat × Nat) : (pairLe a b || pairLe b a) = true := by
  simp only [pairLe, Bool.or_eq_true, Bool.and_eq_true, decide_eq_true_eq, beq_iff_eq]
  omega

/-- the sort-based inverse of `GroupOp.inv` inverts a permutation of `0..n-1`. -/
theorem invertMap_spec {l : List Nat} {n : Nat} (hl : l.Perm (List.range n)) (i : Nat) (hi : i < l.length) :
    (invertMap l)[l[i]]? = some i := by
  have hnd : l.Nodup := hl.nodup_iff.2 List.nodup_range
  set s := l.zipIdx.mergeSort pairLe with hs
  have hperm : s.Perm l.zipIdx := List.mergeSort_perm _ _
  have hsorted : s.Pairwise (fun a b => pairLe a b = true) :=
    List.pairwise_mergeSort pairLe_trans pairLe_total _
  have hfst : s.map Prod.fst = List.range n := by
    have p1 : (s.map Prod.fst).Perm (List.range n) := by
      refine ((hperm.map Prod.fst).trans ?_).trans hl
      rw [List.zipIdx_map_fst]
    have s1 : (s.map Prod.fst).Pairwise (· ≤ ·) := by
      rw [List.pairwise_map]
      refine hsorted.imp ?_
      intro a b hab
      simp only [pairLe, Bool.or_eq_true, Bool.and_eq_true, decide_eq_true_eq, beq_iff_eq] at hab
      omega
    have s2 : (List.range n).Pairwise (· ≤ ·) := List.pairwise_le_range
    exact List.Perm.eq_of_pairwise (fun a b _ _ h1 h2 => Nat.le_antisymm h1 h2) s1 s2 p1
  have hk : l[i] < n := by
    have : l[i] ∈ List.range n := hl.subset (List.getElem_mem hi)
    simpa using this
  have hlen : s.length = n := by
    have := congrArg List.length hfst
    simpa using this
  have hk' : l[i] < s.length := by omega
  have hp1 : (s[l[i]]).1 = l[i] := by
    have := congrArg (fun m => m[l[i]]?) hfst
    simp only [List.getElem?_map, List.getElem?_range hk, List.getElem?_eq_getElem hk'] at this
    simpa using this
  have hmem : s[l[i]] ∈ l.zipIdx := hperm.subset (List.getElem_mem hk')
  rw [List.mem_zipIdx_iff_getElem?] at hmem
  rw [hp1] at hmem
  have hj : (s[l[i]]).2 < l.length := by
    by_contra hcon
    rw [List.getElem?_eq_none (by omega)] at hmem
    cases hmem
  rw [List.getElem?_eq_getElem hj] at hmem
  injection hmem with hmem
  have : (s[l[i]]).2 = i := (hnd.getElem_inj_iff).1 hmem
  simp only [invertMap, ← hs, List.getElem?_map, List.getElem?_eq_getElem hk', Option.map_some, this]



theorem qMul_qOne (A : QMat d) : qMul A qOne = A := by
  funext i j; simp [qMul_apply, qOne]

theorem qOne_qMul (A : QMat d) : qMul qOne A = A := by
  funext i j; simp [qMul_apply, qOne]

theorem inv_unique {A X Y : QMat d} (h1 : qMul X A = qOne) (h2 : qMul A Y = qOne) : X = Y := by
  calc X = qMul X qOne := (qMul_qOne X).symm
    _ = qMul X (qMul A Y) := by rw [h2]
    _ = qMul (qMul X A) Y := (qMul_assoc _ _ _).symm
    _ = Y := by rw [h1, qOne_qMul]

theorem inv_ok {cr : Crystal d} {g gi : GroupOp d} (h : g.inv cr = .ok gi) :
    ∃ Ai, qInv (toQM g.rot) = some Ai ∧ gi.rot = (fun i j => roundHE (Ai i j)) ∧
      gi.trans = (fun k => - qMulVec (toQM gi.rot) g.trans k) ∧
      gi.crot = qMul cr.metricInv (qMul (qTr g.crot) cr.metric) ∧
      gi.imap = g.imap.map invertMap := by
  unfold GroupOp.inv at h
  split at h
  · cases h
  · rename_i Ai hAi
    injection h with h; subst h
    exact ⟨Ai, hAi, rfl, rfl, rfl, rfl⟩

/-- if `rot` is invertible over ℤ, `inv()` finds that inverse (rounding is exact) -/
theorem inv_rot {cr : Crystal d} {g gi : GroupOp d} (h : g.inv cr = .ok gi)
    {B : IMat d} (hB : qMul (toQM B) (toQM g.rot) = qOne) :
    gi.rot = B ∧ qMul (toQM gi.rot) (toQM g.rot) = qOne ∧ qMul (toQM g.rot) (toQM gi.rot) = qOne := by
  obtain ⟨Ai, h1, h2, _, _, _⟩ := inv_ok h
  obtain ⟨m1, m2⟩ := qInv_mul h1
  have e : toQM B = Ai := inv_unique hB m1
  have hr : gi.rot = B := by
    rw [h2]; funext i j
    have := congrFun (congrFun e i) j
    simp only [toQM] at this
    rw [← this, roundHE_int]
  refine ⟨hr, ?_, ?_⟩
  · rw [hr]; exact hB
  · rw [hr, e]; exact m1

/-- `g.inv()` undoes `g` on positions (lattice affine maps), both ways -/
theorem affine_inv {cr : Crystal d} {g gi : GroupOp d} (h : g.inv cr = .ok gi)
    {B : IMat d} (hB : qMul (toQM B) (toQM g.rot) = qOne) (x : QVec d) :
    affine gi (affine g x) = x ∧ affine g (affine gi x) = x := by
  obtain ⟨_, l, r⟩ := inv_rot h hB
  obtain ⟨_, _, _, ht, _, _⟩ := inv_ok h
  constructor <;> funext k
  · simp only [affine, ht, qMulVec_vAdd, qMulVec_qMulVec, l, qMulVec_one, vAdd]; ring
  · have : qMulVec (toQM g.rot) (fun k => - qMulVec (toQM gi.rot) g.trans k) = fun k => - g.trans k := by
      have := qMulVec_smul (toQM g.rot) (-1) (qMulVec (toQM gi.rot) g.trans)
      simp only [neg_one_mul, qMulVec_qMulVec, r, qMulVec_one] at this
      exact this
    simp only [affine, ht, qMulVec_vAdd, qMulVec_qMulVec, r, qMulVec_one, vAdd, this]; ring

/-- `cartrot.T` of `inv()` is the lattice rotation of the inverse, when `g` is an isometry of the
    metric whose Cartesian and lattice rotations agree. -/
theorem inv_crot {cr : Crystal d} {g gi : GroupOp d} (h : g.inv cr = .ok gi)
    {B : IMat d} (hB : qMul (toQM B) (toQM g.rot) = qOne)
    (hc : g.crot = toQM g.rot)
    (hiso : qMul (qTr (toQM g.rot)) (qMul cr.metric (toQM g.rot)) = cr.metric)
    (hG : qMul cr.metricInv cr.metric = qOne) : gi.crot = toQM gi.rot := by
  obtain ⟨_, _, r⟩ := inv_rot h hB
  obtain ⟨_, _, _, _, hcr, _⟩ := inv_ok h
  refine inv_unique ?_ r
  rw [hcr, hc, qMul_assoc, qMul_assoc, hiso, hG]

/-- `g_cart (g.inv()) ∘ g_cart g = id` and conversely. -/
theorem gCart_inv {cr : Crystal d} {g gi : GroupOp d} (h : g.inv cr = .ok gi)
    {B : IMat d} (hB : qMul (toQM B) (toQM g.rot) = qOne)
    (hc : g.crot = toQM g.rot)
    (hiso : qMul (qTr (toQM g.rot)) (qMul cr.metric (toQM g.rot)) = cr.metric)
    (hG : qMul cr.metricInv cr.metric = qOne) (x : QVec d) :
    gCart gi (gCart g x) = x ∧ gCart g (gCart gi x) = x := by
  have hci := inv_crot h hB hc hiso hG
  rw [gCart_eq_affine g hc, gCart_eq_affine gi hci, gCart_eq_affine gi hci, gCart_eq_affine g hc]
  exact affine_inv h hB x

theorem gDirec_inv {cr : Crystal d} {g gi : GroupOp d} (h : g.inv cr = .ok gi)
    {B : IMat d} (hB : qMul (toQM B) (toQM g.rot) = qOne)
    (hc : g.crot = toQM g.rot)
    (hiso : qMul (qTr (toQM g.rot)) (qMul cr.metric (toQM g.rot)) = cr.metric)
    (hG : qMul cr.metricInv cr.metric = qOne) (x : QVec d) :
    gDirec gi (gDirec g x) = x := by
  have hci := inv_crot h hB hc hiso hG
  obtain ⟨_, l, _⟩ := inv_rot h hB
  simp only [gDirec, hci, hc, qMulVec_qMulVec, l, qMulVec_one]


/-! ### atom indices, cart2pos -/


theorem mem_atomIdxFrom {α} (L : List (List α)) (c0 : Nat) (p : Nat × Nat) :
    p ∈ atomIdxFrom c0 L ↔ c0 ≤ p.1 ∧ ∃ l, L[p.1 - c0]? = some l ∧ p.2 < l.length := by
  induction L generalizing c0 with
  | nil => simp [atomIdxFrom]
  | cons l r ih =>
    simp only [atomIdxFrom, List.mem_append, List.mem_map, List.mem_range, ih]
    constructor
    · rintro (⟨i, hi, rfl⟩ | ⟨h1, l', h2, h3⟩)
      · exact ⟨Nat.le_refl _, l, by simp, hi⟩
      · refine ⟨by omega, l', ?_, h3⟩
        have : p.1 - c0 = (p.1 - (c0 + 1)) + 1 := by omega
        rw [this]; simpa using h2
    · rintro ⟨h1, l', h2, h3⟩
      by_cases hc : p.1 = c0
      · left
        refine ⟨p.2, ?_, by rw [← hc]⟩
        rw [hc] at h2; simp at h2; rw [h2]; exact h3
      · right
        refine ⟨by omega, l', ?_, h3⟩
        have : p.1 - c0 = (p.1 - (c0 + 1)) + 1 := by omega
        rw [this] at h2; simpa using h2

theorem nodup_atomIdxFrom {α} (L : List (List α)) (c0 : Nat) : (atomIdxFrom c0 L).Nodup := by
  induction L generalizing c0 with
  | nil => simp [atomIdxFrom]
  | cons l r ih =>
    simp only [atomIdxFrom]
    rw [List.nodup_append]
    refine ⟨?_, ih _, ?_⟩
    · refine List.Nodup.map ?_ List.nodup_range
      intro a b hab; simpa using hab
    · intro a ha b hb
      simp only [List.mem_map, List.mem_range] at ha
      obtain ⟨i, _, rfl⟩ := ha
      rw [mem_atomIdxFrom] at hb
      intro hab; rw [← hab] at hb; simp at hb

theorem mem_atomindices (cr : Crystal d) (c i : Nat) :
    (c, i) ∈ cr.atomindices ↔ (cr.pos? c i).isSome := by
  simp only [Crystal.atomindices, mem_atomIdxFrom, Crystal.pos?, Nat.zero_le, true_and, Nat.sub_zero]
  constructor
  · rintro ⟨l, h1, h2⟩
    simp [h1, h2]
  · intro h
    cases hb : cr.basis[c]? with
    | none => simp [hb] at h
    | some l =>
      simp only [hb] at h
      refine ⟨l, rfl, ?_⟩
      by_contra hcon
      rw [List.getElem?_eq_none (by omega)] at h
      simp at h

theorem filter_eq_singleton {α} (p : α → Bool) (a : α) (l : List α) (hn : l.Nodup) (ha : a ∈ l)
    (hp : p a = true) (hq : ∀ b ∈ l, b ≠ a → p b = false) : l.filter p = [a] := by
  induction l with
  | nil => cases ha
  | cons x t ih =>
    rw [List.nodup_cons] at hn
    by_cases hx : x = a
    · subst hx
      rw [List.filter_cons_of_pos hp]
      congr 1
      rw [List.filter_eq_nil_iff]
      intro b hb
      have : b ≠ x := fun h => hn.1 (h ▸ hb)
      simp [hq b (List.mem_cons_of_mem _ hb) this]
    · have hpx : p x = false := hq x List.mem_cons_self hx
      rw [List.filter_cons_of_neg (by simp [hpx])]
      have ha' : a ∈ t := by
        rcases List.mem_cons.1 ha with h | h
        · exact absurd h.symm hx
        · exact h
      exact ih hn.2 ha' fun b hb => hq b (List.mem_cons_of_mem _ hb)



theorem qabs_zero : qabs 0 = 0 := by simp [qabs]
theorem qabs_nonneg (q : ℚ) : 0 ≤ qabs q := by
  unfold qabs; split <;> linarith

/-- `np.allclose(a, a)` holds for non-negative tolerances -/
theorem allclose_refl (atol rtol : ℚ) (ha : 0 ≤ atol) (hr : 0 ≤ rtol) (a : QVec d) :
    allclose atol rtol a a = true := by
  simp only [allclose, List.all_eq_true, decide_eq_true_eq, sub_self, qabs_zero]
  intro k _
  have := qabs_nonneg (a k)
  positivity

/-- `cart2pos (pos2cart R ci) = (R, ci)` when the site lies in `[-eps,1-eps)^d` and no other site
    is `__isclose__` to it. -/
theorem cart2pos_pos2cart (cr : Crystal d) (R : IVec d) (c i : Nat) (u : QVec d)
    (hu : cr.pos? c i = some u) (hr : ∀ k, -cr.eps ≤ u k ∧ u k < 1 - cr.eps)
    (ha : 0 ≤ cr.atol) (hrt : 0 ≤ cr.rtol)
    (huniq : ∀ c' i' b, (c', i') ≠ (c, i) → cr.pos? c' i' = some b → allclose cr.atol cr.rtol u b = false) :
    cart2pos cr (unit2cart R u) = (R, some (c, i)) := by
  unfold cart2pos
  rw [cart2unit_unit2cart cr.eps R u hr]
  simp only
  have hf := filter_eq_singleton (cr.closeTo u) (c, i) cr.atomindices (nodup_atomIdxFrom _ _)
    ((mem_atomindices cr c i).2 (by simp [hu]))
    (by simp [Crystal.closeTo, hu, allclose_refl _ _ ha hrt])
    (by
      intro b hb hne
      have hs := (mem_atomindices cr b.1 b.2).1 hb
      cases hpb : cr.pos? b.1 b.2 with
      | none => simp [hpb] at hs
      | some x => simpa [Crystal.closeTo, hpb] using huniq b.1 b.2 x hne hpb)
  rw [hf]

theorem affine_sub_int (g : GroupOp d) (x : QVec d) (m : IVec d) :
    affine g (vSub x (toQ m)) = vSub (affine g x) (toQ (iMulVec g.rot m)) := by
  funext k
  simp only [affine, qMulVec_vSub, vAdd, vSub, toQ_iMulVec]
  ring

/-- `g_pos (g.inv()) ∘ g_pos g = id` on every site on which `g` acts as a crystal operation
    (`l` = the index map of that chemistry is a permutation). -/
theorem gPos_inv {cr : Crystal d} {g gi : GroupOp d} (h : g.inv cr = .ok gi)
    {B : IMat d} (hB : qMul (toQM B) (toQM g.rot) = qOne)
    {R R1 : IVec d} {c i i1 : Nat} {u u1 : QVec d}
    (h1 : gPos cr g R c i = .ok (R1, c, i1))
    (hu : cr.pos? c i = some u) (hu1 : cr.pos? c i1 = some u1) (hv : validAt g u u1)
    {l : List Nat} {n : Nat} (hl : g.imap[c]? = some l) (hperm : l.Perm (List.range n)) :
    gPos cr gi R1 c i1 = .ok (R, c, i) := by
  obtain ⟨a, a', e1, e2, e3, _, e5⟩ := gPos_ok h1
  simp only at e2 e3 e5
  rw [hu] at e1; injection e1 with e1; subst e1
  rw [hu1] at e3; injection e3 with e3; subst e3
  obtain ⟨_, _, _, _, _, him⟩ := inv_ok h
  -- index
  have hli : l[i]? = some i1 := by
    simpa [GroupOp.imap?, hl] using e2
  have hilt : i < l.length := by
    by_contra hcon; rw [List.getElem?_eq_none (by omega)] at hli; cases hli
  have hli' : l[i] = i1 := by
    rw [List.getElem?_eq_getElem hilt] at hli; injection hli
  have hi : gi.imap? c i1 = some i := by
    simp only [GroupOp.imap?, him, List.getElem?_map, hl, Option.map_some]
    rw [← hli']; exact invertMap_spec hperm i hilt
  -- validity of the inverse at (u1, u)
  obtain ⟨m, hm⟩ := (validAt_iff g u u1).1 hv
  have hu1' : u1 = vSub (affine g u) (toQ m) := by
    funext k; have := congrFun hm k; simp only [vSub] at *; linarith
  have hvi : validAt gi u1 u := by
    rw [validAt_iff]
    refine ⟨iNeg (iMulVec gi.rot m), ?_⟩
    rw [hu1', affine_sub_int, (affine_inv h hB u).1]
    funext k; simp [vSub, toQ, iNeg]
  rw [gPos_eq_ok R1 hu1 hi hu]
  congr 2
  apply toQ_injective
  funext k
  have A := gPosCore_cart_general gi R1 u1 u k
  rw [resid_zero_of_valid gi u1 u hvi, sub_zero] at A
  have C : unit2cart R1 u1 = affine g (unit2cart R u) := by
    funext k
    have C := gPosCore_cart_general g R u u1 k
    rw [resid_zero_of_valid g u u1 hv, ← e5, sub_zero] at C
    simpa [affine] using C
  have D := congrFun (affine_inv h hB (unit2cart R u)).1 k
  rw [← C] at D
  simp only [affine] at D
  rw [D] at A
  simp only [unit2cart, vAdd] at A
  linarith

/-! ### pair states and cluster sites -/

/-- `PairState.__sane__` in lattice coordinates: `dx = R + u_j − u_i` -/
def PairState.sane (ui uj : QVec d) (s : PairState d) : Prop := s.dx = vSub (unit2cart s.R uj) ui

theorem pairState_g_ok {cr : Crystal d} {chem : Nat} {g : GroupOp d} {s s' : PairState d}
    (h : s.g cr chem g = .ok s') :
    0 ≤ s.i ∧ 0 ≤ s.j ∧ ∃ (Ri Rj : IVec d) (ci cj gi gj : Nat),
      gPos cr g iZero chem s.i.toNat = .ok (Ri, ci, gi) ∧ gPos cr g s.R chem s.j.toNat = .ok (Rj, cj, gj) ∧
      s'.i = gi ∧ s'.j = gj ∧ s'.R = iSub Rj Ri ∧ s'.dx = gDirec g s.dx := by
  unfold PairState.g at h
  split at h
  · cases h
  · rename_i hneg
    refine ⟨by omega, by omega, ?_⟩
    split at h
    · rename_i Ri ci gi Rj cj gj h1 h2
      injection h with h; subst h
      exact ⟨Ri, Rj, ci, cj, gi, gj, h1, h2, rfl, rfl, rfl, rfl⟩
    · cases h

/-- `PairState.g`: the rotated `dx` is the difference of the rotated endpoints, and is again the
    `dx` belonging to the new `(i, j, R)` (so `__sane__` is preserved), for crystal operations. -/
theorem pairState_g_sane {cr : Crystal d} {chem : Nat} {g : GroupOp d} {s s' : PairState d}
    (h : s.g cr chem g = .ok s') {ui uj ui' uj' : QVec d}
    (hi : cr.pos? chem s.i.toNat = some ui) (hj : cr.pos? chem s.j.toNat = some uj)
    (hi' : cr.pos? chem s'.i.toNat = some ui') (hj' : cr.pos? chem s'.j.toNat = some uj')
    (hvi : validAt g ui ui') (hvj : validAt g uj uj') (hc : g.crot = toQM g.rot)
    (hs : s.sane ui uj) :
    s'.sane ui' uj' ∧
    s'.dx = vSub (gCart g (unit2cart s.R uj)) (gCart g (unit2cart iZero ui)) := by
  obtain ⟨_, _, Ri, Rj, ci, cj, gi, gj, h1, h2, e1, e2, e3, e4⟩ := pairState_g_ok h
  obtain ⟨a, a', p1, _, p3, _, p5⟩ := gPos_ok h1
  obtain ⟨b, b', q1, _, q3, _, q5⟩ := gPos_ok h2
  simp only at p3 p5 q3 q5
  rw [e1] at hi'; rw [e2] at hj'
  simp only [Int.toNat_natCast] at hi' hj'
  rw [hi] at p1; injection p1 with p1; subst p1
  rw [hj] at q1; injection q1 with q1; subst q1
  rw [hi'] at p3; injection p3 with p3; subst p3
  rw [hj'] at q3; injection q3 with q3; subst q3
  have key : s'.dx = vSub (gCart g (unit2cart s.R uj)) (gCart g (unit2cart iZero ui)) := by
    rw [e4, gCart_sub, hs]
    congr 1
    funext k; simp [vSub, unit2cart, vAdd, toQ, iZero]
  refine ⟨?_, key⟩
  unfold PairState.sane
  rw [key]
  funext k
  have A := gPosCore_cart_general g iZero ui ui' k
  have B := gPosCore_cart_general g s.R uj uj' k
  rw [resid_zero_of_valid g _ _ hvi, sub_zero, ← p5] at A
  rw [resid_zero_of_valid g _ _ hvj, sub_zero, ← q5] at B
  simp only [vSub, gCart, hc, e3] at *
  rw [← A, ← B]
  simp only [unit2cart, vAdd, toQ, iSub]
  push_cast
  ring

/-- `ClusterSite.g` is `g_pos` on the site's `(R, ci)`. -/
theorem clusterSite_g_eq_gPos (cr : Crystal d) (g : GroupOp d) (s : ClusterSite d) :
    s.g cr g = (gPos cr g s.R s.c s.i).map fun r => { c := r.2.1, i := r.2.2, R := r.1 } := by
  unfold ClusterSite.g
  cases gPos cr g s.R s.c s.i <;> rfl



/-! ### determinant ±1 ⇒ integer inverse (d = 2, 3) -/


/-- integer adjugates -/
def adjI2 (A : IMat 2) : IMat 2 := fun i j =>
  match i, j with
  | 0, 0 => A 1 1 | 0, 1 => - A 0 1
  | 1, 0 => - A 1 0 | 1, 1 => A 0 0

def adjI3 (A : IMat 3) : IMat 3 := fun i j =>
  match i, j with
  | 0, 0 => A 1 1 * A 2 2 - A 1 2 * A 2 1
  | 0, 1 => A 0 2 * A 2 1 - A 0 1 * A 2 2
  | 0, 2 => A 0 1 * A 1 2 - A 0 2 * A 1 1
  | 1, 0 => A 1 2 * A 2 0 - A 1 0 * A 2 2
  | 1, 1 => A 0 0 * A 2 2 - A 0 2 * A 2 0
  | 1, 2 => A 0 2 * A 1 0 - A 0 0 * A 1 2
  | 2, 0 => A 1 0 * A 2 1 - A 1 1 * A 2 0
  | 2, 1 => A 0 1 * A 2 0 - A 0 0 * A 2 1
  | 2, 2 => A 0 0 * A 1 1 - A 0 1 * A 1 0

theorem toQM_adjI2 (A : IMat 2) : toQM (adjI2 A) = adj2 (toQM A) := by
  funext i j; fin_cases i <;> fin_cases j <;> simp [toQM, adjI2, adj2]

theorem toQM_adjI3 (A : IMat 3) : toQM (adjI3 A) = adj3 (toQM A) := by
  funext i j; fin_cases i <;> fin_cases j <;> simp [toQM, adjI3, adj3]

theorem int_inverse_of_adj {d : Nat} (A Adj : IMat d) (D : ℚ) (s : ℤ) (hs : (s : ℚ) * D = 1)
    (h : qMul (toQM Adj) (toQM A) = (fun i j => if i = j then D else 0)) :
    qMul (toQM (fun i j => s * Adj i j)) (toQM A) = qOne := by
  funext i j
  have := congrFun (congrFun h i) j
  rw [qMul_apply] at this ⊢
  simp only [toQM, Int.cast_mul, mul_assoc, ← Finset.mul_sum] at this ⊢
  rw [this, qOne]
  split
  · exact hs
  · simp

/-- a 2×2 or 3×3 integer matrix with determinant ±1 has an integer inverse: the hypothesis `hB` of
    `inv_rot`, `affine_inv`, `inv_crot`, `gCart_inv`, `gPos_inv` holds for every operation with
    `det rot = ±1` (what `GroupOp.__sane__` checks). -/
theorem exists_int_inverse2 (A : IMat 2) (h : det2 (toQM A) = 1 ∨ det2 (toQM A) = -1) :
    ∃ B : IMat 2, qMul (toQM B) (toQM A) = qOne := by
  rcases h with h | h
  · exact ⟨_, int_inverse_of_adj A (adjI2 A) (det2 (toQM A)) 1 (by rw [h]; norm_num)
      (by rw [toQM_adjI2]; exact (adj2_mul _).2)⟩
  · exact ⟨_, int_inverse_of_adj A (adjI2 A) (det2 (toQM A)) (-1) (by rw [h]; norm_num)
      (by rw [toQM_adjI2]; exact (adj2_mul _).2)⟩

theorem exists_int_inverse3 (A : IMat 3) (h : det3 (toQM A) = 1 ∨ det3 (toQM A) = -1) :
    ∃ B : IMat 3, qMul (toQM B) (toQM A) = qOne := by
  rcases h with h | h
  · exact ⟨_, int_inverse_of_adj A (adjI3 A) (det3 (toQM A)) 1 (by rw [h]; norm_num)
      (by rw [toQM_adjI3]; exact (adj3_mul _).2)⟩
  · exact ⟨_, int_inverse_of_adj A (adjI3 A) (det3 (toQM A)) (-1) (by rw [h]; norm_num)
      (by rw [toQM_adjI3]; exact (adj3_mul _).2)⟩


/-! ### non-vacuity: a 2-D square crystal with two edge-centre sites and its four-fold rotation -/
namespace Ex
def cr : Crystal 2 :=
  { metric := qOne, metricInv := qOne, eps := 1/100000000, atol := 1/100000000, rtol := 1/100000,
    basis := [[fun _ => 0], [fun k => if k = 0 then 1/2 else 0, fun k => if k = 0 then 0 else 1/2]] }
def rot4 : IMat 2 := fun i j => if i = 0 ∧ j = 1 then -1 else if i = 1 ∧ j = 0 then 1 else 0
def g : GroupOp 2 := { rot := rot4, trans := fun _ => 0, crot := toQM rot4, imap := [[0], [1, 0]] }
def u0 : QVec 2 := fun k => if k = 0 then 1/2 else 0
def u1 : QVec 2 := fun k => if k = 0 then 0 else 1/2

example : cr.pos? 1 0 = some u0 ∧ cr.pos? 1 1 = some u1 ∧ g.imap? 1 0 = some 1 ∧ g.imap? 1 1 = some 0 :=
  ⟨rfl, rfl, rfl, rfl⟩

/-- the hypotheses of `gPos_cart`, `gPos_mul`, `gPos_inv`, `pairState_g_sane` are satisfiable by a
    non-trivial operation: the rotation maps site (1,0) onto (1,1) and (1,1) onto (1,0) − [1,0]. -/
example : validAt g u0 u1 ∧ validAt g u1 u0 ∧ g.crot = toQM g.rot := by
  refine ⟨?_, ?_, rfl⟩
  · intro k
    refine ⟨0, ?_⟩
    fin_cases k <;> simp [qMulVec_apply, toQM, g, rot4, u0, u1]
  · intro k
    refine ⟨if k = 0 then -1 else 0, ?_⟩
    fin_cases k <;> (simp [qMulVec_apply, toQM, g, rot4, u0, u1]; try norm_num)

/-- the rotation is an isometry of the metric and invertible over ℤ (hypotheses of `gCart_inv`) -/
example : qMul (qTr (toQM g.rot)) (qMul cr.metric (toQM g.rot)) = cr.metric ∧
    qMul cr.metricInv cr.metric = qOne ∧
    qMul (toQM (fun i j => rot4 j i)) (toQM g.rot) = qOne := by
  refine ⟨?_, ?_, ?_⟩ <;> funext i j <;> fin_cases i <;> fin_cases j <;>
    simp [qMul_apply, qTr, toQM, g, rot4, cr, qOne]

/-- the index map of chemistry 1 is a permutation (hypothesis of `gPos_inv`) -/
example : g.imap[1]? = some [1, 0] ∧ [1, 0].Perm (List.range 2) := ⟨rfl, by decide⟩

/-- the unit coordinates that round-trip are a non-empty set, and so is the excluded strip -/
example : (-cr.eps ≤ (1/2 : ℚ) ∧ (1/2 : ℚ) < 1 - cr.eps) ∧
    (1 - cr.eps ≤ (1 - 1/200000000 : ℚ) ∧ (1 - 1/200000000 : ℚ) < 1) := by
  simp only [cr]; norm_num
end Ex


end Onsager.C23
