/-
  C07 — Results do not depend on the thermodynamic range beyond the interactions (algebraic core).

  * `coeff_diag_perm`      the exact chain coefficients depend only on the multiset of transitions:
                           two descriptions of the same chain (e.g. built from calculators with
                           thermodynamic range N and N+1 and back-filled data) give the same value.
                           The harness checks, with exact rational weights, that the two calculators
                           DO describe the same chain transition by transition.
  * `limb_backfill_is_omega0`  a swing jump whose two end states carry no interaction gets, from the
                           package's default (LIMB) back-fill, exactly the bare vacancy jump rate
                           (prefactor preT0·√(preS·preS) and energy eneT0 + ½(eneS+eneS) against the
                           state's preS·preV, eneS+eneV): the solute contribution cancels.
-/
import OnsagerProofs.Chain

namespace Onsager.C07
open Onsager.Chain Onsager.C02 Onsager.Var

theorem mapM_defined_of_mem {α β : Type} (f : α → Option β) :
    ∀ (l : List α) (lb : List β), l.mapM f = some lb → ∀ x ∈ l, ∃ b, f x = some b
  | [], _, _, x, hx => by simp at hx
  | a :: t, lb, h, x, hx => by
    rw [List.mapM_cons] at h
    cases hfa : f a with
    | none => simp [hfa] at h
    | some b0 =>
      cases ht : t.mapM f with
      | none => simp [hfa, ht] at h
      | some bs =>
        rcases List.mem_cons.1 hx with rfl | h'
        · exact ⟨b0, hfa⟩
        · exact mapM_defined_of_mem f t bs ht x h'

theorem mapM_some_of_forall {α β : Type} (f : α → Option β) :
    ∀ (l : List α), (∀ x ∈ l, ∃ b, f x = some b) → ∃ lb, l.mapM f = some lb
  | [], _ => ⟨[], by simp⟩
  | a :: t, h => by
    obtain ⟨b, hb⟩ := h a List.mem_cons_self
    obtain ⟨bs, hbs⟩ := mapM_some_of_forall f t (fun x hx => h x (List.mem_cons_of_mem _ hx))
    exact ⟨b :: bs, by rw [List.mapM_cons]; simp [hb, hbs]⟩

theorem mapM_perm {α β : Type} (f : α → Option β) :
    ∀ (l l' : List α), l.Perm l' → ∀ lb lb', l.mapM f = some lb → l'.mapM f = some lb' → lb.Perm lb' := by
  intro l l' h
  induction h with
  | nil => intro lb lb' h1 h2; simp at h1 h2; subst h1; subst h2; exact List.Perm.refl _
  | cons x _ ih =>
    intro lb lb' h1 h2
    rw [List.mapM_cons] at h1 h2
    cases hfx : f x with
    | none => simp [hfx] at h1
    | some b =>
      rename_i t t' _
      cases ht : t.mapM f with
      | none => simp [hfx, ht] at h1
      | some bs =>
        cases ht' : t'.mapM f with
        | none => simp [hfx, ht'] at h2
        | some bs' =>
          simp [hfx, ht] at h1; simp [hfx, ht'] at h2
          subst h1; subst h2
          exact (ih bs bs' ht ht').cons b
  | swap x y t =>
    intro lb lb' h1 h2
    rw [List.mapM_cons, List.mapM_cons] at h1 h2
    cases hfx : f x with
    | none => simp [hfx] at h1
    | some bx =>
      cases hfy : f y with
      | none => simp [hfy] at h1
      | some by' =>
        cases ht : t.mapM f with
        | none => simp [hfx, hfy, ht] at h1
        | some bs =>
          simp [hfx, hfy, ht] at h1 h2
          subst h1; subst h2
          exact List.Perm.swap _ _ _
  | @trans l1 l2 l3 p12 _ ih1 ih2 =>
    intro lb lb' h1 h2
    have hdef : ∀ x ∈ l2, ∃ b, f x = some b := fun x hx =>
      mapM_defined_of_mem f l1 lb h1 x (p12.mem_iff.2 hx)
    obtain ⟨lm, hm⟩ := mapM_some_of_forall f l2 hdef
    exact (ih1 lb lm h1 hm).trans (ih2 lm lb' hm h2)

/-- The exact diagonal coefficients depend only on the multiset of transitions. -/
theorem coeff_diag_perm (inp inp' : Chain.Input) (hn : inp'.n = inp.n)
    (cert cert' : Option (List (List ℚ))) (a α : Nat) (D D' : ℚ)
    (hperm : inp.trans.Perm inp'.trans)
    (h : coeff inp cert a a α α = some D) (h' : coeff inp' cert' a a α α = some D') : D = D' := by
  obtain ⟨n, dim, tr⟩ := inp
  obtain ⟨n', dim', tr'⟩ := inp'
  simp only at hn hperm
  subst hn
  obtain ⟨l, ξ, hl, hst, hD, _⟩ := coeff_diag_eq_Qmin _ cert a α D h
  obtain ⟨l', ξ', hl', hst', hD', _⟩ := coeff_diag_eq_Qmin _ cert' a α D' h'
  obtain ⟨_, c, hl0, hf⟩ := coeff_eq _ cert a a α α D h
  rw [hl] at hl0; cases hl0
  obtain ⟨ξ0, hc, _⟩ := formOf_eq l c D hf
  obtain ⟨hp, hr, _⟩ := certify_sound l c ξ0 hc
  have hpl : l.Perm l' := by
    unfold Chain.network at hl hl'
    have hmk : (mk { n := n', dim := dim, trans := tr } a a α α) = (mk { n := n', dim := dim', trans := tr' } a a α α) := by
      funext t; rfl
    rw [← hmk] at hl'
    exact mapM_perm _ tr tr' hperm l l' hl hl'
  rw [hD, hD']
  have hst2 : Stationary l' ξ := by
    intro i
    have h0 := hst i
    rw [sum_filter_eq] at h0 ⊢
    rw [(hpl.symm.map (fun a => if a.src = i then flux ξ a else 0)).sum_eq]
    exact h0
  rw [Q_perm l l' hpl ξ]
  have hp' : (l'.map Jump.rev).Perm l' := ((hpl.symm.map _).trans hp).trans hpl
  have hr' : ∀ x ∈ l', 0 ≤ x.r := fun x hx => hr x (hpl.mem_iff.2 hx)
  exact Q_stationary_unique l' hp' hr' ξ ξ' hst2 hst'

/-- LIMB back-fill for a swing jump without interaction at either end: with the solute on a site
    of prefactor `pS`, energy activity `aS = q^{-eneS}`, the transition-state activity
    `preT0·s·aT0·aS` (where `s·s = pS·pS`, `s > 0`) over the state activity `pS·aS·(pV·aV)` is the
    bare vacancy rate `preT0·aT0/(pV·aV)`. -/
theorem limb_backfill_is_omega0 (preT0 aT0 pS aS pV aV s : ℚ) (hs : s * s = pS * pS) (hs0 : 0 < s)
    (hpS : 0 < pS) (haS : aS ≠ 0) (hpV : pV ≠ 0) (haV : aV ≠ 0) :
    (preT0 * s * (aT0 * aS)) / (pS * aS * (pV * aV)) = preT0 * aT0 / (pV * aV) := by
  have hsp : s = pS := by nlinarith [mul_pos hs0 hpS, sq_nonneg (s - pS), sq_nonneg (s + pS)]
  subst hsp
  have : s ≠ 0 := ne_of_gt hpS
  field_simp

end Onsager.C07
