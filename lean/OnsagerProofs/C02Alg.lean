/-
  C02 — the algorithm of `Interstitial.diffusivity` in site space.

  The code does not solve `W ξ = −B` directly: it symmetrises with `s_i = √ρ_i`
  (`omega_ij[i,j] += r_a/(s_i s_j)`, `omega_ij[i,i] -= r_a/s_i²`, `bias_i = B_i/s_i`), solves
  `ω γ = bias` (in the span of the symmetric vector basis) and returns `D0 + bias·γ`.

  * `symm_to_stationary`   any solution γ of the symmetrised equation (with `s_i ≠ 0`, any `s` — no
                           property of the square root is used) gives the stationary point
                           `ξ_i = −γ_i / s_i` of the unsymmetrised problem
  * `code_value_eq_Qmin`   hence the code's value `D0 + Σ_i bias_i γ_i` is `Q l ξ`, the global minimum of
                           the variational functional: the exact diffusivity
  The hypothesis "γ solves the symmetrised equation in full site space" is what the vector-basis projection
  delivers when the bias lies in the span of the basis and the span is invariant under ω (true by symmetry);
  the harness checks that residual on every case (certificate), so the chain
  implementation → certificate → this theorem → `Q_min` needs no trust in solve/pinv or in the basis.
-/
import OnsagerProofs.Lemmas.Variational

namespace Onsager.C02Alg
open Onsager.Var

variable {ι K : Type} [Fintype ι] [DecidableEq ι]
variable [Field K] [LinearOrder K] [IsStrictOrderedRing K]

/-- row `i` of the symmetrised rate matrix applied to `γ` -/
def symmRow (l : List (Jump ι K)) (s γ : ι → K) (i : ι) : K :=
  ((l.filter (fun a => a.src = i)).map fun a =>
    a.r / (s a.src * s a.dst) * γ a.dst - a.r / (s a.src * s a.src) * γ a.src).sum

/-- `γ` solves the symmetrised equation `ω γ = bias` with `bias_i = B_i / s_i` -/
def SymmSolution (l : List (Jump ι K)) (s γ : ι → K) : Prop :=
  ∀ i, symmRow l s γ i = B l i / s i

omit [Fintype ι] [LinearOrder K] [IsStrictOrderedRing K] in
theorem symm_to_stationary (l : List (Jump ι K)) (s γ : ι → K) (hs : ∀ i, s i ≠ 0)
    (h : SymmSolution l s γ) : Stationary l (fun i => - γ i / s i) := by
  intro i
  have hi := h i
  unfold symmRow B at hi
  -- multiply row i by s_i
  have key : ((l.filter (fun a => a.src = i)).map (flux (fun j => - γ j / s j))).sum
      = ((l.filter (fun a => a.src = i)).map fun a => a.r * a.d).sum
        - s i * ((l.filter (fun a => a.src = i)).map fun a =>
            a.r / (s a.src * s a.dst) * γ a.dst - a.r / (s a.src * s a.src) * γ a.src).sum := by
    rw [← List.sum_map_mul_left, ← sum_map_sub']
    apply congrArg
    apply List.map_congr_left
    intro a ha
    have hsrc : a.src = i := by
      have := (List.mem_filter.1 ha).2
      simpa using this
    have h1 := hs a.src
    have h2 := hs a.dst
    subst hsrc
    simp only [flux]
    field_simp
    ring
  rw [key, hi]
  have := hs i
  field_simp
  ring

/-- **The code's formula is the exact diffusivity.** With `bias_i = B_i/s_i` and any solution `γ` of the
    symmetrised equation, `D0 + Σ_i bias_i γ_i` equals `Q l ξ` at the stationary point `ξ = −γ/s`, which is
    the global minimum of `Q`. -/
theorem code_value_eq_Qmin (l : List (Jump ι K)) (hp : (l.map Jump.rev).Perm l) (hr : ∀ a ∈ l, 0 ≤ a.r)
    (s γ : ι → K) (hs : ∀ i, s i ≠ 0) (h : SymmSolution l s γ) :
    D0 l + ∑ i, (B l i / s i) * γ i = Q l (fun i => - γ i / s i) ∧
    ∀ η, Q l (fun i => - γ i / s i) ≤ Q l η := by
  have hst := symm_to_stationary l s γ hs h
  refine ⟨?_, fun η => Q_min l hp hr _ η hst⟩
  rw [Q_stationary_eq l hp _ hst, sub_eq_add_neg, ← Finset.sum_neg_distrib]
  congr 1
  apply Finset.sum_congr rfl
  intro i _
  have := hs i
  field_simp

end Onsager.C02Alg
