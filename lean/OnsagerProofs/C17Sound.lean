/-
  C17 — the table facts `Tab.Sem17` used by the rotation proof follow from the executable table obligations
  (for any `T : Tab ℚ`; discharged for the dumped tables in C16Tie*).
-/
import OnsagerProofs.C17Rows
import OnsagerProofs.C17Inv

namespace Onsager.C16

theorem sem17_of_checks (T : Tab ℚ)
    (h1 : T.checkSizes = true) (h2 : T.checkGraded = true) (h4 : T.checkDmult = true)
    (h5 : T.checkPcoefFormula = true) (h6 : T.checkPcoefPowers = true) : T.Sem17 := by
  have hB := basic_of_checks T h1 h2
  have hdm := dmOk_of_checks T hB h4
  have hpc := pc_ok_of_checks T hdm h6
  have hexpo0 : T.expo 0 = List.replicate T.dim 0 := by
    simp only [Tab.checkPcoefPowers, Bool.and_eq_true, decide_eq_true_eq, beq_iff_eq, allLt_iff] at h6
    exact h6.1.1.2
  have hnpos : 0 < T.npow := by
    have := hB.phi_mono 0 T.lmax (Nat.zero_le _) (le_refl _)
    rw [hB.phi_zero, hB.phi_top] at this
    omega
  refine {
    expo_len := hB.expo_len
    phi_top := hB.phi_top
    phi_mono := hB.phi_mono
    graded := hB.graded
    deg_le := ?_
    dm_expo := ?_
    pc_shell := ?_
    pc_ok := hpc.2
    mono_zero := hpc.1
    deg_zero := ?_
    npow_pos := hnpos }
  · intro p hp
    exact (hB.graded p T.lmax hp (le_refl _)).mp (by rw [hB.phi_top]; exact hp)
  · intro pa pb hpa hpb hdeg
    simp only [Tab.checkDmult, allLt_iff] at h4
    have h := h4 pa hpa pb hpb
    rw [if_pos hdeg] at h
    simp only [Bool.and_eq_true, decide_eq_true_eq, beq_iff_eq] at h
    obtain ⟨⟨⟨h0, hlt⟩, hexpo⟩, _⟩ := h
    exact ⟨(T.dm pa pb).toNat, by omega, hlt, hexpo⟩
  · intro n p hn hp hd
    simp only [Tab.checkPcoefFormula, allLt_iff] at h5
    have h := h5 n (by omega) p hp
    rw [if_neg hd] at h
    simpa using h
  · unfold Tab.deg
    rw [hexpo0]
    simp

/-- the same index tables with the rational entries (`powercoeff`, `Lproj`) mapped into another ring;
    `inversecoeff`, `coeffproduct`, `sumcoeff` only use the index tables, which are unchanged -/
def Tab.mapK {K K' : Type} (f : K → K') (T : Tab K) : Tab K' where
  dim := T.dim
  lmax := T.lmax
  npow := T.npow
  powl := T.powl
  expo := T.expo
  pow2ind := T.pow2ind
  dm := T.dm
  pc := fun n p => f (T.pc n p)
  proj := fun l a b => f (T.proj l a b)

/-- the product-rule facts hold for the dumped index tables over EVERY commutative ring `S`
    (they only concern `powlrange`, `ind2pow`, `directmult`) -/
theorem semMul_mapK_of_checks {S : Type} [CommRing S] (T : Tab ℚ) (f : ℚ → S)
    (h1 : T.checkSizes = true) (h2 : T.checkGraded = true) (h4 : T.checkDmult = true)
    (h6 : T.checkPcoefPowers = true) : (T.mapK f).SemMul := by
  have hB := basic_of_checks T h1 h2
  have hexpo0 : T.expo 0 = List.replicate T.dim 0 := by
    simp only [Tab.checkPcoefPowers, Bool.and_eq_true, decide_eq_true_eq, beq_iff_eq, allLt_iff] at h6
    exact h6.1.1.2
  refine ⟨hB.phi_mono, ?_, ?_, hB.phi_zero⟩
  · simp only [Tab.checkDmult, allLt_iff] at h4
    intro la lb pa pb hg hpa hpb
    have hg' : la + lb ≤ T.lmax := hg
    have hpa0 : pa < T.phi la := hpa
    have hpb0 : pb < T.phi lb := hpb
    have hla : la ≤ T.lmax := by omega
    have hlb : lb ≤ T.lmax := by omega
    have hpa' := hB.lt_npow hla hpa0
    have hpb' := hB.lt_npow hlb hpb0
    have hda := (hB.graded pa la hpa' hla).mp hpa0
    have hdb := (hB.graded pb lb hpb' hlb).mp hpb0
    have h := h4 pa hpa' pb hpb'
    rw [if_pos (by omega)] at h
    simp only [Bool.and_eq_true, decide_eq_true_eq, beq_iff_eq] at h
    obtain ⟨⟨⟨h0, hlt⟩, hexpo⟩, _⟩ := h
    refine ⟨(T.dm pa pb).toNat, ?_, ?_, ?_⟩
    · show T.dm pa pb = _; omega
    · have hdeg : T.deg (T.dm pa pb).toNat = T.deg pa + T.deg pb := by
        unfold Tab.deg
        rw [hexpo, sum_zipWith_add _ _ (by rw [hB.expo_len pa hpa', hB.expo_len pb hpb'])]
      exact (hB.graded _ (la + lb) hlt hg').mpr (by omega)
    · intro u
      show monoOf u (T.expo _) = monoOf u (T.expo pa) * monoOf u (T.expo pb)
      rw [hexpo, monoOf_add _ _ _ (by rw [hB.expo_len pa hpa', hB.expo_len pb hpb'])]
  · intro u
    show monoOf u (T.expo 0) = 1
    rw [hexpo0, monoOf_zeros]

end Onsager.C16
