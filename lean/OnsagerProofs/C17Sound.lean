/-
  C17 — the table facts `Tab.Sem17` used by the rotation proof follow from the executable table obligations
  (for any `T : Tab ℚ`; discharged for the dumped tables in C16Tie*).
-/
import OnsagerProofs.C17Rows

namespace Onsager.C16

theorem sem17_of_checks (T : Tab ℚ)
    (h1 : T.checkSizes = true) (h2 : T.checkGraded = true) (h4 : T.checkDmult = true)
    (h5 : T.checkPcoefFormula = true) (h6 : T.checkPcoefPowers = true) : T.Sem17 := by
  have hB := basic_of_checks T h1 h2
  have hdm := dmOk_of_checks T hB h4
  have hpc := pc_ok_of_checks T hdm h6
  have hexpo0 : T.expo 0 = List.replicate T.dim 0 := by
    simp only [Tab.checkPcoefPowers, Bool.and_eq_true, decide_eq_true_eq, beq_iff_eq, allLt_iff] at h6
    exact h6.1.1.2
  have hnpos : 0 < T.npow := by
    have := hB.phi_mono 0 T.lmax (Nat.zero_le _) (le_refl _)
    rw [hB.phi_zero, hB.phi_top] at this
    omega
  refine {
    expo_len := hB.expo_len
    phi_top := hB.phi_top
    phi_mono := hB.phi_mono
    graded := hB.graded
    deg_le := ?_
    dm_expo := ?_
    pc_shell := ?_
    pc_ok := hpc.2
    mono_zero := hpc.1
    deg_zero := ?_
    npow_pos := hnpos }
  · intro p hp
    exact (hB.graded p T.lmax hp (le_refl _)).mp (by rw [hB.phi_top]; exact hp)
  · intro pa pb hpa hpb hdeg
    simp only [Tab.checkDmult, allLt_iff] at h4
    have h := h4 pa hpa pb hpb
    rw [if_pos hdeg] at h
    simp only [Bool.and_eq_true, decide_eq_true_eq, beq_iff_eq] at h
    obtain ⟨⟨⟨h0, hlt⟩, hexpo⟩, _⟩ := h
    exact ⟨(T.dm pa pb).toNat, by omega, hlt, hexpo⟩
  · intro n p hn hp hd
    simp only [Tab.checkPcoefFormula, allLt_iff] at h5
    have h := h5 n (by omega) p hp
    rw [if_neg hd] at h
    simpa using h
  · unfold Tab.deg
    rw [hexpo0]
    simp

end Onsager.C16
