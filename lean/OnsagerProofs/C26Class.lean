/-
  C26 — one class: `symmequivjumplist` builds the orbit of the pair (i, f) under the group and
  reversal, without repetition, and carries the rotated displacement.
-/
import OnsagerModel.C26
import OnsagerProofs.C24

namespace Onsager.C26
open Onsager.C24

/-- the `(initial, final)` pairs listed in a class -/
def pairs (l : List JEntry) : List (Option PS × Option PS) := l.map fun e => (e.a, e.b)

theorem hasPair_iff {l : List JEntry} {a b : Option PS} : hasPair l a b = true ↔ (a, b) ∈ pairs l := by
  simp only [hasPair, pairs, List.any_eq_true, Bool.and_eq_true, beq_iff_eq, List.mem_map, Prod.mk.injEq]

theorem lookup_of_mem {S : List PS} {s : PS} (h : s ∈ S) : lookup S s = some s := by
  simp [lookup, h]

theorem lookup_eq_some_iff {S : List PS} {s t : PS} : lookup S s = some t ↔ s ∈ S ∧ t = s := by
  unfold lookup
  split
  · rename_i h
    simp only [List.contains_iff_mem] at h
    simp [h, eq_comm]
  · rename_i h
    simp only [List.contains_iff_mem] at h
    simp [h]

@[simp] theorem pairs_append (l1 l2 : List JEntry) : pairs (l1 ++ l2) = pairs l1 ++ pairs l2 := by
  simp [pairs]

/-- invariant of the class under construction: no pair twice, and closed under reversal -/
structure SymInv (l : List JEntry) : Prop where
  nodup : (pairs l).Nodup
  symm : ∀ a b, (a, b) ∈ pairs l → (b, a) ∈ pairs l

theorem symmStep_mem {S : List PS} {i f : PS} {dx : QVec} {acc : List JEntry} {g : Op}
    (hs : ∀ a b, (a, b) ∈ pairs acc → (b, a) ∈ pairs acc) {p : Option PS × Option PS} :
    p ∈ pairs (symmStep S i f dx acc g) ↔
      p ∈ pairs acc ∨ p = (lookup S (act g i), lookup S (act g f)) ∨ p = (lookup S (act g f), lookup S (act g i)) := by
  unfold symmStep
  simp only []
  split
  · rename_i h
    have h' := hasPair_iff.1 h
    constructor
    · intro hp; exact Or.inl hp
    · rintro (hp | rfl | rfl)
      · exact hp
      · exact h'
      · exact hs _ _ h'
  · split
    · simp [pairs]
    · rename_i h1 h2
      have : lookup S (act g i) = lookup S (act g f) := by simpa using h2
      simp [pairs, this]

theorem symmStep_inv {S : List PS} {i f : PS} {dx : QVec} {acc : List JEntry} {g : Op} (h : SymInv acc) :
    SymInv (symmStep S i f dx acc g) := by
  refine ⟨?_, ?_⟩
  · unfold symmStep
    simp only []
    split
    · exact h.nodup
    · rename_i hno
      have hno' : (lookup S (act g i), lookup S (act g f)) ∉ pairs acc := fun hm => hno (hasPair_iff.2 hm)
      have hno'' : (lookup S (act g f), lookup S (act g i)) ∉ pairs acc := fun hm => hno' (h.symm _ _ hm)
      split
      · rename_i hne
        rw [pairs_append, List.nodup_append]
        refine ⟨h.nodup, ?_, ?_⟩
        · simp only [pairs, List.map_cons, List.map_nil, List.nodup_cons, List.mem_cons, Prod.mk.injEq,
            List.not_mem_nil, or_false, not_false_eq_true, List.nodup_nil, and_true]
          intro ⟨h1, _⟩; exact hne h1
        · intro a ha b hb
          simp only [pairs, List.map_cons, List.map_nil, List.mem_cons, List.not_mem_nil, or_false] at hb
          rcases hb with rfl | rfl
          · exact fun e => hno' (e ▸ ha)
          · exact fun e => hno'' (e ▸ ha)
      · rw [pairs_append, List.nodup_append]
        refine ⟨h.nodup, by simp [pairs], ?_⟩
        intro a ha b hb
        simp only [pairs, List.map_cons, List.map_nil, List.mem_cons, List.not_mem_nil, or_false] at hb
        subst hb
        exact fun e => hno' (e ▸ ha)
  · intro a b hab
    rw [symmStep_mem h.symm] at hab ⊢
    rcases hab with hab | hab | hab
    · exact Or.inl (h.symm _ _ hab)
    · right; right
      simp only [Prod.mk.injEq] at hab ⊢
      exact ⟨hab.2, hab.1⟩
    · right; left
      simp only [Prod.mk.injEq] at hab ⊢
      exact ⟨hab.2, hab.1⟩

theorem foldl_symmStep_inv {S : List PS} {i f : PS} {dx : QVec} :
    ∀ (G : List Op) (acc : List JEntry), SymInv acc → SymInv (G.foldl (symmStep S i f dx) acc) := by
  intro G
  induction G with
  | nil => intro acc h; exact h
  | cons g G ih => intro acc h; exact ih _ (symmStep_inv h)

theorem foldl_symmStep_mem {S : List PS} {i f : PS} {dx : QVec} :
    ∀ (G : List Op) (acc : List JEntry), SymInv acc → ∀ p,
      (p ∈ pairs (G.foldl (symmStep S i f dx) acc) ↔
        p ∈ pairs acc ∨ ∃ g ∈ G, p = (lookup S (act g i), lookup S (act g f)) ∨
          p = (lookup S (act g f), lookup S (act g i))) := by
  intro G
  induction G with
  | nil => intro acc _ p; simp
  | cons g G ih =>
    intro acc h p
    simp only [List.foldl_cons]
    rw [ih _ (symmStep_inv h) p, symmStep_mem h.symm]
    simp only [List.mem_cons, exists_eq_or_imp]
    exact or_assoc

theorem symmEquiv_init_inv (i f : PS) (dx : QVec) :
    SymInv (if i ≠ f then [⟨some i, some f, dx⟩, ⟨some f, some i, -dx⟩] else [⟨some i, some f, dx⟩] : List JEntry) := by
  split
  · rename_i hne
    refine ⟨?_, ?_⟩
    · simp only [pairs, List.map_cons, List.map_nil, List.nodup_cons, List.mem_cons, Prod.mk.injEq,
        Option.some.injEq, List.not_mem_nil, or_false, not_false_eq_true, List.nodup_nil, and_true]
      intro ⟨h1, _⟩; exact hne h1
    · intro a b hab
      simp only [pairs, List.map_cons, List.map_nil, List.mem_cons, Prod.mk.injEq, List.not_mem_nil, or_false] at hab ⊢
      rcases hab with ⟨rfl, rfl⟩ | ⟨rfl, rfl⟩
      · exact Or.inr ⟨rfl, rfl⟩
      · exact Or.inl ⟨rfl, rfl⟩
  · rename_i he
    have he' : i = f := by simpa using he
    subst he'
    refine ⟨by simp [pairs], ?_⟩
    intro a b hab
    simp only [pairs, List.map_cons, List.map_nil, List.mem_cons, Prod.mk.injEq, List.not_mem_nil, or_false] at hab ⊢
    exact ⟨hab.2, hab.1⟩

theorem symmEquiv_inv (G : List Op) (S : List PS) (i f : PS) (dx : QVec) : SymInv (symmEquiv G S i f dx) :=
  foldl_symmStep_inv G _ (symmEquiv_init_inv i f dx)

/-- the pairs of a class never repeat -/
theorem symmEquiv_pairs_nodup (G : List Op) (S : List PS) (i f : PS) (dx : QVec) :
    (pairs (symmEquiv G S i f dx)).Nodup := (symmEquiv_inv G S i f dx).nodup

/-- a class is closed under reversal -/
theorem symmEquiv_reversal_closed (G : List Op) (S : List PS) (i f : PS) (dx : QVec) (a b : Option PS)
    (h : (a, b) ∈ pairs (symmEquiv G S i f dx)) : (b, a) ∈ pairs (symmEquiv G S i f dx) :=
  (symmEquiv_inv G S i f dx).symm a b h

/-- the pairs of a class are the generating pair, its reverse, and the (looked-up) images of
    both under every op -/
theorem mem_pairs_symmEquiv {G : List Op} {S : List PS} {i f : PS} {dx : QVec} {p : Option PS × Option PS} :
    p ∈ pairs (symmEquiv G S i f dx) ↔
      (p = (some i, some f) ∨ p = (some f, some i)) ∨
      ∃ g ∈ G, p = (lookup S (act g i), lookup S (act g f)) ∨ p = (lookup S (act g f), lookup S (act g i)) := by
  unfold symmEquiv
  simp only []
  rw [foldl_symmStep_mem G _ (symmEquiv_init_inv i f dx) p]
  have : p ∈ pairs (if i ≠ f then [⟨some i, some f, dx⟩, ⟨some f, some i, -dx⟩] else [⟨some i, some f, dx⟩] : List JEntry)
      ↔ (p = (some i, some f) ∨ p = (some f, some i)) := by
    split
    · simp [pairs]
    · rename_i he
      have he' : i = f := by simpa using he
      subst he'
      simp [pairs]
  rw [this]

/-! ### a class in a `G`-closed state set is exactly the orbit of the generating pair -/

theorem mem_pairs_symmEquiv_closed {G : List Op} {V : PS → Prop} (hG : GroupLike G V) {S : List PS}
    (hS : ∀ g ∈ G, ∀ s ∈ S, act g s ∈ S) {i f : PS} (hi : i ∈ S) (hf : f ∈ S) (hVi : V i) (hVf : V f)
    {dx : QVec} {p : Option PS × Option PS} :
    p ∈ pairs (symmEquiv G S i f dx) ↔
      ∃ g ∈ G, p = (some (act g i), some (act g f)) ∨ p = (some (act g f), some (act g i)) := by
  rw [mem_pairs_symmEquiv]
  have lk : ∀ g ∈ G, ∀ s ∈ S, lookup S (act g s) = some (act g s) := fun g hg s hs => lookup_of_mem (hS g hg s hs)
  constructor
  · rintro ((rfl | rfl) | ⟨g, hg, h⟩)
    · obtain ⟨e, he, h1⟩ := hG.one
      exact ⟨e, he, Or.inl (by rw [h1 i hVi, h1 f hVf])⟩
    · obtain ⟨e, he, h1⟩ := hG.one
      exact ⟨e, he, Or.inr (by rw [h1 i hVi, h1 f hVf])⟩
    · rw [lk g hg i hi, lk g hg f hf] at h
      exact ⟨g, hg, h⟩
  · rintro ⟨g, hg, h⟩
    right
    refine ⟨g, hg, ?_⟩
    rw [lk g hg i hi, lk g hg f hf]
    exact h

/-- **class_closed (G)**: in a `G`-closed state set every class is closed under the group -/
theorem symmEquiv_G_closed {G : List Op} {V : PS → Prop} (hG : GroupLike G V) {S : List PS}
    (hS : ∀ g ∈ G, ∀ s ∈ S, act g s ∈ S) {i f : PS} (hi : i ∈ S) (hf : f ∈ S) (hVi : V i) (hVf : V f)
    {dx : QVec} {x y : PS} (h : (some x, some y) ∈ pairs (symmEquiv G S i f dx)) {k : Op} (hk : k ∈ G) :
    (some (act k x), some (act k y)) ∈ pairs (symmEquiv G S i f dx) := by
  rw [mem_pairs_symmEquiv_closed hG hS hi hf hVi hVf] at h ⊢
  obtain ⟨g, hg, h⟩ := h
  obtain ⟨c, hc, hcomp⟩ := hG.comp k hk g hg
  refine ⟨c, hc, ?_⟩
  rw [hcomp i hVi, hcomp f hVf]
  rcases h with h | h
  · simp only [Prod.mk.injEq, Option.some.injEq] at h
    left; rw [h.1, h.2]
  · simp only [Prod.mk.injEq, Option.some.injEq] at h
    right; rw [h.1, h.2]

/-- in a `G`-closed state set no entry of a class has a missing (`None`) index -/
theorem symmEquiv_no_none {G : List Op} {V : PS → Prop} (hG : GroupLike G V) {S : List PS}
    (hS : ∀ g ∈ G, ∀ s ∈ S, act g s ∈ S) {i f : PS} (hi : i ∈ S) (hf : f ∈ S) (hVi : V i) (hVf : V f)
    {dx : QVec} {p : Option PS × Option PS} (h : p ∈ pairs (symmEquiv G S i f dx)) :
    ∃ x y, p = (some x, some y) := by
  rw [mem_pairs_symmEquiv_closed hG hS hi hf hVi hVf] at h
  obtain ⟨g, _, h | h⟩ := h
  · exact ⟨_, _, h⟩
  · exact ⟨_, _, h⟩

/-! ### displacement carried by the entries -/

/-- the entry's displacement is `δ a b` whenever both indices are present -/
def EntryOK (δ : PS → PS → QVec) (e : JEntry) : Prop := ∀ x y, e.a = some x → e.b = some y → e.dx = δ x y

theorem symmStep_dx {δ : PS → PS → QVec} {S : List PS} {i f : PS} {dx : QVec} {acc : List JEntry} {g : Op}
    (h1 : g.rot.mulQ dx = δ (act g i) (act g f)) (h2 : -(g.rot.mulQ dx) = δ (act g f) (act g i))
    (h : ∀ e ∈ acc, EntryOK δ e) : ∀ e ∈ symmStep S i f dx acc g, EntryOK δ e := by
  have n1 : EntryOK δ ⟨lookup S (act g i), lookup S (act g f), g.rot.mulQ dx⟩ := by
    intro x y hx hy
    obtain ⟨_, rfl⟩ := lookup_eq_some_iff.1 hx
    obtain ⟨_, rfl⟩ := lookup_eq_some_iff.1 hy
    exact h1
  have n2 : EntryOK δ ⟨lookup S (act g f), lookup S (act g i), -(g.rot.mulQ dx)⟩ := by
    intro x y hx hy
    obtain ⟨_, rfl⟩ := lookup_eq_some_iff.1 hx
    obtain ⟨_, rfl⟩ := lookup_eq_some_iff.1 hy
    exact h2
  unfold symmStep
  simp only []
  split
  · exact h
  · split
    · intro e he
      simp only [List.mem_append, List.mem_cons, List.not_mem_nil, or_false] at he
      rcases he with he | rfl | rfl
      · exact h e he
      · exact n1
      · exact n2
    · intro e he
      simp only [List.mem_append, List.mem_cons, List.not_mem_nil, or_false] at he
      rcases he with he | rfl
      · exact h e he
      · exact n1

/-- **dx of every entry**: if the generating displacement is `δ i f`, `δ` is antisymmetric on the
    generating pair and rotates with the ops, every entry `(a, b, dx)` has `dx = δ a b`. -/
theorem symmEquiv_dx {δ : PS → PS → QVec} {G : List Op} {S : List PS} {i f : PS} {dx : QVec}
    (h0 : dx = δ i f) (h0' : -dx = δ f i)
    (h1 : ∀ g ∈ G, g.rot.mulQ dx = δ (act g i) (act g f))
    (h2 : ∀ g ∈ G, -(g.rot.mulQ dx) = δ (act g f) (act g i)) :
    ∀ e ∈ symmEquiv G S i f dx, EntryOK δ e := by
  unfold symmEquiv
  simp only []
  have hinit : ∀ e ∈ (if i ≠ f then [⟨some i, some f, dx⟩, ⟨some f, some i, -dx⟩] else [⟨some i, some f, dx⟩] : List JEntry),
      EntryOK δ e := by
    have a1 : EntryOK δ ⟨some i, some f, dx⟩ := by
      intro x y hx hy; cases hx; cases hy; exact h0
    have a2 : EntryOK δ ⟨some f, some i, -dx⟩ := by
      intro x y hx hy; cases hx; cases hy; exact h0'
    split
    · intro e he
      simp only [List.mem_cons, List.not_mem_nil, or_false] at he
      rcases he with rfl | rfl
      · exact a1
      · exact a2
    · intro e he
      simp only [List.mem_cons, List.not_mem_nil, or_false] at he
      subst he; exact a1
  generalize (if i ≠ f then [⟨some i, some f, dx⟩, ⟨some f, some i, -dx⟩] else [⟨some i, some f, dx⟩] : List JEntry) = acc at hinit
  induction G generalizing acc with
  | nil => exact hinit
  | cons g G ih =>
    simp only [List.foldl_cons]
    exact ih (fun g' hg' => h1 g' (List.mem_cons_of_mem _ hg')) (fun g' hg' => h2 g' (List.mem_cons_of_mem _ hg')) _
      (symmStep_dx (h1 g (by simp)) (h2 g (by simp)) hinit)

end Onsager.C26
