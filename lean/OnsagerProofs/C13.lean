/-
  C13 — theorems about the save/load codecs (OnsagerModel/C13.lean).

  * `unflatten_flatten`        flatlistindex2doublelist ∘ doublelist2flatlistindex = id  IFF the last sub-list exists
                               and is non-empty (leading/middle empties are fine); `roundtrip_eq_take`: otherwise the
                               trailing empty sub-lists are silently lost; `roundtrip_error_iff`: all-empty raises
  * `array2psList_psList2array`, `psList2array_ok_iff`   pair-state arrays
  * `hsplit_hstack`, `vtk_roundtrip`                     cache dictionaries keyed by vacancyThermoKinetics
  * `jumpnetwork_roundtrip`                              (ij, dx, index) packing
  * `taylor_load_perm`, `taylor_load_order_irrelevant`   Taylor groups come back in key order; exact sums agree
  * `load_save_observational`  read-set ⊆ write-set + round-tripping codecs ⇒ every later call sequence agrees
-/
import OnsagerModel.C13
import Mathlib.Data.List.Basic
import Mathlib.Data.List.Perm.Basic
import Mathlib.Algebra.BigOperators.Group.List.Basic
import Mathlib.Tactic.Linarith

namespace Onsager.C13


/-! ### flatten / unflatten -/

theorem flattenFrom_length {α} (i : Nat) (ll : List (List α)) :
    (flattenFrom i ll).1.length = (flattenFrom i ll).2.length := by
  induction ll generalizing i with
  | nil => rfl
  | cons l r ih => simp [flattenFrom, ih]

/-- the index array lists exactly the positions of the non-empty sub-lists (shifted by `i`) -/
theorem mem_flattenFrom_index {α} (i : Nat) (ll : List (List α)) (k : Nat) :
    k ∈ (flattenFrom i ll).2 ↔ ∃ j l, ll[j]? = some l ∧ l ≠ [] ∧ k = i + j := by
  induction ll generalizing i with
  | nil => simp [flattenFrom]
  | cons l r ih =>
    simp only [flattenFrom, List.mem_append, List.mem_replicate, ih]
    constructor
    · rintro (⟨hl, rfl⟩ | ⟨j, l', hj, hne, rfl⟩)
      · exact ⟨0, l, by simp, by intro e; simp [e] at hl, by simp⟩
      · exact ⟨j + 1, l', by simpa using hj, hne, by omega⟩
    · rintro ⟨j, l', hj, hne, rfl⟩
      cases j with
      | zero =>
        simp at hj; subst hj
        left; exact ⟨by simpa using hne, by simp⟩
      | succ j => right; exact ⟨j, l', by simpa using hj, hne, by omega⟩

theorem listMax?_spec : ∀ (l : List Nat) (m : Nat), listMax? l = some m → m ∈ l ∧ ∀ k ∈ l, k ≤ m := by
  intro l
  induction l with
  | nil => intro m h; simp [listMax?] at h
  | cons a r ih =>
    intro m h
    simp only [listMax?] at h
    cases hr : listMax? r with
    | none =>
      rw [hr] at h; cases h
      cases r with
      | nil => simp
      | cons b t =>
        simp only [listMax?] at hr
        cases h2 : listMax? t <;> simp [h2] at hr
    | some m' =>
      rw [hr] at h; cases h
      obtain ⟨hm, hle⟩ := ih m' hr
      constructor
      · by_cases hc : a ≤ m'
        · rw [Nat.max_eq_right hc]; exact List.mem_cons_of_mem _ hm
        · rw [Nat.max_eq_left (by omega)]; exact List.mem_cons_self
      · intro k hk
        rcases List.mem_cons.mp hk with rfl | hk
        · exact Nat.le_max_left _ _
        · exact Nat.le_trans (hle k hk) (Nat.le_max_right _ _)

theorem listMax?_none (l : List Nat) : listMax? l = none ↔ l = [] := by
  cases l with
  | nil => simp [listMax?]
  | cons a r =>
    simp only [listMax?]
    cases listMax? r <;> simp

theorem foldl_appendAt_length {α} (ps : List (α × Nat)) (acc : List (List α)) :
    (ps.foldl appendAt acc).length = acc.length := by
  induction ps generalizing acc with
  | nil => rfl
  | cons p r ih => simp [List.foldl_cons, ih, appendAt]

/-- appending a block that carries one and the same index -/
theorem foldl_appendAt_block {α} (l : List α) (i : Nat) (acc : List (List α)) :
    ((l.zip (List.replicate l.length i)).foldl appendAt acc) = acc.modify i (· ++ l) := by
  induction l generalizing acc with
  | nil =>
    simp only [List.length_nil, List.replicate_zero, List.zip_nil_right, List.foldl_nil, List.append_nil]
    exact (List.modify_id i acc).symm
  | cons x r ih =>
    simp only [List.length_cons, List.replicate_succ, List.zip_cons_cons, List.foldl_cons]
    rw [ih]
    simp only [appendAt, List.modify_modify_eq]
    congr 1
    funext y; simp

/-- effect of replaying a whole flattened structure: sub-list `j` is appended at position `i + j` -/
def placeAll {α} (acc : List (List α)) (i : Nat) : List (List α) → List (List α)
  | [] => acc
  | l :: r => placeAll (acc.modify i (· ++ l)) (i + 1) r

theorem foldl_flattenFrom {α} (i : Nat) (ll : List (List α)) (acc : List (List α)) :
    (((flattenFrom i ll).1.zip (flattenFrom i ll).2).foldl appendAt acc) = placeAll acc i ll := by
  induction ll generalizing i acc with
  | nil => simp [flattenFrom, placeAll]
  | cons l r ih =>
    simp only [flattenFrom, placeAll]
    rw [List.zip_append (by simp), List.foldl_append, foldl_appendAt_block, ih]

theorem placeAll_length {α} (acc : List (List α)) (i : Nat) (ll : List (List α)) :
    (placeAll acc i ll).length = acc.length := by
  induction ll generalizing acc i with
  | nil => rfl
  | cons l r ih => simp [placeAll, ih]

theorem placeAll_getD {α} (acc : List (List α)) (i : Nat) (ll : List (List α)) (j : Nat) (hj : j < acc.length) :
    (placeAll acc i ll).getD j [] = acc.getD j [] ++ (if i ≤ j then ll.getD (j - i) [] else []) := by
  induction ll generalizing acc i with
  | nil => simp [placeAll]
  | cons l r ih =>
    simp only [placeAll]
    rw [ih _ _ (by simpa using hj)]
    simp only [List.getD_eq_getElem?_getD, List.getElem?_modify]
    by_cases h1 : i = j
    · subst h1
      simp [List.getElem?_eq_getElem hj]
    · by_cases h2 : i ≤ j
      · have h3 : i + 1 ≤ j := by omega
        have : j - i = (j - (i + 1)) + 1 := by omega
        simp [h1, h2, h3, this]
      · have h3 : ¬ (i + 1 ≤ j) := by omega
        simp [h1, h2, h3]

/-- replaying into `n` empty slots reproduces the first `n` sub-lists -/
theorem placeAll_replicate {α} (ll : List (List α)) (n : Nat) (hn : n ≤ ll.length) :
    placeAll (List.replicate n []) 0 ll = ll.take n := by
  apply List.ext_getElem
  · simp [placeAll_length, hn]
  · intro j h1 h2
    have hj : j < n := by simpa [placeAll_length] using h1
    have := placeAll_getD (List.replicate n ([] : List α)) 0 ll j (by simpa using hj)
    simp only [List.getD_eq_getElem?_getD, Nat.zero_le, if_true, Nat.sub_zero] at this
    rw [List.getElem?_eq_getElem h1, List.getElem?_replicate] at this
    simp only [hj, if_true, Option.getD_some, List.nil_append] at this
    rw [this, List.getElem_take]
    have : j < ll.length := by omega
    simp [List.getElem?_eq_getElem this]

/-- **general form**: whenever the round trip does not raise, it returns the structure with its trailing empty
    sub-lists cut off — `m` is the position of the last non-empty sub-list. -/
theorem roundtrip_eq_take {α} (ll : List (List α)) (m : Nat) (hm : listMax? (flatten ll).2 = some m) :
    roundtrip ll = .ok (ll.take (m + 1)) ∧ m < ll.length := by
  obtain ⟨hmem, -⟩ := listMax?_spec _ _ hm
  obtain ⟨j, l, hj, -, rfl⟩ := (mem_flattenFrom_index 0 ll m).mp hmem
  have hlt : 0 + j < ll.length := by
    have := List.getElem?_eq_some_iff.mp hj
    obtain ⟨h, -⟩ := this; omega
  refine ⟨?_, hlt⟩
  unfold roundtrip unflatten
  rw [hm]
  simp only [flatten]
  rw [foldl_flattenFrom, placeAll_replicate ll _ (by omega)]

/-- **the round trip raises exactly when no sub-list has an element** (`max()` of an empty index array) -/
theorem roundtrip_error_iff {α} (ll : List (List α)) :
    (∃ e, roundtrip ll = .error e) ↔ ∀ l ∈ ll, l = [] := by
  unfold roundtrip unflatten
  cases hm : listMax? (flatten ll).2 with
  | none =>
    have hnil := (listMax?_none _).mp hm
    constructor
    · intro _ l hl
      by_contra hne
      obtain ⟨j, hj, rfl⟩ := List.getElem_of_mem hl
      have : 0 + j ∈ (flattenFrom 0 ll).2 :=
        (mem_flattenFrom_index 0 ll (0 + j)).mpr ⟨j, ll[j], List.getElem?_eq_getElem hj, hne, rfl⟩
      simp only [flatten] at hnil
      rw [hnil] at this; cases this
    · intro _; exact ⟨_, rfl⟩
  | some m =>
    constructor
    · rintro ⟨e, he⟩; cases he
    · intro hall
      obtain ⟨hmem, -⟩ := listMax?_spec _ _ hm
      obtain ⟨j, l, hj, hne, -⟩ := (mem_flattenFrom_index 0 ll m).mp hmem
      exact absurd (hall l (List.mem_of_getElem? hj)) hne

/-- **`unflatten_flatten`: the exact precondition.**  `flatlistindex2doublelist(*doublelist2flatlistindex(ll))`
    returns `ll` if and only if `ll` has a last sub-list and that sub-list is not empty.
    (Leading and middle empty sub-lists are reproduced; trailing ones are lost; all-empty raises.) -/
theorem unflatten_flatten {α} (ll : List (List α)) : roundtrip ll = .ok ll ↔ FlattenPre ll := by
  constructor
  · intro h
    cases hm : listMax? (flatten ll).2 with
    | none =>
      have : ∃ e, roundtrip ll = .error e := by
        unfold roundtrip unflatten; rw [hm]; exact ⟨_, rfl⟩
      obtain ⟨e, he⟩ := this
      rw [h] at he; cases he
    | some m =>
      obtain ⟨hr, hlt⟩ := roundtrip_eq_take ll m hm
      rw [h] at hr
      have hlen : ll.length = m + 1 := by
        have := congrArg List.length (Except.ok.inj hr)
        simp at this; omega
      -- the last position is m, and m is the position of a non-empty sub-list
      obtain ⟨hmem, -⟩ := listMax?_spec _ _ hm
      obtain ⟨j, l, hj, hne, hmj⟩ := (mem_flattenFrom_index 0 ll m).mp hmem
      refine ⟨l, ?_, hne⟩
      rw [List.getLast?_eq_getElem?, hlen]
      have : m + 1 - 1 = j := by omega
      rw [this]; exact hj
  · rintro ⟨l, hl, hne⟩
    have hpos : 0 < ll.length := by
      cases ll with
      | nil => simp at hl
      | cons a r => simp
    rw [List.getLast?_eq_getElem?] at hl
    have hmem : ll.length - 1 ∈ (flatten ll).2 := by
      simp only [flatten]
      exact (mem_flattenFrom_index 0 ll _).mpr ⟨ll.length - 1, l, hl, hne, by omega⟩
    cases hm : listMax? (flatten ll).2 with
    | none => rw [(listMax?_none _).mp hm] at hmem; cases hmem
    | some m =>
      obtain ⟨hr, hlt⟩ := roundtrip_eq_take ll m hm
      obtain ⟨-, hle⟩ := listMax?_spec _ _ hm
      have := hle _ hmem
      have hm1 : m + 1 = ll.length := by omega
      rw [hr, hm1, List.take_length]

/-- a witness where the round trip silently loses data -/
example : roundtrip [[1], ([] : List Nat)] = .ok [[1]] := by decide
example : roundtrip [([] : List Nat), [1, 2], [], [3]] = .ok [[], [1, 2], [], [3]] := by decide
example : ∃ e, roundtrip ([] : List (List Nat)) = .error e := ⟨_, rfl⟩


/-! ### pair states -/

theorem map_zip3_self {α β} (L : List α) (g : α × α × α → β) (f : α → β) (hg : ∀ p, g (p, p, p) = f p) :
    List.map g (L.zip (L.zip L)) = L.map f := by
  induction L with
  | nil => rfl
  | cons a r ih => simp [hg, ih]

/-- **`array2PSlist ∘ PSlist2array = id`** on every list the writer accepts (non-empty, uniform dimension) -/
theorem array2psList_psList2array {α} (l : List (PS α)) (ij R : List (List Int)) (dx : List (List α))
    (h : psList2array l = .ok (ij, R, dx)) : array2psList ij R dx = l := by
  unfold psList2array at h
  cases l with
  | nil => cases h
  | cons p0 r =>
    simp only at h
    split at h
    · cases h
      unfold array2psList
      simp only [List.zip_map, List.map_map]
      rw [map_zip3_self (p0 :: r) _ id (by intro p; simp)]
      simp
    · cases h

/-- the writer accepts exactly the non-empty lists of uniform dimension -/
theorem psList2array_ok_iff {α} (l : List (PS α)) :
    (∃ a, psList2array l = .ok a) ↔ ∃ p0 r, l = p0 :: r ∧ ∀ p ∈ l, p.R.length = p0.R.length ∧ p.dx.length = p0.R.length := by
  unfold psList2array
  cases l with
  | nil => simp
  | cons p0 r =>
    simp only
    constructor
    · intro ⟨a, h⟩
      split at h
      · rename_i hall
        refine ⟨p0, r, rfl, ?_⟩
        intro p hp
        have := List.all_eq_true.mp hall p hp
        simpa using this
      · cases h
    · rintro ⟨p0', r', he, hall⟩
      cases he
      have : ((p0 :: r).all fun p => p.R.length == p0.R.length && p.dx.length == p0.R.length) = true := by
        apply List.all_eq_true.mpr
        intro p hp; simpa using hall p hp
      simp [this]

/-! ### vTK dictionaries -/

theorem hsplit_hstack {α} (k : VTK α) : hsplit k.hstack k.splits = [k.pre, k.betaene, k.preT, k.betaeneT] := by
  obtain ⟨a, b, c, d⟩ := k
  simp only [hsplit, hsplitFrom, VTK.hstack, VTK.splits, List.drop_zero, Nat.sub_zero]
  have d1 : (a ++ b ++ c ++ d).drop a.length = b ++ (c ++ d) := by
    rw [List.append_assoc, List.append_assoc]; exact List.drop_left' rfl
  have d2 : (a ++ b ++ c ++ d).drop (a.length + b.length) = c ++ d := by
    rw [List.append_assoc]; exact List.drop_left' (by simp)
  have d3 : (a ++ b ++ c ++ d).drop (a.length + b.length + c.length) = d :=
    List.drop_left' (by simp; omega)
  have t1 : (a ++ b ++ c ++ d).take a.length = a := by
    rw [List.append_assoc, List.append_assoc]; exact List.take_left' rfl
  have t2 : (b ++ (c ++ d)).take (a.length + b.length - a.length) = b := List.take_left' (by omega)
  have t3 : (c ++ d).take (a.length + b.length + c.length - (a.length + b.length)) = c := List.take_left' (by omega)
  rw [d1, d2, d3, t1, t2, t3]

/-- splitting with the splits of ANOTHER key of the same shape gives the key back -/
theorem rowToVTK_hstack {α} (k k0 : VTK α) (hs : k.sameShape k0) : rowToVTK k.hstack k0.splits = some k := by
  obtain ⟨h1, h2, h3⟩ := hs
  have : k0.splits = k.splits := by simp [VTK.splits, h1, h2, h3]
  rw [this]
  simp [rowToVTK, hsplit_hstack]

theorem mapM_rows {α β} (k0 : VTK α) (d : List (VTK α × β)) (hs : ∀ e ∈ d, e.1.sameShape k0) :
    ((d.map (·.1.hstack)).zip (d.map (·.2))).mapM (fun (r, v) => (rowToVTK r k0.splits).map (·, v)) = some d := by
  induction d with
  | nil => rfl
  | cons e r ih =>
    have h1 := rowToVTK_hstack e.1 k0 (hs e List.mem_cons_self)
    have h2 := ih (fun e' he' => hs e' (List.mem_cons_of_mem _ he'))
    simp only [List.map_cons, List.zip_cons_cons, List.mapM_cons, h1, Option.map_some, h2]
    rfl

/-- **`arrays2vTKdict ∘ vTKdict2arrays = id`** when all keys have the shape of the first one (true inside one
    calculator: every key has one entry per Wyckoff set and one per omega0 class); the empty dictionary too. -/
theorem vtk_roundtrip {α β} (d : List (VTK α × β))
    (hs : ∀ k0 v0 r, d = (k0, v0) :: r → ∀ e ∈ d, e.1.sameShape k0) :
    arrays2vtkDict (vtkDict2arrays d) = some d := by
  cases d with
  | nil => rfl
  | cons e r =>
    obtain ⟨k0, v0⟩ := e
    simp only [vtkDict2arrays, arrays2vtkDict]
    exact mapM_rows k0 _ (hs k0 v0 r rfl)

/-- a witness that the shape hypothesis is needed: same total length, different partition -/
example : arrays2vtkDict (vtkDict2arrays [((⟨[1], [2, 3], [4], [5]⟩ : VTK Nat), 0), (⟨[6, 7], [8], [9], [10]⟩, 1)])
    ≠ some [(⟨[1], [2, 3], [4], [5]⟩, 0), (⟨[6, 7], [8], [9], [10]⟩, 1)] := by decide

/-! ### jump networks -/

theorem zip_map_fst_snd {α β} (l : List (α × β)) : (l.map (·.1)).zip (l.map (·.2)) = l := by
  induction l with
  | nil => rfl
  | cons a r ih => simp [ih]

/-- **jump-network packing round trip** (each symmetry class of jumps is non-empty, so `FlattenPre` holds) -/
theorem jumpnetwork_roundtrip {α} (jn : List (List (Jump α))) (hp : FlattenPre jn) :
    unpackJN (packJN jn) = .ok jn := by
  unfold unpackJN packJN
  simp only [zip_map_fst_snd]
  exact (unflatten_flatten jn).mpr hp

/-! ### Taylor coefficient groups -/

theorem insertByKey_perm {γ} (x : Int × Nat × γ) (l : List (Int × Nat × γ)) : (insertByKey x l).Perm (x :: l) := by
  induction l with
  | nil => exact List.Perm.refl _
  | cons y r ih =>
    simp only [insertByKey]
    split
    · exact List.Perm.refl _
    · exact (List.Perm.cons y ih).trans (List.Perm.swap x y r)

/-- the loaded coefficient list is a permutation of the saved one (h5py yields the datasets sorted by name) -/
theorem taylor_load_perm {γ} (cl : List (Int × Nat × γ)) : (taylorLoad cl).Perm cl := by
  induction cl with
  | nil => exact List.Perm.refl _
  | cons x r ih => exact (insertByKey_perm x _).trans (List.Perm.cons x ih)

/-- **evaluation and `sumcoeff` do not depend on the order of the coefficient list** — exact arithmetic
    (any commutative monoid of values); in floating point the summation order can differ, see the harness. -/
theorem taylor_load_order_irrelevant {γ M} [AddCommMonoid M] (term : Int × Nat × γ → M) (cl : List (Int × Nat × γ)) :
    ((taylorLoad cl).map term).sum = (cl.map term).sum :=
  ((taylor_load_perm cl).map term).sum_eq

theorem taylorLoadSrc_perm {γ} (b : Bool) (cl : List (Int × Nat × γ)) : (taylorLoadSrc b cl).Perm cl := by
  cases b
  · exact taylor_load_perm cl
  · exact List.Perm.refl _

/-- with the saved positions restored the reloaded expansion IS the saved one (same order: bit-identical sums) -/
theorem taylorLoadSrc_restored {γ} (cl : List (Int × Nat × γ)) : taylorLoadSrc true cl = cl := rfl

/-! ### observational equivalence of the reloaded object -/

def agreeOn {V} (R : List Nat) (o o' : Obj V) : Prop := ∀ a ∈ R, o a = o' a

/-- a (possibly cache-updating) result method that looks only at the attributes in `R` -/
def ReadsOnly {V I O} (R : List Nat) (step : Obj V → I → Obj V × O) : Prop :=
  ∀ o o' x, agreeOn R o o' → (step o x).2 = (step o' x).2 ∧ agreeOn R (step o x).1 (step o' x).1

theorem outputs_congr {V I O} (R : List Nat) (step : Obj V → I → Obj V × O) (hstep : ReadsOnly R step)
    (xs : List I) : ∀ o o', agreeOn R o o' → outputs step o xs = outputs step o' xs := by
  induction xs with
  | nil => intro _ _ _; rfl
  | cons x r ih =>
    intro o o' h
    obtain ⟨h1, h2⟩ := hstep o o' x h
    simp only [outputs, h1, ih _ _ h2]

theorem saveLoad_agree {V S} (R W : List Nat) (enc : Nat → V → S) (dec : Nat → S → V) (junk o : Obj V)
    (hsub : ∀ a ∈ R, a ∈ W) (hrt : ∀ a ∈ W, dec a (enc a (o a)) = o a) :
    agreeOn R (saveLoad W enc dec junk o) o := by
  intro a ha
  simp only [saveLoad, if_pos (hsub a ha)]
  exact hrt a (hsub a ha)

/-- **`load_save_observational`**: if every attribute in the read-set of the result methods is in the write-set of
    `loadhdf5`, and the codec of every written attribute round-trips on this object's value, then EVERY later
    sequence of calls gives the same results on the reloaded object as on the original — including calls that
    update state (caches) inside the read-set.  Attributes outside the read-set may be anything. -/
theorem load_save_observational {V S I O} (R W : List Nat) (enc : Nat → V → S) (dec : Nat → S → V)
    (junk o : Obj V) (step : Obj V → I → Obj V × O)
    (hsub : ∀ a ∈ R, a ∈ W) (hrt : ∀ a ∈ W, dec a (enc a (o a)) = o a) (hstep : ReadsOnly R step) (xs : List I) :
    outputs step (saveLoad W enc dec junk o) xs = outputs step o xs :=
  outputs_congr R step hstep xs _ _ (saveLoad_agree R W enc dec junk o hsub hrt)

/-- the hypothesis `R ⊆ W` cannot be dropped: an attribute that is read but not written changes the result -/
example : ∃ (o junk : Obj Nat) (step : Obj Nat → Unit → Obj Nat × Nat),
    ReadsOnly [7] step ∧ outputs step (saveLoad [] (fun _ v => v) (fun _ v => v) junk o) [()] ≠ outputs step o [()] :=
  ⟨fun _ => 1, fun _ => 0, fun o _ => (o, o 7),
   fun o o' _ h => ⟨h 7 (by simp), h⟩, by simp [outputs, saveLoad]⟩

end Onsager.C13
