/-
  C16 — the tie, assembled: the tables dumped from the live classes satisfy every executable obligation
  (C16Tie3a–e, C16Tie2: kernel evaluation), hence (C16Sound.sem_of_checks: theorem) the semantic facts
  `Tab.Sem` that all evaluation theorems of OnsagerProofs/C16.lean and C16Proj.lean assume.
  Also: the witness that the product rule needs its guard, and non-vacuity examples.
-/
import OnsagerProofs.C16Sound
import OnsagerProofs.C16Proj
import OnsagerProofs.C16Tie3a
import OnsagerProofs.C16Tie3b
import OnsagerProofs.C16Tie3c
import OnsagerProofs.C16Tie3d
import OnsagerProofs.C16Tie3e
import OnsagerProofs.C16Tie2

namespace Onsager.C16
open Generated.C16

/-- the tables of the live `Taylor3D` class satisfy the hypotheses of the evaluation theorems -/
theorem tab3_sem : tab3.Sem :=
  sem_of_checks tab3 cert3 tab3_sizes tab3_graded tab3_dmult tab3_pcoef_powers tab3_r2 tab3_proj_all tab3_proj_sep

/-- the tables of the live `Taylor2D` class satisfy the hypotheses of the evaluation theorems -/
theorem tab2_sem : tab2.Sem :=
  sem_of_checks tab2 cert2 tab2_sizes tab2_graded tab2_dmult tab2_pcoef_powers tab2_r2 tab2_proj_all tab2_proj_sep

/-- blocks `y³` (order 3) and `y²` (order 2): combined order 5 > Lmax = 4 -/
def witA : Coeffs ℚ := [(0, 3, (List.range 20).map fun p => if p = 13 then 1 else 0)]
def witB : Coeffs ℚ := [(0, 2, (List.range 10).map fun p => if p = 6 then 1 else 0)]

/-- **the guard of `eval_mul` is needed**: beyond `l_a + l_b ≤ Lmax`, `directmult = -1` makes numpy write into the
    LAST coefficient (`x⁴`), so the product of the expansions `y³` and `y²` evaluates at `u = (0,1,0)` to `0`,
    not to `1·1`. -/
theorem eval_mul_guard_needed :
    wfC tab3 witA = true ∧ wfC tab3 witB = true ∧ mulGuard tab3 witA witB = false ∧
    coeffproduct tab3 witA witB = [(0, 4, (List.range 35).map fun p => if p = 34 then 1 else 0)] ∧
    dotFrom tab3 [0, 1, 0] 0 ((List.range 35).map fun p => if p = 34 then (1 : ℚ) else 0) = 0 ∧
    dotFrom tab3 [0, 1, 0] 0 ((List.range 20).map fun p => if p = 13 then (1 : ℚ) else 0) = 1 ∧
    dotFrom tab3 [0, 1, 0] 0 ((List.range 10).map fun p => if p = 6 then (1 : ℚ) else 0) = 1 := by
  have hfold : (witA.flatMap fun ea => witB.map fun eb => prodEntry tab3 ea eb).foldl mergeIn []
      = [(0, 4, (List.range 35).map fun p => if p = 34 then (1 : ℚ) else 0)] := by decide +kernel
  have hprod : coeffproduct tab3 witA witB = [(0, 4, (List.range 35).map fun p => if p = 34 then 1 else 0)] := by
    unfold coeffproduct
    rw [if_neg (by decide), if_neg (by decide), hfold]
    simp [sortC]
  have e20 : tab3.expo 34 = [4, 0, 0] := by decide +kernel
  have e19 : tab3.expo 13 = [0, 3, 0] := by decide +kernel
  have e9 : tab3.expo 6 = [0, 2, 0] := by decide +kernel
  refine ⟨by decide +kernel, by decide +kernel, by decide +kernel, hprod, ?_, ?_, ?_⟩
  · rw [dotFrom_rat_range, Finset.sum_eq_single 34 (fun b _ hb => by simp [hb])
      (fun h => absurd (Finset.mem_range.mpr (by norm_num)) h)]
    simp [Tab.mono, e20]
  · rw [dotFrom_rat_range, Finset.sum_eq_single 13 (fun b _ hb => by simp [hb])
      (fun h => absurd (Finset.mem_range.mpr (by norm_num)) h)]
    simp [Tab.mono, e19]
  · rw [dotFrom_rat_range, Finset.sum_eq_single 6 (fun b _ hb => by simp [hb])
      (fun h => absurd (Finset.mem_range.mpr (by norm_num)) h)]
    simp [Tab.mono, e9]

/-! ### non-vacuity: the hypotheses of the theorems are satisfiable by non-trivial values -/

/-- a rational point on the unit sphere -/
example : OnSphere tab3 [3/13, 4/13, 12/13] := by
  refine ⟨by decide +kernel, ?_⟩
  norm_num

example : OnSphere tab2 [3/5, 4/5] := by
  refine ⟨by decide +kernel, ?_⟩
  norm_num

/-- a multiplicative radial factor: `pw n = 2^n` -/
example : ∀ n m : Int, (fun k : Int => (2 : ℚ) ^ k) (n + m) = (fun k : Int => (2 : ℚ) ^ k) n * (fun k : Int => (2 : ℚ) ^ k) m := by
  intro n m; exact zpow_add₀ (by norm_num) n m

/-- a shape-consistent pair of expansions inside the product guard -/
example : WF tab3 witB ∧ mulGuard tab3 witB witB = true := by
  refine ⟨(wfC_iff tab3 witB).mp (by decide +kernel), by decide +kernel⟩

/-- the product rule instantiated on the live 3-D tables (scalar coefficients) -/
example (u : List ℚ) (a b : Coeffs ℚ) (ha : WF tab3 a) (hb : WF tab3 b) (hg : mulGuard tab3 a b = true) :
    eval tab3 u (fun k : Int => (2 : ℚ) ^ k) (coeffproduct tab3 a b)
      = eval tab3 u (fun k : Int => (2 : ℚ) ^ k) a * eval tab3 u (fun k : Int => (2 : ℚ) ^ k) b :=
  eval_mul tab3 tab3_sem u _ (fun n m => zpow_add₀ (by norm_num) n m) a b ha hb hg

end Onsager.C16
