/-
  C16 — evaluation theorems, part 2: reduce / collect / separate on the unit sphere, and
  `constructexpansion` = direct power series.  (Part 1: OnsagerProofs/C16.lean.)
-/
import OnsagerProofs.C16

namespace Onsager.C16

open Finset

variable {K M : Type} [CommRing K] [Ring M] [Algebra K M]

/-! ### projections: reduce / collect / separate (on the unit sphere) -/

/-- rows `p' < r0` of `P[:, :r] · c`, evaluated -/
theorem dotFrom_rows (T : Tab K) (u : List K) (P : Nat → Nat → K) (r0 r : Nat) (c : List M) :
    dotFrom T u 0 ((List.range r0).map fun p' => ((List.range r).map fun p => P p' p • c.getD p 0).sum)
      = ∑ p ∈ range r, (∑ p' ∈ range r0, T.mono u p' * P p' p) • c.getD p 0 := by
  rw [dotFrom_map_range]
  simp only [lsum_range, Finset.smul_sum, smul_smul, Finset.sum_smul]
  rw [Finset.sum_comm]

theorem matVec_take (P : Nat → Nat → K) (r0 r : Nat) (c : List M) (h : r0 ≤ r) :
    (matVec P r c).take r0
      = (List.range r0).map fun p' => ((List.range r).map fun p => P p' p • c.getD p 0).sum := by
  unfold matVec
  rw [← List.map_take, List.take_range, Nat.min_eq_left h]

theorem length_matVec (P : Nat → Nat → K) (r : Nat) (c : List M) : (matVec P r c).length = r := by
  simp [matVec]

/-- the simplification projector does not change the value of a block on the unit sphere -/
theorem dotFrom_projAll (T : Tab K) (hT : T.Sem) (u : List K) (hu : OnSphere T u) (l : Nat) (c : List M)
    (hl : l ≤ T.lmax) (hc : c.length = T.phi l) :
    dotFrom T u 0 (matVec (T.proj (T.lmax + 1)) (T.phi l) c) = dotFrom T u 0 c := by
  have h := matVec_take (T.proj (T.lmax + 1)) (T.phi l) (T.phi l) c (le_refl _)
  rw [List.take_of_length_le (by rw [length_matVec])] at h
  rw [h, dotFrom_rows, dotFrom_eq_sum, hc]
  apply Finset.sum_congr rfl
  intro p hp
  rw [hT.proj_ok l p u hl (Finset.mem_range.mp hp) hu, Nat.zero_add]

theorem plo_succ (T : Tab K) (l : Nat) : T.plo (l + 1) = T.phi l := rfl

theorem dotFrom_take_trimL (T : Tab K) (hT : T.Sem) (u : List K) (isz : M → Bool)
    (hz : ∀ x, isz x = true → x = 0) (c : List M) : ∀ l, l ≤ T.lmax →
    dotFrom T u 0 (c.take (T.phi (trimL T isz c l))) = dotFrom T u 0 (c.take (T.phi l)) := by
  intro l
  induction l with
  | zero => intro _; rfl
  | succ l ih =>
    intro hl
    unfold trimL
    by_cases hb : blockZero T isz c (l + 1) = true
    · rw [if_pos hb, ih (by omega)]
      have hmono : T.phi l ≤ T.phi (l + 1) := hT.phi_mono l (l + 1) (by omega) hl
      have hsplit : T.phi (l + 1) = T.phi l + (T.phi (l + 1) - T.phi l) := by omega
      rw [hsplit, List.take_add, dotFrom_append]
      have hzero : ∀ x ∈ (c.drop (T.phi l)).take (T.phi (l + 1) - T.phi l), x = 0 := by
        intro x hx
        have := (List.all_eq_true.mp hb) x (by simpa [plo_succ] using hx)
        exact hz x this
      rw [dotFrom_all_zero T u _ _ hzero, add_zero]
    · rw [if_neg hb]

theorem all_isz_zero (isz : M → Bool) (hz : ∀ x, isz x = true → x = 0) (c : List M)
    (h : c.all isz = true) : ∀ x ∈ c, x = 0 :=
  fun x hx => hz x (List.all_eq_true.mp h x hx)

/-- what `reducecoeff` does to one entry -/
theorem evalE_reduceE (T : Tab K) (hT : T.Sem) (u : List K) (hu : OnSphere T u) (pw : Int → K)
    (isz : M → Bool) (hz : ∀ x, isz x = true → x = 0) (e : Entry M)
    (hc : e.2.2.length = T.phi e.2.1) (hl : e.2.1 ≤ T.lmax) :
    eval T u pw (reduceE T isz e).toList = evalE T u pw e := by
  unfold reduceE
  have hproj := dotFrom_projAll T hT u hu e.2.1 e.2.2 hl hc
  by_cases h0 : (matVec (T.proj (T.lmax + 1)) (T.phi e.2.1) e.2.2).all isz = true
  · simp only [h0, if_true, Option.toList_none, eval_nil]
    rw [dotFrom_all_zero T u _ 0 (all_isz_zero isz hz _ h0)] at hproj
    simp [evalE, ← hproj]
  · simp only [h0, Bool.false_eq_true, if_false, Option.toList_some, eval_cons, eval_nil, add_zero]
    show pw e.1 • dotFrom T u 0 (List.take _ _) = pw e.1 • dotFrom T u 0 e.2.2
    rw [dotFrom_take_trimL T hT u isz hz _ e.2.1 hl,
      List.take_of_length_le (by rw [length_matVec]), hproj]

theorem eval_filterMap (T : Tab K) (u : List K) (pw : Int → K) (f : Entry M → Option (Entry M)) :
    ∀ (a : Coeffs M), eval T u pw (a.filterMap f) = (a.map fun e => eval T u pw (f e).toList).sum := by
  intro a
  induction a with
  | nil => simp
  | cons e a ih =>
    rw [List.filterMap_cons]
    cases h : f e with
    | none => simp [ih, h]
    | some e' => simp [ih, h]

/-- **reduce**: on the unit sphere `reducecoeff` does not change the value -/
theorem eval_reduce (T : Tab K) (hT : T.Sem) (u : List K) (hu : OnSphere T u) (pw : Int → K)
    (isz : M → Bool) (hz : ∀ x, isz x = true → x = 0) (a : Coeffs M) (ha : WF T a) :
    eval T u pw (reducecoeff T isz a) = eval T u pw a := by
  unfold reducecoeff
  rw [eval_filterMap]
  unfold eval
  congr 1
  apply List.map_congr_left
  intro e he
  exact evalE_reduceE T hT u hu pw isz hz e (ha e he).1 (ha e he).2

/-- `reducecoeff` keeps the shape discipline -/
theorem wf_reduce (T : Tab K) (hT : T.Sem) (isz : M → Bool) (a : Coeffs M) (ha : WF T a) :
    WF T (reducecoeff T isz a) := by
  have htrim : ∀ (c : List M) l, trimL T isz c l ≤ l := by
    intro c l
    induction l with
    | zero => simp [trimL]
    | succ l ih => unfold trimL; split <;> omega
  intro e' he'
  simp only [reducecoeff, List.mem_filterMap] at he'
  obtain ⟨e, he, hr⟩ := he'
  unfold reduceE at hr
  by_cases h0 : (matVec (T.proj (T.lmax + 1)) (T.phi e.2.1) e.2.2).all isz = true
  · simp [h0] at hr
  · simp only [h0, Bool.false_eq_true, if_false, Option.some.injEq] at hr
    subst hr
    have hl := (ha e he).2
    have h1 := htrim (matVec (T.proj (T.lmax + 1)) (T.phi e.2.1) e.2.2) e.2.1
    refine ⟨?_, by simp only; omega⟩
    simp only [List.length_take, length_matVec]
    exact Nat.min_eq_left (hT.phi_mono _ _ h1 hl)

theorem keyLE_trans (a b c : Entry M) : keyLE a b = true → keyLE b c = true → keyLE a c = true := by
  simp only [keyLE, Bool.or_eq_true, decide_eq_true_eq, Bool.and_eq_true, beq_iff_eq]
  intro h1 h2
  rcases h1 with h1 | ⟨h1, h1'⟩ <;> rcases h2 with h2 | ⟨h2, h2'⟩
  · left; omega
  · left; omega
  · left; omega
  · right; exact ⟨by omega, by omega⟩

theorem keyLE_total (a b : Entry M) : (keyLE a b || keyLE b a) = true := by
  simp only [keyLE, Bool.or_eq_true, decide_eq_true_eq, Bool.and_eq_true, beq_iff_eq]
  by_cases h : a.1 < b.1
  · left; left; exact h
  · by_cases h' : b.1 < a.1
    · right; left; exact h'
    · have : a.1 = b.1 := by omega
      by_cases h2 : a.2.1 ≤ b.2.1
      · left; right; exact ⟨this, h2⟩
      · right; right; exact ⟨this.symm, by omega⟩

theorem sortC_sorted (a : Coeffs M) : (sortC a).Pairwise (fun x y => keyLE x y = true) :=
  List.pairwise_mergeSort keyLE_trans keyLE_total a

theorem wf_sortC (T : Tab K) (a : Coeffs M) (ha : WF T a) : WF T (sortC a) := by
  intro e he
  exact ha e ((List.mergeSort_perm a keyLE).mem_iff.mp he)

theorem eval_collectGo (T : Tab K) (hT : T.Sem) (u : List K) (hu : OnSphere T u) (pw : Int → K)
    (isz : M → Bool) (hz : ∀ x, isz x = true → x = 0) : ∀ (rest : Coeffs M) (e : Entry M),
    WF T (e :: rest) → (e :: rest).Pairwise (fun x y => keyLE x y = true) →
    eval T u pw (collectGo T isz e rest) = evalE T u pw e + eval T u pw rest := by
  intro rest
  induction rest with
  | nil =>
    intro e hw _
    have hproj := dotFrom_projAll T hT u hu e.2.1 e.2.2 (hw e (by simp)).2 (hw e (by simp)).1
    unfold collectGo
    by_cases h0 : (matVec (T.proj (T.lmax + 1)) (T.phi e.2.1) e.2.2).all isz = true
    · rw [dotFrom_all_zero T u _ 0 (all_isz_zero isz hz _ h0)] at hproj
      simp [h0, evalE, ← hproj]
    · simp [h0]
  | cons e' rest ih =>
    intro e hw hs
    have hwe := hw e (by simp)
    have hwe' := hw e' (by simp)
    have hproj := dotFrom_projAll T hT u hu e.2.1 e.2.2 hwe.2 hwe.1
    have hs' : (e' :: rest).Pairwise (fun x y => keyLE x y = true) := (List.pairwise_cons.mp hs).2
    have hw' : WF T (e' :: rest) := fun x hx => hw x (by simp [hx])
    unfold collectGo
    by_cases h0 : (matVec (T.proj (T.lmax + 1)) (T.phi e.2.1) e.2.2).all isz = true
    · rw [dotFrom_all_zero T u _ 0 (all_isz_zero isz hz _ h0)] at hproj
      simp only [h0, if_true]
      rw [ih e' hw' hs', eval_cons]
      simp [evalE, ← hproj]
    · simp only [h0, Bool.false_eq_true, if_false]
      by_cases hn : e'.1 = e.1
      · simp only [hn, if_true]
        -- sortedness: same n, so l ≤ l'
        have hle : e.2.1 ≤ e'.2.1 := by
          have hk := (List.pairwise_cons.mp hs).1 e' (by simp)
          simp only [keyLE, Bool.or_eq_true, decide_eq_true_eq, Bool.and_eq_true, beq_iff_eq] at hk
          rcases hk with hk | ⟨_, hk⟩
          · omega
          · exact hk
        have hlen : (addPad e'.2.2 (matVec (T.proj (T.lmax + 1)) (T.phi e.2.1) e.2.2)).length = T.phi e'.2.1 := by
          rw [length_addPad, length_matVec, hwe'.1]
          exact Nat.max_eq_left (hT.phi_mono _ _ hle hwe'.2)
        rw [ih (e.1, e'.2.1, addPad e'.2.2 (matVec (T.proj (T.lmax + 1)) (T.phi e.2.1) e.2.2))
          (by
            intro x hx
            rcases List.mem_cons.mp hx with hx | hx
            · subst hx; exact ⟨hlen, hwe'.2⟩
            · exact hw x (by simp [hx]))
          (by
            rw [List.pairwise_cons]
            refine ⟨?_, (List.pairwise_cons.mp hs').2⟩
            intro y hy
            have := (List.pairwise_cons.mp hs').1 y hy
            simpa [keyLE, hn] using this)]
        rw [eval_cons]
        simp only [evalE, dotFrom_addPad, hproj, hn, smul_add]
        abel
      · simp only [hn, if_false]
        rw [eval_cons, ih e' hw' hs', eval_cons]
        simp [evalE, hproj]

/-- **collect**: on the unit sphere `collectcoeff` does not change the value -/
theorem eval_collect (T : Tab K) (hT : T.Sem) (u : List K) (hu : OnSphere T u) (pw : Int → K)
    (isz : M → Bool) (hz : ∀ x, isz x = true → x = 0) (a : Coeffs M) (ha : WF T a) :
    eval T u pw (collectcoeff T isz a) = eval T u pw a := by
  unfold collectcoeff
  have hs := sortC_sorted a
  have hw := wf_sortC T a ha
  have he := eval_sortC T u pw a
  cases h : sortC a with
  | nil => rw [h] at he; simpa using he
  | cons e rest =>
    rw [h] at hs hw he
    simp only
    rw [eval_collectGo T hT u hu pw isz hz rest e hw hs, ← he, eval_cons]

/-- **`Taylor.reduce()`** = `reducecoeff` then `collectcoeff` -/
theorem eval_reduceFull (T : Tab K) (hT : T.Sem) (u : List K) (hu : OnSphere T u) (pw : Int → K)
    (isz : M → Bool) (hz : ∀ x, isz x = true → x = 0) (a : Coeffs M) (ha : WF T a) :
    eval T u pw (reduceFull T isz a) = eval T u pw a := by
  unfold reduceFull
  rw [eval_collect T hT u hu pw isz hz _ (wf_reduce T hT isz a ha), eval_reduce T hT u hu pw isz hz a ha]

/-! ### separate -/

theorem eval_sepExtras (T : Tab K) (hT : T.Sem) (u : List K) (pw : Int → K)
    (isz : M → Bool) (hz : ∀ x, isz x = true → x = 0) (e : Entry M) (hl : e.2.1 ≤ T.lmax) :
    eval T u pw (sepExtras T isz e)
      = pw e.1 • ∑ l0 ∈ range e.2.1, ∑ p ∈ range (T.phi e.2.1),
          (∑ p' ∈ range (T.phi l0), T.mono u p' * T.proj l0 p' p) • e.2.2.getD p 0 := by
  unfold sepExtras
  have key : ∀ (L : List Nat), (∀ l0 ∈ L, l0 < e.2.1) →
      eval T u pw (L.filterMap fun l0 =>
        if ((matVec (T.proj l0) (T.phi e.2.1) e.2.2).take (T.phi l0)).all isz = true then none
        else some (e.1, l0, (matVec (T.proj l0) (T.phi e.2.1) e.2.2).take (T.phi l0)))
      = pw e.1 • (L.map fun l0 => ∑ p ∈ range (T.phi e.2.1),
          (∑ p' ∈ range (T.phi l0), T.mono u p' * T.proj l0 p' p) • e.2.2.getD p 0).sum := by
    intro L
    induction L with
    | nil => intro _; simp
    | cons l0 L ih =>
      intro hL
      have hl0 : l0 < e.2.1 := hL l0 (by simp)
      have hmono : T.phi l0 ≤ T.phi e.2.1 := hT.phi_mono _ _ (by omega) hl
      have hrow := dotFrom_rows T u (T.proj l0) (T.phi l0) (T.phi e.2.1) e.2.2
      rw [← matVec_take (T.proj l0) (T.phi l0) (T.phi e.2.1) e.2.2 hmono] at hrow
      rw [List.filterMap_cons, List.map_cons, List.sum_cons, smul_add, ← ih (fun x hx => hL x (by simp [hx]))]
      by_cases h0 : ((matVec (T.proj l0) (T.phi e.2.1) e.2.2).take (T.phi l0)).all isz = true
      · rw [dotFrom_all_zero T u _ 0 (all_isz_zero isz hz _ h0)] at hrow
        rw [← hrow]
        simp [h0]
      · simp [h0, evalE, hrow]
  have := key (List.range e.2.1) (fun l0 h => List.mem_range.mp h)
  rw [this, lsum_range]

theorem eval_sepMain (T : Tab K) (u : List K) (pw : Int → K)
    (isz : M → Bool) (hz : ∀ x, isz x = true → x = 0) (e : Entry M) :
    eval T u pw (sepMain T isz e).toList
      = pw e.1 • ∑ p ∈ range (T.phi e.2.1),
          (∑ p' ∈ range (T.phi e.2.1), T.mono u p' * T.proj e.2.1 p' p) • e.2.2.getD p 0 := by
  unfold sepMain
  have hrow := dotFrom_rows T u (T.proj e.2.1) (T.phi e.2.1) (T.phi e.2.1) e.2.2
  have ht := matVec_take (T.proj e.2.1) (T.phi e.2.1) (T.phi e.2.1) e.2.2 (le_refl _)
  rw [List.take_of_length_le (by rw [length_matVec])] at ht
  rw [← ht] at hrow
  by_cases h0 : (matVec (T.proj e.2.1) (T.phi e.2.1) e.2.2).all isz = true
  · rw [dotFrom_all_zero T u _ 0 (all_isz_zero isz hz _ h0)] at hrow
    rw [← hrow]
    simp [h0]
  · simp [h0, evalE, hrow]

theorem eval_flatMap (T : Tab K) (u : List K) (pw : Int → K) (f : Entry M → Coeffs M) :
    ∀ (a : Coeffs M), eval T u pw (a.flatMap f) = (a.map fun e => eval T u pw (f e)).sum := by
  intro a
  induction a with
  | nil => simp
  | cons e a ih => rw [List.flatMap_cons, eval_append, ih]; simp

/-- **separate**: on the unit sphere `separatecoeff` does not change the value -/
theorem eval_separate (T : Tab K) (hT : T.Sem) (u : List K) (hu : OnSphere T u) (pw : Int → K)
    (isz : M → Bool) (hz : ∀ x, isz x = true → x = 0) (a : Coeffs M) (ha : WF T a) :
    eval T u pw (separatecoeff T isz a) = eval T u pw a := by
  unfold separatecoeff
  rw [eval_sortC, eval_append, eval_filterMap, eval_flatMap, ← List.sum_map_add]
  conv_rhs => unfold eval
  congr 1
  apply List.map_congr_left
  intro e he
  have hl := (ha e he).2
  have hc := (ha e he).1
  rw [eval_sepMain T u pw isz hz e, eval_sepExtras T hT u pw isz hz e hl, ← smul_add]
  unfold evalE
  congr 1
  rw [add_comm, ← Finset.sum_range_succ (fun l0 => ∑ p ∈ range (T.phi e.2.1),
          (∑ p' ∈ range (T.phi l0), T.mono u p' * T.proj l0 p' p) • e.2.2.getD p 0) e.2.1,
    Finset.sum_comm, dotFrom_eq_sum, hc]
  apply Finset.sum_congr rfl
  intro p hp
  rw [← Finset.sum_smul, hT.sep_ok e.2.1 p u hl (Finset.mem_range.mp hp) hu, Nat.zero_add]

/-! ### construction from direction / matrix pairs -/

theorem dotFrom_constructBlock (T : Tab K) (hT : T.Sem) (u : List K) (pre : M) (n : Nat) (coeff : M)
    (v : List K) (hn : n ≤ T.lmax) (hv : v.length = T.dim) (hu : u.length = T.dim) :
    dotFrom T u 0 (constructBlock T pre n coeff v)
      = pre * ((List.zipWith (· * ·) v u).sum ^ n • coeff) := by
  unfold constructBlock
  rw [dotFrom_map_range, ← hT.pc_ok n (List.zipWith (· * ·) v u) hn (by simp [hv, hu]), Finset.sum_smul,
    Finset.mul_sum]
  apply Finset.sum_congr rfl
  intro p _
  unfold Tab.mono
  rw [monoOf_mul v u _ (by rw [hv, hu]), ← mul_smul_comm, smul_smul]
  congr 2
  ring

theorem dotFrom_foldl_addPad (T : Tab K) (u : List K) (f : (M × List K) → List M) :
    ∀ (basis : List (M × List K)) (acc : List M),
    dotFrom T u 0 (basis.foldl (fun acc b => addPad acc (f b)) acc)
      = dotFrom T u 0 acc + (basis.map fun b => dotFrom T u 0 (f b)).sum := by
  intro basis
  induction basis with
  | nil => intro acc; simp
  | cons b basis ih => intro acc; rw [List.foldl_cons, ih, dotFrom_addPad]; simp [add_assoc]

/-- **construct = direct power series**: the `n`-th expansion returned by `constructexpansion`, evaluated at
    a direction `u` with radial factor `pw`, is `pw n · pre_n · Σ_basis (v·u)^n · M` -/
theorem construct_is_power_series (T : Tab K) (hT : T.Sem) (u : List K) (pw : Int → K) (N : Nat)
    (pre : Nat → M) (basis : List (M × List K)) (hN : N ≤ T.lmax) (hu : u.length = T.dim)
    (hb : ∀ b ∈ basis, b.2.length = T.dim) :
    (construct T N pre basis).map (eval T u pw)
      = (List.range (N + 1)).map fun (n : Nat) =>
          pw (n : Int) • (pre n * (basis.map fun b => (List.zipWith (· * ·) b.2 u).sum ^ n • b.1).sum) := by
  unfold construct
  rw [List.map_map]
  apply List.map_congr_left
  intro n hn
  have hn' : n ≤ T.lmax := by have := List.mem_range.mp hn; omega
  simp only [Function.comp, eval_cons, eval_nil, add_zero, evalE]
  rw [dotFrom_foldl_addPad, dotFrom_zeros, zero_add, ← List.sum_map_mul_left]
  show pw (n : Int) • _ = _
  congr 2
  apply List.map_congr_left
  intro b hb'
  exact dotFrom_constructBlock T hT u (pre n) n b.1 b.2 hn' (hb b hb') hu

end Onsager.C16
