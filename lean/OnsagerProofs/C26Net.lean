/-
  C26 — the networks: `jumpnetwork_omega1` / `jumpnetwork_omega2` list every transition in exactly
  one class, exactly once; classes are closed under the group and reversal; displacements.
-/
import OnsagerProofs.C26Class

namespace Onsager.C26
open Onsager.C24

/-! ### generic fold lemmas -/

theorem foldl_inv {α β} {P : β → Prop} {f : β → α → β} :
    ∀ (l : List α) (b : β), P b → (∀ b a, a ∈ l → P b → P (f b a)) → P (l.foldl f b) := by
  intro l
  induction l with
  | nil => intro b hb _; exact hb
  | cons a l ih =>
    intro b hb h
    exact ih _ (h b a (by simp) hb) (fun b' a' ha' => h b' a' (by simp [ha']))

theorem foldl_reach {α β} {Q : β → Prop} {f : β → α → β} (hmono : ∀ b a, Q b → Q (f b a)) {a0 : α}
    (hhit : ∀ b, Q (f b a0)) : ∀ (l : List α) (b : β), a0 ∈ l → Q (l.foldl f b) := by
  intro l
  induction l with
  | nil => intro b h; cases h
  | cons a l ih =>
    intro b h
    rcases List.mem_cons.1 h with rfl | h
    · exact foldl_inv l _ (hhit b) (fun b' a' _ hb' => hmono b' a' hb')
    · exact ih _ h

/-! ### pairs of a network -/

def netPairs (net : List JClass) : List (Option PS × Option PS) := net.flatMap fun c => pairs c.entries

theorem netHas_iff {net : List JClass} {a b : Option PS} : netHas net a b = true ↔ (a, b) ∈ netPairs net := by
  simp only [netHas, netPairs, List.any_eq_true, List.mem_flatMap, hasPair_iff]

@[simp] theorem netPairs_append (n1 n2 : List JClass) : netPairs (n1 ++ n2) = netPairs n1 ++ netPairs n2 := by
  simp [netPairs]

theorem netPairs_single (c : JClass) : netPairs [c] = pairs c.entries := by simp [netPairs]

theorem loopNet_inv {P : List JClass → Prop} {stepf : Nat → PS → List JClass → PS → List JClass}
    {Jcls : List (List PS)} {S : List PS} (h0 : P [])
    (hstep : ∀ cls jt, (cls, jt) ∈ Jcls.zipIdx → ∀ jump ∈ cls, ∀ x ∈ S, ∀ net, P net → P (stepf jt jump net x)) :
    P (loopNet stepf Jcls S) := by
  unfold loopNet
  refine foldl_inv _ _ h0 ?_
  intro net cj hcj hnet
  refine foldl_inv _ _ hnet ?_
  intro net' jump hjump hnet'
  refine foldl_inv _ _ hnet' ?_
  intro net'' x hx hnet''
  exact hstep cj.1 cj.2 hcj jump hjump x hx net'' hnet''

theorem loopNet_reach {Q : List JClass → Prop} {stepf : Nat → PS → List JClass → PS → List JClass}
    {Jcls : List (List PS)} {S : List PS}
    (hmono : ∀ jt jump net x, Q net → Q (stepf jt jump net x))
    {cls : List PS} {jump x : PS} (hcls : cls ∈ Jcls) (hjump : jump ∈ cls) (hx : x ∈ S)
    (hhit : ∀ jt net, Q (stepf jt jump net x)) : Q (loopNet stepf Jcls S) := by
  unfold loopNet
  obtain ⟨n, hn⟩ := List.mem_iff_getElem?.1 hcls
  have hmem : (cls, n) ∈ Jcls.zipIdx := List.mem_zipIdx_iff_getElem?.2 hn
  have mono_x : ∀ jt jump (l : List PS) net, Q net → Q (l.foldl (stepf jt jump) net) :=
    fun jt jump l net h => foldl_inv l net h (fun b a _ hb => hmono jt jump b a hb)
  have mono_j : ∀ jt (l : List PS) net, Q net → Q (l.foldl (fun net jump => S.foldl (stepf jt jump) net) net) :=
    fun jt l net h => foldl_inv l net h (fun b a _ hb => mono_x jt a S b hb)
  refine foldl_reach (a0 := (cls, n)) (fun b a hb => mono_j a.2 a.1 b hb) ?_ _ _ hmem
  intro net
  refine foldl_reach (a0 := jump) (fun b a hb => mono_x n a S b hb) ?_ _ _ hjump
  intro net'
  exact foldl_reach (a0 := x) (fun b a hb => hmono n jump b a hb) (fun b => hhit n b) _ _ hx

/-! ### hypotheses -/

/-- the op list passes the group and crystal-symmetry tests; the state list `S` is valid and
    closed under the ops; the jump list `J` is closed under the ops and under reversal -/
structure NetSetting (C : Crys) (G : List Op) (S J : List PS) : Prop where
  grp : groupClosedB C.nsites G = true
  crys : G.all (crysOpB C) = true
  validS : ∀ s ∈ S, Valid C.nsites s
  closedS : ∀ g ∈ G, ∀ s ∈ S, act g s ∈ S
  closedJ : ∀ g ∈ G, ∀ j ∈ J, act g j ∈ J
  negJ : ∀ j ∈ J, j.neg ∈ J

theorem NetSetting.group {C G S J} (h : NetSetting C G S J) : GroupLike G (Valid C.nsites) :=
  groupClosedB_sound h.grp

theorem NetSetting.shift {C G S J} (h : NetSetting C G S J) {g : Op} (hg : g ∈ G) : shiftOKB C g = true := by
  have := List.all_eq_true.1 h.crys g hg
  simp only [crysOpB, Bool.and_eq_true] at this
  exact this.2

/-! ### pair-state algebra used below -/

theorem add_neg_cancel {x j y : PS} (h : x.add j = some y) : y.add j.neg = some x := by
  rw [add_eq_some] at h ⊢
  obtain ⟨hj, rfl⟩ := h
  refine ⟨rfl, ?_⟩
  apply PS.ext'
  · rfl
  · exact hj
  · simp only [PS.neg]
    ext <;> simp

theorem neg_neg' (x : PS) : x.neg.neg = x := by
  apply PS.ext'
  · rfl
  · rfl
  · simp only [PS.neg]
    ext <;> simp

theorem neg_isZero (x : PS) : x.neg.isZero = x.isZero := by
  have : x.neg.isZero = true ↔ x.isZero = true := by
    rw [isZero_iff, isZero_iff]
    simp only [PS.neg]
    constructor
    · rintro ⟨h1, h2⟩
      refine ⟨h1.symm, ?_⟩
      have hx := congrArg Vec.x h2; have hy := congrArg Vec.y h2; have hz := congrArg Vec.z h2
      simp at hx hy hz
      ext <;> simp <;> omega
    · rintro ⟨h1, h2⟩
      refine ⟨h1.symm, ?_⟩
      rw [h2]; ext <;> simp
  cases h1 : x.neg.isZero <;> cases h2 : x.isZero <;> simp_all

/-- `x + j` is zero exactly when `j = −x` -/
theorem add_isZero_iff {x j : PS} : (∃ z, x.add j = some z ∧ z.isZero = true) ↔ j = x.neg := by
  constructor
  · rintro ⟨z, hadd, hz⟩
    rw [add_eq_some] at hadd
    obtain ⟨hj, rfl⟩ := hadd
    rw [isZero_iff] at hz
    simp only at hz
    apply PS.ext'
    · exact hj.symm
    · exact hz.1.symm
    · have hx := congrArg Vec.x hz.2; have hy := congrArg Vec.y hz.2; have hzz := congrArg Vec.z hz.2
      simp at hx hy hzz
      simp only [PS.neg]
      ext <;> simp <;> omega
  · rintro rfl
    refine ⟨⟨x.i, x.i, x.R + -x.R⟩, by simp [PS.add, PS.neg], ?_⟩
    rw [isZero_iff]
    refine ⟨rfl, ?_⟩
    ext <;> simp

theorem dxOf_neg (C : Crys) (x : PS) : dxOf C x.neg = -(dxOf C x) := by
  simp only [dxOf, PS.neg]
  ext <;> simp <;> ring

/-- the displacement between the two ends of a transition is the displacement of the jump -/
theorem dxOf_add (C : Crys) {x j y : PS} (h : x.add j = some y) : dxOf C y - dxOf C x = dxOf C j := by
  rw [add_eq_some] at h
  obtain ⟨hj, rfl⟩ := h
  simp only [dxOf, hj]
  ext <;> simp <;> ring

theorem Mat.mulQ_sub (M : Mat) (v w : QVec) : M.mulQ (v - w) = M.mulQ v - M.mulQ w := by
  ext <;> simp [QVec.dot] <;> ring

theorem Mat.mulQ_neg (M : Mat) (v : QVec) : M.mulQ (-v) = -(M.mulQ v) := by
  ext <;> simp [QVec.dot] <;> ring

/-! ### omega1 -/

/-- `x → y` is a vacancy jump with the solute fixed, between non-zero states of `S` -/
def IsTrans1 (S J : List PS) (x y : PS) : Prop :=
  x ∈ S ∧ y ∈ S ∧ x.isZero = false ∧ y.isZero = false ∧ ∃ jump ∈ J, x.add jump = some y

theorem IsTrans1.image {C G S J} (h : NetSetting C G S J) {x y : PS} (t : IsTrans1 S J x y) {g : Op} (hg : g ∈ G) :
    IsTrans1 S J (act g x) (act g y) := by
  obtain ⟨hx, hy, zx, zy, jump, hj, hadd⟩ := t
  have hG := h.group
  refine ⟨h.closedS g hg x hx, h.closedS g hg y hy, ?_, ?_, act g jump, h.closedJ g hg jump hj, act_add g hadd⟩
  · cases hz : (Onsager.C24.act g x).isZero
    · rfl
    · rw [(hG.act_isZero_iff hg (h.validS x hx)).1 hz] at zx; cases zx
  · cases hz : (Onsager.C24.act g y).isZero
    · rfl
    · rw [(hG.act_isZero_iff hg (h.validS y hy)).1 hz] at zy; cases zy

theorem IsTrans1.rev {C G S J} (h : NetSetting C G S J) {x y : PS} (t : IsTrans1 S J x y) : IsTrans1 S J y x := by
  obtain ⟨hx, hy, zx, zy, jump, hj, hadd⟩ := t
  exact ⟨hy, hx, zy, zx, jump.neg, h.negJ jump hj, add_neg_cancel hadd⟩

/-- a class of the omega1 network: generated by a genuine transition -/
structure Class1OK (C : Crys) (G : List Op) (S : List PS) (Jcls : List (List PS)) (c : JClass) : Prop where
  trans : IsTrans1 S Jcls.flatten c.i c.f
  entries : c.entries = symmEquiv G S c.i c.f (dxOf C c.f - dxOf C c.i)
  /-- the recorded jump type is the index of the jump class that holds the generating jump -/
  jt_ok : ∃ cls, Jcls[c.jt]? = some cls ∧ ∃ jump ∈ cls, c.i.add jump = some c.f

structure NetInv1 (C : Crys) (G : List Op) (S : List PS) (Jcls : List (List PS)) (net : List JClass) : Prop where
  nodup : (netPairs net).Nodup
  ok : ∀ c ∈ net, Class1OK C G S Jcls c

/-- adding the class of a pair that is in no class yet keeps the pairs duplicate-free -/
theorem nodup_append_class {C G S J} (h : NetSetting C G S J) {net : List JClass} {i f : PS} {dx : QVec}
    (hnd : (netPairs net).Nodup)
    (hcls : ∀ c ∈ net, ∃ i' f' dx', i' ∈ S ∧ f' ∈ S ∧ c.entries = symmEquiv G S i' f' dx')
    (hi : i ∈ S) (hf : f ∈ S) (hnew : (some i, some f) ∉ netPairs net) (c : JClass)
    (hc : c.entries = symmEquiv G S i f dx) : (netPairs (net ++ [c])).Nodup := by
  have hG := h.group
  rw [netPairs_append, netPairs_single, List.nodup_append]
  refine ⟨hnd, by rw [hc]; exact symmEquiv_pairs_nodup _ _ _ _ _, ?_⟩
  intro p hp q hq hpq
  subst hpq
  rw [hc, mem_pairs_symmEquiv_closed hG h.closedS hi hf (h.validS i hi) (h.validS f hf)] at hq
  obtain ⟨g, hg, hq⟩ := hq
  simp only [netPairs, List.mem_flatMap] at hp
  obtain ⟨c0, hc0, hp⟩ := hp
  obtain ⟨i', f', dx', hi', hf', he⟩ := hcls c0 hc0
  obtain ⟨k, hk, hkg⟩ := hG.inv g hg
  apply hnew
  simp only [netPairs, List.mem_flatMap]
  refine ⟨c0, hc0, ?_⟩
  rw [he] at hp ⊢
  rcases hq with rfl | rfl
  · have := symmEquiv_G_closed hG h.closedS hi' hf' (h.validS i' hi') (h.validS f' hf') hp hk
    rwa [hkg i (h.validS i hi), hkg f (h.validS f hf)] at this
  · have := symmEquiv_G_closed hG h.closedS hi' hf' (h.validS i' hi') (h.validS f' hf') hp hk
    rw [hkg i (h.validS i hi), hkg f (h.validS f hf)] at this
    exact symmEquiv_reversal_closed _ _ _ _ _ _ _ this

theorem om1Step_inv {C G S} {Jcls : List (List PS)} (h : NetSetting C G S Jcls.flatten) {jt : Nat} {cls : List PS}
    (hcls : Jcls[jt]? = some cls) {jump x : PS} (hjc : jump ∈ cls) (hx : x ∈ S)
    {net : List JClass} (hnet : NetInv1 C G S Jcls net) : NetInv1 C G S Jcls (om1Step C G S jt jump net x) := by
  have hjump : jump ∈ Jcls.flatten := List.mem_flatten.2 ⟨cls, List.mem_of_getElem? hcls, hjc⟩
  unfold om1Step
  split
  · exact hnet
  rename_i hzx
  split
  · exact hnet
  rename_i y hadd
  split
  · exact hnet
  rename_i hzy
  split
  · exact hnet
  rename_i y' hlk
  split
  · exact hnet
  rename_i hhas
  have hy : y ∈ S := (lookup_eq_some_iff.1 hlk).1
  have hnew : (some x, some y) ∉ netPairs net := fun hm => hhas (netHas_iff.2 hm)
  have tr : IsTrans1 S Jcls.flatten x y := ⟨hx, hy, by simpa using hzx, by simpa using hzy, jump, hjump, hadd⟩
  refine ⟨?_, ?_⟩
  · exact nodup_append_class h hnet.nodup
      (fun c hc => ⟨c.i, c.f, _, (hnet.ok c hc).trans.1, (hnet.ok c hc).trans.2.1, (hnet.ok c hc).entries⟩)
      hx hy hnew _ rfl
  · intro c hc
    rcases List.mem_append.1 hc with hc | hc
    · exact hnet.ok c hc
    · simp only [List.mem_cons, List.not_mem_nil, or_false] at hc
      subst hc
      exact ⟨tr, rfl, cls, hcls, jump, hjc, hadd⟩

theorem omega1_inv {C G S} {Jcls : List (List PS)} (h : NetSetting C G S Jcls.flatten) :
    NetInv1 C G S Jcls (omega1 C G Jcls S) := by
  unfold omega1
  refine loopNet_inv ⟨by simp [netPairs], by simp⟩ ?_
  intro cls jt hcls jump hjump x hx net hnet
  exact om1Step_inv h (List.mem_zipIdx_iff_getElem?.1 hcls) hjump hx hnet

theorem om1Step_mono {C G S} {jt : Nat} {jump x : PS} {net : List JClass} {p : Option PS × Option PS}
    (hp : p ∈ netPairs net) : p ∈ netPairs (om1Step C G S jt jump net x) := by
  unfold om1Step
  repeat' split
  all_goals first | exact hp | (rw [netPairs_append]; exact List.mem_append_left _ hp)

/-- **omega1_cover**: every vacancy jump between two non-zero states of the set is listed
    (no hypothesis on the group or on closure is needed for this half). -/
theorem omega1_cover (C : Crys) (G : List Op) {Jcls : List (List PS)} {S : List PS} {x y : PS}
    (t : IsTrans1 S Jcls.flatten x y) : (some x, some y) ∈ netPairs (omega1 C G Jcls S) := by
  obtain ⟨hx, hy, zx, zy, jump, hj, hadd⟩ := t
  obtain ⟨cls, hcls, hjc⟩ := List.mem_flatten.1 hj
  unfold omega1
  refine loopNet_reach (Q := fun net => (some x, some y) ∈ netPairs net) (fun jt jump net x' hq => om1Step_mono hq)
    hcls hjc hx ?_
  intro jt net
  unfold om1Step
  simp only [zx, Bool.false_eq_true, if_false, hadd, zy, lookup_of_mem hy]
  split
  · rename_i hhas; exact netHas_iff.1 hhas
  · rw [netPairs_append, netPairs_single]
    exact List.mem_append_right _ (mem_pairs_symmEquiv.2 (Or.inl (Or.inl rfl)))

/-- the pairs listed over all classes never repeat -/
theorem omega1_pairs_nodup {C G S} {Jcls : List (List PS)} (h : NetSetting C G S Jcls.flatten) :
    (netPairs (omega1 C G Jcls S)).Nodup := (omega1_inv h).nodup

/-- the members of a class generated by a transition are transitions -/
theorem class1_members {C G S} {Jcls : List (List PS)} (h : NetSetting C G S Jcls.flatten) {c : JClass}
    (hc : Class1OK C G S Jcls c) {p : Option PS × Option PS} (hp : p ∈ pairs c.entries) :
    ∃ x y, p = (some x, some y) ∧ IsTrans1 S Jcls.flatten x y := by
  have hG := h.group
  obtain ⟨hi, hf, _⟩ := hc.trans
  rw [hc.entries, mem_pairs_symmEquiv_closed hG h.closedS hi hf (h.validS _ hi) (h.validS _ hf)] at hp
  obtain ⟨g, hg, rfl | rfl⟩ := hp
  · exact ⟨_, _, rfl, hc.trans.image h hg⟩
  · exact ⟨_, _, rfl, (hc.trans.image h hg).rev h⟩

/-- **omega1_sound**: everything listed is a vacancy jump between non-zero states of the set -/
theorem omega1_sound {C G S} {Jcls : List (List PS)} (h : NetSetting C G S Jcls.flatten)
    {p : Option PS × Option PS} (hp : p ∈ netPairs (omega1 C G Jcls S)) :
    ∃ x y, p = (some x, some y) ∧ IsTrans1 S Jcls.flatten x y := by
  simp only [netPairs, List.mem_flatMap] at hp
  obtain ⟨c, hc, hp⟩ := hp
  exact class1_members h ((omega1_inv h).ok c hc) hp

/-- **exactly once**: a vacancy jump between non-zero states of the set occurs exactly once in
    the concatenation of all classes, hence in exactly one class and once in it. -/
theorem omega1_exactly_once {C G S} {Jcls : List (List PS)} (h : NetSetting C G S Jcls.flatten) {x y : PS}
    (t : IsTrans1 S Jcls.flatten x y) : (netPairs (omega1 C G Jcls S)).count (some x, some y) = 1 := by
  rw [(omega1_pairs_nodup h).count]
  simp [omega1_cover C G t]

/-- **class_closed**: every class is closed under the group and under reversal -/
theorem omega1_class_closed {C G S} {Jcls : List (List PS)} (h : NetSetting C G S Jcls.flatten) {c : JClass}
    (hc : c ∈ omega1 C G Jcls S) {x y : PS} (hp : (some x, some y) ∈ pairs c.entries) :
    (some y, some x) ∈ pairs c.entries ∧ ∀ k ∈ G, (some (act k x), some (act k y)) ∈ pairs c.entries := by
  have ok := (omega1_inv h).ok c hc
  obtain ⟨hi, hf, _⟩ := ok.trans
  rw [ok.entries] at hp ⊢
  exact ⟨symmEquiv_reversal_closed _ _ _ _ _ _ _ hp,
    fun k hk => symmEquiv_G_closed h.group h.closedS hi hf (h.validS _ hi) (h.validS _ hf) hp hk⟩

/-- **jump type**: the type recorded with a class is the index of the jump class containing the
    jump that carries the generating pair `i → f` -/
theorem omega1_jumptype {C G S} {Jcls : List (List PS)} (h : NetSetting C G S Jcls.flatten) {c : JClass}
    (hc : c ∈ omega1 C G Jcls S) :
    (some c.i, some c.f) ∈ pairs c.entries ∧
      ∃ cls, Jcls[c.jt]? = some cls ∧ ∃ jump ∈ cls, c.i.add jump = some c.f := by
  have ok := (omega1_inv h).ok c hc
  refine ⟨?_, ok.jt_ok⟩
  rw [ok.entries]
  exact mem_pairs_symmEquiv.2 (Or.inl (Or.inl rfl))

theorem dx_rot {C G S J} (h : NetSetting C G S J) {g : Op} (hg : g ∈ G) {s : PS} (hs : s ∈ S) :
    dxOf C (act g s) = g.rot.mulQ (dxOf C s) := dxOf_act (h.shift hg) (h.validS s hs)

/-- **dx_is_vacancy_displacement**: the displacement stored with a listed jump `x → y` is
    `dx(y) − dx(x)`, which is the displacement of the vacancy jump `y = x + jump`. -/
theorem omega1_dx_is_vacancy_displacement {C G S} {Jcls : List (List PS)} (h : NetSetting C G S Jcls.flatten)
    {c : JClass} (hc : c ∈ omega1 C G Jcls S) {e : JEntry} (he : e ∈ c.entries) {x y : PS}
    (ha : e.a = some x) (hb : e.b = some y) :
    e.dx = dxOf C y - dxOf C x ∧ ∀ jump, x.add jump = some y → e.dx = dxOf C jump := by
  have ok := (omega1_inv h).ok c hc
  obtain ⟨hi, hf, _⟩ := ok.trans
  have key : ∀ e ∈ symmEquiv G S c.i c.f (dxOf C c.f - dxOf C c.i), EntryOK (fun a b => dxOf C b - dxOf C a) e := by
    refine symmEquiv_dx rfl ?_ ?_ ?_
    · ext <;> simp
    · intro g hg
      simp only [dx_rot h hg hi, dx_rot h hg hf, Mat.mulQ_sub]
    · intro g hg
      simp only [dx_rot h hg hi, dx_rot h hg hf, Mat.mulQ_sub]
      ext <;> simp
  rw [ok.entries] at he
  have this : e.dx = dxOf C y - dxOf C x := key e he x y ha hb
  exact ⟨this, fun jump hj => by rw [this, dxOf_add C hj]⟩

/-! ### omega2 -/

/-- `x → −x` is an exchange: `x` a non-zero state and `−x` a jump -/
def IsTrans2 (S J : List PS) (x : PS) : Prop := x ∈ S ∧ x.isZero = false ∧ x.neg ∈ J

theorem IsTrans2.image {C G S J} (h : NetSetting C G S J) {x : PS} (t : IsTrans2 S J x) {g : Op} (hg : g ∈ G) :
    IsTrans2 S J (act g x) := by
  obtain ⟨hx, zx, hj⟩ := t
  refine ⟨h.closedS g hg x hx, ?_, by rw [← act_neg]; exact h.closedJ g hg _ hj⟩
  cases hz : (Onsager.C24.act g x).isZero
  · rfl
  · rw [(h.group.act_isZero_iff hg (h.validS x hx)).1 hz] at zx; cases zx

theorem IsTrans2.rev {C G S J} (h : NetSetting C G S J) (hsub : ∀ j ∈ J, j ∈ S) {x : PS} (t : IsTrans2 S J x) :
    IsTrans2 S J x.neg := by
  obtain ⟨_, zx, hj⟩ := t
  refine ⟨hsub _ hj, by rw [neg_isZero]; exact zx, ?_⟩
  have := h.negJ _ hj
  rwa [neg_neg'] at this ⊢

structure Class2OK (C : Crys) (G : List Op) (S J : List PS) (c : JClass) : Prop where
  trans : IsTrans2 S J c.i
  f_eq : c.f = c.i.neg
  entries : c.entries = symmEquiv G S c.i c.i.neg (-(dxOf C c.i))

structure NetInv2 (C : Crys) (G : List Op) (S J : List PS) (net : List JClass) : Prop where
  nodup : (netPairs net).Nodup
  ok : ∀ c ∈ net, Class2OK C G S J c

theorem om2Step_inv {C G S J} (h : NetSetting C G S J) (hsub : ∀ j ∈ J, j ∈ S) {jt : Nat} {jump x : PS}
    (hjump : jump ∈ J) (hx : x ∈ S) {net : List JClass} (hnet : NetInv2 C G S J net) :
    NetInv2 C G S J (om2Step C G S jt jump net x) := by
  unfold om2Step
  split
  · exact hnet
  rename_i hzx
  split
  · exact hnet
  rename_i z hadd
  split
  · exact hnet
  rename_i hzz
  have hzz' : z.isZero = true := by simpa using hzz
  have hjn : jump = x.neg := add_isZero_iff.1 ⟨z, hadd, hzz'⟩
  have hn : x.neg ∈ S := hsub _ (hjn ▸ hjump)
  rw [lookup_of_mem hn]
  split
  · exact hnet
  rename_i hhas
  have hnew : (some x, some x.neg) ∉ netPairs net := fun hm => hhas (netHas_iff.2 hm)
  refine ⟨?_, ?_⟩
  · exact nodup_append_class h hnet.nodup
      (fun c hc => ⟨c.i, c.i.neg, _, (hnet.ok c hc).trans.1, hsub _ (hnet.ok c hc).trans.2.2, (hnet.ok c hc).entries⟩)
      hx hn hnew _ rfl
  · intro c hc
    rcases List.mem_append.1 hc with hc | hc
    · exact hnet.ok c hc
    · simp only [List.mem_cons, List.not_mem_nil, or_false] at hc
      subst hc
      exact ⟨⟨hx, by simpa using hzx, hjn ▸ hjump⟩, rfl, rfl⟩

theorem omega2_inv {C G S} {Jcls : List (List PS)} (h : NetSetting C G S Jcls.flatten)
    (hsub : ∀ j ∈ Jcls.flatten, j ∈ S) : NetInv2 C G S Jcls.flatten (omega2 C G Jcls S) := by
  unfold omega2
  refine loopNet_inv ⟨by simp [netPairs], by simp⟩ ?_
  intro cls jt hcls jump hjump x hx net hnet
  have : jump ∈ Jcls.flatten := List.mem_flatten.2 ⟨cls, List.fst_mem_of_mem_zipIdx hcls, hjump⟩
  exact om2Step_inv h hsub this hx hnet

theorem om2Step_mono {C G S} {jt : Nat} {jump x : PS} {net : List JClass} {p : Option PS × Option PS}
    (hp : p ∈ netPairs net) : p ∈ netPairs (om2Step C G S jt jump net x) := by
  unfold om2Step
  repeat' split
  all_goals first | exact hp | (rw [netPairs_append]; exact List.mem_append_left _ hp)

/-- **omega2_cover**: every exchange `x → −x` (with `−x` a jump, hence a state) is listed -/
theorem omega2_cover (C : Crys) (G : List Op) {Jcls : List (List PS)} {S : List PS}
    (hsub : ∀ j ∈ Jcls.flatten, j ∈ S) {x : PS} (t : IsTrans2 S Jcls.flatten x) :
    (some x, some x.neg) ∈ netPairs (omega2 C G Jcls S) := by
  obtain ⟨hx, zx, hj⟩ := t
  obtain ⟨cls, hcls, hjc⟩ := List.mem_flatten.1 hj
  obtain ⟨z, hadd, hz⟩ := add_isZero_iff.2 (rfl : x.neg = x.neg)
  unfold omega2
  refine loopNet_reach (Q := fun net => (some x, some x.neg) ∈ netPairs net)
    (fun jt jump net x' hq => om2Step_mono hq) hcls hjc hx ?_
  intro jt net
  unfold om2Step
  simp only [zx, Bool.false_eq_true, if_false, hadd, hz, Bool.not_true, lookup_of_mem (hsub _ hj)]
  split
  · rename_i hhas; exact netHas_iff.1 hhas
  · rw [netPairs_append, netPairs_single]
    exact List.mem_append_right _ (mem_pairs_symmEquiv.2 (Or.inl (Or.inl rfl)))

theorem omega2_pairs_nodup {C G S} {Jcls : List (List PS)} (h : NetSetting C G S Jcls.flatten)
    (hsub : ∀ j ∈ Jcls.flatten, j ∈ S) : (netPairs (omega2 C G Jcls S)).Nodup := (omega2_inv h hsub).nodup

/-- **omega2_sound**: everything listed is an exchange `x → −x` of a non-zero state with `−x` a jump -/
theorem omega2_sound {C G S} {Jcls : List (List PS)} (h : NetSetting C G S Jcls.flatten)
    (hsub : ∀ j ∈ Jcls.flatten, j ∈ S) {p : Option PS × Option PS} (hp : p ∈ netPairs (omega2 C G Jcls S)) :
    ∃ x, p = (some x, some x.neg) ∧ IsTrans2 S Jcls.flatten x := by
  simp only [netPairs, List.mem_flatMap] at hp
  obtain ⟨c, hc, hp⟩ := hp
  have ok := (omega2_inv h hsub).ok c hc
  have hi := ok.trans.1
  have hn : c.i.neg ∈ S := hsub _ ok.trans.2.2
  rw [ok.entries, mem_pairs_symmEquiv_closed h.group h.closedS hi hn (h.validS _ hi) (h.validS _ hn)] at hp
  obtain ⟨g, hg, rfl | rfl⟩ := hp
  · exact ⟨_, by rw [act_neg], ok.trans.image h hg⟩
  · refine ⟨(Onsager.C24.act g c.i).neg, by rw [act_neg, neg_neg'], (ok.trans.image h hg).rev h hsub⟩

theorem omega2_exactly_once {C G S} {Jcls : List (List PS)} (h : NetSetting C G S Jcls.flatten)
    (hsub : ∀ j ∈ Jcls.flatten, j ∈ S) {x : PS} (t : IsTrans2 S Jcls.flatten x) :
    (netPairs (omega2 C G Jcls S)).count (some x, some x.neg) = 1 := by
  rw [(omega2_pairs_nodup h hsub).count]
  simp [omega2_cover C G hsub t]

theorem omega2_class_closed {C G S} {Jcls : List (List PS)} (h : NetSetting C G S Jcls.flatten)
    (hsub : ∀ j ∈ Jcls.flatten, j ∈ S) {c : JClass} (hc : c ∈ omega2 C G Jcls S) {x y : PS}
    (hp : (some x, some y) ∈ pairs c.entries) :
    (some y, some x) ∈ pairs c.entries ∧ ∀ k ∈ G, (some (act k x), some (act k y)) ∈ pairs c.entries := by
  have ok := (omega2_inv h hsub).ok c hc
  have hi := ok.trans.1
  have hn : c.i.neg ∈ S := hsub _ ok.trans.2.2
  rw [ok.entries] at hp ⊢
  exact ⟨symmEquiv_reversal_closed _ _ _ _ _ _ _ hp,
    fun k hk => symmEquiv_G_closed h.group h.closedS hi hn (h.validS _ hi) (h.validS _ hn) hp hk⟩

/-- the displacement stored with an exchange `x → −x` is `−dx(x)`: the vacancy moves onto the
    solute site; it is the displacement of the jump `−x`. -/
theorem omega2_dx_is_exchange_displacement {C G S} {Jcls : List (List PS)} (h : NetSetting C G S Jcls.flatten)
    (hsub : ∀ j ∈ Jcls.flatten, j ∈ S) {c : JClass} (hc : c ∈ omega2 C G Jcls S) {e : JEntry}
    (he : e ∈ c.entries) {x y : PS} (ha : e.a = some x) (hb : e.b = some y) :
    e.dx = -(dxOf C x) ∧ e.dx = dxOf C x.neg := by
  have ok := (omega2_inv h hsub).ok c hc
  have hi := ok.trans.1
  have hn : c.i.neg ∈ S := hsub _ ok.trans.2.2
  have key : ∀ e ∈ symmEquiv G S c.i c.i.neg (-(dxOf C c.i)), EntryOK (fun a _ => -(dxOf C a)) e := by
    refine symmEquiv_dx rfl ?_ ?_ ?_
    · simp only [dxOf_neg]
    · intro g hg
      simp only [dx_rot h hg hi, Mat.mulQ_neg]
    · intro g hg
      simp only [dx_rot h hg hn, dxOf_neg, Mat.mulQ_neg]
  rw [ok.entries] at he
  have this : e.dx = -(dxOf C x) := key e he x y ha hb
  exact ⟨this, by rw [this, dxOf_neg]⟩

end Onsager.C26
