/-
  C13 — translator half of the tie.  Generated/C13Facts.lean is rewritten on every run from the current source
  (Python `ast`): per class the attributes read by the result methods, the attributes set by `loadhdf5`, the HDF5
  dataset names read and written.  The obligations below break deterministically when a result method starts
  reading an attribute that `loadhdf5` does not set, or `loadhdf5` starts reading a dataset `addhdf5` does not write.
-/
import Generated.C13Facts
import OnsagerProofs.C13

namespace Onsager.C13

def subsetB (a b : List Nat) : Bool := a.all fun x => b.contains x

theorem subsetB_sound {a b : List Nat} (h : subsetB a b = true) : ∀ x ∈ a, x ∈ b := by
  intro x hx
  have := List.all_eq_true.mp h x hx
  simpa using this

open Generated.C13 in
/-- every attribute in the read-set of the result methods is in the write-set of `loadhdf5`, for all five classes -/
theorem src_read_subset_write :
    subsetB readVacancyMediated writeVacancyMediated = true ∧
    subsetB readGFCrystalcalc writeGFCrystalcalc = true ∧
    subsetB readStarSet writeStarSet = true ∧
    subsetB readVectorStarSet writeVectorStarSet = true ∧
    subsetB readTaylor3D writeTaylor3D = true := by
  decide +kernel

open Generated.C13 in
/-- every dataset `loadhdf5` opens is one that `addhdf5` creates -/
theorem src_datasets_read_subset_written :
    subsetB dsReadVacancyMediated dsWrittenVacancyMediated = true ∧
    subsetB dsReadGFCrystalcalc dsWrittenGFCrystalcalc = true ∧
    subsetB dsReadStarSet dsWrittenStarSet = true ∧
    subsetB dsReadVectorStarSet dsWrittenVectorStarSet = true ∧
    subsetB dsReadTaylor3D dsWrittenTaylor3D = true := by
  decide +kernel

open Generated.C13 in
/-- the `__HDF5list__` attributes are stored and restored by symmetric loops, and all of them land in the write-set -/
theorem src_hdf5list_loops :
    hdf5Loops = true ∧ subsetB hdf5listVacancyMediated writeVacancyMediated = true ∧
    subsetB hdf5listGFCrystalcalc writeGFCrystalcalc = true := by
  decide +kernel

/-- Taylor expansions as the source loads them now: always a permutation of what was saved (exact sums agree);
    and the saved list itself as soon as the source restores the saved positions. -/
theorem src_taylor_load {γ} (cl : List (Int × Nat × γ)) :
    (taylorLoadSrc Generated.C13.taylorOrderRestored cl).Perm cl ∧
    (Generated.C13.taylorOrderRestored = true → taylorLoadSrc Generated.C13.taylorOrderRestored cl = cl) :=
  ⟨taylorLoadSrc_perm _ cl, fun h => by rw [h]; rfl⟩

/-- `load_save_observational` for the vacancy-mediated calculator as it is in the source now: whatever the
    attribute values, if the codecs round-trip on them, any later sequence of calls of a method that reads only
    the extracted read-set returns the same results on the reloaded object. -/
theorem src_vm_observational {V S I O} (enc : Nat → V → S) (dec : Nat → S → V) (junk o : Obj V)
    (step : Obj V → I → Obj V × O)
    (hrt : ∀ a ∈ Generated.C13.writeVacancyMediated, dec a (enc a (o a)) = o a)
    (hstep : ReadsOnly Generated.C13.readVacancyMediated step) (xs : List I) :
    outputs step (saveLoad Generated.C13.writeVacancyMediated enc dec junk o) xs = outputs step o xs :=
  load_save_observational _ _ enc dec junk o step (subsetB_sound src_read_subset_write.1) hrt hstep xs

end Onsager.C13
