/-
  C16 — evaluation theorems for the Taylor-expansion arithmetic model (OnsagerModel/C16.lean).

  Setting: `K` any commutative ring (directions, radial factors, table entries), `M` any `K`-algebra,
  not necessarily commutative (scalars, square matrices over ℚ(i), …), `T : Tab K` any tables satisfying
  the semantic table facts `T.Sem`.  `T.Sem` is *derived* (OnsagerProofs/C16Tie.lean) from the executable
  table obligations `Tab.check*`, which are discharged for the tables dumped from the live classes.

  For ALL coefficient lists (of consistent shape `WF`), all directions `u`, all radial factors `pw`:
  * `eval_neg`, `eval_lmul`, `eval_rmul`, `eval_lmulD`, `eval_rmulD`   negation, scalar / matrix products
  * `eval_sum`          `eval (αa+βb) = α·eval a + β·eval b`
  * `eval_getitem`      a linear index map commutes with evaluation
  * `eval_truncate`     truncation = dropping the radial orders `> Nmax`
  * `eval_mul`          product rule under the explicit guard `l_a + l_b ≤ Lmax` (`pw` multiplicative)
  * `eval_reduce`, `eval_collect`, `eval_reduceFull`, `eval_separate`   on the unit sphere / circle
  * `construct_is_power_series`   `constructexpansion` = Σ_n pre_n (v·u)^n M
-/
import OnsagerModel.C16
import Mathlib.Algebra.Algebra.Basic
import Mathlib.Algebra.BigOperators.Group.Finset.Basic
import Mathlib.Algebra.BigOperators.Ring.Finset
import Mathlib.Algebra.BigOperators.Group.List.Basic
import Mathlib.Algebra.Module.BigOperators
import Mathlib.Algebra.BigOperators.GroupWithZero.Action
import Mathlib.Tactic.Ring
import Mathlib.Tactic.Abel
import Mathlib.Tactic.Linarith

namespace Onsager.C16

open Finset

variable {K M : Type} [CommRing K] [Ring M] [Algebra K M]

/-! ### monomials -/

@[simp] theorem monoOf_nil_left (e : List Nat) : monoOf ([] : List K) e = 1 := by
  cases e <;> rfl
@[simp] theorem monoOf_nil_right (u : List K) : monoOf u [] = 1 := by
  cases u <;> rfl
@[simp] theorem monoOf_cons (a : K) (u : List K) (x : Nat) (e : List Nat) :
    monoOf (a :: u) (x :: e) = a ^ x * monoOf u e := rfl

theorem monoOf_add (u : List K) : ∀ (e f : List Nat), e.length = f.length →
    monoOf u (List.zipWith (· + ·) e f) = monoOf u e * monoOf u f := by
  induction u with
  | nil => intro e f _; simp
  | cons a u ih =>
    intro e f h
    cases e with
    | nil => cases f with
      | nil => simp
      | cons _ _ => simp at h
    | cons x e => cases f with
      | nil => simp at h
      | cons y f =>
        simp only [List.zipWith_cons_cons, monoOf_cons]
        rw [ih e f (by simpa using h), pow_add]; ring

theorem monoOf_mul (u v : List K) : ∀ (e : List Nat), u.length = v.length →
    monoOf (List.zipWith (· * ·) u v) e = monoOf u e * monoOf v e := by
  induction u generalizing v with
  | nil =>
    intro e h
    cases v with
    | nil => simp
    | cons _ _ => simp at h
  | cons a u ih =>
    intro e h
    cases v with
    | nil => simp at h
    | cons b v =>
      cases e with
      | nil => simp
      | cons x e =>
        simp only [List.zipWith_cons_cons, monoOf_cons]
        rw [ih v e (by simpa using h), mul_pow]; ring

/-! ### `dotFrom` -/

@[simp] theorem dotFrom_nil (T : Tab K) (u : List K) (k : Nat) : dotFrom T u k ([] : List M) = 0 := rfl
@[simp] theorem dotFrom_cons (T : Tab K) (u : List K) (k : Nat) (x : M) (xs : List M) :
    dotFrom T u k (x :: xs) = T.mono u k • x + dotFrom T u (k + 1) xs := rfl

theorem dotFrom_append (T : Tab K) (u : List K) (xs ys : List M) : ∀ k,
    dotFrom T u k (xs ++ ys) = dotFrom T u k xs + dotFrom T u (k + xs.length) ys := by
  induction xs with
  | nil => intro k; simp
  | cons x xs ih => intro k; simp [ih, add_assoc, Nat.add_comm 1, Nat.add_assoc]

theorem dotFrom_addPad (T : Tab K) (u : List K) : ∀ (xs ys : List M) (k : Nat),
    dotFrom T u k (addPad xs ys) = dotFrom T u k xs + dotFrom T u k ys := by
  intro xs
  induction xs with
  | nil => intro ys k; cases ys <;> simp [addPad]
  | cons x xs ih =>
    intro ys k
    cases ys with
    | nil => simp [addPad]
    | cons y ys => simp only [addPad, dotFrom_cons, ih, smul_add]; abel

theorem length_addPad : ∀ (xs ys : List M), (addPad xs ys).length = max xs.length ys.length := by
  intro xs
  induction xs with
  | nil => intro ys; cases ys <;> simp [addPad]
  | cons x xs ih =>
    intro ys
    cases ys with
    | nil => simp [addPad]
    | cons y ys => simp [addPad, ih, Nat.succ_max_succ]

theorem dotFrom_map_lmul (T : Tab K) (u : List K) (c : M) : ∀ (xs : List M) (k : Nat),
    dotFrom T u k (xs.map (c * ·)) = c * dotFrom T u k xs := by
  intro xs
  induction xs with
  | nil => intro k; simp
  | cons x xs ih => intro k; simp [ih, mul_add, mul_smul_comm]

theorem dotFrom_map_rmul (T : Tab K) (u : List K) (c : M) : ∀ (xs : List M) (k : Nat),
    dotFrom T u k (xs.map (· * c)) = dotFrom T u k xs * c := by
  intro xs
  induction xs with
  | nil => intro k; simp
  | cons x xs ih => intro k; simp [ih, add_mul, smul_mul_assoc]

theorem dotFrom_map_neg (T : Tab K) (u : List K) : ∀ (xs : List M) (k : Nat),
    dotFrom T u k (xs.map (- ·)) = - dotFrom T u k xs := by
  intro xs
  induction xs with
  | nil => intro k; simp
  | cons x xs ih => intro k; simp [ih, add_comm]

theorem dotFrom_map_linear {M' : Type} [Ring M'] [Algebra K M'] (T : Tab K) (u : List K)
    (g : M →ₗ[K] M') : ∀ (xs : List M) (k : Nat),
    dotFrom T u k (xs.map g) = g (dotFrom T u k xs) := by
  intro xs
  induction xs with
  | nil => intro k; simp
  | cons x xs ih => intro k; simp [ih]

theorem dotFrom_zeros (T : Tab K) (u : List K) : ∀ (n k : Nat),
    dotFrom T u k (List.replicate n (0 : M)) = 0 := by
  intro n
  induction n with
  | zero => intro k; simp
  | succ n ih => intro k; simp [List.replicate_succ, ih]

theorem dotFrom_all_zero (T : Tab K) (u : List K) : ∀ (xs : List M) (k : Nat),
    (∀ x ∈ xs, x = 0) → dotFrom T u k xs = 0 := by
  intro xs
  induction xs with
  | nil => intro k _; simp
  | cons x xs ih =>
    intro k h
    have hx : x = 0 := h x (by simp)
    simp [hx, ih (k + 1) (fun y hy => h y (by simp [hy]))]

theorem dotFrom_addAt (T : Tab K) (u : List K) : ∀ (xs : List M) (i k : Nat) (y : M), i < xs.length →
    dotFrom T u k (addAt xs i y) = dotFrom T u k xs + T.mono u (k + i) • y := by
  intro xs
  induction xs with
  | nil => intro i k y h; simp at h
  | cons x xs ih =>
    intro i k y h
    cases i with
    | zero => simp only [addAt, dotFrom_cons, smul_add, Nat.add_zero]; abel
    | succ i =>
      simp only [addAt, dotFrom_cons]
      rw [ih i (k + 1) y (by simpa using h)]
      have : k + 1 + i = k + (i + 1) := by omega
      rw [this]; abel

theorem length_addAt : ∀ (xs : List M) (i : Nat) (y : M), (addAt xs i y).length = xs.length := by
  intro xs
  induction xs with
  | nil => intro i y; simp [addAt]
  | cons x xs ih => intro i y; cases i <;> simp [addAt, ih]

/-- `dotFrom` as a finite sum over row indices -/
theorem dotFrom_eq_sum (T : Tab K) (u : List K) : ∀ (c : List M) (k : Nat),
    dotFrom T u k c = ∑ i ∈ range c.length, T.mono u (k + i) • c.getD i 0 := by
  intro c
  induction c with
  | nil => intro k; simp
  | cons x xs ih =>
    intro k
    rw [dotFrom_cons, ih, List.length_cons, Finset.sum_range_succ']
    simp only [List.getD_cons_succ, List.getD_cons_zero, Nat.add_zero]
    rw [add_comm]
    congr 1
    apply Finset.sum_congr rfl
    intro i _
    have : k + 1 + i = k + (i + 1) := by omega
    rw [this]

theorem lsum_range (f : Nat → M) : ∀ r, ((List.range r).map f).sum = ∑ i ∈ range r, f i := by
  intro r
  induction r with
  | zero => simp
  | succ r ih => rw [List.range_succ, List.map_append, List.sum_append, ih, Finset.sum_range_succ]; simp

theorem dotFrom_map_range (T : Tab K) (u : List K) (f : Nat → M) (r : Nat) :
    dotFrom T u 0 ((List.range r).map f) = ∑ i ∈ range r, T.mono u i • f i := by
  rw [dotFrom_eq_sum]
  simp only [List.length_map, List.length_range, Nat.zero_add]
  apply Finset.sum_congr rfl
  intro i hi
  have hi' : i < r := Finset.mem_range.mp hi
  congr 1
  simp [List.getD_eq_getElem?_getD, hi']

/-! ### `eval` -/

@[simp] theorem eval_nil (T : Tab K) (u : List K) (pw : Int → K) : eval T u pw ([] : Coeffs M) = 0 := rfl
@[simp] theorem eval_cons (T : Tab K) (u : List K) (pw : Int → K) (e : Entry M) (a : Coeffs M) :
    eval T u pw (e :: a) = evalE T u pw e + eval T u pw a := by simp [eval]
theorem eval_append (T : Tab K) (u : List K) (pw : Int → K) (a b : Coeffs M) :
    eval T u pw (a ++ b) = eval T u pw a + eval T u pw b := by simp [eval]
theorem eval_perm (T : Tab K) (u : List K) (pw : Int → K) {a b : Coeffs M} (h : a.Perm b) :
    eval T u pw a = eval T u pw b := by
  unfold eval; exact (h.map _).sum_eq
theorem eval_sortC (T : Tab K) (u : List K) (pw : Int → K) (a : Coeffs M) :
    eval T u pw (sortC a) = eval T u pw a :=
  eval_perm T u pw (List.mergeSort_perm a keyLE)

/-- consistent shape: every block has `powlrange[l]` rows and `l ≤ Lmax` -/
def WF (T : Tab K) (a : Coeffs M) : Prop := ∀ e ∈ a, e.2.2.length = T.phi e.2.1 ∧ e.2.1 ≤ T.lmax

theorem wfC_iff (T : Tab K) (a : Coeffs M) : wfC T a = true ↔ WF T a := by
  simp [wfC, WF, wfE, List.all_eq_true]

/-! ### negation, scalar and matrix products -/

theorem eval_neg (T : Tab K) (u : List K) (pw : Int → K) (a : Coeffs M) :
    eval T u pw (negC a) = - eval T u pw a := by
  induction a with
  | nil => simp [negC]
  | cons e a ih =>
    simp only [negC, List.map_cons, eval_cons] at ih ⊢
    rw [ih]; simp [evalE, dotFrom_map_neg]; abel

/-- `scalarproductcoeff` / `ldot` with a dictionary `(n,l) ↦ c`: every term is multiplied by its own `c` -/
theorem eval_lmulD (T : Tab K) (u : List K) (pw : Int → K) (c : Int → Nat → M) (a : Coeffs M) :
    eval T u pw (lmulD c a) = (a.map fun e => c e.1 e.2.1 * evalE T u pw e).sum := by
  induction a with
  | nil => simp [lmulD]
  | cons e a ih =>
    simp only [lmulD, List.map_cons, eval_cons, List.sum_cons] at ih ⊢
    rw [ih]; simp [evalE, dotFrom_map_lmul, mul_smul_comm]

theorem eval_rmulD (T : Tab K) (u : List K) (pw : Int → K) (c : Int → Nat → M) (a : Coeffs M) :
    eval T u pw (rmulD c a) = (a.map fun e => evalE T u pw e * c e.1 e.2.1).sum := by
  induction a with
  | nil => simp [rmulD]
  | cons e a ih =>
    simp only [rmulD, List.map_cons, eval_cons, List.sum_cons] at ih ⊢
    rw [ih]; simp [evalE, dotFrom_map_rmul, smul_mul_assoc]

/-- `c * a`, `a.ldot(c)` -/
theorem eval_lmul (T : Tab K) (u : List K) (pw : Int → K) (c : M) (a : Coeffs M) :
    eval T u pw (lmulC c a) = c * eval T u pw a := by
  induction a with
  | nil => simp [lmulC]
  | cons e a ih =>
    simp only [lmulC, List.map_cons, eval_cons] at ih ⊢
    rw [ih]; simp [evalE, dotFrom_map_lmul, mul_smul_comm, mul_add]

/-- `a.rdot(c)` -/
theorem eval_rmul (T : Tab K) (u : List K) (pw : Int → K) (c : M) (a : Coeffs M) :
    eval T u pw (rmulC c a) = eval T u pw a * c := by
  induction a with
  | nil => simp [rmulC]
  | cons e a ih =>
    simp only [rmulC, List.map_cons, eval_cons] at ih ⊢
    rw [ih]; simp [evalE, dotFrom_map_rmul, smul_mul_assoc, add_mul]

/-! ### `__getitem__`, truncation -/

theorem eval_getitem {M' : Type} [Ring M'] [Algebra K M'] (T : Tab K) (u : List K) (pw : Int → K)
    (g : M →ₗ[K] M') (a : Coeffs M) :
    eval T u pw (getitem g a) = g (eval T u pw a) := by
  induction a with
  | nil => simp [getitem]
  | cons e a ih =>
    simp only [getitem, List.map_cons, eval_cons] at ih ⊢
    rw [ih]; simp [evalE, dotFrom_map_linear]

/-- truncation at `Nmax` = the same series with the radial factors of order `> Nmax` set to zero -/
theorem eval_truncate (T : Tab K) (u : List K) (pw : Int → K) (N : Int) (a : Coeffs M) :
    eval T u pw (truncate N a) = eval T u (fun n => if n ≤ N then pw n else 0) a := by
  induction a with
  | nil => simp [truncate]
  | cons e a ih =>
    simp only [truncate, eval_cons] at ih ⊢
    by_cases h : e.1 ≤ N
    · simp [List.filter_cons, h, ih, evalE]
    · simp [List.filter_cons, h, ih, evalE]

/-! ### sums -/

theorem eval_mergeIn (T : Tab K) (u : List K) (pw : Int → K) (e : Entry M) : ∀ (c : Coeffs M),
    eval T u pw (mergeIn c e) = eval T u pw c + evalE T u pw e := by
  intro c
  induction c with
  | nil => simp [mergeIn]
  | cons m rest ih =>
    unfold mergeIn
    by_cases h : m.1 = e.1
    · by_cases h2 : m.2.1 < e.2.1
      · simp [h, h2, evalE, dotFrom_addPad]; abel
      · simp [h, h2, evalE, dotFrom_addPad]; abel
    · simp [h, ih]; abel

theorem eval_foldl_mergeIn (T : Tab K) (u : List K) (pw : Int → K) : ∀ (es c : Coeffs M),
    eval T u pw (es.foldl mergeIn c) = eval T u pw c + eval T u pw es := by
  intro es
  induction es with
  | nil => intro c; simp
  | cons e es ih => intro c; rw [List.foldl_cons, ih, eval_mergeIn, eval_cons]; abel

/-- **sum**: `eval (sumcoeff a b α β) = α · eval a + β · eval b`, for all coefficient lists -/
theorem eval_sum (T : Tab K) (u : List K) (pw : Int → K) (a b : Coeffs M) (α β : M) :
    eval T u pw (sumcoeff a b α β) = α * eval T u pw a + β * eval T u pw b := by
  unfold sumcoeff
  by_cases hb : b.isEmpty
  · have : b = [] := by simpa using hb
    subst this; simp [eval_lmul]
  · by_cases ha : a.isEmpty
    · have : a = [] := by simpa using ha
      subst this; simp [hb, eval_lmul]
    · simp only [hb, ha, if_false, Bool.false_eq_true]
      rw [eval_sortC, eval_foldl_mergeIn, eval_lmul, eval_lmul]

/-! ### semantic table facts (derived from the executable obligations in C16Tie) -/

/-- the direction lies on the unit sphere / circle -/
def OnSphere (T : Tab K) (u : List K) : Prop := u.length = T.dim ∧ (u.map (· ^ 2)).sum = 1

/-- within the guard, `directmult` is the index of the product monomial, in the block of order `la+lb` -/
def Tab.DmOk (T : Tab K) : Prop :=
  ∀ la lb pa pb, la + lb ≤ T.lmax → pa < T.phi la → pb < T.phi lb →
    ∃ q : Nat, T.dm pa pb = (q : Int) ∧ q < T.phi (la + lb) ∧
      ∀ u : List K, T.mono u q = T.mono u pa * T.mono u pb

/-- What the evaluation theorems need to know about the tables. -/
structure Tab.Sem (T : Tab K) : Prop where
  /-- `powlrange` is monotone -/
  phi_mono : ∀ l l', l ≤ l' → l' ≤ T.lmax → T.phi l ≤ T.phi l'
  dm_ok : T.DmOk
  /-- `Lproj[-1][:r_l,:r_l]` fixes every monomial of degree `≤ l` as a function on the unit sphere -/
  proj_ok : ∀ l p u, l ≤ T.lmax → p < T.phi l → OnSphere T u →
    ∑ p' ∈ range (T.phi l), T.mono u p' * T.proj (T.lmax + 1) p' p = T.mono u p
  /-- the pieces `Lproj[l0][:r_l0, :]`, `l0 ≤ l`, add up to the identity on the unit sphere -/
  sep_ok : ∀ l p u, l ≤ T.lmax → p < T.phi l → OnSphere T u →
    ∑ l0 ∈ range (l + 1), ∑ p' ∈ range (T.phi l0), T.mono u p' * T.proj l0 p' p = T.mono u p
  /-- row `n` of `powercoeff` holds the multinomial coefficients: it is `(x+y+z)^n` -/
  pc_ok : ∀ n (x : List K), n ≤ T.lmax → x.length = T.dim →
    ∑ p ∈ range (T.phi n), T.pc n p * T.mono x p = x.sum ^ n
  /-- index 0 is the constant monomial -/
  mono_zero : ∀ u : List K, T.mono u 0 = 1
  phi_zero : T.phi 0 = 1

/-! ### product of expansions -/

theorem npIndex_ofNat (len q : Nat) : npIndex len (q : Int) = q := by
  simp [npIndex]

theorem scatRow_spec (T : Tab K) (u : List K) (len pa : Nat) (x : M) : ∀ (ys : List M) (pb : Nat) (acc : List M),
    acc.length = len →
    (∀ j, j < ys.length → ∃ q : Nat, T.dm pa (pb + j) = (q : Int) ∧ q < len ∧
        T.mono u q = T.mono u pa * T.mono u (pb + j)) →
    (scatRow T len pa x pb ys acc).length = len ∧
    dotFrom T u 0 (scatRow T len pa x pb ys acc)
      = dotFrom T u 0 acc + (T.mono u pa • x) * dotFrom T u pb ys := by
  intro ys
  induction ys with
  | nil => intro pb acc hl _; simp [scatRow, hl]
  | cons y ys ih =>
    intro pb acc hl h
    obtain ⟨q, hq, hql, hm⟩ := h 0 (by simp)
    simp only [Nat.add_zero] at hq hm
    have hstep := ih (pb + 1) (addAt acc (npIndex len (T.dm pa pb)) (x * y))
      (by rw [length_addAt, hl])
      (by
        intro j hj
        have := h (j + 1) (by simpa using hj)
        have e : pb + (j + 1) = pb + 1 + j := by omega
        rwa [e] at this)
    refine ⟨by simpa [scatRow] using hstep.1, ?_⟩
    simp only [scatRow]
    rw [hstep.2, hq, npIndex_ofNat, dotFrom_addAt T u acc q 0 (x * y) (by omega)]
    simp only [Nat.zero_add, dotFrom_cons, mul_add, hm]
    rw [smul_mul_smul_comm]
    abel

theorem scat_spec (T : Tab K) (u : List K) (len : Nat) (xb : List M) : ∀ (xs : List M) (pa : Nat) (acc : List M),
    acc.length = len →
    (∀ i j, i < xs.length → j < xb.length → ∃ q : Nat, T.dm (pa + i) j = (q : Int) ∧ q < len ∧
        T.mono u q = T.mono u (pa + i) * T.mono u j) →
    (scat T len xb pa xs acc).length = len ∧
    dotFrom T u 0 (scat T len xb pa xs acc)
      = dotFrom T u 0 acc + dotFrom T u pa xs * dotFrom T u 0 xb := by
  intro xs
  induction xs with
  | nil => intro pa acc hl _; simp [scat, hl]
  | cons x xs ih =>
    intro pa acc hl h
    have hrow := scatRow_spec T u len pa x xb 0 acc hl (by
      intro j hj
      have := h 0 j (by simp) hj
      simpa using this)
    have hstep := ih (pa + 1) (scatRow T len pa x 0 xb acc) hrow.1 (by
      intro i j hi hj
      have := h (i + 1) j (by simpa using hi) hj
      have e : pa + (i + 1) = pa + 1 + i := by omega
      rwa [e] at this)
    refine ⟨by simpa [scat] using hstep.1, ?_⟩
    simp only [scat]
    rw [hstep.2, hrow.2, dotFrom_cons, add_mul]
    abel

/-- the product of two coefficient blocks through `directmult` evaluates to the product of the blocks,
    as long as the orders stay within `Lmax` -/
theorem scatterMul_spec (T : Tab K) (hT : T.DmOk) (u : List K) (la lb : Nat) (xa xb : List M)
    (hg : la + lb ≤ T.lmax) (ha : xa.length ≤ T.phi la) (hb : xb.length ≤ T.phi lb) :
    (scatterMul T (T.phi (la + lb)) xa xb).length = T.phi (la + lb) ∧
    dotFrom T u 0 (scatterMul T (T.phi (la + lb)) xa xb) = dotFrom T u 0 xa * dotFrom T u 0 xb := by
  have h := scat_spec T u (T.phi (la + lb)) xb xa 0 (List.replicate (T.phi (la + lb)) 0) (by simp) (by
    intro i j hi hj
    obtain ⟨q, h1, h2, h3⟩ := hT la lb (0 + i) j hg (by omega) (by omega)
    exact ⟨q, h1, h2, h3 u⟩)
  refine ⟨h.1, ?_⟩
  unfold scatterMul
  rw [h.2, dotFrom_zeros]; simp

theorem evalE_prodEntry (T : Tab K) (hT : T.Sem) (u : List K) (pw : Int → K)
    (hpw : ∀ n m, pw (n + m) = pw n * pw m) (ea eb : Entry M)
    (hg : ea.2.1 + eb.2.1 ≤ T.lmax) (ha : ea.2.2.length ≤ T.phi ea.2.1) (hb : eb.2.2.length ≤ T.phi eb.2.1) :
    evalE T u pw (prodEntry T ea eb) = evalE T u pw ea * evalE T u pw eb := by
  unfold prodEntry evalE
  simp only [Nat.min_eq_left hg]
  rw [(scatterMul_spec T hT.dm_ok u ea.2.1 eb.2.1 ea.2.2 eb.2.2 hg ha hb).2, hpw, smul_mul_smul_comm]

theorem eval_map_prodEntry (T : Tab K) (hT : T.Sem) (u : List K) (pw : Int → K)
    (hpw : ∀ n m, pw (n + m) = pw n * pw m) (ea : Entry M) (ha : ea.2.2.length ≤ T.phi ea.2.1) :
    ∀ (b : Coeffs M), (∀ eb ∈ b, ea.2.1 + eb.2.1 ≤ T.lmax ∧ eb.2.2.length ≤ T.phi eb.2.1) →
    eval T u pw (b.map fun eb => prodEntry T ea eb) = evalE T u pw ea * eval T u pw b := by
  intro b
  induction b with
  | nil => intro _; simp
  | cons eb b ih =>
    intro h
    have h0 := h eb (by simp)
    rw [List.map_cons, eval_cons, eval_cons, ih (fun e he => h e (by simp [he])),
      evalE_prodEntry T hT u pw hpw ea eb h0.1 ha h0.2, mul_add]

/-- **product rule**: for all coefficient lists of consistent shape whose combined angular order stays within
    `Lmax` (`mulGuard`), and every multiplicative radial factor,
    `eval (a·b) = eval a · eval b` (in the possibly non-commutative coefficient algebra `M`). -/
theorem eval_mul (T : Tab K) (hT : T.Sem) (u : List K) (pw : Int → K)
    (hpw : ∀ n m, pw (n + m) = pw n * pw m) (a b : Coeffs M)
    (ha : WF T a) (hb : WF T b) (hg : mulGuard T a b = true) :
    eval T u pw (coeffproduct T a b) = eval T u pw a * eval T u pw b := by
  have hg' : ∀ ea ∈ a, ∀ eb ∈ b, ea.2.1 + eb.2.1 ≤ T.lmax := by
    simpa [mulGuard, List.all_eq_true] using hg
  unfold coeffproduct
  by_cases hae : a.isEmpty
  · have : a = [] := by simpa using hae
    subst this; simp
  · by_cases hbe : b.isEmpty
    · have : b = [] := by simpa using hbe
      subst this; simp [hae]
    · simp only [hae, hbe, if_false, Bool.false_eq_true]
      rw [eval_sortC, eval_foldl_mergeIn, eval_nil, zero_add]
      clear hae hg
      induction a with
      | nil => simp
      | cons ea a ih =>
        rw [List.flatMap_cons, eval_append, eval_cons, add_mul,
          ih (fun e he => ha e (by simp [he])) (fun e he => hg' e (by simp [he])),
          eval_map_prodEntry T hT u pw hpw ea (le_of_eq (ha ea (by simp)).1) b
            (fun eb heb => ⟨hg' ea (by simp) eb heb, le_of_eq (hb eb heb).1⟩)]

end Onsager.C16
