/-
  C27 — theorems about the supercell-operation / equivalence-search model (OnsagerModel/C27.lean).

  * `perm_of_isPermB`        the code's test (`len(set(indexmap)) == N*size`, entries in range) gives a permutation
  * `permOcc_perm`           for a permutation the loop `gocc[indexmap[i]] = occ[i]` is `occ ∘ indexmap⁻¹`, whatever the buffer
  * `equiv_sound`            a returned `(k, mapping)`: `G[k]` maps `self.occ` onto `other.occ` and
                             `(g*self).chemorder[c][mapping[c][i]] = other.chemorder[c][i]`
  * `equiv_sound_reorder`    … hence `reorder (imul self G[k]) mapping = other` exactly (consistent cells)
  * `prefilter_implied`      an op that maps the occupations carries every defect to a defect of the same name
  * `equiv_complete_partial` if some class-preserving op of `G` maps the occupations, a pair is returned
                             (needs: a defect exists, or the source guards the empty case)
  * `equiv_complete_full`    the same without that hypothesis: proved for a guarded source
                             (`equiv_complete_full_guarded`), refuted for an unguarded one
                             (`equiv_complete_full_unguarded_fails`); OnsagerProofs/C27Tie.lean picks the
                             case that applies to the current source
  * `equiv_none_sound`       `(None, None)` is only returned when no op of `G` maps the occupations
  * `equiv_nodefect_raises`  without the guard, two matching defect-free cells raise (finding F9)
-/
import OnsagerModel.C27
import OnsagerProofs.C28
import Mathlib.Data.List.Nodup
import Mathlib.Data.List.Perm.Subperm
import Mathlib.Data.List.Count
import Mathlib.Tactic.Linarith
import Mathlib.Tactic.Ring

namespace Onsager.C27
open Onsager.C28 (Cell Err Inv imul reorder reorderZip saneB)

/-! ### permutations as index lists -/

/-- `m` lists every site `0 … n-1` exactly once. -/
def IsPerm (n : Nat) (m : List Nat) : Prop := m.length = n ∧ m.Nodup ∧ ∀ x ∈ m, x < n

theorem IsPerm.perm {n m} (h : IsPerm n m) : m.Perm (List.range n) := by
  obtain ⟨hl, hnd, hlt⟩ := h
  have hsub : m ⊆ List.range n := fun x hx => List.mem_range.2 (hlt x hx)
  have hsp : m.Subperm (List.range n) := List.subperm_of_subset hnd hsub
  exact hsp.perm_of_length_le (by simp [hl])

theorem IsPerm.surj {n m} (h : IsPerm n m) {p : Nat} (hp : p < n) : ∃ i, i < n ∧ m.getD i 0 = p := by
  have : p ∈ m := (h.perm.mem_iff).2 (List.mem_range.2 hp)
  obtain ⟨i, hi, rfl⟩ := List.getElem_of_mem this
  exact ⟨i, h.1 ▸ hi, by simp [List.getD_eq_getElem?_getD, hi]⟩

theorem IsPerm.inj {n m} (h : IsPerm n m) {i j : Nat} (hi : i < n) (hj : j < n)
    (e : m.getD i 0 = m.getD j 0) : i = j := by
  obtain ⟨hl, hnd, _⟩ := h
  have hi' : i < m.length := hl ▸ hi
  have hj' : j < m.length := hl ▸ hj
  simp only [List.getD_eq_getElem?_getD, List.getElem?_eq_getElem hi', List.getElem?_eq_getElem hj',
    Option.getD_some] at e
  exact (List.Nodup.getElem_inj_iff hnd).1 e

theorem IsPerm.lt {n m} (h : IsPerm n m) {i : Nat} (hi : i < n) : m.getD i 0 < n := by
  have hi' : i < m.length := h.1 ▸ hi
  simp only [List.getD_eq_getElem?_getD, List.getElem?_eq_getElem hi', Option.getD_some]
  exact h.2.2 _ (List.getElem_mem hi')

theorem distinct_length_le {α} [BEq α] (l : List α) : (distinct l).length ≤ l.length := by
  induction l with
  | nil => simp [distinct]
  | cons x xs ih =>
    simp only [distinct]
    split <;> simp <;> omega

theorem mem_distinct {α} [BEq α] [LawfulBEq α] (l : List α) (a : α) : a ∈ distinct l ↔ a ∈ l := by
  induction l with
  | nil => simp [distinct]
  | cons x xs ih =>
    simp only [distinct]
    split
    · rename_i h
      have hx : x ∈ distinct xs := by simpa using h
      constructor
      · intro ha; exact List.mem_cons_of_mem _ (ih.1 ha)
      · intro ha
        rcases List.mem_cons.1 ha with rfl | ha
        · exact hx
        · exact ih.2 ha
    · simp [ih]

theorem nodup_of_distinct_length {α} [BEq α] [LawfulBEq α] (l : List α)
    (h : (distinct l).length = l.length) : l.Nodup := by
  induction l with
  | nil => exact List.nodup_nil
  | cons x xs ih =>
    simp only [distinct] at h
    split at h
    · have := distinct_length_le xs
      simp at h; omega
    · rename_i hx
      simp at h
      have hx' : x ∉ xs := by
        intro hm
        apply hx
        simpa using (mem_distinct xs x).2 hm
      exact List.nodup_cons.2 ⟨hx', ih h⟩

/-- The permutation test of `gengroup` (`len(set(indexmap)) == N*size`, with in-range entries)
    yields a genuine permutation of the sites. -/
theorem perm_of_isPermB (n : Nat) (m : List Nat) (h : isPermB n m = true) :
    IsPerm n m ∧ m.Perm (List.range n) := by
  simp only [isPermB, Bool.and_eq_true, beq_iff_eq, List.all_eq_true, decide_eq_true_eq] at h
  obtain ⟨⟨h1, h2⟩, h3⟩ := h
  have hp : IsPerm n m := ⟨h1, nodup_of_distinct_length m (by omega), h3⟩
  exact ⟨hp, hp.perm⟩

/-! ### the occupation loop -/

theorem foldl_set_length (is : List Nat) (k : Nat → Nat) (v : Nat → Int) (init : List Int) :
    (is.foldl (fun (acc : List Int) i => acc.set (k i) (v i)) init).length = init.length := by
  induction is generalizing init with
  | nil => rfl
  | cons i rest ih => simp [List.foldl_cons, ih]

theorem foldl_set_untouched (is : List Nat) (k : Nat → Nat) (v : Nat → Int) (init : List Int) (p : Nat)
    (h : ∀ i ∈ is, k i ≠ p) :
    (is.foldl (fun (acc : List Int) i => acc.set (k i) (v i)) init)[p]? = init[p]? := by
  induction is generalizing init with
  | nil => rfl
  | cons i rest ih =>
    simp only [List.foldl_cons]
    rw [ih _ (fun j hj => h j (List.mem_cons_of_mem _ hj))]
    rw [List.getElem?_set_ne (h i List.mem_cons_self)]

theorem foldl_set_hit (is : List Nat) (k : Nat → Nat) (v : Nat → Int) (init : List Int) (j : Nat)
    (hnd : is.Nodup) (hinj : ∀ i ∈ is, ∀ i' ∈ is, k i = k i' → i = i') (hj : j ∈ is)
    (hlt : k j < init.length) :
    (is.foldl (fun (acc : List Int) i => acc.set (k i) (v i)) init)[k j]? = some (v j) := by
  induction is generalizing init with
  | nil => cases hj
  | cons i rest ih =>
    simp only [List.foldl_cons]
    have hnd' := List.nodup_cons.1 hnd
    rcases List.mem_cons.1 hj with rfl | hjr
    · rw [foldl_set_untouched]
      · simp [hlt]
      · intro i' hi' e
        have := hinj i' (List.mem_cons_of_mem _ hi') j List.mem_cons_self e
        exact hnd'.1 (this ▸ hi')
    · apply ih _ hnd'.2 (fun a ha b hb => hinj a (List.mem_cons_of_mem _ ha) b (List.mem_cons_of_mem _ hb)) hjr
      simpa using hlt

theorem permOcc_length (init : List Int) (m : List Nat) (occ : List Int) :
    (permOcc init m occ).length = init.length := by
  unfold permOcc; exact foldl_set_length _ _ _ _

/-- For a permutation the loop writes `occ[i]` at `indexmap[i]`, whatever the buffer held before. -/
theorem permOcc_perm (n : Nat) (init : List Int) (m : List Nat) (occ : List Int)
    (hm : IsPerm n m) (hocc : occ.length = n) (hinit : init.length = n) (i : Nat) (hi : i < n) :
    (permOcc init m occ)[m.getD i 0]? = some (occ.getD i (-1)) := by
  unfold permOcc
  apply foldl_set_hit (List.range occ.length) (fun i => m.getD i 0) (fun i => occ.getD i (-1)) init i
  · exact List.nodup_range
  · intro a ha b hb e
    exact hm.inj (by simpa [hocc] using ha) (by simpa [hocc] using hb) e
  · simpa [hocc] using hi
  · rw [hinit]; exact hm.lt hi

/-- … hence the result does not depend on the buffer. -/
theorem permOcc_buffer (n : Nat) (init init' : List Int) (m : List Nat) (occ : List Int)
    (hm : IsPerm n m) (hocc : occ.length = n) (hinit : init.length = n) (hinit' : init'.length = n) :
    permOcc init m occ = permOcc init' m occ := by
  apply List.ext_getElem?
  intro p
  by_cases hp : p < n
  · obtain ⟨i, hi, rfl⟩ := hm.surj hp
    rw [permOcc_perm n init m occ hm hocc hinit i hi, permOcc_perm n init' m occ hm hocc hinit' i hi]
  · have h1 : (permOcc init m occ)[p]? = none := by
      rw [List.getElem?_eq_none_iff, permOcc_length]; omega
    have h2 : (permOcc init' m occ)[p]? = none := by
      rw [List.getElem?_eq_none_iff, permOcc_length]; omega
    rw [h1, h2]

theorem imul_occ (s : Cell) (m : List Nat) : (imul s m).occ = permOcc s.occ m s.occ := rfl

theorem imul_chemorder (s : Cell) (m : List Nat) :
    (imul s m).chemorder = s.chemorder.map (·.map fun i => m.getD i 0) := rfl

/-! ### the search loop and the mapping -/

/-- The pre-filter of step 3 as a proposition on one op. -/
def passes (shortset matchset : List Nat) (m : List Nat) : Prop :=
  shortset.any (fun i => !(matchset.contains (m.getD i 0))) = false

theorem searchOps_spec (short mtch : List Nat) (occA occB : List Int) (G : List (List Nat)) (idx : Nat)
    (gocc : List Int) (k : Nat) (m : List Nat)
    (h : searchOps short mtch occA occB G idx gocc = some (k, m)) :
    ∃ p gocc', k = idx + p ∧ G[p]? = some m ∧ gocc'.length = gocc.length ∧
      permOcc gocc' m occA = occB ∧ passes short mtch m := by
  induction G generalizing idx gocc with
  | nil => simp [searchOps] at h
  | cons m0 rest ih =>
    simp only [searchOps] at h
    split at h
    · obtain ⟨p, g', hk, hg, hl, hp, hpass⟩ := ih _ _ h
      exact ⟨p + 1, g', by omega, by simpa using hg, hl, hp, hpass⟩
    · rename_i hpre
      split at h
      · obtain ⟨p, g', hk, hg, hl, hp, hpass⟩ := ih _ _ h
        refine ⟨p + 1, g', by omega, by simpa using hg, ?_, hp, hpass⟩
        rw [hl, permOcc_length]
      · rename_i heq
        simp only [Option.some.injEq, Prod.mk.injEq] at h
        obtain ⟨rfl, rfl⟩ := h
        refine ⟨0, gocc, by omega, by simp, rfl, ?_, ?_⟩
        · simpa using heq
        · simpa [passes] using hpre

/-- If some op of the list passes the pre-filter and maps the occupation for every buffer of the
    right length, the loop returns an op. -/
theorem searchOps_complete (short mtch : List Nat) (occA occB : List Int) (G : List (List Nat)) (idx : Nat)
    (gocc : List Int) (n : Nat) (hg : gocc.length = n)
    (h : ∃ m ∈ G, passes short mtch m ∧ ∀ buf : List Int, buf.length = n → permOcc buf m occA = occB) :
    ∃ k m, searchOps short mtch occA occB G idx gocc = some (k, m) := by
  induction G generalizing idx gocc with
  | nil => obtain ⟨m, hm, _⟩ := h; cases hm
  | cons m0 rest ih =>
    obtain ⟨m, hm, hpass, hmap⟩ := h
    simp only [searchOps]
    rcases List.mem_cons.1 hm with rfl | hmr
    · have : (short.any fun i => !(mtch.contains (m.getD i 0))) = false := hpass
      simp only [this, Bool.false_eq_true, if_false]
      have := hmap gocc hg
      simp [this]
    · split
      · exact ih _ _ hg ⟨m, hmr, hpass, hmap⟩
      · split
        · exact ih _ _ (by rw [permOcc_length]; exact hg) ⟨m, hmr, hpass, hmap⟩
        · exact ⟨_, _, rfl⟩

theorem indexAll_spec (gcl o r : List Nat) (h : indexAll gcl o = .ok r) :
    r.length = o.length ∧ ∀ i, i < o.length →
      r.getD i 0 < gcl.length ∧ gcl.getD (r.getD i 0) 0 = o.getD i 0 := by
  induction o generalizing r with
  | nil => simp [indexAll] at h; subst h; simp
  | cons j js ih =>
    simp only [indexAll] at h
    split at h
    · rename_i hj
      split at h
      · rename_i r' hr'
        simp only [Except.ok.injEq] at h
        subst h
        obtain ⟨hl, hs⟩ := ih r' hr'
        refine ⟨by simp [hl], ?_⟩
        intro i hi
        cases i with
        | zero =>
          have hlt := List.idxOf_lt_length_of_mem hj
          simp only [List.getD_eq_getElem?_getD, List.getElem?_cons_zero, Option.getD_some]
          refine ⟨hlt, ?_⟩
          rw [List.getElem?_eq_getElem hlt]
          simp
        | succ i =>
          have := hs i (by simpa using hi)
          simpa [List.getD_eq_getElem?_getD] using this
      · cases h
    · cases h

theorem indexAll_ok (gcl o : List Nat) (h : ∀ j ∈ o, j ∈ gcl) : ∃ r, indexAll gcl o = .ok r := by
  induction o with
  | nil => exact ⟨[], rfl⟩
  | cons j js ih =>
    obtain ⟨r, hr⟩ := ih (fun x hx => h x (List.mem_cons_of_mem _ hx))
    refine ⟨gcl.idxOf j :: r, ?_⟩
    simp [indexAll, h j List.mem_cons_self, hr]

theorem mkMapping_spec (g o mp : List (List Nat)) (h : mkMapping g o = .ok mp) :
    mp.length = min g.length o.length ∧ ∀ c, c < mp.length →
      (mp.getD c []).length = (o.getD c []).length ∧
      ∀ i, i < (o.getD c []).length →
        (mp.getD c []).getD i 0 < (g.getD c []).length ∧
        (g.getD c []).getD ((mp.getD c []).getD i 0) 0 = (o.getD c []).getD i 0 := by
  induction g generalizing o mp with
  | nil => simp [mkMapping] at h; subst h; simp
  | cons g0 gs ih =>
    cases o with
    | nil => simp [mkMapping] at h; subst h; simp
    | cons o0 os =>
      simp only [mkMapping] at h
      split at h
      · cases h
      · rename_i r hr
        split at h
        · rename_i rs hrs
          simp only [Except.ok.injEq] at h
          subst h
          obtain ⟨hl, hs⟩ := ih os rs hrs
          refine ⟨by simp [hl], ?_⟩
          intro c hc
          cases c with
          | zero => simpa [List.getD_eq_getElem?_getD] using indexAll_spec g0 o0 r hr
          | succ c =>
            have := hs c (by simpa using hc)
            simpa [List.getD_eq_getElem?_getD] using this
        · cases h

theorem mkMapping_ok (g o : List (List Nat))
    (h : ∀ c, c < min g.length o.length → ∀ j ∈ o.getD c [], j ∈ g.getD c []) :
    ∃ mp, mkMapping g o = .ok mp := by
  induction g generalizing o with
  | nil => exact ⟨[], by simp [mkMapping]⟩
  | cons g0 gs ih =>
    cases o with
    | nil => exact ⟨[], by simp [mkMapping]⟩
    | cons o0 os =>
      obtain ⟨r, hr⟩ := indexAll_ok g0 o0 (by
        have := h 0 (by simp)
        simpa [List.getD_eq_getElem?_getD] using this)
      obtain ⟨rs, hrs⟩ := ih os (by
        intro c hc j hj
        have := h (c + 1) (by simp; omega) j (by simpa [List.getD_eq_getElem?_getD] using hj)
        simpa [List.getD_eq_getElem?_getD] using this)
      exact ⟨r :: rs, by simp [mkMapping, hr, hrs]⟩

/-- What a successful `equivalencemap` went through. -/
theorem equivalencemap_some (sc : SiteCtx) (G : List (List Nat)) (a b : Cell) (k : Nat) (mp : List (List Nat))
    (h : equivalencemap sc G a b = .ok (some (k, mp))) :
    ∃ m gocc, G[k]? = some m ∧ gocc.length = a.occ.length ∧ permOcc gocc m a.occ = b.occ ∧
      mkMapping (imul a m).chemorder b.chemorder = .ok mp := by
  unfold equivalencemap at h
  split at h
  · cases h
  · split at h
    · cases h
    · rename_i sets _
      unfold finish at h
      split at h
      · cases h
      · rename_i k' m hsearch
        split at h
        · cases h
        · rename_i mp' hmp
          simp only [Except.ok.injEq, Option.some.injEq, Prod.mk.injEq] at h
          obtain ⟨rfl, rfl⟩ := h
          obtain ⟨p, g', hk, hg, hl, hp, _⟩ := searchOps_spec _ _ _ _ _ _ _ _ _ hsearch
          refine ⟨m, g', ?_, hl, hp, ?_⟩
          · simpa [hk] using hg
          · simpa [imul_chemorder] using hmp

/-- **Soundness.**  A returned `(k, mapping)` names an op `m = G[k]` of the list; when `m` is a
    permutation of the sites, `g*self` has exactly `other`'s occupation and
    `(g*self).chemorder[c][mapping[c][i]] = other.chemorder[c][i]` for every listed atom. -/
theorem equiv_sound (sc : SiteCtx) (G : List (List Nat)) (a b : Cell) (k : Nat) (mp : List (List Nat))
    (h : equivalencemap sc G a b = .ok (some (k, mp))) :
    ∃ m, G[k]? = some m ∧ (IsPerm a.occ.length m →
      (imul a m).occ = b.occ ∧
      mp.length = min a.chemorder.length b.chemorder.length ∧
      ∀ c, c < mp.length →
        (mp.getD c []).length = (b.chemorder.getD c []).length ∧
        ∀ i, i < (b.chemorder.getD c []).length →
          (mp.getD c []).getD i 0 < ((imul a m).chemorder.getD c []).length ∧
          ((imul a m).chemorder.getD c []).getD ((mp.getD c []).getD i 0) 0
            = (b.chemorder.getD c []).getD i 0) := by
  obtain ⟨m, gocc, hk, hl, hp, hmp⟩ := equivalencemap_some sc G a b k mp h
  refine ⟨m, hk, fun hperm => ?_⟩
  obtain ⟨h1, h2⟩ := mkMapping_spec _ _ _ hmp
  refine ⟨?_, ?_, h2⟩
  · rw [imul_occ, permOcc_buffer a.occ.length a.occ gocc m a.occ hperm rfl rfl hl, hp]
  · simpa [imul_chemorder] using h1

/-! ### defects and the pre-filter -/

/-- The op keeps the site class (interstitial flag and native chemistry name) of every site. -/
def ClassPres (sc : SiteCtx) (n : Nat) (m : List Nat) : Prop :=
  ∀ i, i < n →
    sc.inter.getD ((m.getD i 0) % sc.N) false = sc.inter.getD (i % sc.N) false ∧
    sc.sitechem.getD ((m.getD i 0) % sc.N) "" = sc.sitechem.getD (i % sc.N) ""

theorem key_pres (sc : SiteCtx) (n : Nat) (m : List Nat) (a b buf : List Int)
    (hm : IsPerm n m) (hc : ClassPres sc n m) (ha : a.length = n) (hbuf : buf.length = n)
    (hmap : permOcc buf m a = b) (i : Nat) (hi : i < n) :
    keyAt sc b (m.getD i 0) = keyAt sc a i := by
  have hb : b.getD (m.getD i 0) (-1) = a.getD i (-1) := by
    have := permOcc_perm n buf m a hm ha hbuf i hi
    rw [hmap] at this
    rw [List.getD_eq_getElem?_getD, this, Option.getD_some]
  obtain ⟨h1, h2⟩ := hc i hi
  simp only [keyAt, hb, h1, h2]

theorem mem_visit_lt (sc : SiteCtx) (n : Nat) (hvis : (visitList sc).Perm (List.range n)) (i : Nat) :
    i ∈ visitList sc ↔ i < n := by
  rw [hvis.mem_iff, List.mem_range]

theorem mem_defSet (sc : SiteCtx) (occ : List Int) (key : String) (i : Nat) :
    i ∈ defSet sc occ key ↔ i ∈ visitList sc ∧ keyAt sc occ i = some key := by
  simp [defSet]

/-- **The pre-filter is implied by the full comparison**: an op that maps `a` onto `b` and keeps
    site classes sends every defect of `a` to a defect of `b` with the same name. -/
theorem prefilter_implied (sc : SiteCtx) (n : Nat) (m : List Nat) (a b buf : List Int) (key : String)
    (hvis : (visitList sc).Perm (List.range n))
    (hm : IsPerm n m) (hc : ClassPres sc n m) (ha : a.length = n) (hbuf : buf.length = n)
    (hmap : permOcc buf m a = b) :
    passes (defSet sc a key) (defSet sc b key) m := by
  unfold passes
  rw [List.any_eq_false]
  intro i hi
  have hi' := (mem_defSet sc a key i).1 hi
  have hlt : i < n := (mem_visit_lt sc n hvis i).1 hi'.1
  have hk := key_pres sc n m a b buf hm hc ha hbuf hmap i hlt
  have : m.getD i 0 ∈ defSet sc b key := by
    rw [mem_defSet]
    exact ⟨(mem_visit_lt sc n hvis _).2 (hm.lt hlt), by rw [hk]; exact hi'.2⟩
  simpa using this

theorem perm_as_map (n : Nat) (m : List Nat) (hm : IsPerm n m) :
    m = (List.range n).map (fun i => m.getD i 0) := by
  apply List.ext_getElem?
  intro p
  by_cases hp : p < n
  · have hp' : p < m.length := hm.1 ▸ hp
    simp [hp, List.getD_eq_getElem?_getD, List.getElem?_eq_getElem hp']
  · have : m[p]? = none := by rw [List.getElem?_eq_none_iff, hm.1]; omega
    simp [this, hp]

theorem defSet_length_eq (sc : SiteCtx) (n : Nat) (m : List Nat) (a b buf : List Int) (key : String)
    (hvis : (visitList sc).Perm (List.range n))
    (hm : IsPerm n m) (hc : ClassPres sc n m) (ha : a.length = n) (hbuf : buf.length = n)
    (hmap : permOcc buf m a = b) :
    (defSet sc a key).length = (defSet sc b key).length := by
  unfold defSet
  rw [← List.countP_eq_length_filter, ← List.countP_eq_length_filter, hvis.countP_eq, hvis.countP_eq]
  rw [← hm.perm.countP_eq (fun i => keyAt sc b i == some key)]
  conv_rhs => rw [perm_as_map n m hm, List.countP_map]
  apply List.countP_congr
  intro i hi
  have hlt : i < n := List.mem_range.1 hi
  simp only [Function.comp, key_pres sc n m a b buf hm hc ha hbuf hmap i hlt]

theorem mem_defKeys (sc : SiteCtx) (occ : List Int) (key : String) :
    key ∈ defKeys sc occ ↔ 0 < (defSet sc occ key).length := by
  unfold defKeys defSet
  rw [List.mem_eraseDups, List.mem_filterMap, List.length_pos_iff_exists_mem]
  constructor
  · rintro ⟨i, hi, hk⟩
    exact ⟨i, by simp [hi, hk]⟩
  · rintro ⟨i, hi⟩
    simp only [List.mem_filter, beq_iff_eq] at hi
    exact ⟨i, hi.1, hi.2⟩

theorem defectsMatch_of_counts (sc : SiteCtx) (a b : List Int)
    (h : ∀ key, (defSet sc a key).length = (defSet sc b key).length) :
    defectsMatch sc a b = true := by
  unfold defectsMatch
  simp only [Bool.and_eq_true, List.all_eq_true, List.contains_iff_mem, beq_iff_eq]
  refine ⟨fun k hk => ⟨?_, h k⟩, fun k hk => ⟨?_, (h k).symm⟩⟩
  · rw [mem_defKeys] at hk ⊢; rw [← h k]; exact hk
  · rw [mem_defKeys] at hk ⊢; rw [h k]; exact hk

theorem minKey_some (cnt : String → Nat) (ks : List String) (h : ks ≠ []) :
    ∃ k, minKey cnt ks = some k := by
  cases ks with
  | nil => exact absurd rfl h
  | cons k rest =>
    simp only [minKey]
    split
    · exact ⟨_, rfl⟩
    · split <;> exact ⟨_, rfl⟩

theorem minKey_none (cnt : String → Nat) (ks : List String) (h : minKey cnt ks = none) : ks = [] := by
  cases ks with
  | nil => rfl
  | cons k rest =>
    obtain ⟨k', hk'⟩ := minKey_some cnt (k :: rest) (by simp)
    rw [h] at hk'; cases hk'

/-! ### completeness -/

/-- An op of the list that is a site-class-preserving permutation mapping `a.occ` onto `b.occ`. -/
def Witness (sc : SiteCtx) (G : List (List Nat)) (a b : List Int) : Prop :=
  ∃ m ∈ G, IsPerm a.length m ∧ ClassPres sc a.length m ∧ permOcc a m a = b

theorem mem_chemorder_of_occ (s : Cell) (hs : Inv s) (j : Nat) (c : Nat) (hc : c < s.nchem) :
    j ∈ s.chemorder.getD c [] ↔ s.occ[j]? = some (c : Int) := hs.mem c j hc

/-- **Completeness.**  If the defect census is readable (`visitList` covers the sites once), every op of
    `G` is a permutation, and some op is a class-preserving permutation that maps `self.occ` onto
    `other.occ`, then `equivalencemap` returns a pair — provided a defect exists or the source guards
    the empty case. -/
theorem equiv_complete_partial (sc : SiteCtx) (G : List (List Nat)) (a b : Cell)
    (hvis : (visitList sc).Perm (List.range a.occ.length))
    (hG : ∀ m ∈ G, IsPerm a.occ.length m)
    (ha : Inv a) (hb : Inv b) (hn : a.nchem = b.nchem)
    (hw : Witness sc G a.occ b.occ)
    (hne : sc.guardEmpty = true ∨ defKeys sc a.occ ≠ []) :
    ∃ k mp, equivalencemap sc G a b = .ok (some (k, mp)) := by
  obtain ⟨mw, hmwG, hmwP, hmwC, hmwMap⟩ := hw
  have hcounts : ∀ key, (defSet sc a.occ key).length = (defSet sc b.occ key).length :=
    fun key => defSet_length_eq sc _ mw a.occ b.occ a.occ key hvis hmwP hmwC rfl rfl hmwMap
  have hdm := defectsMatch_of_counts sc a.occ b.occ hcounts
  -- step 2
  obtain ⟨sets, hsets, hpass⟩ : ∃ sets, chooseSets sc a.occ b.occ = .ok sets ∧ passes sets.1 sets.2 mw := by
    unfold chooseSets
    split
    · rename_i k hk
      exact ⟨_, rfl, prefilter_implied sc _ mw a.occ b.occ a.occ k hvis hmwP hmwC rfl rfl hmwMap⟩
    · rename_i hk
      rcases hne with hg | hne
      · exact ⟨([], []), by simp [hg], by simp [passes]⟩
      · exact absurd (minKey_none _ _ hk) hne
  -- steps 3–4
  obtain ⟨k, m, hsearch⟩ := searchOps_complete sets.1 sets.2 a.occ b.occ G 0 a.occ a.occ.length rfl
    ⟨mw, hmwG, hpass, fun buf hbuf => by
      rw [permOcc_buffer a.occ.length buf a.occ mw a.occ hmwP rfl hbuf rfl]; exact hmwMap⟩
  obtain ⟨p, g', _, hgp, hl, hmap, _⟩ := searchOps_spec _ _ _ _ _ _ _ _ _ hsearch
  have hmG : m ∈ G := List.mem_of_getElem? hgp
  have hmP := hG m hmG
  have hmap' : permOcc a.occ m a.occ = b.occ := by
    rw [permOcc_buffer a.occ.length a.occ g' m a.occ hmP rfl rfl hl]; exact hmap
  -- step 5
  have hblen : b.occ.length = a.occ.length := by rw [← hmap', permOcc_length]
  obtain ⟨mp, hmp⟩ := mkMapping_ok (a.chemorder.map (·.map fun i => m.getD i 0)) b.chemorder (by
    intro c hc j hj
    have hcb : c < b.nchem := by rw [← hb.len]; omega
    have hca : c < a.nchem := by omega
    have hjocc := (hb.mem c j hcb).1 hj
    have hjlt : j < a.occ.length := by
      rw [← hblen]
      by_contra hcon
      have : b.occ[j]? = none := by rw [List.getElem?_eq_none_iff]; omega
      rw [this] at hjocc; cases hjocc
    obtain ⟨i, hi, rfl⟩ := hmP.surj hjlt
    have hbi := permOcc_perm a.occ.length a.occ m a.occ hmP rfl rfl i hi
    rw [hmap', hjocc] at hbi
    have hai : a.occ[i]? = some (c : Int) := by
      have hi' : i < a.occ.length := hi
      simp only [List.getD_eq_getElem?_getD, List.getElem?_eq_getElem hi', Option.getD_some,
        Option.some.injEq] at hbi
      rw [List.getElem?_eq_getElem hi', hbi]
    have hmem : i ∈ a.chemorder.getD c [] := (ha.mem c i hca).2 hai
    have hclt : c < a.chemorder.length := by rw [ha.len]; exact hca
    simp only [List.getD_eq_getElem?_getD, List.getElem?_map, List.getElem?_eq_getElem hclt,
      Option.map_some, Option.getD_some] at hmem ⊢
    exact List.mem_map.2 ⟨i, hmem, rfl⟩)
  refine ⟨k, mp, ?_⟩
  unfold equivalencemap
  simp only [hdm, Bool.true_eq_false, if_false, hsets, hsearch, finish, hmp]

/-- **`None` is sound**: `(None, None)` is only returned when no class-preserving permutation in `G`
    maps `self.occ` onto `other.occ`. -/
theorem equiv_none_sound (sc : SiteCtx) (G : List (List Nat)) (a b : Cell)
    (hvis : (visitList sc).Perm (List.range a.occ.length))
    (hG : ∀ m ∈ G, IsPerm a.occ.length m)
    (ha : Inv a) (hb : Inv b) (hn : a.nchem = b.nchem)
    (h : equivalencemap sc G a b = .ok none) : ¬ Witness sc G a.occ b.occ := by
  intro hw
  by_cases hne : sc.guardEmpty = true ∨ defKeys sc a.occ ≠ []
  · obtain ⟨k, mp, hk⟩ := equiv_complete_partial sc G a b hvis hG ha hb hn hw hne
    rw [h] at hk; cases hk
  · have hg : sc.guardEmpty = false := by
      cases hge : sc.guardEmpty <;> simp_all
    have hk : defKeys sc a.occ = [] := by
      by_contra hcon; exact hne (Or.inr hcon)
    obtain ⟨mw, _, hmwP, hmwC, hmwMap⟩ := hw
    have hdm := defectsMatch_of_counts sc a.occ b.occ
      (fun key => defSet_length_eq sc _ mw a.occ b.occ a.occ key hvis hmwP hmwC rfl rfl hmwMap)
    unfold equivalencemap chooseSets at h
    simp [hdm, hk, minKey, hg] at h

/-- **The excluded point (finding F9).**  Without a guard in the source, two cells with matching
    census and no defect at all make `min()` raise: the result is a ValueError, not the identity. -/
theorem equiv_nodefect_raises (sc : SiteCtx) (G : List (List Nat)) (a b : Cell)
    (hg : sc.guardEmpty = false) (hk : defKeys sc a.occ = []) (hk' : defKeys sc b.occ = []) :
    equivalencemap sc G a b = .error .value := by
  unfold equivalencemap chooseSets defectsMatch
  simp [hk, hk', minKey, hg]

/-! ### applying the returned pair: `g*self` reordered by `mapping` is `other` -/

/-- The bookkeeping invariant of C28 implies the source's `__sane__` test. -/
theorem inv_sane (s : Cell) (h : Inv s) : saneB s = true := by
  unfold saneB
  simp only [Bool.and_eq_true, List.all_eq_true, List.mem_range]
  constructor
  · intro c hc ind hind
    have hc' : c < s.nchem := h.len ▸ hc
    simpa using (h.mem c ind hc').1 hind
  · intro ind hind
    simp only [Bool.or_eq_true]
    have hv := h.range (s.occ[ind]) (List.getElem_mem hind)
    by_cases hneg : s.occ[ind] = -1
    · right; simp [List.getElem?_eq_getElem hind, hneg]
    · left
      have hlt : (s.occ[ind]).toNat < s.nchem := by omega
      have hmem := (h.mem _ ind hlt).2 (by rw [List.getElem?_eq_getElem hind]; congr 1; omega)
      have hcl : (s.occ[ind]).toNat < s.chemorder.length := by rw [h.len]; exact hlt
      simp only [List.contains_iff_mem, List.mem_flatten]
      refine ⟨s.chemorder[(s.occ[ind]).toNat], List.getElem_mem hcl, ?_⟩
      simpa [List.getD_eq_getElem?_getD, List.getElem?_eq_getElem hcl] using hmem

theorem mem_chemorder_lt (s : Cell) (hs : Inv s) (c j : Nat) (hc : c < s.nchem)
    (hj : j ∈ s.chemorder.getD c []) : j < s.occ.length := by
  have := (hs.mem c j hc).1 hj
  by_contra hcon
  have hnone : s.occ[j]? = none := by rw [List.getElem?_eq_none_iff]; omega
  rw [hnone] at this; cases this

/-- Under an occupation-mapping permutation the per-species lists correspond: same atoms, hence same length. -/
theorem chemorder_perm (a b : Cell) (m : List Nat) (ha : Inv a) (hb : Inv b) (hn : a.nchem = b.nchem)
    (hm : IsPerm a.occ.length m) (hmap : permOcc a.occ m a.occ = b.occ) (c : Nat) (hc : c < a.nchem) :
    ((a.chemorder.getD c []).map fun i => m.getD i 0).Perm (b.chemorder.getD c []) := by
  have hblen : b.occ.length = a.occ.length := by rw [← hmap, permOcc_length]
  have hcb : c < b.nchem := hn ▸ hc
  rw [List.perm_ext_iff_of_nodup]
  · intro j
    constructor
    · intro hj
      obtain ⟨i, hi, rfl⟩ := List.mem_map.1 hj
      have hilt := mem_chemorder_lt a ha c i hc hi
      have hocc := (ha.mem c i hc).1 hi
      have hbi := permOcc_perm a.occ.length a.occ m a.occ hm rfl rfl i hilt
      rw [hmap] at hbi
      apply (hb.mem c _ hcb).2
      rw [hbi]
      simp [List.getD_eq_getElem?_getD, hocc]
    · intro hj
      have hjocc := (hb.mem c j hcb).1 hj
      have hjlt : j < a.occ.length := hblen ▸ mem_chemorder_lt b hb c j hcb hj
      obtain ⟨i, hi, rfl⟩ := hm.surj hjlt
      have hbi := permOcc_perm a.occ.length a.occ m a.occ hm rfl rfl i hi
      rw [hmap, hjocc] at hbi
      have hi' : i < a.occ.length := hi
      have hai : a.occ[i]? = some (c : Int) := by
        simp only [List.getD_eq_getElem?_getD, List.getElem?_eq_getElem hi', Option.getD_some,
          Option.some.injEq] at hbi
        rw [List.getElem?_eq_getElem hi', hbi]
      exact List.mem_map.2 ⟨i, (ha.mem c i hc).2 hai, rfl⟩
  · apply List.Nodup.map_on _ (ha.nodup c)
    intro x hx y hy e
    exact hm.inj (mem_chemorder_lt a ha c x hc hx) (mem_chemorder_lt a ha c y hc hy) e
  · exact hb.nodup c

theorem list_eq_range_map (l : List Nat) : l = (List.range l.length).map fun i => l.getD i 0 := by
  apply List.ext_getElem?
  intro p
  by_cases hp : p < l.length
  · simp [hp, List.getD_eq_getElem?_getD]
  · have : l[p]? = none := by rw [List.getElem?_eq_none_iff]; omega
    simp [hp]

/-- **Soundness, applied.**  For consistent cells with the same species count, applying the returned op
    (`__imul__`) and then `reorder(mapping)` to `self` gives exactly `other`: same `occ`, same `chemorder`. -/
theorem equiv_sound_reorder (sc : SiteCtx) (G : List (List Nat)) (a b : Cell) (k : Nat) (mp : List (List Nat))
    (ha : Inv a) (hb : Inv b) (hn : a.nchem = b.nchem)
    (h : equivalencemap sc G a b = .ok (some (k, mp))) :
    ∃ m, G[k]? = some m ∧ (IsPerm a.occ.length m → reorder (imul a m) mp = .ok b) := by
  obtain ⟨m, hk, hs⟩ := equiv_sound sc G a b k mp h
  refine ⟨m, hk, fun hperm => ?_⟩
  obtain ⟨hocc, hlen, hspec⟩ := hs hperm
  have hmap : permOcc a.occ m a.occ = b.occ := by rw [← imul_occ]; exact hocc
  have hmpl : mp.length = a.nchem := by rw [hlen, ha.len, hb.len, hn]; simp
  have hgl : (imul a m).chemorder.length = a.nchem := by rw [imul_chemorder]; simp [ha.len]
  -- per-species facts
  have hper : ∀ c, c < a.nchem →
      ((imul a m).chemorder.getD c []).length = (b.chemorder.getD c []).length := by
    intro c hc
    have hp := (chemorder_perm a b m ha hb hn hperm hmap c hc).length_eq
    have hcl : c < a.chemorder.length := by rw [ha.len]; exact hc
    rw [imul_chemorder]
    simpa [List.getD_eq_getElem?_getD, List.getElem?_map, List.getElem?_eq_getElem hcl] using hp
  have hguard : ¬ (mp.length ≠ (imul a m).chemorder.length) := by rw [hmpl, hgl]; simp
  rw [reorder, if_neg hguard]
  unfold reorderZip
  -- the index guard
  have hok : ((imul a m).chemorder.zip mp).all (fun (x : List Nat × List Nat) =>
      (List.range x.1.length).all fun i =>
        match x.2[i]? with
        | none => false
        | some j => decide (j < x.1.length)) = true := by
    rw [List.all_eq_true]
    intro x hx
    obtain ⟨c, hc, rfl⟩ := List.getElem_of_mem hx
    have hc' : c < a.nchem := by simp [List.length_zip, hgl, hmpl] at hc; exact hc
    have hcg : c < (imul a m).chemorder.length := by rw [hgl]; exact hc'
    have hcm : c < mp.length := by rw [hmpl]; exact hc'
    rw [List.getElem_zip, List.all_eq_true]
    intro i hi
    have hi' : i < ((imul a m).chemorder.getD c []).length := by
      simpa [List.getD_eq_getElem?_getD, List.getElem?_eq_getElem hcg] using hi
    obtain ⟨hl1, hl2⟩ := hspec c hcm
    have hib : i < (b.chemorder.getD c []).length := by rw [← hper c hc']; exact hi'
    have him : i < (mp[c]).length := by
      have : (mp.getD c []).length = (mp[c]).length := by
        simp [List.getD_eq_getElem?_getD, List.getElem?_eq_getElem hcm]
      rw [← this, hl1]; exact hib
    have := (hl2 i hib).1
    simp only [List.getElem?_eq_getElem him]
    simpa [List.getD_eq_getElem?_getD, List.getElem?_eq_getElem hcm, List.getElem?_eq_getElem hcg,
      List.getElem?_eq_getElem him] using this
  -- the reordered lists are `other`'s
  have hnew : (((imul a m).chemorder.zip mp).map fun (x : List Nat × List Nat) =>
      (List.range x.1.length).map fun i => x.1.getD (x.2.getD i 0) 0) = b.chemorder := by
    apply List.ext_getElem
    · simp [List.length_zip, hgl, hmpl, hb.len, hn]
    · intro c h1 h2
      have hc' : c < a.nchem := by simp [List.length_zip, hgl, hmpl] at h1; exact h1
      have hcg : c < (imul a m).chemorder.length := by rw [hgl]; exact hc'
      have hcm : c < mp.length := by rw [hmpl]; exact hc'
      have hcb : c < b.chemorder.length := h2
      obtain ⟨hl1, hl2⟩ := hspec c hcm
      have hg : (imul a m).chemorder.getD c [] = (imul a m).chemorder[c] := by
        simp [List.getD_eq_getElem?_getD, List.getElem?_eq_getElem hcg]
      have hm' : mp.getD c [] = mp[c] := by
        simp [List.getD_eq_getElem?_getD, List.getElem?_eq_getElem hcm]
      have hb' : b.chemorder.getD c [] = b.chemorder[c] := by
        simp [List.getD_eq_getElem?_getD, List.getElem?_eq_getElem hcb]
      rw [List.getElem_map, List.getElem_zip]
      simp only
      conv_rhs => rw [list_eq_range_map (b.chemorder[c])]
      have hlen' : ((imul a m).chemorder[c]).length = (b.chemorder[c]).length := by
        rw [← hg, ← hb']; exact hper c hc'
      rw [hlen']
      apply List.map_congr_left
      intro i hi
      have hib : i < (b.chemorder.getD c []).length := by rw [hb']; exact List.mem_range.1 hi
      have := (hl2 i hib).2
      rw [hg, hm', hb'] at this
      exact this
  simp only [hnew]
  have hcell : ({ imul a m with chemorder := b.chemorder } : Cell) = b := by
    cases b with
    | mk nb ob cb =>
      simp only [Cell.mk.injEq]
      exact ⟨hn, hocc, trivial⟩
  rw [hcell, inv_sane b hb]
  split
  · rename_i hbad
    exact absurd hok hbad
  · simp

/-! ### the full-strength completeness statement, and the excluded point -/

/-- Completeness with no hypothesis on the defect census, for a source whose guard flag is `g`. -/
def equiv_complete_full (g : Bool) : Prop :=
  ∀ (sc : SiteCtx) (G : List (List Nat)) (a b : Cell), sc.guardEmpty = g →
    (visitList sc).Perm (List.range a.occ.length) → (∀ m ∈ G, IsPerm a.occ.length m) →
    Inv a → Inv b → a.nchem = b.nchem → Witness sc G a.occ b.occ →
    ∃ k mp, equivalencemap sc G a b = .ok (some (k, mp))

theorem equiv_complete_full_guarded : equiv_complete_full true :=
  fun sc G a b hg hvis hG ha hb hn hw =>
    equiv_complete_partial sc G a b hvis hG ha hb hn hw (Or.inl hg)

/-- Two-site cell of one species, both sites occupied: no defect. -/
def exCtx (g : Bool) : SiteCtx :=
  { N := 1, size := 2, chemistry := ["A", "v"], inter := [false], sitechem := ["A"], atomOrder := [0],
    guardEmpty := g }
def exFull : Cell := { nchem := 1, occ := [0, 0], chemorder := [[0, 1]] }
def exVac0 : Cell := { nchem := 1, occ := [-1, 0], chemorder := [[1]] }
def exVac1 : Cell := { nchem := 1, occ := [0, -1], chemorder := [[0]] }

theorem exFull_inv : Inv exFull :=
  Onsager.C28.fill_inv (Cell.empty 1 2) exFull 0 [0, 1] (Onsager.C28.empty_inv 1 2) (by decide)
theorem exVac0_inv : Inv exVac0 :=
  Onsager.C28.setocc_inv exFull 0 (-1) exFull_inv exVac0 (by decide)
theorem exVac1_inv : Inv exVac1 :=
  Onsager.C28.setocc_inv exFull 1 (-1) exFull_inv exVac1 (by decide)

theorem ex_isPerm_id : IsPerm 2 [0, 1] := by unfold IsPerm; decide
theorem ex_isPerm_swap : IsPerm 2 [1, 0] := by unfold IsPerm; decide
theorem ex_classPres (g : Bool) (m : List Nat) : ClassPres (exCtx g) 2 m := by
  intro i _; simp [exCtx, Nat.mod_one]

theorem equiv_complete_full_unguarded_fails : ¬ equiv_complete_full false := by
  intro h
  obtain ⟨k, mp, hk⟩ := h (exCtx false) [[0, 1]] exFull exFull rfl (by decide)
    (by intro m hm; simp at hm; subst hm; exact ex_isPerm_id) exFull_inv exFull_inv rfl
    ⟨[0, 1], by simp, ex_isPerm_id, ex_classPres false _, by decide⟩
  rw [equiv_nodefect_raises (exCtx false) [[0, 1]] exFull exFull rfl (by decide) (by decide)] at hk
  cases hk

/-- Non-vacuity: the hypotheses of soundness/completeness are met by a cell with one vacancy moved by
    the swap; the model returns op #1 with the identity mapping, and applying it gives `other`. -/
example : equivalencemap (exCtx false) [[0, 1], [1, 0]] exVac1 exVac0 = .ok (some (1, [[0]])) := by decide
example : Witness (exCtx false) [[0, 1], [1, 0]] exVac1.occ exVac0.occ :=
  ⟨[1, 0], by simp, ex_isPerm_swap, ex_classPres false _, by decide⟩
example : reorder (imul exVac1 [1, 0]) [[0]] = .ok exVac0 := by decide
example : defKeys (exCtx false) exVac1.occ ≠ [] := by decide
example : equivalencemap (exCtx false) [[0, 1], [1, 0]] exFull exFull = .error .value := by decide
example : equivalencemap (exCtx true) [[0, 1], [1, 0]] exFull exFull = .ok (some (0, [[0, 1]])) := by decide

/-! ### `gengroup`: every generated op is a permutation of the sites -/

theorem mapE_spec {α β ε} (f : α → Except ε β) (l : List α) (r : List β) (h : mapE f l = .ok r) :
    r.length = l.length ∧ ∀ y ∈ r, ∃ x ∈ l, f x = .ok y := by
  induction l generalizing r with
  | nil => simp [mapE] at h; subst h; simp
  | cons x xs ih =>
    simp only [mapE] at h
    split at h
    · cases h
    · rename_i y hy
      split at h
      · cases h
      · rename_i ys hys
        simp only [Except.ok.injEq] at h
        subst h
        obtain ⟨hl, hm⟩ := ih ys hys
        refine ⟨by simp [hl], ?_⟩
        intro z hz
        rcases List.mem_cons.1 hz with rfl | hz
        · exact ⟨x, List.mem_cons_self, hy⟩
        · obtain ⟨x', hx', hfx'⟩ := hm z hz
          exact ⟨x', List.mem_cons_of_mem _ hx', hfx'⟩

/-- The index map computed for one op passes the source's test `len(set(indexmap)) == N*size`; together with
    the shape of the construction (one entry per cell and atom, each `transdict[..]*N + a'`) it is a
    permutation of `0 … N*size-1`. -/
theorem indexmapOf_isPerm (N : Nat) (T : Trans) (unittrans : List V3) (g0 : CrysOp) (u : V3) (im : List Nat)
    (hT : T.translist.length = T.size) (hu : unittrans.length = T.size)
    (hat : g0.atoms.length = N) (hrange : ∀ ad ∈ g0.atoms, ad.1 < N)
    (h : indexmapOf N T unittrans g0 u = .ok im) : IsPerm (N * T.size) im := by
  unfold indexmapOf at h
  split at h
  · cases h
  · rename_i l hl
    split at h
    · cases h
    · rename_i hd
      simp only [Except.ok.injEq] at h
      subst h
      obtain ⟨hlen, hmem⟩ := mapE_spec _ _ _ hl
      have hlen' : l.length = N * T.size := by
        rw [hlen, List.length_flatMap]
        simp [hat, hu, Nat.mul_comm]
      refine ⟨hlen', nodup_of_distinct_length l (by rw [hlen']; simpa using hd), ?_⟩
      intro x hx
      obtain ⟨p, hp, hfp⟩ := hmem x hx
      obtain ⟨R, _, hp2⟩ := List.mem_flatMap.1 hp
      obtain ⟨ad, had, rfl⟩ := List.mem_map.1 hp2
      simp only [siteImage] at hfp
      split at hfp
      · rename_i hc
        simp only [Except.ok.injEq] at hfp
        subst hfp
        have hmemk : (mulVec T.invsuper (vadd (vadd (mulVec g0.rot R) ad.2) u)).map (· % (T.size : Int))
            ∈ T.translist := by simpa using hc
        have h1 := List.idxOf_lt_length_of_mem hmemk
        rw [hT] at h1
        have h2 := hrange ad had
        generalize T.translist.idxOf ((mulVec T.invsuper (vadd (vadd (mulVec g0.rot R) ad.2) u)).map
          (· % (T.size : Int))) = k at h1 ⊢
        have h3 : (k + 1) * N ≤ T.size * N := Nat.mul_le_mul_right N h1
        have h4 : (k + 1) * N = k * N + N := by ring
        have h5 : T.size * N = N * T.size := Nat.mul_comm _ _
        omega
      · cases hfp

theorem maketrans_length (S : M3) (T : Trans) (h : maketrans S = .ok T) : T.translist.length = T.size := by
  unfold maketrans at h
  split at h
  · cases h
  · split at h
    · cases h
    · rename_i hl
      simp only [Except.ok.injEq] at h
      subst h
      simpa using hl

/-- **Every op produced by `gengroup` permutes the sites.** -/
theorem gengroupOp_perms (S : M3) (N : Nat) (T : Trans) (g0 : CrysOp) (ops : List SuperOp)
    (hT : maketrans S = .ok T) (hat : g0.atoms.length = N) (hrange : ∀ ad ∈ g0.atoms, ad.1 < N)
    (h : gengroupOp S N T g0 = .ok (some ops)) : ∀ g ∈ ops, IsPerm (N * T.size) g.indexmap := by
  have hTl := maketrans_length S T hT
  unfold gengroupOp at h
  simp only at h
  split at h
  · cases h
  · split at h
    · cases h
    · rename_i l hl
      simp only [Except.ok.injEq, Option.some.injEq] at h
      subst h
      intro g hg
      obtain ⟨_, hmem⟩ := mapE_spec _ _ _ hl
      obtain ⟨u, _, hfu⟩ := hmem g hg
      split at hfu
      · cases hfu
      · rename_i im him
        simp only [Except.ok.injEq] at hfu
        subst hfu
        exact indexmapOf_isPerm N T (unitTrans S T) g0 u im hTl (by simp [unitTrans, hTl]) hat hrange him

end Onsager.C27
