/-
  C35 — the compiled sampler refines the reference sampler (models: OnsagerModel/C35.lean over
  OnsagerModel/C33.lean).  All statements are for arbitrary tables, sizes and histories.

  * `E_eq`                 E() agrees
  * `deltaE_eq`            deltaE_trial agrees under its stated precondition; the early `break` at
                           `n ≥ Nenergy` is sound for ascending rows (`count_takeWhile_of_sorted`,
                           `break_unsound_unsorted`)
  * `JInv`, `jupdate_inv`  `index` is the inverse of the two prefix arrays, which list the occupied /
                           unoccupied sites; the swap bookkeeping of `update` preserves this
  * `scanLoop_inv`, `jstart_refines`, `param_refines`
                           `start` and `MonteCarloSampler_param` establish it and the abstraction
                           equals the reference state
  * `update_refines`       abstraction commutes with update
  * `transitions_eq`       reference transitions = the finite entries of the compiled ones
  * `MCmoves_eq_fold`, `MCmoves_refines`
                           a batch is the left fold of the single-move Metropolis rule and every
                           step refines the reference trial/update
  * `history_refines`, `history_observables`
                           any history of start / update / MCmoves batches within the documented
                           preconditions keeps the compiled sampler a faithful representation of the
                           reference sampler driven through the same history (induction)
-/
import OnsagerModel.C35
import OnsagerProofs.C33
import Mathlib.Tactic.Ring
import Mathlib.Tactic.Linarith

set_option linter.unusedSimpArgs false
set_option linter.unnecessarySeqFocus false

namespace Onsager.C35
open Onsager.C33

/-! ### accumulating loops are sums -/

theorem foldl_add_eq_sum {α} (l : List α) (f : α → Int) (z : Int) :
    l.foldl (fun acc x => acc + f x) z = z + (l.map f).sum := by
  induction l generalizing z with
  | nil => simp
  | cons a l ih => simp only [List.foldl_cons, List.map_cons, List.sum_cons]; rw [ih]; ring

/-- **`E()` of the compiled sampler is the reference energy of the same counts.** -/
theorem E_eq (T : Table) (j : JState) : jE T j = energy T (abs T j) := by
  unfold jE energy
  have : (fun (E : Int) (n : Nat) => if j.cc.getD n 1 = 0 then E + T.value.getD n 0 else E)
       = (fun E n => E + (if j.cc.getD n 1 = 0 then T.value.getD n 0 else 0)) := by
    funext E n; split <;> simp
  rw [this, foldl_add_eq_sum]; simp [abs]

/-! ### the early `break` -/

theorem bumpBreak_eq (ne : Nat) (d : Array Int) (sgn : Int) (row : List Nat) :
    bumpBreak ne d sgn row = bump d (row.takeWhile (· < ne)) sgn := by
  induction row generalizing d with
  | nil => rfl
  | cons n row ih =>
    unfold bumpBreak
    by_cases h : n ≥ ne
    · have : ¬ n < ne := by omega
      simp [h, this, bump_nil]
    · have h' : n < ne := by omega
      simp only [h, if_false, List.takeWhile_cons, h', decide_true, if_true, bump_cons]
      exact ih _

/-- In an ascending row everything after the first entry `≥ ne` is `≥ ne`: stopping there loses no
    interaction below `ne`. -/
theorem count_takeWhile_of_sorted (ne m : Nat) (row : List Nat) (hs : row.Pairwise (· ≤ ·)) (hm : m < ne) :
    (row.takeWhile (· < ne)).count m = row.count m := by
  induction row with
  | nil => rfl
  | cons a row ih =>
    rw [List.pairwise_cons] at hs
    by_cases h : a < ne
    · simp only [List.takeWhile_cons, h, decide_true, if_true, List.count_cons, ih hs.2]
    · simp only [List.takeWhile_cons, h, decide_false, Bool.false_eq_true, if_false, List.count_nil]
      symm
      rw [List.count_eq_zero]
      intro hmem
      rcases List.mem_cons.1 hmem with e | e
      · omega
      · have := hs.1 m e; omega


/-- **`deltaE_trial` of the compiled sampler equals the reference one** for `occsite` unoccupied and
    `unoccsite` occupied (its stated precondition), provided the two rows are ascending — which makes
    the early `break` at `n ≥ Nenergy` sound (`break_unsound_unsorted` shows it is needed). -/
theorem deltaE_eq (T : Table) (j : JState) (a b : Nat)
    (hne : T.nenergy ≤ T.value.size)
    (ha : j.occ[a]? = some 0) (hb : j.occ[b]? = some 1)
    (hv : ∀ v, T.vacancy = some v → v ≠ a ∧ v ≠ b)
    (hsa : (T.rows.getD a []).Pairwise (· ≤ ·)) (hsb : (T.rows.getD b []).Pairwise (· ≤ ·)) :
    deltaE T (abs T j) [a] [b] = .ok (jdeltaE T j a b) := by
  have hv1 : hasVacancy T [a] = false :=
    hasVacancy_false T [a] (fun v e hm => (hv v e).1 (by simpa using hm))
  have hv2 : hasVacancy T [b] = false :=
    hasVacancy_false T [b] (fun v e hm => (hv v e).2 (by simpa using hm))
  unfold deltaE
  simp only [hv1, hv2, Bool.false_eq_true, if_false, dAcc, abs, ha, hb, if_true]
  congr 1
  unfold dEsum jdeltaE
  rw [foldl_add_eq_sum, zero_add]
  apply congrArg
  apply List.map_congr_left
  intro m hm
  have hm' : m < T.nenergy := by simpa using hm
  have hm'' : m < T.value.size := by omega
  congr 1
  simp only [Array.getD_eq_getD_getElem?, bumpBreak_eq, bump_get, Array.getElem?_replicate, hm', hm'',
    if_true, Option.map_some, Option.getD_some,
    count_takeWhile_of_sorted T.nenergy m _ hsa hm', count_takeWhile_of_sorted T.nenergy m _ hsb hm']

/-- without ascending rows the `break` drops interactions: row `[5, 0]` with `Nenergy = 1` -/
theorem break_unsound_unsorted :
    let T : Table := { rows := [[5, 0], [0]], value := #[3, 0, 0, 0, 0, 1], nenergy := 1, vacancy := none,
                       jumps := none, irange := #[] }
    let j : JState := param T (match start T [0, 1] with | .ok s => some s | .error _ => none)
    deltaE T (abs T j) [0] [] = .ok 3 ∧ jdeltaE T j 0 5 = 0 := by decide +kernel


/-! ### the index/prefix invariant -/

structure JInv (T : Table) (j : JState) : Prop where
  len_occ : j.occ.length = T.rows.length
  len_os : j.occset.length = T.rows.length
  len_us : j.unoccset.length = T.rows.length
  len_ix : j.index.length = T.rows.length
  occ_fwd : ∀ k, k < j.nocc → ∃ i, j.occset[k]? = some i ∧ j.occ[i]? = some 1 ∧ j.index[i]? = some (k : Int)
  unocc_fwd : ∀ k, k < j.nunocc → ∃ i, j.unoccset[k]? = some i ∧ j.occ[i]? = some 0 ∧ j.index[i]? = some (k : Int)
  occ_bwd : ∀ i, j.occ[i]? = some 1 → ∃ k, k < j.nocc ∧ j.index[i]? = some (k : Int) ∧ j.occset[k]? = some i
  unocc_bwd : ∀ i, j.occ[i]? = some 0 → ∃ k, k < j.nunocc ∧ j.index[i]? = some (k : Int) ∧ j.unoccset[k]? = some i

theorem lt_of_get {α} {l : List α} {i : Nat} {x : α} (h : l[i]? = some x) : i < l.length := by
  rcases Nat.lt_or_ge i l.length with h' | h'
  · exact h'
  · rw [List.getElem?_eq_none h'] at h; cases h

/-- **The swap bookkeeping of `update` keeps the index/prefix invariant** when `occsite` is
    unoccupied and `unoccsite` occupied. -/
theorem jupdate_inv {T : Table} {j : JState} (h : JInv T j) (a b : Nat)
    (ha : j.occ[a]? = some 0) (hb : j.occ[b]? = some 1) : JInv T (jupdate T j a b) := by
  obtain ⟨ia, hia, hxa, hua⟩ := h.unocc_bwd a ha
  obtain ⟨kb, hkb, hxb, hob⟩ := h.occ_bwd b hb
  have hab : a ≠ b := by rintro rfl; rw [ha] at hb; cases hb
  have hla := lt_of_get ha
  have hlb := lt_of_get hb
  have hlia := lt_of_get hua
  have hlkb := lt_of_get hob
  have hlxa := lt_of_get hxa
  have hlxb := lt_of_get hxb
  have e1 : j.index.getD a 0 = (ia : Int) := by simp [List.getD_eq_getElem?_getD, hxa]
  have e2 : j.index.getD b 0 = (kb : Int) := by simp [List.getD_eq_getElem?_getD, hxb]
  have hj : jupdate T j a b =
      { j with occ := (j.occ.set a 1).set b 0
               cc := bump (bump j.cc (T.rows.getD a []) (-1)) (T.rows.getD b []) 1
               occset := j.occset.set kb a, unoccset := j.unoccset.set ia b
               index := (j.index.set a (kb : Int)).set b (ia : Int) } := by
    unfold jupdate
    simp only [e1, e2, Int.toNat_natCast]
  rw [hj]
  refine ⟨by simp [h.len_occ], by simp [h.len_os], by simp [h.len_us], by simp [h.len_ix], ?_, ?_, ?_, ?_⟩
  · -- occupied prefix
    intro k hk
    simp only at hk ⊢
    by_cases hkk : k = kb
    · subst hkk
      refine ⟨a, by simp [List.getElem?_set, hlkb], ?_, ?_⟩
      · simp [List.getElem?_set, hab, Ne.symm hab, hla]
      · simp [List.getElem?_set, hab, Ne.symm hab, hlxa]
    · obtain ⟨i, h1, h2, h3⟩ := h.occ_fwd k hk
      have hia' : i ≠ a := by rintro rfl; rw [ha] at h2; cases h2
      have hib' : i ≠ b := by
        rintro rfl; rw [hxb] at h3; injection h3 with h3; exact hkk (by omega)
      refine ⟨i, by simp [List.getElem?_set, Ne.symm hkk, h1], ?_, ?_⟩
      · simp [List.getElem?_set, Ne.symm hia', Ne.symm hib', h2]
      · simp [List.getElem?_set, Ne.symm hia', Ne.symm hib', h3]
  · intro k hk
    simp only at hk ⊢
    by_cases hkk : k = ia
    · subst hkk
      refine ⟨b, by simp [List.getElem?_set, hlia], ?_, ?_⟩
      · simp [List.getElem?_set, hlb]
      · simp [List.getElem?_set, hlxb]
    · obtain ⟨i, h1, h2, h3⟩ := h.unocc_fwd k hk
      have hib' : i ≠ b := by rintro rfl; rw [hb] at h2; cases h2
      have hia' : i ≠ a := by
        rintro rfl; rw [hxa] at h3; injection h3 with h3; exact hkk (by omega)
      refine ⟨i, by simp [List.getElem?_set, Ne.symm hkk, h1], ?_, ?_⟩
      · simp [List.getElem?_set, Ne.symm hia', Ne.symm hib', h2]
      · simp [List.getElem?_set, Ne.symm hia', Ne.symm hib', h3]
  · intro i hi
    simp only at hi ⊢
    by_cases hib : i = b
    · subst hib; simp [List.getElem?_set, hlb] at hi
    · by_cases hiaa : i = a
      · subst hiaa
        exact ⟨kb, hkb, by simp [List.getElem?_set, hab, Ne.symm hab, hlxa], by simp [List.getElem?_set, hlkb]⟩
      · have hi' : j.occ[i]? = some 1 := by
          simpa [List.getElem?_set, Ne.symm hib, Ne.symm hiaa] using hi
        obtain ⟨k, hk, h3, h1⟩ := h.occ_bwd i hi'
        have hkk : k ≠ kb := by
          rintro rfl; rw [hob] at h1; injection h1 with h1; exact hib h1.symm
        exact ⟨k, hk, by simp [List.getElem?_set, Ne.symm hib, Ne.symm hiaa, h3],
          by simp [List.getElem?_set, Ne.symm hkk, h1]⟩
  · intro i hi
    simp only at hi ⊢
    by_cases hib : i = b
    · subst hib
      exact ⟨ia, hia, by simp [List.getElem?_set, hlxb], by simp [List.getElem?_set, hlia]⟩
    · by_cases hiaa : i = a
      · subst hiaa; simp [List.getElem?_set, hab, Ne.symm hab, hla] at hi
      · have hi' : j.occ[i]? = some 0 := by
          simpa [List.getElem?_set, Ne.symm hib, Ne.symm hiaa] using hi
        obtain ⟨k, hk, h3, h1⟩ := h.unocc_bwd i hi'
        have hkk : k ≠ ia := by
          rintro rfl; rw [hua] at h1; injection h1 with h1; exact hiaa h1.symm
        exact ⟨k, hk, by simp [List.getElem?_set, Ne.symm hib, Ne.symm hiaa, h3],
          by simp [List.getElem?_set, Ne.symm hkk, h1]⟩


/-! ### the scanning loops -/


/-- loop invariant of the scanning loops after sites `< t` have been processed -/
structure ScanInv (occIn : List Int) (n t : Nat) (j : JState) : Prop where
  len_os : j.occset.length = n
  len_us : j.unoccset.length = n
  len_ix : j.index.length = n
  le : j.nocc + j.nunocc ≤ t
  occ_fwd : ∀ k, k < j.nocc → ∃ i, i < t ∧ j.occset[k]? = some i ∧ occIn[i]? = some 1 ∧ j.index[i]? = some (k : Int)
  unocc_fwd : ∀ k, k < j.nunocc → ∃ i, i < t ∧ j.unoccset[k]? = some i ∧ occIn[i]? = some 0 ∧ j.index[i]? = some (k : Int)
  occ_bwd : ∀ i, i < t → occIn[i]? = some 1 → ∃ k, k < j.nocc ∧ j.index[i]? = some (k : Int) ∧ j.occset[k]? = some i
  unocc_bwd : ∀ i, i < t → occIn[i]? = some 0 → ∃ k, k < j.nunocc ∧ j.index[i]? = some (k : Int) ∧ j.unoccset[k]? = some i

theorem scan_step1 {occIn : List Int} {n t : Nat} {j : JState} (h : ScanInv occIn n t j) (ht : t < n)
    (ho : occIn[t]? = some 1) :
    ScanInv occIn n (t + 1) { j with occset := j.occset.set j.nocc t, index := j.index.set t (j.nocc : Int),
                                     nocc := j.nocc + 1 } := by
  have hle := h.le
  have hn : j.nocc < j.occset.length := by rw [h.len_os]; omega
  have htx : t < j.index.length := by rw [h.len_ix]; exact ht
  refine ⟨by simp [h.len_os], h.len_us, by simp [h.len_ix], by simp only; omega, ?_, ?_, ?_, ?_⟩
  · intro k hk
    simp only at hk ⊢
    by_cases hkk : k = j.nocc
    · subst hkk
      exact ⟨t, by omega, by simp [List.getElem?_set, hn], ho, by simp [List.getElem?_set, htx]⟩
    · obtain ⟨i, hi, h1, h2, h3⟩ := h.occ_fwd k (by omega)
      have : t ≠ i := by omega
      exact ⟨i, by omega, by simp [List.getElem?_set, Ne.symm hkk, h1], h2, by simp [List.getElem?_set, this, h3]⟩
  · intro k hk
    simp only at hk ⊢
    obtain ⟨i, hi, h1, h2, h3⟩ := h.unocc_fwd k hk
    have : t ≠ i := by omega
    exact ⟨i, by omega, h1, h2, by simp [List.getElem?_set, this, h3]⟩
  · intro i hi hio
    simp only
    by_cases hit : i = t
    · subst hit
      exact ⟨j.nocc, by omega, by simp [List.getElem?_set, htx], by simp [List.getElem?_set, hn]⟩
    · obtain ⟨k, hk, h3, h1⟩ := h.occ_bwd i (by omega) hio
      have : j.nocc ≠ k := by omega
      exact ⟨k, by omega, by simp [List.getElem?_set, Ne.symm hit, h3], by simp [List.getElem?_set, this, h1]⟩
  · intro i hi hio
    simp only
    have hit : i ≠ t := by rintro rfl; rw [ho] at hio; cases hio
    obtain ⟨k, hk, h3, h1⟩ := h.unocc_bwd i (by omega) hio
    exact ⟨k, hk, by simp [List.getElem?_set, Ne.symm hit, h3], h1⟩

theorem scan_step0 {occIn : List Int} {n t : Nat} {j : JState} (h : ScanInv occIn n t j) (ht : t < n)
    (ho : occIn[t]? = some 0) :
    ScanInv occIn n (t + 1) { j with unoccset := j.unoccset.set j.nunocc t, index := j.index.set t (j.nunocc : Int),
                                     nunocc := j.nunocc + 1 } := by
  have hle := h.le
  have hn : j.nunocc < j.unoccset.length := by rw [h.len_us]; omega
  have htx : t < j.index.length := by rw [h.len_ix]; exact ht
  refine ⟨h.len_os, by simp [h.len_us], by simp [h.len_ix], by simp only; omega, ?_, ?_, ?_, ?_⟩
  · intro k hk
    simp only at hk ⊢
    obtain ⟨i, hi, h1, h2, h3⟩ := h.occ_fwd k hk
    have : t ≠ i := by omega
    exact ⟨i, by omega, h1, h2, by simp [List.getElem?_set, this, h3]⟩
  · intro k hk
    simp only at hk ⊢
    by_cases hkk : k = j.nunocc
    · subst hkk
      exact ⟨t, by omega, by simp [List.getElem?_set, hn], ho, by simp [List.getElem?_set, htx]⟩
    · obtain ⟨i, hi, h1, h2, h3⟩ := h.unocc_fwd k (by omega)
      have : t ≠ i := by omega
      exact ⟨i, by omega, by simp [List.getElem?_set, Ne.symm hkk, h1], h2, by simp [List.getElem?_set, this, h3]⟩
  · intro i hi hio
    simp only
    have hit : i ≠ t := by rintro rfl; rw [ho] at hio; cases hio
    obtain ⟨k, hk, h3, h1⟩ := h.occ_bwd i (by omega) hio
    exact ⟨k, hk, by simp [List.getElem?_set, Ne.symm hit, h3], h1⟩
  · intro i hi hio
    simp only
    by_cases hit : i = t
    · subst hit
      exact ⟨j.nunocc, by omega, by simp [List.getElem?_set, htx], by simp [List.getElem?_set, hn]⟩
    · obtain ⟨k, hk, h3, h1⟩ := h.unocc_bwd i (by omega) hio
      have : j.nunocc ≠ k := by omega
      exact ⟨k, by omega, by simp [List.getElem?_set, Ne.symm hit, h3], by simp [List.getElem?_set, this, h1]⟩

theorem scan_stepx {occIn : List Int} {n t : Nat} {j : JState} (h : ScanInv occIn n t j) (ht : t < n)
    (o : Int) (ho : occIn[t]? = some o) (h1 : o ≠ 1) (h0 : o ≠ 0) :
    ScanInv occIn n (t + 1) { j with index := j.index.set t (-1) } := by
  have hle := h.le
  refine ⟨h.len_os, h.len_us, by simp [h.len_ix], by simp only; omega, ?_, ?_, ?_, ?_⟩
  · intro k hk
    obtain ⟨i, hi, g1, g2, g3⟩ := h.occ_fwd k hk
    have : t ≠ i := by omega
    exact ⟨i, by omega, g1, g2, by simp [List.getElem?_set, this, g3]⟩
  · intro k hk
    obtain ⟨i, hi, g1, g2, g3⟩ := h.unocc_fwd k hk
    have : t ≠ i := by omega
    exact ⟨i, by omega, g1, g2, by simp [List.getElem?_set, this, g3]⟩
  · intro i hi hio
    have hit : i ≠ t := by rintro rfl; rw [ho] at hio; injection hio with e; exact h1 e
    obtain ⟨k, hk, g3, g1⟩ := h.occ_bwd i (by omega) hio
    exact ⟨k, hk, by simp [List.getElem?_set, Ne.symm hit, g3], g1⟩
  · intro i hi hio
    have hit : i ≠ t := by rintro rfl; rw [ho] at hio; injection hio with e; exact h0 e
    obtain ⟨k, hk, g3, g1⟩ := h.unocc_bwd i (by omega) hio
    exact ⟨k, hk, by simp [List.getElem?_set, Ne.symm hit, g3], g1⟩

theorem scanLoop_inv (occIn : List Int) (n : Nat) (hn : occIn.length = n) (os : List Int) (t : Nat) (j : JState)
    (hd : occIn.drop t = os) (ht : t ≤ n) (h : ScanInv occIn n t j) :
    ScanInv occIn n n (scanLoop t os j) ∧ (scanLoop t os j).occ = j.occ ∧ (scanLoop t os j).cc = j.cc := by
  induction os generalizing t j with
  | nil =>
    have : n ≤ t := by
      have := congrArg List.length hd
      simp at this; omega
    have : t = n := by omega
    subst this
    exact ⟨h, rfl, rfl⟩
  | cons o os ih =>
    have hlt : t < n := by
      have := congrArg List.length hd
      simp at this; omega
    have hot : occIn[t]? = some o := by
      have := congrArg (fun l => l[0]?) hd
      simpa [List.getElem?_drop] using this
    have hd' : occIn.drop (t + 1) = os := by
      have := congrArg List.tail hd
      simpa [List.tail_drop] using this
    unfold scanLoop
    by_cases h1 : o = 1
    · subst h1
      simp only [if_true]
      obtain ⟨a, b, c⟩ := ih (t + 1) _ hd' (by omega) (scan_step1 h hlt hot)
      exact ⟨a, b, c⟩
    · by_cases h0 : o = 0
      · subst h0
        simp only [h1, if_false, if_true]
        obtain ⟨a, b, c⟩ := ih (t + 1) _ hd' (by omega) (scan_step0 h hlt hot)
        exact ⟨a, b, c⟩
      · simp only [h1, h0, if_false]
        obtain ⟨a, b, c⟩ := ih (t + 1) _ hd' (by omega) (scan_stepx h hlt o hot h1 h0)
        exact ⟨a, b, c⟩


/-! ### refinement -/

theorem scanInv_zero (occIn : List Int) (n : Nat) (j : JState) (h1 : j.occset.length = n)
    (h2 : j.unoccset.length = n) (h3 : j.index.length = n) (h4 : j.nocc = 0) (h5 : j.nunocc = 0) :
    ScanInv occIn n 0 j :=
  ⟨h1, h2, h3, by omega, by intro k hk; omega, by intro k hk; omega, by intro i hi; omega, by intro i hi; omega⟩

theorem scanInv_JInv {T : Table} {j : JState} (h : ScanInv j.occ T.rows.length T.rows.length j)
    (hl : j.occ.length = T.rows.length) : JInv T j := by
  refine ⟨hl, h.len_os, h.len_us, h.len_ix, ?_, ?_, ?_, ?_⟩
  · intro k hk
    obtain ⟨i, _, a, b, c⟩ := h.occ_fwd k hk
    exact ⟨i, a, b, c⟩
  · intro k hk
    obtain ⟨i, _, a, b, c⟩ := h.unocc_fwd k hk
    exact ⟨i, a, b, c⟩
  · intro i hi
    exact h.occ_bwd i (by rw [← hl]; exact lt_of_get hi) hi
  · intro i hi
    exact h.unocc_bwd i (by rw [← hl]; exact lt_of_get hi) hi

/-- under the invariant the two prefixes, read as sets, are exactly `{occ = 1}` and `{occ = 0}` -/
theorem abs_eq {T : Table} {j : JState} (h : JInv T j) :
    abs T j = { occ := j.occ, cc := j.cc, occd := j.occ.map (· == 1), unoccd := j.occ.map (· == 0) } := by
  unfold abs
  congr 1
  · apply List.ext_getElem?
    intro i
    simp only [List.getElem?_map, List.getElem?_range']
    by_cases hi : i < T.rows.length
    · have hi' : i < j.occ.length := by rw [h.len_occ]; exact hi
      rw [List.getElem?_range hi, List.getElem?_eq_getElem hi']
      simp only [Option.map_some]
      congr 1
      rw [Bool.eq_iff_iff]
      simp only [List.contains_iff_mem, beq_iff_eq, List.mem_iff_getElem?, List.getElem?_take]
      constructor
      · rintro ⟨k, hk⟩
        by_cases hkn : k < j.nocc
        · simp only [hkn, if_true] at hk
          obtain ⟨i', a, b, _⟩ := h.occ_fwd k hkn
          rw [hk] at a; injection a with a; subst a
          rw [List.getElem?_eq_getElem hi'] at b; injection b
        · simp [hkn] at hk
      · intro ho
        obtain ⟨k, hk, _, c⟩ := h.occ_bwd i (by rw [List.getElem?_eq_getElem hi', ho])
        exact ⟨k, by simp [hk, c]⟩
    · have hi' : j.occ.length ≤ i := by rw [h.len_occ]; omega
      rw [List.getElem?_eq_none hi', List.getElem?_eq_none (by simpa using Nat.le_of_not_lt hi)]; rfl
  · apply List.ext_getElem?
    intro i
    simp only [List.getElem?_map, List.getElem?_range']
    by_cases hi : i < T.rows.length
    · have hi' : i < j.occ.length := by rw [h.len_occ]; exact hi
      rw [List.getElem?_range hi, List.getElem?_eq_getElem hi']
      simp only [Option.map_some]
      congr 1
      rw [Bool.eq_iff_iff]
      simp only [List.contains_iff_mem, beq_iff_eq, List.mem_iff_getElem?, List.getElem?_take]
      constructor
      · rintro ⟨k, hk⟩
        by_cases hkn : k < j.nunocc
        · simp only [hkn, if_true] at hk
          obtain ⟨i', a, b, _⟩ := h.unocc_fwd k hkn
          rw [hk] at a; injection a with a; subst a
          rw [List.getElem?_eq_getElem hi'] at b; injection b
        · simp [hkn] at hk
      · intro ho
        obtain ⟨k, hk, _, c⟩ := h.unocc_bwd i (by rw [List.getElem?_eq_getElem hi', ho])
        exact ⟨k, by simp [hk, c]⟩
    · have hi' : j.occ.length ≤ i := by rw [h.len_occ]; omega
      rw [List.getElem?_eq_none hi', List.getElem?_eq_none (by simpa using Nat.le_of_not_lt hi)]; rfl


/-- the compiled state `j` represents the reference state `s` -/
def Refines (T : Table) (j : JState) (s : State) : Prop := JInv T j ∧ abs T j = s

/-- **`MonteCarloSampler_jit(**MonteCarloSampler_param(MC))` of a started reference sampler
    represents that sampler's state.** -/
theorem param_refines (T : Table) (s : State) (h : Inv T s) : Refines T (param T (some s)) s := by
  have hn : s.occ.length = T.rows.length := h.len
  obtain ⟨a, b, c⟩ := scanLoop_inv s.occ T.rows.length hn s.occ 0
    { occ := s.occ, cc := s.cc, nocc := 0, nunocc := 0, occset := List.replicate T.rows.length 0,
      unoccset := List.replicate T.rows.length 0, index := List.replicate s.occ.length 0 }
    (by simp) (by omega) (scanInv_zero _ _ _ (by simp) (by simp) (by simp [hn]) rfl rfl)
  have hj : JInv T (param T (some s)) := by
    apply scanInv_JInv
    · show ScanInv (param T (some s)).occ _ _ _
      have : (param T (some s)).occ = s.occ := b
      rw [this]; exact a
    · have : (param T (some s)).occ = s.occ := b
      rw [this]; exact hn
  refine ⟨hj, ?_⟩
  rw [abs_eq hj]
  have e1 : (param T (some s)).occ = s.occ := b
  have e2 : (param T (some s)).cc = s.cc := c
  rw [e1, e2]
  have := h.sets
  cases s with
  | mk o c od ud => simp only at this ⊢; rw [this.1, this.2]

/-- **`MonteCarloSampler_jit.start(occ)` represents the reference sampler started on `occ`.** -/
theorem jstart_refines (T : Table) (j : JState) (occ : List Int) (s : State)
    (hos : j.occset.length = T.rows.length) (hus : j.unoccset.length = T.rows.length)
    (hix : j.index.length = T.rows.length) (hcc : j.cc.size = T.value.size)
    (hlen : occ.length = T.rows.length) (hs : start T occ = .ok s) :
    Refines T (jstart T j occ) s := by
  obtain ⟨a, b, c⟩ := scanLoop_inv occ T.rows.length hlen occ 0
    { j with occ := occ, cc := C33.startLoop (Array.replicate j.cc.size 0) occ T.rows, nocc := 0, nunocc := 0 }
    (by simp) (by omega) (scanInv_zero _ _ _ hos hus hix rfl rfl)
  have e1 : (jstart T j occ).occ = occ := b
  have e2 : (jstart T j occ).cc = C33.startLoop (Array.replicate j.cc.size 0) occ T.rows := c
  have hj : JInv T (jstart T j occ) := by
    apply scanInv_JInv
    · rw [e1]; exact a
    · rw [e1]; exact hlen
  refine ⟨hj, ?_⟩
  rw [abs_eq hj, e1, e2, hcc]
  have := ((start_ok_iff T occ s).1 hs).2.2
  rw [this, fresh_of_len T occ hlen]

/-- **Abstraction commutes with `update`**: on an unoccupied `occsite` and an occupied `unoccsite`
    the compiled update represents the reference `update((occsite,), (unoccsite,))`, which succeeds. -/
theorem update_refines {T : Table} {j : JState} {s : State} (h : Refines T j s) (a b : Nat)
    (ha : s.occ[a]? = some 0) (hb : s.occ[b]? = some 1)
    (hv : ∀ v, T.vacancy = some v → v ≠ a ∧ v ≠ b) :
    Refines T (jupdate T j a b) (update T s [a] [b]).1 ∧ (update T s [a] [b]).2 = none := by
  obtain ⟨hj, hs⟩ := h
  subst hs
  have ha' : j.occ[a]? = some 0 := ha
  have hb' : j.occ[b]? = some 1 := hb
  have hab : a ≠ b := by rintro rfl; rw [ha'] at hb'; cases hb'
  have hla := lt_of_get ha'
  have hlb := lt_of_get hb'
  have hj' := jupdate_inv hj a b ha' hb'
  have hv1 : hasVacancy T [a] = false :=
    hasVacancy_false T [a] (fun v e hm => (hv v e).1 (by simpa using hm))
  have hv2 : hasVacancy T [b] = false :=
    hasVacancy_false T [b] (fun v e hm => (hv v e).2 (by simpa using hm))
  have hb2 : (j.occ.set a 1)[b]? = some 1 := by simp [List.getElem?_set, hab, hb']
  unfold Refines
  rw [abs_eq hj', abs_eq hj]
  have ha3 : (List.map (fun x => x == 0) j.occ).getD a false = true := by
    simp [List.getD_eq_getElem?_getD, List.getElem?_map, ha']
  have hb3 : ((List.map (fun x => x == 1) j.occ).set a true).getD b false = true := by
    simp [List.getD_eq_getElem?_getD, List.getElem?_map, List.getElem?_set, hab, hb']
  simp only [update, hv1, hv2, Bool.false_eq_true, if_false, moveMany, moveOne, ha', if_true, ha3,
    Bool.true_eq_false, hb2, hb3]
  refine ⟨⟨hj', ?_⟩, trivial⟩
  simp [jupdate, List.map_set]


/-! ### batched Metropolis moves -/

/-- **`MCmoves` is the left fold of the single-move Metropolis rule** over the zipped choice arrays. -/
theorem MCmoves_eq_fold_aux (T : Table) (uc : List Nat) (kt : List Rat) (oc : List Nat) (i : Nat) (j : JState)
    (h1 : oc.length + i ≤ uc.length) (h2 : oc.length + i ≤ kt.length) :
    jMCmoves T uc kt i oc j =
      (oc.zip ((uc.drop i).zip (kt.drop i))).foldl (fun j x => mcStep T j x.1 x.2.1 x.2.2) j := by
  induction oc generalizing i j with
  | nil => simp [jMCmoves]
  | cons o os ih =>
    simp only [List.length_cons] at h1 h2
    have hi1 : i < uc.length := by omega
    have hi2 : i < kt.length := by omega
    rw [List.drop_eq_getElem_cons hi1, List.drop_eq_getElem_cons hi2]
    simp only [jMCmoves, List.zip_cons_cons, List.foldl_cons]
    rw [ih (i + 1) _ (by omega) (by omega)]
    simp [List.getD_eq_getElem?_getD, List.getElem?_eq_getElem hi1, List.getElem?_eq_getElem hi2]

theorem MCmoves_eq_fold (T : Table) (oc uc : List Nat) (kt : List Rat) (j : JState)
    (h1 : uc.length = oc.length) (h2 : kt.length = oc.length) :
    jMCmoves T uc kt 0 oc j =
      (oc.zip (uc.zip kt)).foldl (fun j x => mcStep T j x.1 x.2.1 x.2.2) j := by
  have := MCmoves_eq_fold_aux T uc kt oc 0 j (by omega) (by omega)
  simpa using this

/-- every row of `siteinteract` is ascending (true of the tables built by the evaluators, which append
    interaction numbers in increasing order; checked on every exported table) -/
def RowsSorted (T : Table) : Prop := ∀ r ∈ T.rows, r.Pairwise (· ≤ ·)

theorem RowsSorted.getD {T : Table} (h : RowsSorted T) (a : Nat) : (T.rows.getD a []).Pairwise (· ≤ ·) := by
  rw [List.getD_eq_getElem?_getD]
  cases hg : T.rows[a]? with
  | none => simp
  | some r => exact h r (List.mem_of_getElem? hg)

/-- the reference sampler driven by the Metropolis rule for one move `occupy a, unoccupy b` -/
def refStep (T : Table) (s : State) (a b : Nat) (kt : Rat) : State :=
  match deltaE T s [a] [b] with
  | .ok dE => if (dE : Rat) < kt then (update T s [a] [b]).1 else s
  | .error _ => s

/-- **One compiled Metropolis step refines the reference trial + update** for choice indices inside
    the two prefixes. -/
theorem mcStep_refines {T : Table} {j : JState} {s : State} (h : Refines T j s) (hs : Inv T s)
    (hsort : RowsSorted T) (hne : T.nenergy ≤ T.value.size) (oc uc : Nat) (kt : Rat)
    (hoc : oc < j.nunocc) (huc : uc < j.nocc) :
    Refines T (mcStep T j oc uc kt) (refStep T s (j.unoccset.getD oc 0) (j.occset.getD uc 0) kt) ∧
    Inv T (refStep T s (j.unoccset.getD oc 0) (j.occset.getD uc 0) kt) ∧
    (mcStep T j oc uc kt).nocc = j.nocc ∧ (mcStep T j oc uc kt).nunocc = j.nunocc := by
  obtain ⟨hj, hab⟩ := h
  obtain ⟨a, ha1, ha2, _⟩ := hj.unocc_fwd oc hoc
  obtain ⟨b, hb1, hb2, _⟩ := hj.occ_fwd uc huc
  have ea : j.unoccset.getD oc 0 = a := by simp [List.getD_eq_getElem?_getD, ha1]
  have eb : j.occset.getD uc 0 = b := by simp [List.getD_eq_getElem?_getD, hb1]
  rw [ea, eb]
  have hocc : s.occ = j.occ := by rw [← hab]; rfl
  have hv : ∀ v, T.vacancy = some v → v ≠ a ∧ v ≠ b := by
    intro v hv
    have := hs.vac v hv
    rw [hocc] at this
    constructor
    · rintro rfl; rw [ha2] at this; cases this
    · rintro rfl; rw [hb2] at this; cases this
  have hde := deltaE_eq T j a b hne ha2 hb2 hv (hsort.getD a) (hsort.getD b)
  rw [hab] at hde
  unfold mcStep refStep
  rw [ea, eb, hde]
  simp only
  by_cases hacc : ((jdeltaE T j a b : Int) : Rat) < kt
  · simp only [hacc, if_true]
    have := update_refines ⟨hj, hab⟩ a b (by rw [hocc]; exact ha2) (by rw [hocc]; exact hb2) hv
    exact ⟨this.1, (update_inv hs [a] [b]).1, rfl, rfl⟩
  · simp only [hacc, if_false]
    exact ⟨⟨hj, hab⟩, hs, by trivial, by trivial⟩

/-- the reference sampler driven move by move with the sites the compiled sampler picks -/
def refBatch (T : Table) : JState → State → List (Nat × Nat × Rat) → State
  | _, s, [] => s
  | j, s, (oc, uc, kt) :: rest =>
    refBatch T (mcStep T j oc uc kt) (refStep T s (j.unoccset.getD oc 0) (j.occset.getD uc 0) kt) rest

/-- **A whole batch refines the reference sampler driven move by move** (any length), as long as the
    choice indices lie inside the prefixes (`occchoices[i] < Nunocc`, `unoccchoices[i] < Nocc`). -/
theorem MCmoves_refines {T : Table} (hsort : RowsSorted T) (hne : T.nenergy ≤ T.value.size)
    (moves : List (Nat × Nat × Rat)) (j : JState) (s : State) (h : Refines T j s) (hs : Inv T s)
    (hr : ∀ x ∈ moves, x.1 < j.nunocc ∧ x.2.1 < j.nocc) :
    Refines T (moves.foldl (fun j x => mcStep T j x.1 x.2.1 x.2.2) j) (refBatch T j s moves) ∧
    Inv T (refBatch T j s moves) := by
  induction moves generalizing j s with
  | nil => exact ⟨h, hs⟩
  | cons x rest ih =>
    obtain ⟨oc, uc, kt⟩ := x
    have hx := hr (oc, uc, kt) (List.mem_cons_self)
    obtain ⟨r1, r2, r3, r4⟩ := mcStep_refines h hs hsort hne oc uc kt hx.1 hx.2
    simp only [List.foldl_cons, refBatch]
    apply ih _ _ r1 r2
    intro y hy
    rw [r3, r4]
    exact hr y (List.mem_cons_of_mem _ hy)


/-! ### transitions -/

/-- keep the finite barriers of the compiled `transitions()` -/
def finite (x : Nat × Nat × Nat × Option Int) : Option (Nat × Nat × Nat × Int) :=
  x.2.2.2.map fun q => (x.1, x.2.1, x.2.2.1, q)

theorem transFrom_eq (T : Table) (j : JState) (s : State) (hocc : s.occ = j.occ) (hcc : s.cc = j.cc)
    (hvalid : ∀ i o, j.occ[i]? = some o → o = 0 ∨ o = 1 ∨ T.vacancy = some i)
    (hvac : ∀ v, T.vacancy = some v → j.occ[v]? = some (-1))
    (js : List (Nat × Nat)) (n : Nat)
    (hr : ∀ x ∈ js, x.1 < j.occ.length ∧ x.2 < j.occ.length)
    (hjv : ∀ v, T.vacancy = some v → ∀ x ∈ js, x.1 = v) :
    jumpsFrom T s n js = (jtransFrom T j n js).filterMap finite := by
  induction js generalizing n with
  | nil => simp [jumpsFrom, jtransFrom]
  | cons x js ih =>
    obtain ⟨i, f⟩ := x
    have hx := hr (i, f) (List.mem_cons_self)
    have ih' := ih (n + 1) (fun y hy => hr y (List.mem_cons_of_mem _ hy))
      (fun v hv y hy => hjv v hv y (List.mem_cons_of_mem _ hy))
    have gi : j.occ[i]? = some j.occ[i] := List.getElem?_eq_getElem hx.1
    have gf : j.occ[f]? = some j.occ[f] := List.getElem?_eq_getElem hx.2
    have di : j.occ.getD i 9 = j.occ[i] := by simp [List.getD_eq_getElem?_getD, gi]
    have df : j.occ.getD f 9 = j.occ[f] := by simp [List.getD_eq_getElem?_getD, gf]
    simp only [jumpsFrom, jtransFrom, hocc, hcc, di, df, List.filterMap_cons]
    cases hv : T.vacancy with
    | none =>
      have vi := hvalid i _ gi
      have vf := hvalid f _ gf
      simp only [hv] at vi vf
      have vi' : j.occ[i] = 0 ∨ j.occ[i] = 1 := by rcases vi with h | h | h; exact Or.inl h; exact Or.inr h; cases h
      have vf' : j.occ[f] = 0 ∨ j.occ[f] = 1 := by rcases vf with h | h | h; exact Or.inl h; exact Or.inr h; cases h
      rcases vi' with e1 | e1 <;> rcases vf' with e2 | e2 <;>
        simp [e1, e2, finite, ih', hv]
    | some v =>
      have : i = v := hjv v hv (i, f) (List.mem_cons_self)
      subst this
      have := hvac i hv
      rw [gi] at this; injection this with this
      simp [this, finite, ih', hv]

/-- **The reference `transitions()` lists exactly the jumps whose compiled barrier is finite, with
    the same barriers** (forbidden ↦ `Inf`), for a represented state of a sampler with a jump network
    whose jumps are in range and, with a vacancy, all start at the vacancy. -/
theorem transitions_eq {T : Table} {j : JState} {s : State} (h : Refines T j s) (hs : Inv T s)
    (js : List (Nat × Nat)) (hjs : T.jumps = some js)
    (hr : ∀ x ∈ js, x.1 < T.rows.length ∧ x.2 < T.rows.length)
    (hjv : ∀ v, T.vacancy = some v → ∀ x ∈ js, x.1 = v) :
    transitions T s = .ok ((jtransitions T j).filterMap finite) := by
  have hocc : s.occ = j.occ := by rw [← h.2]; rfl
  have hcc : s.cc = j.cc := by rw [← h.2]; rfl
  unfold transitions jtransitions
  rw [hjs]
  simp only [Option.getD_some]
  congr 1
  apply transFrom_eq T j s hocc hcc
  · intro i o hi; exact hs.valid i o (by rw [hocc]; exact hi)
  · intro v hv; rw [← hocc]; exact hs.vac v hv
  · intro x hx; rw [h.1.len_occ]; exact hr x hx
  · exact hjv



/-! ### whole histories of the compiled sampler -/

/-- operations of the compiled sampler -/
inductive JOp
  | start (occ : List Int)
  | move (a b : Nat)                       -- update(occsite, unoccsite)
  | batch (moves : List (Nat × Nat × Rat))  -- MCmoves(occchoices, unoccchoices, kTlogu), zipped

def jstep (T : Table) (j : JState) : JOp → JState
  | .start occ => jstart T j occ
  | .move a b => jupdate T j a b
  | .batch ms => ms.foldl (fun j x => mcStep T j x.1 x.2.1 x.2.2) j

/-- the reference sampler driven alongside (for a batch: move by move with the Metropolis rule on the
    sites the compiled sampler picks) -/
def rstep (T : Table) (j : JState) (s : State) : JOp → State
  | .start occ => fresh T occ
  | .move a b => (update T s [a] [b]).1
  | .batch ms => refBatch T j s ms

/-- the documented preconditions of the compiled sampler's methods in state `j` -/
def okOp (T : Table) (j : JState) : JOp → Prop
  | .start occ => occ.length = T.rows.length ∧ start T occ = .ok (fresh T occ)
  | .move a b => j.occ[a]? = some 0 ∧ j.occ[b]? = some 1
  | .batch ms => ∀ x ∈ ms, x.1 < j.nunocc ∧ x.2.1 < j.nocc

def runPair (T : Table) : JState → State → List JOp → JState × State
  | j, s, [] => (j, s)
  | j, s, op :: ops => runPair T (jstep T j op) (rstep T j s op) ops

def allOk (T : Table) : JState → List JOp → Prop
  | _, [] => True
  | j, op :: ops => okOp T j op ∧ allOk T (jstep T j op) ops

theorem step_refines {T : Table} (hsort : RowsSorted T) (hne : T.nenergy ≤ T.value.size)
    {j : JState} {s : State} (h : Refines T j s) (hs : Inv T s) (op : JOp) (hop : okOp T j op) :
    Refines T (jstep T j op) (rstep T j s op) ∧ Inv T (rstep T j s op) := by
  have hocc : s.occ = j.occ := by rw [← h.2]; rfl
  have hcc : s.cc = j.cc := by rw [← h.2]; rfl
  cases op with
  | start occ =>
    obtain ⟨hl, hst⟩ := hop
    exact ⟨jstart_refines T j occ (fresh T occ) h.1.len_os h.1.len_us h.1.len_ix
      (by rw [← hcc]; exact hs.cc_size) hl hst, start_inv T occ _ hl hst⟩
  | move a b =>
    obtain ⟨ha, hb⟩ := hop
    have hv : ∀ v, T.vacancy = some v → v ≠ a ∧ v ≠ b := by
      intro v hv
      have := hs.vac v hv
      rw [hocc] at this
      constructor
      · rintro rfl; rw [ha] at this; cases this
      · rintro rfl; rw [hb] at this; cases this
    exact ⟨(update_refines h a b (by rw [hocc]; exact ha) (by rw [hocc]; exact hb) hv).1,
      (update_inv hs [a] [b]).1⟩
  | batch ms => exact MCmoves_refines hsort hne ms j s h hs hop

/-- **Any history of start / update / MCmoves batches on the compiled sampler, each call within its
    documented precondition, keeps it a faithful representation of the reference sampler driven
    through the same history** (induction over the history). -/
theorem history_refines {T : Table} (hsort : RowsSorted T) (hne : T.nenergy ≤ T.value.size)
    (ops : List JOp) (j : JState) (s : State) (h : Refines T j s) (hs : Inv T s) (hok : allOk T j ops) :
    Refines T (runPair T j s ops).1 (runPair T j s ops).2 ∧ Inv T (runPair T j s ops).2 := by
  induction ops generalizing j s with
  | nil => exact ⟨h, hs⟩
  | cons op ops ih =>
    obtain ⟨h1, h2⟩ := step_refines hsort hne h hs op hok.1
    exact ih _ _ h1 h2 hok.2

/-- … hence, at the end of any such history, the compiled sampler reports the reference energy, and
    for every admissible trial move the reference trial energy change. -/
theorem history_observables {T : Table} (hsort : RowsSorted T) (hne : T.nenergy ≤ T.value.size)
    (ops : List JOp) (j : JState) (s : State) (h : Refines T j s) (hs : Inv T s) (hok : allOk T j ops) :
    jE T (runPair T j s ops).1 = energy T (runPair T j s ops).2 ∧
    ∀ a b, (runPair T j s ops).1.occ[a]? = some 0 → (runPair T j s ops).1.occ[b]? = some 1 →
      deltaE T (runPair T j s ops).2 [a] [b] = .ok (jdeltaE T (runPair T j s ops).1 a b) := by
  obtain ⟨h1, h2⟩ := history_refines hsort hne ops j s h hs hok
  refine ⟨by rw [E_eq, h1.2], ?_⟩
  intro a b ha hb
  have hocc : (runPair T j s ops).2.occ = (runPair T j s ops).1.occ := by rw [← h1.2]; rfl
  have hv : ∀ v, T.vacancy = some v → v ≠ a ∧ v ≠ b := by
    intro v hv
    have := h2.vac v hv
    rw [hocc] at this
    constructor
    · rintro rfl; rw [ha] at this; cases this
    · rintro rfl; rw [hb] at this; cases this
  have := deltaE_eq T _ a b hne ha hb hv (hsort.getD a) (hsort.getD b)
  rw [h1.2] at this
  exact this


/-! ### non-vacuity: the hypotheses are satisfiable on a concrete non-trivial sampler -/

/-- 4 sites on a ring, pair interactions 0..3 (energy), two jump interactions 4,5; ascending rows -/
def exT2 : Table :=
  { rows := [[0, 3, 4], [0, 1, 4], [1, 2], [2, 3, 5]], value := #[2, -4, 6, 8, 1, 3], nenergy := 4,
    vacancy := none, jumps := some [(0, 1), (1, 2), (3, 2)], irange := #[5, 6, 6, 4] }
def exS2 : State := fresh exT2 [0, 1, 0, 1]

example : RowsSorted exT2 := by
  intro r hr
  simp only [exT2, List.mem_cons, List.not_mem_nil, or_false] at hr
  rcases hr with h | h | h | h <;> subst h <;> decide
example : Inv exT2 exS2 := start_inv exT2 [0, 1, 0, 1] exS2 rfl (by decide +kernel)
example : Refines exT2 (param exT2 (some exS2)) exS2 :=
  param_refines exT2 exS2 (start_inv exT2 [0, 1, 0, 1] exS2 rfl (by decide +kernel))
/-- a batch with one accepted and one rejected move actually changes the state -/
example : (jMCmoves exT2 [1, 0] [100, -100] 0 [0, 1] (param exT2 (some exS2))).occ = [1, 1, 0, 0] := by
  decide +kernel
/-- instance of `transitions_eq`: one forbidden jump (`Inf`), two listed ones -/
example : transitions exT2 exS2 = .ok [(1, 1, 2, 3), (2, 3, 2, 0)] ∧
    (jtransitions exT2 (param exT2 (some exS2))).map (·.2.2.2) = [none, some 3, some 0] := by decide +kernel

end Onsager.C35
