/-
  C15 — translator half of the tie.  Generated/C15Facts.lean is rewritten from onsager/OnsagerCalc.py on every
  run: the tag format constants, and the statement structure of `tags2preene` (phase-1 loop over four tag types,
  `thermodict.update(self.makeLIMBpreene(**thermodict))`, phase-2 loop over omega1/omega2, each loop being
  "first member tag found in the user dictionary, then break").  These obligations say the source has the shape
  that OnsagerModel/C15.lean mirrors.
-/
import Generated.C15Facts
import OnsagerModel.C15

namespace Onsager.C15

/-- the format strings are the ones `singleTag` / `fmtCoord` model: sign, width 6, 3 decimals, joined by ',' -/
theorem src_formats_are_model :
    Generated.C15.SINGLE_DEFECT_TAG_3D = "{type}:{u[0]:+06.3f},{u[1]:+06.3f},{u[2]:+06.3f}" ∧
    Generated.C15.SINGLE_DEFECT_TAG_2D = "{type}:{u[0]:+06.3f},{u[1]:+06.3f}" ∧
    Generated.C15.DOUBLE_DEFECT_TAG = "{state1}-{state2}" ∧
    Generated.C15.TRANSITION_TAG = "{state1}^{state2}" ∧
    Generated.C15.OM0_TAG = "omega0:{vac1}^{vac2}" ∧
    Generated.C15.OM1_TAG = "omega1:{solute}-{vac1}^{vac2}" ∧
    Generated.C15.OM2_TAG = "omega2:{complex1}^{complex2}" ∧
    Generated.C15.INTERSTITIAL_TAG = "i" ∧ Generated.C15.SOLUTE_TAG = "s" ∧ Generated.C15.VACANCY_TAG = "v" := by
  decide +kernel

/-- two fill phases around the LIMB back-fill, over exactly the modelled tag types and array names -/
theorem src_phases_are_model :
    Generated.C15.structureOk = true ∧
    Generated.C15.phase1 = [("vacancy", "preV", "eneV"), ("solute", "preS", "eneS"),
                            ("solute-vacancy", "preSV", "eneSV"), ("omega0", "preT0", "eneT0")] ∧
    Generated.C15.phase2 = [("omega1", "preT1", "eneT1"), ("omega2", "preT2", "eneT2")] := by
  decide +kernel

end Onsager.C15
