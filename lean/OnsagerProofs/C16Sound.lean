/-
  C16 — soundness of the executable table obligations: for ANY tables `T : Tab ℚ`,
  `Tab.check* T = true` (decidable, discharged for the generated tables in C16Tie.lean by
  `decide +kernel`) implies the semantic facts `T.Sem` used by the evaluation theorems.
  This is the theorem-level link between "the tables dumped from the source" and "polynomials".
-/
import OnsagerProofs.C16

namespace Onsager.C16

open Finset

theorem allLt_iff (n : Nat) (f : Nat → Bool) : allLt n f = true ↔ ∀ i, i < n → f i = true := by
  simp [allLt, List.all_eq_true, List.mem_range]

section generic
variable {K : Type} [CommRing K]

/-- `u^e` as a product over the coordinates -/
theorem monoOf_eq_prod : ∀ (u : List K) (e : List Nat),
    monoOf u e = ∏ i ∈ range u.length, (u.getD i 1) ^ (e.getD i 0) := by
  intro u
  induction u with
  | nil => intro e; simp
  | cons a u ih =>
    intro e
    cases e with
    | nil => simp
    | cons x e =>
      rw [monoOf_cons, ih, List.length_cons, Finset.prod_range_succ']
      simp [mul_comm]

theorem getD_unitVec (d j k i : Nat) (hi : i < d) : (unitVec d j k).getD i 0 = if i = j then k else 0 := by
  simp [unitVec, List.getD_eq_getElem?_getD, hi]

theorem monoOf_unitVec (u : List K) (j k : Nat) (hj : j < u.length) :
    monoOf u (unitVec u.length j k) = (u.getD j 1) ^ k := by
  rw [monoOf_eq_prod, Finset.prod_eq_single j]
  · rw [getD_unitVec _ _ _ _ hj]; simp
  · intro i hi hne
    rw [getD_unitVec _ _ _ _ (Finset.mem_range.mp hi)]; simp [hne]
  · intro h; exact absurd (Finset.mem_range.mpr hj) h

theorem monoOf_zeros (u : List K) (d : Nat) : monoOf u (List.replicate d 0) = 1 := by
  rw [monoOf_eq_prod]
  apply Finset.prod_eq_one
  intro i _
  by_cases h : i < d <;> simp [List.getD_eq_getElem?_getD, h]

theorem list_sum_eq (x : List K) : x.sum = ∑ i ∈ range x.length, x.getD i 0 := by
  induction x with
  | nil => simp
  | cons a x ih => rw [List.sum_cons, List.length_cons, Finset.sum_range_succ', ih]; simp [add_comm]

theorem sum_sq_eq (u : List K) : (u.map (· ^ 2)).sum = ∑ j ∈ range u.length, (u.getD j 1) ^ 2 := by
  induction u with
  | nil => simp
  | cons a u ih => rw [List.map_cons, List.sum_cons, List.length_cons, Finset.sum_range_succ', ih]; simp [add_comm]

theorem list_sum_getD_one (x : List K) : x.sum = ∑ i ∈ range x.length, x.getD i 1 := by
  rw [list_sum_eq]
  apply Finset.sum_congr rfl
  intro i hi
  have := Finset.mem_range.mp hi
  simp [List.getD_eq_getElem?_getD, this]

end generic

/-! ### unpacking the Boolean checks -/
section unpack
variable (T : Tab ℚ)

theorem phi_mono_of (hinc : ∀ l, l < T.lmax → T.phi l < T.phi (l + 1)) :
    ∀ l l', l ≤ l' → l' ≤ T.lmax → T.phi l ≤ T.phi l' := by
  intro l l' h
  induction h with
  | refl => intro _; exact le_refl _
  | @step m h ih =>
    intro hl
    have h1 := ih (by omega)
    have h2 := hinc m (by omega)
    show T.phi l ≤ T.phi (m + 1)
    omega

structure Basic : Prop where
  expo_len : ∀ p, p < T.npow → (T.expo p).length = T.dim
  phi_zero : T.phi 0 = 1
  phi_top : T.phi T.lmax = T.npow
  phi_mono : ∀ l l', l ≤ l' → l' ≤ T.lmax → T.phi l ≤ T.phi l'
  graded : ∀ p l, p < T.npow → l ≤ T.lmax → (p < T.phi l ↔ T.deg p ≤ l)

theorem basic_of_checks (h1 : T.checkSizes = true) (h2 : T.checkGraded = true) : Basic T := by
  simp only [Tab.checkSizes, Bool.and_eq_true, beq_iff_eq, allLt_iff, decide_eq_true_eq] at h1
  obtain ⟨⟨⟨⟨_, hlen⟩, h0⟩, htop⟩, hinc⟩ := h1
  simp only [Tab.checkGraded, allLt_iff, beq_iff_eq, decide_eq_decide] at h2
  exact ⟨hlen, h0, htop, phi_mono_of T hinc, fun p l hp hl => h2 p hp l (by omega)⟩

theorem Basic.lt_npow {T : Tab ℚ} (hB : Basic T) {p l : Nat} (hl : l ≤ T.lmax) (hp : p < T.phi l) : p < T.npow := by
  have := hB.phi_mono l T.lmax hl (le_refl _)
  rw [hB.phi_top] at this
  omega

theorem sum_zipWith_add : ∀ (e f : List Nat), e.length = f.length →
    (List.zipWith (· + ·) e f).sum = e.sum + f.sum := by
  intro e
  induction e with
  | nil => intro f h; cases f <;> simp_all
  | cons a e ih =>
    intro f h
    cases f with
    | nil => simp at h
    | cons b f =>
      simp only [List.zipWith_cons_cons, List.sum_cons]
      rw [ih f (by simpa using h)]; omega

/-- `directmult` obligation ⇒ `DmOk` -/
theorem dmOk_of_checks (hB : Basic T) (h4 : T.checkDmult = true) : T.DmOk := by
  simp only [Tab.checkDmult, allLt_iff] at h4
  intro la lb pa pb hg hpa hpb
  have hla : la ≤ T.lmax := by omega
  have hlb : lb ≤ T.lmax := by omega
  have hpa' := hB.lt_npow hla hpa
  have hpb' := hB.lt_npow hlb hpb
  have hda := (hB.graded pa la hpa' hla).mp hpa
  have hdb := (hB.graded pb lb hpb' hlb).mp hpb
  have h := h4 pa hpa' pb hpb'
  rw [if_pos (by omega)] at h
  simp only [Bool.and_eq_true, decide_eq_true_eq, beq_iff_eq] at h
  obtain ⟨⟨⟨h0, hlt⟩, hexpo⟩, _⟩ := h
  refine ⟨(T.dm pa pb).toNat, by omega, ?_, ?_⟩
  · have hdeg : T.deg (T.dm pa pb).toNat = T.deg pa + T.deg pb := by
      unfold Tab.deg
      rw [hexpo, sum_zipWith_add _ _ (by rw [hB.expo_len pa hpa', hB.expo_len pb hpb'])]
    exact (hB.graded _ (la + lb) hlt hg).mpr (by omega)
  · intro u
    unfold Tab.mono
    rw [hexpo, monoOf_add _ _ _ (by rw [hB.expo_len pa hpa', hB.expo_len pb hpb'])]

end unpack

/-! ### polynomial facts from the obligations (coefficient algebra `M = K = ℚ`) -/
section poly
variable (T : Tab ℚ)

theorem dotFrom_rat_range (u : List ℚ) (f : Nat → ℚ) (r : Nat) :
    dotFrom T u 0 ((List.range r).map f) = ∑ i ∈ range r, T.mono u i * f i := by
  rw [dotFrom_map_range]; simp [smul_eq_mul]

theorem dotFrom_unitCol (u : List ℚ) (r p : Nat) (hp : p < r) :
    dotFrom T u 0 (unitCol r p) = T.mono u p := by
  unfold unitCol
  rw [dotFrom_rat_range]
  simp [Finset.sum_ite_eq', hp]

/-- the block `r2` evaluates to `Σ u_j²` -/
theorem dotFrom_r2 (h7 : T.checkR2 = true) (u : List ℚ) (hu : u.length = T.dim) :
    T.r2.length = T.phi 2 ∧ dotFrom T u 0 T.r2 = (u.map (· ^ 2)).sum := by
  simp only [Tab.checkR2, Bool.and_eq_true, decide_eq_true_eq, allLt_iff, beq_iff_eq] at h7
  obtain ⟨_, h7⟩ := h7
  have key : ∀ n, n ≤ T.dim →
      ((List.range n).foldl (fun acc j => addAt acc (T.p2i (unitVec T.dim j 2)).toNat 1)
          (List.replicate (T.phi 2) (0 : ℚ))).length = T.phi 2 ∧
      dotFrom T u 0 ((List.range n).foldl (fun acc j => addAt acc (T.p2i (unitVec T.dim j 2)).toNat 1)
          (List.replicate (T.phi 2) (0 : ℚ))) = ∑ j ∈ range n, (u.getD j 1) ^ 2 := by
    intro n
    induction n with
    | zero => intro _; simp [dotFrom_zeros]
    | succ n ih =>
      intro hn
      obtain ⟨hl, hd⟩ := ih (by omega)
      obtain ⟨⟨_, hlt⟩, hexpo⟩ := h7 n (by omega)
      rw [List.range_succ, List.foldl_append]
      simp only [List.foldl_cons, List.foldl_nil]
      refine ⟨by rw [length_addAt, hl], ?_⟩
      rw [dotFrom_addAt _ _ _ _ _ _ (by rw [hl]; exact hlt), hd, Finset.sum_range_succ, Nat.zero_add]
      congr 1
      unfold Tab.mono
      rw [hexpo, ← hu, monoOf_unitVec u n 2 (by omega)]
      simp [smul_eq_mul]
  have := key T.dim (le_refl _)
  unfold Tab.r2
  refine ⟨this.1, ?_⟩
  rw [this.2, sum_sq_eq, hu]

/-- a sphere certificate ⇒ the vector `v` evaluates like the monomial `x^p` on the unit sphere -/
theorem sphereCert_sound (hB : Basic T) (hdm : T.DmOk) (h7 : T.checkR2 = true)
    (l p : Nat) (v q : List ℚ) (hl : l ≤ T.lmax) (hp : p < T.phi l)
    (h : T.sphereCert l p v q = true) (u : List ℚ) (hu : OnSphere T u) :
    dotFrom T u 0 v = T.mono u p := by
  simp only [Tab.sphereCert, Bool.and_eq_true, decide_eq_true_eq, beq_iff_eq] at h
  obtain ⟨hq, heq⟩ := h
  have hd := congrArg (dotFrom T u 0) heq
  rw [dotFrom_addPad, dotFrom_addPad, dotFrom_unitCol T u _ _ hp] at hd
  by_cases h2 : 2 ≤ l
  · rw [if_pos h2] at hd hq
    obtain ⟨hr2l, hr2⟩ := dotFrom_r2 T h7 u hu.1
    have hsplit : l - 2 + 2 = l := by omega
    have hs := scatterMul_spec (M := ℚ) T hdm u (l - 2) 2 q T.r2 (by omega) (le_of_eq hq) (le_of_eq hr2l)
    rw [hsplit] at hs
    rw [hs.2, hr2, hu.2, mul_one] at hd
    linarith
  · rw [if_neg h2] at hd hq
    have : q = [] := List.eq_nil_of_length_eq_zero hq
    subst this
    simpa using hd

theorem proj_ok_of_checks (hB : Basic T) (hdm : T.DmOk) (h7 : T.checkR2 = true)
    (cert : Nat → Nat → List ℚ) (h8 : T.checkProjAll cert = true) :
    ∀ l p u, l ≤ T.lmax → p < T.phi l → OnSphere T u →
      ∑ p' ∈ range (T.phi l), T.mono u p' * T.proj (T.lmax + 1) p' p = T.mono u p := by
  simp only [Tab.checkProjAll, allLt_iff] at h8
  intro l p u hl hp hu
  have h := sphereCert_sound T hB hdm h7 l p _ _ hl hp (h8 l (by omega) p hp) u hu
  unfold colOf at h
  rwa [dotFrom_rat_range] at h

theorem sep_ok_of_checks (hB : Basic T) (hdm : T.DmOk) (h7 : T.checkR2 = true)
    (cert : Nat → Nat → List ℚ) (h9 : T.checkProjSep cert = true) :
    ∀ l p u, l ≤ T.lmax → p < T.phi l → OnSphere T u →
      ∑ l0 ∈ range (l + 1), ∑ p' ∈ range (T.phi l0), T.mono u p' * T.proj l0 p' p = T.mono u p := by
  simp only [Tab.checkProjSep, allLt_iff] at h9
  intro l p u hl hp hu
  have h := sphereCert_sound T hB hdm h7 l p _ _ hl hp (h9 l (by omega) p hp) u hu
  unfold Tab.sepCol at h
  rw [dotFrom_rat_range] at h
  rw [← h]
  simp only [lsum_range, Finset.mul_sum]
  rw [Finset.sum_comm]
  apply Finset.sum_congr rfl
  intro l0 hl0
  have hl0' : l0 ≤ l := by have := Finset.mem_range.mp hl0; omega
  have hmono := hB.phi_mono l0 l hl0' hl
  simp only [mul_ite, mul_zero]
  rw [← Finset.sum_filter]
  apply Finset.sum_congr
  · ext x
    simp only [Finset.mem_filter, Finset.mem_range]
    omega
  · intro _ _; rfl

/-- the multinomial obligation: row `n` of `powercoeff` is `(x+y+z)^n` -/
theorem pc_ok_of_checks (hdm : T.DmOk) (h6 : T.checkPcoefPowers = true) :
    (∀ u : List ℚ, T.mono u 0 = 1) ∧
    ∀ n (x : List ℚ), n ≤ T.lmax → x.length = T.dim →
      ∑ p ∈ range (T.phi n), T.pc n p * T.mono x p = x.sum ^ n := by
  simp only [Tab.checkPcoefPowers, Bool.and_eq_true, decide_eq_true_eq, beq_iff_eq, allLt_iff] at h6
  obtain ⟨⟨⟨⟨⟨⟨h1, hrow0⟩, hrow1⟩, hphi1⟩, hexpo0⟩, hexpo1⟩, hstep⟩ := h6
  have hmono0 : ∀ u : List ℚ, T.mono u 0 = 1 := by
    intro u; unfold Tab.mono; rw [hexpo0, monoOf_zeros]
  refine ⟨hmono0, ?_⟩
  intro n x hn hx
  have key : ∀ n, n ≤ T.lmax → dotFrom T x 0 ((List.range (T.phi n)).map (T.pc n)) = x.sum ^ n := by
    intro n
    induction n with
    | zero =>
      intro _
      rw [hrow0]; simp [hmono0, smul_eq_mul]
    | succ n ih =>
      intro hn1
      rw [hstep n (by omega)]
      have hs := scatterMul_spec (M := ℚ) T hdm x n 1 ((List.range (T.phi n)).map (T.pc n))
        ((List.range (T.phi 1)).map (T.pc 1)) hn1 (by simp) (by simp)
      rw [hs.2, ih (by omega), pow_succ]
      congr 1
      -- the linear form
      rw [hrow1, dotFrom_cons]
      simp only [smul_eq_mul, mul_zero, zero_add, Nat.zero_add]
      have hlin : ∀ (d : Nat), d ≤ T.dim →
          dotFrom T x (T.dim - d + 1) (List.replicate d (1 : ℚ)) = ∑ j ∈ range d, x.getD j 1 := by
        intro d
        induction d with
        | zero => intro _; simp
        | succ d ihd =>
          intro hd
          rw [List.replicate_succ, dotFrom_cons, Finset.sum_range_succ]
          have e1 : T.dim - (d + 1) + 1 + 1 = T.dim - d + 1 := by omega
          rw [e1, ihd (by omega), add_comm]
          congr 1
          unfold Tab.mono
          have e2 : T.dim - (d + 1) + 1 = (T.dim - (d + 1)) + 1 := rfl
          rw [hexpo1 (T.dim - (d + 1)) (by omega)]
          have e3 : T.dim - 1 - (T.dim - (d + 1)) = d := by omega
          rw [e3, ← hx, monoOf_unitVec x d 1 (by omega)]
          simp [smul_eq_mul]
      have := hlin T.dim (le_refl _)
      simp only [Nat.sub_self, Nat.zero_add] at this
      rw [this, list_sum_getD_one, hx]
  have := key n hn
  rw [dotFrom_rat_range] at this
  rw [← this]
  apply Finset.sum_congr rfl
  intro p _; ring

/-- **soundness of the table obligations** -/
theorem sem_of_checks (cert : Nat → Nat → List ℚ)
    (h1 : T.checkSizes = true) (h2 : T.checkGraded = true) (h4 : T.checkDmult = true)
    (h6 : T.checkPcoefPowers = true) (h7 : T.checkR2 = true)
    (h8 : T.checkProjAll cert = true) (h9 : T.checkProjSep cert = true) : T.Sem := by
  have hB := basic_of_checks T h1 h2
  have hdm := dmOk_of_checks T hB h4
  have hpc := pc_ok_of_checks T hdm h6
  exact {
    phi_mono := hB.phi_mono
    dm_ok := hdm
    proj_ok := proj_ok_of_checks T hB hdm h7 cert h8
    sep_ok := sep_ok_of_checks T hB hdm h7 cert h9
    pc_ok := hpc.2
    mono_zero := hpc.1
    phi_zero := hB.phi_zero }

end poly

end Onsager.C16
