/-
  Theorems about the generic finite reversible chain model (OnsagerModel/Chain.lean).
  For EVERY finite chain (any number of states, any rational weights and displacement fields)
  for which the model returns a value:

  * `coeff_diag_eq_Qmin`   L^{aa}_{αα} is the minimum of the variational functional (Green–Kubo
                           value) of the chain for displacement kind `a`, direction α
  * `coeff_diag_nonneg`    hence ≥ 0 (Lss, Lvv positive semidefinite on the axes; general
                           directions by the same lemma applied to projected displacements)
  * `formOf_symm`          L^{ab}_{αβ} = L^{ba}_{βα}  (Onsager reciprocity incl. Lsv = Lvsᵀ)
  * `formOf_indep`         the value does not depend on which solution of the singular rate
                           equation is used (gauge / pseudo-inverse irrelevance) for either field
  * `dyson_identity`       the algebraic step of the Dyson update used by `Lij`:
                           (W₀+δW)·((1+G₀δW)⁻¹G₀) = 1 whenever W₀G₀ = 1 and 1+G₀δW is invertible
-/
import OnsagerModel.Chain
import OnsagerProofs.C02
import OnsagerProofs.C03
import Mathlib.LinearAlgebra.Matrix.NonsingularInverse

namespace Onsager.Chain
open Onsager.C02 Onsager.Var

theorem formOf_eq {n : Nat} (l : List (Jump (Fin n) ℚ)) (c : Fin n → ℚ) (D : ℚ) (h : formOfC l c = some D) :
    ∃ ξ, certify n l c = some ξ ∧
      D = (l.map fun a => a.r * a.d * a.e).sum / 2 - ∑ i, ξ i * B (l.map Jump.swap) i := by
  unfold formOfC at h
  cases hs : certify n l c with
  | none => simp [hs] at h
  | some ξ => simp [hs] at h; exact ⟨ξ, rfl, h.symm⟩

/-- diagonal case: the value is the variational minimum -/
theorem formOf_diag_eq_Qmin {n : Nat} (l : List (Jump (Fin n) ℚ)) (hde : ∀ a ∈ l, a.e = a.d) (c : Fin n → ℚ) (D : ℚ)
    (h : formOfC l c = some D) :
    ∃ ξ, Stationary l ξ ∧ D = Q l ξ ∧ ∀ η, Q l ξ ≤ Q l η := by
  obtain ⟨ξ, hs, hD⟩ := formOf_eq l c D h
  obtain ⟨hp, hr, hst⟩ := certify_sound l c ξ hs
  refine ⟨ξ, hst, ?_, fun η => Q_min l hp hr ξ η hst⟩
  rw [Q_stationary_eq l hp ξ hst, hD, B_swap_diag l hde]
  congr 1
  unfold D0
  congr 1
  apply congrArg
  apply List.map_congr_left
  intro a ha
  rw [hde a ha]; ring

theorem network_diag (inp : Input) (a α : Nat) (l : List (Jump (Fin inp.n) ℚ))
    (h : network inp a a α α = some l) : ∀ j ∈ l, j.e = j.d := by
  intro j hj
  unfold network at h
  obtain ⟨t, _, ht⟩ := mapM_mem _ _ _ h j hj
  simp only [mk] at ht
  split at ht
  · split at ht
    · cases ht; rfl
    · cases ht
  · cases ht

theorem coeff_eq (inp : Input) (cert : Option (List (List ℚ))) (a b α β : Nat) (D : ℚ)
    (h : coeff inp cert a b α β = some D) :
    ∃ (l : List (Jump (Fin inp.n) ℚ)) (c : Fin inp.n → ℚ),
      network inp a b α β = some l ∧ formOfC l c = some D := by
  unfold coeff at h
  cases hl : network inp a b α β with
  | none => simp [hl] at h
  | some l =>
    simp only [hl] at h
    cases cert with
    | none => exact ⟨l, _, rfl, h⟩
    | some c => exact ⟨l, _, rfl, h⟩

/-- **Exactness at finite size.** Every diagonal coefficient of the chain returned by the model
    (with or without an external certificate) is the Green–Kubo / variational value of that chain. -/
theorem coeff_diag_eq_Qmin (inp : Input) (cert : Option (List (List ℚ))) (a α : Nat) (D : ℚ)
    (h : coeff inp cert a a α α = some D) :
    ∃ (l : List (Jump (Fin inp.n) ℚ)) (ξ : Fin inp.n → ℚ),
      network inp a a α α = some l ∧ Stationary l ξ ∧ D = Q l ξ ∧ ∀ η, Q l ξ ≤ Q l η := by
  obtain ⟨l, c, hl, hf⟩ := coeff_eq inp cert a a α α D h
  obtain ⟨ξ, h1, h2, h3⟩ := formOf_diag_eq_Qmin l (network_diag inp a α l hl) c D hf
  exact ⟨l, ξ, hl, h1, h2, h3⟩

theorem coeff_diag_nonneg (inp : Input) (cert : Option (List (List ℚ))) (a α : Nat) (D : ℚ)
    (h : coeff inp cert a a α α = some D) : 0 ≤ D := by
  obtain ⟨l, c, hl, hf⟩ := coeff_eq inp cert a a α α D h
  obtain ⟨ξ, hs, _⟩ := formOf_eq l c D hf
  obtain ⟨_, hr, _⟩ := certify_sound l c ξ hs
  obtain ⟨ξ', _, h2, _⟩ := formOf_diag_eq_Qmin l (network_diag inp a α l hl) c D hf
  rw [h2]
  exact Q_nonneg l hr ξ'

/-- reciprocity: exchanging the two displacement fields gives the same value -/
theorem formOf_symm {n : Nat} (l : List (Jump (Fin n) ℚ)) (c c' : Fin n → ℚ) (D D' : ℚ)
    (h : formOfC l c = some D) (h' : formOfC (l.map Jump.swap) c' = some D') : D = D' := by
  obtain ⟨ξ, hs, hD⟩ := formOf_eq l c D h
  obtain ⟨ζ, hs', hD'⟩ := formOf_eq _ c' D' h'
  obtain ⟨hp, _, hst⟩ := certify_sound l c ξ hs
  obtain ⟨_, _, hst'⟩ := certify_sound _ c' ζ hs'
  have key := D_symm l hp ξ ζ hst hst'
  rw [hD, hD', C03.swap_swap, ← key]
  congr 2
  rw [List.map_map]
  congr 1
  apply List.map_congr_left
  intro a _
  simp only [Function.comp, Jump.swap]
  ring

/-- the off-diagonal (e.g. solute–vacancy) value is independent of the solution used -/
theorem formOf_indep {n : Nat} (l : List (Jump (Fin n) ℚ)) (hp : (l.map Jump.rev).Perm l)
    (ξ ξ' ζ : Fin n → ℚ) (hs : Stationary l ξ) (hs' : Stationary l ξ')
    (hz : Stationary (l.map Jump.swap) ζ) :
    ∑ i, ξ i * B (l.map Jump.swap) i = ∑ i, ξ' i * B (l.map Jump.swap) i := by
  rw [← D_symm l hp ξ ζ hs hz, ← D_symm l hp ξ' ζ hs' hz]

/-- **Dyson step** of `VacancyMediated.Lij` (`G = (1 + G₀ δω)⁻¹ G₀`), any size, any field. -/
theorem dyson_identity {m : Type} [Fintype m] [DecidableEq m] {K : Type} [Field K]
    (W0 dW G0 : Matrix m m K) (h0 : W0 * G0 = 1) (hinv : IsUnit (1 + G0 * dW).det) :
    (W0 + dW) * ((1 + G0 * dW)⁻¹ * G0) = 1 := by
  have hG0 : G0 * W0 = 1 := mul_eq_one_comm.mp h0
  have e : W0 + dW = W0 * (1 + G0 * dW) := by
    rw [mul_add, mul_one, ← mul_assoc, h0, one_mul]
  rw [e, mul_assoc, ← mul_assoc (1 + G0 * dW), Matrix.mul_nonsing_inv _ hinv, one_mul, h0]

end Onsager.Chain
