/-
  C16 — translator half of the tie (part 3d).  Generated/C16Facts.lean is rewritten on every run from the LIVE
  classes Taylor3D / Taylor2D of onsager/PowerExpansion.py; each theorem below is one table obligation,
  checked exhaustively for the dumped tables (Lmax = 4) by kernel evaluation.  A source change that alters
  a table breaks the corresponding obligation.
-/
import Generated.C16Facts

namespace Onsager.C16
open Generated.C16
set_option maxRecDepth 1000000

/-- the pieces kept by `separate` sum to the identity modulo `x²+y²+z² = 1` -/
theorem tab3_proj_sep : tab3.checkProjSep cert3 = true := by decide +kernel

end Onsager.C16
