/-
  C32 — theorems about the cluster-expansion evaluators (OnsagerModel/C32.lean).

  * `interact_energy_eq_bruteforce`  the interaction table built by `clusterevaluator`'s loop
        (merging of repeated tuples through `interdict`, spectator-only constants, vacancy skip,
        tuples with a repeated index when a cluster wraps onto itself), read out the way
        `MonteCarloSampler.start` / `E` do, equals the brute-force sum over the placed clusters —
        for EVERY list of placed clusters, spectator occupation and valid mobile occupation.
  * `clustercount_eq_zero_iff`       the sampler counts an interaction iff none of its sites is
        unoccupied (any table; shared with C34).
  * `repeated_index_ok`              a placed cluster that wraps onto the same site behaves like
        the cluster with that site listed once.
  * `matrices_rows_count_eq`         the index-matrix rows of one cluster count what `evalcluster` counts.
  * `dot_counts_eq_bruteSum`         `values · evalcluster` is the brute-force sum of the terms.
  * `incell_periodic`                periodic site indexing: translation by a supercell vector
        does not change `incell` (hence `index`).
-/
import OnsagerModel.C32
import Mathlib.Tactic.Ring
import Mathlib.Tactic.Linarith
import Mathlib.Tactic.LinearCombination
import Mathlib.Algebra.Order.Field.Rat

namespace Onsager.C32

/-- What `MonteCarloSampler.start` accepts: the vacancy site holds -1, every other site 0 or 1. -/
def OccValid (vac : Option Nat) (nsites : Nat) (occ : List Int) : Prop :=
  occ.length = nsites ∧
  ∀ n, n < nsites → if vac = some n then occ.getD n 0 = -1 else (occ.getD n 0 = 0 ∨ occ.getD n 0 = 1)

theorem occOK_iff (vac : Option Nat) (nsites : Nat) (occ : List Int) :
    occOK vac nsites occ = true ↔ OccValid vac nsites occ := by
  unfold occOK OccValid
  simp only [Bool.and_eq_true, beq_iff_eq, List.all_eq_true, List.mem_range]
  refine and_congr Iff.rfl (forall_congr' fun n => imp_congr Iff.rfl ?_)
  by_cases h : vac = some n <;> simp [h]

theorem clustercount_eq_zero_iff (si : List (List Nat)) (occ : List Int) (m : Nat) :
    clustercount si occ m = 0 ↔
      ∀ n, n < si.length → occ.getD n 0 = 0 → (si.getD n []).count m = 0 := by
  unfold clustercount
  rw [List.sum_eq_zero_iff_forall_eq_nat]
  simp only [List.mem_map, List.mem_range]
  constructor
  · intro h n hn ho
    have := h _ ⟨n, hn, rfl⟩
    rwa [if_pos ho] at this
  · rintro h x ⟨n, hn, rfl⟩
    by_cases ho : occ.getD n 0 = 0
    · simp only [ho, if_true]; exact h n hn ho
    · simp only [ho, if_false]

theorem matrices_rows_count_eq (socc occ : List Int) (pl : List Placed) :
    (((pl.filter fun p => p.spec.all fun n => socc.getD n 0 == 1).map (·.mob)).countP (mobOn occ))
      = pl.countP (placedOn socc occ) := by
  rw [List.countP_map, List.countP_filter]
  apply List.countP_congr
  intro p _
  simp [placedOn, Bool.and_comm]

/-! ### list helpers -/

theorem getD_modify_lt {α} (l : List α) (i j : Nat) (f : α → α) (d : α) (hj : j < l.length) :
    (l.modify i f).getD j d = if i = j then f (l.getD j d) else l.getD j d := by
  simp only [List.getD_eq_getElem?_getD, List.getElem?_modify, List.getElem?_eq_getElem hj]
  split <;> simp

theorem getD_append_lt {α} (l r : List α) (j : Nat) (d : α) (hj : j < l.length) :
    (l ++ r).getD j d = l.getD j d := by
  simp only [List.getD_eq_getElem?_getD, List.getElem?_append_left hj]

theorem getD_append_len {α} (l : List α) (a : α) (d : α) :
    (l ++ [a]).getD l.length d = a := by
  simp [List.getD_eq_getElem?_getD]

theorem getD_ge {α} (l : List α) (j : Nat) (d : α) (hj : l.length ≤ j) : l.getD j d = d := by
  simp [List.getD_eq_getElem?_getD, List.getElem?_eq_none hj]

/-- `lookup` in an enumerated list returns a position holding the key -/
theorem lookup_zipIdx (K : List Tuple) (tup : Tuple) (k m : Nat)
    (h : (K.zipIdx k).lookup tup = some m) : k ≤ m ∧ m - k < K.length ∧ K.getD (m - k) [] = tup := by
  induction K generalizing k with
  | nil => simp at h
  | cons a K ih =>
    rw [List.zipIdx_cons, List.lookup_cons] at h
    by_cases e : tup == a
    · simp only [e] at h
      have e' : tup = a := by simpa using e
      have : k = m := by simpa using h
      subst this
      simp [e']
    · simp only [e] at h
      obtain ⟨h1, h2, h3⟩ := ih (k + 1) h
      refine ⟨by omega, by simp; omega, ?_⟩
      have : m - k = (m - (k + 1)) + 1 := by omega
      rw [this, List.getD_cons_succ]; exact h3

/-- `appendSites` keeps the number of sites -/
theorem length_appendSites (si : List (List Nat)) (t : Tuple) (k : Nat) :
    (appendSites si t k).length = si.length := by
  unfold appendSites
  induction t generalizing si with
  | nil => rfl
  | cons a t ih => rw [List.foldl_cons, ih, List.length_modify]

/-- `appendSites` lists `k` at site `n` once per occurrence of `n` in the tuple -/
theorem count_appendSites (si : List (List Nat)) (t : Tuple) (k n m : Nat) (hn : n < si.length) :
    ((appendSites si t k).getD n []).count m
      = (si.getD n []).count m + if m = k then t.count n else 0 := by
  unfold appendSites
  induction t generalizing si with
  | nil => simp
  | cons a t ih =>
    rw [List.foldl_cons, ih _ (by rw [List.length_modify]; exact hn), getD_modify_lt _ _ _ _ _ hn,
      List.count_cons]
    have hc : (List.count m [k]) = if m = k then 1 else 0 := by
      rw [List.count_singleton]; by_cases hm : m = k
      · simp [hm]
      · have : ¬ k = m := fun h => hm h.symm
        simp [hm, this]
    by_cases ha : a = n
    · subst ha
      simp only [if_true, List.count_append, hc, beq_self_eq_true]
      by_cases hm : m = k <;> simp [hm]; omega
    · have : ¬ (a == n) = true := by simpa using ha
      simp only [if_neg ha, if_neg this]
      by_cases hm : m = k <;> simp [hm]


/-! ### sums over `List.range` -/

theorem sum_range_congr (N : Nat) (f g : Nat → Rat) (h : ∀ m, m < N → f m = g m) :
    ((List.range N).map f).sum = ((List.range N).map g).sum := by
  congr 1
  exact List.map_congr_left fun m hm => h m (List.mem_range.1 hm)

theorem sum_range_succ (N : Nat) (f : Nat → Rat) :
    ((List.range (N + 1)).map f).sum = ((List.range N).map f).sum + f N := by
  rw [List.range_succ, List.map_append, List.sum_append]
  simp

theorem sum_range_indicator (N m : Nat) (g : Nat → Rat) (c : Rat) :
    ((List.range N).map fun j => g j + if m = j then c else 0).sum
      = ((List.range N).map g).sum + if m < N then c else 0 := by
  induction N with
  | zero => simp
  | succ N ih =>
    rw [sum_range_succ, sum_range_succ, ih]
    by_cases h1 : m < N
    · have h2 : m ≠ N := by omega
      have h3 : m < N + 1 := by omega
      simp only [if_pos h1, if_neg h2, if_pos h3]; ring
    · by_cases h2 : m = N
      · have h3 : m < N + 1 := by omega
        simp only [if_neg h1, if_pos h2, if_pos h3]; ring
      · have h3 : ¬ m < N + 1 := by omega
        simp only [if_neg h1, if_neg h2, if_neg h3]; ring

/-! ### the abstract interaction list -/

/-- energy of the abstract interaction list: keys `K` (sorted tuples in creation order) with
    merged values `V` -/
def absE (occ : List Int) (K : List Tuple) (V : List Rat) : Rat :=
  ((List.range K.length).map fun m => if mobOn occ (K.getD m []) then V.getD m 0 else 0).sum

theorem absE_append (occ : List Int) (K : List Tuple) (V : List Rat) (t : Tuple) (v : Rat)
    (hl : V.length = K.length) :
    absE occ (K ++ [t]) (V ++ [v]) = absE occ K V + if mobOn occ t then v else 0 := by
  unfold absE
  rw [List.length_append, List.length_singleton, sum_range_succ, getD_append_len,
    ← hl, getD_append_len, hl]
  congr 1
  apply sum_range_congr
  intro m hm
  rw [getD_append_lt _ _ _ _ hm, getD_append_lt _ _ _ _ (hl ▸ hm)]

theorem absE_modify (occ : List Int) (K : List Tuple) (V : List Rat) (m : Nat) (v : Rat)
    (hl : V.length = K.length) (hm : m < K.length) :
    absE occ K (V.modify m (· + v)) = absE occ K V + if mobOn occ (K.getD m []) then v else 0 := by
  unfold absE
  have := sum_range_indicator K.length m
    (fun j => if mobOn occ (K.getD j []) then V.getD j 0 else 0)
    (if mobOn occ (K.getD m []) then v else 0)
  rw [if_pos hm] at this
  rw [← this]
  apply sum_range_congr
  intro j hj
  rw [getD_modify_lt _ _ _ _ _ (hl ▸ hj)]
  by_cases e : m = j
  · subst e; simp only [if_true]; split <;> simp
  · simp only [if_neg e]; simp

/-- simulation relation between the loop state and the abstract key list -/
structure Rel (vac : Option Nat) (nsites : Nat) (T : Tbl) (K : List Tuple) : Prop where
  dict : T.interdict = K.zipIdx
  ilen : T.interact.length = K.length
  nint : T.ninteract = K.length
  slen : T.siteinteract.length = nsites
  cnt : ∀ n, n < nsites → ∀ m, (T.siteinteract.getD n []).count m = (K.getD m []).count n
  bnd : ∀ t ∈ K, (∀ n ∈ t, n < nsites) ∧ vacIn vac t = false

theorem rel_init (vac : Option Nat) (nsites : Nat) (E0 : Rat) : Rel vac nsites (Tbl.init nsites E0) [] := by
  refine ⟨rfl, rfl, rfl, by simp [Tbl.init], ?_, by simp⟩
  intro n hn m
  simp [Tbl.init, List.getD_eq_getElem?_getD, hn]

theorem mobOn_sortTuple (occ : List Int) (l : List Nat) : mobOn occ (sortTuple l) = mobOn occ l :=
  (List.mergeSort_perm l _).all_eq


/-- a tuple through the vacancy site is never fully occupied -/
theorem mobOn_of_vacIn (vac : Option Nat) (nsites : Nat) (occ : List Int) (t : Tuple)
    (hocc : OccValid vac nsites occ) (hb : ∀ n ∈ t, n < nsites) (hv : vacIn vac t = true) :
    mobOn occ t = false := by
  cases vac with
  | none => simp [vacIn] at hv
  | some v =>
    have hv' : v ∈ t := by simpa [vacIn] using hv
    have := hocc.2 v (hb v hv')
    rw [if_pos rfl] at this
    by_contra hc
    have hc' : mobOn occ t = true := by simpa using hc
    have := (List.all_eq_true.1 hc') v hv'
    simp_all

/-- one iteration of the loop: the relation is kept and the abstract energy grows by the
    brute-force contribution of the term -/
theorem addTerm_rel (vac : Option Nat) (nsites : Nat) (socc occ : List Int)
    (hocc : OccValid vac nsites occ) (T : Tbl) (K : List Tuple) (hR : Rel vac nsites T K)
    (t : Term) (ht : ∀ n ∈ t.mob, n < nsites) :
    ∃ K', Rel vac nsites (addTerm vac socc T t) K' ∧
      absE occ K' (addTerm vac socc T t).interact + (addTerm vac socc T t).E0
        = absE occ K T.interact + T.E0 + (if specOn socc t && mobOn occ t.mob then t.val else 0) := by
  have hts : ∀ n ∈ sortTuple t.mob, n < nsites := fun n hn => ht n (List.mem_mergeSort.1 hn)
  unfold addTerm
  by_cases hs : specOn socc t = true
  · rw [if_pos hs]
    simp only [hs, Bool.true_and]
    by_cases he : t.mob.isEmpty = true
    · rw [if_pos he]
      have : t.mob = [] := by simpa using he
      refine ⟨K, ⟨hR.dict, hR.ilen, hR.nint, hR.slen, hR.cnt, hR.bnd⟩, ?_⟩
      simp only [this, mobOn, List.all_nil, if_true]
      ring
    · rw [if_neg he]
      by_cases hv : vacIn vac (sortTuple t.mob) = true
      · rw [if_pos hv]
        have := mobOn_of_vacIn vac nsites occ _ hocc hts hv
        rw [mobOn_sortTuple] at this
        refine ⟨K, hR, ?_⟩
        simp [this]
      · rw [if_neg hv]
        cases hl : T.interdict.lookup (sortTuple t.mob) with
        | some m =>
          dsimp only
          rw [hR.dict] at hl
          obtain ⟨-, hm, hk⟩ := lookup_zipIdx K _ 0 m hl
          simp only [Nat.sub_zero] at hm hk
          refine ⟨K, ⟨hR.dict, by simp [hR.ilen], hR.nint, hR.slen, hR.cnt, hR.bnd⟩, ?_⟩
          rw [absE_modify occ K _ m _ hR.ilen hm, hk, mobOn_sortTuple]
          ring
        | none =>
          dsimp only
          refine ⟨K ++ [sortTuple t.mob], ⟨?_, ?_, ?_, ?_, ?_, ?_⟩, ?_⟩
          · simp [hR.dict, hR.nint, List.zipIdx_append]
          · simp [hR.ilen]
          · simp [hR.nint]
          · simp [length_appendSites, hR.slen]
          · intro n hn m
            rw [count_appendSites _ _ _ _ _ (hR.slen ▸ hn), hR.cnt n hn m, hR.nint]
            by_cases h1 : m < K.length
            · rw [getD_append_lt _ _ _ _ h1, if_neg (by omega)]; simp
            · by_cases h2 : m = K.length
              · subst h2
                rw [getD_append_len, getD_ge _ _ _ (Nat.le_refl _)]; simp
              · rw [if_neg h2, getD_ge _ _ _ (by omega), getD_ge _ _ _ (by simp; omega)]; simp
          · intro t' ht'
            rcases List.mem_append.1 ht' with h | h
            · exact hR.bnd t' h
            · have : t' = sortTuple t.mob := by simpa using h
              subst this
              exact ⟨hts, by simpa using hv⟩
          · rw [absE_append occ K _ _ _ hR.ilen, mobOn_sortTuple]
            ring
  · rw [if_neg hs]
    refine ⟨K, hR, ?_⟩
    have : specOn socc t = false := by simpa using hs
    simp [this]


/-- for a key tuple inside the cell that avoids the vacancy, "no listed site is unoccupied" is
    "every listed site is occupied" -/
theorem clustercount_zero_iff_mobOn (vac : Option Nat) (nsites : Nat) (occ : List Int)
    (hocc : OccValid vac nsites occ) (si : List (List Nat)) (t : Tuple) (m : Nat)
    (hsl : si.length = nsites) (hc : ∀ n, n < nsites → (si.getD n []).count m = t.count n)
    (hb : ∀ n ∈ t, n < nsites) (hv : vacIn vac t = false) :
    clustercount si occ m = 0 ↔ mobOn occ t = true := by
  rw [clustercount_eq_zero_iff, hsl]
  unfold mobOn
  rw [List.all_eq_true]
  constructor
  · intro h n hn
    have hlt := hb n hn
    have hne : ¬ vac = some n := by
      intro e; subst e
      simp [vacIn] at hv
      exact hv hn
    have ho := hocc.2 n hlt
    rw [if_neg hne] at ho
    rcases ho with ho | ho
    · have := h n hlt ho
      rw [hc n hlt] at this
      exact absurd hn (List.count_eq_zero.1 this)
    · rw [ho]; rfl
  · intro h n hlt ho
    rw [hc n hlt]
    apply List.count_eq_zero.2
    intro hn
    have := h n hn
    rw [ho] at this
    exact absurd this (by decide)

/-- read-out: the sampler's energy of the finished table is the abstract energy plus the constant -/
theorem readout (vac : Option Nat) (nsites : Nat) (occ : List Int) (hocc : OccValid vac nsites occ)
    (T : Tbl) (K : List Tuple) (hR : Rel vac nsites T K) :
    samplerE T.finish.1 T.finish.2 T.finish.2.length occ = absE occ K T.interact + T.E0 := by
  unfold samplerE samplerSum Tbl.finish absE
  simp only [Nat.sub_zero, Nat.add_zero, List.map_id', List.length_append, List.length_singleton]
  rw [sum_range_succ, hR.ilen]
  congr 1
  · apply sum_range_congr
    intro m hm
    rw [getD_append_lt _ _ _ _ (hR.ilen ▸ hm)]
    have hmem : K.getD m [] ∈ K := by
      rw [List.getD_eq_getElem?_getD, List.getElem?_eq_getElem hm]; simp
    have hb := hR.bnd _ hmem
    have := clustercount_zero_iff_mobOn vac nsites occ hocc T.siteinteract (K.getD m []) m hR.slen
      (fun n hn => hR.cnt n hn m) hb.1 hb.2
    by_cases h : mobOn occ (K.getD m []) = true
    · rw [if_pos (this.2 h), if_pos h]
    · rw [if_neg (fun h' => h (this.1 h')), if_neg h]
  · have h0 : clustercount T.siteinteract occ K.length = 0 := by
      rw [clustercount_eq_zero_iff]
      intro n hn _
      rw [hR.cnt n (hR.slen ▸ hn), getD_ge _ _ _ (Nat.le_refl _)]; simp
    rw [if_pos h0, ← hR.ilen, getD_append_len]

theorem bruteSum_cons (socc occ : List Int) (t : Term) (ts : List Term) :
    bruteSum socc occ (t :: ts)
      = (if specOn socc t && mobOn occ t.mob then t.val else 0) + bruteSum socc occ ts := by
  simp [bruteSum]

theorem bruteSum_append (socc occ : List Int) (ts us : List Term) :
    bruteSum socc occ (ts ++ us) = bruteSum socc occ ts + bruteSum socc occ us := by
  simp [bruteSum]

theorem buildTable_rel (vac : Option Nat) (nsites : Nat) (socc occ : List Int)
    (hocc : OccValid vac nsites occ) (ts : List Term) (T : Tbl) (K : List Tuple)
    (hR : Rel vac nsites T K) (hb : ∀ t ∈ ts, ∀ n ∈ t.mob, n < nsites) :
    ∃ K', Rel vac nsites (buildTable vac socc T ts) K' ∧
      absE occ K' (buildTable vac socc T ts).interact + (buildTable vac socc T ts).E0
        = absE occ K T.interact + T.E0 + bruteSum socc occ ts := by
  induction ts generalizing T K with
  | nil => exact ⟨K, hR, by simp [buildTable, bruteSum]⟩
  | cons t ts ih =>
    obtain ⟨K1, hR1, hE1⟩ := addTerm_rel vac nsites socc occ hocc T K hR t (hb t (by simp))
    obtain ⟨K2, hR2, hE2⟩ := ih _ K1 hR1 (fun u hu => hb u (by simp [hu]))
    refine ⟨K2, hR2, ?_⟩
    have : buildTable vac socc T (t :: ts) = buildTable vac socc (addTerm vac socc T t) ts := rfl
    rw [this, hE2, hE1, bruteSum_cons]
    ring

/-- MAIN THEOREM -/
theorem interact_energy_eq_bruteforce
    (vac : Option Nat) (nsites : Nat) (socc occ : List Int) (ts : List Term) (E0 : Rat)
    (hb : ∀ t ∈ ts, ∀ n ∈ t.mob, n < nsites)
    (hocc : OccValid vac nsites occ) :
    samplerE (buildTable vac socc (Tbl.init nsites E0) ts).finish.1
             (buildTable vac socc (Tbl.init nsites E0) ts).finish.2
             (buildTable vac socc (Tbl.init nsites E0) ts).finish.2.length occ
      = bruteSum socc occ ts + E0 := by
  obtain ⟨K, hR, hE⟩ := buildTable_rel vac nsites socc occ hocc ts _ [] (rel_init vac nsites E0) hb
  rw [readout vac nsites occ hocc _ K hR, hE]
  simp [absE, Tbl.init]
  ring

/-- a placed cluster that wraps onto one site twice acts like the cluster listing it once -/
theorem repeated_index_ok (vac : Option Nat) (nsites : Nat) (socc occ : List Int) (E0 : Rat)
    (n : Nat) (rest spec : List Nat) (v : Rat)
    (hn : n < nsites) (hr : ∀ k ∈ rest, k < nsites) (hocc : OccValid vac nsites occ) :
    samplerE (buildTable vac socc (Tbl.init nsites E0) [⟨n :: n :: rest, spec, v⟩]).finish.1
             (buildTable vac socc (Tbl.init nsites E0) [⟨n :: n :: rest, spec, v⟩]).finish.2
             (buildTable vac socc (Tbl.init nsites E0) [⟨n :: n :: rest, spec, v⟩]).finish.2.length occ
    = samplerE (buildTable vac socc (Tbl.init nsites E0) [⟨n :: rest, spec, v⟩]).finish.1
             (buildTable vac socc (Tbl.init nsites E0) [⟨n :: rest, spec, v⟩]).finish.2
             (buildTable vac socc (Tbl.init nsites E0) [⟨n :: rest, spec, v⟩]).finish.2.length occ := by
  rw [interact_energy_eq_bruteforce vac nsites socc occ _ E0 _ hocc,
    interact_energy_eq_bruteforce vac nsites socc occ _ E0 _ hocc]
  · simp [bruteSum, specOn, mobOn]
  · intro t ht k hk
    have : t = ⟨n :: rest, spec, v⟩ := by simpa using ht
    subst this
    rcases List.mem_cons.1 hk with h | h
    · exact h ▸ hn
    · exact hr k h
  · intro t ht k hk
    have : t = ⟨n :: n :: rest, spec, v⟩ := by simpa using ht
    subst this
    rcases List.mem_cons.1 hk with h | h
    · exact h ▸ hn
    · rcases List.mem_cons.1 h with h | h
      · exact h ▸ hn
      · exact hr k h

/-- the terms of one class: value times the number of fully occupied placements -/
theorem bruteSum_class (socc occ : List Int) (l : List Placed) (v : Rat) :
    bruteSum socc occ (l.map fun p => ({ mob := p.mob, spec := p.spec, val := v } : Term))
      = v * (((l.countP (placedOn socc occ) : Nat) : Int) : Rat) := by
  induction l with
  | nil => simp [bruteSum]
  | cons p l ih =>
    rw [List.map_cons, bruteSum_cons, ih, List.countP_cons]
    have : (specOn socc { mob := p.mob, spec := p.spec, val := v } && mobOn occ p.mob)
        = placedOn socc occ p := rfl
    simp only [this]
    by_cases h : placedOn socc occ p = true
    · simp only [h, if_true]; push_cast; ring
    · simp only [h]; simp

theorem dot_aux (socc occ : List Int) (pl : List (List Placed)) (values : List Rat) (s : Int)
    (hlen : values.length = pl.length + 1) :
    dotRat values (pl.map (fun l => ((l.countP (placedOn socc occ) : Nat) : Int)) ++ [s])
      = bruteSum socc occ (termsOf pl values) + (s : Rat) * values.getLastD 0 := by
  induction pl generalizing values with
  | nil =>
    match values, hlen with
    | [v], _ => simp [dotRat, termsOf, bruteSum]; ring
  | cons l pl ih =>
    match values, hlen with
    | v :: vs, hlen =>
      have hvs : vs.length = pl.length + 1 := by simpa using hlen
      have hne : vs ≠ [] := by intro e; simp [e] at hvs
      have h1 : dotRat (v :: vs)
          ((l :: pl).map (fun l => ((l.countP (placedOn socc occ) : Nat) : Int)) ++ [s])
          = v * (((l.countP (placedOn socc occ) : Nat) : Int) : Rat)
            + dotRat vs (pl.map (fun l => ((l.countP (placedOn socc occ) : Nat) : Int)) ++ [s]) := by
        simp [dotRat]
      have h2 : termsOf (l :: pl) (v :: vs)
          = (l.map fun p => ({ mob := p.mob, spec := p.spec, val := v } : Term)) ++ termsOf pl vs := by
        simp [termsOf]
      have h3 : (v :: vs).getLastD 0 = vs.getLastD 0 := by
        cases vs with
        | nil => exact absurd rfl hne
        | cons a vs => simp [List.getLastD]
      rw [h1, h2, h3, bruteSum_append, bruteSum_class, ih vs hvs]
      ring

/-- `values · evalcluster` (with the trailing constant) is the brute-force sum over the terms -/
theorem dot_counts_eq_bruteSum (c : Cfg) (pl : List (List Placed)) (occ : List Int)
    (hlen : c.values.length = pl.length + 1) (hcl : c.classes.length = pl.length) :
    dotRat c.values (c.counts pl occ) = bruteSum c.socc occ (termsOf pl c.values) + c.E0 := by
  unfold Cfg.counts Cfg.E0
  rw [dot_aux c.socc occ pl c.values _ hlen, if_pos (by omega)]
  simp

/-- all evaluators agree on a configuration (combination of the above) -/
theorem evaluators_agree (c : Cfg) (pl : List (List Placed)) (occ : List Int)
    (hlen : c.values.length = pl.length + 1) (hcl : c.classes.length = pl.length)
    (hb : ∀ l ∈ pl, ∀ p ∈ l, ∀ n ∈ p.mob, n < c.nsites)
    (hocc : OccValid c.vac c.nsites occ) :
    let T := (buildTable c.vac c.socc (Tbl.init c.nsites c.E0) (termsOf pl c.values)).finish
    samplerE T.1 T.2 T.2.length occ = dotRat c.values (c.counts pl occ) := by
  intro T
  rw [dot_counts_eq_bruteSum c pl occ hlen hcl]
  apply interact_energy_eq_bruteforce _ _ _ _ _ _ _ hocc
  intro t ht n hn
  unfold termsOf at ht
  rw [List.mem_flatMap] at ht
  obtain ⟨⟨l, v⟩, hlv, ht⟩ := ht
  obtain ⟨p, hp, rfl⟩ := List.mem_map.1 ht
  exact hb l (List.of_mem_zip hlv).1 p hp n hn

theorem incell_periodic (sp : Super) (hinv : sp.inverseOK = true) (R n : V3) :
    sp.incell (R.add (sp.superlatt.mulVec n)) = sp.incell R := by
  unfold Super.inverseOK at hinv
  simp only [Bool.and_eq_true, decide_eq_true_eq] at hinv
  obtain ⟨h1, -⟩ := hinv
  simp only [M3.mul, M3.scalar, M3.mk.injEq, V3.mk.injEq, V3.dot] at h1
  obtain ⟨⟨a1, a2, a3⟩, ⟨b1, b2, b3⟩, ⟨c1, c2, c3⟩⟩ := h1
  simp only [Super.incell, V3.mod, M3.mulVec, V3.add, V3.dot, V3.mk.injEq]
  refine ⟨?_, ?_, ?_⟩
  · conv_rhs => rw [← Int.add_mul_emod_self_left _ (sp.size : Int) n.x]
    congr 1
    linear_combination n.x * a1 + n.y * a2 + n.z * a3
  · conv_rhs => rw [← Int.add_mul_emod_self_left _ (sp.size : Int) n.y]
    congr 1
    linear_combination n.x * b1 + n.y * b2 + n.z * b3
  · conv_rhs => rw [← Int.add_mul_emod_self_left _ (sp.size : Int) n.z]
    congr 1
    linear_combination n.x * c1 + n.y * c2 + n.z * c3

theorem index_periodic (c : Cfg) (hinv : c.sp.inverseOK = true) (R n : V3) (s : Site) :
    c.index (R.add (c.sp.superlatt.mulVec n)) s = c.index R s := by
  have h : (R.add (c.sp.superlatt.mulVec n)).add s.R = (R.add s.R).add (c.sp.superlatt.mulVec n) := by
    simp only [V3.add, V3.mk.injEq]
    refine ⟨?_, ?_, ?_⟩ <;> ring
  unfold Cfg.index Super.transIdx
  rw [h, incell_periodic _ hinv]


/-! ### `maketrans`: the inverse relations, the translation list and the `index` / `ciR` round trip -/

theorem V3.beq_iff (a b : V3) : (a == b) = true ↔ a = b := by
  cases a; cases b
  simp [BEq.beq, instBEqV3.beq]

instance : LawfulBEq V3 where
  eq_of_beq {a b} h := (V3.beq_iff a b).1 h
  rfl {a} := (V3.beq_iff a a).2 rfl

/-- the translation list `maketrans` accumulates -/
def mkTranslist (S : M3) : List V3 :=
  ((symRange S.maxAbs).flatMap fun n0 => (symRange S.maxAbs).flatMap fun n1 =>
      (symRange S.maxAbs).map fun n2 => (⟨n0, n1, n2⟩ : V3)).foldl
    (fun acc nv => pushNew acc
      (((M3.scale (if S.det < 0 then -1 else 1) S.adj).mulVec nv).mod (S.det.natAbs : Int))) []

def mkSuper (S : M3) : Super :=
  { superlatt := S, size := S.det.natAbs,
    invsuper := M3.scale (if S.det < 0 then -1 else 1) S.adj,
    translist := mkTranslist S }

theorem maketrans_eq (S : M3) : maketrans S =
    if S.det.natAbs = 0 then .error "ZeroDivisionError"
    else if (mkTranslist S).length ≠ S.det.natAbs then .error "ArithmeticError"
    else .ok (mkSuper S) := rfl

/-- what `maketrans` computes when it succeeds -/
theorem maketrans_fields (S : M3) (sp : Super) (h : maketrans S = .ok sp) :
    S.det.natAbs ≠ 0 ∧ sp.superlatt = S ∧ sp.size = S.det.natAbs ∧
    sp.invsuper = M3.scale (if S.det < 0 then -1 else 1) S.adj ∧
    sp.translist = mkTranslist S ∧ sp.translist.length = sp.size := by
  rw [maketrans_eq] at h
  by_cases h0 : S.det.natAbs = 0
  · rw [if_pos h0] at h; cases h
  · rw [if_neg h0] at h
    by_cases h1 : (mkTranslist S).length ≠ S.det.natAbs
    · rw [if_pos h1] at h; cases h
    · rw [if_neg h1] at h
      injection h with h
      have h1' : (mkTranslist S).length = S.det.natAbs := by simpa using h1
      rw [← h]
      dsimp only [mkSuper]
      exact ⟨h0, rfl, rfl, rfl, rfl, h1'⟩

theorem natAbs_eq_sign_mul (d : Int) : (d.natAbs : Int) = (if d < 0 then -1 else 1) * d := by
  split <;> omega

/-- `sign(det)·adj(S)` is the inverse of `S` up to the factor `|det S|` (both orders) -/
theorem adj_inverse (S : M3) :
    (M3.scale (if S.det < 0 then -1 else 1) S.adj).mul S = M3.scalar (S.det.natAbs : Int) ∧
    S.mul (M3.scale (if S.det < 0 then -1 else 1) S.adj) = M3.scalar (S.det.natAbs : Int) := by
  rw [natAbs_eq_sign_mul]
  generalize (if S.det < 0 then (-1 : Int) else 1) = c
  simp only [M3.mul, M3.scale, M3.adj, M3.scalar, M3.det, V3.dot, M3.mk.injEq, V3.mk.injEq]
  refine ⟨⟨⟨?_, ?_, ?_⟩, ⟨?_, ?_, ?_⟩, ⟨?_, ?_, ?_⟩⟩, ⟨⟨?_, ?_, ?_⟩, ⟨?_, ?_, ?_⟩, ⟨?_, ?_, ?_⟩⟩⟩ <;> ring

theorem maketrans_inverseOK (S : M3) (sp : Super) (h : maketrans S = .ok sp) :
    0 < sp.size ∧ sp.inverseOK = true ∧ sp.superlatt = S ∧ sp.translist.length = sp.size := by
  obtain ⟨h0, e1, e2, e3, -, e5⟩ := maketrans_fields S sp h
  refine ⟨by omega, ?_, e1, e5⟩
  unfold Super.inverseOK
  rw [e1, e2, e3]
  simp only [Bool.and_eq_true, decide_eq_true_eq]
  exact adj_inverse S

theorem pushNew_fold (f : V3 → V3) (nvs : List V3) (acc : List V3)
    (hnd : acc.Nodup) (hP : ∀ t ∈ acc, ∃ nv, t = f nv) :
    (nvs.foldl (fun acc nv => pushNew acc (f nv)) acc).Nodup ∧
    ∀ t ∈ nvs.foldl (fun acc nv => pushNew acc (f nv)) acc, ∃ nv, t = f nv := by
  induction nvs generalizing acc with
  | nil => exact ⟨hnd, hP⟩
  | cons nv nvs ih =>
    rw [List.foldl_cons]
    apply ih
    · unfold pushNew
      by_cases hc : acc.contains (f nv) = true
      · rw [if_pos hc]; exact hnd
      · rw [if_neg hc]
        have : f nv ∉ acc := by simpa using hc
        rw [List.nodup_append]
        refine ⟨hnd, by simp, ?_⟩
        intro a ha b hb
        have : b = f nv := by simpa using hb
        subst this
        intro e; subst e; exact this ha
    · intro t ht
      unfold pushNew at ht
      by_cases hc : acc.contains (f nv) = true
      · rw [if_pos hc] at ht; exact hP t ht
      · rw [if_neg hc] at ht
        rcases List.mem_append.1 ht with h | h
        · exact hP t h
        · exact ⟨nv, by simpa using h⟩

/-- the translation list has no repeats and consists of reduced vectors `incell nv` -/
theorem maketrans_translist (S : M3) (sp : Super) (h : maketrans S = .ok sp) :
    sp.translist.Nodup ∧ ∀ t ∈ sp.translist, ∃ nv : V3, t = sp.incell nv := by
  obtain ⟨-, -, e2, e3, e4, -⟩ := maketrans_fields S sp h
  have hin : ∀ nv, sp.incell nv
      = ((M3.scale (if S.det < 0 then -1 else 1) S.adj).mulVec nv).mod (S.det.natAbs : Int) := by
    intro nv; unfold Super.incell; rw [e2, e3]
  simp only [hin]
  rw [e4]
  unfold mkTranslist
  exact pushNew_fold _ _ [] List.nodup_nil (by simp)

/-- reducing the lattice vector of a reduced vector gives the reduced vector back -/
theorem incell_rvec_incell (sp : Super) (hpos : 0 < sp.size) (hinv : sp.inverseOK = true) (nv : V3) :
    sp.incell (sp.rvec (sp.incell nv)) = sp.incell nv := by
  have hinv' := hinv
  unfold Super.inverseOK at hinv'
  simp only [Bool.and_eq_true, decide_eq_true_eq] at hinv'
  obtain ⟨-, h2⟩ := hinv'
  simp only [M3.mul, M3.scalar, M3.mk.injEq, V3.mk.injEq, V3.dot] at h2
  obtain ⟨⟨a1, a2, a3⟩, ⟨b1, b2, b3⟩, ⟨c1, c2, c3⟩⟩ := h2
  have hn : (sp.size : Int) ≠ 0 := by omega
  have key : sp.rvec (sp.incell nv) = nv.add (sp.superlatt.mulVec
      ⟨-((sp.invsuper.r0.dot nv) / sp.size), -((sp.invsuper.r1.dot nv) / sp.size),
       -((sp.invsuper.r2.dot nv) / sp.size)⟩) := by
    simp only [Super.rvec, Super.incell, V3.div, V3.mod, M3.mulVec, V3.add, V3.dot, V3.mk.injEq]
    refine ⟨?_, ?_, ?_⟩
    · apply Int.ediv_eq_of_eq_mul_right hn
      simp only [Int.emod_def]
      linear_combination nv.x * a1 + nv.y * a2 + nv.z * a3
    · apply Int.ediv_eq_of_eq_mul_right hn
      simp only [Int.emod_def]
      linear_combination nv.x * b1 + nv.y * b2 + nv.z * b3
    · apply Int.ediv_eq_of_eq_mul_right hn
      simp only [Int.emod_def]
      linear_combination nv.x * c1 + nv.y * c2 + nv.z * c3
  rw [key, incell_periodic sp hinv]

theorem idxOf?_getElem_of_nodup (l : List V3) (hnd : l.Nodup) (k : Nat) (hk : k < l.length) :
    l.idxOf? l[k] = some k := by
  rw [List.idxOf?_eq_some_iff]
  refine ⟨hk, rfl, ?_⟩
  intro j hj
  exact (List.pairwise_iff_getElem.1 hnd) j k (by omega) hk hj

/-- `index` inverts `ciR`: the lattice vector `Rveclist[k]` lies in translation cell `k` -/
theorem transIdx_rvec (S : M3) (sp : Super) (h : maketrans S = .ok sp) (k : Nat)
    (hk : k < sp.translist.length) :
    sp.transIdx (sp.rvec (sp.translist.getD k ⟨0,0,0⟩)) = some k := by
  obtain ⟨hpos, hinv, -, -⟩ := maketrans_inverseOK S sp h
  obtain ⟨hnd, hmem⟩ := maketrans_translist S sp h
  have hget : sp.translist.getD k ⟨0,0,0⟩ = sp.translist[k] := by
    rw [List.getD_eq_getElem?_getD, List.getElem?_eq_getElem hk]; rfl
  obtain ⟨nv, hnv⟩ := hmem _ (List.getElem_mem hk)
  unfold Super.transIdx
  rw [hget, hnv, incell_rvec_incell sp hpos hinv, ← hnv]
  exact idxOf?_getElem_of_nodup _ hnd k hk

theorem index_ciR (c : Cfg) (S : M3) (h : maketrans S = .ok c.sp) (n : Nat) (hn : n < c.nsites)
    (hm : 0 < c.nmob) :
    c.index ((c.sp.rveclist).getD (n / c.nmob) ⟨0,0,0⟩) ⟨true, n % c.nmob, ⟨0,0,0⟩⟩ = .ok n := by
  obtain ⟨-, -, -, hlen⟩ := maketrans_inverseOK S c.sp h
  have hk : n / c.nmob < c.sp.translist.length := by
    rw [hlen, Nat.div_lt_iff_lt_mul hm, Nat.mul_comm]; exact hn
  have hr : (c.sp.rveclist).getD (n / c.nmob) ⟨0,0,0⟩
      = c.sp.rvec (c.sp.translist.getD (n / c.nmob) ⟨0,0,0⟩) := by
    unfold Super.rveclist
    simp only [List.getD_eq_getElem?_getD, List.getElem?_map, List.getElem?_eq_getElem hk]
    rfl
  have hadd : ∀ R : V3, R.add ⟨0,0,0⟩ = R := by
    intro R; cases R; simp [V3.add]
  unfold Cfg.index
  simp only [hadd, hr, transIdx_rvec S c.sp h _ hk, if_true]
  rw [Nat.div_add_mod']

/-! ### non-vacuity: a concrete instance of `interact_energy_eq_bruteforce`

  4 mobile sites, vacancy at site 1, site 3 empty; the terms exercise merging (`[2,0]` and `[0,2]`
  share the sorted tuple `[0,2]`), a repeated index (`[0,0]`), a spectator-only constant, a vacancy
  skip (`[1,2]`), an unoccupied spectator and an unoccupied mobile site. -/

def exTerms : List Term :=
  [⟨[2, 0], [0], 3⟩, ⟨[0, 2], [], 1 / 2⟩, ⟨[0, 0], [], 5⟩, ⟨[], [0], 7⟩, ⟨[1, 2], [], 11⟩,
   ⟨[0], [1], 13⟩, ⟨[3, 0], [], 2⟩]

example : OccValid (some 1) 4 [1, -1, 1, 0] := (occOK_iff _ _ _).1 (by decide)

example : ∀ t ∈ exTerms, ∀ n ∈ t.mob, n < 4 := by decide

theorem exTable : (buildTable (some 1) [1, 0] (Tbl.init 4 1) exTerms).finish
    = ([[0, 1, 1, 2], [], [0], [2]], [7 / 2, 5, 2, 8]) := by
  have srt : ∀ l : List Nat, l.Pairwise (fun a b => decide (a ≤ b) = true) → sortTuple l = l :=
    fun l h => List.mergeSort_of_pairwise h
  have s1 : sortTuple [2, 0] = [0, 2] := by
    simp [sortTuple, List.mergeSort, List.MergeSort.Internal.splitInTwo]
  have s2 : sortTuple [0, 2] = [0, 2] := srt _ (by decide)
  have s3 : sortTuple [0, 0] = [0, 0] := srt _ (by decide)
  have s4 : sortTuple [1, 2] = [1, 2] := srt _ (by decide)
  have s5 : sortTuple [3, 0] = [0, 3] := by
    simp [sortTuple, List.mergeSort, List.MergeSort.Internal.splitInTwo]
  simp [buildTable, exTerms, addTerm, specOn, vacIn, appendSites, Tbl.init, Tbl.finish,
    s1, s2, s3, s4, s5, List.lookup]
  norm_num

/-- both sides of the main theorem on the instance evaluate to `33/2` -/
example :
    samplerE (buildTable (some 1) [1, 0] (Tbl.init 4 1) exTerms).finish.1
             (buildTable (some 1) [1, 0] (Tbl.init 4 1) exTerms).finish.2
             (buildTable (some 1) [1, 0] (Tbl.init 4 1) exTerms).finish.2.length [1, -1, 1, 0] = 33 / 2
    ∧ bruteSum [1, 0] [1, -1, 1, 0] exTerms + 1 = 33 / 2 := by
  rw [exTable]
  exact ⟨by decide +kernel, by decide +kernel⟩

end Onsager.C32
