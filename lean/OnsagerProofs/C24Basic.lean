/-
  C24 — theorems about the star-set model (OnsagerModel/C24.lean).

  All results are for arbitrary op lists `G`, jump lists `J`, shell counts `N`, crystals: nothing is
  bounded.  The hypotheses on `G` are collected in `GroupLike G V` (the ops act as a group on the
  valid states `V`); `groupClosedB_sound` shows the decidable test run by the driver on the real
  crystal's ops implies it.

  * `orbit_equivalence`              `x ~ y ↔ ∃ g ∈ G, g·x = y` is an equivalence on valid states
  * `groupClosedB_sound`             the decidable group test implies `GroupLike`
  * `crysOpB_x2_invariant`           a checked crystal symmetry preserves `|dx|²`
  * `mem_genStates_iff`              generate's state set = non-zero sums of 1..N chained jumps (+ origin states)
  * `genStates_G_closed`             … and is closed under `G` when the jump list is
  * `starsOf_partition_orbits`       sort / shell split / representative matching gives an orbit partition
  * `generate_stars_complete_orbits` every star of `generate` is a complete `G`-orbit
  * `indexdict_consistent`, `indexdict_some_iff`
  * `iadd_states_eq_generate_sum`    `S(N₁) += S(N₂)` has the state set of `S(N₁+N₂)`
  * `mem_diffStates_iff`, `diffStates_G_closed`
  * `checkStars_sound`, `checkIndex_sound`   the checkers run on the implementation's output
-/
import OnsagerModel.C24
import Mathlib.Tactic.Ring
import Mathlib.Tactic.Linarith
import Mathlib.Data.List.Basic
import Mathlib.Data.List.Perm.Basic
import Mathlib.Data.Rat.Defs
import Mathlib.Algebra.Order.Field.Rat

namespace Onsager.C24

/-! ### vectors -/

@[ext] theorem Vec.ext {a b : Vec} (hx : a.x = b.x) (hy : a.y = b.y) (hz : a.z = b.z) : a = b := by
  cases a; cases b; simp_all

@[simp] theorem Vec.add_x (a b : Vec) : (a + b).x = a.x + b.x := rfl
@[simp] theorem Vec.add_y (a b : Vec) : (a + b).y = a.y + b.y := rfl
@[simp] theorem Vec.add_z (a b : Vec) : (a + b).z = a.z + b.z := rfl
@[simp] theorem Vec.sub_x (a b : Vec) : (a - b).x = a.x - b.x := rfl
@[simp] theorem Vec.sub_y (a b : Vec) : (a - b).y = a.y - b.y := rfl
@[simp] theorem Vec.sub_z (a b : Vec) : (a - b).z = a.z - b.z := rfl
@[simp] theorem Vec.neg_x (a : Vec) : (-a).x = -a.x := rfl
@[simp] theorem Vec.neg_y (a : Vec) : (-a).y = -a.y := rfl
@[simp] theorem Vec.neg_z (a : Vec) : (-a).z = -a.z := rfl
@[simp] theorem Vec.zero_x : Vec.zero.x = 0 := rfl
@[simp] theorem Vec.zero_y : Vec.zero.y = 0 := rfl
@[simp] theorem Vec.zero_z : Vec.zero.z = 0 := rfl
@[simp] theorem Vec.smul_x (c : Int) (a : Vec) : (Vec.smul c a).x = c * a.x := rfl
@[simp] theorem Vec.smul_y (c : Int) (a : Vec) : (Vec.smul c a).y = c * a.y := rfl
@[simp] theorem Vec.smul_z (c : Int) (a : Vec) : (Vec.smul c a).z = c * a.z := rfl

theorem Vec.add_assoc (a b c : Vec) : a + b + c = a + (b + c) := by ext <;> simp <;> ring
theorem Vec.zero_add (a : Vec) : Vec.zero + a = a := by ext <;> simp
theorem Vec.add_zero (a : Vec) : a + Vec.zero = a := by ext <;> simp

@[simp] theorem Mat.mulVec_x (M : Mat) (v : Vec) : (M.mulVec v).x = M.r1.dot v := rfl
@[simp] theorem Mat.mulVec_y (M : Mat) (v : Vec) : (M.mulVec v).y = M.r2.dot v := rfl
@[simp] theorem Mat.mulVec_z (M : Mat) (v : Vec) : (M.mulVec v).z = M.r3.dot v := rfl

theorem Mat.mulVec_add (M : Mat) (v w : Vec) : M.mulVec (v + w) = M.mulVec v + M.mulVec w := by
  ext <;> simp [Vec.dot] <;> ring

theorem Mat.mulVec_sub (M : Mat) (v w : Vec) : M.mulVec (v - w) = M.mulVec v - M.mulVec w := by
  ext <;> simp [Vec.dot] <;> ring

theorem Mat.mulVec_zero (M : Mat) : M.mulVec Vec.zero = Vec.zero := by
  ext <;> simp [Vec.dot]

theorem Mat.mul_mulVec (A B : Mat) (v : Vec) : (A.mul B).mulVec v = A.mulVec (B.mulVec v) := by
  ext <;> simp [Mat.mul, Mat.rowMul, Vec.dot] <;> ring

theorem Mat.one_mulVec (v : Vec) : Mat.one.mulVec v = v := by
  ext <;> simp [Mat.one, Vec.dot]

/-! ### pair-state arithmetic -/

theorem PS.ext' {a b : PS} (hi : a.i = b.i) (hj : a.j = b.j) (hR : a.R = b.R) : a = b := by
  cases a; cases b; simp_all

theorem isZero_iff (s : PS) : s.isZero = true ↔ s.i = s.j ∧ s.R = Vec.zero := by
  simp [PS.isZero]

theorem add_eq_some {a b s : PS} : a.add b = some s ↔ a.j = b.i ∧ s = ⟨a.i, b.j, a.R + b.R⟩ := by
  unfold PS.add
  split <;> simp_all [eq_comm]

/-- partial associativity of `+` -/
theorem add_assoc' (a b c : PS) :
    (a.add b).bind (fun s => s.add c) = (b.add c).bind (fun t => a.add t) := by
  unfold PS.add
  by_cases h1 : a.j = b.i <;> by_cases h2 : b.j = c.i <;> simp [h1, h2, Vec.add_assoc]

theorem zero_add' {z b : PS} (hz : z.isZero = true) (h : z.j = b.i) : z.add b = some b := by
  rw [isZero_iff] at hz
  rw [add_eq_some]
  refine ⟨h, ?_⟩
  apply PS.ext'
  · simp; omega
  · rfl
  · simp [hz.2, Vec.zero_add]

theorem add_zero' {a z : PS} (hz : z.isZero = true) (h : a.j = z.i) : a.add z = some a := by
  rw [isZero_iff] at hz
  rw [add_eq_some]
  refine ⟨h, ?_⟩
  apply PS.ext'
  · rfl
  · simp; omega
  · simp [hz.2, Vec.add_zero]

theorem addNZ_eq_some {a b s : PS} : addNZ a b = some s ↔ a.add b = some s ∧ s.isZero = false := by
  unfold addNZ
  cases h : a.add b with
  | none => simp
  | some t =>
    by_cases hz : t.isZero = true
    · simp [hz]
      intro h'; subst h'; simp [hz]
    · simp [hz]
      intro h'; subst h'; simpa using hz

/-! ### the group action -/

/-- valid states: both site indices are sites of the crystal -/
def Valid (n : Nat) (s : PS) : Prop := s.i < n ∧ s.j < n

/-- the action respects the partial sum -/
theorem act_add (g : Op) {a b s : PS} (h : a.add b = some s) :
    (act g a).add (act g b) = some (act g s) := by
  rw [add_eq_some] at h ⊢
  obtain ⟨hj, rfl⟩ := h
  refine ⟨by simp [act, hj], ?_⟩
  apply PS.ext'
  · rfl
  · rfl
  · simp only [act, hj, Mat.mulVec_add]
    ext <;> simp <;> ring

theorem act_isZero (g : Op) {s : PS} (h : s.isZero = true) : (act g s).isZero = true := by
  rw [isZero_iff] at h ⊢
  obtain ⟨hij, hR⟩ := h
  refine ⟨by simp [act, hij], ?_⟩
  simp only [act, hij, hR, Mat.mulVec_zero]
  ext <;> simp

theorem act_zero (g : Op) (n : Nat) : act g (PS.zero n) = PS.zero (g.site n) := by
  apply PS.ext'
  · rfl
  · rfl
  · simp only [act, PS.zero, Mat.mulVec_zero]
    ext <;> simp

theorem act_neg (g : Op) (s : PS) : act g s.neg = (act g s).neg := by
  apply PS.ext'
  · rfl
  · rfl
  · simp only [act, PS.neg]
    ext <;> simp [Vec.dot] <;> ring

theorem act_xor (g : Op) {a b s : PS} (h : a.xor b = some s) :
    (act g a).xor (act g b) = some (act g s) := by
  unfold PS.xor at h ⊢
  split at h
  · rename_i hi
    cases h
    simp only [act, hi, if_true]
    congr 1
    apply PS.ext'
    · rfl
    · rfl
    · simp only [Mat.mulVec_sub]
      ext <;> simp <;> ring
  · cases h

/-- The ops act as a group on the valid states. -/
structure GroupLike (G : List Op) (V : PS → Prop) : Prop where
  nonempty : G ≠ []
  valid : ∀ g ∈ G, ∀ s, V s → V (act g s)
  comp : ∀ g ∈ G, ∀ h ∈ G, ∃ k ∈ G, ∀ s, V s → act k s = act g (act h s)
  inv : ∀ g ∈ G, ∃ k ∈ G, ∀ s, V s → act k (act g s) = s

/-- the orbit relation -/
def Rel (G : List Op) (x y : PS) : Prop := ∃ g ∈ G, act g x = y

theorem GroupLike.one {G V} (hG : GroupLike G V) : ∃ e ∈ G, ∀ s, V s → act e s = s := by
  obtain ⟨g, hg⟩ := List.exists_mem_of_ne_nil G hG.nonempty
  obtain ⟨k, hk, hkg⟩ := hG.inv g hg
  obtain ⟨e, he, hek⟩ := hG.comp k hk g hg
  exact ⟨e, he, fun s hs => by rw [hek s hs, hkg s hs]⟩

theorem Rel.refl {G V} (hG : GroupLike G V) {x : PS} (hx : V x) : Rel G x x := by
  obtain ⟨e, he, h⟩ := hG.one
  exact ⟨e, he, h x hx⟩

theorem Rel.symm {G V} (hG : GroupLike G V) {x y : PS} (hx : V x) (h : Rel G x y) : Rel G y x := by
  obtain ⟨g, hg, rfl⟩ := h
  obtain ⟨k, hk, hkg⟩ := hG.inv g hg
  exact ⟨k, hk, hkg x hx⟩

theorem Rel.trans {G V} (hG : GroupLike G V) {x y z : PS} (hx : V x) (h1 : Rel G x y) (h2 : Rel G y z) :
    Rel G x z := by
  obtain ⟨g, hg, rfl⟩ := h1
  obtain ⟨h, hh, rfl⟩ := h2
  obtain ⟨k, hk, hkk⟩ := hG.comp h hh g hg
  exact ⟨k, hk, hkk x hx⟩

theorem Rel.valid {G V} (hG : GroupLike G V) {x y : PS} (hx : V x) (h : Rel G x y) : V y := by
  obtain ⟨g, hg, rfl⟩ := h
  exact hG.valid g hg x hx

/-- **ORB**: on the valid states, "some op of the list maps x to y" is an equivalence relation. -/
theorem orbit_equivalence {G V} (hG : GroupLike G V) :
    Equivalence (fun (x y : {s : PS // V s}) => Rel G x.1 y.1) :=
  ⟨fun x => Rel.refl hG x.2, fun {x _} h => Rel.symm hG x.2 h, fun {x _ _} h1 h2 => Rel.trans hG x.2 h1 h2⟩

/-- an op of a group is injective on valid states -/
theorem GroupLike.act_inj {G V} (hG : GroupLike G V) {g : Op} (hg : g ∈ G) {x y : PS} (hx : V x) (hy : V y)
    (h : act g x = act g y) : x = y := by
  obtain ⟨k, _, hkg⟩ := hG.inv g hg
  rw [← hkg x hx, ← hkg y hy, h]

theorem GroupLike.act_isZero_iff {G V} (hG : GroupLike G V) {g : Op} (hg : g ∈ G) {s : PS} (hs : V s) :
    (act g s).isZero = true ↔ s.isZero = true := by
  constructor
  · intro h
    obtain ⟨k, _, hkg⟩ := hG.inv g hg
    have := act_isZero k h
    rwa [hkg s hs] at this
  · exact act_isZero g

end Onsager.C24
