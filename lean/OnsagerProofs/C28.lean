/-
  C28 — theorems about the occupancy bookkeeping model (OnsagerModel/C28.lean).

  Main results (all for unbounded cells, species counts and op histories):
  * `setocc_inv`            one edit keeps the bookkeeping invariant
  * `setocc_ok_of_declared` every declared species (-1 … nchem-1) can be placed on every site
  * `setocc_rejects`        undeclared species are rejected (state unchanged by `step`)
  * `setoccMany_inv`, `fill_inv`, `poscarOcc_inv`   sequences of edits keep the invariant
  Continued in OnsagerProofs/C28More.lean: `imul_inv`, `reorder_inv`/`reorder_perm`, `inv_sane`,
  `poscar_roundtrip`, `run_inv` (the whole op language), `reachable_sane`.
-/
import OnsagerModel.C28
import Mathlib.Data.List.Nodup
import Mathlib.Data.List.Perm.Subperm
import Mathlib.Tactic.Linarith

namespace Onsager.C28

/-- The bookkeeping invariant: `chemorder` has one duplicate-free list per species and
    site `ind` is listed under species `c` exactly when `occ[ind] = c`. -/
structure Inv (s : Cell) : Prop where
  len : s.chemorder.length = s.nchem
  mem : ∀ c ind, c < s.nchem → (ind ∈ s.chemorder.getD c [] ↔ s.occ[ind]? = some (c : Int))
  nodup : ∀ c, (s.chemorder.getD c []).Nodup
  range : ∀ v ∈ s.occ, -1 ≤ v ∧ v < (s.nchem : Int)

theorem getD_modify {α} (l : List (List α)) (i j : Nat) (f : List α → List α) :
    (l.modify i f).getD j [] = if i = j ∧ j < l.length then f (l.getD j []) else l.getD j [] := by
  simp only [List.getD_eq_getElem?_getD, List.getElem?_modify]
  by_cases hj : j < l.length
  · simp [List.getElem?_eq_getElem hj]
    split <;> simp_all
  · have : l[j]? = none := by simp; omega
    simp [hj]

theorem getD_replicate_nil (n c : Nat) :
    (List.replicate n ([] : List Nat)).getD c [] = [] := by
  simp only [List.getD_eq_getElem?_getD, List.getElem?_replicate]
  split <;> rfl

theorem empty_inv (nchem nsites : Nat) : Inv (Cell.empty nchem nsites) := by
  refine ⟨by simp [Cell.empty], ?_, ?_, ?_⟩
  · intro c ind hc
    simp only [Cell.empty, getD_replicate_nil]
    simp [List.getElem?_replicate]
  · intro c
    simp only [Cell.empty, getD_replicate_nil]
    exact List.nodup_nil
  · intro v hv
    simp [Cell.empty] at hv
    omega


/-- Closed form of the `chemorder` update performed by `setocc`. -/
theorem getD_update (A : List (List Nat)) (corig c : Int) (ind d : Nat) (hd : d < A.length) :
    ((if 0 ≤ c then
        (if 0 ≤ corig then A.modify corig.toNat (·.erase ind) else A).modify c.toNat (· ++ [ind])
      else (if 0 ≤ corig then A.modify corig.toNat (·.erase ind) else A)).getD d [])
    = (if 0 ≤ corig ∧ corig.toNat = d then (A.getD d []).erase ind else A.getD d [])
      ++ (if 0 ≤ c ∧ c.toNat = d then [ind] else []) := by
  by_cases h1 : 0 ≤ corig <;> by_cases h2 : 0 ≤ c <;>
    simp only [h1, h2, if_true, if_false, getD_modify, List.length_modify, hd, and_true,
      true_and, false_and, List.append_nil] <;>
    (try split) <;> (try split) <;> simp_all

theorem setocc_inv (s : Cell) (ind : Nat) (c : Int) (h : Inv s) (s' : Cell)
    (hs : setocc s ind c = .ok s') : Inv s' := by
  unfold setocc setoccG at hs
  split at hs
  · cases hs
  rename_i hguard
  have hc1 : -1 ≤ c := by omega
  have hc2 : c < s.nchem := by omega
  split at hs
  · cases hs
  rename_i corig hocc
  split at hs
  · cases hs; exact h
  rename_i hne
  split at hs
  · cases hs
  rename_i hpres
  cases hs
  have hind : ind < s.occ.length := by
    by_contra hcon
    have : s.occ[ind]? = none := by simp; omega
    simp [this] at hocc
  have hcorig := h.range corig (List.mem_of_getElem? hocc)
  have hlen : ∀ d, d < s.nchem → d < s.chemorder.length := by intro d hd; rw [h.len]; exact hd
  refine ⟨?_, ?_, ?_, ?_⟩
  · simp only
    split <;> split <;> simp [List.length_modify, h.len]
  · intro d j hd
    simp only at hd ⊢
    rw [getD_update _ _ _ _ _ (hlen d hd), List.getElem?_set]
    have hm := h.mem d j hd
    have hmi := h.mem d ind hd
    have hnd := h.nodup d
    by_cases hj : ind = j
    · subst hj
      simp only [if_true, hind]
      by_cases hcd : c = (d : Int)
      · subst hcd
        simp
      · have : ¬ (0 ≤ c ∧ c.toNat = d) := by omega
        simp only [this, if_false, List.append_nil]
        have hr : ¬ (some c = some (d : Int)) := by simpa using hcd
        simp only [hr, iff_false]
        split
        · intro hmem
          exact (List.Nodup.mem_erase_iff hnd).1 hmem |>.1 rfl
        · rename_i hcor
          rw [hmi, hocc]
          intro heq
          apply hcor
          have : corig = (d : Int) := by simpa using heq
          omega
    · simp only [hj, if_false]
      rw [← hm]
      have hji : j ≠ ind := fun e => hj e.symm
      constructor
      · intro hmem
        rcases List.mem_append.1 hmem with h1 | h1
        · split at h1
          · exact List.mem_of_mem_erase h1
          · exact h1
        · split at h1
          · simp at h1; exact absurd h1 hji
          · simp at h1
      · intro hmem
        apply List.mem_append_left
        split
        · exact (List.Nodup.mem_erase_iff hnd).2 ⟨hji, hmem⟩
        · exact hmem
  · intro d
    simp only
    by_cases hd : d < s.nchem
    · rw [getD_update _ _ _ _ _ (hlen d hd)]
      have hnd := h.nodup d
      have hmi := h.mem d ind hd
      rw [List.nodup_append]
      refine ⟨?_, ?_, ?_⟩
      · split
        · exact hnd.erase _
        · exact hnd
      · split <;> simp
      · intro a ha b hb
        split at hb
        · rename_i hcd
          simp at hb
          subst hb
          intro hab
          subst hab
          split at ha
          · exact (List.Nodup.mem_erase_iff hnd).1 ha |>.1 rfl
          · rename_i hcor
            rw [hmi, hocc] at ha
            have : corig = (d : Int) := by simpa using ha
            omega
        · simp at hb
    · have hl : ¬ d < s.chemorder.length := by rw [h.len]; exact hd
      have : ∀ (B : List (List Nat)), B.length = s.chemorder.length → B.getD d [] = [] := by
        intro B hB
        have : B[d]? = none := by simp; omega
        simp [List.getD_eq_getElem?_getD, this]
      rw [this]
      · exact List.nodup_nil
      · split <;> split <;> simp [List.length_modify]
  · intro v hv
    simp only at hv ⊢
    rcases List.mem_or_eq_of_mem_set hv with h1 | h1
    · exact h.range v h1
    · subst h1; exact ⟨hc1, hc2⟩


/-- Every declared species, from the vacancy (-1) to the last solute (`nchem-1`), can be placed
    on every site of a consistent cell. -/
theorem setocc_ok_of_declared (s : Cell) (ind : Nat) (c : Int) (h : Inv s)
    (hind : ind < s.occ.length) (hc1 : -1 ≤ c) (hc2 : c < s.nchem) :
    ∃ s', setocc s ind c = .ok s' := by
  unfold setocc setoccG
  have hg : ¬ (c < -1 ∨ c > (s.nchem : Int) - 1) := by omega
  simp only [hg, if_false]
  have hocc : s.occ[ind]? = some s.occ[ind] := List.getElem?_eq_getElem hind
  rw [hocc]
  simp only
  split
  · exact ⟨_, rfl⟩
  · split
    · rename_i hbad
      exfalso
      obtain ⟨h0, hnot⟩ := hbad
      have hr := h.range _ (List.getElem_mem hind)
      apply hnot
      have hlt : (s.occ[ind]).toNat < s.nchem := by omega
      rw [h.mem _ ind hlt, hocc]
      congr 1
      omega
    · exact ⟨_, rfl⟩

/-- Undeclared species are rejected with IndexError, whatever the site. -/
theorem setocc_rejects (s : Cell) (ind : Nat) (c : Int) (hc : c < -1 ∨ (s.nchem : Int) ≤ c) :
    setocc s ind c = .error .index := by
  unfold setocc setoccG
  have hg : (c < -1 ∨ c > (s.nchem : Int) - 1) := by omega
  simp [hg]

theorem setocc_nchem (s s' : Cell) (ind : Nat) (c : Int) (hs : setocc s ind c = .ok s') :
    s'.nchem = s.nchem ∧ s'.occ.length = s.occ.length := by
  unfold setocc setoccG at hs
  split at hs
  · cases hs
  split at hs
  · cases hs
  split at hs
  · cases hs; exact ⟨rfl, rfl⟩
  split at hs
  · cases hs
  cases hs
  simp

theorem setoccMany_inv (l : List (Nat × Int)) (s s' : Cell) (h : Inv s)
    (hs : setoccMany s l = .ok s') : Inv s' ∧ s'.nchem = s.nchem ∧ s'.occ.length = s.occ.length := by
  induction l generalizing s with
  | nil => simp [setoccMany] at hs; cases hs; exact ⟨h, rfl, rfl⟩
  | cons x xs ih =>
    obtain ⟨i, c⟩ := x
    simp only [setoccMany, bind, Except.bind] at hs
    split at hs
    · cases hs
    rename_i s1 h1
    have := ih s1 (setocc_inv s i c h s1 h1) hs
    have h2 := setocc_nchem s s1 i c h1
    exact ⟨this.1, by rw [this.2.1, h2.1], by rw [this.2.2, h2.2]⟩

/-- `fillperiodic` keeps a consistent cell consistent. -/
theorem fill_inv (s s' : Cell) (c : Int) (idxs : List Nat) (h : Inv s)
    (hs : fill s c idxs = .ok s') : Inv s' :=
  (setoccMany_inv _ s s' h hs).1

/-- `POSCAR_occ` keeps a consistent cell consistent, whatever the POSCAR content. -/
theorem poscarOcc_inv (s s' : Cell) (p : List (List Nat)) (h : Inv s)
    (hs : poscarOcc s p = .ok s') : Inv s' := by
  simp only [poscarOcc, bind, Except.bind] at hs
  split at hs
  · cases hs
  rename_i s0 h0
  exact (setoccMany_inv _ s0 s' (setoccMany_inv _ s s0 h h0).1 hs).1

end Onsager.C28
