/-
  C19 — theorems about one `Crystal.reduce` step and one `Crystal.minlattice` step
  (model: OnsagerModel/C19.lean; source: onsager/crystal.py:793-960).

  reduce step (translation `t = T/M`, pivot `m`, new cell `S = [t, e_i, e_j]`):
  * `remap_int`      with the divisibility condition `T_m ∣ M`, `T_m ∣ T_k` the new coordinates of every
                     lattice vector are integers: the old lattice is contained in the new one
                     (`remap_not_int_example`: without it they are not — the defect F25);
  * `remap_inverse3/2` the coordinate remap of the source is the inverse of `S`;
  * `newCell_det3/2`  `det S = |T_m| / M > 0`: right-handed, volume scales by `|T_m|/M`;
  * `detQ_changeMetric3/2` `det(Sᵀ g S) = (det S)² det g` (volume² of the new cell).
  minlattice step:
  * `roundHalfEven_spec`, `shear_decreases`: a shear by `u = round(a_i·a_j/|a_i|²) ≠ 0` strictly
    shortens `a_j` (termination measure `Σ|a_k|²`), `shear_diag`: the changed diagonal entry;
  * `shear_det3/2`: the shear is unimodular (det = 1); `sort_handed3/2`: after the sorting/handedness
    matrix the cell is right-handed.
  NOT proved (kept as `C19_full`): that the iterated construction returns a crystal with the same
  group order as the primitive description — it depends on C18's completeness gap and on the
  counting of atoms per new cell; covered by the correspondence / direct oracles.
-/
import OnsagerModel.C19
import OnsagerProofs.C18
import Mathlib.LinearAlgebra.Matrix.Determinant.Basic
import Mathlib.Data.Rat.Floor
import Mathlib.Tactic.FieldSimp
import Mathlib.Tactic.NormNum
import Mathlib.Tactic.Positivity

namespace Onsager.C19
open Onsager.C18 Matrix

/-! ### rounding and the Gauss shear -/

theorem rat_floor_eq (q : ℚ) : q.floor = ⌊q⌋ := rfl

theorem roundHalfEven_cases (r : ℚ) :
    (r - (⌊r⌋ : ℚ) < 1/2 ∧ roundHalfEven r = ⌊r⌋) ∨ (r - (⌊r⌋ : ℚ) > 1/2 ∧ roundHalfEven r = ⌊r⌋ + 1) ∨
    (r - (⌊r⌋ : ℚ) = 1/2 ∧ ⌊r⌋ % 2 = 0 ∧ roundHalfEven r = ⌊r⌋) ∨
    (r - (⌊r⌋ : ℚ) = 1/2 ∧ ⌊r⌋ % 2 ≠ 0 ∧ roundHalfEven r = ⌊r⌋ + 1) := by
  unfold roundHalfEven
  simp only [rat_floor_eq]
  by_cases ha : r - (⌊r⌋ : ℚ) < 1/2
  · left; exact ⟨ha, by simp only [ha, ↓reduceIte]⟩
  · by_cases hb : r - (⌊r⌋ : ℚ) > 1/2
    · right; left; exact ⟨hb, by simp only [ha, hb, ↓reduceIte]⟩
    · have heq : r - (⌊r⌋ : ℚ) = 1/2 := le_antisymm (not_lt.1 hb) (not_lt.1 ha)
      by_cases hc : ⌊r⌋ % 2 = 0
      · right; right; left; exact ⟨heq, hc, by simp only [ha, hb, hc, ↓reduceIte]⟩
      · right; right; right; exact ⟨heq, hc, by simp only [ha, hb, hc, ↓reduceIte]⟩

/-- `np.around` (half to even) is within 1/2 of its argument, and a tie is resolved to an even integer -/
theorem roundHalfEven_spec (r : ℚ) :
    |r - (roundHalfEven r : ℚ)| ≤ 1/2 ∧ (|r - (roundHalfEven r : ℚ)| = 1/2 → roundHalfEven r % 2 = 0) := by
  have h1 := Int.floor_le r
  have h2 := Int.lt_floor_add_one r
  rcases roundHalfEven_cases r with ⟨ha, he⟩ | ⟨ha, he⟩ | ⟨ha, hc, he⟩ | ⟨ha, hc, he⟩ <;> rw [he]
  · constructor
    · rw [abs_le]; constructor <;> linarith
    · intro h
      rcases abs_eq (by norm_num : (0:ℚ) ≤ 1/2) |>.1 h with h | h <;> linarith
  · constructor
    · rw [abs_le]; push_cast; constructor <;> linarith
    · intro h
      rcases abs_eq (by norm_num : (0:ℚ) ≤ 1/2) |>.1 h with h | h
      · push_cast at h; linarith
      · push_cast at h; linarith
  · exact ⟨by rw [ha]; norm_num, fun _ => hc⟩
  · constructor
    · rw [abs_le]; push_cast; constructor <;> linarith
    · intro _; omega

/-- **Termination measure**: with `u = round(r) ≠ 0`, `u (u - 2 r) < 0`. -/
theorem shear_decreases (r : ℚ) (hu : roundHalfEven r ≠ 0) :
    ((roundHalfEven r : ℚ)) * ((roundHalfEven r : ℚ) - 2 * r) < 0 := by
  obtain ⟨hle, htie⟩ := roundHalfEven_spec r
  set u := roundHalfEven r with hu_def
  rw [abs_le] at hle
  obtain ⟨hlo, hhi⟩ := hle
  rcases lt_trichotomy u 0 with hneg | hz | hpos
  · -- u ≤ -1
    have hu1 : (u : ℚ) ≤ -1 := by exact_mod_cast Int.le_sub_one_of_lt hneg
    have hfac : 0 < (u : ℚ) - 2 * r ∨ ((u : ℚ) - 2 * r = 0) := by
      by_cases h : (u : ℚ) - 2 * r = 0
      · exact Or.inr h
      · left
        have : (u : ℚ) - 2 * r ≥ 0 := by nlinarith
        exact lt_of_le_of_ne this (Ne.symm h)
    rcases hfac with h | h
    · exact mul_neg_of_neg_of_pos (by linarith) h
    · -- u = 2 r with u ≤ -1 and |r - u| ≤ 1/2 forces u = -1, r = -1/2: a tie rounded to an odd number
      exfalso
      have hr : r = (u : ℚ) / 2 := by linarith
      have hu2 : (u : ℚ) = -1 := by
        have : (u : ℚ) ≥ -1 := by rw [hr] at hlo; linarith
        linarith
      have hui : u = -1 := by exact_mod_cast hu2
      have htie' := htie (by rw [hr, hu2]; norm_num)
      rw [hui] at htie'; omega
  · exact absurd hz hu
  · have hu1 : (1 : ℚ) ≤ (u : ℚ) := by exact_mod_cast Int.add_one_le_of_lt hpos
    have hfac : (u : ℚ) - 2 * r < 0 ∨ ((u : ℚ) - 2 * r = 0) := by
      by_cases h : (u : ℚ) - 2 * r = 0
      · exact Or.inr h
      · left
        have : (u : ℚ) - 2 * r ≤ 0 := by nlinarith
        exact lt_of_le_of_ne this h
    rcases hfac with h | h
    · exact mul_neg_of_pos_of_neg (by linarith) h
    · exfalso
      have hr : r = (u : ℚ) / 2 := by linarith
      have hu2 : (u : ℚ) = 1 := by
        have : (u : ℚ) ≤ 1 := by rw [hr] at hhi; linarith
        linarith
      have hui : u = 1 := by exact_mod_cast hu2
      have htie' := htie (by rw [hr, hu2]; norm_num)
      rw [hui] at htie'; omega

/-- the squared length of the sheared vector `a_j - u a_i` in terms of the metric:
    `g_jj - 2 u g_ij + u² g_ii`, strictly smaller than `g_jj` -/
theorem shear_shortens (gii gij gjj : ℚ) (hpos : 0 < gii) (hu : roundHalfEven (gij / gii) ≠ 0) :
    gjj - 2 * (roundHalfEven (gij / gii) : ℚ) * gij + (roundHalfEven (gij / gii) : ℚ) ^ 2 * gii < gjj := by
  have h := shear_decreases (gij / gii) hu
  set u : ℚ := (roundHalfEven (gij / gii) : ℚ)
  have : gjj - 2 * u * gij + u ^ 2 * gii = gjj + gii * (u * (u - 2 * (gij / gii))) := by
    field_simp; ring
  rw [this]
  have : gii * (u * (u - 2 * (gij / gii))) < 0 := mul_neg_of_pos_of_neg hpos h
  linarith

/-! ### the reduce step -/

section Reduce
variable {d : Nat}

theorem divisible_iff (M : Nat) (T : Vec d Int) (m : Fin d) :
    divisible M T m = true ↔ (T m ∣ (M : Int)) ∧ ∀ i, T m ∣ T i := by
  simp only [divisible, Bool.and_eq_true, beq_iff_eq, List.all_eq_true, List.mem_finRange, forall_const]
  constructor
  · rintro ⟨h1, h2⟩
    exact ⟨Int.dvd_of_emod_eq_zero h1, fun i => Int.dvd_of_emod_eq_zero (h2 i)⟩
  · rintro ⟨h1, h2⟩
    exact ⟨Int.emod_eq_zero_of_dvd h1, fun i => Int.emod_eq_zero_of_dvd (h2 i)⟩

/-- **The hypothesis the source did not check (F25)**: when `T_m` divides `M` and every `T_k`, the new
    coordinates of every vector of the old lattice are integers, i.e. the old lattice is a
    sublattice of the new cell `[t, a_i, a_j]` (for any dimension and any choice of the other
    indices). -/
theorem remap_int (M : Nat) (T : Vec d Int) (m : Fin d) (others : List (Fin d)) (hT : T m ≠ 0)
    (hdiv : divisible M T m = true) (n : Vec d Int) :
    isIntVec (remapAtom M T m others (castV n)) = true := by
  obtain ⟨⟨q, hq⟩, hk⟩ := (divisible_iff M T m).1 hdiv
  have hTq : (T m : ℚ) ≠ 0 := by exact_mod_cast hT
  rw [isIntVec_iff]
  refine ⟨fun c => if c.val = 0 then n m * q else
      match others[c.val - 1]? with
      | some k => n k - n m * (Classical.choose (hk k))
      | none => 0, ?_⟩
  funext c
  simp only [remapAtom, castV]
  split_ifs with hc
  · have : ((M : ℕ) : ℚ) = (T m : ℚ) * (q : ℚ) := by exact_mod_cast hq
    rw [this]; push_cast; field_simp
  · cases hoth : others[c.val - 1]? with
    | none => simp
    | some k =>
      simp only
      have hkk := Classical.choose_spec (hk k)
      have : (T k : ℚ) = (T m : ℚ) * ((Classical.choose (hk k) : ℤ) : ℚ) := by exact_mod_cast hkk
      rw [this]; push_cast; field_simp

/-- without the divisibility condition the old lattice is NOT contained in the new cell:
    `M = 6`, `T = (2,3,0)` (the 3×2×1 supercell of the finding), `e_0 ↦ (3, -3/2, 0)` -/
theorem remap_not_int_example :
    isIntVec (remapAtom 6 (fun i : Fin 3 => if i = 0 then 2 else if i = 1 then 3 else 0) 0 [1, 2]
      (castV fun i => if i = 0 then 1 else 0)) = false := by decide +kernel

end Reduce

/-! #### three dimensions -/

theorem otherIndices3 (T : Vec 3 Int) (m : Fin 3) :
    otherIndices T m = if T m > 0 then [m + 1, m + 2] else [m + 2, m + 1] := by
  simp only [otherIndices, dite_true]
  split_ifs <;> rfl

/-- the coordinate remap of the source is the inverse of the new-cell matrix: `S · v = u` -/
theorem remap_inverse3 (M : Nat) (T : Vec 3 Int) (m : Fin 3) (hM : M ≠ 0) (hT : T m ≠ 0)
    (u : Vec 3 Rat) :
    mulVecR (newCellMatrix (fun i => (T i : ℚ) / (M : ℚ)) (otherIndices T m))
      (remapAtom M T m (otherIndices T m) u) = u := by
  have hMq : (M : ℚ) ≠ 0 := by exact_mod_cast hM
  have hTq : (T m : ℚ) ≠ 0 := by exact_mod_cast hT
  rw [otherIndices3]
  by_cases hpos : T m > 0
  · rw [if_pos hpos]
    funext r
    simp only [mulVecR, dotR_eq, Fin.sum_univ_three, newCellMatrix, remapAtom]
    fin_cases m <;> fin_cases r <;> simp at hTq ⊢ <;> field_simp <;> ring
  · rw [if_neg hpos]
    funext r
    simp only [mulVecR, dotR_eq, Fin.sum_univ_three, newCellMatrix, remapAtom]
    fin_cases m <;> fin_cases r <;> simp at hTq ⊢ <;> field_simp <;> ring

/-- `det S = |T_m| / M`: the new cell is right-handed and its volume is `|T_m|/M` of the old one -/
theorem newCell_det3 (M : Nat) (T : Vec 3 Int) (m : Fin 3) (hM : M ≠ 0) :
    detQ (newCellMatrix (fun i => (T i : ℚ) / (M : ℚ)) (otherIndices T m)) = |(T m : ℚ)| / (M : ℚ) := by
  have hMq : (M : ℚ) ≠ 0 := by exact_mod_cast hM
  rw [otherIndices3]
  by_cases hpos : T m > 0
  · have : |(T m : ℚ)| = (T m : ℚ) := abs_of_pos (by exact_mod_cast hpos)
    rw [this, if_pos hpos]
    fin_cases m <;> simp [detQ, newCellMatrix]
  · have hle : (T m : ℚ) ≤ 0 := by exact_mod_cast not_lt.1 hpos
    have : |(T m : ℚ)| = -(T m : ℚ) := abs_of_nonpos hle
    rw [this, if_neg hpos]
    fin_cases m <;> simp [detQ, newCellMatrix] <;> ring

theorem detQ_eq3 (A : Mat 3 Rat) : detQ A = Matrix.det (toM A) := by
  simp [detQ, Matrix.det_fin_three]; ring

/-- volume² of the new cell: `det(Sᵀ g S) = (det S)² det g` -/
theorem detQ_changeMetric3 (g S : Mat 3 Rat) : detQ (changeMetric g S) = (detQ S) ^ 2 * detQ g := by
  have h : changeMetric g S = (toM S)ᵀ * (toM g * toM S) := by
    simp only [changeMetric]; rw [mmulR_eq, mmulR_eq]; rfl
  rw [detQ_eq3, detQ_eq3, detQ_eq3, h, Matrix.det_mul, Matrix.det_mul, Matrix.det_transpose]
  ring

/-- shear matrices of `minlattice` are unimodular -/
theorem shear_det3 (u : Int) (a b : Fin 3) (hab : a ≠ b) :
    C18.det (fun r c : Fin 3 => if r = c then 1 else if r = a ∧ c = b then -u else 0) = 1 := by
  fin_cases a <;> fin_cases b <;> simp_all [C18.det]

/-- negating the last column flips the orientation -/
theorem det_negLast3 (P : Mat 3 Int) :
    C18.det (fun r c : Fin 3 => if c.val + 1 = 3 then - P r c else P r c) = - C18.det P := by
  simp [C18.det]; ring

/-- after the sorting / handedness matrix of `minlattice` the cell is right-handed -/
theorem sort_handed3 (sgn dP : Int) (hs : sgn = 1 ∨ sgn = -1) (hP : dP = 1 ∨ dP = -1) :
    sgn * (if sgn * dP < 0 then -dP else dP) = 1 := by
  rcases hs with rfl | rfl <;> rcases hP with rfl | rfl <;> simp

/-! #### two dimensions -/

theorem otherIndices2 (T : Vec 2 Int) (m : Fin 2) : otherIndices T m = [m + 1] := by
  simp [otherIndices]

theorem remap_inverse2 (M : Nat) (T : Vec 2 Int) (m : Fin 2) (hM : M ≠ 0) (hT : T m ≠ 0)
    (u : Vec 2 Rat) :
    mulVecR (newCellMatrix (fun i => (T i : ℚ) / (M : ℚ)) (otherIndices T m))
      (remapAtom M T m (otherIndices T m) u) = u := by
  have hMq : (M : ℚ) ≠ 0 := by exact_mod_cast hM
  have hTq : (T m : ℚ) ≠ 0 := by exact_mod_cast hT
  rw [otherIndices2]
  funext r
  simp only [mulVecR, dotR_eq, Fin.sum_univ_two, newCellMatrix, remapAtom]
  fin_cases m <;> fin_cases r <;> simp at hTq ⊢ <;> field_simp <;> ring

/-- in 2-D the source does not fix the handedness in `reduce` (it has no choice of order): the
    determinant is `± T_m / M`; `minlattice` repairs the sign afterwards (`sort_handed3`). -/
theorem newCell_det2 (M : Nat) (T : Vec 2 Int) (m : Fin 2) (hM : M ≠ 0) :
    |detQ (newCellMatrix (fun i => (T i : ℚ) / (M : ℚ)) (otherIndices T m))| = |(T m : ℚ)| / (M : ℚ) := by
  have hMq : (0 : ℚ) < (M : ℚ) := by exact_mod_cast Nat.pos_of_ne_zero hM
  rw [otherIndices2]
  fin_cases m <;> simp [detQ, newCellMatrix, abs_div, abs_of_pos hMq]

theorem detQ_eq2 (A : Mat 2 Rat) : detQ A = Matrix.det (toM A) := by
  simp [detQ, Matrix.det_fin_two]

theorem detQ_changeMetric2 (g S : Mat 2 Rat) : detQ (changeMetric g S) = (detQ S) ^ 2 * detQ g := by
  have h : changeMetric g S = (toM S)ᵀ * (toM g * toM S) := by
    simp only [changeMetric]; rw [mmulR_eq, mmulR_eq]; rfl
  rw [detQ_eq2, detQ_eq2, detQ_eq2, h, Matrix.det_mul, Matrix.det_mul, Matrix.det_transpose]
  ring

theorem shear_det2 (u : Int) :
    C18.det (fun r c : Fin 2 => if r = c then 1 else if r = 0 ∧ c = 1 then -u else 0) = 1 := by
  simp [C18.det]

/-! ### the property, and what is proved of it -/

/-- C19 for one exact supercell description: constructing the crystal (reduce, then minlattice, then
    the symmetry search) succeeds and gives `natoms`/`volume²`/handedness/group order equal to those of
    the primitive description. -/
def C19_full {d : Nat} (supercell : Cell d) (natoms : List Nat) (vol2 : ℚ) (nG : Nat) : Prop :=
  ∃ c1 c2, reduceAll true 12 supercell = .ok c1 ∧ minlatticeAll 60 c1 = some c2 ∧
    c2.crys.basis.map List.length = natoms ∧ detQ c2.crys.metric = vol2 ∧ c2.sgn = 1 ∧
    (gengroup c2.crys).length = nG

/-- executable form of `C19_full` -/
def c19Check {d : Nat} (supercell : Cell d) (natoms : List Nat) (vol2 : ℚ) (nG : Nat) : Bool :=
  match reduceAll true 12 supercell with
  | .ok c1 =>
    match minlatticeAll 60 c1 with
    | some c2 => (c2.crys.basis.map List.length == natoms) && (detQ c2.crys.metric == vol2) &&
        (c2.sgn == 1) && ((gengroup c2.crys).length == nG)
    | none => false
  | .error _ => false

theorem c19Check_sound {d : Nat} (supercell : Cell d) (natoms : List Nat) (vol2 : ℚ) (nG : Nat)
    (h : c19Check supercell natoms vol2 nG = true) : C19_full supercell natoms vol2 nG := by
  unfold c19Check at h
  cases h1 : reduceAll true 12 supercell with
  | error e => simp [h1] at h
  | ok c1 =>
    cases h2 : minlatticeAll 60 c1 with
    | none => simp [h1, h2] at h
    | some c2 =>
      simp only [h1, h2, Bool.and_eq_true, beq_iff_eq] at h
      exact ⟨c1, c2, h1, h2, h.1.1.1, h.1.1.2, h.1.2, h.2⟩

/-- non-vacuity: the 2-atom simple-cubic description of BCC reduces to the primitive BCC cell
    (one atom, volume² = 1/4, right-handed, 48 operations) -/
example : C19_full (d := 3)
    { crys := { metric := fun i j => if i = j then 1 else 0,
                basis := [[fun _ => 0, fun _ => 1/2]], spins := [[0, 0]] }, sgn := 1 }
    [1] (1/4) 48 := c19Check_sound _ _ _ _ (by decide +kernel)

end Onsager.C19
