/-
  C21 — Jump networks are complete, closed and obstruction-aware: theorems about the model
  OnsagerModel/C21.lean (any dimension `d`, any rational metric).

  Box / completeness (uses OnsagerProofs/C21Geom.lean):
  * `box_dual_complete`        every jump shorter than the cutoff has its lattice vector inside any box
                               passing the executable criterion `boxOK` (Cauchy–Schwarz)
  * `candidates_complete/sound` the enumeration lists exactly the valid jumps of the box
  * `boxA_incomplete_witness`  the |a_i| formula of the source misses a vector (kernel-checked)
  * `boxB_complete` (Geom)     the dual-basis formula misses nothing
  Classes (uses OnsagerProofs/C21Orbit.lean):
  * `act_rev`, `rev_rev`       reversal is an involution commuting with every operation
  * `dx_act`, `len2_act`       valid operations are isometries on jumps
  * `opsGroupCheck_sound`      the executable group check makes the op list `GroupLike`
  * `network_exact`            with a complete box: the classes contain exactly the jumps below the cutoff
  * `each_jump_once`           no jump is listed twice
  * `class_closed_under_G_and_reversal`
  Obstruction:
  * `blocks_rev`, `blocks_act` the per-atom test is invariant under reversal / valid operations
  * `obstructed_complete`      with a box complete for `r² + mindist²` the scan finds every blocking atom
  Lattice form:
  * `lattice_roundtrip`        `toLattice (dx J) = J.n`
-/
import OnsagerProofs.C21Geom
import OnsagerProofs.C21Orbit
import Mathlib.Data.Matrix.Mul

namespace Onsager.C21
open Onsager.Geom Finset

variable {d : Nat}

theorem Jump.ext' {a b : Jump d} (h1 : a.i = b.i) (h2 : a.j = b.j) (h3 : ∀ k, a.n.get k = b.n.get k) : a = b := by
  cases a; cases b; simp only at h1 h2 h3; subst h1; subst h2
  have := vext h3; subst this; rfl

/-- jumps with both indices in range -/
def InRange (cr : Crystal d) (chem : Nat) (J : Jump d) : Prop := J.i < cr.nat chem ∧ J.j < cr.nat chem

/-! ### reversal -/

theorem rev_rev (J : Jump d) : rev (rev J) = J := by
  apply Jump.ext' <;> simp [rev]

theorem zmulVec_get (A : ZM d) (v : ZV d) (i : Fin d) : (zmulVec A v).get i = ∑ j, ent A i j * v.get j := by
  simp [zmulVec, sumZ_eq]

theorem zqmulVec_get (A : ZM d) (v : QV d) (i : Fin d) :
    (zqmulVec A v).get i = ∑ j, ((ent A i j : ℤ) : ℚ) * v.get j := by
  simp [zqmulVec, sumQ_eq]

theorem act_rev (cr : Crystal d) (chem : Nat) (op : Op d) (J : Jump d) :
    act cr chem op (rev J) = rev (act cr chem op J) := by
  apply Jump.ext'
  · simp [act, rev]
  · simp [act, rev]
  · intro k
    simp only [act, rev, get_ofFn, zmulVec_get, mul_neg, sum_neg_distrib]
    ring

theorem rev_inRange {cr : Crystal d} {chem : Nat} {J : Jump d} (h : InRange cr chem J) : InRange cr chem (rev J) :=
  ⟨h.2, h.1⟩

/-! ### validity of operations, isometry -/

/-- what `Crystal.opValid` checks, as propositions -/
structure OpOK (cr : Crystal d) (op : Op d) : Prop where
  metric : Geom.congr cr.g op.rot = cr.g
  range : ∀ c i, i < cr.nat c → op.im c i < cr.nat c
  shift : ∀ c i, i < cr.nat c → zq (cr.delu op c i) = cr.deluQ op c i

theorem opValid_ok (cr : Crystal d) (op : Op d) (h : cr.opValid op = true) : OpOK cr op := by
  simp only [Crystal.opValid, Bool.and_eq_true, decide_eq_true_eq, List.all_eq_true, List.mem_range] at h
  obtain ⟨h1, h2⟩ := h
  have hc : ∀ c, c < cr.basis.length ∨ cr.nat c = 0 := by
    intro c
    by_cases hc : c < cr.basis.length
    · exact Or.inl hc
    · right; simp [Crystal.nat, List.getD_eq_getElem?_getD, List.getElem?_eq_none (not_lt.mp hc)]
  refine ⟨h1, ?_, ?_⟩
  · intro c i hi
    rcases hc c with hc | hc
    · exact ((h2 c hc).1 i hi).1
    · omega
  · intro c i hi
    rcases hc c with hc | hc
    · exact ((h2 c hc).1 i hi).2
    · omega

theorem valid_ops (cr : Crystal d) (h : cr.valid = true) : ∀ op ∈ cr.ops, OpOK cr op := by
  simp only [Crystal.valid, Bool.and_eq_true, List.all_eq_true] at h
  exact fun op hop => opValid_ok cr op (h.2 op hop)

theorem valid_psd (cr : Crystal d) (h : cr.valid = true) : PSD cr.g := by
  simp only [Crystal.valid, Bool.and_eq_true] at h
  exact psdCert_sound cr.g cr.ldlM cr.ldlD h.1.2

theorem valid_symm_inv (cr : Crystal d) (h : cr.valid = true) : isSymm cr.g = true ∧ isInverse cr.g cr.h = true := by
  simp only [Crystal.valid, Bool.and_eq_true] at h
  exact ⟨h.1.1.1, h.1.1.2⟩

/-- matrix and vector views -/
def matQ (g : QM d) : Matrix (Fin d) (Fin d) ℚ := fun i j => ent g i j
def matZ (A : ZM d) : Matrix (Fin d) (Fin d) ℚ := fun i j => ((ent A i j : ℤ) : ℚ)

theorem B_eq_dot (g : Fin d → Fin d → ℚ) (x y : Fin d → ℚ) :
    B g x y = x ⬝ᵥ (Matrix.mulVec (fun i j => g i j) y) := by
  simp only [B, dotProduct, Matrix.mulVec, mul_sum]
  exact sum_congr rfl fun i _ => sum_congr rfl fun j _ => by ring

theorem congr_eq (g : QM d) (A : ZM d) : matQ (Geom.congr g A) = (matZ A).transpose * matQ g * matZ A := by
  ext i j
  simp only [matQ, Geom.congr, ent, get_ofFn, sumQ_eq, Matrix.mul_apply, Matrix.transpose_apply, matZ, sum_mul]
  rw [sum_comm]

/-- a metric-preserving integer matrix preserves the bilinear form -/
theorem B_rot (g : QM d) (A : ZM d) (h : Geom.congr g A = g) (x y : Fin d → ℚ) :
    B (ent g) (Matrix.mulVec (matZ A) x) (Matrix.mulVec (matZ A) y) = B (ent g) x y := by
  have hm : (matZ A).transpose * matQ g * matZ A = matQ g := by rw [← congr_eq, h]
  rw [B_eq_dot, B_eq_dot]
  change (matZ A).mulVec x ⬝ᵥ (matQ g).mulVec ((matZ A).mulVec y) = x ⬝ᵥ (matQ g).mulVec y
  rw [← Matrix.vecMul_transpose, ← Matrix.dotProduct_mulVec, Matrix.mulVec_mulVec, Matrix.mulVec_mulVec, hm]

theorem zqmulVec_eq (A : ZM d) (v : QV d) : (zqmulVec A v).get = Matrix.mulVec (matZ A) v.get := by
  funext i; simp [zqmulVec_get, Matrix.mulVec, dotProduct, matZ]

theorem qform_rot (g : QM d) (A : ZM d) (h : Geom.congr g A = g) (x y : QV d) :
    qform g (zqmulVec A x) (zqmulVec A y) = qform g x y := by
  rw [qform_eq, qform_eq, zqmulVec_eq, zqmulVec_eq, B_rot g A h]

/-- the displacement of the image is the rotated displacement -/
theorem dx_act (cr : Crystal d) (chem : Nat) (op : Op d) (hop : OpOK cr op) (J : Jump d)
    (hJ : InRange cr chem J) : dx cr chem (act cr chem op J) = zqmulVec op.rot (dx cr chem J) := by
  apply vext; intro k
  have hj := congrArg (fun v => Vector.get v k) (hop.shift chem J.j hJ.2)
  have hi := congrArg (fun v => Vector.get v k) (hop.shift chem J.i hJ.1)
  simp only [zq, Crystal.deluQ, get_ofFn, zqmulVec_get] at hi hj
  simp only [dx, act, get_ofFn, zqmulVec_get, zmulVec_get]
  push_cast
  rw [hi, hj]
  simp only [mul_sub, mul_add, sum_add_distrib, sum_sub_distrib]
  ring

theorem act_inRange {cr : Crystal d} {chem : Nat} {op : Op d} (hop : OpOK cr op) {J : Jump d}
    (hJ : InRange cr chem J) : InRange cr chem (act cr chem op J) :=
  ⟨hop.range chem J.i hJ.1, hop.range chem J.j hJ.2⟩

theorem len2_act (cr : Crystal d) (chem : Nat) (op : Op d) (hop : OpOK cr op) (J : Jump d)
    (hJ : InRange cr chem J) : len2 cr chem (act cr chem op J) = len2 cr chem J := by
  unfold len2 norm2
  rw [dx_act cr chem op hop J hJ, qform_rot cr.g op.rot hop.metric]

theorem dx_rev (cr : Crystal d) (chem : Nat) (J : Jump d) (k : Fin d) :
    (dx cr chem (rev J)).get k = - (dx cr chem J).get k := by
  simp only [dx, rev, get_ofFn]; push_cast; ring

theorem len2_rev (cr : Crystal d) (chem : Nat) (J : Jump d) : len2 cr chem (rev J) = len2 cr chem J := by
  unfold len2
  rw [norm2_eq, norm2_eq]
  have : (dx cr chem (rev J)).get = fun k => -1 * (dx cr chem J).get k := by
    funext k; rw [dx_rev]; ring
  rw [this]
  simp only [B]
  exact sum_congr rfl fun i _ => sum_congr rfl fun j _ => by ring

theorem valid_act (cr : Crystal d) (chem : Nat) (r2 : ℚ) (op : Op d) (hop : OpOK cr op) (J : Jump d)
    (hJ : InRange cr chem J) : valid cr chem r2 (act cr chem op J) = valid cr chem r2 J := by
  simp only [valid, len2_act cr chem op hop J hJ]

theorem valid_rev (cr : Crystal d) (chem : Nat) (r2 : ℚ) (J : Jump d) :
    valid cr chem r2 (rev J) = valid cr chem r2 J := by
  simp only [valid, len2_rev]

/-- a jump that is its own reverse has zero length -/
theorem len2_zero_of_rev_eq (cr : Crystal d) (chem : Nat) (J : Jump d) (h : rev J = J) : len2 cr chem J = 0 := by
  have hi : J.j = J.i := congrArg Jump.i h
  have hn : ∀ k, J.n.get k = 0 := by
    intro k
    have := congrArg (fun K : Jump d => K.n.get k) h
    simp only [rev, get_ofFn] at this
    omega
  have hdx : (dx cr chem J).get = fun _ => (0 : ℚ) := by
    funext k; simp [dx, hn k, hi]
  unfold len2; rw [norm2_eq, hdx]; simp [B]

/-! ### the op list as a group acting on jumps -/

theorem act_eq_of_sameAct (cr : Crystal d) (chem : Nat) (k : Op d) (rot : ZM d) (im : Nat → Nat)
    (D : Nat → Nat → ZV d) (h : sameAct cr chem k rot im D = true) (J : Jump d) (hJ : InRange cr chem J) :
    act cr chem k J = { i := im J.i, j := im J.j,
                        n := vof fun t => (zmulVec rot J.n).get t + (D J.i J.j).get t } := by
  simp only [sameAct, Bool.and_eq_true, decide_eq_true_eq, List.all_eq_true, List.mem_range] at h
  obtain ⟨hr, h2⟩ := h
  apply Jump.ext'
  · simpa [act] using (h2 J.i hJ.1).1
  · simpa [act] using (h2 J.j hJ.2).1
  · intro t
    have := congrArg (fun v => Vector.get v t) ((h2 J.i hJ.1).2 J.j hJ.2)
    simp only [actD, get_ofFn] at this
    simp only [act, get_ofFn, hr]
    rw [← this]; ring

theorem zmulVec_zmul (A Bm : ZM d) (v : ZV d) : zmulVec (zmul A Bm) v = zmulVec A (zmulVec Bm v) := by
  apply vext; intro i
  simp only [zmulVec_get, zmul, ent, get_ofFn, sumZ_eq, sum_mul, mul_sum]
  rw [sum_comm]
  exact sum_congr rfl fun j _ => sum_congr rfl fun k _ => by ring

theorem zmulVec_add (A : ZM d) (v w : ZV d) (i : Fin d) :
    (zmulVec A (vof fun t => v.get t + w.get t)).get i = (zmulVec A v).get i + (zmulVec A w).get i := by
  simp only [zmulVec_get, get_ofFn, mul_add, sum_add_distrib]

theorem zmulVec_one (v : ZV d) : zmulVec oneZ v = v := by
  apply vext; intro i
  simp [zmulVec_get, oneZ, ent]

theorem zmulVec_zero (A : ZM d) (i : Fin d) : (zmulVec A zeroZ).get i = 0 := by
  simp [zmulVec_get, zeroZ]

/-- the executable group check is sound: the operations, as maps on in-range jumps, are closed
    under composition, contain an identity and inverses -/
theorem opsGroupCheck_sound (cr : Crystal d) (chem : Nat) (hv : ∀ op ∈ cr.ops, OpOK cr op)
    (h : opsGroupCheck cr chem = true) :
    GroupLike (InRange cr chem) (cr.ops.map (act cr chem)) rev := by
  simp only [opsGroupCheck, Bool.and_eq_true, List.all_eq_true, List.any_eq_true, decide_eq_true_eq,
    List.mem_range] at h
  obtain ⟨⟨hcomp, hone⟩, hinv⟩ := h
  refine ⟨?_, fun _ => rev_inRange, ?_, ?_, ?_, ?_, rev_rev⟩
  · intro f hf x hx
    obtain ⟨op, hop, rfl⟩ := List.mem_map.mp hf
    exact act_inRange (hv op hop) hx
  · intro f hf g hg
    obtain ⟨fo, hfo, rfl⟩ := List.mem_map.mp hf
    obtain ⟨go, hgo, rfl⟩ := List.mem_map.mp hg
    obtain ⟨k, hk, hsame⟩ := hcomp fo hfo go hgo
    refine ⟨act cr chem k, List.mem_map.mpr ⟨k, hk, rfl⟩, ?_⟩
    intro J hJ
    rw [act_eq_of_sameAct cr chem k _ _ _ hsame J hJ]
    apply Jump.ext'
    · simp [act]
    · simp [act]
    · intro t
      simp only [get_ofFn, zmulVec_zmul, compD]
      simp only [act, actD, get_ofFn, zmulVec_get, mul_sub, mul_add, sum_add_distrib, sum_sub_distrib]
      ring
  · obtain ⟨e, he, hsame⟩ := hone
    refine ⟨act cr chem e, List.mem_map.mpr ⟨e, he, rfl⟩, ?_⟩
    intro J hJ
    rw [act_eq_of_sameAct cr chem e _ _ _ hsame J hJ]
    apply Jump.ext' <;> simp [zmulVec_one, zeroZ]
  · intro f hf
    obtain ⟨fo, hfo, rfl⟩ := List.mem_map.mp hf
    obtain ⟨k, hk, hrot, hrest⟩ := hinv fo hfo
    refine ⟨act cr chem k, List.mem_map.mpr ⟨k, hk, rfl⟩, ?_⟩
    intro J hJ
    apply Jump.ext'
    · simpa [act] using (hrest J.i hJ.1).1
    · simpa [act] using (hrest J.j hJ.2).1
    · intro t
      have h0 := congrArg (fun v => Vector.get v t) ((hrest J.i hJ.1).2 J.j hJ.2)
      have h1 : (zmulVec k.rot (zmulVec fo.rot J.n)).get t = J.n.get t := by
        rw [← zmulVec_zmul, hrot, zmulVec_one]
      simp only [compD, actD, get_ofFn, zeroZ, zmulVec_get, mul_sub, sum_sub_distrib] at h0
      simp only [zmulVec_get] at h1
      simp only [act, get_ofFn, zmulVec_get, mul_sub, mul_add, sum_add_distrib, sum_sub_distrib]
      linarith
  · intro f hf x _
    obtain ⟨fo, _, rfl⟩ := List.mem_map.mp hf
    exact act_rev cr chem fo x

/-! ### candidates: exactly the valid jumps of the box -/

theorem mem_boxJumps (cr : Crystal d) (chem : Nat) (box : Box d) (J : Jump d) :
    J ∈ boxJumps cr chem box ↔ InRange cr chem J ∧ inBox box J.n = true := by
  simp only [boxJumps, List.mem_flatMap, List.mem_range, List.mem_map, mem_boxVecs, InRange]
  constructor
  · rintro ⟨i, hi, j, hj, n, hn, rfl⟩; exact ⟨⟨hi, hj⟩, hn⟩
  · rintro ⟨⟨hi, hj⟩, hn⟩; exact ⟨J.i, hi, J.j, hj, J.n, hn, rfl⟩

theorem mem_candidates (cr : Crystal d) (chem : Nat) (r2 : ℚ) (box : Box d) (J : Jump d) :
    J ∈ candidates cr chem r2 box ↔ InRange cr chem J ∧ inBox box J.n = true ∧ valid cr chem r2 J = true := by
  simp only [candidates, List.mem_filter, mem_boxJumps, and_assoc]

theorem absQ_eq (x : ℚ) : absQ x = |x| := by
  unfold absQ; split
  · rw [abs_of_neg ‹_›]
  · rw [abs_of_nonneg (not_lt.mp ‹_›)]

/-- `Crystal.dumax` bounds every coordinate difference of two basis atoms -/
theorem dumax_spec (cr : Crystal d) (a b : QV d) (ha : a ∈ cr.basis.flatten) (hb : b ∈ cr.basis.flatten)
    (k : Fin d) : |a.get k - b.get k| ≤ cr.dumax.get k := by
  simp only [Crystal.dumax, get_ofFn]
  -- generic: nested max-fold dominates every pair
  have inner : ∀ (us : List (QV d)) (a : QV d) (m0 : ℚ),
      m0 ≤ us.foldl (fun m b => if m < absQ (a.get k - b.get k) then absQ (a.get k - b.get k) else m) m0 ∧
      ∀ b ∈ us, |a.get k - b.get k| ≤
        us.foldl (fun m b => if m < absQ (a.get k - b.get k) then absQ (a.get k - b.get k) else m) m0 := by
    intro us a
    induction us with
    | nil => intro m0; simp
    | cons c us ih =>
      intro m0
      simp only [List.foldl_cons, List.mem_cons, forall_eq_or_imp]
      obtain ⟨h1, h2⟩ := ih (if m0 < absQ (a.get k - c.get k) then absQ (a.get k - c.get k) else m0)
      rw [← absQ_eq]
      by_cases hc : m0 < absQ (a.get k - c.get k)
      · simp only [hc, if_true] at h1 h2 ⊢; exact ⟨by linarith, h1, h2⟩
      · simp only [hc, if_false] at h1 h2 ⊢; exact ⟨h1, by linarith, h2⟩
  have outer : ∀ (vs us : List (QV d)) (m0 : ℚ),
      m0 ≤ vs.foldl (fun m a => us.foldl (fun m b => if m < absQ (a.get k - b.get k) then absQ (a.get k - b.get k) else m) m) m0 ∧
      ∀ a ∈ vs, ∀ b ∈ us, |a.get k - b.get k| ≤
        vs.foldl (fun m a => us.foldl (fun m b => if m < absQ (a.get k - b.get k) then absQ (a.get k - b.get k) else m) m) m0 := by
    intro vs us
    induction vs with
    | nil => intro m0; simp
    | cons c vs ih =>
      intro m0
      simp only [List.foldl_cons, List.mem_cons, forall_eq_or_imp]
      obtain ⟨h1, h2⟩ := ih (us.foldl (fun m b => if m < absQ (c.get k - b.get k) then absQ (c.get k - b.get k) else m) m0)
      obtain ⟨h3, h4⟩ := inner us c m0
      refine ⟨by linarith, ?_, h2⟩
      intro b hb
      linarith [h4 b hb]
  exact (outer _ _ 0).2 a ha b hb

theorem u_mem_flatten (cr : Crystal d) (c i : Nat) (hi : i < cr.nat c) : cr.u c i ∈ cr.basis.flatten := by
  unfold Crystal.nat at hi
  unfold Crystal.u
  have hc : c < cr.basis.length := by
    by_contra hc
    simp [List.getD_eq_getElem?_getD, List.getElem?_eq_none (not_lt.mp hc)] at hi
  rw [List.mem_flatten]
  refine ⟨cr.basis.getD c [], ?_, ?_⟩
  · simp [List.getD_eq_getElem?_getD, List.getElem?_eq_getElem hc]
  · simp only [List.getD_eq_getElem?_getD] at hi ⊢
    rw [List.getElem?_eq_getElem hi]
    simp

/-- **box_dual_complete** for jumps: a box passing `boxOK` (inverse metric `h`, squared cutoff `r2`,
    offsets bounded by `Crystal.dumax`) contains the lattice vector of every jump shorter than the
    cutoff. -/
theorem box_dual_complete (cr : Crystal d) (hv : cr.valid = true) (chem : Nat) (r2 : ℚ)
    (box : Box d) (hok : boxOK cr.h r2 cr.dumax box = true) (J : Jump d) (hJ : InRange cr chem J)
    (hlt : len2 cr chem J < r2) : inBox box J.n = true := by
  have hp := valid_psd cr hv
  obtain ⟨hs, hi⟩ := valid_symm_inv cr hv
  apply boxOK_complete cr.g cr.h hs hi hp r2 cr.dumax box hok J.n
    (vof fun k => (cr.u chem J.j).get k - (cr.u chem J.i).get k)
  · intro k
    rw [get_ofFn]
    exact dumax_spec cr _ _ (u_mem_flatten cr chem J.j hJ.2) (u_mem_flatten cr chem J.i hJ.1) k
  · have : (vof fun k => (J.n.get k : ℚ) + (vof fun k => (cr.u chem J.j).get k - (cr.u chem J.i).get k).get k)
        = dx cr chem J := by
      apply vext; intro k; simp only [dx, get_ofFn]; ring
    rw [this]; exact hlt

/-- with a complete box the enumeration finds every valid jump -/
theorem candidates_complete (cr : Crystal d) (hv : cr.valid = true) (chem : Nat) (r2 : ℚ)
    (box : Box d) (hok : boxOK cr.h r2 cr.dumax box = true) (J : Jump d) (hJ : InRange cr chem J)
    (hval : valid cr chem r2 J = true) : J ∈ candidates cr chem r2 box := by
  rw [mem_candidates]
  refine ⟨hJ, box_dual_complete cr hv chem r2 box hok J hJ ?_, hval⟩
  simp only [valid, Bool.and_eq_true, decide_eq_true_eq] at hval
  exact hval.2

/-! ### the network -/

theorem candidates_inRange (cr : Crystal d) (chem : Nat) (r2 : ℚ) (box : Box d) :
    ∀ c ∈ candidates cr chem r2 box, InRange cr chem c := fun c hc => ((mem_candidates ..).mp hc).1

/-- members of the classes are in-range jumps below the cutoff (soundness) -/
theorem classes_sound (cr : Crystal d) (hv : cr.valid = true) (chem : Nat) (hg : opsGroupCheck cr chem = true)
    (r2 : ℚ) (box : Box d) (tr : List (Jump d)) (htr : tr ∈ jumpClasses cr chem r2 box) (J : Jump d) (hJ : J ∈ tr) :
    InRange cr chem J ∧ valid cr chem r2 J = true := by
  have hops := valid_ops cr hv
  have G := opsGroupCheck_sound cr chem hops hg
  obtain ⟨c, hc, rfl⟩ := classes_rep G _ (candidates_inRange cr chem r2 box) tr htr
  obtain ⟨hcr, _, hcv⟩ := (mem_candidates ..).mp hc
  rw [mem_expand _ _ rev_rev] at hJ
  obtain ⟨f, hf, hJ⟩ := hJ
  obtain ⟨op, hop, rfl⟩ := List.mem_map.mp hf
  rcases hJ with rfl | rfl
  · exact ⟨act_inRange (hops op hop) hcr, by rw [valid_act cr chem r2 op (hops op hop) c hcr]; exact hcv⟩
  · exact ⟨rev_inRange (act_inRange (hops op hop) hcr),
      by rw [valid_rev, valid_act cr chem r2 op (hops op hop) c hcr]; exact hcv⟩

/-- **network_exact**: with a box that passes the completeness criterion, a jump belongs to some
    class iff it is an in-range jump with `0 < |dx|² < r²`. -/
theorem network_exact (cr : Crystal d) (hv : cr.valid = true) (chem : Nat)
    (hg : opsGroupCheck cr chem = true) (r2 : ℚ) (box : Box d) (hok : boxOK cr.h r2 cr.dumax box = true)
    (J : Jump d) :
    (∃ tr ∈ jumpClasses cr chem r2 box, J ∈ tr) ↔ (InRange cr chem J ∧ valid cr chem r2 J = true) := by
  constructor
  · rintro ⟨tr, htr, hJ⟩; exact classes_sound cr hv chem hg r2 box tr htr J hJ
  · rintro ⟨hJ, hval⟩
    have G := opsGroupCheck_sound cr chem (valid_ops cr hv) hg
    exact classes_cover G _ (candidates_inRange cr chem r2 box) J
      (candidates_complete cr hv chem r2 box hok J hJ hval)

/-- **each_jump_once**: no jump is listed twice in the whole list of classes. -/
theorem each_jump_once (cr : Crystal d) (hv : cr.valid = true) (chem : Nat) (hg : opsGroupCheck cr chem = true)
    (r2 : ℚ) (box : Box d) : (jumpClasses cr chem r2 box).flatten.Nodup := by
  have hops := valid_ops cr hv
  have G := opsGroupCheck_sound cr chem hops hg
  apply classes_flatten_nodup G _ (candidates_inRange cr chem r2 box)
  intro c hc f hf hcon
  obtain ⟨op, hop, rfl⟩ := List.mem_map.mp hf
  obtain ⟨hcr, _, hcv⟩ := (mem_candidates ..).mp hc
  have h0 := len2_zero_of_rev_eq cr chem _ hcon
  rw [len2_act cr chem op (hops op hop) c hcr] at h0
  simp only [valid, Bool.and_eq_true, decide_eq_true_eq] at hcv
  linarith [hcv.1]

/-- **class_closed_under_G_and_reversal**: every class contains the image of each of its members
    under every operation of the list, and its reverse. -/
theorem class_closed_under_G_and_reversal (cr : Crystal d) (hv : cr.valid = true) (chem : Nat)
    (hg : opsGroupCheck cr chem = true) (r2 : ℚ) (box : Box d) (tr : List (Jump d))
    (htr : tr ∈ jumpClasses cr chem r2 box) (J : Jump d) (hJ : J ∈ tr) :
    (∀ op ∈ cr.ops, act cr chem op J ∈ tr) ∧ rev J ∈ tr := by
  have G := opsGroupCheck_sound cr chem (valid_ops cr hv) hg
  obtain ⟨c, hc, rfl⟩ := classes_rep G _ (candidates_inRange cr chem r2 box) tr htr
  have hcr := ((mem_candidates ..).mp hc).1
  obtain ⟨h1, h2⟩ := expand_closed G hcr hJ
  exact ⟨fun op hop => h1 _ (List.mem_map.mpr ⟨op, hop, rfl⟩), h2⟩

/-- the same three statements for the final network (classes surviving the obstruction filter) -/
theorem network_sublist (cr : Crystal d) (chem : Nat) (r2 : ℚ) (box : Box d) (cds : List (Nat × ℚ)) :
    (network cr chem r2 box cds).Sublist (jumpClasses cr chem r2 box) := List.filter_sublist

theorem network_each_jump_once (cr : Crystal d) (hv : cr.valid = true) (chem : Nat) (hg : opsGroupCheck cr chem = true)
    (r2 : ℚ) (box : Box d) (cds : List (Nat × ℚ)) : (network cr chem r2 box cds).flatten.Nodup :=
  (each_jump_once cr hv chem hg r2 box).sublist (List.Sublist.flatten (network_sublist cr chem r2 box cds))

/-! ### lattice form -/

theorem rnd_int_add (n : ℤ) : rnd (n : ℚ) = n := by
  unfold rnd
  have h1 : ((n : ℚ) + 1 / 2).floor = n := by
    apply le_antisymm
    · have : ((n : ℚ) + 1/2).floor < n + 1 := Rat.floor_lt_iff.mpr (by push_cast; linarith)
      omega
    · exact Rat.le_floor_iff.mpr (by linarith)
  exact h1

/-- **lattice_form_same_jumps**: the lattice form `(i,j,R)` produced from the displacement is the
    lattice vector of the jump (so `dx ↦ R` loses nothing and `R ↦ dx` is injective). -/
theorem lattice_roundtrip (cr : Crystal d) (chem : Nat) (J : Jump d) :
    toLattice cr chem J.i J.j (dx cr chem J) = J.n := by
  apply vext; intro k
  simp only [toLattice, dx, get_ofFn]
  have : (J.n.get k : ℚ) + (cr.u chem J.j).get k - (cr.u chem J.i).get k + (cr.u chem J.i).get k
      - (cr.u chem J.j).get k = (J.n.get k : ℚ) := by ring
  rw [this, rnd_int_add]

theorem dx_injective (cr : Crystal d) (chem : Nat) (J K : Jump d) (hi : J.i = K.i) (hj : J.j = K.j)
    (h : dx cr chem J = dx cr chem K) : J = K := by
  apply Jump.ext' hi hj
  intro k
  have h1 := lattice_roundtrip cr chem J
  have h2 := lattice_roundtrip cr chem K
  rw [h, hi, hj] at h1
  rw [← h1, ← h2]

/-! ### obstruction -/

theorem B_lin2 (g : Fin d → Fin d → ℚ) (x1 x2 y1 y2 : Fin d → ℚ) (a b c e : ℚ) :
    B g (fun k => a * x1 k + b * x2 k) (fun k => c * y1 k + e * y2 k)
      = a * c * B g x1 y1 + a * e * B g x1 y2 + b * c * B g x2 y1 + b * e * B g x2 y2 := by
  simp only [B, mul_sum, ← sum_add_distrib]
  exact sum_congr rfl fun i _ => sum_congr rfl fun j _ => by ring

/-- a jump is blocked by a listed species: some atom in *some* cell (unbounded) passes the test -/
def Blocked (cr : Crystal d) (chem : Nat) (cds : List (Nat × ℚ)) (J : Jump d) : Prop :=
  ∃ cm ∈ cds, ∃ a, a < cr.nat cm.1 ∧ ∃ n : ZV d, blocks cr chem cm.2 J cm.1 a n = true

theorem obstructed_iff (cr : Crystal d) (chem : Nat) (box : Box d) (cds : List (Nat × ℚ)) (J : Jump d) :
    obstructed cr chem box cds J = true ↔
      ∃ cm ∈ cds, ∃ a, a < cr.nat cm.1 ∧ ∃ n : ZV d, inBox box n = true ∧ blocks cr chem cm.2 J cm.1 a n = true := by
  simp only [obstructed, obstScan, List.any_eq_true, List.mem_flatMap, List.mem_map, List.mem_range,
    mem_boxVecs, blocks]
  constructor
  · rintro ⟨⟨b, r⟩, ⟨cm, hcm, a, ha, n, hn, heq⟩, hb⟩
    simp only [Prod.mk.injEq] at heq
    exact ⟨cm, hcm, a, ha, n, hn, by rw [heq.1]; exact hb⟩
  · rintro ⟨cm, hcm, a, ha, n, hn, hb⟩
    exact ⟨(_, _), ⟨cm, hcm, a, ha, n, hn, rfl⟩, hb⟩

/-- an atom that blocks lies within `√(dx² + mindist²)` of the start of the jump -/
theorem blocks_norm_le (cr : Crystal d) (chem : Nat) (m2 : ℚ) (J : Jump d) (c a : Nat) (n : ZV d)
    (hpos : 0 < len2 cr chem J) (h : blocks cr chem m2 J c a n = true) :
    norm2 cr.g (xRa cr chem J c a n) ≤ len2 cr chem J + m2 := by
  simp only [blocks, blocksNum, pdd, Bool.and_eq_true] at h
  obtain ⟨⟨h0, h1⟩, h2⟩ := h
  have h0 := of_decide_eq_true h0
  have h1 := of_decide_eq_true h1
  have h2 := of_decide_eq_true h2
  unfold len2 at hpos ⊢
  set v2 := norm2 cr.g (dx cr chem J)
  set p := qform cr.g (xRa cr chem J c a n) (dx cr chem J)
  set x2 := norm2 cr.g (xRa cr chem J c a n)
  have : x2 * v2 ≤ (v2 + m2) * v2 := by nlinarith
  exact le_of_mul_le_mul_right this hpos

/-- **the obstruction scan is complete**: if the box passes the criterion for the squared radius
    `R2 > dx² + mindist²` then scanning the box finds every blocking atom of the infinite crystal. -/
theorem obstructed_complete (cr : Crystal d) (hv : cr.valid = true) (chem : Nat)
    (box : Box d) (cds : List (Nat × ℚ)) (R2 : ℚ) (hok : boxOK cr.h R2 cr.dumax box = true)
    (J : Jump d) (hJ : InRange cr chem J) (hpos : 0 < len2 cr chem J)
    (hR : ∀ cm ∈ cds, len2 cr chem J + cm.2 < R2) :
    obstructed cr chem box cds J = true ↔ Blocked cr chem cds J := by
  rw [obstructed_iff]
  constructor
  · rintro ⟨cm, hcm, a, ha, n, _, hb⟩; exact ⟨cm, hcm, a, ha, n, hb⟩
  · rintro ⟨cm, hcm, a, ha, n, hb⟩
    refine ⟨cm, hcm, a, ha, n, ?_, hb⟩
    have hle := blocks_norm_le cr chem cm.2 J cm.1 a n hpos hb
    have hp := valid_psd cr hv
    obtain ⟨hs, hi⟩ := valid_symm_inv cr hv
    apply boxOK_complete cr.g cr.h hs hi hp R2 cr.dumax box hok n
      (vof fun k => (cr.u cm.1 a).get k - (cr.u chem J.i).get k)
    · intro k
      rw [get_ofFn]
      exact dumax_spec cr _ _ (u_mem_flatten cr cm.1 a ha) (u_mem_flatten cr chem J.i hJ.1) k
    · have : (vof fun k => (n.get k : ℚ) + (vof fun k => (cr.u cm.1 a).get k - (cr.u chem J.i).get k).get k)
          = xRa cr chem J cm.1 a n := by
        apply vext; intro k; simp only [xRa, get_ofFn]; ring
      rw [this]
      linarith [hR cm hcm]

/-- the numbers entering the test for one atom -/
theorem blocks_eq (cr : Crystal d) (chem : Nat) (m2 : ℚ) (J : Jump d) (c a : Nat) (n : ZV d) :
    blocks cr chem m2 J c a n =
      (decide (0 ≤ B (ent cr.g) (xRa cr chem J c a n).get (dx cr chem J).get) &&
       decide (B (ent cr.g) (xRa cr chem J c a n).get (dx cr chem J).get ≤ B (ent cr.g) (dx cr chem J).get (dx cr chem J).get) &&
       decide (B (ent cr.g) (xRa cr chem J c a n).get (xRa cr chem J c a n).get * B (ent cr.g) (dx cr chem J).get (dx cr chem J).get
          - B (ent cr.g) (xRa cr chem J c a n).get (dx cr chem J).get * B (ent cr.g) (xRa cr chem J c a n).get (dx cr chem J).get
          ≤ m2 * B (ent cr.g) (dx cr chem J).get (dx cr chem J).get)) := by
  simp only [blocks, blocksNum, pdd, norm2_eq, qform_eq]

/-- **reversal**: the atom in cell `n` blocks `J` iff the same atom (cell `n − J.n` seen from the
    other end) blocks the reverse jump -/
theorem blocks_rev (cr : Crystal d) (hs : isSymm cr.g = true) (chem : Nat) (m2 : ℚ) (J : Jump d) (c a : Nat)
    (n : ZV d) :
    blocks cr chem m2 (rev J) c a (vof fun k => n.get k - J.n.get k) = blocks cr chem m2 J c a n := by
  rw [isSymm_iff] at hs
  rw [blocks_eq, blocks_eq]
  set X := (xRa cr chem J c a n).get
  set V := (dx cr chem J).get
  have hx : (xRa cr chem (rev J) c a (vof fun k => n.get k - J.n.get k)).get
      = fun k => 1 * X k + (-1) * V k := by
    funext k; simp only [xRa, dx, rev, get_ofFn, X, V]; push_cast; ring
  have hvv : (dx cr chem (rev J)).get = fun k => 0 * X k + (-1) * V k := by
    funext k; rw [dx_rev]; ring
  rw [hx, hvv]
  simp only [B_lin2]
  have hsym : B (ent cr.g) V X = B (ent cr.g) X V := B_symm _ hs V X
  rw [hsym]
  set p := B (ent cr.g) X V
  set v2 := B (ent cr.g) V V
  set x2 := B (ent cr.g) X X
  have e1 : (1 * 0 * x2 + 1 * -1 * p + -1 * 0 * p + -1 * -1 * v2) = v2 - p := by ring
  have e2 : (0 * 0 * x2 + 0 * -1 * p + -1 * 0 * p + -1 * -1 * v2) = v2 := by ring
  have e3 : (1 * 1 * x2 + 1 * -1 * p + -1 * 1 * p + -1 * -1 * v2) = x2 - 2 * p + v2 := by ring
  rw [e1, e2, e3]
  have a1 : (0 ≤ v2 - p) = (p ≤ v2) := by rw [sub_nonneg]
  have a2 : (v2 - p ≤ v2) = (0 ≤ p) := by simp
  have a3 : ((x2 - 2 * p + v2) * v2 - (v2 - p) * (v2 - p) ≤ m2 * v2) = (x2 * v2 - p * p ≤ m2 * v2) := by
    congr 1; ring
  simp only [a1, a2, a3]
  rw [Bool.and_comm (decide (p ≤ v2))]

theorem blocked_rev (cr : Crystal d) (hs : isSymm cr.g = true) (chem : Nat) (cds : List (Nat × ℚ)) (J : Jump d) :
    Blocked cr chem cds (rev J) ↔ Blocked cr chem cds J := by
  have key : ∀ K : Jump d, Blocked cr chem cds K → Blocked cr chem cds (rev K) := by
    rintro K ⟨cm, hcm, a, ha, n, hb⟩
    exact ⟨cm, hcm, a, ha, _, by rw [blocks_rev cr hs]; exact hb⟩
  exact ⟨fun h => by simpa [rev_rev] using key _ h, key J⟩

/-- **symmetry**: the image atom blocks the image jump -/
theorem blocks_act (cr : Crystal d) (chem : Nat) (op : Op d) (hop : OpOK cr op) (m2 : ℚ) (J : Jump d)
    (hJ : InRange cr chem J) (c a : Nat) (ha : a < cr.nat c) (n : ZV d) :
    blocks cr chem m2 (act cr chem op J) c (op.im c a)
        (vof fun k => (zmulVec op.rot n).get k + (cr.delu op c a).get k - (cr.delu op chem J.i).get k)
      = blocks cr chem m2 J c a n := by
  have hx : xRa cr chem (act cr chem op J) c (op.im c a)
        (vof fun k => (zmulVec op.rot n).get k + (cr.delu op c a).get k - (cr.delu op chem J.i).get k)
      = zqmulVec op.rot (xRa cr chem J c a n) := by
    apply vext; intro k
    have h1 := congrArg (fun v => Vector.get v k) (hop.shift c a ha)
    have h2 := congrArg (fun v => Vector.get v k) (hop.shift chem J.i hJ.1)
    simp only [zq, Crystal.deluQ, get_ofFn, zqmulVec_get] at h1 h2
    simp only [xRa, act, get_ofFn, zqmulVec_get, zmulVec_get]
    push_cast
    rw [h1, h2]
    simp only [mul_sub, mul_add, sum_add_distrib, sum_sub_distrib]
    ring
  simp only [blocks, pdd, norm2]
  rw [hx, dx_act cr chem op hop J hJ]
  simp only [qform_rot cr.g op.rot hop.metric]

theorem blocked_act (cr : Crystal d) (chem : Nat) (op : Op d) (hop : OpOK cr op) (cds : List (Nat × ℚ))
    (J : Jump d) (hJ : InRange cr chem J) (h : Blocked cr chem cds J) : Blocked cr chem cds (act cr chem op J) := by
  obtain ⟨cm, hcm, a, ha, n, hb⟩ := h
  exact ⟨cm, hcm, op.im cm.1 a, hop.range cm.1 a ha, _, by rw [blocks_act cr chem op hop cm.2 J hJ cm.1 a ha]; exact hb⟩

/-- **obstruction_is_geometric**: all members of a class are blocked or none is — the verdict on
    the representative (the source tests only `trans[0]`) is the verdict on every member. -/
theorem obstruction_is_geometric (cr : Crystal d) (hv : cr.valid = true) (chem : Nat)
    (hg : opsGroupCheck cr chem = true) (r2 : ℚ) (box : Box d) (cds : List (Nat × ℚ))
    (tr : List (Jump d)) (htr : tr ∈ jumpClasses cr chem r2 box) (J K : Jump d) (hJ : J ∈ tr) (hK : K ∈ tr) :
    Blocked cr chem cds J ↔ Blocked cr chem cds K := by
  have hops := valid_ops cr hv
  have G := opsGroupCheck_sound cr chem hops hg
  have hs : isSymm cr.g = true := (valid_symm_inv cr hv).1
  obtain ⟨c, hc, rfl⟩ := classes_rep G _ (candidates_inRange cr chem r2 box) tr htr
  have hcr := ((mem_candidates ..).mp hc).1
  -- every member is blocked iff the seed `c` is
  have key : ∀ M ∈ expand (cr.ops.map (act cr chem)) rev c, (Blocked cr chem cds M ↔ Blocked cr chem cds c) := by
    intro M hM
    rw [mem_expand _ _ rev_rev] at hM
    obtain ⟨f, hf, hM⟩ := hM
    obtain ⟨op, hop, rfl⟩ := List.mem_map.mp hf
    obtain ⟨k, hk, hkx⟩ := G.inv _ hf
    obtain ⟨kop, hkop, rfl⟩ := List.mem_map.mp hk
    have hfc : Blocked cr chem cds (act cr chem op c) ↔ Blocked cr chem cds c := by
      constructor
      · intro h
        have := blocked_act cr chem kop (hops kop hkop) cds _ (act_inRange (hops op hop) hcr) h
        rwa [hkx c hcr] at this
      · exact blocked_act cr chem op (hops op hop) cds c hcr
    rcases hM with rfl | rfl
    · exact hfc
    · rw [blocked_rev cr hs]; exact hfc
  rw [key J hJ, key K hK]

/-! ### the property at full strength, and its reduction to checkable hypotheses -/

/-- C21 for the model: what `Crystal.jumpnetwork` should return for a crystal, species, squared
    cutoff and obstruction list (unbounded quantifiers over all lattice vectors). -/
def C21_full (cr : Crystal d) (chem : Nat) (r2 : ℚ) (cds : List (Nat × ℚ)) (net : List (List (Jump d))) : Prop :=
  -- exactly the unobstructed in-range jumps below the cutoff
  (∀ J, (∃ tr ∈ net, J ∈ tr) ↔ (InRange cr chem J ∧ valid cr chem r2 J = true ∧ ¬ Blocked cr chem cds J)) ∧
  -- each jump once
  net.flatten.Nodup ∧
  -- classes closed under the group and reversal
  (∀ tr ∈ net, ∀ J ∈ tr, (∀ op ∈ cr.ops, act cr chem op J ∈ tr) ∧ rev J ∈ tr)

/-- **C21 (model)**: for a valid crystal (exact symmetries, PSD certificate), an op list that passes
    the group check, and a search box that passes the completeness criterion for `r² + max mindist²`
    (hence also for `r²`), the network computed by the algorithm of the source is exactly the
    specified one. -/
theorem C21_model (cr : Crystal d) (hv : cr.valid = true) (chem : Nat) (hg : opsGroupCheck cr chem = true)
    (r2 : ℚ) (box : Box d) (cds : List (Nat × ℚ)) (R2 : ℚ) (hRm : ∀ cm ∈ cds, r2 + cm.2 ≤ R2)
    (hokJ : boxOK cr.h r2 cr.dumax box = true) (hokO : boxOK cr.h R2 cr.dumax box = true) :
    C21_full cr chem r2 cds (network cr chem r2 box cds) := by
  have G := opsGroupCheck_sound cr chem (valid_ops cr hv) hg
  have hcl : ∀ tr ∈ network cr chem r2 box cds, tr ∈ jumpClasses cr chem r2 box :=
    fun tr h => (network_sublist cr chem r2 box cds).subset h
  -- a class survives iff its head is not blocked iff no member is blocked
  have hhead : ∀ tr ∈ jumpClasses cr chem r2 box, ∀ J ∈ tr,
      (tr ∈ network cr chem r2 box cds ↔ ¬ Blocked cr chem cds J) := by
    intro tr htr J hJ
    cases tr with
    | nil => simp at hJ
    | cons K rest =>
      have hK : K ∈ K :: rest := List.mem_cons_self ..
      obtain ⟨hKr, hKv⟩ := classes_sound cr hv chem hg r2 box _ htr K hK
      simp only [valid, Bool.and_eq_true, decide_eq_true_eq] at hKv
      have hoc := obstructed_complete cr hv chem box cds R2 hokO K hKr hKv.1
        (fun cm hcm => by linarith [hRm cm hcm, hKv.2])
      simp only [network, List.mem_filter, htr, true_and, Bool.not_eq_true', Bool.eq_false_iff, ne_eq, hoc]
      rw [obstruction_is_geometric cr hv chem hg r2 box cds _ htr K J hK hJ]
  refine ⟨?_, network_each_jump_once cr hv chem hg r2 box cds, ?_⟩
  · intro J
    constructor
    · rintro ⟨tr, htr, hJ⟩
      obtain ⟨h1, h2⟩ := classes_sound cr hv chem hg r2 box tr (hcl tr htr) J hJ
      exact ⟨h1, h2, (hhead tr (hcl tr htr) J hJ).mp htr⟩
    · rintro ⟨h1, h2, h3⟩
      obtain ⟨tr, htr, hJ⟩ := (network_exact cr hv chem hg r2 box hokJ J).mpr ⟨h1, h2⟩
      exact ⟨tr, (hhead tr htr J hJ).mpr h3, hJ⟩
  · intro tr htr J hJ
    exact class_closed_under_G_and_reversal cr hv chem hg r2 box tr (hcl tr htr) J hJ

/-- with the dual-basis box for the radius `r² + max mindist²` and basis coordinates that differ by
    at most 1 per axis, both box hypotheses of `C21_model` hold -/
theorem C21_dual_box (cr : Crystal d) (hv : cr.valid = true) (chem : Nat) (hg : opsGroupCheck cr chem = true)
    (r2 : ℚ) (hr : 0 ≤ r2) (cds : List (Nat × ℚ)) (R2 : ℚ) (hR : r2 ≤ R2) (hRm : ∀ cm ∈ cds, r2 + cm.2 ≤ R2)
    (hdu : ∀ k, cr.dumax.get k ≤ 1) (mode : ℕ) :
    C21_full cr chem r2 cds (network cr chem r2 (boxB mode cr.h R2) cds) := by
  obtain ⟨hs, hi⟩ := valid_symm_inv cr hv
  have hp := valid_psd cr hv
  have hokO := boxB_ok mode cr.g cr.h hs hi hp R2 (le_trans hr hR) cr.dumax hdu
  have hokJ : boxOK cr.h r2 cr.dumax (boxB mode cr.h R2) = true := by
    simp only [boxOK, decide_eq_true_eq] at hokO ⊢
    intro k
    have hpos := inv_diag_pos (ent cr.g) (ent cr.h) ((isSymm_iff _).mp hs) hp ((isInverse_iff _ _).mp hi) k
    exact ⟨(hokO k).1, le_trans (mul_le_mul_of_nonneg_right hR hpos.le) (hokO k).2⟩
  exact C21_model cr hv chem hg r2 _ cds R2 hRm hokJ hokO

/-! ### non-vacuity: a concrete crystal on which every hypothesis holds -/

section Example

/-- 2-D square lattice, species 0 at the origin, species 1 at the cell centre, point group 4mm -/
def exCr : Crystal 2 :=
  { g := ofListQM [[1, 0], [0, 1]], h := ofListQM [[1, 0], [0, 1]],
    ldlM := ofListQM [[1, 0], [0, 1]], ldlD := ofListQ [1, 1],
    basis := [[ofListQ [0, 0]], [ofListQ [1/2, 1/2]]],
    ops := [([[1, 0], [0, 1]], [0, 0]), ([[0, -1], [1, 0]], [0, 0]), ([[-1, 0], [0, -1]], [0, 0]),
            ([[0, 1], [-1, 0]], [0, 0]), ([[1, 0], [0, -1]], [0, 0]), ([[-1, 0], [0, 1]], [0, 0]),
            ([[0, 1], [1, 0]], [0, 0]), ([[0, -1], [-1, 0]], [0, 0])].map fun (r, t) =>
      { rot := ofListZM r, trans := ofListQ t, imap := [[0], [0]] } }

example : exCr.valid = true := by decide +kernel
example : opsGroupCheck exCr 0 = true := by decide +kernel
example : ∀ k, exCr.dumax.get k ≤ 1 := by decide +kernel
/-- nearest-neighbour jumps of species 0 (cutoff² = 101/100): one class of four jumps … -/
example : ((network exCr 0 (101/100) (boxB 1 exCr.h (101/100)) []).map List.length) = [4] := by decide +kernel
/-- … which is removed when species 1 must stay further than 0.6 from the path (distance is 1/2) … -/
example : (network exCr 0 (101/100) (boxB 1 exCr.h (101/100 + 36/100)) [(1, 36/100)]) = [] := by decide +kernel
/-- … and kept when the requested distance is 0.4 -/
example : ((network exCr 0 (101/100) (boxB 1 exCr.h (101/100 + 16/100)) [(1, 16/100)]).map List.length) = [4] := by
  decide +kernel
/-- the theorem applies to this crystal -/
example : C21_full exCr 0 (101/100) [(1, 36/100)] (network exCr 0 (101/100) (boxB 1 exCr.h (137/100)) [(1, 36/100)]) :=
  C21_dual_box exCr (by decide +kernel) 0 (by decide +kernel) (101/100) (by norm_num) _ (137/100) (by norm_num)
    (by intro cm hcm; simp only [List.mem_singleton] at hcm; subst hcm; norm_num) (by decide +kernel) 1

end Example

/-! ### the two box formulas -/

/-- the reduced cell the library builds for a rhombohedral lattice with `cos α = −0.485`, `a = 1` -/
def witnessG : QM 3 := #v[#v[1, -97/200, 97/200], #v[-97/200, 1, 97/200], #v[97/200, 97/200, 1]]
def witnessH : QM 3 := #v[#v[10300/891, 9700/891, -9700/891], #v[9700/891, 10300/891, -9700/891],
                          #v[-9700/891, -9700/891, 10300/891]]
def witnessN : ZV 3 := #v[3, 3, -3]

/-- **box_code_incomplete_witness**: for this positive-definite metric (`witnessH` is its inverse,
    leading minors positive) and cutoff 1.01 the lattice vector (3,3,−3) has length² 81/100 < 1.0201
    but lies outside the box `round(√(r²/g_ii)) + 1 = 2` computed from the |a_i| — the |a_i|
    formula is incomplete.  It is inside the dual-basis box. -/
theorem boxA_incomplete_witness :
    isSymm witnessG = true ∧ isInverse witnessG witnessH = true ∧
    (0 < ent witnessG 0 0 ∧ 0 < ent witnessG 0 0 * ent witnessG 1 1 - ent witnessG 0 1 * ent witnessG 1 0 ∧
      0 < ent witnessH 2 2) ∧
    0 < norm2 witnessG (zq witnessN) ∧ norm2 witnessG (zq witnessN) < 10201/10000 ∧
    inBox (boxA witnessG (10201/10000)) witnessN = false ∧
    inBox (boxB 1 witnessH (10201/10000)) witnessN = true := by
  refine ⟨by decide +kernel, by decide +kernel, by decide +kernel, ?_, ?_, ?_, ?_⟩
  · simp only [norm2, qform, zq, get_ofFn]; decide +kernel
  · simp only [norm2, qform, zq, get_ofFn]; decide +kernel
  · simp only [inBox, boxA, get_ofFn]; decide +kernel
  · simp only [inBox, boxB, get_ofFn]; decide +kernel

end Onsager.C21
