/-
  C10 — the k-space construction of the lattice Green function and the lattice equation.

  Setting: `Γ` an additive group of displacements, `K` the scalars, `R` a commutative `K`-algebra of
  "functions of q", `e : Γ → R` multiplicative (`e x` plays `exp(i q·x)`), `Avg : R →ₗ[K] K` ANY linear
  averaging functional (exact Brillouin-zone integral, k-mesh sum, …).  `ω` is the matrix over `R`
  assembled from the jumps exactly as `SetRates` assembles `omega_qij`.

    avg_residual            (W G)(i;j,z) = Avg[(ω·Ginv)_ij e(−z)]            no hypothesis on Avg or Ginv
    avg_inverse_solves      ω·Ginv = 1 and Avg[e(−z)] = δ_z0 (for i = j)  ⇒  (W G) = δ
    avg_residual_right / avg_inverse_solves_right   the operator acting on the second endpoint
    pole_split_residual     calculator = mesh average of the smooth part + exact average of the singular
                            part ⇒ defect = (AvgMesh − AvgExact)[(ω·gsc)_ij e(−z)]
    mesh_avg_char, mesh_G_solves_mod_period   uniform mesh that is a finite abelian group: the plain mesh
                            sum solves the periodic problem up to the `P/N` projector at q = 0
-/
import Mathlib.Data.Matrix.Basic
import Mathlib.Data.Matrix.Mul
import Mathlib.LinearAlgebra.Matrix.SemiringInverse
import Mathlib.Algebra.Group.AddChar
import Mathlib.Algebra.BigOperators.Ring.Finset
import Mathlib.Algebra.Algebra.Pi
import Mathlib.Tactic.Ring

namespace Onsager.C10

set_option linter.unusedSectionVars false

open Finset Matrix

/-- A jump network in cell coordinates: jump `a` goes from site `src a` to site `dst a` of the cell
    displaced by `d a`, with (symmetrised) rate `r a`; `esc i` is the diagonal (minus escape rate). -/
structure Net (ι S Γ K : Type*) where
  src : ι → S
  dst : ι → S
  d : ι → Γ
  r : ι → K
  esc : S → K

section Avg
variable {ι S Γ K R : Type*} [Fintype ι] [Fintype S] [DecidableEq S] [AddCommGroup Γ]
  [CommRing K] [CommRing R] [Algebra K R]

/-- `ω(q)` as a matrix over the ring `R` of "functions of q" (`e x` plays `exp(i q·x)`):
    mirrors `FTjumps[J,:,i,j] += exp(1j q·dx)` weighted by `symmrate`, plus `escape` on the diagonal. -/
def Net.omega (W : Net ι S Γ K) (e : Γ → R) : Matrix S S R := fun i k =>
  (∑ a, if W.src a = i ∧ W.dst a = k then algebraMap K R (W.r a) * e (W.d a) else 0)
    + if i = k then algebraMap K R (W.esc i) else 0

/-- `G(i,j,z) = Avg[ Ginv_ij(q) e^{-iq·z} ]` (`GFCrystalcalc.__call__`, k-sum part). -/
def GF (Avg : R →ₗ[K] K) (e : Γ → R) (Ginv : Matrix S S R) (i j : S) (z : Γ) : K :=
  Avg (Ginv i j * e (-z))

/-- The lattice operator acting on the first endpoint of a two-point function. -/
def Net.applyL (W : Net ι S Γ K) (G : S → S → Γ → K) (i j : S) (z : Γ) : K :=
  (∑ a, if W.src a = i then W.r a * G (W.dst a) j (z - W.d a) else 0) + W.esc i * G i j z

theorem avg_residual (W : Net ι S Γ K) (e : Γ → R) (he : ∀ x y, e (x + y) = e x * e y)
    (Avg : R →ₗ[K] K) (Ginv : Matrix S S R) (i j : S) (z : Γ) :
    W.applyL (GF Avg e Ginv) i j z = Avg ((W.omega e * Ginv) i j * e (-z)) := by
  have hterm : ∀ a : ι, (if W.src a = i then W.r a * GF Avg e Ginv (W.dst a) j (z - W.d a) else 0)
      = Avg (∑ k, (if W.src a = i ∧ W.dst a = k then algebraMap K R (W.r a) * e (W.d a) else 0)
            * Ginv k j * e (-z)) := by
    intro a
    by_cases h : W.src a = i
    · simp only [h, true_and, ite_mul, zero_mul, Finset.sum_ite_eq, Finset.mem_univ, if_true]
      unfold GF
      have : algebraMap K R (W.r a) * e (W.d a) * Ginv (W.dst a) j * e (-z)
          = W.r a • (Ginv (W.dst a) j * e (-(z - W.d a))) := by
        rw [Algebra.smul_def, neg_sub, sub_eq_add_neg, he]; ring
      rw [this, map_smul, smul_eq_mul]
    · simp [h]
  have hesc : W.esc i * GF Avg e Ginv i j z
      = Avg (∑ k, (if i = k then algebraMap K R (W.esc i) else 0) * Ginv k j * e (-z)) := by
    simp only [ite_mul, zero_mul, Finset.sum_ite_eq, Finset.mem_univ, if_true]
    unfold GF
    rw [mul_assoc, ← Algebra.smul_def, map_smul, smul_eq_mul]
  unfold Net.applyL
  rw [hesc, Finset.sum_congr rfl (fun a _ => hterm a), ← map_sum, ← map_add]
  congr 1
  rw [Matrix.mul_apply, Finset.sum_mul, Finset.sum_comm, ← Finset.sum_add_distrib]
  refine Finset.sum_congr rfl fun k _ => ?_
  unfold Net.omega
  rw [add_mul, add_mul, Finset.sum_mul, Finset.sum_mul]


/-- `avg_inverse_solves`: with an exact inverse and an averaging functional that has the character
    property on the separations that can occur between *equal* sites, the k-space construction solves
    the lattice equation.  (For `i = j` the separation `z` is a lattice vector.) -/
theorem avg_inverse_solves [DecidableEq Γ] (W : Net ι S Γ K) (e : Γ → R) (he : ∀ x y, e (x + y) = e x * e y)
    (Avg : R →ₗ[K] K) (Ginv : Matrix S S R) (hinv : W.omega e * Ginv = 1)
    (i j : S) (z : Γ) (hchar : i = j → Avg (e (-z)) = if z = 0 then 1 else 0) :
    W.applyL (GF Avg e Ginv) i j z = if i = j ∧ z = 0 then 1 else 0 := by
  rw [avg_residual W e he, hinv, Matrix.one_apply]
  by_cases h : i = j
  · simp only [h, if_true, one_mul, true_and]; exact hchar h
  · simp [h]

/-- The same with the operator acting on the second endpoint (jumps *into* `j`). -/
def Net.applyR (W : Net ι S Γ K) (G : S → S → Γ → K) (i j : S) (z : Γ) : K :=
  (∑ a, if W.dst a = j then G i (W.src a) (z - W.d a) * W.r a else 0) + G i j z * W.esc j

theorem avg_residual_right (W : Net ι S Γ K) (e : Γ → R) (he : ∀ x y, e (x + y) = e x * e y)
    (Avg : R →ₗ[K] K) (Ginv : Matrix S S R) (i j : S) (z : Γ) :
    W.applyR (GF Avg e Ginv) i j z = Avg ((Ginv * W.omega e) i j * e (-z)) := by
  have hterm : ∀ a : ι, (if W.dst a = j then GF Avg e Ginv i (W.src a) (z - W.d a) * W.r a else 0)
      = Avg (∑ k, Ginv i k * (if W.src a = k ∧ W.dst a = j then algebraMap K R (W.r a) * e (W.d a) else 0)
            * e (-z)) := by
    intro a
    by_cases h : W.dst a = j
    · simp only [h, and_true, mul_ite, ite_mul, mul_zero, zero_mul, Finset.sum_ite_eq, Finset.mem_univ, if_true]
      unfold GF
      have : Ginv i (W.src a) * (algebraMap K R (W.r a) * e (W.d a)) * e (-z)
          = W.r a • (Ginv i (W.src a) * e (-(z - W.d a))) := by
        rw [Algebra.smul_def, neg_sub, sub_eq_add_neg, he]; ring
      rw [this, map_smul, smul_eq_mul, mul_comm]
    · simp [h]
  have hesc : GF Avg e Ginv i j z * W.esc j
      = Avg (∑ k, Ginv i k * (if k = j then algebraMap K R (W.esc k) else 0) * e (-z)) := by
    simp only [mul_ite, ite_mul, mul_zero, zero_mul, Finset.sum_ite_eq', Finset.mem_univ, if_true]
    unfold GF
    have : Ginv i j * algebraMap K R (W.esc j) * e (-z) = W.esc j • (Ginv i j * e (-z)) := by
      rw [Algebra.smul_def]; ring
    rw [this, map_smul, smul_eq_mul, mul_comm]
  unfold Net.applyR
  rw [hesc, Finset.sum_congr rfl (fun a _ => hterm a), ← map_sum, ← map_add]
  congr 1
  rw [Matrix.mul_apply, Finset.sum_mul, Finset.sum_comm, ← Finset.sum_add_distrib]
  refine Finset.sum_congr rfl fun k _ => ?_
  unfold Net.omega
  rw [mul_add, add_mul, Finset.mul_sum, Finset.sum_mul]

theorem avg_inverse_solves_right [DecidableEq Γ] (W : Net ι S Γ K) (e : Γ → R) (he : ∀ x y, e (x + y) = e x * e y)
    (Avg : R →ₗ[K] K) (Ginv : Matrix S S R) (hinv : W.omega e * Ginv = 1)
    (i j : S) (z : Γ) (hchar : i = j → Avg (e (-z)) = if z = 0 then 1 else 0) :
    W.applyR (GF Avg e Ginv) i j z = if i = j ∧ z = 0 then 1 else 0 := by
  rw [avg_residual_right W e he, mul_eq_one_comm.mp hinv, Matrix.one_apply]
  by_cases h : i = j
  · simp only [h, if_true, one_mul, true_and]; exact hchar h
  · simp [h]

/-- `applyL` is additive in the two-point function. -/
theorem applyL_add (W : Net ι S Γ K) (G H : S → S → Γ → K) (i j : S) (z : Γ) :
    W.applyL (fun i j z => G i j z + H i j z) i j z = W.applyL G i j z + W.applyL H i j z := by
  unfold Net.applyL
  have : ∀ a : ι, (if W.src a = i then W.r a * (G (W.dst a) j (z - W.d a) + H (W.dst a) j (z - W.d a)) else 0)
      = (if W.src a = i then W.r a * G (W.dst a) j (z - W.d a) else 0)
        + (if W.src a = i then W.r a * H (W.dst a) j (z - W.d a) else 0) := by
    intro a; split <;> ring
  rw [Finset.sum_congr rfl (fun a _ => this a), Finset.sum_add_distrib]; ring

/-- `pole_split_residual`: the calculator evaluates the smooth ("semicontinuum") part `gsc = ω⁻¹ − gT`
    with one functional (the k-mesh sum) and the singular part `gT` with another (the analytic inverse
    transform).  Its defect in the lattice equation is exactly the difference of the two functionals
    on `(ω·gsc)_ij e^{-iq·z}`: the quadrature defect of a smooth function. -/
theorem pole_split_residual [DecidableEq Γ] (W : Net ι S Γ K) (e : Γ → R) (he : ∀ x y, e (x + y) = e x * e y)
    (AvgMesh AvgExact : R →ₗ[K] K) (gsc gT : Matrix S S R) (hinv : W.omega e * (gsc + gT) = 1)
    (i j : S) (z : Γ) (hchar : i = j → AvgExact (e (-z)) = if z = 0 then 1 else 0) :
    W.applyL (fun i j z => GF AvgMesh e gsc i j z + GF AvgExact e gT i j z) i j z
      = (if i = j ∧ z = 0 then 1 else 0)
        + (AvgMesh ((W.omega e * gsc) i j * e (-z)) - AvgExact ((W.omega e * gsc) i j * e (-z))) := by
  rw [applyL_add, avg_residual W e he, avg_residual W e he]
  have h1 := avg_inverse_solves W e he AvgExact (gsc + gT) hinv i j z hchar
  rw [avg_residual W e he, Matrix.mul_add, Matrix.add_apply, add_mul, map_add] at h1
  rw [← h1]; ring

/-- `pole_split_identity` (trivial, pins what the two code halves must sum to). -/
theorem pole_split_identity (Avg : R →ₗ[K] K) (a b : R) : Avg a = Avg (a - b) + Avg b := by
  rw [← map_add, sub_add_cancel]

end Avg

/-! ### Plain mesh sums: the periodic problem -/
section Mesh
variable {ι S Γ K Q : Type*} [Fintype ι] [Fintype S] [DecidableEq S] [AddCommGroup Γ]
  [Field K] [Fintype Q] [DecidableEq Q]

/-- uniform mesh average as a linear functional on functions of the mesh point -/
def meshAvg (K Q : Type*) [Field K] [Fintype Q] : (Q → K) →ₗ[K] K where
  toFun f := (Fintype.card Q : K)⁻¹ * ∑ q, f q
  map_add' f g := by simp [Finset.sum_add_distrib, mul_add]
  map_smul' c f := by simp [Finset.mul_sum, mul_left_comm]

/-- `mesh_avg_char`: on a mesh that is a finite abelian group, the average of the character
    `q ↦ χ_x(q)` is 1 when it is trivial (x in the period lattice of the mesh) and 0 otherwise. -/
theorem mesh_avg_char [AddCommGroup Q] (hcard : (Fintype.card Q : K) ≠ 0) (ψ : AddChar Q K)
    [Decidable (ψ = 0)] :
    meshAvg K Q (fun q => ψ q) = if ψ = 0 then 1 else 0 := by
  show (Fintype.card Q : K)⁻¹ * ∑ q, ψ q = _
  rw [AddChar.sum_eq_ite]
  split
  · exact inv_mul_cancel₀ hcard
  · simp

/-- `mesh_G_solves_mod_period`: the plain mesh sum of a pointwise inverse, with a pseudo-inverse at
    the Γ point (`ω(0) Ginv(0) = 1 − P`), solves the periodic problem exactly up to the `P/N` projector term. -/
theorem mesh_G_solves_mod_period [AddCommGroup Q] (hcard : (Fintype.card Q : K) ≠ 0)
    (W : Net ι S Γ K) (χ : Γ → AddChar Q K) (hχ : ∀ x y, χ (x + y) = χ x * χ y)
    [∀ x, Decidable (χ x = 0)]
    (Ginv : Matrix S S (Q → K)) (P : Matrix S S K)
    (hinv : ∀ q i j, (W.omega (fun x q => χ x q) * Ginv) i j q
        = (if i = j then 1 else 0) - if q = 0 then P i j else 0)
    (i j : S) (z : Γ) :
    W.applyL (GF (meshAvg K Q) (fun x q => χ x q) Ginv) i j z
      = (if i = j ∧ χ (-z) = 0 then 1 else 0) - (Fintype.card Q : K)⁻¹ * P i j := by
  rw [avg_residual W _ (by intro x y; funext q; simp [hχ])]
  have hfun : ((W.omega (fun x q => χ x q) * Ginv) i j * fun q => χ (-z) q)
      = (fun q => (if i = j then (χ (-z)) q else 0)) - fun q => if q = 0 then P i j else 0 := by
    funext q
    simp only [Pi.mul_apply, Pi.sub_apply, hinv q i j, sub_mul]
    congr 1
    · split <;> simp
    · split
      · next h => subst h; simp
      · simp
  rw [hfun, map_sub]
  congr 1
  · by_cases h : i = j
    · simp only [h, if_true, true_and]; exact mesh_avg_char hcard _
    · simp only [h, if_false, false_and]; exact map_zero _
  · show (Fintype.card Q : K)⁻¹ * ∑ q, (if q = 0 then P i j else 0) = _
    simp

end Mesh

end Onsager.C10
